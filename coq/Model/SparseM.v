(* Model of the dof-dof sparsity structure and of the sparse inertia-matrix routines:
     mj_makeDofDofSparse              src/engine/engine_io.c
     mj_factorI, mj_solveLD           src/engine/engine_core_smooth.c   (index = NULL, one vector)
     mj_mulM = mju_mulSymVecSparse, mj_fullM = mju_sym2dense            (Model/Sparse.v)
   Generic over Lib/Num.v (R for theorems, PrimFloat for the correspondence runs).

   Structure.  dof_parentid is a list of Z (-1 = no parent).  Row i of the lower-triangular
   (upper = false) structure is the ancestor chain of i in increasing order followed by i itself;
   with reduced = true the rows of "simple" dofs (dof_simplenum[i] <> 0) are the diagonal only;
   with upper = true every row also lists the dofs of which i is an ancestor (whose own row is
   not reduced to the diagonal), in increasing order.  The functions return the C arrays
   rownnz, rowadr, diag, colind.  (The C code fills colind through per-row cursors running
   backwards over the dofs; the arrays are tied exactly by correspondence.)
   The ancestor walk `while ((j = dof_parentid[j]) >= 0)` has no bound in C; the model uses
   fuel nv, which is enough exactly when parents precede children (the theorems assume it).

   Values.  A matrix with this structure is given by its rows of values (row i has rownnz[i]
   values, diagonal last), i.e. the slices of the C array M / qLD at rowadr. *)
From Coq Require Import ZArith List Bool Arith.
From MJV Require Import Lib.Num Model.Sparse.
Import ListNotations.

(* ---------------------------------------------------------------- structure *)
Definition parentOf (par : list Z) (j : nat) : Z := nth j par (-1)%Z.

(* j, parent j, parent (parent j), ... while >= 0 *)
Fixpoint chain (fuel : nat) (par : list Z) (j : Z) : list nat :=
  match fuel with
  | O => []
  | S f => if (j <? 0)%Z then [] else Z.to_nat j :: chain f par (parentOf par (Z.to_nat j))
  end.
(* proper ancestors of i, nearest first *)
Definition ancestors (nv : nat) (par : list Z) (i : nat) : list nat := chain nv par (parentOf par i).

Definition isSimple (simple : list Z) (i : nat) : bool := negb (nth i simple 0 =? 0)%Z.
Definition diagOnly (simple : list Z) (reduced : bool) (i : nat) : bool := reduced && isSimple simple i.

Definition lowrow (nv : nat) (par simple : list Z) (reduced : bool) (i : nat) : list nat :=
  if diagOnly simple reduced i then [i] else rev (ancestors nv par i) ++ [i].
Definition uprow (nv : nat) (par simple : list Z) (reduced : bool) (i : nat) : list nat :=
  filter (fun k => negb (diagOnly simple reduced k) && existsb (Nat.eqb i) (ancestors nv par k))
         (seq (S i) (nv - S i)).
Definition dofdof_rows (nv : nat) (par simple : list Z) (reduced upper : bool) : list (list nat) :=
  map (fun i => lowrow nv par simple reduced i ++ (if upper then uprow nv par simple reduced i else []))
      (seq 0 nv).

(* (rownnz, rowadr, diag, colind) *)
Definition makeDofDofSparse (nv : nat) (par simple : list Z) (reduced upper : bool)
  : list nat * list nat * list nat * list nat :=
  let rs := dofdof_rows nv par simple reduced upper in
  (map (@length nat) rs, psums 0 (map (@length nat) rs),
   map (fun i => length (lowrow nv par simple reduced i) - 1) (seq 0 nv), concat rs).

Section SparseM.
Context {T : Type} `{Num T}.
Local Open Scope num_scope.

(* ---------------------------------------------------------------- mj_factorI (index = NULL) *)
(* rows: values of row i (diagonal last); cols: column indices of row i (the structure) *)
Definition addToScl_prefix (dst src : list T) (scl : T) : list T :=
  (* mju_addToScl(dst, src, scl, length dst): dst[j] += src[j]*scl *)
  map (fun p => fst p + snd p * scl) (combine dst src).

(* one pass of the inner loop: adr = end-1 .. start; rk is row k (never modified by the loop) *)
Definition factor_row_update (cols_k : list nat) (rk : list T) (invD : T) (rows : list (list T))
  : list (list T) :=
  fold_left (fun rows adr =>
               let i := nth adr cols_k O in
               let scl := (- nth adr rk nzero) * invD in
               upd i (addToScl_prefix (nth i rows []) rk scl) rows)
            (rev (seq 0 (length rk - 1))) rows.

Definition factor_step (cols : list (list nat)) (st : list (list T) * list T) (k : nat)
  : list (list T) * list T :=
  let '(rows, dinv) := st in
  let rk := nth k rows [] in
  let d := (length rk - 1)%nat in
  let invD := none / nth d rk nzero in
  let rows1 := factor_row_update (nth k cols []) rk invD rows in
  (upd k (map (fun x => x * invD) (firstn d rk) ++ [nth d rk nzero]) rows1, upd k invD dinv).

(* returns (qLD rows, qLDiagInv) *)
Definition factorI (nv : nat) (cols : list (list nat)) (rows : list (list T)) : list (list T) * list T :=
  fold_left (factor_step cols) (rev (seq 0 nv)) (rows, repeat nzero nv).

(* ---------------------------------------------------------------- mj_solveLD (n = 1, index = NULL) *)
(* x <- L^-T x : for i = nv-1 .. 0, if x[i] != 0: x[col] -= L(i,col) * x[i] for the off-diagonals *)
Definition solve_LT (nv : nat) (cols : list (list nat)) (rows : list (list T)) (x : list T) : list T :=
  fold_left (fun x i =>
               let ri := nth i rows [] in
               if Nat.eqb (length ri) 1 then x
               else
                 let xi := nth i x nzero in
                 if nz xi then
                   fold_left (fun x p => upd (fst p) (nth (fst p) x nzero - snd p * xi) x)
                             (combine (removelast (nth i cols [])) (removelast ri)) x
                 else x)
            (rev (seq 0 nv)) x.
(* x <- D^-1 x *)
Definition solve_D (dinv x : list T) : list T := map (fun p => fst p * snd p) (combine x dinv).
(* x <- L^-1 x : for i = 0 .. nv-1: x[i] -= dotSparse(L(i, :), x) over the off-diagonals *)
Definition solve_L (nv : nat) (cols : list (list nat)) (rows : list (list T)) (x : list T) : list T :=
  fold_left (fun x i =>
               let ri := nth i rows [] in
               if Nat.leb (length ri) 1 then x
               else upd i (nth i x nzero - dotSparse (combine (removelast (nth i cols [])) (removelast ri)) x) x)
            (seq 0 nv) x.
Definition solveLD (nv : nat) (cols : list (list nat)) (rows : list (list T)) (dinv x : list T) : list T :=
  solve_L nv cols rows (solve_D dinv (solve_LT nv cols rows x)).

(* the CSR matrix (Model/Sparse.v) with the given structure and rows of values *)
Definition csr_of (cols : list (list nat)) (rows : list (list T)) : csr T :=
  mkcsr (map (@length nat) cols) (psums 0 (map (@length nat) cols))
        (concat (map (fun p => combine (fst p) (snd p)) (combine cols rows))).

End SparseM.
