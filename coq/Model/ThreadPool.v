(* Model of src/engine/engine_thread.cc (ThreadPoolContext, mju_threadpool, mju_dispatch) as an
   interleaving semantics: one atomic operation, one thread operation (spawn/join/exit), one API
   call/return, or one task begin/end per step.  Sequentially consistent: every operation acts on
   the single shared state.  Any number of workers, any number of tasks, any history of calls.
   Definitions only; all executable (the trace validation replays implementation event logs
   through [step] inside Coq). *)
From Coq Require Import ZArith List Bool.
Import ListNotations.
Open Scope Z_scope.

(* ---- events: what the instrumented implementation logs, one per visible operation ---- *)
Inductive ev :=
| ECallPool (n : Z)              (* main: mju_threadpool(d, n) entered *)
| ERetPool                       (* main: mju_threadpool returned *)
| ECallDispatch (k : Z)          (* main: mju_dispatch(.., ntask = k) entered *)
| ERetDispatch                   (* main: mju_dispatch returned *)
| EInit (obj v : Z)              (* std::atomic<int> constructed with value v (no scheduling point) *)
| EStore (obj v : Z)
| ELoad (obj v : Z)              (* load returned v *)
| EFetchAdd (obj old d : Z)      (* fetch_add(d) returned old *)
| EWaitRet (obj old : Z)         (* wait(old) returned *)
| ENotify (obj : Z)              (* notify_all *)
| ESpawn (child : Z)             (* std::thread constructed; child = global id of the new thread *)
| EJoin (child : Z)              (* join() returned *)
| EExit                          (* thread function returned *)
| EBegin (tid task : Z)          (* task function entered with (thread_id, task_id) = (tid, task) *)
| EEnd (tid task : Z).           (* task function about to return *)

(* ---- worker program counter (ThreadPoolContext::Worker) ---- *)
Inductive wpc :=
| WWait (s : Z)       (* at signal_.wait(status) with status = s *)
| WLoad               (* wait returned; at status = signal_.load() *)
| WClaim (s : Z)      (* at next_.fetch_add(1) *)
| WBegin (s t : Z)    (* claimed t < ntask_; about to call func_ *)
| WEnd (s t : Z)      (* inside func_(.., threadId, t) *)
| WDone (s : Z)       (* at ndone_.fetch_add(1) *)
| WRet                (* loaded status 0: returning from Worker *)
| WExited.

Record worker := mkW { wid : Z;   (* the threadId argument of Worker: i + 1 *)
                       wp : wpc }.

(* ---- main-thread program counter ---- *)
Inductive mpc :=
| MIdle                              (* outside any API call *)
(* mju_dispatch, serial path (no pool or ntask < 2) *)
| MSer (i k : Z)                     (* loop head: i < k ? func(0,i) : return *)
| MSerRun (i k : Z)                  (* inside func(.., 0, i) *)
(* ThreadPoolContext::Dispatch *)
| D1                                 (* at next_.store(0) *)
| D2                                 (* at ndone_.store(0) *)
| D3                                 (* at signal_.load() *)
| D4 (v : Z)                         (* at signal_.store(-v) *)
| D5                                 (* at signal_.notify_all() *)
| D6                                 (* at next_.fetch_add(1) *)
| D7 (t : Z)                         (* claimed t; about to call func_(.., 0, t) *)
| D8 (t : Z)                         (* inside func_(.., 0, t) *)
| D9                                 (* at ndone_.load() < nthread *)
| D10                                (* Dispatch returned; mju_dispatch about to return *)
(* mju_threadpool *)
| PRet                               (* about to return *)
| PDelStore (n : Z)                  (* ~ThreadPoolContext: at signal_.store(0); n = requested size *)
| PDelNotify (n : Z)                 (* at signal_.notify_all() *)
| PDelJoin (j n : Z)                 (* at threads_[j].join() *)
| PNewInit (r n : Z)                 (* new ThreadPoolContext(n): r-th atomic member initialiser *)
| PNewSpawn (j n : Z).               (* at threads_[j] = std::thread(Worker, this, j + 1) *)

Record st := mkSt {
  pool : bool;        (* d->threadpool != 0 *)
  nthr : Z;           (* threads_.size() *)
  sig : Z; nxt : Z; ndn : Z;   (* signal_, next_, ndone_ *)
  ntask : Z;          (* ntask_ (plain field written by Dispatch, read by the claim loops) *)
  ws : list worker;   (* worker threads, in spawn order *)
  mp : mpc;
  (* identification of log objects/threads (ghost) *)
  onext : Z; odone : Z; osig : Z;    (* log ids of the three atomics, bound at construction *)
  nsp : Z;            (* number of threads spawned so far in this run (main is thread 0) *)
  base : Z;           (* worker index j of the current pool is log thread base + j + 1 *)
  (* ghost history of the current API call *)
  bk : Z;             (* ntask argument of the current / last mju_dispatch call *)
  started : list (Z * Z);    (* (thread_id, task_id) of every task-function entry, newest first *)
  finished : list (Z * Z)    (* (thread_id, task_id) of every task-function exit *)
}.

Definition init : st :=
  mkSt false 0 0 0 0 0 [] MIdle 0 0 0 0 0 0 [] [].

Definition set_mp (s : st) (m : mpc) : st :=
  mkSt (pool s) (nthr s) (sig s) (nxt s) (ndn s) (ntask s) (ws s) m
       (onext s) (odone s) (osig s) (nsp s) (base s) (bk s) (started s) (finished s).
Definition set_sig (s : st) (v : Z) (m : mpc) : st :=
  mkSt (pool s) (nthr s) v (nxt s) (ndn s) (ntask s) (ws s) m
       (onext s) (odone s) (osig s) (nsp s) (base s) (bk s) (started s) (finished s).
Definition set_nxt (s : st) (v : Z) (m : mpc) : st :=
  mkSt (pool s) (nthr s) (sig s) v (ndn s) (ntask s) (ws s) m
       (onext s) (odone s) (osig s) (nsp s) (base s) (bk s) (started s) (finished s).
Definition set_ndn (s : st) (v : Z) (m : mpc) : st :=
  mkSt (pool s) (nthr s) (sig s) (nxt s) v (ntask s) (ws s) m
       (onext s) (odone s) (osig s) (nsp s) (base s) (bk s) (started s) (finished s).
Definition set_ws (s : st) (l : list worker) : st :=
  mkSt (pool s) (nthr s) (sig s) (nxt s) (ndn s) (ntask s) l (mp s)
       (onext s) (odone s) (osig s) (nsp s) (base s) (bk s) (started s) (finished s).
Definition add_started (s : st) (p : Z * Z) : st :=
  mkSt (pool s) (nthr s) (sig s) (nxt s) (ndn s) (ntask s) (ws s) (mp s)
       (onext s) (odone s) (osig s) (nsp s) (base s) (bk s) (p :: started s) (finished s).
Definition add_finished (s : st) (p : Z * Z) : st :=
  mkSt (pool s) (nthr s) (sig s) (nxt s) (ndn s) (ntask s) (ws s) (mp s)
       (onext s) (odone s) (osig s) (nsp s) (base s) (bk s) (started s) (p :: finished s).

Fixpoint upd {A} (i : nat) (x : A) (l : list A) : list A :=
  match l, i with
  | [], _ => []
  | _ :: r, O => x :: r
  | y :: r, S i' => y :: upd i' x r
  end.

(* the task ids 0 .. n-1 of a batch (empty when n <= 0) *)
Definition zseq (n : Z) : list Z := map Z.of_nat (seq 0 (Z.to_nat n)).

Definition guard (b : bool) (s : st) : option st := if b then Some s else None.

(* ---- one step of the main thread ---- *)
Definition mstep (s : st) (e : ev) : option st :=
  match mp s, e with
  (* API entry *)
  | MIdle, ECallPool n =>
      let s0 := mkSt (pool s) (nthr s) (sig s) (nxt s) (ndn s) (ntask s) (ws s) MIdle
                     (onext s) (odone s) (osig s) (nsp s) (base s) (bk s) [] [] in
      if pool s then
        if n =? nthr s then Some (set_mp s0 PRet) else Some (set_mp s0 (PDelStore n))
      else if 1 <=? n then Some (set_mp s0 (PNewInit 0 n)) else Some (set_mp s0 PRet)
  | MIdle, ECallDispatch k =>
      if negb (pool s) || (k <? 2) then
        Some (mkSt (pool s) (nthr s) (sig s) (nxt s) (ndn s) (ntask s) (ws s) (MSer 0 k)
                   (onext s) (odone s) (osig s) (nsp s) (base s) k [] [])
      else
        Some (mkSt (pool s) (nthr s) (sig s) (nxt s) (ndn s) k (ws s) D1
                   (onext s) (odone s) (osig s) (nsp s) (base s) k [] [])
  (* serial dispatch *)
  | MSer i k, EBegin tid t =>
      guard ((i <? k) && (tid =? 0) && (t =? i)) (add_started (set_mp s (MSerRun i k)) (0, i))
  | MSer i k, ERetDispatch => guard (negb (i <? k)) (set_mp s MIdle)
  | MSerRun i k, EEnd tid t =>
      guard ((tid =? 0) && (t =? i)) (add_finished (set_mp s (MSer (i + 1) k)) (0, i))
  (* Dispatch *)
  | D1, EStore o v => guard ((o =? onext s) && (v =? 0)) (set_nxt s 0 D2)
  | D2, EStore o v => guard ((o =? odone s) && (v =? 0)) (set_ndn s 0 D3)
  | D3, ELoad o v => guard ((o =? osig s) && (v =? sig s)) (set_mp s (D4 v))
  | D4 v0, EStore o v => guard ((o =? osig s) && (v =? - v0)) (set_sig s (- v0) D5)
  | D5, ENotify o => guard (o =? osig s) (set_mp s D6)
  | D6, EFetchAdd o old d =>
      guard ((o =? onext s) && (old =? nxt s) && (d =? 1))
            (set_nxt s (nxt s + 1) (if old <? ntask s then D7 old else D9))
  | D7 t, EBegin tid t' =>
      guard ((tid =? 0) && (t' =? t)) (add_started (set_mp s (D8 t)) (0, t))
  | D8 t, EEnd tid t' =>
      guard ((tid =? 0) && (t' =? t)) (add_finished (set_mp s D6) (0, t))
  | D9, ELoad o v =>
      guard ((o =? odone s) && (v =? ndn s)) (set_mp s (if v <? nthr s then D9 else D10))
  | D10, ERetDispatch => Some (set_mp s MIdle)
  (* mju_threadpool *)
  | PRet, ERetPool => Some (set_mp s MIdle)
  | PDelStore n, EStore o v => guard ((o =? osig s) && (v =? 0)) (set_sig s 0 (PDelNotify n))
  | PDelNotify n, ENotify o => guard (o =? osig s) (set_mp s (PDelJoin 0 n))
  | PDelJoin j n, EJoin c =>
      match nth_error (ws s) (Z.to_nat j) with
      | Some w =>
          match wp w with
          | WExited =>
              if negb ((0 <=? j) && (c =? base s + j + 1)) then None
              else if j + 1 <? Z.of_nat (length (ws s)) then Some (set_mp s (PDelJoin (j + 1) n))
              else (* last join: delete completes, d->threadpool = 0 *)
                Some (mkSt false 0 (sig s) (nxt s) (ndn s) (ntask s) []
                           (if 1 <=? n then PNewInit 0 n else PRet)
                           (onext s) (odone s) (osig s) (nsp s) (base s) (bk s)
                           (started s) (finished s))
          | _ => None
          end
      | None => None
      end
  | PNewInit r n, EInit o v =>
      if r =? 0 then
        guard (v =? 0)
              (mkSt (pool s) (nthr s) (sig s) 0 (ndn s) (ntask s) (ws s) (PNewInit 1 n)
                    o (odone s) (osig s) (nsp s) (base s) (bk s) (started s) (finished s))
      else if r =? 1 then
        guard (v =? 0)
              (mkSt (pool s) (nthr s) (sig s) (nxt s) 0 (ntask s) (ws s) (PNewInit 2 n)
                    (onext s) o (osig s) (nsp s) (base s) (bk s) (started s) (finished s))
      else
        guard (v =? 1)
              (mkSt true n 1 (nxt s) (ndn s) (ntask s) [] (PNewSpawn 0 n)
                    (onext s) (odone s) o (nsp s) (nsp s) (bk s) (started s) (finished s))
  | PNewSpawn j n, ESpawn c =>
      guard (c =? base s + j + 1)
            (mkSt (pool s) (nthr s) (sig s) (nxt s) (ndn s) (ntask s)
                  (ws s ++ [mkW (j + 1) (WWait 1)])
                  (if j + 1 <? n then PNewSpawn (j + 1) n else PRet)
                  (onext s) (odone s) (osig s) (nsp s + 1) (base s) (bk s)
                  (started s) (finished s))
  | _, _ => None
  end.

(* ---- one step of worker number k (position in [ws]) ---- *)
Definition wstep_pc (s : st) (w : worker) (e : ev) : option (st * wpc) :=
  match wp w, e with
  | WWait s0, EWaitRet o old =>
      if (o =? osig s) && (old =? s0) && negb (sig s =? s0) then Some (s, WLoad) else None
  | WLoad, ELoad o v =>
      if (o =? osig s) && (v =? sig s) then Some (s, if v =? 0 then WRet else WClaim v) else None
  | WClaim s0, EFetchAdd o old d =>
      if (o =? onext s) && (old =? nxt s) && (d =? 1)
      then Some (set_nxt s (nxt s + 1) (mp s), if old <? ntask s then WBegin s0 old else WDone s0)
      else None
  | WBegin s0 t, EBegin tid t' =>
      if (tid =? wid w) && (t' =? t) then Some (add_started s (wid w, t), WEnd s0 t) else None
  | WEnd s0 t, EEnd tid t' =>
      if (tid =? wid w) && (t' =? t) then Some (add_finished s (wid w, t), WClaim s0) else None
  | WDone s0, EFetchAdd o old d =>
      if (o =? odone s) && (old =? ndn s) && (d =? 1)
      then Some (set_ndn s (ndn s + 1) (mp s), WWait s0) else None
  | WRet, EExit => Some (s, WExited)
  | _, _ => None
  end.

Definition wstep (s : st) (k : nat) (e : ev) : option st :=
  match nth_error (ws s) k with
  | Some w =>
      match wstep_pc s w e with
      | Some (s', p) => Some (set_ws s' (upd k (mkW (wid w) p) (ws s)))
      | None => None
      end
  | None => None
  end.

(* ---- labelled step: log thread t performs event e ---- *)
Definition step (s : st) (t : Z) (e : ev) : option st :=
  if t =? 0 then mstep s e
  else if pool s && (base s + 1 <=? t) then wstep s (Z.to_nat (t - base s - 1)) e
  else None.

Fixpoint run (s : st) (l : list (Z * ev)) : option st :=
  match l with
  | [] => Some s
  | (t, e) :: r => match step s t e with Some s' => run s' r | None => None end
  end.

(* number of events accepted before the first rejected one (diagnostics) *)
Fixpoint run_prefix (s : st) (l : list (Z * ev)) (n : Z) : Z :=
  match l with
  | [] => n
  | (t, e) :: r => match step s t e with Some s' => run_prefix s' r (n + 1) | None => n end
  end.

(* ---- executable state predicates used by the trace checker ---- *)
Definition wpc_parked (sg : Z) (p : wpc) : bool :=
  match p with WWait s0 => s0 =? sg | _ => false end.

Definition quiescent_b (s : st) : bool :=
  match mp s with
  | MIdle =>
      if pool s then
        (1 <=? nthr s) && (Z.of_nat (length (ws s)) =? nthr s) &&
        ((sig s =? 1) || (sig s =? -1)) &&
        forallb (fun w => wpc_parked (sig s) (wp w)) (ws s)
      else match ws s with [] => true | _ => false end
  | _ => false
  end.

(* checker for one implementation log: accepted, ends quiescent, with the pool in the state the
   implementation reported (pool_at_end) *)
Definition accepts (l : list (Z * ev)) (pool_at_end : bool) : bool :=
  match run init l with
  | Some s => quiescent_b s && Bool.eqb (pool s) pool_at_end
  | None => false
  end.

(* ---- measure (variant) used by the termination theorems ---- *)
Definition max0 (z : Z) : Z := Z.max 0 z.

Inductive phase := PhNone | PhPre | PhB | PhDel.

Definition phase_of (m : mpc) : phase :=
  match m with
  | D1 | D2 | D3 | D4 _ => PhPre
  | D5 | D6 | D7 _ | D8 _ | D9 | D10 => PhB
  | PDelStore _ | PDelNotify _ | PDelJoin _ _ => PhDel
  | _ => PhNone
  end.

Definition wcost (ph : phase) (sg : Z) (p : wpc) : Z :=
  match ph with
  | PhNone => 0
  | PhPre =>
      match p with WWait _ => 4 | _ => 0 end
  | PhB =>
      match p with
      | WWait s0 => if s0 =? sg then 0 else 4
      | WLoad => 3 | WClaim _ => 2 | WBegin _ _ => 4 | WEnd _ _ => 3 | WDone _ => 1
      | _ => 0
      end
  | PhDel =>
      match p with WWait _ => 3 | WLoad => 2 | WRet => 1 | _ => 0 end
  end.

Fixpoint sumZ (l : list Z) : Z := match l with [] => 0 | x :: r => x + sumZ r end.

Definition after_del (n : Z) : Z := if 1 <=? n then 4 + n else 1.

Definition mcost (s : st) : Z :=
  let T := 3 * max0 (ntask s - nxt s) in
  match mp s with
  | MIdle => 0
  | MSer i k => 1 + 2 * max0 (k - i)
  | MSerRun i k => 2 * max0 (k - i)
  | D1 => 8 + 3 * max0 (ntask s)
  | D2 => 7 + T | D3 => 6 + T | D4 _ => 5 + T | D5 => 4 + T
  | D6 => 3 + T | D7 _ => 5 + T | D8 _ => 4 + T | D9 => 2 + T | D10 => 1
  | PRet => 1
  | PDelStore n => 2 + Z.of_nat (length (ws s)) + after_del n
  | PDelNotify n => 1 + Z.of_nat (length (ws s)) + after_del n
  | PDelJoin j n => max0 (Z.of_nat (length (ws s)) - j) + after_del n
  | PNewInit r n => max0 (3 - r) + 1 + max0 n
  | PNewSpawn j n => 1 + max0 (n - j)
  end.

Definition zmeasure (s : st) : Z :=
  mcost s + sumZ (map (fun w => wcost (phase_of (mp s)) (sig s) (wp w)) (ws s)).

Definition measure (s : st) : nat := Z.to_nat (zmeasure s).
