(* Model of doc/generate/mjcf_schema.py (C41): lexer (_TOKEN_RE/_lex), recursive-descent _Parser,
   _validate, _check_group_cycle, Schema.expanded_attrs_rec/_group_attrs, _validate_attr, parse_string_rec.

   Definitions only, executable.  Text = list of Unicode code points (N).  Python exceptions other
   than SchemaError are NOT totalised away: indexing the token list past its end yields
   [PyExn IndexError], a missing dict key [PyExn KeyError], exceeding the interpreter's recursion
   limit [PyExn RecursionError]; loops carry fuel and yield [PyExn FuelOut] when it runs out (the
   theorems show that FuelOut/IndexError/KeyError never happen).

   Conventions that tie the model to CPython 3.12 (checked by the correspondence run):
   - [\d] of a str pattern matches every Unicode decimal digit (category Nd): table [nd_starts];
     int()/float() accept them with value (c - start) mod 10;
   - int() of more than 4300 digits raises ValueError (sys.get_int_max_str_digits());
   - float() rounds the decimal to the nearest binary64, ties to even ([dec2sf]);
   - str.strip() strips the characters of [is_pyspace];
   - [rl] = number of Python frames available below _validate when it runs (recursion limit minus
     the depth of the caller); only the two recursive functions and the SchemaError constructor
     called from the deepest of them are charged against it. *)
From Coq Require Import String Ascii.
From Coq Require Import NArith ZArith List Bool.
From Coq Require Import Floats.SpecFloat.
Import ListNotations.
Open Scope N_scope.

Definition str := list N.

Definition nstr (s : String.string) : str := map Ascii.N_of_ascii (String.list_ascii_of_string s).

Fixpoint str_eqb (a b : str) : bool :=
  match a, b with
  | [], [] => true
  | x :: r, y :: q => (x =? y) && str_eqb r q
  | _, _ => false
  end.

(* Python's > on str: lexicographic by code point *)
Fixpoint str_gtb (a b : str) : bool :=
  match a, b with
  | [], _ => false
  | _ :: _, [] => true
  | x :: r, y :: q => if x =? y then str_gtb r q else y <? x
  end.

Definition ostr_eqb (a b : option str) : bool :=
  match a, b with
  | Some x, Some y => str_eqb x y
  | None, None => true
  | _, _ => false
  end.

Fixpoint smem (x : str) (l : list str) : bool :=
  match l with [] => false | y :: r => str_eqb x y || smem x r end.

Fixpoint osmem (x : option str) (l : list (option str)) : bool :=
  match l with [] => false | y :: r => ostr_eqb x y || osmem x r end.

(* ------------------------------------------------------------------ character classes *)

Definition in_range (lo hi c : N) : bool := (lo <=? c) && (c <=? hi).

(* first code point of every run of ten Unicode decimal digits (Unicode 15.0, CPython 3.12) *)
Definition nd_starts : list N :=
  [48; 1632; 1776; 1984; 2406; 2534; 2662; 2790; 2918; 3046; 3174; 3302; 3430; 3558; 3664; 3792;
   3872; 4160; 4240; 6112; 6160; 6470; 6608; 6784; 6800; 6992; 7088; 7232; 7248; 42528; 43216;
   43264; 43472; 43504; 43600; 44016; 65296; 66720; 68912; 69734; 69872; 69942; 70096; 70384;
   70736; 70864; 71248; 71360; 71472; 71904; 72016; 72784; 73040; 73120; 73552; 92768; 92864;
   93008; 120782; 120792; 120802; 120812; 120822; 123200; 123632; 124144; 125264; 130032].

Fixpoint nd_find (c : N) (l : list N) : option N :=
  match l with
  | [] => None
  | s :: r => if (s <=? c) && (c <? s + 10) then Some s else nd_find c r
  end.

Definition digit_start (c : N) : option N :=
  if c <? 128 then (if in_range 48 57 c then Some 48 else None) else nd_find c nd_starts.

Definition is_digit (c : N) : bool :=
  match digit_start c with Some _ => true | None => false end.

Definition digit_val (c : N) : Z :=
  match digit_start c with Some s => Z.of_N (c - s) | None => 0%Z end.

Definition is_alpha_ (c : N) : bool := in_range 65 90 c || in_range 97 122 c || (c =? 95).
Definition is_alnum_ (c : N) : bool := is_alpha_ c || in_range 48 57 c.
Definition is_ws (c : N) : bool := (c =? 32) || (c =? 9).
Definition not_nl (c : N) : bool := negb (c =? 10).
Definition str_char (c : N) : bool := negb (c =? 34) && negb (c =? 10).

(* {}()[]<>:=,?!*+ *)
Definition is_punct (c : N) : bool :=
  (c =? 123) || (c =? 125) || (c =? 40) || (c =? 41) || (c =? 91) || (c =? 93) || (c =? 60) ||
  (c =? 62) || (c =? 58) || (c =? 61) || (c =? 44) || (c =? 63) || (c =? 33) || (c =? 42) ||
  (c =? 43).

(* Py_UNICODE_ISSPACE *)
Definition is_pyspace (c : N) : bool :=
  in_range 9 13 c || in_range 28 32 c || (c =? 133) || (c =? 160) || (c =? 5760) ||
  in_range 8192 8202 c || (c =? 8232) || (c =? 8233) || (c =? 8239) || (c =? 8287) || (c =? 12288).

Fixpoint span (p : N -> bool) (l : str) : str * str :=
  match l with
  | [] => ([], [])
  | c :: r => if p c then let (a, b) := span p r in (c :: a, b) else ([], l)
  end.

Fixpoint dropw (p : N -> bool) (l : str) : str :=
  match l with
  | [] => []
  | c :: r => if p c then dropw p r else l
  end.

Definition strip_by (p : N -> bool) (s : str) : str := rev (dropw p (rev (dropw p s))).
Definition py_strip (s : str) : str := strip_by is_pyspace s.
Definition strip_quotes (s : str) : str := strip_by (fun c => c =? 34) s.   (* .strip of the double-quote character *)

(* ------------------------------------------------------------------ results *)

Inductive pyexn := IndexError | KeyError | RecursionError | FuelOut | TypeError.

Inductive result (A : Type) :=
| Ok (a : A)
| SchemaErr (line : N)
| PyExn (e : pyexn).
Arguments Ok {A} a.
Arguments SchemaErr {A} line.
Arguments PyExn {A} e.

(* ------------------------------------------------------------------ lexer *)

Inductive tkind := KString | KNumber | KDotdot | KIdent | KPunct (c : N) | KEof.

Definition tkind_eqb (a b : tkind) : bool :=
  match a, b with
  | KString, KString | KNumber, KNumber | KDotdot, KDotdot | KIdent, KIdent | KEof, KEof => true
  | KPunct x, KPunct y => x =? y
  | _, _ => false
  end.

Record token := Tok { tk : tkind; tv : str; tln : N }.

(* exponent part  (?:[eE][+-]?\d+)?  : returns (matched, rest) *)
Definition match_exp (l : str) : str * str :=
  match l with
  | e :: r =>
    if (e =? 101) || (e =? 69) then
      match r with
      | s :: r' =>
        if (s =? 43) || (s =? 45) then
          let (ds, r'') := span is_digit r' in
          match ds with [] => ([], l) | _ => (e :: s :: ds, r'') end
        else
          let (ds, r'') := span is_digit r in
          match ds with [] => ([], l) | _ => (e :: ds, r'') end
      | [] => ([], l)
      end
    else ([], l)
  | [] => ([], l)
  end.

(* the number alternative of _TOKEN_RE at the head of l: optional minus; then either digits+ with an
   optional fraction (a dot NOT followed by a dot, then digits, possibly none) or a dot and digits+;
   then the optional exponent *)
Definition match_number (l : str) : option (str * str) :=
  let '(sgn, l1) := match l with c :: r => if c =? 45 then ([45], r) else ([], l) | [] => ([], l) end in
  let (ds, l2) := span is_digit l1 in
  match ds with
  | _ :: _ =>
    let '(frac, l3) :=
      match l2 with
      | d :: r =>
        if d =? 46 then
          match r with
          | d2 :: _ => if d2 =? 46 then ([], l2) else let (fd, r') := span is_digit r in (46 :: fd, r')
          | [] => ([46], [])
          end
        else ([], l2)
      | [] => ([], l2)
      end in
    let (ex, l4) := match_exp l3 in
    Some (sgn ++ ds ++ frac ++ ex, l4)
  | [] =>
    match l1 with
    | d :: r =>
      if d =? 46 then
        let (fd, r') := span is_digit r in
        match fd with
        | [] => None
        | _ => let (ex, l4) := match_exp r' in Some (sgn ++ 46 :: fd ++ ex, l4)
        end
      else None
    | [] => None
    end
  end.

Inductive lexeme :=
| LWs | LNewline
| LComment (s : str)
| LTok (k : tkind) (v : str).

(* one application of _TOKEN_RE.match at the head of l, alternatives in the order of the pattern *)
Definition lex1 (l : str) : option (lexeme * str) :=
  match l with
  | [] => None
  | c :: r =>
    if is_ws c then let (_, r') := span is_ws r in Some (LWs, r')
    else if c =? 35 then let (s, r') := span not_nl r in Some (LComment s, r')
    else if c =? 10 then Some (LNewline, r)
    else
      match (if c =? 34 then
               let (s, r') := span str_char r in
               match r' with
               | q :: r'' => if q =? 34 then Some (LTok KString (c :: s ++ [34]), r'') else None
               | [] => None
               end
             else None) with
      | Some x => Some x
      | None =>
        match match_number l with
        | Some (v, r') => Some (LTok KNumber v, r')
        | None =>
          match (if c =? 46 then match r with d :: r' => if d =? 46 then Some (LTok KDotdot [46; 46], r') else None | [] => None end
                 else None) with
          | Some x => Some x
          | None =>
            if is_alpha_ c then let (s, r') := span is_alnum_ r in Some (LTok KIdent (c :: s), r')
            else if is_punct c then Some (LTok (KPunct c) [c], r)
            else None
          end
        end
      end
  end.

Definition comments := list (N * str).

Fixpoint lex_loop (fuel : nat) (l : str) (line : N) : result (list token * comments) :=
  match l with
  | [] => Ok ([Tok KEof [] line], [])
  | _ =>
    match fuel with
    | O => PyExn FuelOut
    | S f =>
      match lex1 l with
      | None => SchemaErr line
      | Some (lx, r) =>
        match lx with
        | LWs => lex_loop f r line
        | LNewline => lex_loop f r (line + 1)
        | LComment v =>
          match lex_loop f r line with
          | Ok (ts, cs) => Ok (ts, (line, py_strip v) :: cs)
          | e => e
          end
        | LTok k v =>
          match lex_loop f r line with
          | Ok (ts, cs) => Ok (Tok k v line :: ts, cs)
          | e => e
          end
        end
      end
    end
  end.

Definition lex (text : str) : result (list token * comments) := lex_loop (List.length text) text 1.

(* comments[line] = ... ; a later comment on the same line would overwrite (cannot happen: a comment
   extends to the end of its line).  The list is in text order, the LAST entry for a line wins. *)
Fixpoint doc_for (cs : comments) (line : N) : option str :=
  match cs with
  | [] => None
  | (l, s) :: r => match doc_for r line with Some x => Some x | None => if l =? line then Some s else None end
  end.

(* ------------------------------------------------------------------ numbers *)

Definition fl := spec_float.

Fixpoint digits_val (l : str) (acc : Z) : Z :=
  match l with [] => acc | c :: r => digits_val r (acc * 10 + digit_val c)%Z end.

Definition max_str_digits : nat := 4300.

(* int(token.value) on a number token: None = ValueError *)
Definition py_int (s : str) : option Z :=
  let '(neg, body) := match s with c :: r => if c =? 45 then (true, r) else (false, s) | [] => (false, s) end in
  match body with
  | [] => None
  | _ =>
    if forallb is_digit body then
      if (max_str_digits <? List.length body)%nat then None
      else let v := digits_val body 0%Z in Some (if neg then (- v)%Z else v)
    else None
  end.

Definition prec := 53%Z.
Definition emax := 1024%Z.

Fixpoint ndigits10 (fuel : nat) (m : Z) : Z :=
  match fuel with
  | O => 0%Z
  | S f => if (m <=? 0)%Z then 0%Z else (1 + ndigits10 f (m / 10))%Z
  end.

(* correctly rounded (nearest, ties to even) binary64 of (-1)^neg * m * 10^e10, m >= 0 *)
Definition dec2sf (neg : bool) (m : Z) (ndig : Z) (e10 : Z) : fl :=
  match m with
  | Z0 => S754_zero neg
  | Zneg _ => S754_nan
  | Zpos mp =>
    (* ndig = number of decimal digits of m:  10^(ndig-1+e10) <= m * 10^e10 < 10^(ndig+e10) *)
    if (310 <? ndig + e10)%Z then S754_infinity neg
    else if (ndig + e10 <? -330)%Z then S754_zero neg
    else if (0 <=? e10)%Z then binary_round prec emax neg (mp * Z.to_pos (10 ^ e10)) 0
    else
      let d := (10 ^ (- e10))%Z in
      let s := (Z.log2 d + 70)%Z in
      let num := Z.shiftl m s in
      let q := (num / d)%Z in
      let sticky := if (num mod d =? 0)%Z then 0%Z else 1%Z in
      binary_round prec emax neg (Z.to_pos (2 * q + sticky)) (- s - 1)
  end.

(* float(token.value) on a number token *)
Definition py_float (s : str) : fl :=
  let '(neg, b0) := match s with c :: r => if c =? 45 then (true, r) else (false, s) | [] => (false, s) end in
  let (ip, b1) := span is_digit b0 in
  let '(fp, b2) := match b1 with c :: r => if c =? 46 then span is_digit r else ([], b1) | [] => ([], b1) end in
  let ex :=
    match b2 with
    | _e :: r =>
      match r with
      | sg :: r' =>
        if sg =? 45 then (- digits_val r' 0)%Z
        else if sg =? 43 then digits_val r' 0%Z
        else digits_val r 0%Z
      | [] => 0%Z
      end
    | [] => 0%Z
    end in
  let ds := dropw (fun c => digit_val c =? 0)%Z (ip ++ fp) in
  let m := digits_val ds 0%Z in
  dec2sf neg m (Z.of_nat (List.length ds)) (ex - Z.of_nat (List.length fp)).

Definition sf_one : fl := S754_finite false 4503599627370496 (-52).

Definition sf_is_zero (f : fl) : bool := match f with S754_zero _ => true | _ => false end.
Definition sf_gtb (a b : fl) : bool :=
  match SFcompare a b with Some Gt => true | _ => false end.

(* ------------------------------------------------------------------ schema *)

Inductive atype := TDouble | TFloat | TInt | TBool | TString | TFile | TChars | TEnum | TFlags | TId | TRef.

Definition atype_eqb (a b : atype) : bool :=
  match a, b with
  | TDouble, TDouble | TFloat, TFloat | TInt, TInt | TBool, TBool | TString, TString | TFile, TFile
  | TChars, TChars | TEnum, TEnum | TFlags, TFlags | TId, TId | TRef, TRef => true
  | _, _ => false
  end.

Inductive arity_hi := HiInt (n : Z) | HiSym (s : str) | HiNone.
Record arity := Arity { alo : Z; ahi : arity_hi }.

Inductive dflt := DNone | DNum (f : fl) | DStr (s : str) | DTuple (l : list fl).
Inductive fval := FTrue | FStr (s : str) | FNum (f : fl).
Definition facets := list (str * fval).

Record attr := Attr {
  a_name : str; a_type : atype; a_target : option str; a_arity : arity; a_default : dflt;
  a_facets : facets; a_doc : option str; a_line : N }.

Inductive ckind := CExclusive | CTogether | CRequires | COneof.

Inductive member :=
| MAttr (a : attr)
| MUse (g : str) (line : N)
| MChild (name : str) (card : str) (doc : option str) (line : N)
| MConst (field value : str) (doc : option str) (line : N)
| MCon (kind : ckind) (bundles : list (list str)) (doc : option str) (line : N).

Record group := Group { g_name : str; g_variant : bool; g_members : list member; g_doc : option str; g_line : N }.
Record element := Element { e_name : str; e_spec : option str; e_facets : facets; e_members : list member;
                            e_doc : option str; e_line : N }.
Record enum := Enum { en_name : str; en_ctype : option str; en_items : list (str * str); en_doc : option str;
                      en_line : N }.
(* dicts in insertion order; keys are the names *)
Record schema := Schema { s_enums : list enum; s_groups : list group; s_elements : list element }.

Fixpoint find_enum (l : list enum) (n : str) : option enum :=
  match l with [] => None | e :: r => if str_eqb (en_name e) n then Some e else find_enum r n end.
Fixpoint find_group (l : list group) (n : str) : option group :=
  match l with [] => None | e :: r => if str_eqb (g_name e) n then Some e else find_group r n end.
Fixpoint find_element (l : list element) (n : str) : option element :=
  match l with [] => None | e :: r => if str_eqb (e_name e) n then Some e else find_element r n end.

Fixpoint fget (f : facets) (k : str) : option fval :=
  match f with [] => None | (k', v) :: r => if str_eqb k' k then Some v else fget r k end.
Definition fhas (f : facets) (k : str) : bool := match fget f k with Some _ => true | None => false end.

(* ------------------------------------------------------------------ keywords *)

Definition k_enum := Eval vm_compute in nstr "enum"%string.
Definition k_group := Eval vm_compute in nstr "group"%string.
Definition k_element := Eval vm_compute in nstr "element"%string.
Definition k_variant := Eval vm_compute in nstr "variant"%string.
Definition k_use := Eval vm_compute in nstr "use"%string.
Definition k_set := Eval vm_compute in nstr "set"%string.
Definition k_child := Eval vm_compute in nstr "child"%string.
Definition k_exclusive := Eval vm_compute in nstr "exclusive"%string.
Definition k_together := Eval vm_compute in nstr "together"%string.
Definition k_requires := Eval vm_compute in nstr "requires"%string.
Definition k_oneof := Eval vm_compute in nstr "oneof"%string.
Definition k_flags := Eval vm_compute in nstr "flags"%string.
Definition k_ref := Eval vm_compute in nstr "ref"%string.
Definition k_id := Eval vm_compute in nstr "id"%string.
Definition k_double := Eval vm_compute in nstr "double"%string.
Definition k_float := Eval vm_compute in nstr "float"%string.
Definition k_int := Eval vm_compute in nstr "int"%string.
Definition k_bool := Eval vm_compute in nstr "bool"%string.
Definition k_string := Eval vm_compute in nstr "string"%string.
Definition k_file := Eval vm_compute in nstr "file"%string.
Definition k_chars := Eval vm_compute in nstr "chars"%string.
Definition k_true := Eval vm_compute in nstr "true"%string.
Definition k_false := Eval vm_compute in nstr "false"%string.
Definition f_field := Eval vm_compute in nstr "field"%string.
Definition f_required := Eval vm_compute in nstr "required"%string.
Definition f_nodefault := Eval vm_compute in nstr "nodefault"%string.
Definition f_pattern := Eval vm_compute in nstr "pattern"%string.
Definition f_reading := Eval vm_compute in nstr "reading"%string.
Definition f_writing := Eval vm_compute in nstr "writing"%string.
Definition f_min := Eval vm_compute in nstr "min"%string.
Definition f_max := Eval vm_compute in nstr "max"%string.
Definition f_positive := Eval vm_compute in nstr "positive"%string.
Definition f_xml := Eval vm_compute in nstr "xml"%string.
Definition f_alias := Eval vm_compute in nstr "alias"%string.

Definition known_facets : list str :=
  [f_field; f_required; f_nodefault; f_pattern; f_reading; f_writing; f_min; f_max; f_positive].
Definition element_facets : list str := [f_xml; f_alias; f_field].
(* CARDINALITIES: ? ! * R *)
Definition cardinalities : list str := [[63]; [33]; [42]; [82]].

Definition verb_of (s : str) : option ckind :=
  if str_eqb s k_exclusive then Some CExclusive
  else if str_eqb s k_together then Some CTogether
  else if str_eqb s k_requires then Some CRequires
  else if str_eqb s k_oneof then Some COneof
  else None.

Definition scalar_of (s : str) : option atype :=
  if str_eqb s k_double then Some TDouble
  else if str_eqb s k_float then Some TFloat
  else if str_eqb s k_int then Some TInt
  else if str_eqb s k_bool then Some TBool
  else if str_eqb s k_string then Some TString
  else if str_eqb s k_file then Some TFile
  else if str_eqb s k_chars then Some TChars
  else None.

Definition target_type_of (s : str) : option atype :=
  if str_eqb s k_enum then Some TEnum
  else if str_eqb s k_flags then Some TFlags
  else if str_eqb s k_ref then Some TRef
  else if str_eqb s k_id then Some TId
  else None.

(* ------------------------------------------------------------------ parser *)

Inductive pres (A : Type) :=
| POk (a : A) (rest : list token)
| PErr (line : N)
| PExn (e : pyexn).
Arguments POk {A} a rest.
Arguments PErr {A} line.
Arguments PExn {A} e.

(* the state is the suffix tokens[pos:]; tokens[pos] with pos = len(tokens) is IndexError *)
Definition parser (A : Type) := list token -> pres A.

Definition ret {A} (a : A) : parser A := fun ts => POk a ts.
Definition bind {A B} (p : parser A) (k : A -> parser B) : parser B :=
  fun ts => match p ts with POk a r => k a r | PErr l => PErr l | PExn e => PExn e end.
Definition perr {A} (line : N) : parser A := fun _ => PErr line.
Definition pexn {A} (e : pyexn) : parser A := fun _ => PExn e.

Notation "x <- p ;; k" := (bind p (fun x => k)) (at level 61, p at next level, right associativity).
Notation "p ;;; k" := (bind p (fun _ => k)) (at level 61, right associativity).

Definition peek : parser token :=
  fun ts => match ts with [] => PExn IndexError | t :: _ => POk t ts end.
Definition next : parser token :=
  fun ts => match ts with [] => PExn IndexError | t :: r => POk t r end.

Definition expect (k : tkind) : parser token :=
  t <- next ;; if tkind_eqb (tk t) k then ret t else perr (tln t).

Definition accept (k : tkind) : parser (option token) :=
  t <- peek ;; if tkind_eqb (tk t) k then (t' <- next ;; ret (Some t')) else ret None.

Definition accept_val (k : tkind) (v : str) : parser (option token) :=
  t <- peek ;;
  if tkind_eqb (tk t) k && str_eqb (tv t) v then (t' <- next ;; ret (Some t')) else ret None.

Definition KP (c : N) : tkind := KPunct c.
Definition c_lbrace := 123. Definition c_rbrace := 125.
Definition c_lpar := 40. Definition c_rpar := 41.
Definition c_lbrk := 91. Definition c_rbrk := 93.
Definition c_lt := 60. Definition c_gt := 62.
Definition c_colon := 58. Definition c_eq := 61. Definition c_comma := 44. Definition c_plus := 43.

Definition expect_ident : parser str := t <- expect KIdent ;; ret (tv t).

(* parse_int: None of py_int = ValueError -> SchemaError at the token's line *)
Definition parse_int (t : token) : parser Z :=
  match py_int (tv t) with
  | None => perr (tln t)
  | Some v => if (v <? 0)%Z then perr (tln t) else ret v
  end.

Definition parse_arity : parser arity :=
  o <- accept (KP c_lbrk) ;;
  match o with
  | None => ret (Arity 1 (HiInt 1))
  | Some _ =>
    c <- accept (KP c_rbrk) ;;
    match c with
    | Some _ => ret (Arity 0 HiNone)
    | None =>
      lot <- expect KNumber ;;
      lo <- parse_int lot ;;
      dd <- accept KDotdot ;;
      match dd with
      | None => expect (KP c_rbrk) ;;; ret (Arity lo (HiInt lo))
      | Some _ =>
        ht <- next ;;
        hi <- match tk ht with
              | KNumber => h <- parse_int ht ;; if (h <=? lo)%Z then perr (tln ht) else ret (HiInt h)
              | KIdent => ret (HiSym (tv ht))
              | _ => perr (tln ht)
              end ;;
        expect (KP c_rbrk) ;;; ret (Arity lo hi)
      end
    end
  end.

Definition parse_type : parser (atype * option str * arity) :=
  t <- expect KIdent ;;
  match target_type_of (tv t) with
  | Some ty =>
    expect (KP c_lt) ;;;
    target <- expect_ident ;;
    expect (KP c_gt) ;;;
    ret (ty, Some target, Arity 1 (HiInt 1))
  | None =>
    match scalar_of (tv t) with
    | None => perr (tln t)
    | Some ty => ar <- parse_arity ;; ret (ty, None, ar)
    end
  end.

Fixpoint default_tail (fuel : nat) (acc : list fl) : parser (list fl) :=
  match fuel with
  | O => pexn FuelOut
  | S f =>
    c <- accept (KP c_comma) ;;
    match c with
    | None => ret (rev acc)
    | Some _ => t <- expect KNumber ;; default_tail f (py_float (tv t) :: acc)
    end
  end.

Definition parse_default (fuel : nat) : parser dflt :=
  t <- next ;;
  match tk t with
  | KNumber => ret (DNum (py_float (tv t)))
  | KString => ret (DStr (strip_quotes (tv t)))
  | KIdent => ret (DStr (tv t))
  | KPunct c =>
    if c =? c_lbrace then
      t1 <- expect KNumber ;;
      vs <- default_tail fuel [py_float (tv t1)] ;;
      expect (KP c_rbrace) ;;;
      ret (DTuple vs)
    else perr (tln t)
  | _ => perr (tln t)
  end.

Fixpoint parse_facets (fuel : nat) (known : list str) (acc : facets) : parser facets :=
  match fuel with
  | O => pexn FuelOut
  | S f =>
    t <- expect KIdent ;;
    if negb (smem (tv t) known) then perr (tln t)
    else if fhas acc (tv t) then perr (tln t)
    else
      e <- accept (KP c_eq) ;;
      v <- match e with
           | Some _ =>
             vt <- next ;;
             match tk vt with
             | KString => ret (FStr (strip_quotes (tv vt)))
             | KIdent => ret (FStr (tv vt))
             | KNumber => ret (FNum (py_float (tv vt)))
             | _ => perr (tln vt)
             end
           | None => ret FTrue
           end ;;
      let acc' := acc ++ [(tv t, v)] in
      c <- accept (KP c_rpar) ;;
      match c with
      | Some _ => ret acc'
      | None => expect (KP c_comma) ;;; parse_facets f known acc'
      end
  end.

Definition parse_attr (fuel : nat) (cs : comments) (name_token : token) : parser attr :=
  let line := tln name_token in
  expect (KP c_colon) ;;;
  tta <- parse_type ;;
  let '(ty, target, ar) := tta in
  e <- accept (KP c_eq) ;;
  d <- match e with Some _ => parse_default fuel | None => ret DNone end ;;
  p <- accept (KP c_lpar) ;;
  fs <- match p with Some _ => parse_facets fuel known_facets [] | None => ret [] end ;;
  ret (Attr (tv name_token) ty target ar d fs (doc_for cs line) line).

(* while self.accept('+'): bundle.append(self.expect('ident').value) *)
Fixpoint bundle_tail (fuel : nat) (acc : list str) : parser (list str) :=
  match fuel with
  | O => pexn FuelOut
  | S f =>
    c <- accept (KP c_plus) ;;
    match c with
    | None => ret (rev acc)
    | Some _ => s <- expect_ident ;; bundle_tail f (s :: acc)
    end
  end.

(* while self.peek().kind == 'ident' and self.peek().line == token.line: ... *)
Fixpoint bundles_loop (fuel : nat) (line : N) (acc : list (list str)) : parser (list (list str)) :=
  match fuel with
  | O => pexn FuelOut
  | S f =>
    t <- peek ;;
    if tkind_eqb (tk t) KIdent && (tln t =? line) then
      s <- expect_ident ;;
      b <- bundle_tail fuel [s] ;;
      bundles_loop f line (b :: acc)
    else ret (rev acc)
  end.

Definition parse_member_plain (fuel : nat) (cs : comments) (allow_child : bool) (t : token) : parser member :=
  if str_eqb (tv t) k_set then
    if negb allow_child then perr (tln t)
    else
      field <- expect_ident ;;
      expect (KP c_eq) ;;;
      value <- expect_ident ;;
      ret (MConst field value (doc_for cs (tln t)) (tln t))
  else if str_eqb (tv t) k_child then
    if negb allow_child then perr (tln t)
    else
      name <- expect_ident ;;
      card <- next ;;
      if negb (smem (tv card) cardinalities) then perr (tln card)
      else ret (MChild name (tv card) (doc_for cs (tln t)) (tln t))
  else a <- parse_attr fuel cs t ;; ret (MAttr a).

Definition parse_member (fuel : nat) (cs : comments) (allow_child : bool) : parser member :=
  t <- expect KIdent ;;
  if str_eqb (tv t) k_use then g <- expect_ident ;; ret (MUse g (tln t))
  else
    match verb_of (tv t) with
    | Some kind =>
      (* token.value in CONSTRAINT_VERBS and self.peek().kind == 'ident' *)
      nx <- peek ;;
      if tkind_eqb (tk nx) KIdent then
        bs <- bundles_loop fuel (tln t) [] ;;
        if (List.length bs <? 2)%nat then perr (tln t)
        else ret (MCon kind bs (doc_for cs (tln t)) (tln t))
      else parse_member_plain fuel cs allow_child t
    | None => parse_member_plain fuel cs allow_child t
    end.

(* while not self.accept('}'): members.append(self.parse_member(...)) *)
Fixpoint members_loop (fuel fuel0 : nat) (cs : comments) (allow_child : bool) (acc : list member)
  : parser (list member) :=
  match fuel with
  | O => pexn FuelOut
  | S f =>
    c <- accept (KP c_rbrace) ;;
    match c with
    | Some _ => ret (rev acc)
    | None => m <- parse_member fuel0 cs allow_child ;; members_loop f fuel0 cs allow_child (m :: acc)
    end
  end.

Fixpoint enum_items (fuel : nat) (seen : list str) (acc : list (str * str)) : parser (list (str * str)) :=
  match fuel with
  | O => pexn FuelOut
  | S f =>
    c <- accept (KP c_rbrace) ;;
    match c with
    | Some _ => ret (rev acc)
    | None =>
      kt <- next ;;
      key <- match tk kt with
             | KString => ret (strip_quotes (tv kt))
             | KIdent => ret (tv kt)
             | _ => perr (tln kt)
             end ;;
      if smem key seen then perr (tln kt)
      else
        expect (KP c_eq) ;;;
        vt <- next ;;
        match tk vt with
        | KIdent | KNumber => enum_items f (key :: seen) ((key, tv vt) :: acc)
        | _ => perr (tln vt)
        end
    end
  end.

Definition opt_ident_after (k : tkind) : parser (option str) :=
  c <- accept k ;;
  match c with Some _ => s <- expect_ident ;; ret (Some s) | None => ret None end.

Definition parse_enum (fuel : nat) (cs : comments) (line : N) : parser enum :=
  name <- expect_ident ;;
  ctype <- opt_ident_after (KP c_colon) ;;
  let doc := doc_for cs line in
  expect (KP c_lbrace) ;;;
  items <- enum_items fuel [] [] ;;
  match items with
  | [] => perr line
  | _ => ret (Enum name ctype items doc line)
  end.

Definition parse_group (fuel : nat) (cs : comments) (line : N) : parser group :=
  name <- expect_ident ;;
  v <- accept_val KIdent k_variant ;;
  let variant := match v with Some _ => true | None => false end in
  let doc := doc_for cs line in
  expect (KP c_lbrace) ;;;
  members <- members_loop fuel fuel cs false [] ;;
  match members with
  | [] => perr line
  | _ => ret (Group name variant members doc line)
  end.

Definition parse_element (fuel : nat) (cs : comments) (line : N) : parser element :=
  name <- expect_ident ;;
  spec <- opt_ident_after (KP c_colon) ;;
  p <- accept (KP c_lpar) ;;
  fs <- match p with Some _ => parse_facets fuel element_facets [] | None => ret [] end ;;
  let doc := doc_for cs line in
  expect (KP c_lbrace) ;;;
  members <- members_loop fuel fuel cs true [] ;;
  ret (Element name spec fs members doc line).

Fixpoint parse_loop (fuel fuel0 : nat) (cs : comments) (sch : schema) : parser schema :=
  match fuel with
  | O => pexn FuelOut
  | S f =>
    t0 <- peek ;;
    if tkind_eqb (tk t0) KEof then ret sch
    else
      t <- expect KIdent ;;
      if str_eqb (tv t) k_enum then
        e <- parse_enum fuel0 cs (tln t) ;;
        match find_enum (s_enums sch) (en_name e) with
        | Some _ => perr (tln t)
        | None => parse_loop f fuel0 cs (Schema (s_enums sch ++ [e]) (s_groups sch) (s_elements sch))
        end
      else if str_eqb (tv t) k_group then
        g <- parse_group fuel0 cs (tln t) ;;
        match find_group (s_groups sch) (g_name g) with
        | Some _ => perr (tln t)
        | None => parse_loop f fuel0 cs (Schema (s_enums sch) (s_groups sch ++ [g]) (s_elements sch))
        end
      else if str_eqb (tv t) k_element then
        e <- parse_element fuel0 cs (tln t) ;;
        match find_element (s_elements sch) (e_name e) with
        | Some _ => perr (tln t)
        | None => parse_loop f fuel0 cs (Schema (s_enums sch) (s_groups sch) (s_elements sch ++ [e]))
        end
      else perr (tln t)
  end.

(* _Parser(text, path).parse() *)
Definition parse_text (text : str) : result schema :=
  match lex text with
  | Ok (ts, cs) =>
    let fuel := S (List.length ts) in
    match parse_loop fuel fuel cs (Schema [] [] []) ts with
    | POk s _ => Ok s
    | PErr l => SchemaErr l
    | PExn e => PyExn e
    end
  | SchemaErr l => SchemaErr l
  | PyExn e => PyExn e
  end.

(* ------------------------------------------------------------------ validation *)

Inductive vres := VOk | VErr (line : N) | VExn (e : pyexn).

Definition vthen (a b : vres) : vres := match a with VOk => b | _ => a end.
Notation "a >>> b" := (vthen a b) (at level 62, right associativity).

Fixpoint vfor {A} (f : A -> vres) (l : list A) : vres :=
  match l with [] => VOk | x :: r => match f x with VOk => vfor f r | e => e end end.

Definition vcheck (ok : bool) (line : N) : vres := if ok then VOk else VErr line.

(* _check_group_cycle; [left] = frames still available including the one of this call *)
Fixpoint check_cycle_rec (groups : list group) (left : nat) (name : str) (stack : list str) (line : N) : vres :=
  match left with
  | O => VExn RecursionError
  | S left' =>
    if smem name stack then
      (* raise SchemaError(...): the constructor is one more Python frame *)
      match left' with O => VExn RecursionError | S _ => VErr line end
    else
      match find_group groups name with
      | None => VOk
      | Some g =>
        (fix loop (ms : list member) : vres :=
           match ms with
           | [] => VOk
           | MUse g' l :: r =>
             match check_cycle_rec groups left' g' (stack ++ [name]) l with VOk => loop r | e => e end
           | _ :: r => loop r
           end) (g_members g)
      end
  end.

Inductive gres := GOk (l : list attr) | GExn (e : pyexn).

(* Schema._group_attrs *)
Fixpoint group_attrs_rec (groups : list group) (left : nat) (name : str) : gres :=
  match left with
  | O => GExn RecursionError
  | S left' =>
    match find_group groups name with
    | None => GExn KeyError
    | Some g =>
      (fix loop (ms : list member) : gres :=
         match ms with
         | [] => GOk []
         | MAttr a :: r => match loop r with GOk l => GOk (a :: l) | e => e end
         | MUse g' _ :: r =>
           match group_attrs_rec groups left' g' with
           | GOk l1 => match loop r with GOk l2 => GOk (l1 ++ l2) | e => e end
           | e => e
           end
         | _ :: r => loop r
         end) (g_members g)
    end
  end.

(* Schema.expanded_attrs_rec *)
Definition expanded_attrs_rec (groups : list group) (left : nat) (members : list member) : gres :=
  match left with
  | O => GExn RecursionError
  | S left' =>
    (fix loop (ms : list member) : gres :=
       match ms with
       | [] => GOk []
       | MAttr a :: r => match loop r with GOk l => GOk (a :: l) | e => e end
       | MUse g' _ :: r =>
         match group_attrs_rec groups left' g' with
         | GOk l1 => match loop r with GOk l2 => GOk (l1 ++ l2) | e => e end
         | e => e
         end
       | _ :: r => loop r
       end) members
  end.

Definition member_attrs (ms : list member) : list attr :=
  flat_map (fun m => match m with MAttr a => [a] | _ => [] end) ms.

Definition truthy (v : option fval) : bool :=
  match v with
  | None => false
  | Some FTrue => true
  | Some (FStr s) => match s with [] => false | _ => true end
  | Some (FNum f) => negb (sf_is_zero f)
  end.

Definition is_scalar (a : arity) : bool :=
  (alo a =? 1)%Z && match ahi a with HiInt 1 => true | _ => false end.

Definition is_numeric (t : atype) : bool :=
  match t with TDouble | TFloat | TInt => true | _ => false end.

(* isinstance(v, (int, float)): True is an int *)
Definition fnum_of (v : fval) : option fl :=
  match v with FTrue => Some sf_one | FNum f => Some f | FStr _ => None end.

Definition all_names_in (bundles : list (list str)) (names : list str) : bool :=
  forallb (fun b => forallb (fun n => smem n names) b) bundles.

Definition validate_attr (sch : schema) (namespaces : list (option str)) (a : attr) : vres :=
  let line := a_line a in
  let ty := a_type a in
  let fs := a_facets a in
  let numeric := is_numeric ty in
  (* target existence *)
  vcheck (negb (match ty with TEnum | TFlags => true | _ => false end
                && negb (match a_target a with
                         | Some t => match find_enum (s_enums sch) t with Some _ => true | None => false end
                         | None => false end))) line >>>
  vcheck (negb (atype_eqb ty TRef && negb (osmem (a_target a) namespaces))) line >>>
  (* arity restrictions *)
  vcheck (negb ((atype_eqb ty TFile || atype_eqb ty TBool) && negb (is_scalar (a_arity a)))) line >>>
  vcheck (negb (atype_eqb ty TChars && negb (match ahi (a_arity a) with HiInt _ => true | _ => false end))) line >>>
  (* facet payloads *)
  vcheck (negb (fhas fs f_pattern && negb (atype_eqb ty TString || atype_eqb ty TChars))) line >>>
  vfor (fun k => match fget fs k with
                 | None => VOk
                 | Some v => vcheck (numeric && match fnum_of v with Some _ => true | None => false end) line
                 end) [f_min; f_max] >>>
  match fget fs f_min, fget fs f_max with
  | Some vmin, Some vmax =>
    (* attr.facets['min'] > attr.facets['max']: numbers (True = 1) compare numerically, two strings
       lexicographically, a string against a number or True is a TypeError; the loop above leaves only the
       first case reachable *)
    match fnum_of vmin, fnum_of vmax with
    | Some x, Some y => vcheck (negb (sf_gtb x y)) line
    | None, None =>
      match vmin, vmax with
      | FStr x, FStr y => vcheck (negb (str_gtb x y)) line
      | _, _ => VExn TypeError
      end
    | _, _ => VExn TypeError
    end
  | _, _ => VOk
  end >>>
  vcheck (negb (truthy (fget fs f_positive) && negb numeric)) line >>>
  vcheck (negb (truthy (fget fs f_required) && negb (match a_default a with DNone => true | _ => false end))) line >>>
  (* defaults *)
  match a_default a with
  | DNone => VOk
  | d =>
    match ty with
    | TEnum =>
      match d with
      | DStr s =>
        match a_target a with
        | Some t =>
          match find_enum (s_enums sch) t with
          | Some e => vcheck (smem s (map fst (en_items e))) line
          | None => VExn KeyError
          end
        | None => VExn KeyError
        end
      | _ => VErr line
      end
    | TRef | TId | TChars => VErr line
    | TBool => match d with DStr s => vcheck (str_eqb s k_true || str_eqb s k_false) line | _ => VErr line end
    | TString | TFile => match d with DStr _ => VOk | _ => VErr line end
    | _ =>
      match d with
      | DStr _ => VErr line
      | _ =>
        let n := match d with DTuple l => Z.of_nat (List.length l) | _ => 1%Z end in
        let ar := a_arity a in
        vcheck (negb (match d with DTuple _ => true | _ => false end && is_scalar ar)) line >>>
        vcheck (negb (n <? alo ar)%Z) line >>>
        vcheck (match ahi ar with HiInt h => negb (h <? n)%Z | _ => true end) line
      end
    end
  end.

Definition group_check (g : group) : vres :=
  let names := map a_name (member_attrs (g_members g)) in
  vfor (fun m => match m with
                 | MCon _ bundles _ line => vcheck (all_names_in bundles names) line
                 | _ => VOk end) (g_members g) >>>
  if g_variant g then
    vfor (fun m => match m with
                   | MUse _ line => VErr line
                   | MAttr a => vcheck (negb (truthy (fget (a_facets a) f_required))) (a_line a)
                   | _ => VOk end) (g_members g)
  else VOk.

Definition uses_declared (groups : list group) (ms : list member) : vres :=
  vfor (fun m => match m with
                 | MUse g line => vcheck (match find_group groups g with Some _ => true | None => false end) line
                 | _ => VOk end) ms.

Definition id_targets (ms : list member) : list (option str) :=
  flat_map (fun m => match m with
                     | MAttr a => if atype_eqb (a_type a) TId then [a_target a] else []
                     | _ => [] end) ms.

Definition is_fstr (v : fval) : bool := match v with FStr _ => true | _ => false end.

(* children: dangling targets and duplicates *)
Fixpoint children_check (elements : list element) (seen : list str) (ms : list member) : vres :=
  match ms with
  | [] => VOk
  | MChild name _ _ line :: r =>
    match find_element elements name with
    | None => VErr line
    | Some _ => if smem name seen then VErr line else children_check elements (name :: seen) r
    end
  | _ :: r => children_check elements seen r
  end.

Fixpoint seen_get (seen : list (str * N)) (k : str) : option N :=
  match seen with [] => None | (k', v) :: r => if str_eqb k' k then Some v else seen_get r k end.

(* duplicates across direct and use-expanded members; returns the seen names *)
Fixpoint dup_check (eline : N) (seen : list (str * N)) (attrs : list attr) : result (list str) :=
  match attrs with
  | [] => Ok (map fst seen)
  | a :: r =>
    match seen_get seen (a_name a) with
    | Some l0 => SchemaErr (if l0 <? a_line a then a_line a else eline)
    | None => dup_check eline ((a_name a, a_line a) :: seen) r
    end
  end.

Definition constraints_check (names : list str) (ms : list member) : vres :=
  vfor (fun m => match m with
                 | MCon kind bundles _ line =>
                   vcheck (all_names_in bundles names) line >>>
                   match kind with
                   | CRequires =>
                     vcheck ((List.length bundles =? 2)%nat && forallb (fun b => (List.length b =? 1)%nat) bundles) line
                   | _ => VOk
                   end
                 | _ => VOk end) ms.

Definition element_check_rec (sch : schema) (rl : nat) (e : element) : vres :=
  vfor (fun k => match fget (e_facets e) k with
                 | Some v => vcheck (is_fstr v) (e_line e)
                 | None => VOk end) [f_xml; f_alias] >>>
  match fget (e_facets e) f_alias with
  | Some (FStr al) => vcheck (match find_element (s_elements sch) al with Some _ => true | None => false end) (e_line e)
  | Some _ => VErr (e_line e)   (* True / a number is not a key of schema.elements (unreachable: rejected by the loop above) *)
  | None => VOk
  end >>>
  children_check (s_elements sch) [] (e_members e) >>>
  match expanded_attrs_rec (s_groups sch) rl (e_members e) with
  | GExn x => VExn x
  | GOk attrs =>
    match dup_check (e_line e) [] attrs with
    | SchemaErr l => VErr l
    | PyExn x => VExn x
    | Ok names => constraints_check names (e_members e)
    end
  end.

(* _check_child_cycles: iterative depth-first search over the child graph with a set of finished elements.
   Edges: children other than the element itself whose target has no alias facet.  The Python code keeps
   an explicit stack (no recursion limit involved); the model recurses with fuel = number of elements + 1,
   which bounds the length of the path (distinct declared elements). *)
Fixpoint edges_of (els : list element) (ename : str) (ms : list member) : option (list (str * N)) :=
  match ms with
  | [] => Some []
  | MChild n _ _ line :: r =>
    if str_eqb n ename then edges_of els ename r
    else
      match find_element els n with
      | None => None                      (* schema.elements[c.name]: KeyError *)
      | Some t =>
        match edges_of els ename r with
        | None => None
        | Some l => Some (if fhas (e_facets t) f_alias then l else (n, line) :: l)
        end
      end
  | _ :: r => edges_of els ename r
  end.

Inductive cres := COk (done : list str) | CErr (line : N) | CExn (e : pyexn).

(* successors of a node of a graph on names: SSkip = the name is not declared and is silently skipped,
   SKeyError = looking the name up raises KeyError, SEdges = outgoing edges with the line of each *)
Inductive sres := SSkip | SKeyError | SEdges (es : list (str * N)).

(* The depth-first search shared by the repaired _check_group_cycle and by _check_child_cycles: an explicit
   stack of iterators in Python (no interpreter recursion), [path] = names on the current branch, [done] =
   names whose successors are completely explored.  An entry on the current path is a cycle (SchemaError at
   the line of the edge), an entry already done or undeclared is skipped, otherwise its successors are
   explored and it is added to done.  The model recurses with fuel, which bounds the length of the path. *)
Fixpoint dfs (fuel : nat) (succ : str -> sres) (es : list (str * N)) (path done : list str) : cres :=
  match fuel with
  | O => CExn FuelOut
  | S f =>
    (fix loop (es : list (str * N)) (done : list str) : cres :=
       match es with
       | [] => COk done
       | (n, line) :: r =>
         if smem n path then CErr line
         else if smem n done then loop r done
         else
           match succ n with
           | SSkip => loop r done
           | SKeyError => CExn KeyError
           | SEdges es' =>
             match dfs f succ es' (path ++ [n]) done with
             | COk done' => loop r (n :: done')
             | x => x
             end
           end
       end) es done
  end.

Definition vres_of (r : cres) : vres :=
  match r with COk _ => VOk | CErr l => VErr l | CExn e => VExn e end.

Definition succ_child (els : list element) (n : str) : sres :=
  match find_element els n with
  | None => SKeyError
  | Some e => match edges_of els (e_name e) (e_members e) with None => SKeyError | Some es => SEdges es end
  end.

(* _check_child_cycles: every element in declaration order is a root *)
Definition child_cycles (sch : schema) : vres :=
  let els := s_elements sch in
  vres_of (dfs (S (List.length els)) (succ_child els) (map (fun e => (e_name e, e_line e)) els) [] []).

Definition use_edges (ms : list member) : list (str * N) :=
  flat_map (fun m => match m with MUse g l => [(g, l)] | _ => [] end) ms.

Definition succ_use (groups : list group) (n : str) : sres :=
  match find_group groups n with None => SSkip | Some g => SEdges (use_edges (g_members g)) end.

(* the first loop of _validate after the repair: _check_group_cycle(schema, g.name, [], g.line, done) for
   every group in declaration order, sharing [done] *)
Definition use_cycles (groups : list group) : vres :=
  vres_of (dfs (S (List.length groups)) (succ_use groups) (map (fun g => (g_name g, g_line g)) groups) [] []).

(* Schema._group_attrs after the repair (explicit stack of iterators, pre-order); the model recurses with
   fuel; KeyError for an undeclared group as before *)
Fixpoint group_attrs (groups : list group) (fuel : nat) (name : str) : gres :=
  match fuel with
  | O => GExn FuelOut
  | S f =>
    match find_group groups name with
    | None => GExn KeyError
    | Some g =>
      (fix loop (ms : list member) : gres :=
         match ms with
         | [] => GOk []
         | MAttr a :: r => match loop r with GOk l => GOk (a :: l) | e => e end
         | MUse g' _ :: r =>
           match group_attrs groups f g' with
           | GOk l1 => match loop r with GOk l2 => GOk (l1 ++ l2) | e => e end
           | e => e
           end
         | _ :: r => loop r
         end) (g_members g)
    end
  end.

Definition expanded_attrs (groups : list group) (members : list member) : gres :=
  let fuel := S (List.length groups) in
  (fix loop (ms : list member) : gres :=
     match ms with
     | [] => GOk []
     | MAttr a :: r => match loop r with GOk l => GOk (a :: l) | e => e end
     | MUse g' _ :: r =>
       match group_attrs groups fuel g' with
       | GOk l1 => match loop r with GOk l2 => GOk (l1 ++ l2) | e => e end
       | e => e
       end
     | _ :: r => loop r
     end) members.

(* _validate of the explicitly RECURSIVE variant of the use traversals (the code before commit ff3dbc583);
   rl = Python frames available to the callees of _validate *)
Definition validate_rec (rl : nat) (sch : schema) : vres :=
  let groups := s_groups sch in
  let containers := map g_members groups ++ map e_members (s_elements sch) in
  vfor (fun g => check_cycle_rec groups rl (g_name g) [] (g_line g)) groups >>>
  vfor group_check groups >>>
  vfor (uses_declared groups) containers >>>
  let namespaces := flat_map id_targets containers in
  vfor (element_check_rec sch rl) (s_elements sch) >>>
  child_cycles sch >>>
  vfor (fun ms => vfor (validate_attr sch namespaces) (member_attrs ms)) containers.

(* parse_string_rec *)
Definition parse_string_rec (rl : nat) (text : str) : result schema :=
  match parse_text text with
  | Ok s =>
    match validate_rec rl s with
    | VOk => Ok s
    | VErr l => SchemaErr l
    | VExn e => PyExn e
    end
  | e => e
  end.

(* ---- the code of HEAD (iterative traversals): no recursion limit is involved *)

Definition element_check (sch : schema) (e : element) : vres :=
  vfor (fun k => match fget (e_facets e) k with
                 | Some v => vcheck (is_fstr v) (e_line e)
                 | None => VOk end) [f_xml; f_alias] >>>
  match fget (e_facets e) f_alias with
  | Some (FStr al) => vcheck (match find_element (s_elements sch) al with Some _ => true | None => false end) (e_line e)
  | Some _ => VErr (e_line e)   (* True / a number is not a key of schema.elements (unreachable: rejected by the loop above) *)
  | None => VOk
  end >>>
  children_check (s_elements sch) [] (e_members e) >>>
  match expanded_attrs (s_groups sch) (e_members e) with
  | GExn x => VExn x
  | GOk attrs =>
    match dup_check (e_line e) [] attrs with
    | SchemaErr l => VErr l
    | PyExn x => VExn x
    | Ok names => constraints_check names (e_members e)
    end
  end.

(* _validate *)
Definition validate (sch : schema) : vres :=
  let groups := s_groups sch in
  let containers := map g_members groups ++ map e_members (s_elements sch) in
  use_cycles groups >>>
  vfor group_check groups >>>
  vfor (uses_declared groups) containers >>>
  let namespaces := flat_map id_targets containers in
  vfor (element_check sch) (s_elements sch) >>>
  child_cycles sch >>>
  vfor (fun ms => vfor (validate_attr sch namespaces) (member_attrs ms)) containers.

(* parse_string *)
Definition parse_string (text : str) : result schema :=
  match parse_text text with
  | Ok s =>
    match validate s with
    | VOk => Ok s
    | VErr l => SchemaErr l
    | VExn e => PyExn e
    end
  | e => e
  end.

(* ------------------------------------------------------------------ canonical dump (Z list) *)

Open Scope Z_scope.

Definition d_str (s : str) : list Z := Z.of_nat (List.length s) :: map Z.of_N s.
Definition d_ostr (o : option str) : list Z := match o with None => [0] | Some s => 1 :: d_str s end.
Definition d_bool (b : bool) : Z := if b then 1 else 0.
Definition d_fl (f : fl) : list Z :=
  match f with
  | S754_zero s => [0; d_bool s]
  | S754_infinity s => [1; d_bool s]
  | S754_nan => [2; 0]
  | S754_finite s m e => [3; d_bool s; Zpos m; e]
  end.
Definition d_list {A} (f : A -> list Z) (l : list A) : list Z := Z.of_nat (List.length l) :: flat_map f l.
Definition d_atype (t : atype) : Z :=
  match t with TDouble => 0 | TFloat => 1 | TInt => 2 | TBool => 3 | TString => 4 | TFile => 5 | TChars => 6
          | TEnum => 7 | TFlags => 8 | TId => 9 | TRef => 10 end.
Definition d_arity (a : arity) : list Z :=
  alo a :: match ahi a with HiNone => [0] | HiInt n => [1; n] | HiSym s => 2 :: d_str s end.
Definition d_dflt (d : dflt) : list Z :=
  match d with
  | DNone => [0]
  | DNum f => 1 :: d_fl f
  | DStr s => 2 :: d_str s
  | DTuple l => 3 :: d_list d_fl l
  end.
Definition d_fval (v : fval) : list Z :=
  match v with FTrue => [0] | FStr s => 1 :: d_str s | FNum f => 2 :: d_fl f end.
Definition d_facets (f : facets) : list Z := d_list (fun kv => d_str (fst kv) ++ d_fval (snd kv)) f.
Definition d_attr (a : attr) : list Z :=
  d_str (a_name a) ++ [d_atype (a_type a)] ++ d_ostr (a_target a) ++ d_arity (a_arity a) ++
  d_dflt (a_default a) ++ d_facets (a_facets a) ++ d_ostr (a_doc a) ++ [Z.of_N (a_line a)].
Definition d_ckind (k : ckind) : Z :=
  match k with CExclusive => 0 | CTogether => 1 | CRequires => 2 | COneof => 3 end.
Definition d_member (m : member) : list Z :=
  match m with
  | MAttr a => 1 :: d_attr a
  | MUse g l => 2 :: d_str g ++ [Z.of_N l]
  | MChild n c d l => 3 :: d_str n ++ d_str c ++ d_ostr d ++ [Z.of_N l]
  | MConst f v d l => 4 :: d_str f ++ d_str v ++ d_ostr d ++ [Z.of_N l]
  | MCon k bs d l => 5 :: d_ckind k :: d_list (d_list d_str) bs ++ d_ostr d ++ [Z.of_N l]
  end.
Definition d_group (g : group) : list Z :=
  d_str (g_name g) ++ [d_bool (g_variant g)] ++ d_list d_member (g_members g) ++ d_ostr (g_doc g) ++
  [Z.of_N (g_line g)].
Definition d_element (e : element) : list Z :=
  d_str (e_name e) ++ d_ostr (e_spec e) ++ d_facets (e_facets e) ++ d_list d_member (e_members e) ++
  d_ostr (e_doc e) ++ [Z.of_N (e_line e)].
Definition d_enum (e : enum) : list Z :=
  d_str (en_name e) ++ d_ostr (en_ctype e) ++
  d_list (fun kv => d_str (fst kv) ++ d_str (snd kv)) (en_items e) ++ d_ostr (en_doc e) ++ [Z.of_N (en_line e)].
Definition dump (s : schema) : list Z :=
  d_list d_enum (s_enums s) ++ d_list d_group (s_groups s) ++ d_list d_element (s_elements s).

(* outcome of parse_string_rec in the shape printed by harness/drivers/c41_parse.py:
   0 :: dump | [1; line] | [2; exception code] *)
Definition d_exn (e : pyexn) : Z :=
  match e with IndexError => 1 | KeyError => 2 | RecursionError => 3 | FuelOut => 4 | TypeError => 5 end.
Definition outcome (r : result schema) : list Z :=
  match r with
  | Ok s => 0 :: dump s
  | SchemaErr l => [1; Z.of_N l]
  | PyExn e => [2; d_exn e]
  end.

(* the dump is compared through a polynomial hash modulo 2^61 (keeps the Coq literals of the correspondence
   run small); Z.land and Python's & agree on negative arguments as well (two's complement) *)
Definition zhash (l : list Z) : Z :=
  fold_left (fun h x => Z.land (h * 1000003 + x + 7) 2305843009213693951) l 0.
Definition outcome_h (r : result schema) : list Z :=
  match r with
  | Ok s => let d := dump s in [0; Z.of_nat (List.length d); zhash d]
  | _ => outcome r
  end.

Fixpoint zl_eqb (a b : list Z) : bool :=
  match a, b with
  | [], [] => true
  | x :: r, y :: q => (x =? y) && zl_eqb r q
  | _, _ => false
  end.

(* ------------------------------------------------------------------ test-input literals *)

From Coq Require Import Strings.Byte.
Inductive btxt := BT (l : list byte).
Definition unBT (b : btxt) : list byte := match b with BT l => l end.
Declare Scope btxt_scope.
Delimit Scope btxt_scope with bt.
String Notation btxt BT unBT : btxt_scope.
Definition text_of_bt (b : btxt) : str := map Byte.to_N (unBT b).

(* a test text: ASCII texts as a byte-string literal; TE: same with every other code point (and the
   backquote) written as backquote, lower-case hexadecimal code point, semicolon; TN: explicit code points *)
Definition hexval (c : N) : N := (if c <? 58 then c - 48 else c - 87)%N.
Fixpoint unesc (l : list N) (st : option N) : list N :=
  match l with
  | [] => []
  | c :: r =>
    match st with
    | None => if (c =? 96)%N then unesc r (Some 0%N) else c :: unesc r None
    | Some acc => if (c =? 59)%N then acc :: unesc r None else unesc r (Some (acc * 16 + hexval c)%N)
    end
  end.
Inductive txt := TB (b : btxt) | TE (b : btxt) | TN (l : list N).
Definition text_of (t : txt) : str :=
  match t with TB b => text_of_bt b | TE b => unesc (text_of_bt b) None | TN l => l end.

(* the check evaluated by the correspondence run on (text, outcome printed by the driver) *)
Definition agrees (c : txt * list Z) : bool :=
  match c with (t, expected) => zl_eqb (outcome_h (parse_string (text_of t))) expected end.
(* same for the recursive variant, with the frame budget *)
Definition agrees_rec (c : txt * N * list Z) : bool :=
  match c with (t, rl, expected) => zl_eqb (outcome_h (parse_string_rec (N.to_nat rl) (text_of t))) expected end.

(* table checks: is_digit / digit value / is_pyspace against CPython on listed code points *)
Definition agrees_digit (c : N * Z) : bool :=
  match c with (cp, v) => if (v <? 0)%Z then negb (is_digit cp) else is_digit cp && (digit_val cp =? v)%Z end.
Definition agrees_space (c : N * bool) : bool := match c with (cp, b) => Bool.eqb (is_pyspace cp) b end.
(* float(): (token text, expected d_fl) and int(): (token text, -1 for ValueError | 0 :: value) *)
Definition agrees_float (c : txt * list Z) : bool :=
  match c with (t, e) => zl_eqb (d_fl (py_float (text_of t))) e end.
