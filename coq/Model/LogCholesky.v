(* C47 — log-Cholesky parameterisation of rigid-body inertial parameters.
   Model of python/mujoco/sysid/_src/model_modifier.py:
     pi_from_theta, pseudoinertia_from_pi, cholesky_decompose_upper (numpy's Cholesky of the
     index-reversed matrix, written out for n = 4), theta_from_pseudoinertia, and the arithmetic of
     apply_body_theta_inertia (mass, ipos, fullinertia handed to the compiler).
   Definitions only, written once over the numeric class NumT (R for proofs, float for running). *)
From Coq Require Import ZArith List.
From MJV Require Import Lib.Num.
Import ListNotations.

Section LC.
Context {T : Type} `{NumT T}.
Local Open Scope num_scope.

(* upper-triangular 4x4 *)
Record U4 := mkU { u00 : T; u01 : T; u02 : T; u03 : T; u11 : T; u12 : T; u13 : T; u22 : T; u23 : T; u33 : T }.
(* full 4x4, row major *)
Record M4 := mkM { m00 : T; m01 : T; m02 : T; m03 : T;
                   m10 : T; m11 : T; m12 : T; m13 : T;
                   m20 : T; m21 : T; m22 : T; m23 : T;
                   m30 : T; m31 : T; m32 : T; m33 : T }.
(* inertial parameters pi = [m, h (3), I_bar.flatten() (9)] : the array really returned by
   pi_from_theta has 13 entries (the docstring says 10-D) *)
Record Pi := mkPi { pm : T; ph0 : T; ph1 : T; ph2 : T;
                    i00 : T; i01 : T; i02 : T; i10 : T; i11 : T; i12 : T; i20 : T; i21 : T; i22 : T }.

(* theta = [alpha, d1, d2, d3, s12, s23, s13, t1, t2, t3];  U = exp(alpha) * [[e^d1 s12 s13 t1] [0 e^d2 s23 t2] [0 0 e^d3 t3] [0 0 0 1]] *)
Definition U_of_theta (a d1 d2 d3 s12 s23 s13 t1 t2 t3 : T) : U4 :=
  let ea := nexp a in
  mkU (nexp d1 * ea) (s12 * ea) (s13 * ea) (t1 * ea)
      (nexp d2 * ea) (s23 * ea) (t2 * ea)
      (nexp d3 * ea) (t3 * ea)
      (none * ea).

(* J = U @ U.T *)
Definition UUt (u : U4) : M4 :=
  let j00 := u00 u * u00 u + u01 u * u01 u + u02 u * u02 u + u03 u * u03 u in
  let j01 := u01 u * u11 u + u02 u * u12 u + u03 u * u13 u in
  let j02 := u02 u * u22 u + u03 u * u23 u in
  let j03 := u03 u * u33 u in
  let j11 := u11 u * u11 u + u12 u * u12 u + u13 u * u13 u in
  let j12 := u12 u * u22 u + u13 u * u23 u in
  let j13 := u13 u * u33 u in
  let j22 := u22 u * u22 u + u23 u * u23 u in
  let j23 := u23 u * u33 u in
  let j33 := u33 u * u33 u in
  mkM j00 j01 j02 j03  j01 j11 j12 j13  j02 j12 j22 j23  j03 j13 j23 j33.

(* sigma = J[:3,:3]; I_bar = trace(sigma) * eye(3) - sigma; h = J[:3,3]; m = J[3,3] *)
Definition pi_of_J (j : M4) : Pi :=
  let tr := m00 j + m11 j + m22 j in
  mkPi (m33 j) (m03 j) (m13 j) (m23 j)
       (tr - m00 j) (- m01 j) (- m02 j)
       (- m10 j) (tr - m11 j) (- m12 j)
       (- m20 j) (- m21 j) (tr - m22 j).

Definition pi_from_theta (a d1 d2 d3 s12 s23 s13 t1 t2 t3 : T) : Pi :=
  pi_of_J (UUt (U_of_theta a d1 d2 d3 s12 s23 s13 t1 t2 t3)).

(* Sigma = 0.5 * trace(I_bar) * eye(3) - I_bar;  J = [[Sigma h] [h^T m]] *)
Definition pseudoinertia_from_pi (p : Pi) : M4 :=
  let ht := nhalf * (i00 p + i11 p + i22 p) in
  mkM (ht - i00 p) (- i01 p) (- i02 p) (ph0 p)
      (- i10 p) (ht - i11 p) (- i12 p) (ph1 p)
      (- i20 p) (- i21 p) (ht - i22 p) (ph2 p)
      (ph0 p) (ph1 p) (ph2 p) (pm p).

(* cholesky_decompose_upper: J = U U^T, U upper triangular; numpy's lower Cholesky of the index-
   reversed matrix reads the lower triangle of J_reversed = the upper triangle of J *)
Definition chol_upper (j : M4) : U4 :=
  let v33 := nsqrt (m33 j) in
  let v23 := m23 j / v33 in
  let v13 := m13 j / v33 in
  let v03 := m03 j / v33 in
  let v22 := nsqrt (m22 j - v23 * v23) in
  let v12 := (m12 j - v13 * v23) / v22 in
  let v02 := (m02 j - v03 * v23) / v22 in
  let v11 := nsqrt (m11 j - v12 * v12 - v13 * v13) in
  let v01 := (m01 j - v02 * v12 - v03 * v13) / v11 in
  let v00 := nsqrt (m00 j - v01 * v01 - v02 * v02 - v03 * v03) in
  mkU v00 v01 v02 v03 v11 v12 v13 v22 v23 v33.

(* theta from the factor: [alpha, d1, d2, d3, s12, s23, s13, t1, t2, t3] *)
Definition theta_of_U (u : U4) : list T :=
  let ea := u33 u in
  [ nlog ea; nlog (u00 u / ea); nlog (u11 u / ea); nlog (u22 u / ea);
    u01 u / ea; u12 u / ea; u02 u / ea;
    u03 u / ea; u13 u / ea; u23 u / ea ].

Definition theta_from_pseudoinertia (j : M4) : list T := theta_of_U (chol_upper j).

(* apply_body_theta_inertia: mass = pi[0]; ipos = pi[1:4]/pi[0];
   fullinertia = I_bar + mass * skew(ipos) @ skew(ipos), handed to the compiler in the order
   [M(1,1), M(2,2), M(3,3), M(1,2), M(1,3), M(2,3)] *)
Record BodyInertial := mkB { b_mass : T; b_c0 : T; b_c1 : T; b_c2 : T;
                             f00 : T; f11 : T; f22 : T; f01 : T; f02 : T; f12 : T }.
Definition body_from_pi (p : Pi) : BodyInertial :=
  let m := pm p in
  let c0 := ph0 p / m in let c1 := ph1 p / m in let c2 := ph2 p / m in
  (* skew(c) @ skew(c) = c c^T - |c|^2 1 *)
  let s00 := - (c2 * c2) - c1 * c1 in
  let s11 := - (c2 * c2) - c0 * c0 in
  let s22 := - (c1 * c1) - c0 * c0 in
  let s01 := c1 * c0 in
  let s02 := c2 * c0 in
  let s12 := c2 * c1 in
  mkB m c0 c1 c2
      (i00 p + m * s00) (i11 p + m * s11) (i22 p + m * s22)
      (i01 p + m * s01) (i02 p + m * s02) (i12 p + m * s12).

(* quadratic forms used by the statements *)
Definition qf4 (j : M4) (x0 x1 x2 x3 : T) : T :=
    x0 * (m00 j * x0 + m01 j * x1 + m02 j * x2 + m03 j * x3)
  + x1 * (m10 j * x0 + m11 j * x1 + m12 j * x2 + m13 j * x3)
  + x2 * (m20 j * x0 + m21 j * x1 + m22 j * x2 + m23 j * x3)
  + x3 * (m30 j * x0 + m31 j * x1 + m32 j * x2 + m33 j * x3).
Definition qfI (p : Pi) (x0 x1 x2 : T) : T :=
    x0 * (i00 p * x0 + i01 p * x1 + i02 p * x2)
  + x1 * (i10 p * x0 + i11 p * x1 + i12 p * x2)
  + x2 * (i20 p * x0 + i21 p * x1 + i22 p * x2).
Definition qfB (b : BodyInertial) (x0 x1 x2 : T) : T :=
    x0 * (f00 b * x0 + f01 b * x1 + f02 b * x2)
  + x1 * (f01 b * x0 + f11 b * x1 + f12 b * x2)
  + x2 * (f02 b * x0 + f12 b * x1 + f22 b * x2).

(* list views for the correspondence runs *)
Definition pi_list (p : Pi) : list T :=
  [pm p; ph0 p; ph1 p; ph2 p; i00 p; i01 p; i02 p; i10 p; i11 p; i12 p; i20 p; i21 p; i22 p].
Definition pi_of_list (l : list T) : option Pi :=
  match l with
  | [a; b; c; d; e; f; g; h; i; j; k; l'; m] => Some (mkPi a b c d e f g h i j k l' m)
  | _ => None
  end.
Definition m4_list (j : M4) : list T :=
  [m00 j; m01 j; m02 j; m03 j; m10 j; m11 j; m12 j; m13 j; m20 j; m21 j; m22 j; m23 j; m30 j; m31 j; m32 j; m33 j].
Definition body_list (b : BodyInertial) : list T :=
  [b_mass b; b_c0 b; b_c1 b; b_c2 b; f00 b; f11 b; f22 b; f01 b; f02 b; f12 b].

Definition pi_from_theta_l (th : list T) : list T :=
  match th with
  | [a; d1; d2; d3; s12; s23; s13; t1; t2; t3] => pi_list (pi_from_theta a d1 d2 d3 s12 s23 s13 t1 t2 t3)
  | _ => []
  end.
Definition pseudo_from_pi_l (l : list T) : list T :=
  match pi_of_list l with Some p => m4_list (pseudoinertia_from_pi p) | None => [] end.
Definition theta_from_pi_l (l : list T) : list T :=
  match pi_of_list l with Some p => theta_from_pseudoinertia (pseudoinertia_from_pi p) | None => [] end.
Definition body_from_pi_l (l : list T) : list T :=
  match pi_of_list l with Some p => body_list (body_from_pi p) | None => [] end.
End LC.
