(* Deep embedding of MuJoCo's pipeline driver functions (mj_step, mj_step1, mj_step2, mj_forward,
   mj_forwardSkip).  The programs themselves are REGENERATED from src/engine/engine_forward.c by
   translate/stages2v.py into Gen/Pipeline.v on every run; this file holds the syntax, the
   semantics (parametric in the interpretation of stage functions and condition atoms) and the
   executable checkers whose soundness is proved in Proof/PipelineProof.v.  No proofs here. *)
From Coq Require Import String List Bool Arith.
Import ListNotations.
Open Scope string_scope.
Open Scope list_scope.

Inductive cond :=
| CTrue | CFalse
| CAtom (s : string)            (* opaque test on model/data/globals: text of the C expression *)
| CStageLt (s : string)         (* skipstage < s *)
| CParamNZ (p : string)         (* integer parameter p is non-zero *)
| CInteg (s : string)           (* m->opt.integrator == s *)
| CNot (c : cond) | CAnd (a b : cond) | COr (a b : cond).

Inductive prog :=
| PSkip
| PCall (f : string) (args : list string)
| PSeq (a b : prog)
| PIf (c : cond) (a b : prog)
| PAssign (lhs rhs : string)
| PErr                          (* mjERROR: does not return *)
| PUser.                        (* the user's update of ctrl / qfrc_applied / xfrc_applied *)

(* after inlining calls to translated functions and substituting their parameters *)
Inductive item :=
| ICall (f : string) (args : list string)
| IAssign (lhs rhs : string)
| IErr
| IUser
| IIf (c : cond) (a b : list item).

Fixpoint lookup {A} (k : string) (l : list (string * A)) : option A :=
  match l with
  | [] => None
  | (k', v) :: r => if String.eqb k k' then Some v else lookup k r
  end.

Fixpoint index_of (s : string) (l : list string) : option nat :=
  match l with
  | [] => None
  | x :: r => if String.eqb s x then Some O else option_map S (index_of s r)
  end.

Section Flatten.
Variable funs : list (string * (list string * prog)).
Variable stages : list string.

Definition subst_arg (env : list (string * string)) (a : string) : string :=
  match lookup a env with Some v => v | None => a end.

Fixpoint subst_cond (env : list (string * string)) (c : cond) : option cond :=
  match c with
  | CStageLt s =>
      match lookup "skipstage" env with
      | Some v => match index_of v stages, index_of s stages with
                  | Some i, Some j => Some (if Nat.ltb i j then CTrue else CFalse)
                  | _, _ => None
                  end
      | None => None
      end
  | CParamNZ p => match lookup p env with
                  | Some v => Some (if String.eqb v "0" then CFalse else CTrue)
                  | None => None
                  end
  | CNot a => option_map CNot (subst_cond env a)
  | CAnd a b => match subst_cond env a, subst_cond env b with
                | Some a', Some b' => Some (CAnd a' b') | _, _ => None end
  | COr a b => match subst_cond env a, subst_cond env b with
               | Some a', Some b' => Some (COr a' b') | _, _ => None end
  | _ => Some c
  end.

(* None: out of fuel, arity mismatch, unknown parameter or stage name *)
Fixpoint flat (fuel : nat) (env : list (string * string)) (p : prog) : option (list item) :=
  match fuel with
  | O => None
  | S f =>
    match p with
    | PSkip => Some []
    | PCall g args =>
        let args' := map (subst_arg env) args in
        match lookup g funs with
        | Some (params, body) =>
            if Nat.eqb (length params) (length args') then flat f (combine params args') body else None
        | None => Some [ICall g args']
        end
    | PSeq a b => match flat f env a, flat f env b with
                  | Some a', Some b' => Some (a' ++ b') | _, _ => None end
    | PIf c a b => match subst_cond env c, flat f env a, flat f env b with
                   | Some c', Some a', Some b' => Some [IIf c' a' b'] | _, _, _ => None end
    | PAssign l r => Some [IAssign l r]
    | PErr => Some [IErr]
    | PUser => Some [IUser]
    end
  end.
End Flatten.

(* ---------------------------------------------------------------- semantics *)
Section Sem.
Variable data : Type.
Variable call : string -> list string -> data -> data.
Variable assign : string -> string -> data -> data.
Variable user : data -> data.
Variable atom : string -> data -> bool.
Variable integ : data -> string.

Fixpoint ceval (c : cond) (d : data) : bool :=
  match c with
  | CTrue => true | CFalse => false
  | CAtom s => atom s d
  | CInteg s => String.eqb (integ d) s
  | CNot a => negb (ceval a d)
  | CAnd a b => ceval a d && ceval b d
  | COr a b => ceval a d || ceval b d
  | CStageLt _ | CParamNZ _ => false      (* eliminated by flat *)
  end.

(* None = the error outcome (mjERROR) *)
Fixpoint exec_item (i : item) (d : data) {struct i} : option data :=
  let fix go (l : list item) (d : data) {struct l} : option data :=
      match l with
      | [] => Some d
      | x :: r => match exec_item x d with Some d' => go r d' | None => None end
      end in
  match i with
  | ICall f a => Some (call f a d)
  | IAssign l r => Some (assign l r d)
  | IErr => None
  | IUser => Some (user d)
  | IIf c a b => if ceval c d then go a d else go b d
  end.

Fixpoint exec_list (l : list item) (d : data) : option data :=
  match l with
  | [] => Some d
  | x :: r => match exec_item x d with Some d' => exec_list r d' | None => None end
  end.
End Sem.

(* ---------------------------------------------------------------- simplification under assumptions *)
Section Simp.
Variable asm : list (string * bool).     (* assumed values of atoms (valid for every data) *)
Variable iv : option string.             (* assumed value of m->opt.integrator *)

Fixpoint csimp (c : cond) : cond :=
  match c with
  | CAtom s => match lookup s asm with Some true => CTrue | Some false => CFalse | None => c end
  | CInteg s => match iv with Some v => if String.eqb v s then CTrue else CFalse | None => c end
  | CNot a => match csimp a with CTrue => CFalse | CFalse => CTrue | a' => CNot a' end
  | CAnd a b => match csimp a, csimp b with
                | CFalse, _ => CFalse | _, CFalse => CFalse
                | CTrue, b' => b' | a', CTrue => a' | a', b' => CAnd a' b' end
  | COr a b => match csimp a, csimp b with
               | CTrue, _ => CTrue | _, CTrue => CTrue
               | CFalse, b' => b' | a', CFalse => a' | a', b' => COr a' b' end
  | _ => c
  end.

Fixpoint isimp (i : item) : list item :=
  let fix go (l : list item) : list item :=
      match l with [] => [] | x :: r => isimp x ++ go r end in
  match i with
  | IIf c a b => match csimp c with
                 | CTrue => go a
                 | CFalse => go b
                 | c' => [IIf c' (go a) (go b)]
                 end
  | x => [x]
  end.

Fixpoint lsimp (l : list item) : list item :=
  match l with [] => [] | x :: r => isimp x ++ lsimp r end.
End Simp.

(* ---------------------------------------------------------------- syntactic equality *)
Fixpoint cond_eqb (a b : cond) : bool :=
  match a, b with
  | CTrue, CTrue | CFalse, CFalse => true
  | CAtom x, CAtom y | CStageLt x, CStageLt y | CParamNZ x, CParamNZ y | CInteg x, CInteg y => String.eqb x y
  | CNot x, CNot y => cond_eqb x y
  | CAnd x1 x2, CAnd y1 y2 | COr x1 x2, COr y1 y2 => cond_eqb x1 y1 && cond_eqb x2 y2
  | _, _ => false
  end.

Fixpoint strs_eqb (a b : list string) : bool :=
  match a, b with
  | [], [] => true
  | x :: r, y :: s => String.eqb x y && strs_eqb r s
  | _, _ => false
  end.

Fixpoint item_eqb (a b : item) {struct a} : bool :=
  let fix go (l1 l2 : list item) {struct l1} : bool :=
      match l1, l2 with
      | [], [] => true
      | x :: r, y :: s => item_eqb x y && go r s
      | _, _ => false
      end in
  match a, b with
  | ICall f x, ICall g y => String.eqb f g && strs_eqb x y
  | IAssign l r, IAssign l' r' => String.eqb l l' && String.eqb r r'
  | IErr, IErr | IUser, IUser => true
  | IIf c a1 b1, IIf c' a2 b2 => cond_eqb c c' && go a1 a2 && go b1 b2
  | _, _ => false
  end.

Fixpoint items_eqb (l1 l2 : list item) : bool :=
  match l1, l2 with
  | [], [] => true
  | x :: r, y :: s => item_eqb x y && items_eqb r s
  | _, _ => false
  end.

(* split at the first top-level IUser *)
Fixpoint split_user (l : list item) : option (list item * list item) :=
  match l with
  | [] => None
  | IUser :: r => Some ([], r)
  | x :: r => match split_user r with Some (a, b) => Some (x :: a, b) | None => None end
  end.

(* A = user ; monolithic     B = first half ; user ; second half.
   returns the prefix the user update has to commute with *)
Definition check_split (A B : list item) : option (list item) :=
  match split_user A, split_user B with
  | Some ([], rest), Some (pre, post) => if items_eqb rest (pre ++ post) then Some pre else None
  | _, _ => None
  end.

(* names of the stage functions / assignments / atoms occurring in an item list (for the harness) *)
Fixpoint item_calls (i : item) : list string :=
  let fix go (l : list item) : list string := match l with [] => [] | x :: r => item_calls x ++ go r end in
  match i with
  | ICall f a => [String.concat "," (f :: a)]
  | IAssign l r => [String.append l (String.append "=" r)]
  | IIf c a b => go a ++ go b
  | _ => []
  end.
Fixpoint items_calls (l : list item) : list string :=
  match l with [] => [] | x :: r => item_calls x ++ items_calls r end.
Fixpoint cond_atoms (c : cond) : list string :=
  match c with
  | CAtom s => [s] | CInteg s => ["integrator"]
  | CNot a => cond_atoms a | CAnd a b | COr a b => cond_atoms a ++ cond_atoms b
  | _ => []
  end.
Fixpoint item_atoms (i : item) : list string :=
  let fix go (l : list item) : list string := match l with [] => [] | x :: r => item_atoms x ++ go r end in
  match i with IIf c a b => cond_atoms c ++ go a ++ go b | _ => [] end.
Fixpoint items_atoms (l : list item) : list string :=
  match l with [] => [] | x :: r => item_atoms x ++ items_atoms r end.
