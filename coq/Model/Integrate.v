(* C05: model of the state-advancement kernels of MuJoCo, written once over the numeric class
   (R for proofs, binary64 for running):
     mju_normalize3 / mju_normalize4 (engine_util_blas.c), mju_mulQuat, mju_negQuat,
     mju_axisAngle2Quat, mju_quat2Vel, mju_subQuat, mju_quatIntegrate (engine_util_spatial.c,
     engine_inline.h), mj_integratePos(Ind), mj_differentiatePos, mj_nextActivation
     (engine_support.c), the velocity/position/time part of mj_advance, mj_EulerSkip without
     damping, the stage structure of mj_RungeKutta and the update of mj_implicitSkip with an
     abstract linear solve (engine_forward.c).
   qpos / qvel are flat lists laid out joint after joint (jnt_qposadr / jnt_dofadr are
   consecutive in joint order), exactly as the C arrays.
   Not modelled: sleep filtering (index lists), history buffers, plugins, the DC-motor branch of
   mj_nextActivation, the wrapPeriod / SO3 re-anchoring of integrator activations. *)
From Coq Require Import ZArith List.
From MJV Require Import Lib.Num.
Import ListNotations.

Inductive jtype := JFree | JBall | JSlide | JHinge.      (* mjtJoint: 0 1 2 3 *)

Definition jtype_of_Z (z : Z) : jtype :=
  match z with 0%Z => JFree | 1%Z => JBall | 2%Z => JSlide | _ => JHinge end.

Fixpoint nq_of (js : list jtype) : nat :=
  match js with [] => 0 | JFree :: r => 7 + nq_of r | JBall :: r => 4 + nq_of r | _ :: r => 1 + nq_of r end.
Fixpoint nv_of (js : list jtype) : nat :=
  match js with [] => 0 | JFree :: r => 6 + nv_of r | JBall :: r => 3 + nv_of r | _ :: r => 1 + nv_of r end.

Section K.
Context {T : Type} `{NumT T}.
Local Open Scope num_scope.

Definition mjMINVAL : T := ndec 1 (-15).
Definition vec3 : Type := (T * T * T)%type.
Definition quat : Type := (T * T * T * T)%type.

Definition mjmax (a b : T) : T := if b <=? a then a else b.                 (* a >= b ? a : b *)
Definition mjclip (x lo hi : T) : T := if x <? lo then lo else if hi <? x then hi else x.

(* returns (normalised vector, norm) *)
Definition normalize3 (v : vec3) : vec3 * T :=
  let '(x, y, z) := v in
  let n := nsqrt (x * x + y * y + z * z) in
  if n <? mjMINVAL then ((none, nzero, nzero), n)
  else let ni := none / n in ((x * ni, y * ni, z * ni), n).

Definition normalize4 (q : quat) : quat * T :=
  let '(a, b, c, d) := q in
  let n := nsqrt (a * a + b * b + c * c + d * d) in
  if n <? mjMINVAL then ((none, nzero, nzero, nzero), n)
  else if mjMINVAL <? nabs (n - none) then
    let ni := none / n in ((a * ni, b * ni, c * ni, d * ni), n)
  else (q, n).

Definition mulQuat (p q : quat) : quat :=
  let '(a0, a1, a2, a3) := p in
  let '(b0, b1, b2, b3) := q in
  (a0 * b0 - a1 * b1 - a2 * b2 - a3 * b3,
   a0 * b1 + a1 * b0 + a2 * b3 - a3 * b2,
   a0 * b2 - a1 * b3 + a2 * b0 + a3 * b1,
   a0 * b3 + a1 * b2 - a2 * b1 + a3 * b0).

Definition negQuat (q : quat) : quat := let '(a, b, c, d) := q in (a, - b, - c, - d).

Definition axisAngle2Quat (ax : vec3) (angle : T) : quat :=
  if angle =? nzero then (none, nzero, nzero, nzero)
  else
    let '(x, y, z) := ax in
    let s := nsin (angle * nhalf) in
    (ncos (angle * nhalf), x * s, y * s, z * s).

(* mju_quatIntegrate: quat <- normalize4(quat) * axisAngle(vel/|vel|, scale*|vel|) *)
Definition quatIntegrate (q : quat) (vel : vec3) (scale : T) : quat :=
  let '(ax, n) := normalize3 vel in
  let angle := scale * n in
  let qrot := axisAngle2Quat ax angle in
  mulQuat (fst (normalize4 q)) qrot.

(* the mutant "normalisation removed", kept for the non-vacuity example of the Props file *)
Definition quatIntegrate_nonorm (q : quat) (vel : vec3) (scale : T) : quat :=
  let '(ax, n) := normalize3 vel in
  mulQuat q (axisAngle2Quat ax (scale * n)).

Definition quat2Vel (q : quat) (dt : T) : vec3 :=
  let '(w, x, y, z) := q in
  let '((ax, ay, az), s) := normalize3 (x, y, z) in
  let speed := ntwo * natan2 s w in
  let speed := if npi <? speed then speed - ntwo * npi else speed in
  let speed := speed / dt in
  (ax * speed, ay * speed, az * speed).

(* qb * quat(res) = qa *)
Definition subQuat (qa qb : quat) : vec3 := quat2Vel (mulQuat (negQuat qb) qa) none.

Definition qnorm2 (q : quat) : T := let '(a, b, c, d) := q in a * a + b * b + c * c + d * d.

(* ------------------------------------------------------------------ mj_integratePos *)
Fixpoint integratePos (js : list jtype) (qpos qvel : list T) (dt : T) : list T :=
  match js with
  | [] => qpos
  | JFree :: r =>
      match qpos, qvel with
      | p0 :: p1 :: p2 :: a :: b :: c :: d :: qp, v0 :: v1 :: v2 :: w0 :: w1 :: w2 :: qv =>
          let '(a', b', c', d') := quatIntegrate (a, b, c, d) (w0, w1, w2) dt in
          (p0 + dt * v0) :: (p1 + dt * v1) :: (p2 + dt * v2) :: a' :: b' :: c' :: d' :: integratePos r qp qv dt
      | _, _ => qpos
      end
  | JBall :: r =>
      match qpos, qvel with
      | a :: b :: c :: d :: qp, w0 :: w1 :: w2 :: qv =>
          let '(a', b', c', d') := quatIntegrate (a, b, c, d) (w0, w1, w2) dt in
          a' :: b' :: c' :: d' :: integratePos r qp qv dt
      | _, _ => qpos
      end
  | _ :: r =>
      match qpos, qvel with
      | p :: qp, v :: qv => (p + dt * v) :: integratePos r qp qv dt
      | _, _ => qpos
      end
  end.

(* the quaternions stored in a qpos vector *)
Fixpoint quats_of (js : list jtype) (qpos : list T) : list quat :=
  match js with
  | [] => []
  | JFree :: r =>
      match qpos with
      | _ :: _ :: _ :: a :: b :: c :: d :: qp => (a, b, c, d) :: quats_of r qp
      | _ => []
      end
  | JBall :: r =>
      match qpos with
      | a :: b :: c :: d :: qp => (a, b, c, d) :: quats_of r qp
      | _ => []
      end
  | _ :: r => match qpos with _ :: qp => quats_of r qp | _ => [] end
  end.

(* ------------------------------------------------------------------ mj_differentiatePos *)
Fixpoint differentiatePos (js : list jtype) (dt : T) (qpos1 qpos2 : list T) : list T :=
  match js with
  | [] => []
  | JFree :: r =>
      match qpos1, qpos2 with
      | p0 :: p1 :: p2 :: a :: b :: c :: d :: q1, s0 :: s1 :: s2 :: a2 :: b2 :: c2 :: d2 :: q2 =>
          let '(x, y, z) := subQuat (a2, b2, c2, d2) (a, b, c, d) in
          let k := none / dt in
          ((s0 - p0) / dt) :: ((s1 - p1) / dt) :: ((s2 - p2) / dt) :: (x * k) :: (y * k) :: (z * k)
            :: differentiatePos r dt q1 q2
      | _, _ => []
      end
  | JBall :: r =>
      match qpos1, qpos2 with
      | a :: b :: c :: d :: q1, a2 :: b2 :: c2 :: d2 :: q2 =>
          let '(x, y, z) := subQuat (a2, b2, c2, d2) (a, b, c, d) in
          let k := none / dt in
          (x * k) :: (y * k) :: (z * k) :: differentiatePos r dt q1 q2
      | _, _ => []
      end
  | _ :: r =>
      match qpos1, qpos2 with
      | p :: q1, s :: q2 => ((s - p) / dt) :: differentiatePos r dt q1 q2
      | _, _ => []
      end
  end.

(* ------------------------------------------------------------------ mj_nextActivation *)
(* exact = (dyntype == mjDYN_FILTEREXACT); every other dyntype except mjDYN_DCMOTOR takes the
   Euler branch.  prm0 = actuator_dynprm[0].  The clamp comes AFTER the integration. *)
Definition nextActivation (exact : bool) (h act act_dot prm0 : T) (limited : bool) (lo hi : T) : T :=
  let a :=
    if exact then
      let tau := mjmax mjMINVAL prm0 in
      act + act_dot * tau * (none - nexp (- h / tau))
    else act + act_dot * h in
  if limited then mjclip a lo hi else a.

(* the mutant "clamp before integration" (non-vacuity example) *)
Definition nextActivation_clampfirst (h act act_dot : T) (lo hi : T) : T :=
  mjclip act lo hi + act_dot * h.

(* ------------------------------------------------------------------ actuator force and its velocity derivative *)
(* scalar actuator, affine gain (g0,g1,g2) and affine bias (b0,b1,b2), no activation:
     input  u     = ctrl clamped to ctrlrange when ctrllimited            (mj_fwdActuation, clampVec)
     force(v)     = (g0 + g1 len + g2 v) u + (b0 + b1 len + b2 v), clamped to forcerange when forcelimited
   mjd_actuator_vel: d force / d v = g2 u + b2 unless the (clamped) force sits at a limit, then 0 *)
Definition act_input (ctrllimited : bool) (clo chi ctrl : T) : T := if ctrllimited then mjclip ctrl clo chi else ctrl.
Definition act_force_raw (g0 g1 g2 b0 b1 b2 len u v : T) : T := (g0 + g1 * len + g2 * v) * u + (b0 + b1 * len + b2 * v).
Definition act_force (forcelimited : bool) (flo fhi g0 g1 g2 b0 b1 b2 len u v : T) : T :=
  let f := act_force_raw g0 g1 g2 b0 b1 b2 len u v in if forcelimited then mjclip f flo fhi else f.
Definition act_force_vel (forcelimited : bool) (flo fhi g2 b2 u force : T) : T :=
  if andb forcelimited (orb (force <=? flo) (fhi <=? force)) then nzero else b2 + g2 * u.

(* ------------------------------------------------------------------ mj_advance (velocity, position, time) *)
(* mju_addToScl: res[i] += vec[i]*scl *)
Fixpoint addToScl (res vec : list T) (scl : T) : list T :=
  match res, vec with
  | r :: rs, v :: vs => (r + v * scl) :: addToScl rs vs scl
  | _, _ => res
  end.

Record State := { qpos : list T; qvel : list T; time : T }.

(* qvel_pos: velocity used for the position update; None = the NEW d->qvel (semi-implicit) *)
Definition advance (js : list jtype) (h : T) (s : State) (qacc : list T) (qvel_pos : option (list T)) : State :=
  let v' := addToScl (qvel s) qacc h in
  let vp := match qvel_pos with Some v => v | None => v' end in
  {| qpos := integratePos js (qpos s) vp h; qvel := v'; time := time s + h |}.

(* mj_EulerSkip without joint damping (or with mjDSBL_EULERDAMP): qacc is d->qacc *)
Definition euler (js : list jtype) (h : T) (s : State) (qacc : list T) : State := advance js h s qacc None.

(* the mutant "position integrated with the old velocity" (non-vacuity example) *)
Definition euler_oldvel (js : list jtype) (h : T) (s : State) (qacc : list T) : State :=
  {| qpos := integratePos js (qpos s) (qvel s) h; qvel := addToScl (qvel s) qacc h; time := time s + h |}.

(* implicit / implicitfast / Euler-with-damping: qacc_used = solve (qfrc_smooth + qfrc_constraint),
   where solve inverts M - h*D (implicit: D = qDeriv; Euler damping: D = -diag(B)); then mj_advance *)
Definition implicit_vel (h : T) (qvel qfrc : list T) (solve : list T -> list T) : list T :=
  addToScl qvel (solve qfrc) h.

(* dense matrix-vector product used to state the linear system *)
Definition dotl (a b : list T) : T := fold_right (fun p s => fst p * snd p + s) nzero (combine a b).
Definition mulMV (A : list (list T)) (x : list T) : list T := map (fun row => dotl row x) A.

(* ------------------------------------------------------------------ mj_RungeKutta (N = 4) *)
(* state of the RK stages: (qpos, qvel, act); derivative F = (qacc, act_dot) from an abstract
   forward-dynamics function f time qpos qvel act.  A is the 3x3 array RK4_A (row i-1 = stage i),
   B = RK4_B. *)
Definition scl_list (l : list T) (k : T) : list T := map (fun x => x * k) l.
Fixpoint zeros (n : nat) : list T := match n with O => [] | S m => nzero :: zeros m end.

Definition rk_accum (coef : list T) (vs : list (list T)) (n : nat) : list T :=
  fold_left (fun acc cv => addToScl acc (snd cv) (fst cv)) (combine coef vs) (zeros n).

Definition rk_stage (js : list jtype) (h : T) (q0 v0 a0 : list T)
           (coef : list T) (Xv Fa Fd : list (list T)) : list T * list T * list T :=
  let dpos := rk_accum coef Xv (length v0) in
  let dvel := rk_accum coef Fa (length v0) in
  let dact := rk_accum coef Fd (length a0) in
  (integratePos js q0 dpos h, addToScl v0 dvel h, addToScl a0 dact h).

Definition rk4 (js : list jtype) (h : T) (A : list (list T)) (B : list T)
           (f : T -> list T -> list T -> list T -> list T * list T)
           (t0 : T) (q0 v0 a0 : list T) : list T * list T * list T * T :=
  let csum (row : list T) := fold_left nadd row nzero in
  let '(fa0, fd0) := f t0 q0 v0 a0 in
  let row1 := nth 0 A [] in let row2 := nth 1 A [] in let row3 := nth 2 A [] in
  let '(q1, v1, a1) := rk_stage js h q0 v0 a0 (firstn 1 row1) [v0] [fa0] [fd0] in
  let '(fa1, fd1) := f (t0 + csum (firstn 1 row1) * h) q1 v1 a1 in
  let '(q2, v2, a2) := rk_stage js h q0 v0 a0 (firstn 2 row2) [v0; v1] [fa0; fa1] [fd0; fd1] in
  let '(fa2, fd2) := f (t0 + csum (firstn 2 row2) * h) q2 v2 a2 in
  let '(q3, v3, a3) := rk_stage js h q0 v0 a0 (firstn 3 row3) [v0; v1; v2] [fa0; fa1; fa2] [fd0; fd1; fd2] in
  let '(fa3, fd3) := f (t0 + csum (firstn 3 row3) * h) q3 v3 a3 in
  let dpos := rk_accum B [v0; v1; v2; v3] (length v0) in
  let dvel := rk_accum B [fa0; fa1; fa2; fa3] (length v0) in
  let dact := rk_accum B [fd0; fd1; fd2; fd3] (length a0) in
  let s := advance js h {| qpos := q0; qvel := v0; time := t0 |} dvel (Some dpos) in
  (qpos s, qvel s, dact, time s).      (* dact is the act_dot handed to mj_nextActivation *)

End K.

(* ------------------------------------------------------------------ tableau (exact rationals) *)
From Coq Require Import QArith.
(* A : 3x3 row-major as in RK4_A, B : 4 entries.  a i j for stages i = 1..3, j < i; c i = row sum *)
Definition tab_a (A : list Q) (i j : nat) : Q :=
  match i with O => 0 | S i' => if Nat.ltb j i then nth (i' * 3 + j) A 0 else 0 end.
Definition tab_c (A : list Q) (i : nat) : Q := tab_a A i 0 + tab_a A i 1 + tab_a A i 2.
Definition qsum4 (f : nat -> Q) : Q := f 0%nat + f 1%nat + f 2%nat + f 3%nat.
Definition tab_b (B : list Q) (i : nat) : Q := nth i B 0.

(* the eight order conditions of a 4-stage explicit Runge-Kutta method of order 4 *)
Definition rk4_order_conditions (A B : list Q) : list (Q * Q) :=
  let a := tab_a A in let b := tab_b B in let c := tab_c A in
  [ (qsum4 (fun i => b i), 1);
    (qsum4 (fun i => b i * c i), 1 # 2);
    (qsum4 (fun i => b i * c i * c i), 1 # 3);
    (qsum4 (fun i => qsum4 (fun j => b i * a i j * c j)), 1 # 6);
    (qsum4 (fun i => b i * c i * c i * c i), 1 # 4);
    (qsum4 (fun i => qsum4 (fun j => b i * c i * a i j * c j)), 1 # 8);
    (qsum4 (fun i => qsum4 (fun j => b i * a i j * c j * c j)), 1 # 12);
    (qsum4 (fun i => qsum4 (fun j => qsum4 (fun k => b i * a i j * a j k * c k))), 1 # 24) ].
Definition rk4_order_ok (A B : list Q) : bool :=
  forallb (fun p => Qeq_bool (fst p) (snd p)) (rk4_order_conditions A B).
(* only the strictly lower triangle of A is read by mj_RungeKutta (j < i) *)
Definition rk4_lower (A : list Q) : list Q :=
  [tab_a A 1 0; tab_a A 2 0; tab_a A 2 1; tab_a A 3 0; tab_a A 3 1; tab_a A 3 2].
Definition classical_lower : list Q := [1 # 2; 0; 1 # 2; 0; 0; 1].
Definition classical_B : list Q := [1 # 6; 1 # 3; 1 # 3; 1 # 6].
Definition qlist_eqb (x y : list Q) : bool :=
  Nat.eqb (length x) (length y) && forallb (fun p => Qeq_bool (fst p) (snd p)) (combine x y).

(* conversion of the regenerated rational tableau to the numeric type (1/6 becomes 1.0/6.0 at float) *)
Definition q2T {T : Type} `{Num T} (x : Q) : T := ndiv (nofZ (Qnum x)) (nofZ (Zpos (Qden x))).
Definition rows3 {A : Type} (l : list A) : list (list A) := [firstn 3 l; firstn 3 (skipn 3 l); firstn 3 (skipn 6 l)].
