(* Dataflow (read/write frame) analysis of pipeline programs: definitions only.
   data = field name -> value.  A stage has a frame: the fields it may read, the fields it always
   fully (re)computes from what it reads ("must"), and the fields it may write partially or
   conditionally ("may").  [flow_list] propagates the set of fields on which two runs are known to
   agree; it fails (None) on a use of a field that is not known to agree (def-before-use). *)
From Coq Require Import String List Bool Arith.
From MJV Require Import Model.Pipeline.
Import ListNotations.
Open Scope string_scope.
Open Scope list_scope.

Record frame := { f_reads : list string; f_must : list string; f_may : list string }.

Definition mem (x : string) (l : list string) : bool := existsb (String.eqb x) l.
Definition subset (a b : list string) : bool := forallb (fun x => mem x b) a.
Definition remove_all (k l : list string) : list string := filter (fun x => negb (mem x k)) l.
Definition inter (a b : list string) : list string := filter (fun x => mem x b) a.

Definition call_key (f : string) (args : list string) : string := String.concat "," (f :: args).

(* "d->name" -> (name, true)   "d->name[k]" -> (name, false) *)
Definition field_of_assign (lhs : string) : option (string * bool) :=
  if String.prefix "d->" lhs then
    let s := String.substring 3 (String.length lhs - 3) lhs in
    match String.index 0 "[" s with
    | Some i => Some (String.substring 0 i s, false)
    | None => Some (s, true)
    end
  else None.

Section Flow.
Variable table : list (string * frame).
Variable atom_reads : list (string * list string).

Fixpoint cond_reads (c : cond) : option (list string) :=
  match c with
  | CTrue | CFalse => Some []
  | CAtom s => lookup s atom_reads
  | CInteg _ => Some []
  | CNot a => cond_reads a
  | CAnd a b | COr a b => match cond_reads a, cond_reads b with
                          | Some x, Some y => Some (x ++ y) | _, _ => None end
  | CStageLt _ | CParamNZ _ => None
  end.

Fixpoint flow_item (i : item) (D : list string) {struct i} : option (list string) :=
  let fix go (l : list item) (D : list string) {struct l} : option (list string) :=
      match l with
      | [] => Some D
      | x :: r => match flow_item x D with Some D' => go r D' | None => None end
      end in
  match i with
  | ICall f a =>
      match lookup (call_key f a) table with
      | Some fr => if subset (f_reads fr) D then Some (f_must fr ++ remove_all (f_may fr) D) else None
      | None => None
      end
  | IAssign l r =>
      match field_of_assign l with
      | Some (fld, true) => Some (fld :: D)
      | Some (fld, false) => Some (remove_all [fld] D)
      | None => None
      end
  | IErr => Some D
  | IUser => None
  | IIf c a b =>
      match cond_reads c with
      | Some rs => if subset rs D then
                     match go a D, go b D with
                     | Some Da, Some Db => Some (inter Da Db)
                     | _, _ => None
                     end
                   else None
      | None => None
      end
  end.

Fixpoint flow_list (l : list item) (D : list string) : option (list string) :=
  match l with
  | [] => Some D
  | x :: r => match flow_item x D with Some D' => flow_list r D' | None => None end
  end.

(* diagnostic: first stage whose reads are not covered, with the missing fields *)
Fixpoint first_undefined (l : list item) (D : list string) : option (string * list string) :=
  match l with
  | [] => None
  | x :: r =>
      match flow_item x D with
      | Some D' => first_undefined r D'
      | None => match x with
                | ICall f a => match lookup (call_key f a) table with
                               | Some fr => Some (call_key f a, filter (fun y => negb (mem y D)) (f_reads fr))
                               | None => Some (call_key f a, ["<no frame>"])
                               end
                | IIf c _ _ => Some ("<if>", match cond_reads c with Some rs => filter (fun y => negb (mem y D)) rs | None => ["<unknown atom>"] end)
                | _ => Some ("<item>", [])
                end
      end
  end.
End Flow.
