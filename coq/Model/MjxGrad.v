(* C45 — the places where MJX DEFINES a derivative or guards a NaN-prone point (definitions only, over Lib/Num):
   mjx/mujoco/mjx/_src/collision_sdf.py : _cylinder (primal, decorated with jax.custom_jvp), _cylinder_grad and
     cylinder_jvp (tangent_out = dot(_cylinder_grad(x, size), x_dot); the tangent of `size` is discarded);
   mjx/mujoco/mjx/_src/math.py : safe_div, norm (the double-where pattern), normalize_with_norm.
   JAX differentiates everything else by tracing; for a `where`/mask-guarded expression the derivative JAX computes is
   the derivative of the SELECTED branch with the mask held constant: the *_sel definitions below are those branches. *)
From Coq Require Import ZArith List Bool.
From MJV Require Import Lib.Num.
Import ListNotations.

Section G.
Context {T : Type} `{Num T}.
Local Open Scope num_scope.

(* jp.allclose(x, 0) with the default rtol = 1e-5, atol = 1e-8: |x - 0| <= atol + rtol * |0| *)
Definition allclose0 (x : T) : bool := nabs x <=? ndec 1 (-8).
Definition tiny : T := ndec 1 (-12).

(* ---- _cylinder(pos, size): signed distance to a cylinder of radius r = size[0], half-length h = size[1] *)
Definition cyl_form (a0 a1 : T) : T :=
  let b0 := nmax a0 nzero in
  let b1 := nmax a1 nzero in
  nmin (nmax a0 a1) nzero + nsqrt (b0 * b0 + b1 * b1).
Definition cyl_a0 (x0 x1 r : T) : T := nsqrt (x0 * x0 + x1 * x1) - r.
Definition cyl_a1 (x2 h : T) : T := nabs x2 - h.
Definition cyl (x0 x1 x2 r h : T) : T := cyl_form (cyl_a0 x0 x1 r) (cyl_a1 x2 h).

(* ---- _cylinder_grad(x, size) *)
Definition cyl_grad (x0 x1 x2 r h : T) : T * T * T :=
  let c := nsqrt (x0 * x0 + x1 * x1) in
  let e := nabs x2 in
  let a0 := c - r in
  let a1 := e - h in
  let b0 := nmax a0 nzero in
  let b1 := nmax a1 nzero in
  let j1 := a0 <? a1 in                                    (* jp.argmax([a0, a1]) = 1 iff a1 > a0 *)
  let bn := nsqrt (b0 * b0 + b1 * b1) in
  let bnorm := bn + (if allclose0 bn then tiny else nzero) in
  let cd := c + (if allclose0 c then tiny else nzero) in
  let ed := e + (if allclose0 e then tiny else nzero) in
  let g0 := x0 / cd in
  let g1 := x1 / cd in
  let g2 := x2 / ed in
  if (if j1 then a1 else a0) <? nzero
  then (if j1 then (nzero, nzero, g2) else (g0, g1, nzero))
  else (g0 * b0 / bnorm, g1 * b0 / bnorm, g2 * b1 / bnorm).

(* cylinder_jvp: tangent of the output for a tangent (v, s) of (pos, size): the size tangent s is ignored *)
Definition cyl_jvp (x0 x1 x2 r h v0 v1 v2 sr sh : T) : T :=
  let '(g0, g1, g2) := cyl_grad x0 x1 x2 r h in g0 * v0 + g1 * v1 + g2 * v2.

(* ---- math.safe_div(num, den) = num / (den + mjMINVAL * (den == 0)) *)
Definition safe_div (num den : T) : T := num / (den + ndec 1 (-15) * (if den =? nzero then none else nzero)).
(* the branch JAX differentiates: the mask is a constant of the trace *)
Definition safe_div_sel (mask : bool) (num den : T) : T := num / (den + ndec 1 (-15) * (if mask then none else nzero)).

(* ---- math.norm(x) for a 3-vector:
     is_zero = jp.allclose(x, 0.0);  x = jp.where(is_zero, jp.ones_like(x), x);  n = jp.linalg.norm(x);  n = jp.where(is_zero, 0.0, n) *)
Definition is_zero3 (x0 x1 x2 : T) : bool := allclose0 x0 && allclose0 x1 && allclose0 x2.
Definition enorm3 (x0 x1 x2 : T) : T := nsqrt (x0 * x0 + x1 * x1 + x2 * x2).
Definition safe_norm3 (x0 x1 x2 : T) : T :=
  let z := is_zero3 x0 x1 x2 in
  let y0 := if z then none else x0 in
  let y1 := if z then none else x1 in
  let y2 := if z then none else x2 in
  let n := enorm3 y0 y1 y2 in
  if z then nzero else n.
(* the gradient reverse-mode JAX returns: cotangent 1 goes to the selected branch of the outer where (0 when is_zero), through
   linalg.norm at the substituted point y, and back through the inner where (0 to x when is_zero) *)
Definition safe_norm3_grad (x0 x1 x2 : T) : T * T * T :=
  let z := is_zero3 x0 x1 x2 in
  let y0 := if z then none else x0 in
  let y1 := if z then none else x1 in
  let y2 := if z then none else x2 in
  let n := enorm3 y0 y1 y2 in
  let outer := if z then nzero else none in                   (* d where(is_zero, 0, n) / d n *)
  let inner := if z then nzero else none in                   (* d where(is_zero, 1, x_i) / d x_i *)
  (outer * (y0 / n) * inner, outer * (y1 / n) * inner, outer * (y2 / n) * inner).

(* ---- math.normalize_with_norm(x) = (x / (n + 1e-6 * (n == 0)), n) with n = norm(x) *)
Definition normalize3_with_norm (x0 x1 x2 : T) : T * T * T * T :=
  let n := safe_norm3 x0 x1 x2 in
  let d := n + ndec 1 (-6) * (if n =? nzero then none else nzero) in
  (x0 / d, x1 / d, x2 / d, n).

End G.
