(* C39 — model of the virtual file system (src/user/user_vfs.cc, user_resource.cc) and of the path
   functions of mujoco::user::FilePath (src/user/user_util.cc) that compute its keys.

   Definitions only, executable by vm_compute.

   What is modelled and how
   - a path / name is a list of characters; file contents are lists of byte values (Z);
   - mounts_ : unordered_map<string, ResourcePtr>, restricted to the mounts that mj_addBufferVFS /
       mj_addFileVFS create (BufferProvider: key -> contents)  ->  association list, newest first;
       its order is used nowhere except by the legacy file-name lookup, which therefore returns the
       LIST of all candidates (the C++ loop returns the first one in hash-table iteration order);
   - no resource provider is registered (mjp_getResourceProvider = NULL for every name), which is
       the situation of the harness;
   - the default mount (OS files) is a fixed function disk : path -> option contents;
       mj_addFileVFS reads the file through it (a missing file gives empty contents, as
       FileToMemory does);
   - FindMount's while loop runs on fuel = length of the path + 1;
   - NULL directory arguments are the empty string (as the C++ code does); NULL names are not
       modelled. *)
From Coq Require Import List ZArith Bool Ascii String.
From MJV Require Import Lib.Eqb.
Import ListNotations.
Open Scope Z_scope.

Definition path := list ascii.
Definition bytes := list Z.

Definition path_eqb : path -> path -> bool := list_eqb Ascii.eqb.
Definition is_sep (c : ascii) : bool := Ascii.eqb c "/"%char || Ascii.eqb c "\"%char.

(* ---- FilePath ---- *)
(* index of the first occurrence of the two characters a b *)
Fixpoint find2 (a b : ascii) (s : path) : option nat :=
  match s with
  | c :: (d :: _) as r => if Ascii.eqb c a && Ascii.eqb d b then Some O else option_map S (find2 a b r)
  | _ => None
  end.

(* FilePath::AbsPrefix with no registered resource provider *)
Definition abs_prefix (s : path) : path :=
  match s with
  | [] => []
  | c :: _ =>
      if is_sep c then [c]
      else match find2 ":"%char "/"%char s with
           | Some p => firstn (p + 2) s
           | None => match find2 ":"%char "\"%char s with
                     | Some p => firstn (p + 2) s
                     | None => []
                     end
           end
  end.

(* components between separators; cur is the current component, reversed *)
Fixpoint split_sep (s : path) (cur : path) : list path :=
  match s with
  | [] => [rev cur]
  | c :: r => if is_sep c then rev cur :: split_sep r [] else split_sep r (c :: cur)
  end.

Definition dotdot : path := [".";"."]%char.
Definition dot : path := ["."]%char.

(* the loop of PathReduce over the components; dirs is the vector, reversed; the last component is
   pushed unconditionally *)
Fixpoint reduce_dirs (comps : list path) (dirs : list path) : list path :=
  match comps with
  | [] => dirs
  | [last] => last :: dirs
  | t :: r =>
      if path_eqb t dotdot && match dirs with [] => false | d :: _ => negb (path_eqb d dotdot) end
      then reduce_dirs r (tl dirs)
      else if negb (path_eqb t dot) then reduce_dirs r (t :: dirs)
      else reduce_dirs r dirs
  end.

Fixpoint join_slash (l : list path) : path :=
  match l with
  | [] => []
  | [x] => x
  | x :: r => x ++ "/"%char :: join_slash r
  end.

Definition path_reduce (s : path) : path :=
  let p := abs_prefix s in
  p ++ join_slash (rev (reduce_dirs (split_sep (skipn (List.length p) s) []) [])).

Definition combine_path (s1 s2 : path) : path :=
  match abs_prefix s2 with
  | _ :: _ => s2
  | [] => match rev s1 with
          | [] => s1 ++ s2
          | c :: _ => if is_sep c then s1 ++ s2 else s1 ++ "/"%char :: s2
          end
  end.

(* FilePath(dir, name).Str() and FilePath(name).Str() *)
Definition file_path2 (dir name : path) : path := path_reduce (combine_path dir name).
Definition file_path (name : path) : path := path_reduce name.

(* position of the last separator *)
Fixpoint last_sep_from (s : path) (i : nat) (acc : option nat) : option nat :=
  match s with
  | [] => acc
  | c :: r => last_sep_from r (S i) (if is_sep c then Some i else acc)
  end.
Definition last_sep (s : path) : option nat := last_sep_from s O None.

Definition strip_path (s : path) : path :=
  match last_sep s with Some n => skipn (S n) s | None => s end.

Definition lower_char (c : ascii) : ascii :=
  let n := nat_of_ascii c in
  if (Nat.leb 65 n && Nat.leb n 90)%bool then ascii_of_nat (n + 32) else c.
Definition lower (s : path) : path := map lower_char s.
Definition strip_lower (s : path) : path := lower (strip_path s).

(* ---- the VFS ---- *)
Definition vfs := list (path * bytes).
Definition disk_t := path -> option bytes.

Fixpoint lookup (k : path) (v : vfs) : option bytes :=
  match v with
  | [] => None
  | (k', b) :: r => if path_eqb k k' then Some b else lookup k r
  end.
Definition mem (k : path) (v : vfs) : bool := match lookup k v with Some _ => true | None => false end.
Fixpoint remove (k : path) (v : vfs) : vfs :=
  match v with
  | [] => []
  | (k', b) :: r => if path_eqb k k' then remove k r else (k', b) :: remove k r
  end.

(* VFS::Mount for a BufferProvider: 0 = kSuccess, 2 = kRepeatedName *)
Definition mount (k : path) (b : bytes) (v : vfs) : vfs * Z :=
  if mem k v then (v, 2) else ((k, b) :: v, 0).
(* VFS::Unmount via mj_unmountVFS(name): 0 = kSuccess, -1 = not found *)
Definition unmount (name : path) (v : vfs) : vfs * Z :=
  let k := file_path name in
  if mem k v then (remove k v, 0) else (v, -1).

Definition add_buffer (name : path) (b : bytes) (v : vfs) : vfs * Z := mount (file_path name) b v.

Definition add_file (disk : disk_t) (dir name : path) (v : vfs) : vfs * Z :=
  let full := file_path2 dir name in
  let contents := match disk full with Some b => b | None => [] end in
  mount (strip_lower full) contents v.

Definition delete_file (name : path) (v : vfs) : vfs * Z :=
  let '(v1, r1) := unmount name v in
  if r1 =? 0 then (v1, 0) else unmount (strip_lower (file_path name)) v.

(* VFS::ContainsBuffer: the name is normalised like in add / delete *)
Definition contains_buffer (name : path) (v : vfs) : bool := mem (file_path name) v.
Definition contains_file (dir name : path) (v : vfs) : bool := mem (strip_lower (file_path2 dir name)) v.

(* VFS::FindMount *)
Inductive found := FMount (k : path) | FLegacy (cands : list path) | FDefault | FFuel.

Fixpoint find_exact (fuel : nat) (v : vfs) (str : path) : option (option path) :=
  match fuel with
  | O => None
  | S f =>
      match str with
      | [] => Some None
      | _ => if mem str v then Some (Some str)
             else match last_sep str with
                  | None => Some None
                  | Some n => find_exact f v (firstn n str)
                  end
      end
  end.

Definition find_mount (v : vfs) (full : path) : found :=
  match find_exact (S (List.length full)) v full with
  | None => FFuel
  | Some (Some k) => FMount k
  | Some None =>
      match filter (fun k => path_eqb (strip_lower k) (strip_lower full)) (map fst v) with
      | [] => FDefault
      | cands => FLegacy cands
      end
  end.

(* mju_openResource + mju_readResource: the possible outcomes; None = open failed (NULL),
   Some b = opened and b was read.  More than one outcome only for an ambiguous legacy match. *)
Definition content_of (v : vfs) (k : path) : option bytes := lookup k v.
Definition open_read (disk : disk_t) (dir name : path) (v : vfs) : list (option bytes) :=
  let full := file_path2 dir name in
  match find_mount v full with
  | FMount k => [content_of v k]
  | FLegacy cands => map (content_of v) cands
  | FDefault => [disk full]
  | FFuel => []
  end.

(* ---- histories ---- *)
Inductive op :=
| OAddBuffer (name : path) (b : bytes)
| OAddFile (dir name : path)
| ODelete (name : path)
| OContainsBuffer (name : path)
| OContainsFile (dir name : path)
| OOpen (dir name : path)
| OReinit.

Inductive res :=
| RCode (z : Z)
| ROpen (outcomes : list (option bytes)).

Definition step (disk : disk_t) (o : op) (v : vfs) : vfs * res :=
  match o with
  | OAddBuffer name b => let '(v', r) := add_buffer name b v in (v', RCode r)
  | OAddFile dir name => let '(v', r) := add_file disk dir name v in (v', RCode r)
  | ODelete name => let '(v', r) := delete_file name v in (v', RCode r)
  | OContainsBuffer name => (v, RCode (if contains_buffer name v then 1 else 0))
  | OContainsFile dir name => (v, RCode (if contains_file dir name v then 1 else 0))
  | OOpen dir name => (v, ROpen (open_read disk dir name v))
  | OReinit => ([], RCode 0)
  end.

Fixpoint run (disk : disk_t) (h : list op) (v : vfs) : vfs * list res :=
  match h with
  | [] => (v, [])
  | o :: r => let '(v1, x) := step disk o v in
              let '(v2, xs) := run disk r v1 in (v2, x :: xs)
  end.

(* ---- correspondence ---- *)
Definition disk_of (l : list (path * bytes)) : disk_t := fun p => lookup p l.
Definition p (s : string) : path := list_ascii_of_string s.

Definition obytes_eqb := opt_eqb zlist_eqb.
(* implementation result er: for RCode the code; for ROpen either [] (NULL) or Some bytes *)
Inductive ires := ICode (z : Z) | IOpen (o : option bytes).
Definition res_match (x : res) (e : ires) : bool :=
  match x, e with
  | RCode a, ICode b => a =? b
  | ROpen outs, IOpen o => existsb (obytes_eqb o) outs
  | _, _ => false
  end.

(* probe dump over a universe of names: containsBuffer(name) and open("", name) *)
Definition probe_match (disk : disk_t) (v : vfs) (name : path) (e : bool * option bytes) : bool :=
  Bool.eqb (contains_buffer name v) (fst e) && existsb (obytes_eqb (snd e)) (open_read disk [] name v).

Fixpoint all2 {A B} (f : A -> B -> bool) (l : list A) (m : list B) : bool :=
  match l, m with
  | [], [] => true
  | a :: l', b :: m' => f a b && all2 f l' m'
  | _, _ => false
  end.

Fixpoint check_trace (disk : disk_t) (uni : list path) (h : list op)
         (e : list (ires * list (bool * option bytes))) (v : vfs) : bool :=
  match h, e with
  | [], [] => true
  | o :: r, (er, ep) :: e' =>
      let '(v', x) := step disk o v in
      res_match x er && all2 (probe_match disk v') uni ep && check_trace disk uni r e' v'
  | _, _ => false
  end.
