(* C07 (constraint rows): the limit row of a ball joint in mj_instantiateLimit (src/engine/engine_core_constraint.c), over the
   numeric class: quat = normalize4(qpos[jnt_qposadr ..]); angleAxis = quat2Vel(quat, 1); value = |angleAxis| (then
   normalised); dist = max(range) - value; dense row = zeros with -axis written at the columns jnt_dofadr .. jnt_dofadr+2
   (the sparse row has the same three values with chain = these columns). *)
From Coq Require Import ZArith List Bool.
From MJV Require Import Lib.Num Model.Spatial.
Import ListNotations.

Section LimitRow.
Context {T : Type} `{NumT T}.
Local Open Scope num_scope.

(* a dense row of length nv: the values v at the columns adr, adr+1, ..., zeros elsewhere *)
Definition scatterRow (nv adr : nat) (v : list T) : list T :=
  map (fun k => if Nat.leb adr k && Nat.ltb k (adr + length v) then nth (k - adr) v nzero else nzero) (seq 0 nv).

(* (dist, unit rotation axis) *)
Definition ballLimit (q : quat T) (r0 r1 : T) : T * vec3 T :=
  let '(axis, value) := normalize3 (quat2Vel (fst (normalize4 q)) none) in
  (nmax r0 r1 - value, axis).

Definition ballLimitRow (nv dofadr : nat) (q : quat T) (r0 r1 : T) : list T :=
  scatterRow nv dofadr (map nopp (v2l (snd (ballLimit q r0 r1)))).
End LimitRow.
