(* Declarative side of C41: the documented rules of the MJCF schema language as predicates on the
   schema value of Model/SchemaLang.v (no reference to the parser or to _validate), the line-number
   invariant, and the size measure used to bound the recursion depth.  Definitions only. *)
From Coq Require Import String.
From Coq Require Import NArith ZArith List Bool.
From MJV Require Import Model.SchemaLang.
Import ListNotations.
Open Scope N_scope.

(* number of newline characters of a text; the lexer's line counter ends at 1 + cnl text *)
Fixpoint cnl (l : str) : N :=
  match l with [] => 0 | c :: r => (if c =? 10 then 1 else 0) + cnl r end.

(* ------------------------------------------------------------------ line numbers stored in a schema *)

Definition lok (L : N) (l : N) : Prop := 1 <= l <= L.

Definition member_line (m : member) : N :=
  match m with
  | MAttr a => a_line a
  | MUse _ l | MChild _ _ _ l | MConst _ _ _ l | MCon _ _ _ l => l
  end.

Definition schema_lines (L : N) (s : schema) : Prop :=
  Forall (fun e => lok L (en_line e)) (s_enums s) /\
  Forall (fun g => lok L (g_line g) /\ Forall (fun m => lok L (member_line m)) (g_members g)) (s_groups s) /\
  Forall (fun e => lok L (e_line e) /\ Forall (fun m => lok L (member_line m)) (e_members e)) (s_elements s).

(* ------------------------------------------------------------------ rules enforced while parsing *)

(* well-formed arity: not negative; an integer upper bound is not below the lower bound
   (a written range lo..hi must be increasing, [n] stands for n..n) *)
Definition arity_ok (a : arity) : Prop :=
  (0 <= alo a)%Z /\ match ahi a with HiInt h => (alo a <= h)%Z | _ => True end.

(* facets: each at most once, only known ones *)
Definition facets_ok (known : list str) (fs : facets) : Prop :=
  NoDup (map fst fs) /\ Forall (fun kv => In (fst kv) known) fs.

Definition has_target (t : atype) : bool :=
  match t with TEnum | TFlags | TId | TRef => true | _ => false end.

Definition attr_syn (a : attr) : Prop :=
  arity_ok (a_arity a) /\ facets_ok known_facets (a_facets a) /\
  (if has_target (a_type a)
   then (exists t, a_target a = Some t) /\ a_arity a = Arity 1 (HiInt 1)
   else a_target a = None).

(* [in_element]: child and set members are allowed in elements only *)
Definition member_syn (in_element : bool) (m : member) : Prop :=
  match m with
  | MAttr a => attr_syn a
  | MUse _ _ => True
  | MChild _ c _ _ => in_element = true /\ In c cardinalities
  | MConst _ _ _ _ => in_element = true
  | MCon _ bs _ _ => (2 <= List.length bs)%nat /\ Forall (fun b => b <> []) bs
  end.

Definition enum_syn (e : enum) : Prop := en_items e <> [] /\ NoDup (map fst (en_items e)).
Definition group_syn (g : group) : Prop := g_members g <> [] /\ Forall (member_syn false) (g_members g).
Definition element_syn (e : element) : Prop :=
  facets_ok element_facets (e_facets e) /\ Forall (member_syn true) (e_members e).

(* unique declarations per table + the rules above *)
Definition schema_syn (s : schema) : Prop :=
  NoDup (map en_name (s_enums s)) /\ NoDup (map g_name (s_groups s)) /\ NoDup (map e_name (s_elements s)) /\
  Forall enum_syn (s_enums s) /\ Forall group_syn (s_groups s) /\ Forall element_syn (s_elements s).

(* ------------------------------------------------------------------ recursion depth *)

(* number of declared groups of a text (0 when it does not parse): every `use` chain is shorter *)
Definition groups_of (text : str) : nat :=
  match parse_text text with Ok s => List.length (s_groups s) | _ => 0%nat end.

(* the text   group g0 { use g1 } ... group g<n-2> { use g<n-1> }  group g<n-1> { a : int }   *)
Fixpoint dec_digits (fuel : nat) (n : N) (acc : str) : str :=
  match fuel with
  | O => acc
  | S f => let acc' := (48 + n mod 10) :: acc in if n / 10 =? 0 then acc' else dec_digits f (n / 10) acc'
  end.
Definition dec (n : N) : str := dec_digits 20 n [].
Definition chain_line (i : N) (last : bool) : str :=
  nstr "group g"%string ++ dec i ++ nstr " { "%string ++ (if last then nstr "a : int"%string else nstr "use g"%string ++ dec (i + 1)) ++ nstr " }"%string ++ [10].
Fixpoint chain_from (k : nat) (i : N) : str :=
  match k with
  | O => []
  | S k' => match k' with O => chain_line i true | S _ => chain_line i false ++ chain_from k' (i + 1) end
  end.
Definition chain_text (n : nat) : str := chain_from n 0.

Definition is_recursion_error (r : result schema) : bool :=
  match r with PyExn RecursionError => true | _ => false end.
Definition is_ok (r : result schema) : bool := match r with Ok _ => true | _ => false end.
