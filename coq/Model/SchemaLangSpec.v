(* Declarative side of C41: the documented rules of the MJCF schema language as predicates on the
   schema value of Model/SchemaLang.v (no reference to the parser or to _validate), the line-number
   invariant, and the size measure used to bound the recursion depth.  Definitions only. *)
From Coq Require Import String.
From Coq Require Import NArith ZArith List Bool.
From MJV Require Import Model.SchemaLang.
Import ListNotations.
Open Scope N_scope.

(* number of newline characters of a text; the lexer's line counter ends at 1 + cnl text *)
Fixpoint cnl (l : str) : N :=
  match l with [] => 0 | c :: r => (if c =? 10 then 1 else 0) + cnl r end.

(* ------------------------------------------------------------------ line numbers stored in a schema *)

Definition lok (L : N) (l : N) : Prop := 1 <= l <= L.

Definition member_line (m : member) : N :=
  match m with
  | MAttr a => a_line a
  | MUse _ l | MChild _ _ _ l | MConst _ _ _ l | MCon _ _ _ l => l
  end.

Definition schema_lines (L : N) (s : schema) : Prop :=
  Forall (fun e => lok L (en_line e)) (s_enums s) /\
  Forall (fun g => lok L (g_line g) /\ Forall (fun m => lok L (member_line m)) (g_members g)) (s_groups s) /\
  Forall (fun e => lok L (e_line e) /\ Forall (fun m => lok L (member_line m)) (e_members e)) (s_elements s).

(* ------------------------------------------------------------------ rules enforced while parsing *)

(* well-formed arity: not negative; an integer upper bound is not below the lower bound
   (a written range lo..hi must be increasing, [n] stands for n..n) *)
Definition arity_ok (a : arity) : Prop :=
  (0 <= alo a)%Z /\ match ahi a with HiInt h => (alo a <= h)%Z | _ => True end.

(* facets: each at most once, only known ones *)
Definition facets_ok (known : list str) (fs : facets) : Prop :=
  NoDup (map fst fs) /\ Forall (fun kv => In (fst kv) known) fs.

Definition has_target (t : atype) : bool :=
  match t with TEnum | TFlags | TId | TRef => true | _ => false end.

Definition attr_syn (a : attr) : Prop :=
  arity_ok (a_arity a) /\ facets_ok known_facets (a_facets a) /\
  (if has_target (a_type a)
   then (exists t, a_target a = Some t) /\ a_arity a = Arity 1 (HiInt 1)
   else a_target a = None).

(* [in_element]: child and set members are allowed in elements only *)
Definition member_syn (in_element : bool) (m : member) : Prop :=
  match m with
  | MAttr a => attr_syn a
  | MUse _ _ => True
  | MChild _ c _ _ => in_element = true /\ In c cardinalities
  | MConst _ _ _ _ => in_element = true
  | MCon _ bs _ _ => (2 <= List.length bs)%nat /\ Forall (fun b => b <> []) bs
  end.

Definition enum_syn (e : enum) : Prop := en_items e <> [] /\ NoDup (map fst (en_items e)).
Definition group_syn (g : group) : Prop := g_members g <> [] /\ Forall (member_syn false) (g_members g).
Definition element_syn (e : element) : Prop :=
  facets_ok element_facets (e_facets e) /\ Forall (member_syn true) (e_members e).

(* unique declarations per table + the rules above *)
Definition schema_syn (s : schema) : Prop :=
  NoDup (map en_name (s_enums s)) /\ NoDup (map g_name (s_groups s)) /\ NoDup (map e_name (s_elements s)) /\
  Forall enum_syn (s_enums s) /\ Forall group_syn (s_groups s) /\ Forall element_syn (s_elements s).

(* ------------------------------------------------------------------ recursion depth *)

(* number of declared groups of a text (0 when it does not parse): every `use` chain is shorter *)
Definition groups_of (text : str) : nat :=
  match parse_text text with Ok s => List.length (s_groups s) | _ => 0%nat end.

(* the text   group g0 { use g1 } ... group g<n-2> { use g<n-1> }  group g<n-1> { a : int }   *)
Fixpoint dec_digits (fuel : nat) (n : N) (acc : str) : str :=
  match fuel with
  | O => acc
  | S f => let acc' := (48 + n mod 10) :: acc in if n / 10 =? 0 then acc' else dec_digits f (n / 10) acc'
  end.
Definition dec (n : N) : str := dec_digits 20 n [].
Definition chain_line (i : N) (last : bool) : str :=
  nstr "group g"%string ++ dec i ++ nstr " { "%string ++ (if last then nstr "a : int"%string else nstr "use g"%string ++ dec (i + 1)) ++ nstr " }"%string ++ [10].
Fixpoint chain_from (k : nat) (i : N) : str :=
  match k with
  | O => []
  | S k' => match k' with O => chain_line i true | S _ => chain_line i false ++ chain_from k' (i + 1) end
  end.
Definition chain_text (n : nat) : str := chain_from n 0.

Definition is_recursion_error (r : result schema) : bool :=
  match r with PyExn RecursionError => true | _ => false end.
Definition is_ok (r : result schema) : bool := match r with Ok _ => true | _ => false end.

(* ------------------------------------------------------------------ rules enforced by _validate *)

Definition group_named (s : schema) (n : str) (g : group) : Prop := In g (s_groups s) /\ g_name g = n.
Definition enum_named (s : schema) (n : str) (e : enum) : Prop := In e (s_enums s) /\ en_name e = n.
Definition element_named (s : schema) (n : str) (e : element) : Prop := In e (s_elements s) /\ e_name e = n.

(* member lists of all containers (groups, then elements) *)
Definition containers (s : schema) : list (list member) :=
  map g_members (s_groups s) ++ map e_members (s_elements s).

(* the `use` graph on group names *)
Definition use_edge (s : schema) (a b : str) : Prop :=
  exists g l, group_named s a g /\ In (MUse b l) (g_members g).
Inductive use_path (s : schema) : str -> str -> Prop :=
| up_edge : forall a b, use_edge s a b -> use_path s a b
| up_step : forall a b c, use_edge s a b -> use_path s b c -> use_path s a c.

(* attributes of a member list with `use` groups expanded, in declaration order *)
Inductive expands (s : schema) : list member -> list attr -> Prop :=
| ex_nil : expands s [] []
| ex_attr : forall a r l, expands s r l -> expands s (MAttr a :: r) (a :: l)
| ex_use : forall n ln g r l1 l2, group_named s n g -> expands s (g_members g) l1 -> expands s r l2 ->
                                  expands s (MUse n ln :: r) (l1 ++ l2)
| ex_child : forall n c d ln r l, expands s r l -> expands s (MChild n c d ln :: r) l
| ex_const : forall f v d ln r l, expands s r l -> expands s (MConst f v d ln :: r) l
| ex_con : forall k bs d ln r l, expands s r l -> expands s (MCon k bs d ln :: r) l.

Definition names_in (bundles : list (list str)) (names : list str) : Prop :=
  forall b x, In b bundles -> In x b -> In x names.

Definition direct_attr_names (ms : list member) : list str := map a_name (member_attrs ms).
Definition child_names (ms : list member) : list str :=
  flat_map (fun m => match m with MChild n _ _ _ => [n] | _ => [] end) ms.

Definition group_rules (s : schema) (g : group) : Prop :=
  (* constraints of a group name attributes declared directly in it *)
  (forall k bs d l, In (MCon k bs d l) (g_members g) -> names_in bs (direct_attr_names (g_members g))) /\
  (* a variant group has no `use` and no required attribute *)
  (g_variant g = true ->
   (forall n l, ~ In (MUse n l) (g_members g)) /\
   (forall a, In (MAttr a) (g_members g) -> truthy (fget (a_facets a) f_required) = false)).

Definition element_rules (s : schema) (e : element) : Prop :=
  (* xml and alias facets carry a name; the alias names a declared element *)
  (forall k v, (k = f_xml \/ k = f_alias) -> fget (e_facets e) k = Some v -> exists n, v = FStr n) /\
  (forall n, fget (e_facets e) f_alias = Some (FStr n) -> exists e', element_named s n e') /\
  (* children: declared, each at most once *)
  (forall n c d l, In (MChild n c d l) (e_members e) -> exists e', element_named s n e') /\
  NoDup (child_names (e_members e)) /\
  (* attributes after group expansion: no duplicates; constraints name them; requires a b *)
  (exists attrs, expands s (e_members e) attrs /\ NoDup (map a_name attrs) /\
     forall k bs d l, In (MCon k bs d l) (e_members e) ->
       names_in bs (map a_name attrs) /\ (k = CRequires -> exists a b, bs = [[a]; [b]])).

Definition scalar_arity (a : arity) : Prop := a = Arity 1 (HiInt 1).

(* defaults agree with type and arity *)
Definition default_rules (s : schema) (a : attr) : Prop :=
  match a_default a with
  | DNone => True
  | d =>
    match a_type a with
    | TEnum => exists kw t e, d = DStr kw /\ a_target a = Some t /\ enum_named s t e /\ In kw (map fst (en_items e))
    | TRef | TId | TChars => False
    | TBool => d = DStr k_true \/ d = DStr k_false
    | TString | TFile => exists x, d = DStr x
    | TDouble | TFloat | TInt | TFlags =>
      (exists f, d = DNum f /\ (alo (a_arity a) <= 1)%Z /\ forall h, ahi (a_arity a) = HiInt h -> (1 <= h)%Z) \/
      (exists l, d = DTuple l /\ ~ scalar_arity (a_arity a) /\ (alo (a_arity a) <= Z.of_nat (List.length l))%Z /\
                 forall h, ahi (a_arity a) = HiInt h -> (Z.of_nat (List.length l) <= h)%Z)
    end
  end.

Definition attr_rules (s : schema) (a : attr) : Prop :=
  (* no dangling enum / namespace references *)
  ((a_type a = TEnum \/ a_type a = TFlags) -> exists t e, a_target a = Some t /\ enum_named s t e) /\
  (a_type a = TRef -> exists ms b, In ms (containers s) /\ In (MAttr b) ms /\ a_type b = TId /\ a_target b = a_target a) /\
  (* arity restrictions *)
  ((a_type a = TFile \/ a_type a = TBool) -> scalar_arity (a_arity a)) /\
  (a_type a = TChars -> exists h, ahi (a_arity a) = HiInt h) /\
  (* facet payloads *)
  (fhas (a_facets a) f_pattern = true -> a_type a = TString \/ a_type a = TChars) /\
  (forall k v, (k = f_min \/ k = f_max) -> fget (a_facets a) k = Some v ->
               is_numeric (a_type a) = true /\ exists x, fnum_of v = Some x) /\
  (forall vmin vmax x y, fget (a_facets a) f_min = Some vmin -> fget (a_facets a) f_max = Some vmax ->
                         fnum_of vmin = Some x -> fnum_of vmax = Some y -> sf_gtb x y = false) /\
  (truthy (fget (a_facets a) f_positive) = true -> is_numeric (a_type a) = true) /\
  (truthy (fget (a_facets a) f_required) = true -> a_default a = DNone) /\
  default_rules s a.

(* the child graph: an element lists another element, which has a row of its own (no alias facet);
   self recursion is not an edge *)
Definition child_edge (s : schema) (a b : str) : Prop :=
  exists e t c d l, element_named s a e /\ In (MChild b c d l) (e_members e) /\ b <> a /\
                    element_named s b t /\ fhas (e_facets t) f_alias = false.
Inductive child_path (s : schema) : str -> str -> Prop :=
| cp_edge : forall a b, child_edge s a b -> child_path s a b
| cp_step : forall a b c, child_edge s a b -> child_path s b c -> child_path s a c.

(* the documented rules checked by _validate *)
Definition schema_rules (s : schema) : Prop :=
  (* no dangling use, no use cycle *)
  (forall ms n l, In ms (containers s) -> In (MUse n l) ms -> exists g, group_named s n g) /\
  (forall n, ~ use_path s n n) /\
  Forall (group_rules s) (s_groups s) /\
  Forall (element_rules s) (s_elements s) /\
  (forall ms a, In ms (containers s) -> In (MAttr a) ms -> attr_rules s a) /\
  (* no child cycle through distinct elements that have a row of their own *)
  (forall n, ~ child_path s n n).

(* everything an accepted schema satisfies *)
Definition WellFormed (s : schema) : Prop := schema_syn s /\ schema_rules s.

(* first loop of _validate: the cycle check of every group, in declaration order *)
Definition cycle_step (rl : nat) (groups : list group) : vres :=
  vfor (fun g => check_cycle_rec groups rl (g_name g) [] (g_line g)) groups.
