(* Model of the geom buffer discipline of src/engine/engine_vis_visualize.c (C50):
   acquireGeom / releaseGeom as a counter machine over (ngeom, maxgeom, status), and the model-geom
   pass addGeomGeoms as a filter over (category, group).  Definitions only, executable. *)
From Coq Require Import ZArith List Bool.
Import ListNotations.
Open Scope Z_scope.

Section Machine.
  Context {A : Type}.

  (* committed: released geoms, newest first, each with the slot index it was written to (segid);
     touched: every slot index written by an accepted acquireGeom (memset + init), newest first *)
  Record scene := mkScene {
    committed : list (Z * A); ngeom : Z; maxgeom : Z; status : Z; touched : list Z }.

  Definition bump (st : Z) : Z := if st =? 0 then 1 else st.

  (* one attempt = acquireGeom(payload) followed by releaseGeom when `commit` (addGeomGeoms leaves
     an acquired geom unreleased with `continue` when its alpha is 0).
     acquireGeom l.171: if (scn->ngeom >= scn->maxgeom) { if (!status) status = 1; return NULL; } *)
  Definition step (s : scene) (a : A * bool) : scene :=
    if maxgeom s <=? ngeom s then
      mkScene (committed s) (ngeom s) (maxgeom s) (bump (status s)) (touched s)
    else if snd a then
      mkScene ((ngeom s, fst a) :: committed s) (ngeom s + 1) (maxgeom s) (status s) (ngeom s :: touched s)
    else
      mkScene (committed s) (ngeom s) (maxgeom s) (status s) (ngeom s :: touched s).

  (* every attempt is made, whatever the outcome of the previous ones *)
  Definition run_attempts (l : list (A * bool)) (s : scene) : scene := fold_left step l s.

  (* a pass of mjv_addGeoms returns at the first refused acquire *)
  Fixpoint run_pass (l : list (A * bool)) (s : scene) : scene :=
    match l with
    | [] => s
    | a :: r => if maxgeom s <=? ngeom s then step s a else run_pass r (step s a)
    end.

  Definition geoms (s : scene) : list (Z * A) := rev (committed s).

  (* the attempts that come after the k-th committing attempt *)
  Fixpoint after_full (k : nat) (l : list (A * bool)) : list (A * bool) :=
    match k with
    | O => l
    | S k' => match l with
              | [] => []
              | a :: r => if snd a then after_full k' r else after_full k r
              end
    end.

  (* mjv_updateScene: scn->ngeom = 0 (status and maxgeom are kept) *)
  Definition fresh (maxg st : Z) : scene := mkScene [] 0 maxg st [].
End Machine.

(* ---------------------------------------------------------------- addGeomGeoms *)
Definition mjCAT_STATIC : Z := 1.
Definition mjNGROUP : Z := 6.
(* model geom: (category of its body, geom_group, alpha != 0) *)
Definition mgeom : Type := (Z * Z * bool)%type.
Definition clamp_group (g : Z) : Z := Z.max 0 (Z.min (mjNGROUP - 1) g).
(* mjv_addGeoms: catmask &= ~mjCAT_STATIC unless vopt->flags[mjVIS_STATIC] *)
Definition eff_catmask (vis_static : bool) (catmask : Z) : Z :=
  if vis_static then catmask else Z.land catmask (Z.lnot mjCAT_STATIC).
Definition visible (geomgroup : list bool) (catmask : Z) (g : mgeom) : bool :=
  match g with (cat, grp, _) =>
    negb (Z.land cat catmask =? 0) && nth (Z.to_nat (clamp_group grp)) geomgroup false
  end.
Definition zseq (n : Z) : list Z := map Z.of_nat (seq 0 (Z.to_nat n)).
Definition indexed (gs : list mgeom) : list (Z * mgeom) := combine (map Z.of_nat (seq 0 (length gs))) gs.
(* payload = (objid, category) *)
Definition geom_attempts (geomgroup : list bool) (catmask : Z) (gs : list mgeom) : list ((Z * Z) * bool) :=
  map (fun ig => match ig with (i, (cat, grp, alpha)) => ((i, cat), alpha) end)
      (filter (fun ig => visible geomgroup catmask (snd ig)) (indexed gs)).
Definition geom_pass (maxg st : Z) (vis_static : bool) (catmask : Z) (geomgroup : list bool) (gs : list mgeom) :=
  run_pass (geom_attempts geomgroup (eff_catmask vis_static catmask) gs) (fresh maxg st).
(* the visible model geoms in id order: (objid, category) *)
Definition visible_ids (geomgroup : list bool) (catmask : Z) (gs : list mgeom) : list (Z * Z) :=
  map (fun ig => (fst ig, fst (fst (snd ig)))) (filter (fun ig => visible geomgroup catmask (snd ig)) (indexed gs)).

(* the model geoms that end up in the scene when there is room: visible and alpha != 0 *)
Definition shown (geomgroup : list bool) (catmask : Z) (g : mgeom) : bool :=
  visible geomgroup catmask g && snd g.
Definition shown_ids (geomgroup : list bool) (catmask : Z) (gs : list mgeom) : list (Z * Z) :=
  map (fun ig => (fst ig, fst (fst (snd ig)))) (filter (fun ig => shown geomgroup catmask (snd ig)) (indexed gs)).

(* ---------------------------------------------------------------- executable comparison (tie) *)
Fixpoint zl_eqb (a b : list Z) : bool :=
  match a, b with
  | [], [] => true
  | x :: r, y :: s => (x =? y) && zl_eqb r s
  | _, _ => false
  end.
(* case = ((maxgeom, status0, vis_static, catmask), geomgroup, geoms (cat, grp, alpha),
           (ngeom, status), objids, categories, segids) *)
Definition scene_check (c : (Z * Z * Z * Z) * list Z * list (Z * Z * Z) * (Z * Z) * list Z * list Z * list Z) : bool :=
  match c with
  | ((maxg, st0, vs, cm), gg, gs, (ng, st), ids, cats, segs) =>
    let s := geom_pass maxg st0 (negb (vs =? 0)) cm (map (fun x => negb (x =? 0)) gg)
                       (map (fun g => match g with (c0, g0, a0) => (c0, g0, negb (a0 =? 0)) end) gs) in
    (ngeom s =? ng) && (status s =? st) &&
    zl_eqb (map (fun e => fst (snd e)) (geoms s)) ids &&
    zl_eqb (map (fun e => snd (snd e)) (geoms s)) cats &&
    zl_eqb (map fst (geoms s)) segs
  end.
