(* C43 — the MJX formulation of kernels whose C formulation is modelled elsewhere (definitions only, over Lib/Num).

   mjx/mujoco/mjx/_src/solver.py, _update_constraint: the row law is written with 0/1 masks multiplied into the
   expressions instead of branches, uses r = 1/(efc_D + (efc_D == 0) mjMINVAL) where the C code reads efc_R, tests the
   elliptic zones with its own inequalities and divides by max(mu^2 (1 + mu^2), mjMINVAL) and by T + (not middle) mjMINVAL.
   mjx/mujoco/mjx/_src/collision_primitive.py, _plane_sphere: distance and contact point of a sphere against a plane.
   The C counterparts are Model/ConstraintUpdate.v (row_fric, block_ell) and Model/CollidePrim.v (rawPlaneSphere). *)
From Coq Require Import ZArith List Bool.
From MJV Require Import Lib.Num Model.Spatial Model.ConstraintUpdate.
Import ListNotations.

Section MK.
Context {T : Type} `{Num T}.
Local Open Scope num_scope.

(* a jax boolean mask used as a factor *)
Definition b2n (b : bool) : T := if b then none else nzero.

Definition xMINVAL : T := ndec 1 (-15).       (* mujoco.mjMINVAL *)
Definition xhalf : T := ndec 5 (-1).

(* ---- friction-loss row (ne <= i < ne + nf): returns (cost contribution, efc_force)
     f = efc_frictionloss; r = 1.0 / (efc_D + (efc_D == 0.0) * mjMINVAL)
     linear_neg = (Jaref <= -r * f) * (f > 0);  linear_pos = (Jaref >= r * f) * (f > 0)
     active = active & ~linear_neg & ~linear_pos
     efc_force = efc_D * -Jaref * active + (linear_neg * f + linear_pos * -f)
     cost = 0.5 * (efc_D * Jaref * Jaref * active) + linear_neg * (-0.5 r f f - f Jaref) + linear_pos * (-0.5 r f f + f Jaref) *)
Definition mjx_fric_row (D f x : T) : T * T :=
  let r := none / (D + b2n (D =? nzero) * xMINVAL) in
  let lneg := (x <=? (- r) * f) && (nzero <? f) in
  let lpos := (r * f <=? x) && (nzero <? f) in
  let active := negb lneg && negb lpos in
  (xhalf * (D * x * x * b2n active)
     + (b2n lneg * ((- xhalf) * r * f * f - f * x) + b2n lpos * ((- xhalf) * r * f * f + f * x)),
   D * (- x) * b2n active + (b2n lneg * f + b2n lpos * (- f))).

(* ---- zones of an elliptic contact: 0 top (no force), 1 bottom (quadratic), 2 middle (cone)
     bottom_zone = ((t <= 0) & (n < 0)) | ((t > 0) & ((mu * n + t) <= 0))
     middle_zone = (t > 0) & (n < (mu * t)) & ((mu * n + t) > 0) *)
Definition mjx_bottom (mu n t : T) : bool := ((t <=? nzero) && (n <? nzero)) || ((nzero <? t) && (mu * n + t <=? nzero)).
Definition mjx_middle (mu n t : T) : bool := (nzero <? t) && (n <? mu * t) && (nzero <? mu * n + t).
Definition mjx_zone (mu n t : T) : Z := if mjx_bottom mu n t then 1%Z else if mjx_middle mu n t then 2%Z else 0%Z.

(* the zone mj_constraintUpdate_impl selects (conditions of block_ell, in its order) *)
Definition c_zone (mu N Tn : T) : Z :=
  if (mu * Tn <=? N) || ((Tn <=? nzero) && (nzero <=? N)) then 0%Z
  else if (mu * N + Tn <=? nzero) || ((Tn <=? nzero) && (N <? nzero)) then 1%Z
  else 2%Z.

(* ---- one elliptic contact of dim 3 (rows x0 x1 x2 with D0 D1 D2, friction f1 f2): (cost, forces)
     u = Jaref[adr:adr+6] * fri with fri = (mu, friction..);  n = u[0];  t = norm(u[1:])
     efc_force = efc_D * -Jaref * active (active = bottom_zone on the rows of the contact);  cost = 0.5 sum(efc_D Jaref^2 active)
     dm = efc_D[adr] / max(mu mu (1 + mu mu), mjMINVAL);  nmt = n - mu t;  cost += 0.5 dm nmt nmt middle
     force = -dm nmt mu middle;  force_fri = -force / (t + ~middle mjMINVAL) * u[1:] * friction *)
Definition mjx_block3 (mu f1 f2 D0 D1 D2 x0 x1 x2 : T) : T * list T :=
  let u0 := x0 * mu in let u1 := x1 * f1 in let u2 := x2 * f2 in
  let n := u0 in
  let t := nsqrt (u1 * u1 + u2 * u2) in
  let bot := b2n (mjx_bottom mu n t) in
  let mid := mjx_middle mu n t in
  let dm := D0 / nmax (mu * mu * (none + mu * mu)) xMINVAL in
  let nmt := n - mu * t in
  let force := (- dm) * nmt * mu * b2n mid in
  let ffri := (- force) / (t + b2n (negb mid) * xMINVAL) in
  (xhalf * (D0 * x0 * x0 * bot + D1 * x1 * x1 * bot + D2 * x2 * x2 * bot) + xhalf * (dm * nmt * nmt * b2n mid),
   [D0 * (- x0) * bot + force; D1 * (- x1) * bot + ffri * u1 * f1; D2 * (- x2) * bot + ffri * u2 * f2]).

(* ---- collision_primitive._plane_sphere(plane_normal, plane_pos, sphere_pos, sphere_radius) -> (dist, pos)
     dist = dot(sphere_pos - plane_pos, plane_normal) - sphere_radius;  pos = sphere_pos - plane_normal * (sphere_radius + 0.5 * dist) *)
Definition mjx_plane_sphere (n ppos spos : vec3 T) (r : T) : T * vec3 T :=
  let dist := dot3 (sub3 spos ppos) n - r in
  (dist, sub3 spos (scl3 n (r + xhalf * dist))).

(* ---- stiffness K and damping B of the reference acceleration  aref = -B vel - K imp pos  of a (non-friction) constraint row.
     C: getsolparam (REFSAFE clamp of a standard-form timeconst) + mj_makeImpedance (engine_core_constraint.c); dmax = solimp[1]
        clamped to [mjMINIMP, mjMAXIMP]; standard form when solref[0] > 0 resp. solref[1] > 0, direct form otherwise *)
Definition xMINIMP : T := ndec 1 (-4).
Definition xMAXIMP : T := ndec 9999 (-4).
Definition c_kb (refsafe : bool) (h s0 s1 dmax : T) : T * T :=
  let dm := nmin xMAXIMP (nmax xMINIMP dmax) in
  let tc := if refsafe && (nzero <? s0) then nmax s0 (ntwo * h) else s0 in
  (if nzero <? tc then none / nmax xMINVAL (dm * dm * tc * tc * s1 * s1) else (- tc) / nmax xMINVAL (dm * dm),
   if nzero <? s1 then ntwo / nmax xMINVAL (dm * tc) else (- s1) / nmax xMINVAL dm).

(* MJX constraint._kbi: timeconst = maximum(timeconst, 2 timestep) whatever its sign; k, b by the standard formulas, replaced by the
   direct ones where solref[0] <= 0 resp. solref[1] <= 0; no mjMINVAL guards *)
Definition mjx_kb (refsafe : bool) (h s0 s1 dmax : T) : T * T :=
  let tc := if refsafe then nmax s0 (ntwo * h) else s0 in
  let dm := nmin (nmax dmax xMINIMP) xMAXIMP in
  (if s0 <=? nzero then (- s0) / (dm * dm) else none / (dm * dm * tc * tc * s1 * s1),
   if s1 <=? nzero then (- s1) / dm else ntwo / (dm * tc)).

(* ---- tail of the actuation stage for one dof (C mj_fwdActuation, MJX forward.fwd_actuation): the joint-space actuator force `frc`
     (moment' * actuator_force), then the gravity-compensation force when the joint has actuatorgravcomp, THEN the clamp to actuatorfrcrange *)
Definition clipT (x lo hi : T) : T := if x <? lo then lo else if hi <? x then hi else x.
Definition act_tail (frc gc : T) (actgravcomp limited : bool) (lo hi : T) : T :=
  let t := if actgravcomp then frc + gc else frc in
  if limited then clipT t lo hi else t.
(* the other order (clamp, then add): NOT what either engine does *)
Definition act_tail_swapped (frc gc : T) (actgravcomp limited : bool) (lo hi : T) : T :=
  let t := if limited then clipT frc lo hi else frc in
  if actgravcomp then t + gc else t.

End MK.
