(* Model of the compiler's mass-property computation (src/user):
     user_objects.cc  mjCGeom::GetVolume, mjCGeom::SetInertia, the mass/density arm of mjCGeom::Compile,
                      mjCBody::InertiaFromGeom, mjCBody::AccumulateInertia (fusestatic)
     user_util.cc     mjuu_normvec (n = 4), mjuu_globalinertia, mjuu_offcenter, mjuu_frameaccum,
                      the interface of mjuu_fullInertia / mjuu_eig3 (kept abstract: see Proof/InertiaProof.v)
   mjuu_quat2mat is, line for line, the function modelled by Spatial.quat2Mat (identity arm + the same
   products); it is reused here and tied to the C++ function through the mjuu_globalinertia correspondence.

   Written once over Lib/Num.v; run at binary64 for the tie, proved at R.  Expressions keep the association
   order of the C++ source (the ellipsoid-shell formula subtracts nearly equal numbers).
   Layout: sym6 = (xx, yy, zz, xy, xz, yz) as in the C arrays toti[6] / fullinertia[6].
   Definitions only. *)
From Coq Require Import ZArith List Bool.
From MJV Require Import Lib.Num Model.Spatial.
Import ListNotations.

Definition sym6 (T : Type) : Type := (T * T * T * T * T * T)%type.
Definition s2l {T} (s : sym6 T) : list T := let '(a, b, c, d, e, f) := s in [a; b; c; d; e; f].

(* mjtGeom values of the primitives that have mass properties (hfield shares the box arm; not modelled) *)
Inductive gtype := GSphere | GCapsule | GCylinder | GEllipsoid | GBox.
Definition gtype_ofZ (z : Z) : gtype :=
  if (z =? 2)%Z then GSphere else if (z =? 3)%Z then GCapsule else if (z =? 4)%Z then GEllipsoid
  else if (z =? 5)%Z then GCylinder else GBox.

Record geom (T : Type) := mkGeom {
  g_type : gtype;
  g_shell : bool;               (* typeinertia == mjINERTIA_SHELL *)
  g_group : Z;
  g_mass : option T;            (* None: mass attribute undefined (NaN) *)
  g_density : T;
  g_size : vec3 T;
  g_pos : vec3 T;
  g_quat : quat T }.
Arguments mkGeom {T}. Arguments g_type {T}. Arguments g_shell {T}. Arguments g_group {T}. Arguments g_mass {T}.
Arguments g_density {T}. Arguments g_size {T}. Arguments g_pos {T}. Arguments g_quat {T}.

(* a compiled geom as InertiaFromGeom sees it: (mass_, pos, quat, inertia[3]) *)
Definition cgeom (T : Type) : Type := (T * vec3 T * quat T * vec3 T)%type.

(* result of the inference: the single-geom arm copies the geom frame and diagonal inertia, the
   multi-geom arm produces the full tensor about the centre of mass, which mjuu_fullInertia then
   diagonalises *)
Inductive inertial (T : Type) :=
| IDiag (mass : T) (ipos : vec3 T) (iquat : quat T) (inertia : vec3 T)
| IFull (mass : T) (ipos : vec3 T) (full : sym6 T).
Arguments IDiag {T}. Arguments IFull {T}.

Section Alg.
Context {T : Type} `{Num T}.
Local Open Scope num_scope.

Definition mjEPS : T := ndec 1 (-14).
Definition n3 : T := nofZ 3.  Definition n4 : T := nofZ 4.  Definition n5 : T := nofZ 5.
Definition n6 : T := nofZ 6.  Definition n8 : T := nofZ 8.  Definition n12 : T := nofZ 12.

Definition zero6 : sym6 T := (nzero, nzero, nzero, nzero, nzero, nzero).
Definition add6 (a b : sym6 T) : sym6 T :=
  let '(a0, a1, a2, a3, a4, a5) := a in let '(b0, b1, b2, b3, b4, b5) := b in
  (a0 + b0, a1 + b1, a2 + b2, a3 + b3, a4 + b4, a5 + b5).

(* mjuu_normvec(vec, 4): returns the vector only (unchanged when the squared norm is below mjEPS or the
   norm is within mjEPS of 1) *)
Definition normvec4 (q : quat T) : quat T :=
  let '(q0, q1, q2, q3) := q in
  let nrm2 := q0 * q0 + q1 * q1 + q2 * q2 + q3 * q3 in
  if nrm2 <? mjEPS then q
  else
    let nrm := nsqrt nrm2 in
    if mjEPS <? nabs (nrm - none) then (q0 / nrm, q1 / nrm, q2 / nrm, q3 / nrm) else q.

(* mjuu_mulquat: product followed by mjuu_normvec *)
Definition uu_mulquat (a b : quat T) : quat T := normvec4 (mulQuat a b).

(* mjuu_frameaccum(pos, quat, childpos, childquat): returns the new (pos, quat) *)
Definition frameaccum (p : pose T) (c : pose T) : pose T :=
  let '(pos, q) := p in let '(cpos, cq) := c in
  let '(v0, v1, v2) := mulMatVec3 (quat2Mat q) cpos in
  let '(p0, p1, p2) := pos in
  ((p0 + v0, p1 + v1, p2 + v2), uu_mulquat q cq).

(* mjuu_globalinertia(global, local, quat) *)
Definition globalinertia (l : vec3 T) (q : quat T) : sym6 T :=
  let '(m0, m1, m2, m3, m4, m5, m6, m7, m8) := quat2Mat q in
  let '(l0, l1, l2) := l in
  let t0 := m0 * l0 in let t1 := m3 * l0 in let t2 := m6 * l0 in
  let t3 := m1 * l1 in let t4 := m4 * l1 in let t5 := m7 * l1 in
  let t6 := m2 * l2 in let t7 := m5 * l2 in let t8 := m8 * l2 in
  (m0 * t0 + m1 * t3 + m2 * t6,
   m3 * t1 + m4 * t4 + m5 * t7,
   m6 * t2 + m7 * t5 + m8 * t8,
   m0 * t1 + m1 * t4 + m2 * t7,
   m0 * t2 + m1 * t5 + m2 * t8,
   m3 * t2 + m4 * t5 + m5 * t8).

(* mjuu_offcenter(res, mass, vec) *)
Definition offcenter (mass : T) (v : vec3 T) : sym6 T :=
  let '(v0, v1, v2) := v in
  (mass * (v1 * v1 + v2 * v2),
   mass * (v0 * v0 + v2 * v2),
   mass * (v0 * v0 + v1 * v1),
   - mass * v0 * v1,
   - mass * v0 * v2,
   - mass * v1 * v2).

(* ---- mjCGeom::SetInertia for the arms that do not need pi *)
Definition inertiaSphere (shell : bool) (mass : T) (size : vec3 T) : vec3 T :=
  let '(r, _, _) := size in
  let i := if shell then ntwo * mass * r * r / n3 else ntwo * mass * r * r / n5 in (i, i, i).

Definition inertiaCapsuleSolid (mass : T) (size : vec3 T) : vec3 T :=
  let '(radius, s1, _) := size in
  let height := ntwo * s1 in
  let sphere_mass := mass * n4 * radius / (n4 * radius + n3 * height) in
  let cylinder_mass := mass - sphere_mass in
  let i0 := cylinder_mass * (n3 * radius * radius + height * height) / n12 in
  let i2 := cylinder_mass * radius * radius / ntwo in
  let sphere_inertia := ntwo * sphere_mass * radius * radius / n5 in
  let d := sphere_inertia + sphere_mass * height * (n3 * radius + ntwo * height) / n8 in
  (i0 + d, i0 + d, i2 + sphere_inertia).

Definition inertiaCylinderSolid (mass : T) (size : vec3 T) : vec3 T :=
  let '(radius, halfheight, _) := size in
  let height := ntwo * halfheight in
  let i0 := mass * (n3 * radius * radius + height * height) / n12 in
  (i0, i0, mass * radius * radius / ntwo).

Definition inertiaEllipsoidSolid (mass : T) (size : vec3 T) : vec3 T :=
  let '(a, b, c) := size in
  let s00 := a * a in let s11 := b * b in let s22 := c * c in
  (mass * (s11 + s22) / n5, mass * (s00 + s22) / n5, mass * (s00 + s11) / n5).

Definition inertiaBox (shell : bool) (mass : T) (size : vec3 T) : vec3 T :=
  let '(a, b, c) := size in
  let s00 := a * a in let s11 := b * b in let s22 := c * c in
  if shell then
    let lx := ntwo * a in let ly := ntwo * b in let lz := ntwo * c in
    let A0 := lx * ly in let A1 := ly * lz in let A2 := lz * lx in
    let Atotal := ntwo * (A0 + A1 + A2) in
    let mass0 := mass * A0 / Atotal in
    let Ix0 := mass0 * ly * ly / n12 in
    let Iy0 := mass0 * lx * lx / n12 in
    let Iz0 := mass0 * (lx * lx + ly * ly) / n12 in
    let mass1 := mass * A1 / Atotal in
    let Ix1 := mass1 * (ly * ly + lz * lz) / n12 in
    let Iy1 := mass1 * lz * lz / n12 in
    let Iz1 := mass1 * ly * ly / n12 in
    let mass2 := mass * A2 / Atotal in
    let Ix2 := mass2 * lz * lz / n12 in
    let Iy2 := mass2 * (lx * lx + lz * lz) / n12 in
    let Iz2 := mass2 * lx * lx / n12 in
    (ntwo * (mass0 * s22 + mass2 * s11 + Ix0 + Ix1 + Ix2),
     ntwo * (mass0 * s22 + mass1 * s00 + Iy0 + Iy1 + Iy2),
     ntwo * (mass1 * s00 + mass2 * s11 + Iz0 + Iz1 + Iz2))
  else
    (mass * (s11 + s22) / n3, mass * (s00 + s22) / n3, mass * (s00 + s11) / n3).

(* the arms that need the constant mjPI take it as an argument here; instantiated with npi below *)
Definition inertiaCapsuleShell (pi mass : T) (size : vec3 T) : vec3 T :=
  let '(radius, halfheight, _) := size in
  let height := ntwo * halfheight in
  let Asphere := n4 * pi * radius * radius in
  let Acylinder := ntwo * pi * radius * height in
  let Atotal := Asphere + Acylinder in
  let sphere_mass := mass * Asphere / Atotal in
  let cylinder_mass := mass - sphere_mass in
  let i0 := cylinder_mass * (n6 * radius * radius + height * height) / n12 in
  let i2 := cylinder_mass * radius * radius in
  let sphere_inertia := ntwo * sphere_mass * radius * radius / n3 in
  let hs_com := radius / ntwo in
  let hs_pos := halfheight + hs_com in
  let d := sphere_inertia + sphere_mass * (hs_pos * hs_pos - hs_com * hs_com) in
  (i0 + d, i0 + d, i2 + sphere_inertia).

Definition inertiaCylinderShell (pi mass : T) (size : vec3 T) : vec3 T :=
  let '(radius, halfheight, _) := size in
  let height := ntwo * halfheight in
  let Adisk := pi * radius * radius in
  let Acylinder := ntwo * pi * radius * height in
  let Atotal := ntwo * Adisk + Acylinder in
  let mass_disk := mass * Adisk / Atotal in
  let mass_cylinder := mass - ntwo * mass_disk in
  let i0 := mass_cylinder * (n6 * radius * radius + height * height) / n12 in
  let i2 := mass_cylinder * radius * radius in
  let inertia_disk_x := mass_disk * radius * radius / n4 + mass_disk * halfheight * halfheight in
  let inertia_disk_z := mass_disk * radius * radius / ntwo in
  (i0 + ntwo * inertia_disk_x, i0 + ntwo * inertia_disk_x, i2 + ntwo * inertia_disk_z).

(* "approximate shell inertia by subtracting ellipsoid from expanded ellipsoid", eps = 1e-6 *)
Definition inertiaEllipsoidShell (pi mass : T) (size : vec3 T) : vec3 T :=
  let '(a, b, c) := size in
  let s00 := a * a in let s11 := b * b in let s22 := c * c in
  let eps := ndec 1 (-6) in
  let Va := n4 * pi * a * b * c / n3 in
  let ae := a + eps in let be := b + eps in let ce := c + eps in
  let Vb := n4 * pi * ae * be * ce / n3 in
  let density := mass / (Vb - Va) in
  let mass_a := Va * density in
  let ia0 := mass_a * (s11 + s22) / n5 in
  let ia1 := mass_a * (s00 + s22) / n5 in
  let ia2 := mass_a * (s00 + s11) / n5 in
  let mass_b := Vb * density in
  let ib0 := mass_b * (be * be + ce * ce) / n5 in
  let ib1 := mass_b * (ae * ae + ce * ce) / n5 in
  let ib2 := mass_b * (ae * ae + be * be) / n5 in
  (ib0 - ia0, ib1 - ia1, ib2 - ia2).

Definition geomInertiaPi (pi : T) (ty : gtype) (shell : bool) (mass : T) (size : vec3 T) : vec3 T :=
  match ty with
  | GSphere => inertiaSphere shell mass size
  | GCapsule => if shell then inertiaCapsuleShell pi mass size else inertiaCapsuleSolid mass size
  | GCylinder => if shell then inertiaCylinderShell pi mass size else inertiaCylinderSolid mass size
  | GEllipsoid => if shell then inertiaEllipsoidShell pi mass size else inertiaEllipsoidSolid mass size
  | GBox => inertiaBox shell mass size
  end.

(* ---- mjCGeom::GetVolume (volume, or surface area for shells); pow(x, p) is passed in *)
Definition geomVolumePi (pi : T) (pow : T -> T -> T) (ty : gtype) (shell : bool) (size : vec3 T) : T :=
  let '(s0, s1, s2) := size in
  match ty with
  | GSphere => if shell then n4 * pi * s0 * s0 else n4 * pi * s0 * s0 * s0 / n3
  | GCapsule =>
      let height := ntwo * s1 in
      if shell then n4 * pi * s0 * s0 + ntwo * pi * s0 * height
      else pi * (s0 * s0 * height + n4 * s0 * s0 * s0 / n3)
  | GCylinder =>
      let height := ntwo * s1 in
      if shell then ntwo * pi * s0 * s0 + ntwo * pi * s0 * height
      else pi * s0 * s0 * height
  | GEllipsoid =>
      if shell then
        let p := ndec 16075 (-4) in
        let tmp := pow (s0 * s1) p + pow (s1 * s2) p + pow (s2 * s0) p in
        n4 * pi * pow (tmp / n3) (none / p)
      else n4 * pi * s0 * s1 * s2 / n3
  | GBox => if shell then n8 * (s0 * s1 + s1 * s2 + s2 * s0) else s0 * s1 * s2 * n8
  end.

(* ---- mjCBody::InertiaFromGeom on the list of compiled geoms that passed the group test.
   None models the mjCError "body mass is too small". *)
Definition cg_mass (g : cgeom T) : T := let '(m, _, _, _) := g in m.
Definition cg_pos (g : cgeom T) : vec3 T := let '(_, p, _, _) := g in p.

Definition accMass (l : list (cgeom T)) : T := fold_left (fun s g => s + cg_mass g) l nzero.
Definition accCom (l : list (cgeom T)) : vec3 T :=
  fold_left (fun c g => let '(c0, c1, c2) := c in let '(p0, p1, p2) := cg_pos g in
                        (c0 + cg_mass g * p0, c1 + cg_mass g * p1, c2 + cg_mass g * p2)) l zero3.
(* inert0 + inert1 of one geom about the point ipos *)
Definition geomTensorAbout (ipos : vec3 T) (g : cgeom T) : sym6 T * sym6 T :=
  let '(m, p, q, i) := g in (globalinertia i q, offcenter m (sub3 p ipos)).
Definition accInertia (ipos : vec3 T) (l : list (cgeom T)) : sym6 T :=
  fold_left (fun t g => let '(a, b) := geomTensorAbout ipos g in add6 (add6 t a) b) l zero6.

Definition inertiaFromSel (sel : list (cgeom T)) : option (option (inertial T)) :=
  match sel with
  | [] => Some None                               (* nothing inferred *)
  | [(m, p, q, i)] => Some (Some (IDiag m p q i))
  | _ =>
      let mass := accMass sel in
      if mass <? mjEPS then None
      else
        let '(c0, c1, c2) := accCom sel in
        let ipos := (c0 / mass, c1 / mass, c2 / mass) in
        Some (Some (IFull mass ipos (accInertia ipos sel)))
  end.

(* ---- mjCBody::AccumulateInertia(other, result) (fusestatic, mjs_bodyToFrame): res = (mass, ipos, iquat, inertia) of the
   receiving body, opose = frame (pos, quat) of the fused child in the receiving body, other = the child's own
   (mass, ipos, iquat, inertia).  The child's inertial frame is first accumulated into the parent frame
   (mjuu_frameaccum: position rotated and shifted, quaternion = body quat * iquat), then the two-entry parallel-axis sum runs
   (toti += inertA + inertB).  A total mass below mjMINVAL gives the zero inertial. *)
Definition accInertia2 (ipos : vec3 T) (l : list (cgeom T)) : sym6 T :=
  fold_left (fun t g => let '(a, b) := geomTensorAbout ipos g in add6 t (add6 a b)) l zero6.
Definition accumulateInertia (res : cgeom T) (opose : pose T) (other : cgeom T) : inertial T :=
  let '(m2, ip2, iq2, in2) := other in
  let '(op, oq) := frameaccum opose (ip2, iq2) in
  let l := [res; (m2, op, oq, in2)] in
  let mass := accMass l in
  if mass <? mjMINVAL then IDiag nzero zero3 quatId zero3
  else
    let '(c0, c1, c2) := accCom l in
    let ipos := (c0 / mass, c1 / mass, c2 / mass) in
    IFull mass ipos (accInertia2 ipos l).

(* the full tensor (about ipos, in body axes) that an inertial stands for *)
Definition inertialFull (i : inertial T) : sym6 T :=
  match i with IDiag _ _ q d => globalinertia d q | IFull _ _ f => f end.
Definition inertialMass (i : inertial T) : T := match i with IDiag m _ _ _ => m | IFull m _ _ => m end.
Definition inertialPos (i : inertial T) : vec3 T := match i with IDiag _ p _ _ => p | IFull _ p _ => p end.

End Alg.

Section Trans.
Context {T : Type} `{NumT T}.
Local Open Scope num_scope.

(* std::pow for positive base *)
Definition npow (x p : T) : T := nexp (p * nlog x).

Definition geomVolume (ty : gtype) (shell : bool) (size : vec3 T) : T := geomVolumePi npi npow ty shell size.
Definition geomInertia (ty : gtype) (shell : bool) (mass : T) (size : vec3 T) : vec3 T :=
  geomInertiaPi npi ty shell mass size.

(* the "compute geom mass and inertia" block of mjCGeom::Compile (inferinertia true), after the
   quaternion was normalised.  None models the mjCError "mass, inertia or density are negative". *)
Definition geomCompile (g : geom T) : option (cgeom T) :=
  let vol := geomVolume (g_type g) (g_shell g) (g_size g) in
  let '(mass_, inertia, density) :=
    match g_mass g with
    | Some m =>
        if m =? nzero then (nzero, zero3, nzero)
        else if mjEPS <? vol then (m, geomInertia (g_type g) (g_shell g) m (g_size g), m / vol)
        else (nzero, zero3, g_density g)
    | None =>
        if g_density g =? nzero then (nzero, zero3, g_density g)
        else let m := g_density g * vol in (m, geomInertia (g_type g) (g_shell g) m (g_size g), g_density g)
    end in
  let '(i0, i1, i2) := inertia in
  if (mass_ <? nzero) || (i0 <? nzero) || (i1 <? nzero) || (i2 <? nzero) || (density <? nzero) then None
  else Some (mass_, g_pos g, normvec4 (g_quat g), inertia).

Definition inGroup (glo ghi : Z) (g : geom T) : bool := (glo <=? g_group g)%Z && (g_group g <=? ghi)%Z.

Fixpoint compileGeoms (l : list (geom T)) : option (list (cgeom T)) :=
  match l with
  | [] => Some []
  | g :: r => match geomCompile g, compileGeoms r with
              | Some c, Some cr => Some (c :: cr)
              | _, _ => None
              end
  end.

(* body mass properties inferred from its geoms (inertiafromgeom, no explicit inertial):
   None = compile error, Some None = no geom selected *)
Definition bodyInertial (glo ghi : Z) (geoms : list (geom T)) : option (option (inertial T)) :=
  match compileGeoms (filter (inGroup glo ghi) geoms) with
  | None => None
  | Some cs => inertiaFromSel (filter (fun c => mjEPS <? cg_mass c) cs)
  end.

End Trans.
