(* Model of the compiler's "equivalent spellings" machinery (src/user):
     user_objects.cc  ResolveOrientation (= mjs_resolveOrientation): quaternion from axisangle / xyaxes / zaxis / euler,
                      degrees or radians; mjCFrame::Compile and the `frame` arm of the element Compile functions
                      (pose of an element wrapped in nested frames)
     user_util.cc     mjuu_normvec (n = 3), mjuu_z2quat, mjuu_frame2quat, mjuu_frameaccum (in Model/Inertia.v)
     default classes  (user_model.cc AddDefault / element constructors): a class is created as a copy of its parent and then
                      overwritten attribute by attribute; an element is created as a copy of its class and then overwritten.
   The user-side conversions are separate C++ code (the mjuu_ functions), modelled as written; the quaternion product and quat2Mat
   are textually the engine ones (Spatial.mulQuat / quat2Mat) followed by mjuu_normvec.
   Numeric part written over Lib/Num.v (run at binary64 for the tie, proved at R).  Definitions only. *)
From Coq Require Import ZArith List Bool String Ascii.
From MJV Require Import Lib.Num Model.Spatial Model.Inertia.
Import ListNotations.

Section Alg.
Context {T : Type} `{Num T}.
Local Open Scope num_scope.

(* mjuu_normvec(vec, 3): (vector after the call, returned length); returns 0 and leaves the vector alone when the
   SQUARED norm is below mjEPS; does not divide when the norm is within mjEPS of 1 *)
Definition normvec3 (v : vec3 T) : vec3 T * T :=
  let '(v0, v1, v2) := v in
  let nrm2 := v0 * v0 + v1 * v1 + v2 * v2 in
  if nrm2 <? mjEPS then (v, nzero)
  else
    let nrm := nsqrt nrm2 in
    if mjEPS <? nabs (nrm - none) then ((v0 / nrm, v1 / nrm, v2 / nrm), nrm) else (v, nrm).

(* mjuu_frame2quat(quat, x, y, z): axes are the matrix columns; four arms as in mju_mat2Quat, then mjuu_normvec *)
Definition frame2quat (x y z : vec3 T) : quat T :=
  let '(x0, x1, x2) := x in let '(y0, y1, y2) := y in let '(z0, z1, z2) := z in
  let q :=
    if nzero <? x0 + y1 + z2 then
      let q0 := nhalf * nsqrt (none + x0 + y1 + z2) in
      (q0, nquarter * (y2 - z1) / q0, nquarter * (z0 - x2) / q0, nquarter * (x1 - y0) / q0)
    else if (y1 <? x0) && (z2 <? x0) then
      let q1 := nhalf * nsqrt (none + x0 - y1 - z2) in
      (nquarter * (y2 - z1) / q1, q1, nquarter * (y0 + x1) / q1, nquarter * (z0 + x2) / q1)
    else if z2 <? y1 then
      let q2 := nhalf * nsqrt (none - x0 + y1 - z2) in
      (nquarter * (z0 - x2) / q2, nquarter * (y0 + x1) / q2, q2, nquarter * (z1 + y2) / q2)
    else
      let q3 := nhalf * nsqrt (none - x0 - y1 + z2) in
      (nquarter * (x1 - y0) / q3, nquarter * (z0 + x2) / q3, nquarter * (z1 + y2) / q3, q3) in
  normvec4 q.

(* the xyaxes arm of ResolveOrientation; None = one of the "too small" errors *)
Definition resolveXYAxes (x y : vec3 T) : option (quat T) :=
  let '(xn, lx) := normvec3 x in
  if lx <? mjEPS then None
  else
    let d := dot3 xn y in
    let '(x0, x1, x2) := xn in let '(y0, y1, y2) := y in
    let '(yn, ly) := normvec3 (y0 - x0 * d, y1 - x1 * d, y2 - x2 * d) in
    if ly <? mjEPS then None
    else
      let '(zn, lz) := normvec3 (cross xn yn) in
      if lz <? mjEPS then None else Some (frame2quat xn yn zn).

(* ---- pose of an element wrapped in nested frames.  frames are listed outermost first.
   mjCFrame::Compile: compiled(frame) = normalise(frameaccumChild(compiled(parent frame), own pose));
   element Compile:   pose := frameaccumChild(compiled(innermost frame), own pose) *)
Definition frameCompile (parent : option (pose T)) (own : pose T) : pose T :=
  let '(p, q) := match parent with None => own | Some f => frameaccum f own end in (p, normvec4 q).
Fixpoint framesCompile (parent : option (pose T)) (frames : list (pose T)) : option (pose T) :=
  match frames with
  | [] => parent
  | f :: r => framesCompile (Some (frameCompile parent f)) r
  end.
Definition elementInFrames (frames : list (pose T)) (own : pose T) : pose T :=
  match framesCompile None frames with None => own | Some f => frameaccum f own end.
(* the same element written out directly: f1 o (f2 o (... o own)) *)
Definition elementWrittenOut (frames : list (pose T)) (own : pose T) : pose T :=
  fold_right (fun f acc => frameaccum f acc) own frames.

End Alg.

Section Trans.
Context {T : Type} `{NumT T}.
Local Open Scope num_scope.

Definition n180 : T := nofZ 180.
Definition toRad (degree : bool) (a : T) : T := if degree then a / n180 * npi else a.

(* the axisangle arm; None = "axisangle too small" *)
Definition resolveAxisAngle (degree : bool) (ax : vec3 T) (angle : T) : option (quat T) :=
  let ang := toRad degree angle in
  let '(a, l) := normvec3 ax in
  if l <? mjEPS then None
  else
    let '(a0, a1, a2) := a in
    let ang2 := ang / ntwo in
    Some (ncos ang2, nsin ang2 * a0, nsin ang2 * a1, nsin ang2 * a2).

(* mjuu_z2quat(quat, vec) on the normalised vector *)
Definition z2quat (v : vec3 T) : quat T :=
  let '(v0, v1, v2) := v in
  let '(c, s) := normvec3 (cross (nzero, nzero, none) v) in
  let '(c0, c1, c2) := if s <? ndec 1 (-10) then (none, nzero, nzero) else c in
  let ang := natan2 s v2 in
  (ncos (ang / ntwo), c0 * nsin (ang / ntwo), c1 * nsin (ang / ntwo), c2 * nsin (ang / ntwo)).
Definition resolveZAxis (z : vec3 T) : option (quat T) :=
  let '(zn, l) := normvec3 z in if l <? mjEPS then None else Some (z2quat zn).

(* the euler arm: three characters of the sequence are read (a shorter string runs into the terminating NUL, which is
   an invalid character); None = invalid character *)
Definition uuEulerStep (q : quat T) (c : ascii) (e : T) : option (quat T) :=
  let ca := ncos (e / ntwo) in
  let sa := nsin (e / ntwo) in
  let rot :=
    if (Ascii.eqb c "x") || (Ascii.eqb c "X") then Some (ca, sa, nzero, nzero)
    else if (Ascii.eqb c "y") || (Ascii.eqb c "Y") then Some (ca, nzero, sa, nzero)
    else if (Ascii.eqb c "z") || (Ascii.eqb c "Z") then Some (ca, nzero, nzero, sa)
    else None in
  match rot with
  | None => None
  | Some r => Some (if isLower c then uu_mulquat q r else uu_mulquat r q)
  end.
Fixpoint uuEulerLoop (q : quat T) (seq : list ascii) (es : list T) : option (quat T) :=
  match seq, es with
  | c :: seq', e :: es' => match uuEulerStep q c e with None => None | Some q' => uuEulerLoop q' seq' es' end
  | _, _ => Some q
  end.
Definition resolveEuler (degree : bool) (seq : list ascii) (euler : vec3 T) : option (quat T) :=
  let '(e0, e1, e2) := euler in
  match seq with
  | c0 :: c1 :: c2 :: _ =>
      match uuEulerLoop quatId [c0; c1; c2] [toRad degree e0; toRad degree e1; toRad degree e2] with
      | None => None
      | Some q => Some (normvec4 q)
      end
  | _ => None
  end.

(* ---- mjCJoint::Compile: angle-valued joint attributes under compiler.degree.
   joint types as mjtJoint: 0 free, 1 ball, 2 slide, 3 hinge.  range is converted for limited hinge and ball joints
   (each end only if non-zero, multiplied by mjPI/180.0), ref and springref for hinge joints; slide joints (lengths) and
   free joints are never converted *)
Definition degFactor : T := npi / n180.
Definition convNonzero (x : T) : T := if x =? nzero then x else x * degFactor.
Definition jointRange (degree : bool) (jtype : Z) (limited : bool) (r : T * T) : T * T :=
  if limited && degree && ((jtype =? 3)%Z || (jtype =? 1)%Z) then (convNonzero (fst r), convNonzero (snd r)) else r.
Definition jointRef (degree : bool) (jtype : Z) (x : T) : T :=
  if degree && (jtype =? 3)%Z then x * degFactor else x.

End Trans.

(* ------------------------------------------------------------------------------------------ *)
(* default classes (discrete).  An attribute table maps attribute ids to values; `None` = not mentioned.
   A class is (own settings, parent); creating it copies the resolved parent and overwrites with its own settings;
   an element copies its class and overwrites with its own settings. *)
Section Defaults.
Context {V : Type}.
Definition attrs : Type := Z -> option V.
Definition override (base : Z -> V) (own : attrs) : Z -> V :=
  fun a => match own a with Some v => v | None => base a end.
(* chain of nested classes from the outermost (child of the built-in defaults) to the innermost *)
Fixpoint resolveClass (builtin : Z -> V) (chain : list attrs) : Z -> V :=
  match chain with
  | [] => builtin
  | c :: r => resolveClass (override builtin c) r
  end.
Definition resolveElement (builtin : Z -> V) (chain : list attrs) (own : attrs) : Z -> V :=
  override (resolveClass builtin chain) own.
(* specification: the innermost setting wins *)
Fixpoint innermost (chain : list attrs) (a : Z) : option V :=
  match chain with
  | [] => None
  | c :: r => match innermost r a with Some v => Some v | None => c a end
  end.
End Defaults.

(* ------------------------------------------------------------------------------------------ *)
(* nested attachment (discrete): mjCModel::FindSpec (the overload taking a compiler pointer) in user_model.cc.  A model owns one compiler (identified here
   by a number) and the list of specs attached to it, recursively; the element of an attached subtree keeps a pointer to the compiler
   of the spec it was written in, and FindSpec searches the attachment tree for the spec that OWNS that compiler: its own compiler
   first (compiler2spec_), then, recursively, the attached specs, returning what the recursive call found. *)
Inductive spectree := SNode (compiler : Z) (attached : list spectree).
Fixpoint findSpec (t : spectree) (c : Z) : option Z :=
  match t with
  | SNode id ch =>
      if (id =? c)%Z then Some id
      else (fix go (l : list spectree) : option Z :=
              match l with
              | [] => None
              | s :: r => match findSpec s c with Some x => Some x | None => go r end
              end) ch
  end.
Fixpoint compilers (t : spectree) : list Z :=
  match t with SNode id ch => id :: flat_map compilers ch end.
