(* ParMap -- a batch of tasks dispatched by mju_dispatch (engine_thread.cc) onto a shared mjData.

   What is modelled.  mju_dispatch(m, d, func, arg, ntask) runs func(m, d, arg, thread_id, task_id)
   once for every task_id in 0..ntask-1 (C03_exactly_once / C03_return_after_all) on the dispatching
   thread (thread_id 0) and the pool workers (thread_id 1..nthread), one task at a time per thread.
   Here the shared memory is a function from locations (array id, element index) to values, a task
   is a deterministic program of single reads and writes of shared locations (local computation is
   the Gallina continuation), and the machine interleaves the running tasks at the granularity of
   ONE memory access (sequentially consistent).  The scheduler is as liberal as possible: any idle
   thread id may start any task that has not been started, at any time, and any running thread may
   perform its next access; this includes every behaviour of the claim loop of
   ThreadPoolContext::Dispatch / Worker (C03).

   Footprints are given by ONE classification function  own : loc -> owner :
     ORead       never written during the batch (model, kinematics, efc_* inputs, ...)
     OTask i     private to task i (its output slice; also the stack blocks the task reserves under
                 the thread lock, which C19_concurrent shows pairwise disjoint from all others)
     OScratch t  per-thread scratch, indexed by the thread_id argument (the EPA buffer of
                 collisionTask: epabuffer + thread_id * ccd_size)
   so "pairwise disjoint write footprints" is the fact that own is a function.  Task i running
   with thread id t may read ORead, OTask i, OScratch t and may write OTask i, OScratch t.

   Not modelled: weak memory (the machine is SC), torn accesses, and the C++ notion of a data race. *)
From Coq Require Import List ZArith Bool Arith.
From MJV Require Import Model.Island.
Import ListNotations.

Definition loc := (Z * Z)%type.
Definition loc_eqb (a b : loc) : bool := (fst a =? fst b)%Z && (snd a =? snd b)%Z.

Inductive owner := ORead | OTask (i : nat) | OScratch (t : nat).

Definition owner_eqb (a b : owner) : bool :=
  match a, b with
  | ORead, ORead => true
  | OTask i, OTask j => Nat.eqb i j
  | OScratch t, OScratch u => Nat.eqb t u
  | _, _ => false
  end.

Definition mem (V : Type) := loc -> V.
Definition upd {V : Type} (m : mem V) (l : loc) (v : V) : mem V :=
  fun x => if loc_eqb x l then v else m x.

(* a task body: a finite tree of shared-memory accesses *)
Inductive prog (V : Type) :=
| Done : prog V
| Read (l : loc) (k : V -> prog V) : prog V
| Write (l : loc) (v : V) (k : prog V) : prog V.
Arguments Done {V}.
Arguments Read {V} l k.
Arguments Write {V} l v k.

(* running a task alone *)
Fixpoint exec {V : Type} (p : prog V) (m : mem V) : mem V :=
  match p with
  | Done => m
  | Read l k => exec (k (m l)) m
  | Write l v k => exec k (upd m l v)
  end.

Definition may_read (own : loc -> owner) (i t : nat) (l : loc) : bool :=
  match own l with ORead => true | OTask j => Nat.eqb j i | OScratch u => Nat.eqb u t end.
Definition may_write (own : loc -> owner) (i t : nat) (l : loc) : bool :=
  match own l with ORead => false | OTask j => Nat.eqb j i | OScratch u => Nat.eqb u t end.

(* task i with thread id t stays inside its footprint, whatever values it reads *)
Inductive respects {V : Type} (own : loc -> owner) (i t : nat) : prog V -> Prop :=
| R_done : respects own i t Done
| R_read : forall (l : loc) (k : V -> prog V),
    may_read own i t l = true -> (forall v : V, respects own i t (k v)) -> respects own i t (Read l k)
| R_write : forall (l : loc) (v : V) (k : prog V),
    may_write own i t l = true -> respects own i t k -> respects own i t (Write l v k).

(* the outputs of task i depend neither on the thread id it is given, nor on the content of
   scratch, nor on anything outside ORead and OTask i *)
Definition scratch_clean {V : Type} (own : loc -> owner) (n : nat) (tasks : nat -> nat -> prog V) : Prop :=
  forall (i t t' : nat) (m m' : mem V), (i < n)%nat ->
    (forall l : loc, own l = ORead \/ own l = OTask i -> m l = m' l) ->
    forall l : loc, own l = OTask i -> exec (tasks i t) m l = exec (tasks i t') m' l.

(* ---- the concurrent machine ---- *)
Record run1 (V : Type) := mkrun { r_tid : nat; r_task : nat; r_prog : prog V }.
Arguments mkrun {V}.
Arguments r_tid {V}.
Arguments r_task {V}.
Arguments r_prog {V}.

Record cfg (V : Type) := mkcfg {
  cmem : mem V;
  pending : list nat;          (* task ids not yet claimed *)
  running : list (run1 V);     (* one entry per busy thread *)
  finished : list nat }.
Arguments mkcfg {V}.
Arguments cmem {V}.
Arguments pending {V}.
Arguments running {V}.
Arguments finished {V}.

Definition init_cfg {V : Type} (n : nat) (m0 : mem V) : cfg V := mkcfg m0 (seq 0 n) [] [].
Definition final_cfg {V : Type} (c : cfg V) : Prop := pending c = [] /\ running c = [].

Inductive step {V : Type} (tasks : nat -> nat -> prog V) : cfg V -> cfg V -> Prop :=
| S_start : forall (m : mem V) (p1 p2 : list nat) (i t : nat) (r : list (run1 V)) (f : list nat),
    ~ In t (map r_tid r) ->
    step tasks (mkcfg m (p1 ++ i :: p2) r f) (mkcfg m (p1 ++ p2) (mkrun t i (tasks i t) :: r) f)
| S_read : forall (m : mem V) (p : list nat) (r1 r2 : list (run1 V)) (t i : nat) (l : loc)
                  (k : V -> prog V) (f : list nat),
    step tasks (mkcfg m p (r1 ++ mkrun t i (Read l k) :: r2) f)
               (mkcfg m p (r1 ++ mkrun t i (k (m l)) :: r2) f)
| S_write : forall (m : mem V) (p : list nat) (r1 r2 : list (run1 V)) (t i : nat) (l : loc) (v : V)
                   (k : prog V) (f : list nat),
    step tasks (mkcfg m p (r1 ++ mkrun t i (Write l v k) :: r2) f)
               (mkcfg (upd m l v) p (r1 ++ mkrun t i k :: r2) f)
| S_end : forall (m : mem V) (p : list nat) (r1 r2 : list (run1 V)) (t i : nat) (f : list nat),
    step tasks (mkcfg m p (r1 ++ mkrun t i Done :: r2) f) (mkcfg m p (r1 ++ r2) (i :: f)).

Inductive steps {V : Type} (tasks : nat -> nat -> prog V) : cfg V -> cfg V -> Prop :=
| steps_refl : forall c : cfg V, steps tasks c c
| steps_cons : forall c1 c2 c3 : cfg V, steps tasks c1 c2 -> step tasks c2 c3 -> steps tasks c1 c3.

(* mju_dispatch without a pool: for (i = 0; i < ntask; i++) func(m, d, arg, 0, i) *)
Definition seq_run {V : Type} (tasks : nat -> nat -> prog V) (n : nat) (m0 : mem V) : mem V :=
  fold_left (fun (m : mem V) (i : nat) => exec (tasks i 0%nat) m) (seq 0 n) m0.

(* ---- executable scheduler (examples, and replay of task-granularity schedules) ----
   an action is (thread id, Some i) = "thread claims task i"  or  (thread id, None) = "thread
   performs its next access / retires a finished task" *)
Fixpoint remove1 (i : nat) (l : list nat) : option (list nat) :=
  match l with
  | [] => None
  | x :: r => if Nat.eqb x i then Some r else option_map (cons x) (remove1 i r)
  end.

Fixpoint step_thread {V : Type} (t : nat) (m : mem V) (r : list (run1 V)) (f : list nat)
  : option (mem V * list (run1 V) * list nat) :=
  match r with
  | [] => None
  | x :: r' =>
      if Nat.eqb (r_tid x) t then
        match r_prog x with
        | Done => Some (m, r', r_task x :: f)
        | Read l k => Some (m, mkrun t (r_task x) (k (m l)) :: r', f)
        | Write l v k => Some (upd m l v, mkrun t (r_task x) k :: r', f)
        end
      else
        match step_thread t m r' f with
        | Some (m', r'', f') => Some (m', x :: r'', f')
        | None => None
        end
  end.

Definition act1 {V : Type} (tasks : nat -> nat -> prog V) (c : cfg V) (a : nat * option nat) : option (cfg V) :=
  match a with
  | (t, Some i) =>
      if existsb (fun x : run1 V => Nat.eqb (r_tid x) t) (running c) then None
      else match remove1 i (pending c) with
           | Some p' => Some (mkcfg (cmem c) p' (mkrun t i (tasks i t) :: running c) (finished c))
           | None => None
           end
  | (t, None) =>
      match step_thread t (cmem c) (running c) (finished c) with
      | Some (m', r', f') => Some (mkcfg m' (pending c) r' f')
      | None => None
      end
  end.

Fixpoint acts {V : Type} (tasks : nat -> nat -> prog V) (c : cfg V) (l : list (nat * option nat)) : option (cfg V) :=
  match l with
  | [] => Some c
  | a :: r => match act1 tasks c a with Some c' => acts tasks c' r | None => None end
  end.

(* ---- footprint tables of the call sites ----
   A table gives, for every array the tasks may write, how an element index is mapped to the
   owning task.  Three shapes occur in the engine:
     TSlices adr cnt      task k owns [adr[k], adr[k]+cnt[k])     (island-ordered arrays iacc,
                          ifrc_constraint, iefc_force, iefc_state with island_idofadr/island_nv and
                          island_iefcadr/island_nefc; conbuffer / nconbuffer of collisionTask with
                          the chunk boundaries)
     TKey key             element e is owned by task key[e], nobody if key[e] < 0   (efc_force,
                          efc_state through efc_island for the PGS island solver; contact[].H;
                          per-island statistics rows)
     TStride n batch      element e is owned by task (e mod n) / batch   (forcesT of tactileTask:
                          channel c, taxel j at c*n + j, task = j / batch_size)
     TThread size         element e is scratch of thread e / size   (EPA buffer)            *)
Inductive table :=
| TSlices (adr cnt : list Z)
| TKey (key : list Z)
| TStride (n batch : Z)
| TThread (size : Z).

Fixpoint slice_owner (adr cnt : list Z) (k : nat) (e : Z) : option nat :=
  match adr, cnt with
  | a :: adr', c :: cnt' => if ((a <=? e) && (e <? a + c))%Z then Some k else slice_owner adr' cnt' (S k) e
  | _, _ => None
  end.

Definition table_owner (tb : table) (e : Z) : owner :=
  match tb with
  | TSlices adr cnt => match slice_owner adr cnt 0 e with Some k => OTask k | None => ORead end
  | TKey key => if (e <? 0)%Z then ORead else
                  let k := nth (Z.to_nat e) key (-1)%Z in
                  if (k <? 0)%Z then ORead else OTask (Z.to_nat k)
  | TStride n batch => if ((0 <? n) && (0 <? batch) && (0 <=? e))%Z then OTask (Z.to_nat ((e mod n) / batch)) else ORead
  | TThread size => if ((0 <? size) && (0 <=? e))%Z then OScratch (Z.to_nat (e / size)) else ORead
  end.

(* a site = list of (array id, table); arrays not listed are read-only *)
Fixpoint site_owner (site : list (Z * table)) (l : loc) : owner :=
  match site with
  | [] => ORead
  | (a, tb) :: r => if (a =? fst l)%Z then table_owner tb (snd l) else site_owner r l
  end.

(* the island-solve call site (mj_fwdConstraint -> solveIslandTask): array ids as used by the
   correspondence driver *)
Definition A_iacc : Z := 1.
Definition A_ifrc_constraint : Z := 2.
Definition A_iefc_force : Z := 3.
Definition A_iefc_state : Z := 4.
Definition A_efc_force : Z := 5.
Definition A_efc_state : Z := 6.
Definition A_contact_H : Z := 7.
Definition A_solver : Z := 8.
Definition A_solver_niter : Z := 9.
Definition A_solver_nnz : Z := 10.
Definition A_qacc : Z := 11.
Definition A_qfrc_constraint : Z := 12.

(* island tables of mj_island: island_nv / island_nefc are the counts, the address arrays are their
   prefix sums (C17_maps: adr = scan 0 cnt), efc_island / dof_island / contact island are key arrays,
   nsolver = mjNSOLVER (statistics rows per island), nstat = mjNISLAND *)
Definition island_site (island_nv island_nefc efc_island dof_island con_island : list Z) (nsolver nstat : Z)
  : list (Z * table) :=
  let dofadr := scan 0%Z island_nv in
  let efcadr := scan 0%Z island_nefc in
  let nisl := length island_nv in
  let stat_key := map (fun k : nat => if (Z.of_nat k <? nstat)%Z then Z.of_nat k else (-1)%Z) (seq 0 nisl) in
  [ (A_iacc, TSlices dofadr island_nv); (A_ifrc_constraint, TSlices dofadr island_nv);
    (A_iefc_force, TSlices efcadr island_nefc); (A_iefc_state, TSlices efcadr island_nefc);
    (A_efc_force, TKey efc_island); (A_efc_state, TKey efc_island);
    (A_contact_H, TKey con_island);
    (A_solver, TSlices (map (fun k : nat => Z.of_nat k * nsolver)%Z (seq 0 nisl))
                       (map (fun k : nat => if (Z.of_nat k <? nstat)%Z then nsolver else 0%Z) (seq 0 nisl)));
    (A_solver_niter, TKey stat_key); (A_solver_nnz, TKey stat_key);
    (A_qacc, TKey dof_island); (A_qfrc_constraint, TKey dof_island) ].

(* the narrow-phase call site (mj_narrowphase -> collisionTask): chunk i handles pairs
   [chunk*i, min(chunk*(i+1), npair)), writes their counts into nconbuffer and their contacts into
   conbuffer from conpos[first pair of the chunk] up to conpos[first pair of the next chunk] (maxcon
   for the last one); the EPA buffer is per-thread scratch of ccd_size bytes *)
Definition A_nconbuffer : Z := 20.
Definition A_conbuffer : Z := 21.
Definition A_epabuffer : Z := 22.
Definition A_forcesT : Z := 30.

Definition collision_site (chunk npair maxcon ccd_size : Z) (conpos : list Z) : list (Z * table) :=
  let nchunk := ((npair + chunk - 1) / chunk)%Z in
  let ids := map Z.of_nat (seq 0 (Z.to_nat nchunk)) in
  let cadr := map (fun i : Z => nth (Z.to_nat (chunk * i)) conpos maxcon) ids in
  let cend := map (fun i : Z => nth (Z.to_nat (chunk * (i + 1))) conpos maxcon) ids in
  [ (A_nconbuffer, TSlices (map (fun i : Z => chunk * i)%Z ids) (map (fun i : Z => Z.min chunk (npair - chunk * i))%Z ids));
    (A_conbuffer, TSlices cadr (map (fun ab : Z * Z => (snd ab - fst ab)%Z) (combine cadr cend)));
    (A_epabuffer, TThread ccd_size) ].

(* the tactile call site (mj_computeSensor -> tactileTask): forcesT[c*ntaxel + j], task = j / batch *)
Definition tactile_site (ntaxel batch : Z) : list (Z * table) := [ (A_forcesT, TStride ntaxel batch) ].

(* ---- checking observed writes of the implementation against a site table ----
   a write record is (task, thread id, array id, first element, last element) *)
Fixpoint zrange (lo : Z) (n : nat) : list Z :=
  match n with O => [] | S n' => lo :: zrange (lo + 1) n' end.

Definition write_ok (site : list (Z * table)) (w : Z * Z * Z * Z * Z) : bool :=
  let '(task, tid, a, lo, hi) := w in
  forallb (fun e : Z => may_write (site_owner site) (Z.to_nat task) (Z.to_nat tid) (a, e))
          (zrange lo (Z.to_nat (hi - lo + 1))).

Definition writes_ok (site : list (Z * table)) (ws : list (Z * Z * Z * Z * Z)) : bool := forallb (write_ok site) ws.

Fixpoint zlist_eqb (a b : list Z) : bool :=
  match a, b with
  | [], [] => true
  | x :: a', y :: b' => (x =? y)%Z && zlist_eqb a' b'
  | _, _ => false
  end.

(* island case of the correspondence: the implementation's address arrays are the prefix sums of the
   counts (C17_maps) and every observed write is inside the writer's footprint *)
Definition island_case_ok (island_nv island_nefc idofadr iefcadr efc_island dof_island con_island : list Z)
                          (nsolver nstat : Z) (ws : list (Z * Z * Z * Z * Z)) : bool :=
  zlist_eqb (scan 0%Z island_nv) idofadr && zlist_eqb (scan 0%Z island_nefc) iefcadr &&
  writes_ok (island_site island_nv island_nefc efc_island dof_island con_island nsolver nstat) ws.

(* ---- a small concrete instance (non-vacuity of the hypotheses; used by the Examples) ----
   two tasks, array 1 sliced [0,2) / [2,3), array 22 per-thread scratch of 4 elements, array 0
   read-only.  Task i on thread t reads in[i], stages in[i]+1 in its thread's scratch, reads it
   back and writes twice that value to the first element of its slice. *)
Definition ex_site : list (Z * table) := [ (1%Z, TSlices [0; 2]%Z [2; 1]%Z); (22%Z, TThread 4%Z) ].
Definition ex_task (i t : nat) : prog Z :=
  Read (0%Z, Z.of_nat i)
    (fun x : Z => Write (22%Z, (4 * Z.of_nat t)%Z) (x + 1)%Z
       (Read (22%Z, (4 * Z.of_nat t)%Z)
          (fun y : Z => Write (1%Z, (2 * Z.of_nat i)%Z) (2 * y)%Z Done))).
Definition ex_m0 : mem Z := fun l : loc => (100 * fst l + snd l)%Z.

(* tactile batching as coded: batch = ceil(ntaxel / nthread), ntask = ceil(ntaxel / batch); the batches
   [t*batch, min((t+1)*batch, ntaxel)) must cover every taxel: checked on the implementation's numbers
   (ntaxel, batch, ntask, end_taxel of the last task) *)
Definition ceil_div (a b : Z) : Z := ((a + b - 1) / b)%Z.
Definition tactile_cover_ok (ntaxel batch ntask last_end : Z) : bool :=
  ((0 <? batch) && (ntaxel <=? ntask * batch) && ((ntask - 1) * batch <? ntaxel) && (last_end =? ntaxel))%Z.

(* one record of the footprint correspondence: kind 0 = island site, 1 = collision site, 2 = tactile *)
Definition site_case_ok (c : Z * list Z * list (list Z) * list (Z * Z * Z * Z * Z)) : bool :=
  let '(kind, k, ls, ws) := c in
  let L := fun i : nat => nth i ls [] in
  let K := fun i : nat => nth i k 0%Z in
  if (kind =? 0)%Z then island_case_ok (L 0%nat) (L 1%nat) (L 2%nat) (L 3%nat) (L 4%nat) (L 5%nat) (L 6%nat) (K 0%nat) (K 1%nat) ws
  else if (kind =? 1)%Z then writes_ok (collision_site (K 0%nat) (K 1%nat) (K 2%nat) (K 3%nat) (L 0%nat)) ws
  else if (kind =? 2)%Z then writes_ok (tactile_site (K 0%nat) (K 1%nat)) ws && tactile_cover_ok (K 0%nat) (K 1%nat) (K 2%nat) (K 3%nat)
  else false.

(* ---- the dense-Jacobian PGS island task AS CODED (engine_solver.c residual(): mju_dot over the whole
   efc_force vector), on the smallest instance: two islands with one constraint row each.  Task i reads
   BOTH entries of efc_force -- the other one multiplied by the exact zero AR[i][1-i] -- and updates
   its own entry.  KNOWN finding C02-F3: the read of the other island's entry is outside the footprint. *)
Definition pgs_site : list (Z * table) := [ (A_efc_force, TKey [0; 1]%Z) ].
Definition pgs_dense_task (i t : nat) : prog Z :=
  Read (A_efc_force, 0%Z) (fun f0 : Z =>
  Read (A_efc_force, 1%Z) (fun f1 : Z =>
    let ar := fun j : nat => if Nat.eqb j i then 2%Z else 0%Z in
    let res := (100 + 3 * Z.of_nat i + ar 0%nat * f0 + ar 1%nat * f1)%Z in
    Write (A_efc_force, Z.of_nat i) ((if Nat.eqb i 0 then f0 else f1) - res)%Z Done)).
