(* Model of the dense Cholesky routines of src/engine/engine_util_solve.c:
   mju_cholFactor, mju_cholSolve, mju_cholUpdate.
   Generic over Lib/Num.v (R for the theorems, PrimFloat for the correspondence runs).
   A dense n x n matrix is the list of its rows (the C array is the row-major concatenation);
   only the lower triangle is read or written by these routines.  Dot products are mju_dot
   (Model/Sparse.v: dot, 4 lanes + tail), the remaining arithmetic is in the C order. *)
From Coq Require Import ZArith List Bool Arith.
From MJV Require Import Lib.Num Model.Sparse.
Import ListNotations.

Section Chol.
Context {T : Type} `{Num T}.
Local Open Scope num_scope.

Definition mjMINVAL : T := ndec 1 (-15).

(* map with the element index *)
Fixpoint mapi_from {A B : Type} (k : nat) (f : nat -> A -> B) (l : list A) : list B :=
  match l with [] => [] | x :: r => f k x :: mapi_from (S k) f r end.
Definition mapi {A B : Type} (f : nat -> A -> B) (l : list A) : list B := mapi_from 0 f l.

(* ---------------------------------------------------------------- mju_cholSolve *)
(* forward substitution L y = b:  y_i = (b_i - dot(L[i][0..i), y[0..i))) / L[i][i] *)
Definition chol_fwd (n : nat) (L : list (list T)) (b : list T) : list T :=
  fold_left (fun y i => y ++ [(nth i b nzero - dot (firstn i (nth i L [])) y) / dget L i i])
            (seq 0 n) [].
(* backward substitution L' x = y, i = n-1 .. 0:
   x_i = (y_i - L[i+1][i] x_{i+1} - ... - L[n-1][i] x_{n-1}) / L[i][i], subtracted one by one;
   xt is the already computed tail x_{i+1} .. x_{n-1} *)
Definition chol_bwd_elem (n : nat) (L : list (list T)) (yi : T) (i : nat) (xt : list T) : T :=
  fold_left (fun s j => s - dget L j i * nth (j - (i + 1)) xt nzero) (seq (i + 1) (n - (i + 1))) yi
  / dget L i i.
Definition chol_bwd (n : nat) (L : list (list T)) (y : list T) : list T :=
  fold_right (fun i xt => chol_bwd_elem n L (nth i y nzero) i xt :: xt) [] (seq 0 n).
Definition cholSolve (n : nat) (L : list (list T)) (b : list T) : list T :=
  chol_bwd n L (chol_fwd n L b).

(* ---------------------------------------------------------------- mju_cholFactor (in place, by columns) *)
Definition cholFactor_col (mindiag : T) (st : list (list T) * Z) (j : nat) : list (list T) * Z :=
  let '(M, rank) := st in
  let rj := firstn j (nth j M []) in
  let tmp := dget M j j - dot rj rj in
  let deficient := tmp <? mindiag in
  let d := nsqrt (if deficient then mindiag else tmp) in
  let inv := none / d in
  (mapi (fun i ri =>
           if Nat.ltb i j then ri
           else if Nat.eqb i j then upd j d ri
           else if deficient then upd j nzero ri
           else upd j ((nth j ri nzero - dot (firstn j ri) rj) * inv) ri) M,
   if deficient then (rank - 1)%Z else rank).
Definition cholFactor (n : nat) (mindiag : T) (M : list (list T)) : list (list T) * Z :=
  fold_left (cholFactor_col mindiag) (seq 0 n) (M, Z.of_nat n).

(* ---------------------------------------------------------------- mju_cholUpdate *)
Definition cholUpdate_step (plus : bool) (st : list (list T) * list T * Z) (k : nat)
  : list (list T) * list T * Z :=
  let '(M, x, rank) := st in
  let xk := nth k x nzero in
  if nz xk then
    let Lkk := dget M k k in
    let tmp0 := Lkk * Lkk + (if plus then xk * xk else (- xk) * xk) in
    let small := tmp0 <? mjMINVAL in
    let r := nsqrt (if small then mjMINVAL else tmp0) in
    let c := r / Lkk in
    let cinv := none / c in
    let s := xk / Lkk in
    let M' := mapi (fun i ri =>
                      if Nat.ltb i k then ri
                      else if Nat.eqb i k then upd k r ri
                      else upd k ((if plus then nth k ri nzero + s * nth i x nzero
                                   else nth k ri nzero - s * nth i x nzero) * cinv) ri) M in
    let x' := mapi (fun i xi => if Nat.leb i k then xi else c * xi - s * dget M' i k) x in
    (M', x', if small then (rank - 1)%Z else rank)
  else st.
Definition cholUpdate (n : nat) (plus : bool) (M : list (list T)) (x : list T)
  : list (list T) * list T * Z :=
  fold_left (cholUpdate_step plus) (seq 0 n) (M, x, Z.of_nat n).

End Chol.
