(* C07 (constraint rows): the joint / tendon equality of mj_instantiateEquality (src/engine/engine_core_constraint.c,
   case mjEQ_JOINT / mjEQ_TENDON with both objects defined), written over the numeric class Lib/Num.v.
   pos0, pos1 are the joint positions (or tendon lengths) of the two objects, ref0, ref1 their references
   (qpos0 / tendon_length0), c0..c4 = eq_data[0..4] the coupling polynomial, jac0, jac1 the dense Jacobian rows of
   the two objects (a unit vector for a joint, the tendon Jacobian for a tendon). *)
From Coq Require Import ZArith List.
From MJV Require Import Lib.Num.
Import ListNotations.

Section EqPoly.
Context {T : Type} `{Num T}.
Local Open Scope num_scope.

(* cpos[0] = pos[0] - ref[0] - data[0] - (data[1]*dif + data[2]*dif*dif + data[3]*dif*dif*dif + data[4]*dif*dif*dif*dif) *)
Definition eqPos (c0 c1 c2 c3 c4 pos0 ref0 pos1 ref1 : T) : T :=
  let dif := pos1 - ref1 in
  pos0 - ref0 - c0 - (c1 * dif + c2 * dif * dif + c3 * dif * dif * dif + c4 * dif * dif * dif * dif).

(* deriv = data[1] + 2*data[2]*dif + 3*data[3]*dif*dif + 4*data[4]*dif*dif*dif *)
Definition eqDeriv (c1 c2 c3 c4 pos1 ref1 : T) : T :=
  let dif := pos1 - ref1 in
  c1 + nofZ 2 * c2 * dif + nofZ 3 * c3 * dif * dif + nofZ 4 * c4 * dif * dif * dif.

(* mju_addToScl(jac[0], jac[1], -deriv, nv) *)
Fixpoint eqRow (jac0 jac1 : list T) (deriv : T) : list T :=
  match jac0, jac1 with
  | a :: r, b :: s => (a + b * (- deriv)) :: eqRow r s deriv
  | _, _ => jac0
  end.

(* only one object defined *)
Definition eqPos1 (c0 pos0 ref0 : T) : T := pos0 - ref0 - c0.
End EqPoly.
