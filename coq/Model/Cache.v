(* C38 — model of mjCCache / mjCAsset (src/user/user_cache.h, user_cache.cc).

   Definitions only, executable by vm_compute.  One function per method of mjCCache, written in the
   statement order of the C++ code.

   What is modelled and how
   - strings (model names, asset ids, timestamps) and the data pointer are integers;
   - lookup_  : std::unordered_map<string, mjCAsset>      ->  c_look : Z -> option asset
   - entries_ : std::set<mjCAsset*, mjCAssetCompare>      ->  c_ent  : list of asset ids, in the
       iteration order of the std::set; insertion and erasure go through the comparator evaluated
       on the *current* fields of the pointed-to assets (ptr_lt), as std::set does; inserting an
       element equivalent to a present one does nothing, erasing removes the equivalent elements;
   - models_  : unordered_map<string, unordered_set<mjCAsset*>> -> c_mod : Z -> list of asset ids
       (absent = empty: the empty entries that operator[] creates are not distinguished; they are
       not observable through the public interface); sets are kept as sorted duplicate-free lists,
       iteration over an unordered_set is modelled in that order (the proofs show the result of
       RemoveModel / Reset(model) is independent of the order);
   - mjCAsset::references_ : std::set<string>             ->  a_refs (sorted duplicate-free list)
   - size_t arithmetic is exact integer arithmetic (sizes are assumed far below 2^64);
   - dereferencing a dangling mjCAsset* or *entries_.begin() of an empty set is undefined
       behaviour in C++: the model returns None there, and the theorems show None is unreachable;
   - Trim's while loop runs on fuel = number of entries + 1 and returns None when exhausted;
   - mju_isModifiedResource(resource, ts): resource without provider/modified callback -> modified;
       with the callback: modified iff the resource's timestamp differs from ts (this is what the
       BufferProvider, the file provider of user_vfs.cc and the harness provider compute);
   - the callback fn of PopulateData is called with the data pointer and its return value fr is
       returned. *)
From Coq Require Import ZArith List Bool.
From MJV Require Import Lib.Eqb.
Import ListNotations.
Open Scope Z_scope.

Record asset := mkA {
  a_ts : Z;            (* timestamp_ *)
  a_bytes : Z;         (* size_ *)
  a_data : Z;          (* data_ *)
  a_ins : Z;           (* insert_num_ *)
  a_acc : Z;           (* access_count_ *)
  a_refs : list Z      (* references_ *)
}.

Record cache := mkC {
  c_cap : Z;                     (* capacity_ *)
  c_ins : Z;                     (* insert_num_ *)
  c_size : Z;                    (* size_ *)
  c_look : Z -> option asset;    (* lookup_ *)
  c_ent : list Z;                (* entries_ (ids of the pointed-to assets, in set order) *)
  c_mod : Z -> list Z            (* models_ *)
}.

Definition upd {A} (f : Z -> A) (k : Z) (v : A) : Z -> A := fun j => if j =? k then v else f j.

(* ordered / hashed sets of integers as sorted duplicate-free lists *)
Definition set_mem (x : Z) (l : list Z) : bool := existsb (Z.eqb x) l.
Fixpoint ins_sorted (x : Z) (l : list Z) : list Z :=
  match l with
  | [] => [x]
  | y :: r => if x <? y then x :: l else y :: ins_sorted x r
  end.
Definition set_add (x : Z) (l : list Z) : list Z := if set_mem x l then l else ins_sorted x l.
Definition set_del (x : Z) (l : list Z) : list Z := filter (fun y => negb (y =? x)) l.

(* mjCAssetCompare *)
Definition asset_lt (e1 e2 : asset) : bool :=
  if negb (a_acc e1 =? a_acc e2) then a_acc e1 <? a_acc e2 else a_ins e1 <? a_ins e2.
(* the comparator on pointers; a dangling pointer compares false (undefined behaviour in C++,
   never reached: see CacheProof.inv) *)
Definition ptr_lt (look : Z -> option asset) (x y : Z) : bool :=
  match look x, look y with Some a, Some b => asset_lt a b | _, _ => false end.
Definition ptr_equiv look x y : bool := negb (ptr_lt look x y) && negb (ptr_lt look y x).

(* std::set::insert / erase(key) *)
Fixpoint ent_insert (look : Z -> option asset) (x : Z) (l : list Z) : list Z :=
  match l with
  | [] => [x]
  | y :: r => if ptr_lt look x y then x :: l
              else if ptr_lt look y x then y :: ent_insert look x r
              else l
  end.
Definition ent_erase (look : Z -> option asset) (x : Z) (l : list Z) : list Z :=
  filter (fun y => negb (ptr_equiv look x y)) l.

Definition init (capacity : Z) : cache := mkC capacity 0 0 (fun _ => None) [] (fun _ => []).

Definition skip_is (skip : option Z) (r : Z) : bool :=
  match skip with Some k => r =? k | None => false end.

(* mjCCache::Delete(asset) (skip = None) and Delete(asset, skip) *)
Definition delete (skip : option Z) (id : Z) (s : cache) : option cache :=
  match c_look s id with
  | None => None
  | Some a =>
      Some (mkC (c_cap s) (c_ins s)
                (c_size s - a_bytes a)
                (upd (c_look s) id None)
                (ent_erase (c_look s) id (c_ent s))
                (fold_left (fun md r => if skip_is skip r then md else upd md r (set_del id (md r)))
                           (a_refs a) (c_mod s)))
  end.

(* mjCCache::Trim *)
Fixpoint trim (fuel : nat) (s : cache) : option cache :=
  if c_size s >? c_cap s then
    match fuel with
    | O => None
    | S f => match c_ent s with
             | [] => None
             | id :: _ => match delete None id s with None => None | Some s' => trim f s' end
             end
    end
  else Some s.

Definition set_capacity (c : Z) (s : cache) : option cache :=
  trim (S (length (c_ent s))) (mkC c (c_ins s) (c_size s) (c_look s) (c_ent s) (c_mod s)).

Definition has_asset (id : Z) (s : cache) : option Z := option_map a_ts (c_look s id).

(* mjCCache::Insert *)
Definition insert (m id ts data sz : Z) (s : cache) : cache * bool :=
  match c_look s id with
  | None =>
      if c_size s + sz >? c_cap s then (s, false)
      else
        let a := mkA ts sz data (c_ins s) 0 [m] in
        let look' := upd (c_look s) id (Some a) in
        (mkC (c_cap s) (c_ins s + 1) (c_size s + sz) look'
             (ent_insert look' id (c_ent s))
             (upd (c_mod s) m (set_add id (c_mod s m))), true)
  | Some a0 =>
      if c_size s - a_bytes a0 + sz >? c_cap s then (s, false)
      else
        let md := upd (c_mod s) m (set_add id (c_mod s m)) in
        let a1 := mkA (a_ts a0) (a_bytes a0) (a_data a0) (a_ins a0) (a_acc a0) (set_add m (a_refs a0)) in
        if a_ts a1 =? ts then
          (mkC (c_cap s) (c_ins s) (c_size s) (upd (c_look s) id (Some a1)) (c_ent s) md, true)
        else
          let a2 := mkA ts sz data (a_ins a1) (a_acc a1) (a_refs a1) in
          (mkC (c_cap s) (c_ins s) (c_size s - a_bytes a1 + sz) (upd (c_look s) id (Some a2)) (c_ent s) md, true)
  end.

(* mju_isModifiedResource for a resource with timestamp rts (None: no provider callback) *)
Definition is_modified (rts : option Z) (ts : Z) : bool :=
  match rts with None => true | Some t => negb (t =? ts) end.

(* mjCCache::PopulateData; result = (returned bool, data passed to fn if fn was called) *)
Definition populate (id : Z) (rts : option Z) (fr : bool) (s : cache) : cache * (bool * option Z) :=
  match c_look s id with
  | None => (s, (false, None))
  | Some a =>
      if is_modified rts (a_ts a) then (s, (false, None))
      else
        let ent1 := ent_erase (c_look s) id (c_ent s) in
        let a' := mkA (a_ts a) (a_bytes a) (a_data a) (a_ins a) (a_acc a + 1) (a_refs a) in
        let look' := upd (c_look s) id (Some a') in
        (mkC (c_cap s) (c_ins s) (c_size s) look' (ent_insert look' id ent1) (c_mod s),
         (fr, Some (a_data a)))
  end.

Definition delete_asset (id : Z) (s : cache) : option cache :=
  match c_look s id with None => Some s | Some _ => delete None id s end.

(* body of the loop of RemoveModel for one asset pointer *)
Definition remove_model_step (m : Z) (os : option cache) (id : Z) : option cache :=
  match os with
  | None => None
  | Some s =>
      match c_look s id with
      | None => None
      | Some a =>
          let a' := mkA (a_ts a) (a_bytes a) (a_data a) (a_ins a) (a_acc a) (set_del m (a_refs a)) in
          let s1 := mkC (c_cap s) (c_ins s) (c_size s) (upd (c_look s) id (Some a')) (c_ent s) (c_mod s) in
          match a_refs a' with
          | [] => delete (Some m) id s1
          | _ :: _ => Some s1
          end
      end
  end.

Definition erase_model (m : Z) (s : cache) : cache :=
  mkC (c_cap s) (c_ins s) (c_size s) (c_look s) (c_ent s) (upd (c_mod s) m []).

(* RemoveModel with the iteration order of models_[m] given explicitly *)
Definition remove_model_over (order : list Z) (m : Z) (s : cache) : option cache :=
  option_map (erase_model m) (fold_left (remove_model_step m) order (Some s)).
Definition remove_model (m : Z) (s : cache) : option cache := remove_model_over (c_mod s m) m s.

Definition reset_model_step (m : Z) (os : option cache) (id : Z) : option cache :=
  match os with None => None | Some s => delete (Some m) id s end.
Definition reset_model_over (order : list Z) (m : Z) (s : cache) : option cache :=
  option_map (erase_model m) (fold_left (reset_model_step m) order (Some s)).
Definition reset_model (m : Z) (s : cache) : option cache := reset_model_over (c_mod s m) m s.

Definition reset (s : cache) : cache := mkC (c_cap s) 0 0 (fun _ => None) [] (fun _ => []).

(* ---- histories ---- *)
Inductive op :=
| OInsert (m id ts data sz : Z)
| OPop (id : Z) (rts : option Z) (fr : bool)
| OHas (id : Z)
| ODelete (id : Z)
| ORemoveModel (m : Z)
| OResetModel (m : Z)
| OReset
| OSetCap (c : Z)
| OSize
| OCap.

Inductive res :=
| RBool (b : bool)
| RPop (b : bool) (d : option Z)
| RTs (t : option Z)
| RNum (z : Z)
| RUnit.

Definition step (o : op) (s : cache) : option (cache * res) :=
  match o with
  | OInsert m id ts data sz => let '(s', b) := insert m id ts data sz s in Some (s', RBool b)
  | OPop id rts fr => let '(s', (b, d)) := populate id rts fr s in Some (s', RPop b d)
  | OHas id => Some (s, RTs (has_asset id s))
  | ODelete id => option_map (fun s' => (s', RUnit)) (delete_asset id s)
  | ORemoveModel m => option_map (fun s' => (s', RUnit)) (remove_model m s)
  | OResetModel m => option_map (fun s' => (s', RUnit)) (reset_model m s)
  | OReset => Some (reset s, RUnit)
  | OSetCap c => option_map (fun s' => (s', RUnit)) (set_capacity c s)
  | OSize => Some (s, RNum (c_size s))
  | OCap => Some (s, RNum (c_cap s))
  end.

(* run a history; None = some step hit undefined behaviour / ran out of fuel *)
Fixpoint run (h : list op) (s : cache) : option (cache * list res) :=
  match h with
  | [] => Some (s, [])
  | o :: r => match step o s with
              | None => None
              | Some (s', x) => match run r s' with
                                | None => None
                                | Some (s'', xs) => Some (s'', x :: xs)
                                end
              end
  end.

(* ---- canonical dump over a finite universe of asset ids and model names (correspondence) ---- *)
Definition dump_asset (o : option asset) : list Z :=
  match o with
  | None => []
  | Some a => a_ts a :: a_bytes a :: a_data a :: a_ins a :: a_acc a :: a_refs a
  end.
Definition dump (ids ms : list Z) (s : cache) : list (list Z) :=
  [c_cap s; c_ins s; c_size s] :: c_ent s :: map (fun i => dump_asset (c_look s i)) ids ++ map (c_mod s) ms.

Definition res_code (r : res) : list Z :=
  match r with
  | RBool b => [if b then 1 else 0]
  | RPop b d => [if b then 1 else 0; match d with Some x => x | None => -1 end]
  | RTs t => [match t with Some x => x | None => -1 end]
  | RNum z => [z]
  | RUnit => []
  end.

(* expected result code er of the implementation against the model's result x.  Threaded runs
   observe HasAsset only by null-ness of the returned pointer: [-2] = present, [-3] = absent. *)
Definition res_match (x : res) (er : list Z) : bool :=
  zlist_eqb (res_code x) er ||
  match x, er with
  | RTs (Some _), [z] => z =? -2
  | RTs None, [z] => z =? -3
  | _, _ => false
  end.

(* correspondence checker: expected result code of every operation and (optionally) the expected
   state dump after it *)
Fixpoint check_trace (ids ms : list Z) (h : list op) (e : list (list Z * option (list (list Z))))
         (s : cache) : bool :=
  match h, e with
  | [], [] => true
  | o :: r, (er, ed) :: e' =>
      match step o s with
      | None => false
      | Some (s', x) =>
          res_match x er &&
          match ed with None => true | Some d => list_eqb zlist_eqb (dump ids ms s') d end &&
          check_trace ids ms r e' s'
      end
  | _, _ => false
  end.
