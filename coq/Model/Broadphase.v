(* Model of the pair selection of src/engine/engine_collision_driver.c:
   filterBitmask, filterBodyPair, canCollide, canCollide2, add_pair, SAPcmp / mj_SAP (sweep and
   prune over the sort of the float casts of the interval ends, starts before ends on ties), the body-pair part of
   mj_broadphase and the explicit-pair / exclude merge of mj_collision.
   Definitions only; proofs are in Proof/BroadphaseProof.v. *)
From Coq Require Import List ZArith Bool.
From MJV Require Import Model.Sort.
Import ListNotations.
Open Scope Z_scope.

(* ------------------------------------------------------------------ filters (C ints as Z) *)

(* filterBitmask: 1 = discard.  `!(contype1 & conaffinity2) && !(contype2 & conaffinity1)` *)
Definition filterBitmask (c1 a1 c2 a2 : Z) : bool :=
  (Z.land c1 a2 =? 0) && (Z.land c2 a1 =? 0).

Definition nz (x : Z) : bool := negb (x =? 0).     (* C truth value of an int *)

(* filterBodyPair: 1 = discard; the if-cascade of the C function, in order *)
Definition filterBodyPair (w1 p1 s1 d1 w2 p2 s2 d2 dsbl : Z) : bool :=
  if w1 =? w2 then true
  else if (d1 =? 0) && (d2 =? 0) then true
  else if nz s1 && nz s2 then true
  else if (nz s1 && negb (nz w2)) || (nz s2 && negb (nz w1)) then true
  else if (negb (nz dsbl) && (negb (w1 =? 0)) && (negb (w2 =? 0))) && ((w1 =? p2) || (w2 =? p1)) then true
  else false.

(* canCollide: `contype || conaffinity` of the body *)
Definition canCollide (ct ca : Z) : bool := nz ct || nz ca.

(* canCollide2: opposite of the bitmask filter on the body masks *)
Definition canCollide2 (ct1 ca1 ct2 ca2 : Z) : bool := negb (filterBitmask ct1 ca1 ct2 ca2).

(* signature of a bodyflex pair: (min << 16) + max *)
Definition signature (bf1 bf2 : Z) : Z := if bf1 <? bf2 then bf1 * 65536 + bf2 else bf2 * 65536 + bf1.

(* `contype |= geom_contype[i]` over the geoms of a body; geoms are (contype, conaffinity) *)
Definition or_types (gs : list (Z * Z)) : Z := fold_left (fun acc g => Z.lor acc (fst g)) gs 0.
Definition or_affs (gs : list (Z * Z)) : Z := fold_left (fun acc g => Z.lor acc (snd g)) gs 0.

(* add_pair(m, bf1, bf2, &npair, pair, maxpair) on bodies; [bodies] = geoms of every body, [usem] =
   m != NULL.  None = mjERROR("broadphase buffer full"). *)
Definition add_pair (usem : bool) (bodies : list (list (Z * Z))) (maxpair : Z) (pairs : list Z) (bf1 bf2 : Z)
  : option (list Z) :=
  if Z.of_nat (length pairs) <? maxpair then
    let g1 := nth (Z.to_nat bf1) bodies [] in
    let g2 := nth (Z.to_nat bf2) bodies [] in
    if usem && filterBitmask (or_types g1) (or_affs g1) (or_types g2) (or_affs g2) then Some pairs
    else Some (pairs ++ [signature bf1 bf2])
  else None.

(* ------------------------------------------------------------------ sweep and prune *)
Section SAP.
Variable K : Type.                   (* coordinates: any totally preordered type *)
Variable kcmp : K -> K -> Z.         (* three-way comparison *)
Variable rnd : K -> K.               (* the (float) cast applied to the sweep-axis interval ends *)

Definition kgt (a b : K) : bool := 0 <? kcmp a b.

(* a box is (min corner, max corner); aamm is column-major in C, a list of boxes here *)
Definition box : Type := ((K * K * K) * (K * K * K))%type.

Definition coord (axis : Z) (p : K * K * K) : K :=
  match p with (x, y, z) => if axis =? 0 then x else if axis =? 1 then y else z end.
Definition bmin (axis : Z) (b : box) : K := coord axis (fst b).
Definition bmax (axis : Z) (b : box) : K := coord axis (snd b).

(* `if (axis_x == 0) {y=1; z=2} else if (axis_x == 1) {y=0; z=2} else {y=0; z=1}` *)
Definition axis_y (axis : Z) : Z := if axis =? 0 then 1 else 0.
Definition axis_z (axis : Z) : Z := if axis =? 0 then 2 else if axis =? 1 then 2 else 1.

(* struct _mjtSAP: value, id, ismax (id_ismax = id + 0x10000 * ismax) *)
Definition tag : Type := (nat * bool)%type.
Definition entry : Type := (K * tag)%type.

(* SAPcmp: by value; on equal values interval starts (ismax = 0) sort before interval ends (ismax = 1) *)
Definition b2z (b : bool) : Z := if b then 1 else 0.
Definition ecmp (a b : entry) : Z :=
  let c := kcmp (fst a) (fst b) in
  if c <? 0 then -1 else if c =? 0 then b2z (snd (snd a)) - b2z (snd (snd b)) else 1.

(* sortbuf[2i] = (rnd x_min[i], i, min); sortbuf[2i+1] = (rnd x_max[i], i, max) *)
Fixpoint init_entries (axis : Z) (i : nat) (bs : list box) : list entry :=
  match bs with
  | [] => []
  | b :: r => (rnd (bmin axis b), (i, false)) :: (rnd (bmax axis b), (i, true)) :: init_entries axis (S i) r
  end.

(* removal of the first active entry with the given id (memmove of the tail) *)
Fixpoint remove1 (x : nat) (l : list nat) : list nat :=
  match l with
  | [] => []
  | y :: r => if Nat.eqb y x then r else y :: remove1 x r
  end.

(* the sweep loop over the sorted tags; [keep id1 id2] = the pair survives the y/z pruning *)
Fixpoint sweep (keep : nat -> nat -> bool) (act : list nat) (s : list tag) : list (nat * nat) :=
  match s with
  | [] => []
  | (i, false) :: r => map (fun a => (a, i)) (filter (fun a => keep a i) act) ++ sweep keep (act ++ [i]) r
  | (i, true) :: r => sweep keep (remove1 i act) r
  end.

(* `y_min[id1] > y_max[id2] || y_min[id2] > y_max[id1] || z_min[id1] > z_max[id2] || z_min[id2] > z_max[id1]` *)
Definition pruned (axis : Z) (b1 b2 : box) : bool :=
  kgt (bmin (axis_y axis) b1) (bmax (axis_y axis) b2) ||
  kgt (bmin (axis_y axis) b2) (bmax (axis_y axis) b1) ||
  kgt (bmin (axis_z axis) b1) (bmax (axis_z axis) b2) ||
  kgt (bmin (axis_z axis) b2) (bmax (axis_z axis) b1).

Definition keep_of (axis : Z) (bs : list box) (d : box) (id1 id2 : nat) : bool :=
  negb (pruned axis (nth id1 bs d) (nth id2 bs d)).

Definition sorted_tags (axis : Z) (bs : list box) : list tag :=
  map snd (mjsort entry ecmp (init_entries axis 0 bs)).

(* all pairs the sweep emits, in emission order (no buffer limit) *)
Definition sap (axis : Z) (bs : list box) (d : box) : list (nat * nat) :=
  sweep (keep_of axis bs d) [] (sorted_tags axis bs).

(* mj_SAP with its input check and the maxpair cut: (return value, pairs written) *)
Definition mj_SAP (axis : Z) (bs : list box) (d : box) (maxpair : Z) : Z * list (nat * nat) :=
  if (65536 <=? Z.of_nat (length bs)) || (axis <? 0) || (2 <? axis) || (maxpair <? 1) then (-1, [])
  else
    let out := sap axis bs d in
    if maxpair <=? Z.of_nat (length out) then (maxpair, firstn (Z.to_nat maxpair) out)
    else (Z.of_nat (length out), out).

End SAP.

(* SAPcmp on numbers: -1 / 0 / 1 *)
Definition zcmp3 (a b : Z) : Z := if a <? b then -1 else if a =? b then 0 else 1.

(* ------------------------------------------------------------------ body-pair part of mj_broadphase
   A body is described by
     (weld id, weld id of the weld body's parent, dofnum of the weld body, asleep, has a plane geom),
     its geoms (contype, conaffinity), and its body_contype / body_conaffinity.              *)
Record bodyrec : Type := mkBody {
  b_weld : Z; b_pweld : Z; b_dof : Z; b_asleep : Z; b_plane : bool;
  b_geoms : list (Z * Z); b_ct : Z; b_ca : Z }.

Definition dbody : bodyrec := mkBody 0 0 0 0 false [] 0 0.

Definition zseq (n : nat) : list Z := map Z.of_nat (seq 0 n).

(* pairs involving always-colliding bodies: b1 = world with geoms, or dof-less body with a plane *)
Definition always_pairs (bodies : list bodyrec) (dsbl : Z) : list Z :=
  let n := length bodies in
  flat_map (fun b1 =>
    let r1 := nth (Z.to_nat b1) bodies dbody in
    if canCollide (b_ct r1) (b_ca r1) &&
       (((b1 =? 0) && negb (length (b_geoms r1) =? 0)%nat) || ((b_dof r1 =? 0) && b_plane r1))
    then
      flat_map (fun b2 =>
        let r2 := nth (Z.to_nat b2) bodies dbody in
        if canCollide (b_ct r2) (b_ca r2) &&
           negb (filterBodyPair (b_weld r1) (b_pweld r1) 0 (b_dof r1)
                                (b_weld r2) (b_pweld r2) (b_asleep r2) (b_dof r2) dsbl) &&
           negb (filterBitmask (or_types (b_geoms r1)) (or_affs (b_geoms r1))
                               (or_types (b_geoms r2)) (or_affs (b_geoms r2)))
        then [signature b1 b2] else []) (zseq n)
    else []) (zseq n).

(* collidable body ids 1..n-1 (bfid); dof-less bodies with a plane were paired with every body by always_pairs and are
   kept out of the sweep (/repo 3ff575b68: their pairs were added twice and could overflow the pair buffer) *)
Definition collidable (bodies : list bodyrec) : list Z :=
  filter (fun b => let r := nth (Z.to_nat b) bodies dbody in
                   negb ((b_dof r =? 0) && b_plane r) && canCollide (b_ct r) (b_ca r))
         (map Z.of_nat (seq 1 (length bodies - 1))).

(* SAP pairs converted to body pairs and filtered *)
Definition sap_body_pairs (bodies : list bodyrec) (dsbl : Z) (bfid : list Z) (sp : list (nat * nat)) : list Z :=
  flat_map (fun p =>
    let b1 := nth (fst p) bfid 0 in
    let b2 := nth (snd p) bfid 0 in
    let r1 := nth (Z.to_nat b1) bodies dbody in
    let r2 := nth (Z.to_nat b2) bodies dbody in
    if negb (filterBodyPair (b_weld r1) (b_pweld r1) (b_asleep r1) (b_dof r1)
                            (b_weld r2) (b_pweld r2) (b_asleep r2) (b_dof r2) dsbl) &&
       negb (filterBitmask (or_types (b_geoms r1)) (or_affs (b_geoms r1))
                           (or_types (b_geoms r2)) (or_affs (b_geoms r2)))
    then [signature b1 b2] else []) sp.

(* uintcmp on non-negative signatures *)
Definition sigcmp (a b : Z) : Z := zcmp3 a b.

(* mj_broadphase (bodies only, at least one non-world geom): the sorted list of signatures.
   [boxes] are the AAMMs of the collidable bodies, in bfid order. *)
Definition broadphase (K : Type) (kcmp : K -> K -> Z) (rnd : K -> K) (bodies : list bodyrec) (dsbl : Z)
           (boxes : list (box K)) (d : box K) : list Z :=
  let bfid := collidable bodies in
  let sp := if (1 <? length bfid)%nat then sap K kcmp rnd 0 boxes d else [] in
  mjsort Z sigcmp (always_pairs bodies dsbl ++ sap_body_pairs bodies dsbl bfid sp).
