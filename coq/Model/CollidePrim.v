(* Model of the analytic primitive colliders of src/engine/engine_collision_primitive.c
   (mjraw_PlaneSphere / mjc_PlaneSphere, mjraw_SphereSphere / mjc_SphereSphere, mjc_PlaneCapsule,
   mjraw_SphereCapsule / mjc_SphereCapsule, mjraw_CapsuleCapsule / mjc_CapsuleCapsule, mjc_PlaneCylinder), of
   mju_makeFrame (engine_util_spatial.c), of the frame assembly done by mj_narrowphase + mj_setContact
   (engine_collision_driver.c: frame[0..2] = normal, frame[3..5] = tangent, then mju_makeFrame) and of
   the analytic arm of mj_geomDistance (engine_support.c).

   Written once over Lib/Num.v; instantiated at R for the theorems (Proof/CollidePrimProof.v,
   Props/C13.v) and at PrimFloat.float for the correspondence runs.  Definitions only.  The
   operations are written in the association order of the C expressions; vectors and row-major 3x3
   matrices are the flat tuples of Model/Spatial.v (imported read-only: vec3, mat3, add3, sub3, scl3,
   dot3, cross, normalize3, mjMINVAL).

   A pre-contact (mjPreContact) is (dist, pos, normal, tangent); a collider returns the list of the
   pre-contacts it wrote (its C return value is the length of that list). *)
From Coq Require Import ZArith List Bool.
From MJV Require Import Lib.Num Model.Spatial.
Import ListNotations.

Definition precon (T : Type) : Type := (T * vec3 T * vec3 T * vec3 T)%type.
Definition pc_dist {T} (c : precon T) : T := let '(d, _, _, _) := c in d.
Definition pc_pos {T} (c : precon T) : vec3 T := let '(_, p, _, _) := c in p.
Definition pc_normal {T} (c : precon T) : vec3 T := let '(_, _, n, _) := c in n.
Definition pc_tangent {T} (c : precon T) : vec3 T := let '(_, _, _, t) := c in t.
Definition pc2l {T} (c : precon T) : list T :=
  let '(d, p, n, t) := c in d :: v2l p ++ v2l n ++ v2l t.

Section Prim.
Context {T : Type} `{Num T}.
Local Open Scope num_scope.

(* third column of a geom's xmat: the plane normal / capsule axis *)
Definition zaxis (m : mat3 T) : vec3 T :=
  let '(m0, m1, m2, m3, m4, m5, m6, m7, m8) := m in (m2, m5, m8).

(* mju_clip(x, min, max) = x < min ? min : (x > max ? max : x) *)
Definition clip (x lo hi : T) : T := if x <? lo then lo else if hi <? x then hi else x.

(* ---- mjraw_PlaneSphere(con, margin, pos1, mat1, size1, pos2, mat2, size2); r2 = size2[0] *)
Definition rawPlaneSphere (margin : T) (pos1 : vec3 T) (mat1 : mat3 T) (pos2 : vec3 T) (r2 : T)
  : list (precon T) :=
  let normal := zaxis mat1 in
  let tmp := sub3 pos2 pos1 in
  let cdist := dot3 tmp normal in
  if margin + r2 <? cdist then []
  else
    let dist := cdist - r2 in
    [(dist, add3 pos2 (scl3 normal (- dist / ntwo - r2)), normal, zero3)].

(* ---- mjraw_SphereSphere; r1 = size1[0], r2 = size2[0]; mat1/mat2 only serve the coincident-centre arm *)
Definition rawSphereSphere (margin : T) (pos1 : vec3 T) (mat1 : mat3 T) (r1 : T)
                           (pos2 : vec3 T) (mat2 : mat3 T) (r2 : T) : list (precon T) :=
  let dif := sub3 pos1 pos2 in
  let cdist_sqr := dot3 dif dif in
  let min_dist := margin + r1 + r2 in
  if min_dist * min_dist <? cdist_sqr then []
  else
    let dist := nsqrt cdist_sqr - r1 - r2 in
    let '(n0, len) := normalize3 (sub3 pos2 pos1) in
    let n := if len <? mjMINVAL then fst (normalize3 (cross (zaxis mat1) (zaxis mat2))) else n0 in
    [(dist, add3 (scl3 n (r1 + dist / ntwo)) pos1, n, zero3)].

Definition setTangent (ax : vec3 T) (c : precon T) : precon T :=
  let '(d, p, n, _) := c in (d, p, n, ax).

(* ---- mjc_PlaneCapsule; size2 = (radius r2, half-length len2) *)
Definition planeCapsule (margin : T) (pos1 : vec3 T) (mat1 : mat3 T)
                        (pos2 : vec3 T) (mat2 : mat3 T) (r2 len2 : T) : list (precon T) :=
  let axis := zaxis mat2 in
  let segment := scl3 axis len2 in
  let c1 := rawPlaneSphere margin pos1 mat1 (add3 pos2 segment) r2 in
  let c2 := rawPlaneSphere margin pos1 mat1 (sub3 pos2 segment) r2 in
  map (setTangent axis) (c1 ++ c2).

(* ---- mjraw_SphereCapsule *)
Definition sphereCapsule (margin : T) (pos1 : vec3 T) (mat1 : mat3 T) (r1 : T)
                         (pos2 : vec3 T) (mat2 : mat3 T) (r2 len2 : T) : list (precon T) :=
  let axis := zaxis mat2 in
  let vec := sub3 pos1 pos2 in
  let x := clip (dot3 axis vec) (- len2) len2 in
  let q := add3 (scl3 axis x) pos2 in
  rawSphereSphere margin pos1 mat1 r1 q mat2 r2.

(* the segment parameters (x1, x2) in [-1,1]^2 chosen by the general (non-parallel) arm of
   mjraw_CapsuleCapsule *)
Definition capsuleParams (ma mb mc u v det : T) : T * T :=
  let x1 := (mc * u - mb * v) / det in
  let x2 := (ma * v - mb * u) / det in
  let '(x1, x2) :=
    if none <? x1 then (none, (v - mb) / mc)
    else if x1 <? - none then (- none, (v + mb) / mc)
    else (x1, x2) in
  if none <? x2 then (clip ((u - mb) / ma) (- none) none, none)
  else if x2 <? - none then (clip ((u + mb) / ma) (- none) none, - none)
  else (x1, x2).

(* ---- mjraw_CapsuleCapsule; size_i = (radius r_i, half-length len_i) *)
Definition capsuleCapsule (margin : T) (pos1 : vec3 T) (mat1 : mat3 T) (r1 len1 : T)
                          (pos2 : vec3 T) (mat2 : mat3 T) (r2 len2 : T) : list (precon T) :=
  let axis1 := scl3 (zaxis mat1) len1 in
  let axis2 := scl3 (zaxis mat2) len2 in
  let dif := sub3 pos1 pos2 in
  let ma := dot3 axis1 axis1 in
  let mb := - dot3 axis1 axis2 in
  let mc := dot3 axis2 axis2 in
  let u := - dot3 axis1 dif in
  let v := dot3 axis2 dif in
  let det := ma * mc - mb * mb in
  let ss := fun (p1 p2 : vec3 T) => rawSphereSphere margin p1 mat1 r1 p2 mat2 r2 in
  if mjMINVAL <=? nabs det then
    let '(x1, x2) := capsuleParams ma mb mc u v det in
    ss (add3 (scl3 axis1 x1) pos1) (add3 (scl3 axis2 x2) pos2)
  else
    (* parallel axes: up to two of the four end-point tests *)
    let x2a := clip ((v - mb) / mc) (- none) none in
    let c1 := ss (add3 pos1 axis1) (add3 (scl3 axis2 x2a) pos2) in
    let x2b := clip ((v + mb) / mc) (- none) none in
    let c2 := ss (sub3 pos1 axis1) (add3 (scl3 axis2 x2b) pos2) in
    if (2 <=? length (c1 ++ c2))%nat then c1 ++ c2
    else
      let x1a := clip ((u - mb) / ma) (- none) none in
      let c3 := ss (add3 (scl3 axis1 x1a) pos1) (add3 pos2 axis2) in
      if (2 <=? length (c1 ++ c2 ++ c3))%nat then c1 ++ c2 ++ c3
      else
        let x1b := clip ((u + mb) / ma) (- none) none in
        let c4 := ss (add3 (scl3 axis1 x1b) pos1) (sub3 pos2 axis2) in
        c1 ++ c2 ++ c3 ++ c4.

(* ---- mjc_PlaneCylinder; size2 = (radius, half-height).  First column of the cylinder's xmat: its x-axis *)
Definition xaxis (m : mat3 T) : vec3 T :=
  let '(m0, m1, m2, m3, m4, m5, m6, m7, m8) := m in (m0, m3, m6).
Definition planeCylinder (margin : T) (pos1 : vec3 T) (mat1 : mat3 T)
                         (pos2 : vec3 T) (mat2 : mat3 T) (radius height : T) : list (precon T) :=
  let normal := zaxis mat1 in
  let axis0 := zaxis mat2 in
  let prjaxis0 := dot3 normal axis0 in
  (* make sure the axis points towards the plane *)
  let flip := nzero <? prjaxis0 in
  let axis := if flip then scl3 axis0 (- none) else axis0 in
  let prjaxis := if flip then - prjaxis0 else prjaxis0 in
  let dist0 := dot3 (sub3 pos2 pos1) normal in
  (* remove the component of -normal along the axis *)
  let vec := sub3 (scl3 axis prjaxis) normal in
  let len_sqr := dot3 vec vec in
  let vec := if mjMINVAL <=? len_sqr then scl3 vec (radius / nsqrt len_sqr)
             else scl3 (xaxis mat2) radius in      (* disk parallel to plane: x-axis of the cylinder *)
  let prjvec := dot3 vec normal in
  let axis := scl3 axis height in
  let prjaxis := prjaxis * height in
  let d1 := dist0 + prjaxis + prjvec in
  if d1 <=? margin then
    let c1 := (d1, add3 (add3 (add3 pos2 vec) axis) (scl3 normal (- d1 * nhalf)), normal, zero3) in
    let d2 := dist0 - prjaxis + prjvec in
    let c2 := if d2 <=? margin
              then [(d2, add3 (sub3 (add3 pos2 vec) axis) (scl3 normal (- d2 * nhalf)), normal, zero3)] else [] in
    (* two more points of a triangle on the side closer to the plane *)
    let prjvec1 := - prjvec * nhalf in
    let d3 := dist0 + prjaxis + prjvec1 in
    let c34 := if d3 <=? margin then
                 let vec1 := scl3 (fst (normalize3 (cross vec axis))) (radius * nsqrt (nofZ 3) / ntwo) in
                 let tail := fun (p : vec3 T) =>
                   add3 (add3 (add3 p axis) (scl3 vec (- nhalf))) (scl3 normal (- d3 * nhalf)) in
                 [(d3, tail (add3 pos2 vec1), normal, zero3); (d3, tail (sub3 pos2 vec1), normal, zero3)]
               else [] in
    c1 :: c2 ++ c34
  else [].

(* ---- mjc_SphereCylinder; size2 = (radius, half-height).  Three arms: side (sphere-sphere against the axis point), cap
   (plane-sphere against the cap plane, normal flipped because the sphere is geom 1), corner (sphere-sphere against the rim point);
   when the sphere centre is inside the cylinder the nearer of cap and side is chosen *)
Definition flipNormal (c : precon T) : precon T :=
  let '(d, p, n, t) := c in (d, p, scl3 n (- none), t).
Definition sphereCylinder (margin : T) (pos1 : vec3 T) (mat1 : mat3 T) (r1 : T)
                          (pos2 : vec3 T) (mat2 : mat3 T) (radius height : T) : list (precon T) :=
  let axis := zaxis mat2 in
  let vec := sub3 pos1 pos2 in
  let x := dot3 axis vec in
  let a_proj := scl3 axis x in
  let p_proj := sub3 vec a_proj in
  let p_proj_sqr := dot3 p_proj p_proj in
  let side0 := nabs x <? height in
  let cap0 := p_proj_sqr <? radius * radius in
  let deep := side0 && cap0 in
  (* deep penetration (sphere origin inside cylinder): disable one collision type *)
  let capNearer := (height - nabs x) <? (radius - nsqrt p_proj_sqr) in
  let side := if deep then negb capNearer else side0 in
  let cap := if deep then capNearer else cap0 in
  if side then rawSphereSphere margin pos1 mat1 r1 (add3 a_proj pos2) mat2 radius
  else if cap then
    let '(m0, m1, m2, m3, m4, m5, m6, m7, m8) := mat2 in
    let flipmat := (- m0, m1, - m2, - m3, m4, - m5, - m6, m7, - m8) in
    let top := nzero <? x in
    let pos_cap := add3 pos2 (scl3 axis (if top then height else - height)) in
    map flipNormal (rawPlaneSphere margin pos_cap (if top then mat2 else flipmat) pos1 r1)
  else
    (* corner: point sphere at the rim *)
    let rim := scl3 p_proj (radius / nsqrt p_proj_sqr) in
    let corner := add3 (add3 (scl3 axis (if nzero <? x then height else - height)) rim) pos2 in
    rawSphereSphere margin pos1 mat1 r1 corner mat2 nzero.

(* ---- mju_makeFrame(frame): x-axis = frame[0..2] (normal), y-axis = frame[3..5] (tangent, may be
   zero).  None models mjERROR("xaxis of contact frame undefined"). *)
Definition defaultY (x : vec3 T) : vec3 T :=
  let x1 := let '(_, b, _) := x in b in
  if (x1 <? nhalf) && (- nhalf <? x1) then (nzero, none, nzero) else (nzero, nzero, none).
(* y - x (x.y) *)
Definition reject (x y : vec3 T) : vec3 T := sub3 y (scl3 x (dot3 x y)).
Definition makeFrame (xin yin : vec3 T) : option (vec3 T * vec3 T * vec3 T) :=
  let '(x, n) := normalize3 xin in
  if n <? nhalf then None
  else
    let y := if dot3 yin yin <? ndec 25 (-2) then defaultY x else yin in
    let '(yn, len) := normalize3 (reject x y) in
    (* given y-axis parallel to the x-axis: the default y-axis is used instead *)
    let yn := if len <? mjMINVAL then fst (normalize3 (reject x (defaultY x))) else yn in
    Some (x, yn, cross x yn).

(* mj_narrowphase copies normal and tangent of the pre-contact into frame[0..5]; mj_setContact
   completes the frame with mju_makeFrame *)
Definition contactFrame (c : precon T) : option (vec3 T * vec3 T * vec3 T) :=
  makeFrame (pc_normal c) (pc_tangent c).

(* ---- analytic arm of mj_geomDistance: smallest contact distance below distmax (strict), and the
   two witness points fromto = pos -+ 0.5*sign*dist*normal with sign = -1 when the geoms were
   swapped to sort them by type.  (dist, from, to); from = to = 0 when nothing is below distmax. *)
Fixpoint smallest (cons : list (precon T)) (best : T) (arg : option (precon T)) : T * option (precon T) :=
  match cons with
  | [] => (best, arg)
  | c :: r => if pc_dist c <? best then smallest r (pc_dist c) (Some c) else smallest r best arg
  end.
Definition geomDistance (flip : bool) (cons : list (precon T)) (distmax : T) : T * vec3 T * vec3 T :=
  match smallest cons distmax None with
  | (dist, None) => (dist, zero3, zero3)
  | (dist, Some c) =>
      let sign := if flip then - none else none in
      (dist, add3 (pc_pos c) (scl3 (pc_normal c) (- nhalf * sign * dist)),
             add3 (pc_pos c) (scl3 (pc_normal c) (nhalf * sign * dist)))
  end.

End Prim.
