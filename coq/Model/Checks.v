(* C30: model of mju_isBad (engine_util_misc.c), mj_warning (engine_core_util.c) and of
   mj_checkPos / mj_checkVel / mj_checkAcc (engine_forward.c).

   mjData is split into [warn] (the mjWarningStat array, as a list of (number, lastinfo)) and
   [core] (everything else, abstract type S).  mj_resetData is "core := s0, every warning := (0,0)"
   where s0 is the model's initial data; mj_forward (called by mj_checkAcc after a reset) is an
   abstract function on the whole data.  The checked vector is given as the list of
   (index, value) pairs in the order in which the C loop visits them (0..n-1, or dof_awake_ind
   order when the sleep filter is active). *)
From Coq Require Import ZArith List Bool PrimFloat.
From MJV Require Import Lib.Num.
Import ListNotations.
Open Scope Z_scope.

(* mjMAXVAL = 1E+10 (mjmodel.h) = 0x1.2a05f2p+33 exactly *)
Definition mjMAXVAL : float := 0x1.2a05f2p+33%float.
Definition mjMAXVAL_Z : Z := 10000000000.

(* return (x != x || x > mjMAXVAL || x < -mjMAXVAL) *)
Definition isBad (x : float) : bool :=
  negb (PrimFloat.eqb x x) || PrimFloat.ltb mjMAXVAL x || PrimFloat.ltb x (PrimFloat.opp mjMAXVAL).

(* warning kinds (mjtWarning) *)
Definition WARN_BADQPOS : nat := 3.
Definition WARN_BADQVEL : nat := 4.
Definition WARN_BADQACC : nat := 5.
Definition WARN_BADCTRL : nat := 6.
Definition NWARNING : nat := 7.

Record WarnStat := { lastinfo : Z; number : Z }.

Record Data (S : Type) := { core : S; warn : list WarnStat }.
Arguments core {S}. Arguments warn {S}. Arguments Build_Data {S}.

Fixpoint upd {A} (l : list A) (k : nat) (f : A -> A) : list A :=
  match l, k with
  | nil, _ => nil
  | x :: r, O => f x :: r
  | x :: r, S k' => x :: upd r k' f
  end.

Section Checks.
Context {S : Type}.

(* mj_warning: lastinfo = info; number++  (the message printed the first time is not modelled) *)
Definition mj_warning (d : Data S) (k : nat) (info : Z) : Data S :=
  {| core := core d;
     warn := upd (warn d) k (fun w => {| lastinfo := info; number := number w + 1 |}) |}.

(* the two statements after the reset:  number++; lastinfo = i *)
Definition bump (d : Data S) (k : nat) (info : Z) : Data S :=
  {| core := core d;
     warn := upd (warn d) k (fun w => {| lastinfo := info; number := number w + 1 |}) |}.

Definition resetData (s0 : S) : Data S :=
  {| core := s0; warn := repeat {| lastinfo := 0; number := 0 |} NWARNING |}.

(* first (index, value) in loop order whose value is bad *)
Fixpoint first_bad (es : list (Z * float)) : option Z :=
  match es with
  | nil => None
  | (i, x) :: r => if isBad x then Some i else first_bad r
  end.

Fixpoint enum_from {A} (i : Z) (l : list A) : list (Z * A) :=
  match l with nil => nil | x :: r => (i, x) :: enum_from (i + 1) r end.

(* loop order without the sleep filter: 0 .. n-1 *)
Definition entries_all (v : list float) : list (Z * float) := enum_from 0 v.
(* loop order with the sleep filter: i = dof_awake_ind[j], j = 0 .. nv_awake-1 *)
Definition entries_ind (v : list float) (ind : list Z) : list (Z * float) :=
  map (fun i => (i, nth (Z.to_nat i) v PrimFloat.zero)) ind.

(* mj_checkPos / mj_checkVel: kind k, [autoreset] = !mjDISABLED(mjDSBL_AUTORESET) *)
Definition check (k : nat) (autoreset : bool) (s0 : S) (es : list (Z * float)) (d : Data S) : Data S :=
  match first_bad es with
  | None => d
  | Some i =>
      let d1 := mj_warning d k i in
      let d2 := if autoreset then resetData s0 else d1 in
      bump d2 k i
  end.

(* mj_checkAcc: additionally mj_forward after the counter update when autoreset *)
Definition checkAcc (autoreset : bool) (s0 : S) (fwd : Data S -> Data S)
                    (es : list (Z * float)) (d : Data S) : Data S :=
  match first_bad es with
  | None => d
  | Some i =>
      let d1 := mj_warning d WARN_BADQACC i in
      let d2 := if autoreset then resetData s0 else d1 in
      let d3 := bump d2 WARN_BADQACC i in
      if autoreset then fwd d3 else d3
  end.

Definition checkPos (autoreset : bool) (s0 : S) (qpos : S -> list float) (d : Data S) : Data S :=
  check WARN_BADQPOS autoreset s0 (entries_all (qpos (core d))) d.
Definition checkVel (autoreset : bool) (s0 : S) (qvel : S -> list float) (d : Data S) : Data S :=
  check WARN_BADQVEL autoreset s0 (entries_all (qvel (core d))) d.

End Checks.

(* the bad-control scan of mj_fwdActuation: [ctrl] is the LOCAL control vector (all nu entries, after the
   delay read and the ctrlrange clamp); if any entry is bad, mj_warning(BADCTRL, first bad index) and ALL
   nu controls are replaced by 0 for this evaluation; d->ctrl itself is not modified *)
Definition check_ctrl {S : Type} (ctrl : list float) (d : Data S) : list float * Data S :=
  match first_bad (entries_all ctrl) with
  | None => (ctrl, d)
  | Some i => (repeat PrimFloat.zero (length ctrl), mj_warning d WARN_BADCTRL i)
  end.

(* mju_clip as used by clampVec (NaN passes through, infinities are clamped) *)
Definition clip_ctrl (limited : bool) (lo hi x : float) : float :=
  if limited then (if PrimFloat.ltb x lo then lo else if PrimFloat.ltb hi x then hi else x) else x.

Definition check_ctrl_summary (ctrl : list float) (n0 l0 : Z) : bool * Z * Z :=
  let d0 : Data unit := {| core := tt; warn := repeat {| lastinfo := 0; number := 0 |} 6 ++ [ {| lastinfo := l0; number := n0 |} ] |} in
  let '(c, d1) := check_ctrl ctrl d0 in
  let w := nth 6 (warn d1) {| lastinfo := -1; number := -1 |} in
  (match first_bad (entries_all ctrl) with Some _ => true | None => false end, number w, lastinfo w).

(* executable summary used by the correspondence run: given the warning stat of the checked kind
   before the call, return (found, number', lastinfo', was_reset) *)
Definition check_summary (autoreset : bool) (es : list (Z * float)) (n0 l0 : Z) : bool * Z * Z * bool :=
  let d0 : Data unit := {| core := tt; warn := [ {| lastinfo := l0; number := n0 |} ] |} in
  let d1 := check (S:=unit) 0%nat autoreset tt es d0 in
  match first_bad es, warn d1 with
  | Some _, w :: _ => (true, number w, lastinfo w, autoreset)
  | None, w :: _ => (false, number w, lastinfo w, false)
  | _, nil => (false, -1, -1, false)
  end.

(* scalar (slide/hinge) semi-implicit Euler update of mj_advance: qvel += h*qacc; qpos += h*qvel *)
Section Euler1.
Context {T : Type} `{Num T}.
Local Open Scope num_scope.
Definition euler1 (h q v a : T) : T * T := let v' := v + h * a in (q + h * v', v').
End Euler1.
