(* C31 — model of the MJB binary model file codec of src/engine/engine_io.c
   (mj_sizeModel, mj_saveModel, mj_loadModelBuffer + mj_makeModel's size checks and buffer layout,
   table part of mj_validateReferences), generic in a layout table (Gen/ModelLayout.v is the table
   regenerated from MJMODEL_SIZES / MJMODEL_POINTERS / MJMODEL_REFERENCES of the tree under test).

   Definitions only, all executable.  Bytes are Z (0..255), C integers are Z with the wraps of the
   code written explicitly (size_t arithmetic mod 2^64 in the truncation tests, the int parameter
   of bufread).  A buffer is a list of bytes; buffer_sz is its length. *)
From Coq Require Import ZArith List Bool.
Import ListNotations.
Open Scope Z_scope.

Definition INT_MAX : Z := 2147483647.
Definition W64 : Z := 18446744073709551616.          (* 2^64 *)
Definition I64MAX : Z := 9223372036854775807.        (* 2^63 - 1 *)
Definition W31 : Z := 2147483648.                    (* 2^31 *)

(* ---------- little-endian integers ---------- *)
Fixpoint le_enc (n : nat) (z : Z) : list Z :=
  match n with O => [] | S k => (z mod 256) :: le_enc k (z / 256) end.
Fixpoint le_dec_u (l : list Z) : Z :=
  match l with [] => 0 | b :: r => b + 256 * le_dec_u r end.
Definition le_dec_s (n : nat) (l : list Z) : Z :=
  let u := le_dec_u l in
  let h := 2 ^ (8 * Z.of_nat n - 1) in
  if u <? h then u else u - 2 * h.

Fixpoint chunks (w cnt : nat) (l : list Z) : list (list Z) :=
  match cnt with O => [] | S c => firstn w l :: chunks w c (skipn w l) end.
Definition ints (w cnt : nat) (l : list Z) : list Z := map (le_dec_s w) (chunks w cnt l).
Definition enc_ints (w : nat) (zs : list Z) : list Z := concat (map (le_enc w) zs).

(* ---------- layout table ---------- *)
Inductive ncterm := NcC (c : Z) | NcS (i : nat) (c : Z).       (* constant | sizes[i] * c *)
Record arrdesc := mkArr { a_esz : Z; a_nr : nat; a_nc : ncterm }.
(* reference entry of mj_validateReferences: array, count = sizes[r_cnt]*r_mul, target size, num array *)
Record refdesc := mkRef { r_arr : nat; r_cnt : nat; r_mul : Z; r_tgt : nat; r_num : option nat }.
(* entry of the required-reference list: array, count = sizes[q_cnt] *)
Record reqdesc := mkReq { q_arr : nat; q_cnt : nat }.
Record layout := mkLayout {
  l_hdr : list Z;          (* expected header ints: ID, sizeof(mjtNum), getnsize(), mj_version(), getnptr() *)
  l_nsize : nat;           (* number of size fields; the last one is nbuffer *)
  l_nmake : nat;           (* the leading l_nmake size fields are the arguments of mj_makeModel *)
  l_exempt : list nat;     (* size fields without the INT_MAX bound *)
  l_nonzero : nat;         (* nbody *)
  l_mapidx : nat;          (* nnames_map: set by mj_makeModel to l_mapmul * sum of l_mapterms *)
  l_mapmul : Z;
  l_mapterms : list nat;
  l_align : Z;             (* SKIP alignment of the in-memory buffer *)
  l_structs : list Z;      (* byte sizes of the struct blocks (opt, vis, stat, two flags) *)
  l_arrays : list arrdesc;
  l_refs : list refdesc;
  l_reqs : list reqdesc;   (* MJMODEL_REFERENCES_REQUIRED: arrays whose entries must be >= 0 (no "none" value) *)
  l_mapchk : bool;         (* the loader compares the file's nnames_map with the value derived by mj_makeModel *)
  l_ref64 : bool }.        (* mj_validateReferences computes adr+num in 64 bits (else in int, wrapping) *)

Record model := mkModel { m_sizes : list Z; m_structs : list (list Z); m_arrays : list (list Z) }.

Definition sz (s : list Z) (i : nat) : Z := nth i s 0.
Definition nc_val (s : list Z) (t : ncterm) : Z :=
  match t with NcC c => c | NcS i c => sz s i * c end.
(* sizeof(type)*(m->nr)*(nc), exact *)
Definition arr_bytes (s : list Z) (a : arrdesc) : Z := a_esz a * sz s (a_nr a) * nc_val s (a_nc a).
Definition zsum (l : list Z) : Z := fold_right Z.add 0 l.
Definition zlen {A} (l : list A) : Z := Z.of_nat (length l).

(* ---------- mj_saveModel / mj_sizeModel ---------- *)
Definition encode (L : layout) (m : model) : list Z :=
  enc_ints 4 (l_hdr L) ++ enc_ints 8 (m_sizes m) ++ concat (m_structs m) ++ concat (m_arrays m).

Definition wrap64s (z : Z) : Z := let u := z mod W64 in if u <=? I64MAX then u else u - W64.
(* mjtSize size = fixed part; size += sizeof(type)*(m->nr)*(nc) in size_t arithmetic *)
Definition sizeModel (L : layout) (m : model) : Z :=
  wrap64s (4 * zlen (l_hdr L) + 8 * Z.of_nat (l_nsize L) + zsum (l_structs L)
           + zsum (map (fun a => arr_bytes (m_sizes m) a mod W64) (l_arrays L))).


(* ---------- outcomes ---------- *)
Inductive reason :=
| RHdrShort | RHdr (i : nat) | RTruncSizes
| RSizeNeg (i : nat) | RSizeBig (i : nat) | RNonzero | RMapBig | RArrBig (k : nat)
| RNbuffer | RMapField | RTruncStructs | RTruncArr (k : nat) | RTooLarge
| RValNum (j : nat) | RValRef (j : nat) | RValReq (j : nat).
(* Abort k: the truncation test of array k passed by wrap-around and bufread is called with a byte
   count that does not fit its int parameter (mjERROR or a wild memcpy in the C code) *)
Inductive outcome := Ok (m : model) | Reject (r : reason) | Abort (k : nat).

(* ---------- mj_makeModel ---------- *)
Fixpoint mem_nat (i : nat) (l : list nat) : bool :=
  match l with [] => false | x :: r => Nat.eqb i x || mem_nat i r end.

Fixpoint check_sizes (ex : list nat) (i : nat) (l : list Z) : option reason :=
  match l with
  | [] => None
  | v :: r => if v <? 0 then Some (RSizeNeg i)
              else if (INT_MAX <=? v) && negb (mem_nat i ex) then Some (RSizeBig i)
              else check_sizes ex (S i) r
  end.

Definition map_sum (L : layout) (s : list Z) : Z := zsum (map (sz s) (l_mapterms L)).

(* m->name after mj_makeModel: arguments, nnames_map derived, everything else 0 (memset) *)
Definition alloc_sizes (L : layout) (fsz : list Z) : list Z :=
  map (fun i => if (i <? l_nmake L)%nat then sz fsz i
                else if Nat.eqb i (l_mapidx L) then l_mapmul L * map_sum L fsz else 0)
      (seq 0 (l_nsize L)).

Definition skip (align off : Z) : Z := (align - off mod align) mod align.

(* safeAddToBufferSize over MJMODEL_POINTERS; returns nbuffer and the plan (offset in m->buffer, bytes) *)
Fixpoint alloc (align : Z) (asz : list Z) (off : Z) (k : nat) (arrs : list arrdesc)
  : reason + (Z * list (Z * Z)) :=
  match arrs with
  | [] => inr (off, [])
  | a :: tl =>
    let nr := sz asz (a_nr a) in
    let nc := nc_val asz (a_nc a) in
    if (nr <? 0) || (nc <? 0) then inl (RArrBig k) else
    let p := nc * nr in
    if W64 <=? p then inl (RArrBig k) else
    let q := p * a_esz a in
    if W64 <=? q then inl (RArrBig k) else
    let t := q + skip align off in
    if W64 <=? t then inl (RArrBig k) else
    if I64MAX <? off + t then inl (RArrBig k) else
    match alloc align asz (off + t) (S k) tl with
    | inl r => inl r
    | inr (nb, plan) => inr (nb, (off + skip align off, q) :: plan)
    end
  end.

Definition make_model (L : layout) (fsz : list Z) : reason + (Z * list (Z * Z)) :=
  match check_sizes (l_exempt L) 0 (firstn (l_nmake L) fsz) with
  | Some r => inl r
  | None =>
    if sz fsz (l_nonzero L) =? 0 then inl RNonzero else
    if INT_MAX / l_mapmul L <=? map_sum L fsz then inl RMapBig else
    alloc (l_align L) (alloc_sizes L fsz) 0 0 (l_arrays L)
  end.

(* ---------- reading ---------- *)
Definition take (n : Z) (l : list Z) : list Z * list Z :=
  (firstn (Z.to_nat n) l, skipn (Z.to_nat n) l).

Fixpoint mismatch (i : nat) (got want : list Z) : option nat :=
  match got, want with
  | g :: gr, w :: wr => if g =? w then mismatch (S i) gr wr else Some i
  | _, _ => None
  end.

(* consecutive blocks of the given sizes (the struct blocks, read after one common test) *)
Fixpoint take_list (ns : list Z) (ptr : Z) (rest : list Z)
  : list (list Z) * Z * list Z * list (Z * Z) :=
  match ns with
  | [] => ([], ptr, rest, [])
  | n :: tl =>
    let '(blob, rest') := take n rest in
    let '(blobs, p, r, rds) := take_list tl (ptr + n) rest' in
    (blob :: blobs, p, r, (ptr, n) :: rds)
  end.

Inductive rares := RA_ok (ptr : Z) (rest : list Z) (blobs : list (list Z)) | RA_rej (r : reason) | RA_abort (k : nat).

(* write record: (offset of the array in m->buffer, bytes written, bytes allocated for the array) *)
Definition wr := (Z * Z * Z)%type.

(* the X loop over MJMODEL_POINTERS in mj_loadModelBuffer: test, then bufread.
   fsz = the size fields as read from the file (m->name after "set integer fields") *)
Fixpoint read_arrays (fsz : list Z) (len ptr : Z) (rest : list Z) (k : nat)
         (arrs : list arrdesc) (plan : list (Z * Z)) : rares * list (Z * Z) * list wr :=
  match arrs with
  | [] => (RA_ok ptr rest [], [], [])
  | a :: ar =>
    let n := arr_bytes fsz a mod W64 in
    if (ptr + n) mod W64 >? len then (RA_rej (RTruncArr k), [], [])
    else if W31 <=? n then (RA_abort k, [], [])
    else
      let '(blob, rest') := take n rest in
      let '(mo, q) := hd (0, 0) plan in
      let '(res, rds, wrs) := read_arrays fsz len (ptr + n) rest' (S k) ar (tl plan) in
      (match res with RA_ok p r bl => RA_ok p r (blob :: bl) | o => o end,
       (ptr, n) :: rds, (mo, n, q) :: wrs)
  end.

(* ---------- table part of mj_validateReferences ---------- *)
(* int adrsmax = adr + num as compiled (two's complement wrap; undefined behaviour in C) *)
Definition wrap32s (z : Z) : Z := let u := z mod (2 * W31) in if u <? W31 then u else u - 2 * W31.
Definition adr_max (wide : bool) (a n : Z) : Z := if wide then a + n else wrap32s (a + n).

Fixpoint check_pairs (wide : bool) (j : nat) (tgt : Z) (adrs nums : list Z) : option reason :=
  match adrs, nums with
  | a :: ar, n :: nr =>
    if n <? 0 then Some (RValNum j)
    else if (adr_max wide a n >? tgt) || (a <? -1) then Some (RValRef j)
    else check_pairs wide j tgt ar nr
  | _, _ => None
  end.

Definition ref_count (s : list Z) (r : refdesc) : nat := Z.to_nat (sz s (r_cnt r) * r_mul r).
Definition ref_adrs (m : model) (r : refdesc) : list Z :=
  ints 4 (ref_count (m_sizes m) r) (nth (r_arr r) (m_arrays m) []).
Definition ref_nums (m : model) (r : refdesc) : list Z :=
  match r_num r with
  | Some jn => ints 4 (ref_count (m_sizes m) r) (nth jn (m_arrays m) [])
  | None => repeat 1 (ref_count (m_sizes m) r)
  end.

Fixpoint validate_refs (wide : bool) (m : model) (j : nat) (refs : list refdesc) : option reason :=
  match refs with
  | [] => None
  | r :: tl =>
    match check_pairs wide j (sz (m_sizes m) (r_tgt r)) (ref_adrs m r) (ref_nums m r) with
    | Some e => Some e
    | None => validate_refs wide m (S j) tl
    end
  end.

(* second list of mj_validateReferences: entries that must not be negative *)
Definition req_adrs (m : model) (q : reqdesc) : list Z :=
  ints 4 (Z.to_nat (sz (m_sizes m) (q_cnt q))) (nth (q_arr q) (m_arrays m) []).
Fixpoint validate_reqs (m : model) (j : nat) (reqs : list reqdesc) : option reason :=
  match reqs with
  | [] => None
  | q :: tl => if forallb (fun a => 0 <=? a) (req_adrs m q) then validate_reqs m (S j) tl else Some (RValReq j)
  end.
Definition validate_all (L : layout) (m : model) : option reason :=
  match validate_refs (l_ref64 L) m 0 (l_refs L) with
  | Some e => Some e
  | None => validate_reqs m 0 (l_reqs L)
  end.

(* ---------- mj_loadModelBuffer, instrumented: outcome, reads (offset, bytes) of the input
   buffer, writes into the model buffer, nbuffer ---------- *)

(* the X loop over the arrays, the final length test, mj_validateReferences *)
Definition decode_arrays (L : layout) (len : Z) (fsz : list Z) (plan : list (Z * Z)) (p3 : Z) (r3 : list Z)
           (sblobs : list (list Z)) : outcome * list (Z * Z) * list wr :=
  let '(res, rds, wrs) := read_arrays fsz len p3 r3 0 (l_arrays L) plan in
  match res with
  | RA_rej r => (Reject r, rds, wrs)
  | RA_abort k => (Abort k, rds, wrs)
  | RA_ok p4 r4 blobs =>
    if negb (p4 =? len) then (Reject RTooLarge, rds, wrs) else
    let m := mkModel fsz sblobs blobs in
    match validate_all L m with
    | Some e => (Reject e, rds, wrs)
    | None => (Ok m, rds, wrs)
    end
  end.

(* everything after the size fields have been read: mj_makeModel, nbuffer test, (derived field test),
   struct blocks, arrays.  fsz = size fields of the file, p2 = offset reached, r2 = rest of the buffer *)
Definition decode_body (L : layout) (len : Z) (fsz : list Z) (p2 : Z) (r2 : list Z)
  : outcome * list (Z * Z) * list wr * Z :=
  match make_model L fsz with
  | inl r => (Reject r, [], [], 0)
  | inr (nb, plan) =>
    if negb (nb =? sz fsz (l_nsize L - 1)) then (Reject RNbuffer, [], [], nb) else
    if l_mapchk L && negb (sz fsz (l_mapidx L) =? sz (alloc_sizes L fsz) (l_mapidx L))
    then (Reject RMapField, [], [], nb) else
    if p2 + zsum (l_structs L) >? len then (Reject RTruncStructs, [], [], nb) else
    let '(sblobs, p3, r3, rd3) := take_list (l_structs L) p2 r2 in
    let '(o, rds, wrs) := decode_arrays L len fsz plan p3 r3 sblobs in
    (o, rd3 ++ rds, wrs, nb)
  end.

Definition hdr_bytes (L : layout) : Z := 4 * zlen (l_hdr L).
Definition sizes_bytes (L : layout) : Z := 8 * Z.of_nat (l_nsize L).
(* the header ints / size fields as the loader reads them from a buffer *)
Definition file_hdr (L : layout) (b : list Z) : list Z :=
  ints 4 (length (l_hdr L)) (fst (take (hdr_bytes L) b)).
Definition file_sizes (L : layout) (b : list Z) : list Z :=
  ints 8 (l_nsize L) (fst (take (sizes_bytes L) (snd (take (hdr_bytes L) b)))).

Definition decode_i (L : layout) (b : list Z) : outcome * list (Z * Z) * list wr * Z :=
  let len := zlen b in
  let hb := hdr_bytes L in
  if len <? hb then (Reject RHdrShort, [], [], 0) else
  match mismatch 0 (file_hdr L b) (l_hdr L) with
  | Some i => (Reject (RHdr i), [(0, hb)], [], 0)
  | None =>
    let sb := sizes_bytes L in
    if hb + sb >? len then (Reject RTruncSizes, [(0, hb)], [], 0) else
    let '(o, rds, wrs, nb) :=
        decode_body L len (file_sizes L b) (hb + sb) (snd (take sb (snd (take hb b)))) in
    (o, (0, hb) :: (hb, sb) :: rds, wrs, nb)
  end.

Definition decode (L : layout) (b : list Z) : outcome := fst (fst (fst (decode_i L b))).
Definition reads_of (L : layout) (b : list Z) : list (Z * Z) := snd (fst (fst (decode_i L b))).
Definition writes_of (L : layout) (b : list Z) : list wr := snd (fst (decode_i L b)).
Definition nbuffer_of (L : layout) (b : list Z) : Z := snd (decode_i L b).

(* a write leaves the model buffer / the array it was allocated for *)
Definition write_outside (nb : Z) (w : wr) : bool := let '(mo, n, q) := w in nb <? mo + n.
Definition write_past_array (w : wr) : bool := let '(mo, n, q) := w in q <? n.

(* ---------- well-formedness (executable) ---------- *)
Definition nc_idx_ok (bound : nat) (t : ncterm) : bool :=
  match t with NcC c => 0 <=? c | NcS i c => (i <? bound)%nat && (0 <=? c) end.
(* every size that determines an array length is an argument of mj_makeModel (hence checked,
   and used for the allocation) *)
Definition sizes_checked (L : layout) : bool :=
  forallb (fun a => ((a_nr a <? l_nmake L)%nat || (l_mapchk L && Nat.eqb (a_nr a) (l_mapidx L)))
                    && nc_idx_ok (l_nmake L) (a_nc a)) (l_arrays L).

Definition in_i32 (z : Z) : bool := (-W31 <=? z) && (z <? W31).
Definition in_i64 (z : Z) : bool := (-(I64MAX + 1) <=? z) && (z <=? I64MAX).

Definition wf_layout (L : layout) : bool :=
  forallb in_i32 (l_hdr L) && (0 <? l_align L) && forallb (fun n => 0 <=? n) (l_structs L)
  && forallb (fun a => 0 <=? a_esz a) (l_arrays L) && (1 <=? l_nsize L)%nat.

Fixpoint lens_ok (s : list Z) (arrs : list arrdesc) (plan : list (Z * Z)) (blobs : list (list Z)) : bool :=
  match arrs, plan, blobs with
  | [], [], [] => true
  | a :: ar, (mo, q) :: pr, bl :: br =>
    (zlen bl =? arr_bytes s a) && (q =? arr_bytes s a) && lens_ok s ar pr br
  | _, _, _ => false
  end.
Fixpoint lens_eq (ns : list Z) (blobs : list (list Z)) : bool :=
  match ns, blobs with
  | [], [] => true
  | n :: nr, bl :: br => (zlen bl =? n) && lens_eq nr br
  | _, _ => false
  end.

(* what a compiled model satisfies: sizes accepted by mj_makeModel, nbuffer consistent, blob
   lengths as allocated, references valid, serialized size fits the int buffer_sz *)
Definition wf_modelb (L : layout) (m : model) : bool :=
  (length (m_sizes m) =? l_nsize L)%nat && forallb in_i64 (m_sizes m) &&
  match make_model L (m_sizes m) with
  | inl _ => false
  | inr (nb, plan) =>
    (nb =? sz (m_sizes m) (l_nsize L - 1)) && lens_ok (m_sizes m) (l_arrays L) plan (m_arrays m)
  end &&
  lens_eq (l_structs L) (m_structs m) &&
  (zlen (encode L m) <=? INT_MAX) &&
  (sz (m_sizes m) (l_mapidx L) =? sz (alloc_sizes L (m_sizes m)) (l_mapidx L)) &&
  match validate_all L m with None => true | Some _ => false end.

(* ---------- helpers for the correspondence (executable side only) ---------- *)
Fixpoint patch (l : list Z) (i : nat) (v : Z) : list Z :=
  match l, i with
  | [], _ => []
  | _ :: r, O => v :: r
  | x :: r, S k => x :: patch r k v
  end.
Definition apply_patches (l : list Z) (ps : list (Z * Z)) : list Z :=
  fold_left (fun acc p => patch acc (Z.to_nat (fst p)) (snd p)) ps l.

(* offsets of the arrays in the file, as predicted by the layout *)
Fixpoint file_offsets (s : list Z) (ptr : Z) (arrs : list arrdesc) : list (Z * Z) :=
  match arrs with
  | [] => []
  | a :: tl => (ptr, arr_bytes s a) :: file_offsets s (ptr + arr_bytes s a) tl
  end.
Definition arrays_start (L : layout) : Z := hdr_bytes L + sizes_bytes L + zsum (l_structs L).

(* outcome code for comparison with the implementation:
   (class, index) with class 0 = accepted, 1.. = reject reasons, 99 = abort *)
Definition reason_code (r : reason) : Z * Z :=
  match r with
  | RHdrShort => (1, 0) | RHdr i => (2, Z.of_nat i) | RTruncSizes => (3, 0)
  | RSizeNeg i => (4, Z.of_nat i) | RSizeBig i => (5, Z.of_nat i) | RNonzero => (6, 0) | RMapBig => (7, 0)
  | RArrBig k => (8, Z.of_nat k) | RNbuffer => (9, 0) | RMapField => (18, 0) | RTruncStructs => (10, 0)
  | RTruncArr k => (11, Z.of_nat k) | RTooLarge => (12, 0)
  | RValNum j => (13, Z.of_nat j) | RValRef j => (14, Z.of_nat j) | RValReq j => (19, Z.of_nat j)
  end.
Definition outcome_code (o : outcome) : Z * Z :=
  match o with Ok _ => (0, 0) | Reject r => reason_code r | Abort k => (99, Z.of_nat k) end.
