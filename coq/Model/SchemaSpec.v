(* C37 — declarative meaning of an mjXSchema table: which element trees conform.
   Definitions only.  Nothing here follows the traversal order of mjXSchema::Check: every clause is
   a statement about membership, about the row that governs a child (the first sibling row whose name
   matches; for a well-formed table — no two sibling rows with the same name — the only one), and
   about the number of children a row governs. *)
From Coq Require Import String List Bool ZArith Arith.
From MJV Require Import Model.Schema.
Import ListNotations.
Open Scope string_scope.

(* at most one element of the list satisfies p *)
Inductive AtMostOne {A : Type} (p : A -> bool) : list A -> Prop :=
| AMO_nil : AtMostOne p []
| AMO_skip : forall x l, p x = false -> AtMostOne p l -> AtMostOne p (x :: l)
| AMO_take : forall x l, p x = true -> (forall y, In y l -> p y = false) -> AtMostOne p (x :: l).

Definition some_present (attrs b : list string) : Prop := exists a, In a b /\ In a attrs.
Definition all_present (attrs b : list string) : Prop := forall a, In a b -> In a attrs.

(* presence constraints over the attribute names of an element *)
Definition con_ok (attrs : list string) (c : constraint) : Prop :=
  let bs := cbundles c in
  match ckd c with
  | KExcl =>      (* at most one bundle has a member present *)
      AtMostOne (bundle_any attrs) bs
  | KTogether =>  (* all listed attributes, or none of them *)
      (forall a, In a (concat bs) -> In a attrs) \/ (forall a, In a (concat bs) -> ~ In a attrs)
  | KRequires =>  (* the first attribute of the first bundle needs the first attribute of the second *)
      (exists b, In b bs /\ some_present attrs b) -> In (head_of bs 0) attrs -> In (head_of bs 1) attrs
  | KOneof =>     (* some bundle is complete *)
      exists b, In b bs /\ all_present attrs b
  | KOther => True
  end.

Definition card_ok (c : card) (cnt : nat) : Prop :=
  match c with
  | COne => cnt = 1
  | COpt => cnt <= 1
  | _ => True
  end.

(* [Conforms bnm row level element].  bnm = true is the meaning of the schema: every element that a
   row validates (by name, or as an alias tag of the body row) satisfies that row.  bnm = false is
   the weaker meaning in which, below an 'R' row, only children literally named like the row are
   constrained and alias-tag children (frame, replicate) are left unconstrained. *)
Inductive Conforms (bnm : bool) : schema -> nat -> dom -> Prop :=
| Conf : forall (s : schema) (lvl : nat) (n : string) (attrs : list string) (line : Z) (kids : list dom),
    (* the row validates this tag at this depth *)
    name_match (sname s) lvl n = true ->
    (* only declared attributes *)
    (forall a : string, In a attrs -> In a (sattrs s)) ->
    (* presence constraints of the row *)
    (forall c : constraint, In c (scons s) -> con_ok attrs c) ->
    (* a child governed by a sub-row conforms to it *)
    (forall (k : dom) (i : nat) (sub : schema), In k kids ->
        governs (ssubs s) (S lvl) (dname k) = Some (i, sub) -> Conforms bnm sub (S lvl) k) ->
    (* a child governed by no sub-row is a recursive occurrence of an 'R' row *)
    (forall k : dom, In k kids -> governs (ssubs s) (S lvl) (dname k) = None ->
        scard s = CRec /\ name_match (sname s) (S lvl) (dname k) = true) ->
    (* recursive occurrences conform to the row itself *)
    (scard s = CRec -> forall k : dom, In k kids -> rec_pred bnm (sname s) (S lvl) (dname k) = true ->
        Conforms bnm s (S lvl) k) ->
    (* cardinalities: '!' exactly one, '?' at most one *)
    (forall (i : nat) (sub : schema), nth_error (ssubs s) i = Some sub ->
        card_ok (scard sub) (refcnt (ssubs s) (S lvl) kids i)) ->
    Conforms bnm s lvl (Elem n attrs line kids).

(* a document conforms when its root, seen through include-splicing, conforms to the root row at depth 0 *)
Definition ConformsDoc (bnm : bool) (s : schema) (root : dom) : Prop := Conforms bnm s 0 (splice_root root).

(* the meaning of the schema: every element validated by a row (by name or as an alias tag of the
   body row: worldbody, frame, replicate) satisfies it *)
Definition ConformsFull : schema -> dom -> Prop := ConformsDoc true.
(* the weaker meaning: the same, except that children of an 'R' row carrying an alias tag (frame,
   replicate) are left unconstrained, together with everything below them *)
Definition ConformsOutsideAliases : schema -> dom -> Prop := ConformsDoc false.
