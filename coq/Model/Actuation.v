(* Model of mj_fwdActuation (engine_forward.c) for actuators without delay: single-input
   single-output actuators with dyntype none/integrator/filter/filterexact/muscle, gaintype
   fixed/affine/muscle, biastype none/affine/muscle and non-periodic transmission (wrapPeriod = 0),
   and stateless SO3 orientation servos (gaintype so3: 3 or 4 controls, 3 force outputs); and of the
   muscle functions of engine_util_misc.c; generic over Lib/Num.  Definitions only.
   Three index spaces are kept apart: actuator index (position in the actuator list: parameters,
   forcerange), control index (ctrl, ctrlrange: nu entries, addressed through a_ctrladr) and output
   index (actuator_length/velocity/force, moment rows: nout entries, addressed through a_outadr).
   The transmission (actuator_length, actuator_velocity, actuator_moment) is an input. *)
From Coq Require Import ZArith List Bool.
From MJV Require Import Lib.Num Model.Spatial.
Import ListNotations.

Section Act.
Context {T : Type} `{NumT T}.
Local Open Scope num_scope.

(* ---- engine_util_misc.c helpers *)
Definition clip (x lo hi : T) : T := if x <? lo then lo else if hi <? x then hi else x.   (* mju_clip *)
Definition fmax (a b : T) : T := if b <=? a then a else b.                               (* mju_max *)
Definition mMAX (a b : T) : T := if b <? a then a else b.                                (* mjMAX macro *)
Definition MINVAL : T := ndec 1 (-15).
Definition MAXVAL : T := ndec 1 10.
Definition isBad (x : T) : bool := negb (x =? x) || (MAXVAL <? x) || (x <? - MAXVAL).    (* mju_isBad *)
Definition half : T := ndec 5 (-1).
Definition c15 : T := ndec 15 (-1).

(* mju_sigmoid *)
Definition sigmoid (x : T) : T :=
  if x <=? nzero then nzero else if none <=? x then none
  else x * x * x * (nofZ 3 * x * (nofZ 2 * x - nofZ 5) + nofZ 10).

(* mju_muscleGainLength *)
Definition muscleGainLength (len lmin lmax : T) : T :=
  if (lmin <=? len) && (len <=? lmax) then
    let a := half * (lmin + none) in
    let b := half * (none + lmax) in
    if len <=? a then let x := (len - lmin) / mMAX MINVAL (a - lmin) in half * x * x
    else if len <=? none then let x := (none - len) / mMAX MINVAL (none - a) in none - half * x * x
    else if len <=? b then let x := (len - none) / mMAX MINVAL (b - none) in none - half * x * x
    else let x := (lmax - len) / mMAX MINVAL (lmax - b) in half * x * x
  else nzero.

(* muscle parameters prm[0..8] = (range0, range1, force, scale, lmin, lmax, vmax, fpmax, fvmax) *)
Definition p (prm : list T) (i : nat) : T := nth i prm nzero.

Definition muscleForce (prm : list T) (acc0 : T) : T :=
  if p prm 2 <? nzero then p prm 3 / mMAX MINVAL acc0 else p prm 2.
Definition muscleL0 (prm : list T) (lr : T * T) : T := (snd lr - fst lr) / mMAX MINVAL (p prm 1 - p prm 0).
Definition muscleL (prm : list T) (lr : T * T) (len : T) : T :=
  p prm 0 + (len - fst lr) / mMAX MINVAL (muscleL0 prm lr).

(* velocity curve of mju_muscleGain *)
Definition muscleFV (V fvmax : T) : T :=
  let y := fvmax - none in
  if V <=? - none then nzero
  else if V <=? nzero then (V + none) * (V + none)
  else if V <=? y then fvmax - (y - V) * (y - V) / mMAX MINVAL y
  else fvmax.

(* mju_muscleGain(len, vel, lengthrange, acc0, prm) *)
Definition muscleGain (len vel : T) (lr : T * T) (acc0 : T) (prm : list T) : T :=
  let force := muscleForce prm acc0 in
  let L0 := muscleL0 prm lr in
  let L := muscleL prm lr len in
  let V := vel / mMAX MINVAL (L0 * p prm 6) in
  let FL := muscleGainLength L (p prm 4) (p prm 5) in
  let FV := muscleFV V (p prm 8) in
  - force * FL * FV.

(* mju_muscleBias(len, lengthrange, acc0, prm) *)
Definition muscleBias (len : T) (lr : T * T) (acc0 : T) (prm : list T) : T :=
  let force := muscleForce prm acc0 in
  let L := muscleL prm lr len in
  let fpmax := p prm 7 in
  let b := half * (none + p prm 5) in
  if L <=? none then nzero
  else if L <=? b then let x := (L - none) / mMAX MINVAL (b - none) in - force * fpmax * half * x * x
  else let x := (L - b) / mMAX MINVAL (b - none) in - force * fpmax * (half + x).

(* mju_muscleDynamicsTimescale *)
Definition muscleTimescale (dctrl tau_act tau_deact width : T) : T :=
  if width <? MINVAL then (if nzero <? dctrl then tau_act else tau_deact)
  else tau_deact + (tau_act - tau_deact) * sigmoid (dctrl / width + half).

(* mju_muscleDynamics(ctrl, act, prm[3]) *)
Definition muscleDynamics (ctrl act : T) (prm : T * T * T) : T :=
  let '(p0, p1, p2) := prm in
  let ctrlclamp := clip ctrl nzero none in
  let actclamp := clip act nzero none in
  let tau_act := p0 * (half + c15 * actclamp) in
  let tau_deact := p1 / (half + c15 * actclamp) in
  let dctrl := ctrlclamp - act in
  dctrl / mMAX MINVAL (muscleTimescale dctrl tau_act tau_deact p2).

(* ---- one actuator *)
Record Actuator := mkActuator {
  a_dyntype : Z;              (* 0 none, 1 integrator, 2 filter, 3 filterexact, 4 muscle *)
  a_gaintype : Z;             (* 0 fixed, 1 affine, 2 muscle, 4 so3 *)
  a_biastype : Z;             (* 0 none, 1 affine, 2 muscle *)
  a_dynprm : T * T * T;
  a_gainprm : list T;
  a_biasprm : list T;
  a_forcelimited : bool; a_forcerange : T * T;
  a_actlimited : bool; a_actrange : T * T;
  a_actearly : bool;
  a_group : Z;
  a_actnum : Z;               (* 0 or 1 *)
  a_lengthrange : T * T;
  a_acc0 : T;
  a_tendon : Z;               (* tendon id for tendon transmission, -1 otherwise *)
  a_ctrladr : Z;              (* first control of the actuator in ctrl *)
  a_ctrlspec : Z;             (* so3: 1 exponential-map target (3 controls), 2 quaternion target (4 controls) *)
  a_outadr : Z;               (* first output of the actuator in actuator_length/velocity/force *)
  a_outnum : Z                (* number of outputs: 1, or 3 for so3 *)
}.

(* mj_actuatorDisabled: group in 0..30 and its bit set in opt.disableactuator *)
Definition actuatorDisabled (mask : Z) (group : Z) : bool :=
  if ((group <? 0) || (30 <? group))%Z then false else Z.testbit mask group.

(* ---- arrays addressed by Z *)
Definition rdz (l : list T) (i : Z) : T := if (i <? 0)%Z then nzero else nth (Z.to_nat i) l nzero.
Fixpoint upd_nat (a : list T) (n : nat) (v : T) : list T :=
  match a, n with
  | nil, _ => nil
  | _ :: r, O => v :: r
  | x :: r, S k => x :: upd_nat r k v
  end.
Definition updz (a : list T) (i : Z) (v : T) : list T := if (i <? 0)%Z then a else upd_nat a (Z.to_nat i) v.
Fixpoint write_block (f : list T) (adr : Z) (blk : list T) : list T :=
  match blk with nil => f | x :: r => write_block (updz f adr x) (adr + 1)%Z r end.

(* control index space: clampVec(ctrl, actuator_ctrlrange, actuator_ctrllimited, nu) unless mjDSBL_CLAMPCTRL;
   lim = (ctrllimited, lo, hi) of ONE control *)
Definition clamp_ctrl (noclamp : bool) (lim : bool * T * T) (u : T) : T :=
  let '(limited, lo, hi) := lim in
  if noclamp then u else if limited then clip u lo hi else u.

(* the local ctrl vector: clamp, then zero everything if any entry is bad *)
Definition ctrl_vector (noclamp : bool) (lims : list (bool * T * T)) (ctrl : list T) : list T :=
  let c := map (fun lu => clamp_ctrl noclamp (fst lu) (snd lu)) (combine lims ctrl) in
  if existsb isBad c then map (fun _ => nzero) c else c.

(* act_dot of a stateful actuator *)
Definition act_dot (a : Actuator) (u act : T) : T :=
  if (a_dyntype a =? 1)%Z then u
  else if ((a_dyntype a =? 2) || (a_dyntype a =? 3))%Z
       then let '(d0, _, _) := a_dynprm a in (u - act) / fmax MINVAL d0
  else if (a_dyntype a =? 4)%Z then muscleDynamics u act (a_dynprm a)
  else nzero.

(* mj_nextActivation for dyntypes 0..4 *)
Definition nextActivation (a : Actuator) (h act adot : T) : T :=
  let v := if (a_dyntype a =? 3)%Z
           then let '(d0, _, _) := a_dynprm a in let t := fmax MINVAL d0 in
                act + adot * t * (none - nexp (- h / t))
           else act + adot * h in
  if a_actlimited a then clip v (fst (a_actrange a)) (snd (a_actrange a)) else v.

Definition gain (a : Actuator) (len vel : T) : T :=
  if (a_gaintype a =? 0)%Z then p (a_gainprm a) 0
  else if (a_gaintype a =? 1)%Z then p (a_gainprm a) 0 + p (a_gainprm a) 1 * len + p (a_gainprm a) 2 * vel
  else muscleGain len vel (a_lengthrange a) (a_acc0 a) (a_gainprm a).

Definition bias (a : Actuator) (len vel : T) : T :=
  if (a_biastype a =? 0)%Z then nzero
  else if (a_biastype a =? 1)%Z then p (a_biasprm a) 0 + p (a_biasprm a) 1 * len + p (a_biasprm a) 2 * vel
  else muscleBias len (a_lengthrange a) (a_acc0 a) (a_biasprm a).

(* the input multiplied by the gain: ctrl for stateless actuators, else the (next) activation *)
Definition act_input (a : Actuator) (h u act adot : T) : T :=
  if (a_actnum a =? 0)%Z then u
  else if a_actearly a then nextActivation a h act adot else act.

(* force before the range clamps: gain * input + bias; 0 for a disabled actuator *)
Definition raw_force (mask : Z) (a : Actuator) (h u act len vel : T) : T :=
  if actuatorDisabled mask (a_group a) then nzero
  else gain a len vel * act_input a h u act (act_dot a u act) + bias a len vel.

(* ---- SO3 geodesic servo (dyntype none) *)
Definition expmap2Quat (v : vec3 T) : quat T :=
  let angle := norm3 v in
  if angle <? MINVAL then quatId
  else let '(v0, v1, v2) := v in axisAngle2Quat (v0 / angle, v1 / angle, v2 / angle) angle.
Definition vec3_at (l : list T) (adr : Z) : vec3 T := (rdz l adr, rdz l (adr + 1)%Z, rdz l (adr + 2)%Z).
Definition so3_target (a : Actuator) (ctrl : list T) : quat T :=
  let c := a_ctrladr a in
  if (a_ctrlspec a =? 2)%Z
  then fst (normalize4 (rdz ctrl c, rdz ctrl (c + 1)%Z, rdz ctrl (c + 2)%Z, rdz ctrl (c + 3)%Z))
  else expmap2Quat (vec3_at ctrl c).
Definition so3_block (mask : Z) (a : Actuator) (ctrl len vel : list T) : list T :=
  if actuatorDisabled mask (a_group a) then [nzero; nzero; nzero]
  else
    let '(e0, e1, e2) := subQuat (so3_target a ctrl) (expmap2Quat (vec3_at len (a_outadr a))) in
    let kp := p (a_gainprm a) 0 in let b0 := p (a_biasprm a) 0 in let b2 := p (a_biasprm a) 2 in
    let o := a_outadr a in
    [kp * e0 + b0 + b2 * rdz vel o; kp * e1 + b0 + b2 * rdz vel (o + 1)%Z; kp * e2 + b0 + b2 * rdz vel (o + 2)%Z].

(* ---- stage 1: output block of every actuator, written at its output address.
        acts_act = (actuator, last activation variable or 0) in actuator order;
        ctrl is the clamped control vector (control index), len / vel are indexed by output *)
Definition is_so3 (a : Actuator) : bool := (a_gaintype a =? 4)%Z.
Definition out_block (mask : Z) (h : T) (ctrl len vel : list T) (x : Actuator * T) : list T :=
  let '(a, act) := x in
  if is_so3 a then so3_block mask a ctrl len vel
  else [raw_force mask a h (rdz ctrl (a_ctrladr a)) act (rdz len (a_outadr a)) (rdz vel (a_outadr a))].
Definition stage_raw (mask : Z) (h : T) (nout : nat) (ctrl len vel : list T) (acts_act : list (Actuator * T)) : list T :=
  fold_left (fun f x => write_block f (a_outadr (fst x)) (out_block mask h ctrl len vel x)) acts_act (repeat nzero nout).

(* ---- stage 2: tendon total-force limit; tendons = list of (actfrclimited, lo, hi) by tendon id *)
Definition tendon_total (acts : list Actuator) (f : list T) (t : Z) : T :=
  fold_left (fun s a => if (a_tendon a =? t)%Z then s + rdz f (a_outadr a) else s) acts nzero.

Definition tendon_scale (tendons : list (bool * T * T)) (acts : list Actuator) (f : list T) (a : Actuator) (fa : T) : T :=
  if (a_tendon a <? 0)%Z then fa
  else let '(lim, lo, hi) := nth (Z.to_nat (a_tendon a)) tendons (false, nzero, nzero) in
       let tot := tendon_total acts f (a_tendon a) in
       if lim && negb (tot =? nzero)
       then (if tot <? lo then fa * (lo / tot) else if hi <? tot then fa * (hi / tot) else fa)
       else fa.
(* totals are computed once from the stage-1 forces f0 *)
Definition stage_tendon (tendons : list (bool * T * T)) (acts : list Actuator) (f0 : list T) : list T :=
  fold_left (fun f a => if (a_tendon a <? 0)%Z then f
                        else updz f (a_outadr a) (tendon_scale tendons acts f0 a (rdz f (a_outadr a)))) acts f0.

(* ---- stage 3: forcerange clamp.  The range is a parameter of the ACTUATOR (a_forcerange, actuator
        index), the clamped entries are the actuator's OUTPUT block [a_outadr, a_outadr + a_outnum).
        Actuators without forcelimited and actuators of a disabled group are skipped. *)
Fixpoint clip_block (f : list T) (adr : Z) (n : nat) (lo hi : T) : list T :=
  match n with O => f | S k => clip_block (updz f adr (clip (rdz f adr) lo hi)) (adr + 1)%Z k lo hi end.
Definition clamp_block (mask : Z) (f : list T) (a : Actuator) : list T :=
  if a_forcelimited a && negb (actuatorDisabled mask (a_group a)) then
    if is_so3 a then
      let o := a_outadr a in
      let nrm := norm3 (vec3_at f o) in
      if snd (a_forcerange a) <? nrm
      then let s := snd (a_forcerange a) / nrm in
           updz (updz (updz f o (rdz f o * s)) (o + 1)%Z (rdz f (o + 1)%Z * s)) (o + 2)%Z (rdz f (o + 2)%Z * s)
      else f
    else clip_block f (a_outadr a) (Z.to_nat (a_outnum a)) (fst (a_forcerange a)) (snd (a_forcerange a))
  else f.
Definition stage_clamp (mask : Z) (acts : list Actuator) (f : list T) : list T := fold_left (clamp_block mask) acts f.

(* actuator_force (output index space) *)
Definition actuator_forces (mask : Z) (h : T) (nout : nat) (tendons : list (bool * T * T))
           (ctrl len vel : list T) (acts_act : list (Actuator * T)) : list T :=
  let acts := map fst acts_act in
  stage_clamp mask acts (stage_tendon tendons acts (stage_raw mask h nout ctrl len vel acts_act)).

(* ---- transmission: qfrc = moment^T force, moment given as one row (length nv) per actuator *)
Definition vadd (a b : list T) : list T := map (fun xy => fst xy + snd xy) (combine a b).
Definition vscl (c : T) (a : list T) : list T := map (fun x => x * c) a.
Definition zeros (n : nat) : list T := repeat nzero n.
Definition mulMatTVec (nv : nat) (moment : list (list T)) (f : list T) : list T :=
  fold_left (fun q rf => vadd q (vscl (snd rf) (fst rf))) (combine moment f) (zeros nv).

(* per-dof post-processing: add qfrc_gravcomp on dofs of joints with actgravcomp, then clamp the dof
   addressed by jnt_dofadr of joints with actfrclimited; dofs = list of (gravcomp_add, limited, lo, hi) *)
Definition dof_post (d : option T * bool * T * T) (q : T) : T :=
  let '(g, lim, lo, hi) := d in
  let q1 := match g with Some gv => q + gv | None => q end in
  if lim then clip q1 lo hi else q1.

Definition qfrc_actuator (nv : nat) (moment : list (list T)) (f : list T) (dofs : list (option T * bool * T * T)) : list T :=
  map (fun dq => dof_post (fst dq) (snd dq)) (combine dofs (mulMatTVec nv moment f)).

(* act_dot of every actuator with one activation variable (others: 0), in actuator order *)
Definition act_dots (ctrl : list T) (acts_act : list (Actuator * T)) : list T :=
  map (fun x : Actuator * T => let '(a, act) := x in
         if (a_actnum a =? 1)%Z then act_dot a (rdz ctrl (a_ctrladr a)) act else nzero) acts_act.

(* ---- mj_fwdActuation: (act_dot per actuator, actuator_force per output, qfrc_actuator per dof);
        with mjDSBL_ACTUATION (or no actuator) everything is zero and the per-dof post-processing is skipped *)
Definition fwd_actuation (actuation_off : bool) (mask : Z) (h : T) (nout nv : nat) (noclamp : bool)
           (lims : list (bool * T * T)) (ctrl len vel : list T) (acts_act : list (Actuator * T))
           (tendons : list (bool * T * T)) (moment : list (list T)) (dofs : list (option T * bool * T * T))
  : list T * list T * list T :=
  if actuation_off then (map (fun _ => nzero) acts_act, repeat nzero nout, repeat nzero nv)
  else
    let c := ctrl_vector noclamp lims ctrl in
    let f := actuator_forces mask h nout tendons c len vel acts_act in
    (act_dots c acts_act, f, qfrc_actuator nv moment f dofs).

(* ---- mj_advance for the activations (Euler integrator): every activation variable goes through
        mj_nextActivation, with act_dot replaced by 0 for an actuator of a disabled group; with
        mjDSBL_ACTUATION the activations are not advanced at all.  One entry per actuator (0 for
        stateless actuators). *)
Definition advance1 (actuation_off : bool) (mask : Z) (h : T) (x : Actuator * T) (adot : T) : T :=
  let '(a, act) := x in
  if (a_actnum a =? 1)%Z
  then (if actuation_off then act
        else nextActivation a h act (if actuatorDisabled mask (a_group a) then nzero else adot))
  else nzero.
Definition advance_acts (actuation_off : bool) (mask : Z) (h : T) (acts_act : list (Actuator * T)) (dots : list T) : list T :=
  map (fun xd => advance1 actuation_off mask h (fst xd) (snd xd)) (combine acts_act dots).

End Act.
