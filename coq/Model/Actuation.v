(* Model of mj_fwdActuation (engine_forward.c) for single-input single-output actuators without
   delay with dyntype none/integrator/filter/filterexact/muscle, gaintype fixed/affine/muscle,
   biastype none/affine/muscle and non-periodic transmission (wrapPeriod = 0), and of the muscle
   functions of engine_util_misc.c; generic over Lib/Num.  Definitions only.  The transmission
   (actuator_length, actuator_velocity, actuator_moment) is an input. *)
From Coq Require Import ZArith List Bool.
From MJV Require Import Lib.Num.
Import ListNotations.

Section Act.
Context {T : Type} `{NumT T}.
Local Open Scope num_scope.

(* ---- engine_util_misc.c helpers *)
Definition clip (x lo hi : T) : T := if x <? lo then lo else if hi <? x then hi else x.   (* mju_clip *)
Definition fmax (a b : T) : T := if b <=? a then a else b.                               (* mju_max *)
Definition mMAX (a b : T) : T := if b <? a then a else b.                                (* mjMAX macro *)
Definition MINVAL : T := ndec 1 (-15).
Definition MAXVAL : T := ndec 1 10.
Definition isBad (x : T) : bool := negb (x =? x) || (MAXVAL <? x) || (x <? - MAXVAL).    (* mju_isBad *)
Definition half : T := ndec 5 (-1).
Definition c15 : T := ndec 15 (-1).

(* mju_sigmoid *)
Definition sigmoid (x : T) : T :=
  if x <=? nzero then nzero else if none <=? x then none
  else x * x * x * (nofZ 3 * x * (nofZ 2 * x - nofZ 5) + nofZ 10).

(* mju_muscleGainLength *)
Definition muscleGainLength (len lmin lmax : T) : T :=
  if (lmin <=? len) && (len <=? lmax) then
    let a := half * (lmin + none) in
    let b := half * (none + lmax) in
    if len <=? a then let x := (len - lmin) / mMAX MINVAL (a - lmin) in half * x * x
    else if len <=? none then let x := (none - len) / mMAX MINVAL (none - a) in none - half * x * x
    else if len <=? b then let x := (len - none) / mMAX MINVAL (b - none) in none - half * x * x
    else let x := (lmax - len) / mMAX MINVAL (lmax - b) in half * x * x
  else nzero.

(* muscle parameters prm[0..8] = (range0, range1, force, scale, lmin, lmax, vmax, fpmax, fvmax) *)
Definition p (prm : list T) (i : nat) : T := nth i prm nzero.

Definition muscleForce (prm : list T) (acc0 : T) : T :=
  if p prm 2 <? nzero then p prm 3 / mMAX MINVAL acc0 else p prm 2.
Definition muscleL0 (prm : list T) (lr : T * T) : T := (snd lr - fst lr) / mMAX MINVAL (p prm 1 - p prm 0).
Definition muscleL (prm : list T) (lr : T * T) (len : T) : T :=
  p prm 0 + (len - fst lr) / mMAX MINVAL (muscleL0 prm lr).

(* velocity curve of mju_muscleGain *)
Definition muscleFV (V fvmax : T) : T :=
  let y := fvmax - none in
  if V <=? - none then nzero
  else if V <=? nzero then (V + none) * (V + none)
  else if V <=? y then fvmax - (y - V) * (y - V) / mMAX MINVAL y
  else fvmax.

(* mju_muscleGain(len, vel, lengthrange, acc0, prm) *)
Definition muscleGain (len vel : T) (lr : T * T) (acc0 : T) (prm : list T) : T :=
  let force := muscleForce prm acc0 in
  let L0 := muscleL0 prm lr in
  let L := muscleL prm lr len in
  let V := vel / mMAX MINVAL (L0 * p prm 6) in
  let FL := muscleGainLength L (p prm 4) (p prm 5) in
  let FV := muscleFV V (p prm 8) in
  - force * FL * FV.

(* mju_muscleBias(len, lengthrange, acc0, prm) *)
Definition muscleBias (len : T) (lr : T * T) (acc0 : T) (prm : list T) : T :=
  let force := muscleForce prm acc0 in
  let L := muscleL prm lr len in
  let fpmax := p prm 7 in
  let b := half * (none + p prm 5) in
  if L <=? none then nzero
  else if L <=? b then let x := (L - none) / mMAX MINVAL (b - none) in - force * fpmax * half * x * x
  else let x := (L - b) / mMAX MINVAL (b - none) in - force * fpmax * (half + x).

(* mju_muscleDynamicsTimescale *)
Definition muscleTimescale (dctrl tau_act tau_deact width : T) : T :=
  if width <? MINVAL then (if nzero <? dctrl then tau_act else tau_deact)
  else tau_deact + (tau_act - tau_deact) * sigmoid (dctrl / width + half).

(* mju_muscleDynamics(ctrl, act, prm[3]) *)
Definition muscleDynamics (ctrl act : T) (prm : T * T * T) : T :=
  let '(p0, p1, p2) := prm in
  let ctrlclamp := clip ctrl nzero none in
  let actclamp := clip act nzero none in
  let tau_act := p0 * (half + c15 * actclamp) in
  let tau_deact := p1 / (half + c15 * actclamp) in
  let dctrl := ctrlclamp - act in
  dctrl / mMAX MINVAL (muscleTimescale dctrl tau_act tau_deact p2).

(* ---- one actuator *)
Record Actuator := mkActuator {
  a_dyntype : Z;              (* 0 none, 1 integrator, 2 filter, 3 filterexact, 4 muscle *)
  a_gaintype : Z;             (* 0 fixed, 1 affine, 2 muscle *)
  a_biastype : Z;             (* 0 none, 1 affine, 2 muscle *)
  a_dynprm : T * T * T;
  a_gainprm : list T;
  a_biasprm : list T;
  a_ctrllimited : bool; a_ctrlrange : T * T;
  a_forcelimited : bool; a_forcerange : T * T;
  a_actlimited : bool; a_actrange : T * T;
  a_actearly : bool;
  a_group : Z;
  a_actnum : Z;               (* 0 or 1 *)
  a_lengthrange : T * T;
  a_acc0 : T;
  a_tendon : Z                (* tendon id for tendon transmission, -1 otherwise *)
}.

(* mj_actuatorDisabled: group in 0..30 and its bit set in opt.disableactuator *)
Definition actuatorDisabled (mask : Z) (group : Z) : bool :=
  if ((group <? 0) || (30 <? group))%Z then false else Z.testbit mask group.

(* control seen by the actuator: clampVec unless mjDSBL_CLAMPCTRL *)
Definition clamp_ctrl (noclamp : bool) (a : Actuator) (u : T) : T :=
  if noclamp then u else if a_ctrllimited a then clip u (fst (a_ctrlrange a)) (snd (a_ctrlrange a)) else u.

(* the local ctrl vector: clamp, then zero everything if any entry is bad *)
Definition ctrl_vector (noclamp : bool) (acts : list Actuator) (ctrl : list T) : list T :=
  let c := map (fun au => clamp_ctrl noclamp (fst au) (snd au)) (combine acts ctrl) in
  if existsb isBad c then map (fun _ => nzero) c else c.

(* act_dot of a stateful actuator *)
Definition act_dot (a : Actuator) (u act : T) : T :=
  if (a_dyntype a =? 1)%Z then u
  else if ((a_dyntype a =? 2) || (a_dyntype a =? 3))%Z
       then let '(d0, _, _) := a_dynprm a in (u - act) / fmax MINVAL d0
  else if (a_dyntype a =? 4)%Z then muscleDynamics u act (a_dynprm a)
  else nzero.

(* mj_nextActivation for dyntypes 0..4 *)
Definition nextActivation (a : Actuator) (h act adot : T) : T :=
  let v := if (a_dyntype a =? 3)%Z
           then let '(d0, _, _) := a_dynprm a in let t := fmax MINVAL d0 in
                act + adot * t * (none - nexp (- h / t))
           else act + adot * h in
  if a_actlimited a then clip v (fst (a_actrange a)) (snd (a_actrange a)) else v.

Definition gain (a : Actuator) (len vel : T) : T :=
  if (a_gaintype a =? 0)%Z then p (a_gainprm a) 0
  else if (a_gaintype a =? 1)%Z then p (a_gainprm a) 0 + p (a_gainprm a) 1 * len + p (a_gainprm a) 2 * vel
  else muscleGain len vel (a_lengthrange a) (a_acc0 a) (a_gainprm a).

Definition bias (a : Actuator) (len vel : T) : T :=
  if (a_biastype a =? 0)%Z then nzero
  else if (a_biastype a =? 1)%Z then p (a_biasprm a) 0 + p (a_biasprm a) 1 * len + p (a_biasprm a) 2 * vel
  else muscleBias len (a_lengthrange a) (a_acc0 a) (a_biasprm a).

(* the input multiplied by the gain: ctrl for stateless actuators, else the (next) activation *)
Definition act_input (a : Actuator) (h u act adot : T) : T :=
  if (a_actnum a =? 0)%Z then u
  else if a_actearly a then nextActivation a h act adot else act.

(* force before the range clamps: gain * input + bias; 0 for a disabled actuator *)
Definition raw_force (mask : Z) (a : Actuator) (h u act len vel : T) : T :=
  if actuatorDisabled mask (a_group a) then nzero
  else gain a len vel * act_input a h u act (act_dot a u act) + bias a len vel.

(* per-actuator record of the pipeline: (actuator, control seen by it, (act, length, velocity)) *)
Definition zipped (acts : list Actuator) (us : list T) (st : list (T * T * T)) : list (Actuator * T * (T * T * T)) :=
  combine (combine acts us) st.
Definition raw1 (mask : Z) (h : T) (x : Actuator * T * (T * T * T)) : T :=
  let '(a, u, (act, len, vel)) := x in raw_force mask a h u act len vel.
Definition raw_forces (mask : Z) (h : T) (acts : list Actuator) (us : list T) (st : list (T * T * T)) : list T :=
  map (raw1 mask h) (zipped acts us st).

(* ---- tendon total-force limit: tendons = list of (actfrclimited, lo, hi) *)
Definition tendon_total (acts : list Actuator) (f : list T) (t : Z) : T :=
  fold_left (fun s af => if (a_tendon (fst af) =? t)%Z then s + snd af else s) (combine acts f) nzero.

Definition tendon_scale (tendons : list (bool * T * T)) (acts : list Actuator) (f : list T) (a : Actuator) (fa : T) : T :=
  if (a_tendon a <? 0)%Z then fa
  else let '(lim, lo, hi) := nth (Z.to_nat (a_tendon a)) tendons (false, nzero, nzero) in
       let tot := tendon_total acts f (a_tendon a) in
       if lim && negb (tot =? nzero)
       then (if tot <? lo then fa * (lo / tot) else if hi <? tot then fa * (hi / tot) else fa)
       else fa.

(* forcerange clamp: actuators without forcelimited and actuators of a disabled group are skipped *)
Definition clamp_force (mask : Z) (a : Actuator) (f : T) : T :=
  if a_forcelimited a && negb (actuatorDisabled mask (a_group a))
  then clip f (fst (a_forcerange a)) (snd (a_forcerange a)) else f.

(* actuator_force of one actuator given the raw forces f0 of all *)
Definition final1 (mask : Z) (h : T) (tendons : list (bool * T * T)) (acts : list Actuator) (f0 : list T)
           (x : Actuator * T * (T * T * T)) : T :=
  clamp_force mask (fst (fst x)) (tendon_scale tendons acts f0 (fst (fst x)) (raw1 mask h x)).

Definition actuator_forces (mask : Z) (h : T) (tendons : list (bool * T * T)) (acts : list Actuator)
           (us : list T) (st : list (T * T * T)) : list T :=
  let f0 := raw_forces mask h acts us st in
  map (final1 mask h tendons acts f0) (zipped acts us st).

(* ---- transmission: qfrc = moment^T force, moment given as one row (length nv) per actuator *)
Definition vadd (a b : list T) : list T := map (fun xy => fst xy + snd xy) (combine a b).
Definition vscl (c : T) (a : list T) : list T := map (fun x => x * c) a.
Definition zeros (n : nat) : list T := repeat nzero n.
Definition mulMatTVec (nv : nat) (moment : list (list T)) (f : list T) : list T :=
  fold_left (fun q rf => vadd q (vscl (snd rf) (fst rf))) (combine moment f) (zeros nv).

(* per-dof post-processing: add qfrc_gravcomp on dofs of joints with actgravcomp, then clamp the dof
   addressed by jnt_dofadr of joints with actfrclimited; dofs = list of (gravcomp_add, limited, lo, hi) *)
Definition dof_post (d : option T * bool * T * T) (q : T) : T :=
  let '(g, lim, lo, hi) := d in
  let q1 := match g with Some gv => q + gv | None => q end in
  if lim then clip q1 lo hi else q1.

Definition qfrc_actuator (nv : nat) (moment : list (list T)) (f : list T) (dofs : list (option T * bool * T * T)) : list T :=
  map (fun dq => dof_post (fst dq) (snd dq)) (combine dofs (mulMatTVec nv moment f)).

(* act_dot of every stateful actuator (stateless: 0) *)
Definition act_dots (acts : list Actuator) (us : list T) (st : list (T * T * T)) : list T :=
  map (fun x => let '(a, u, (act, _, _)) := x in if (a_actnum a =? 0)%Z then nzero else act_dot a u act)
      (combine (combine acts us) st).

End Act.
