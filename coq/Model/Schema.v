(* C37 — model of mjXSchema (src/xml/xml_util.cc): the table-driven MJCF validator.

   Definitions only, executable.

   * [schema]  = the tree that the mjXSchema constructor builds from the MJCF[] rows
                 (name_, type_, attr_, constraints_ of the row, subschema_).
   * [dom]     = the element tree of a parsed document: only elements are visible to mjXSchema
                 (it walks FirstChildElement / NextSiblingElement), attribute VALUES are not (only
                 their names, via FirstAttribute()/Next() and Attribute(name) != nullptr).
   * [splice]  = the file-local FirstChildElement/NextSiblingElement of xml_util.cc: an element
                 named "include" is transparent, its children take its place (recursively).
   * [check]   = mjXSchema::Check(elem, level): first error in the code's traversal order, or None.
                 The code's refcnt_ bookkeeping is modelled after the child loop (the loop returns at
                 its first error, before any count is read, so counting afterwards is the same):
                 refcnt_ of sub-row i = number of children whose FIRST name-matching row is i.
   * [rec_by_namematch] flag: which children the 'R' recursion loop descends into.
        false: FirstChildElement(elem, name_) — children literally named like the row;
        true : every child with NameMatch(child, level+1) — also the alias tags of the body row
               (frame, replicate).  The translator reads the variant present in the tree. *)
From Coq Require Import String List Bool ZArith Arith.
Import ListNotations.
Open Scope string_scope.

Inductive card := COne | COpt | CMany | CRec | COther.      (* '!' '?' '*' 'R' anything else *)
Inductive ckind := KExcl | KTogether | KRequires | KOneof | KOther.   (* 'e' 't' 'r' 'o' *)

Record constraint := mkCon { ckd : ckind; cbundles : list (list string) }.

Inductive schema := Sch : string -> card -> list string -> list constraint -> list schema -> schema.
Definition sname (s : schema) := match s with Sch n _ _ _ _ => n end.
Definition scard (s : schema) := match s with Sch _ c _ _ _ => c end.
Definition sattrs (s : schema) := match s with Sch _ _ a _ _ => a end.
Definition scons (s : schema) := match s with Sch _ _ _ c _ => c end.
Definition ssubs (s : schema) := match s with Sch _ _ _ _ l => l end.

Inductive dom := Elem : string -> list string -> Z -> list dom -> dom.
Definition dname (d : dom) := match d with Elem n _ _ _ => n end.
Definition dattrs (d : dom) := match d with Elem _ a _ _ => a end.
Definition dline (d : dom) := match d with Elem _ _ l _ => l end.
Definition dkids (d : dom) := match d with Elem _ _ _ k => k end.

(* error classes of mjXSchema::Check; the string is the attribute / child name in the message *)
Inductive ekind :=
| EUnrecElem                  (* "unrecognized element" *)
| EUnrecAttr (a : string)     (* "unrecognized attribute: 'a'" *)
| ECon (k : ckind)            (* presence constraint of kind k violated *)
| EDup (child : string)       (* "unique element 'child' found n times" *)
| EMissing (child : string).  (* "element 'child' is required" *)
Record err := mkErr { ek : ekind; eelem : string; eline : Z }.

(* ---- generic first-error loop (Section variable so that nested recursion through it is guarded) *)
Section FirstSome.
  Variables (A E : Type) (f : A -> option E).
  Fixpoint first_some (l : list A) : option E :=
    match l with
    | [] => None
    | x :: r => match f x with Some e => Some e | None => first_some r end
    end.
End FirstSome.
Arguments first_some {A E} f l.

Definition mem (a : string) (l : list string) : bool := existsb (String.eqb a) l.

(* ---- include splicing *)
Fixpoint splice (d : dom) : list dom :=
  match d with
  | Elem n a l ks =>
      let ks' := flat_map splice ks in
      if n =? "include" then ks' else [Elem n a l ks']
  end.
(* the root itself is handed to Check as it is; only what is below it is seen through the helpers *)
Definition splice_root (d : dom) : dom :=
  match d with Elem n a l ks => Elem n a l (flat_map splice ks) end.

(* ---- mjXSchema::NameMatch *)
Definition name_match (sn : string) (lvl : nat) (n : string) : bool :=
  ((sn =? "body") &&
   (((lvl =? 1)%nat && (n =? "worldbody")) ||
    (negb (lvl =? 1)%nat && (n =? "body")) ||
    ((1 <=? lvl)%nat && (n =? "frame")) ||
    ((1 <=? lvl)%nat && (n =? "replicate"))))
  || (sn =? n).

(* ---- mjXSchema::CheckConstraints *)
Definition present (attrs : list string) (a : string) : bool := mem a attrs.
Definition bundle_any (attrs : list string) (b : list string) : bool := existsb (present attrs) b.
Definition bundle_all (attrs : list string) (b : list string) : bool := forallb (present attrs) b.
Definition n_any (attrs : list string) (bs : list (list string)) : nat := length (filter (bundle_any attrs) bs).
Definition n_all (attrs : list string) (bs : list (list string)) : nat := length (filter (bundle_all attrs) bs).
Definition n_attr (bs : list (list string)) : nat := length (concat bs).
Definition n_present (attrs : list string) (bs : list (list string)) : nat := length (filter (present attrs) (concat bs)).
Definition head_of (bs : list (list string)) (i : nat) : string := hd "" (nth i bs []).

Definition con_violated (attrs : list string) (c : constraint) : bool :=
  let bs := cbundles c in
  match ckd c with
  | KExcl => (1 <? n_any attrs bs)%nat
  | KTogether => negb (n_present attrs bs =? 0)%nat && negb (n_present attrs bs =? n_attr bs)%nat
  | KRequires => negb (n_any attrs bs =? 0)%nat && present attrs (head_of bs 0) && negb (present attrs (head_of bs 1))
  | KOneof => (n_all attrs bs =? 0)%nat
  | KOther => false
  end.

Definition check_constraints (cons : list constraint) (attrs : list string) : option ckind :=
  first_some (fun c => if con_violated attrs c then Some (ckd c) else None) cons.

(* ---- the row that governs a child: first sub-row whose name matches (index and row) *)
Fixpoint find_sub (subs : list schema) (lvl : nat) (n : string) (i : nat) : option (nat * schema) :=
  match subs with
  | [] => None
  | s :: r => if name_match (sname s) lvl n then Some (i, s) else find_sub r lvl n (S i)
  end.
Definition governs (subs : list schema) (lvl : nat) (n : string) : option (nat * schema) := find_sub subs lvl n 0.

Definition governed_by (subs : list schema) (lvl : nat) (i : nat) (k : dom) : bool :=
  match governs subs lvl (dname k) with Some (j, _) => (j =? i)%nat | None => false end.
Definition refcnt (subs : list schema) (lvl : nat) (kids : list dom) (i : nat) : nat :=
  length (filter (governed_by subs lvl i) kids).

(* "enforce sub-element types": the message of the LAST offending row survives (msg is overwritten) *)
Definition card_violation (c : card) (nm : string) (cnt : nat) : option ekind :=
  match c with
  | COne => if (1 <? cnt)%nat then Some (EDup nm) else if (cnt <? 1)%nat then Some (EMissing nm) else None
  | COpt => if (1 <? cnt)%nat then Some (EDup nm) else None
  | _ => None
  end.
Fixpoint card_scan (allsubs subs : list schema) (lvl : nat) (kids : list dom) (i : nat) (acc : option ekind) : option ekind :=
  match subs with
  | [] => acc
  | s :: r =>
      let acc' := match card_violation (scard s) (sname s) (refcnt allsubs lvl kids i) with
                  | Some e => Some e | None => acc end in
      card_scan allsubs r lvl kids (S i) acc'
  end.

Definition is_rec (c : card) : bool := match c with CRec => true | _ => false end.

(* which children the recursion loop of an 'R' row descends into *)
Definition rec_pred (by_namematch : bool) (sn : string) (lvl : nat) (n : string) : bool :=
  if by_namematch then name_match sn lvl n else (n =? sn).

(* ---- mjXSchema::Check *)
Fixpoint check (bnm : bool) (s : schema) (lvl : nat) (e : dom) {struct e} : option err :=
  match e with
  | Elem n attrs line kids =>
      if negb (name_match (sname s) lvl n) then Some (mkErr EUnrecElem n line) else
      match find (fun a => negb (mem a (sattrs s))) attrs with
      | Some a => Some (mkErr (EUnrecAttr a) n line)
      | None =>
      match check_constraints (scons s) attrs with
      | Some k => Some (mkErr (ECon k) n line)
      | None =>
      match (if is_rec (scard s)
             then first_some (fun k => if rec_pred bnm (sname s) (S lvl) (dname k) then check bnm s (S lvl) k else None) kids
             else None) with
      | Some x => Some x
      | None =>
      match first_some (fun k =>
                match governs (ssubs s) (S lvl) (dname k) with
                | Some (_, sub) => check bnm sub (S lvl) k
                | None => if is_rec (scard s) && name_match (sname s) (S lvl) (dname k) then None
                          else Some (mkErr EUnrecElem (dname k) (dline k))
                end) kids with
      | Some x => Some x
      | None =>
      match card_scan (ssubs s) (ssubs s) (S lvl) kids 0 None with
      | Some ekd => Some (mkErr ekd n line)
      | None => None
      end end end end end
  end.

(* what mjXReader::Parse does with a parsed document: schema.Check(root, 0) *)
Definition check_doc (bnm : bool) (s : schema) (root : dom) : option err := check bnm s 0 (splice_root root).

(* ---- well-formedness of a table (decidable; run on the regenerated table) *)
Fixpoint nodup_names (l : list string) : bool :=
  match l with [] => true | x :: r => negb (mem x r) && nodup_names r end.
(* no two sibling rows with the same name, no sibling row named like its 'R' parent (recursion only
   through 'R'), attribute lists without duplicates, cardinalities and constraint kinds known *)
Fixpoint wf_schema (s : schema) : bool :=
  match s with
  | Sch n c attrs cns subs =>
      nodup_names (map sname subs) && negb (mem n (map sname subs)) && nodup_names attrs &&
      match c with COther => false | _ => true end &&
      forallb (fun k => match ckd k with KOther => false | _ => true end) cns &&
      forallb (fun k => forallb (fun b => match b with [] => false | _ => true end) (cbundles k) &&
                        match ckd k with KRequires => (2 <=? length (cbundles k))%nat | _ => true end &&
                        forallb (fun a => mem a attrs) (concat (cbundles k))) cns &&
      forallb wf_schema subs
  end.
(* a row name occurs below itself only via its own 'R' recursion: no proper descendant row carries
   an ancestor's name unless that ancestor is the 'R' row itself... stated simply: along every path of
   rows the names are pairwise distinct *)
Fixpoint path_distinct (anc : list string) (s : schema) : bool :=
  match s with
  | Sch n _ _ _ subs => negb (mem n anc) && forallb (path_distinct (n :: anc)) subs
  end.

Fixpoint schema_size (s : schema) : nat :=
  match s with Sch _ _ _ _ subs => S (fold_right (fun x acc => schema_size x + acc) 0 subs) end.

(* ---- equality tests for the correspondence checker *)
Definition ckind_eqb (a b : ckind) : bool :=
  match a, b with KExcl, KExcl | KTogether, KTogether | KRequires, KRequires | KOneof, KOneof | KOther, KOther => true | _, _ => false end.
(* class code: 0 ok, 1 unrecognized element, 2 unrecognized attribute, 3..6 constraint e t r o, 7 duplicate, 8 missing *)
Definition ekind_code (k : ekind) : Z :=
  match k with
  | EUnrecElem => 1 | EUnrecAttr _ => 2
  | ECon KExcl => 3 | ECon KTogether => 4 | ECon KRequires => 5 | ECon KOneof => 6 | ECon KOther => 9
  | EDup _ => 7 | EMissing _ => 8
  end%Z.
Definition ekind_detail (k : ekind) : string :=
  match k with EUnrecAttr a => a | EDup c => c | EMissing c => c | _ => "" end.
(* observed result of the implementation: (code, element name, line, detail) ; code 0 = accepted *)
Definition result_matches (r : option err) (obs : Z * string * Z * string) : bool :=
  match obs with (code, el, ln, det) =>
    match r with
    | None => (code =? 0)%Z
    | Some e => (ekind_code (ek e) =? code)%Z && (eelem e =? el) && (eline e =? ln)%Z && (ekind_detail (ek e) =? det)
    end
  end.
