(* Model of the parts of the derivative code that C25 proves things about:

   1. the velocity-dependent force kernels whose analytic derivative mjd_passive_vel / mjd_actuator_vel
      (src/engine/engine_derivative.c) add to qDeriv: dof damping and tendon damping with the
      polynomial coefficient of mju_polyForce / mjd_xPolyForce (engine_util_misc.c), affine actuator
      gain / bias (engine_forward.c mj_fwdActuation) and the J^T B J accumulation of addJTBJSparse
      (dense here);
   2. the save / perturb / call / restore skeleton of mjd_stepFD (which mjd_transitionFD wraps) and of
      mjd_inverseFD (src/engine/engine_derivative_fd.c) over the state-API model of C26
      (Model/StateAPI.v: mjData = field -> list of values, mj_getState / mj_setState).

   Numeric kernels are written once over Lib/Num (R for the proofs, binary64 for the runs).
   Definitions only. *)
From Coq Require Import ZArith List Bool.
From MJV Require Import Lib.Num Model.StateAPI.
Import ListNotations.

(* ------------------------------------------------------------------ 1. force kernels *)
Section K.
Context {T : Type} `{Num T}.
Local Open Scope num_scope.

(* mju_polyForce(linear, poly, x, n, flg_odd = 1): x = |x|; res = linear; xpow = 1;
   for i: xpow *= x; res += poly[i]*xpow *)
Fixpoint poly_loop (poly : list T) (x xpow res : T) : T :=
  match poly with
  | [] => res
  | p :: r => let xpow' := xpow * x in poly_loop r x xpow' (res + p * xpow')
  end.
Definition polyForce (linear : T) (poly : list T) (x : T) : T := poly_loop poly (nabs x) none linear.

(* mjd_xPolyForce: res += (i+2)*poly[i]*xpow *)
Fixpoint dpoly_loop (poly : list T) (x xpow res : T) (k : Z) : T :=
  match poly with
  | [] => res
  | p :: r => let xpow' := xpow * x in dpoly_loop r x xpow' (res + nofZ k * p * xpow') (k + 1)%Z
  end.
Definition xPolyForce (linear : T) (poly : list T) (x : T) : T := dpoly_loop poly (nabs x) none linear 2%Z.

(* engine_passive.c: qfrc_damper[i] = -v * mju_polyForce(damping, poly, v, mjNPOLY, 1) *)
Definition damper_force (b : T) (poly : list T) (v : T) : T := - v * polyForce b poly v.
(* mjd_passive_vel: qDeriv[diag] -= mjd_xPolyForce(damping, poly, v, mjNPOLY, 1) *)
Definition damper_slope (b : T) (poly : list T) (v : T) : T := - xPolyForce b poly v.

(* a transmission row J (moment arm / tendon Jacobian, dense): scalar velocity J . qvel *)
Definition trn_vel (J qvel : list T) : T := ndot J qvel.
(* generalized force of a scalar force f: J^T f *)
Definition trn_frc (J : list T) (f : T) : list T := map (fun Jk => Jk * f) J.

(* tendon damping: frc = -v * polyForce(damping, poly, v), v = ten_velocity; qfrc = J^T frc *)
Definition tendon_damper_qfrc (J : list T) (b : T) (poly : list T) (qvel : list T) : list T :=
  trn_frc J (damper_force b poly (trn_vel J qvel)).

(* mj_fwdActuation, affine gain and bias: gain = g0 + g1*len + g2*vel, bias = b0 + b1*len + b2*vel,
   force = gain*input + bias (input = ctrl, or the activation) *)
Definition act_force (g b : T * T * T) (input len vel : T) : T :=
  let '(g0, g1, g2) := g in let '(b0, b1, b2) := b in
  (g0 + g1 * len + g2 * vel) * input + (b0 + b1 * len + b2 * vel).
Definition act_qfrc (J : list T) (g b : T * T * T) (input len : T) (qvel : list T) : list T :=
  trn_frc J (act_force g b input len (trn_vel J qvel)).
(* mjd_actuator_vel: bias_vel = biasprm[2]; gain_vel = gainprm[2]; bias_vel += gain_vel * input *)
Definition act_slope (g b : T * T * T) (input : T) : T :=
  let '(g0, g1, g2) := g in let '(b0, b1, b2) := b in b2 + g2 * input.
(* the input of a stateless actuator in mjd_actuator_vel: the control clamped to ctrlrange as the forward pass clamps it
   (limited = actuator_ctrllimited[uadr] && !mjDISABLED(mjDSBL_CLAMPCTRL); limits indexed by control) *)
Definition ctrl_input (limited : bool) (c lo hi : T) : T :=
  if limited then (if c <? lo then lo else if hi <? c then hi else c) else c.
(* skipped when the force sits on its forcerange: force <= range[0] || force >= range[1] *)
Definition act_clamped (limited : bool) (force lo hi : T) : bool :=
  limited && ((force <=? lo) || (hi <=? force)).

(* addJTBJSparse with n = 1, dense: qDeriv(k, p) += (J[k]*B) * J[p] *)
Definition jtbj (J : list T) (B : T) : list (list T) := map (fun Jk => map (fun Jp => (Jk * B) * Jp) J) J.
Definition madd (A B : list (list T)) : list (list T) :=
  map (fun rr => map (fun ab => fst ab + snd ab) (combine (fst rr) (snd rr))) (combine A B).
Definition mzero (n : nat) : list (list T) := repeat (repeat nzero n) n.
Definition mdiag (dg : list T) : list (list T) :=
  map (fun ix => map (fun jy => if Nat.eqb (fst ix) (fst jy) then snd ix else nzero)
                     (combine (seq 0 (length dg)) dg))
      (combine (seq 0 (length dg)) dg).
Definition mulMatVec (A : list (list T)) (w : list T) : list T := map (fun row => ndot row w) A.

(* ---- finite-difference kernels of engine_derivative_fd.c *)
(* diff(dx, x1, x2, h, n): inv_h = 1/h; dx[i] = inv_h * (x2[i] - x1[i]) *)
Definition fd_diff (x1 x2 : list T) (h : T) : list T :=
  let inv_h := none / h in map (fun p => inv_h * (snd p - fst p)) (combine x1 x2).
(* clampedDiff(dx, x, x_plus, x_minus, h, nx): forward, backward, centered or zeros; None = NULL pointer *)
Definition clampedDiff (x : list T) (xp xm : option (list T)) (h : T) : list T :=
  match xp, xm with
  | Some p, None => fd_diff x p h
  | None, Some q => fd_diff q x h
  | Some p, Some q => fd_diff q p (ntwo * h)
  | None, None => map (fun _ => nzero) x
  end.
(* inRange(x1, x2, range) *)
Definition inRange (x1 x2 lo hi : T) : bool :=
  (lo <=? x1) && (x1 <=? hi) && (lo <=? x2) && (x2 <=? hi).
(* mjd_stepFD, control loop: nudge_fwd = !limited || inRange(ctrl, ctrl+eps); nudge_back =
   (flg_centered || !nudge_fwd) && (!limited || inRange(ctrl-eps, ctrl)) *)
Definition nudge_fwd (limited : bool) (c eps lo hi : T) : bool := negb limited || inRange c (c + eps) lo hi.
Definition nudge_back (limited centered : bool) (c eps lo hi : T) : bool :=
  (centered || negb (nudge_fwd limited c eps lo hi)) && (negb limited || inRange (c - eps) c lo hi).
(* one row of DsDu (or of any output differenced with clampedDiff): g = output as a function of this control *)
Definition ctrl_column (limited centered : bool) (c eps lo hi : T) (g : T -> list T) : list T :=
  clampedDiff (g c)
              (if nudge_fwd limited c eps lo hi then Some (g (c + eps)) else None)
              (if nudge_back limited centered c eps lo hi then Some (g (c - eps)) else None) eps.
(* an output that is affine in the control the force law sees: mj_fwdActuation clamps a limited control with mju_clip *)
Definition clipc (x lo hi : T) : T := if x <? lo then lo else if hi <? x then hi else x.
Definition aff (a c0 : list T) (u : T) : list T := map (fun p => fst p * u + snd p) (combine a c0).
Definition gclip (limited : bool) (lo hi : T) (a c0 : list T) (u : T) : list T :=
  aff a c0 (if limited then clipc u lo hi else u).

(* one actuator as the driver describes it: (disabled or asleep, forcelimited, force, lo, hi, J, g, b, input) *)
Definition actuator := (bool * bool * T * T * T * list T * (T * T * T) * (T * T * T) * T)%type.
Definition act_term (nv : nat) (a : actuator) : list (list T) :=
  let '(disabled, limited, force, lo, hi, J, g, b, input) := a in
  if disabled then mzero nv
  else if act_clamped limited force lo hi then mzero nv
  else let s := act_slope g b input in if s =? nzero then mzero nv else jtbj J s.
(* one tendon: (J, damping, poly, ten_velocity) *)
Definition tendon := (list T * T * list T * T)%type.
Definition tendon_term (nv : nat) (t : tendon) : list (list T) :=
  let '(J, b, poly, v) := t in
  let B := damper_slope b poly v in if B =? nzero then mzero nv else jtbj J B.
(* dofs: (damping, poly, qvel_i) *)
Definition dof_term (dofs : list (T * list T * T)) : list (list T) :=
  mdiag (map (fun x => let '(b, poly, v) := x in damper_slope b poly v) dofs).

(* qDeriv after mjd_actuator_vel and mjd_passive_vel (no fluid, no flex), dense nv x nv *)
Definition smooth_deriv (nv : nat) (acts : list actuator) (tens : list tendon) (dofs : list (T * list T * T)) : list (list T) :=
  let Z0 := mzero nv in
  let A := fold_left (fun acc a => madd acc (act_term nv a)) acts Z0 in
  let P := madd A (dof_term dofs) in
  fold_left (fun acc t => madd acc (tendon_term nv t)) tens P.

End K.

(* ------------------------------------------------------------------ 2. finite-difference skeletons *)
Section FD.
  Variable V : Type.
  Variable toBool : V -> V.
  Variable F : Type.
  Variable feqb : F -> F -> bool.
  Variable n : nat.
  Variable elems : nat -> option (elem F).

  Definition mjdata := data V F.

  (* mjd_stepFD: fullstate = mj_getState(d, spec); mj_stepSkip; outputs saved; mj_setState(d, fullstate, spec);
     then for every requested perturbation (ctrl_i +-, act_i +-, qvel_i +-, qpos_i +-):
       nudge; mj_stepSkip; outputs saved; mj_setState(d, fullstate, spec).
     An evaluation (nudge followed by mj_stepSkip with its skipstage) is an arbitrary function on mjData;
     the first one is the un-nudged step.  None = mjERROR of the state API. *)
  Fixpoint fd_loop (full : list V) (spec : Z) (evals : list (mjdata -> mjdata)) (d : mjdata) : option mjdata :=
    match evals with
    | [] => Some d
    | ev :: r =>
        match setState V toBool F feqb n elems (ev d) full spec with
        | Some d' => fd_loop full spec r d'
        | None => None
        end
    end.
  Definition stepFD (spec : Z) (first : mjdata -> mjdata) (evals : list (mjdata -> mjdata)) (d : mjdata) : option mjdata :=
    match getState V F n elems d spec with
    | Some full => fd_loop full spec (first :: evals) d
    | None => None
    end.

  (* mjd_inverseFD: the centre call, then per perturbed entry i of field f (qacc, qvel):
       tmp = d->f[i]; d->f[i] += eps; inverseSkip; d->f[i] = tmp
     and per position perturbation: mj_integratePos on qpos; inverseSkip; mju_copy(d->qpos, pos). *)
  Fixpoint set_nth (i : nat) (l : list V) (x : V) : list V :=
    match l, i with
    | [], _ => []
    | _ :: r, O => x :: r
    | y :: r, S j => y :: set_nth j r x
    end.
  Inductive nudge :=
  | NudgeEntry (f : F) (i : nat) (newval : V -> V)          (* d->f[i] = newval(d->f[i]) ... restored from tmp *)
  | NudgeField (f : F) (newval : list V -> list V).         (* whole field rewritten ... restored from the saved copy *)
  Definition inv_eval (call : mjdata -> mjdata) (d : mjdata) (p : nudge) : mjdata :=
    match p with
    | NudgeEntry f i nv =>
        let tmp := nth_error (d f) i in
        match tmp with
        | Some t =>
            let d1 := upd V F feqb d f (set_nth i (d f) (nv t)) in
            let d2 := call d1 in
            upd V F feqb d2 f (set_nth i (d2 f) t)
        | None => d
        end
    | NudgeField f nv =>
        let saved := d f in
        let d1 := upd V F feqb d f (nv saved) in
        let d2 := call d1 in
        upd V F feqb d2 f saved
    end.
  Definition inverseFD (call : mjdata -> mjdata) (ps : list nudge) (d : mjdata) : mjdata :=
    fold_left (inv_eval call) ps (call d).
End FD.
