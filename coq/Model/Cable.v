(* Model of plugin/elasticity/cable.cc: QuatDiff, LocalStress and Cable::Compute, generic over
   Lib/Num.  Quaternion / vector helpers are those of Model/Spatial.v (C24).  Definitions only. *)
From Coq Require Import ZArith List Bool.
From MJV Require Import Lib.Num Model.Spatial.
Import ListNotations.

Section Cable.
Context {T : Type} `{NumT T}.
Local Open Scope num_scope.

(* QuatDiff(quat, body_quat, joint_quat, pullback) *)
Definition quatDiff (bq jq : quat T) (pullback : bool) : quat T :=
  let q := mulQuat bq jq in if pullback then negQuat q else q.

(* the curvature used by LocalStress: mju_quat2Vel(omega, quat, 1.0) *)
Definition curvature (q : quat T) : vec3 T := quat2Vel q none.

(* LocalStress(stress, stiffness[4], quat, omega0, pullback) *)
Definition localStress (k : T * T * T * T) (q : quat T) (w0 : vec3 T) (pullback : bool) : vec3 T :=
  let '(k0, k1, k2, len) := k in
  let '(w_0, w_1, w_2) := curvature q in
  let '(r0, r1, r2) := w0 in
  let tmp := ((- k0) * (w_0 - r0) / len, (- k1) * (w_1 - r1) / len, (- k2) * (w_2 - r2) / len) in
  if pullback then rotVecQuat tmp (negQuat q) else tmp.

(* constructor: reference curvature omega0 of a body.  bq = m->body_quat of the body, q0 = the
   quaternion of ITS rotational (ball / free) joint in qpos0 -- wherever that joint sits among the
   joints of the body; zero for the first body and for flat cables *)
Definition cable_omega0 (flat has_prev : bool) (bq q0 : quat T) : vec3 T :=
  if has_prev && negb flat then subQuat bq q0 else zero3.

(* per-body inputs of Cable::Compute *)
Record CBody := mkCBody {
  c_bq : quat T;            (* m->body_quat of the body *)
  c_jq : quat T;            (* quaternion of its ball / free joint in d->qpos *)
  c_k : T * T * T * T;      (* stiffness[4*b .. 4*b+3] *)
  c_w0 : vec3 T;            (* omega0[3*b ..] *)
  c_xq : quat T;            (* d->xquat of the body *)
  c_jacr : list (vec3 T)    (* rotational Jacobian of the body, one column per dof *)
}.

Definition is0 (x : T) : bool := x =? nzero.                      (* C `!x` on a double *)
Definition no_stiffness (k : T * T * T * T) : bool :=
  let '(k0, k1, k2, _) := k in is0 k0 && is0 k1 && is0 k2.

(* stress of body b (only bodies with a predecessor have one) *)
Definition body_stress (b : CBody) (pullback : bool) : vec3 T :=
  localStress (c_k b) (quatDiff (c_bq b) (c_jq b) false) (c_w0 b) pullback.

(* mju_addToScl3(lfrc, stress, s) on lfrc *)
Definition addToScl3 (l s : vec3 T) (c : T) : vec3 T :=
  let '(l0, l1, l2) := l in let '(s0, s1, s2) := s in (l0 + s0 * c, l1 + s1 * c, l2 + s2 * c).

(* local torque on body b: + own stress (pulled back) if it has a predecessor, - stress of the
   successor if it has one *)
Definition body_lfrc (b : CBody) (has_prev : bool) (nxt : option CBody) : vec3 T :=
  let l0 := if has_prev then addToScl3 zero3 (body_stress b true) none else zero3 in
  match nxt with
  | Some bn => addToScl3 l0 (body_stress bn false) (- none)
  | None => l0
  end.

(* mj_applyFT with zero force: qfrc += jacr^T torque *)
Fixpoint applyTorque (jac : list (vec3 T)) (tq : vec3 T) (qfrc : list T) : list T :=
  match jac, qfrc with
  | j :: jr, q :: qr => (q + dot3 j tq) :: applyTorque jr tq qr
  | _, _ => qfrc
  end.

(* one iteration of the loop of Cable::Compute *)
Definition cable_body (b : CBody) (has_prev : bool) (nxt : option CBody) (qfrc : list T) : list T :=
  if no_stiffness (c_k b) then qfrc
  else applyTorque (c_jacr b) (rotVecQuat (body_lfrc b has_prev nxt) (c_xq b)) qfrc.

Fixpoint cable_loop (bs : list CBody) (has_prev : bool) (qfrc : list T) : list T :=
  match bs with
  | nil => qfrc
  | b :: r => cable_loop r true (cable_body b has_prev (hd_error r) qfrc)
  end.

(* Cable::Compute: bodies in order, the first has no predecessor, the last no successor *)
Definition cable_compute (bs : list CBody) (qfrc : list T) : list T := cable_loop bs false qfrc.

End Cable.
