(* C46 — bounded nonlinear least squares (python/mujoco/minimize.py: least_squares with box bounds,
   the default Quadratic norm and finite-difference Jacobian; jacobian_fd; increase_mu / decrease_mu;
   Armijo acceptance; termination tests).
   The residual function and the box-QP solver (mujoco.mju_boxQP) are Section variables.
   Written once over the numeric class Num: R for the theorems, binary64 for the replay.
   Definitions only.  Not modelled: bounds=None, user Jacobian, user norms, check_derivatives,
   printing, timing. *)
From Coq Require Import ZArith List Bool.
From MJV Require Import Lib.Num.
Import ListNotations.

Section Vec.
Context {T : Type} `{Num T}.
Local Open Scope num_scope.

Fixpoint map2 {A B C : Type} (f : A -> B -> C) (a : list A) (b : list B) : list C :=
  match a, b with
  | x :: a', y :: b' => f x y :: map2 f a' b'
  | _, _ => []
  end.
Definition vadd (a b : list T) : list T := map2 nadd a b.
Definition vmul (a b : list T) : list T := map2 nmul a b.
Definition vdot (a b : list T) : T := nsum (vmul a b).
Definition vnorm (a : list T) : T := nsqrt (vdot a a).

(* the residual family used by the correspondence runs (same order of operations as the Python
   residual of harness/drivers/c46_ls.py):  r_j(x) = (sum_i A_ji x_i + sum_i B_ji (x_i x_i)) - b_j *)
Definition res_row (a b : list T) (bj : T) (x : list T) : T :=
  let s1 := fold_left (fun s p => s + fst p * snd p) (combine a x) nzero in
  let s2 := fold_left (fun s p => s + fst p * (snd p * snd p)) (combine b x) s1 in
  s2 - bj.
Definition resfam (A B : list (list T)) (b : list T) (x : list T) : list T :=
  map (fun row => res_row (fst (fst row)) (snd (fst row)) (snd row) x) (combine (combine A B) b).
(* a box-QP "solver" that always answers with the lower bound when that is admissible: satisfies the
   contract by construction; used as witness (for a residual whose minimiser lies far below the box
   this is what mju_boxQP answers) *)
Fixpoint between3 (dl dx du : list T) : bool :=
  match dl, dx, du with
  | [], [], [] => true
  | l :: dl', d :: dx', u :: du' => andb (andb (l <=? d) (d <=? u)) (between3 dl' dx' du')
  | _, _, _ => false
  end.
Definition qp_lower (k : nat) (h : list (list T)) (g dl du : list T) : option (list T) :=
  if andb (between3 dl dl du) (vdot g dl <=? nzero) then Some dl else None.
End Vec.

Section LS.
Context {T : Type} `{Num T}.
Local Open Scope num_scope.

(* one coordinate of the box *)
Record Bnd := mkBnd { blo : T; bhi : T }.

(* ---- section variables: the problem ---- *)
Variable res : list T -> list T.                        (* residual function (one point) *)
(* mju_boxQP(dx, scratch, None, H, g, dlower, dupper): call index (the solver is warm-started, so it is
   not a function of its matrix arguments alone), H = hess + mu*eye, g, dlower, dupper;
   None = "n_free < 0" (not factorizable) *)
Variable qp : nat -> list (list T) -> list T -> list T -> list T -> option (list T).
Variable box : list Bnd.
Variable Dfix : list T.                                  (* x_scale as array (ones when None) *)
Variable adaptive : bool.                                (* x_scale = 'jac' *)
(* false: the candidate is x + D*dx as in the pinned source; true: it is clipped to the bounds before
   the residual is evaluated (the repair of the rounding defect, should the source adopt it) *)
Variable clipcand : bool.
Variables eps mu_min mu_max mu_factor xtol gtol : T.
Variable inner_fuel : nat.

Definition armijo_c1 : T := ndec 1 (-2).

(* norm.value(r) = 0.5 * r.T @ r *)
Definition objective (r : list T) : T := nhalf * vdot r r.

(* np.clip(x, lo, hi) *)
Definition clip1 (x : T) (b : Bnd) : T := nmin (nmax x (blo b)) (bhi b).
Definition clip (x : list T) : list T := map2 clip1 x box.

(* ---- jacobian_fd ---- *)
Definition fd_step (x : T) (b : Bnd) : T :=
  let mid := nhalf * blo b + nhalf * bhi b in
  let e := (if mid <? x then - eps else eps) * nmax none (nabs x) in
  (e + x) - x.
Definition fd_steps (x : list T) : list T := map2 fd_step x box.
Fixpoint fd_points_aux (pre x hs : list T) : list (list T) :=
  match x, hs with
  | xi :: x', h :: hs' => (pre ++ (xi + h) :: x') :: fd_points_aux (pre ++ [xi]) x' hs'
  | _, _ => []
  end.
Definition fd_points (x : list T) : list (list T) := fd_points_aux [] x (fd_steps x).
(* columns of the Jacobian: (r(x + h_i e_i) - r) / h_i *)
Definition jac_cols (x r : list T) : list (list T) :=
  map2 (fun pt h => map2 (fun a b => (a - b) / h) (res pt) r) (fd_points x) (fd_steps x).

(* D for 'jac' scaling: 1 / max(norm of column, eps) *)
Definition scaleD (jc : list (list T)) : list T :=
  if adaptive then map (fun c => none / nmax (vnorm c) eps) jc else Dfix.

(* Quadratic.grad_hess(r, jac * D.T): columns of P = D_i * jac[:, i] *)
Definition pcols (jc : list (list T)) (D : list T) : list (list T) := map2 (fun c d => map (fun a => a * d) c) jc D.
Definition grad_of (pc : list (list T)) (r : list T) : list T := map (fun c => vdot c r) pc.
Definition hess_of (pc : list (list T)) : list (list T) := map (fun ci => map (fun cj => vdot ci cj) pc) pc.
Fixpoint add_diag (h : list (list T)) (mu : T) (i : nat) : list (list T) :=
  match h with
  | [] => []
  | row :: h' => (firstn i row ++ match skipn i row with [] => [] | a :: t => (a + mu) :: t end) :: add_diag h' mu (S i)
  end.
Definition quadform (h : list (list T)) (v : list T) : T := vdot v (map (fun row => vdot row v) h).

(* free gradient norm: entries clamped at an active bound are dropped *)
Definition gfree_sq (x g : T) (b : Bnd) : T :=
  if orb (andb (x =? blo b) (nzero <? g)) (andb (x =? bhi b) (g <? nzero)) then nzero else g * g.
Fixpoint gfree_sumsq (x g : list T) (bs : list Bnd) : T :=
  match x, g, bs with
  | xi :: x', gi :: g', b :: bs' => gfree_sq xi gi b + gfree_sumsq x' g' bs'
  | _, _, _ => nzero
  end.
Definition gnorm_free (x g : list T) : T := nsqrt (gfree_sumsq x g box).

(* bounds relative to x in scaled coordinates *)
Definition dlower (x D : list T) : list T := map2 (fun p d => (blo (snd p) - fst p) / d) (combine x box) D.
Definition dupper (x D : list T) : list T := map2 (fun p d => (bhi (snd p) - fst p) / d) (combine x box) D.

(* the new candidate *)
Definition candidate (x D dx : list T) : list T :=
  let c := vadd x (vmul D dx) in if clipcand then clip c else c.

(* ---- regulariser ---- *)
Definition increase_mu (mu : T) : T := nmax mu_min (mu_factor * mu).
Fixpoint pow2n (a : T) (n : nat) : T := match n with O => a | S k => let b := pow2n a k in b * b end.   (* a^(2^n) *)
Definition decrease_mu (mu : T) (nred : nat) : T :=
  let dmu := pow2n (none / mu_factor) nred in
  if mu * dmu <? mu_min then nzero else mu * dmu.

(* ---- status codes ---- *)
Definition ST_MAX_ITER : Z := 0%Z.
Definition ST_G_TOL : Z := 1%Z.
Definition ST_DX_TOL : Z := 2%Z.
Definition ST_NO_IMPROVEMENT : Z := 3%Z.
Definition ST_FACTORIZATION_FAILED : Z := 4%Z.
Definition ST_FUEL : Z := (-1)%Z.          (* model artefact: inner fuel exhausted *)

(* ---- the search for a step satisfying Armijo's rule (both nested while loops) ---- *)
Inductive Inner :=
| IFuel
| IFail (status : Z) (mu : T) (kq : nat) (evals : list (list T))
| IAcc (mu : T) (nred kq : nat) (dx xnew rnew : list T) (red : T) (evals : list (list T)).

(* nred = n_reduc: increase_mu resets it to 0 *)
Fixpoint inner (fuel : nat) (x D g : list T) (h : list (list T)) (y : T) (mu : T) (nred kq : nat) : Inner :=
  match fuel with
  | O => IFuel
  | S f =>
    match qp kq (add_diag h mu 0) g (dlower x D) (dupper x D) with
    | None =>
        if mu_max <=? mu then IFail ST_FACTORIZATION_FAILED mu (S kq) []
        else inner f x D g h y (increase_mu mu) O (S kq)
    | Some dx =>
        let xnew := candidate x D dx in
        let rnew := res xnew in
        let red := y - objective rnew in
        let armijo := red + armijo_c1 * vdot g dx in
        if armijo <? nzero then
          if mu_max <=? mu then IFail ST_NO_IMPROVEMENT mu (S kq) [xnew]
          else match inner f x D g h y (increase_mu mu) O (S kq) with
               | IFuel => IFuel
               | IFail s m k ev => IFail s m k (xnew :: ev)
               | IAcc m nr k d xn rn rd ev => IAcc m nr k d xn rn rd (xnew :: ev)
               end
        else IAcc mu nred (S kq) dx xnew rnew red [xnew]
    end
  end.

(* ---- result ---- *)
Record LogEntry := mkLog { lg_x : list T; lg_y : T; lg_red : T; lg_mu : T }.
Record Result := mkRes { rs_status : Z; rs_x : list T; rs_trace : list LogEntry; rs_evals : list (list T); rs_kq : nat }.

Definition finish (st : Z) (x r : list T) (mu : T) (kq : nat) : Result :=
  mkRes st x [mkLog x (objective r) nzero mu] [] kq.
Definition prepend (l : option LogEntry) (ev : list (list T)) (rs : Result) : Result :=
  mkRes (rs_status rs) (rs_x rs)
        (match l with Some e => e :: rs_trace rs | None => rs_trace rs end) (ev ++ rs_evals rs) (rs_kq rs).

(* the "for i in range(max_iter)" loop; iters = remaining iterations *)
Fixpoint outer (iters : nat) (x r : list T) (mu : T) (nred kq : nat) : Result :=
  match iters with
  | O => finish ST_MAX_ITER x r mu kq
  | S it =>
    let y := objective r in
    let jc := jac_cols x r in
    let D := scaleD jc in
    let pc := pcols jc D in
    let g := grad_of pc r in
    let h := hess_of pc in
    let fdev := fd_points x in
    if gnorm_free x g <=? gtol then prepend None fdev (finish ST_G_TOL x r mu kq)
    else
      match inner inner_fuel x D g h y mu nred kq with
      | IFuel => prepend None fdev (finish ST_FUEL x r mu kq)
      | IFail st mu' kq' ev => prepend None (fdev ++ ev) (finish st x r mu' kq')
      | IAcc mu' nred0 kq' dx xnew rnew red ev =>
          let ered := - (vdot g dx + nhalf * quadform h dx) in
          let ratio := if ered <=? nzero then nzero else red / ered in
          let dxn := vnorm (vmul D dx) in
          let lg := mkLog x y red mu' in
          if dxn <? xtol * (xtol + vnorm x) then
            prepend (Some lg) (fdev ++ ev) (finish ST_DX_TOL xnew rnew mu' kq')
          else
            let '(mu'', nred') :=
              if ndec 75 (-2) <? ratio then (decrease_mu mu' nred0, S nred0)
              else if ratio <? ndec 25 (-2) then (increase_mu mu', O)
              else (mu', nred0) in
            prepend (Some lg) (fdev ++ ev) (outer it xnew rnew mu'' nred' kq')
      end
  end.

(* least_squares(x0, residual, bounds): clip, first residual, loop *)
Definition least_squares (max_iter : nat) (x0 : list T) : Result :=
  let x := clip x0 in
  prepend None [x] (outer max_iter x (res x) nzero O O).

(* ---- hypotheses and conclusions of C46, in executable (boolean) form so that the very same
        statement can be read at R (theorem) and at binary64 (refutation by computation) ---- *)
Fixpoint forall2b {A B : Type} (p : A -> B -> bool) (a : list A) (b : list B) : bool :=
  match a, b with
  | [], [] => true
  | x :: a', y :: b' => andb (p x y) (forall2b p a' b')
  | _, _ => false
  end.
Definition between_b (dl dx du : list T) : bool := between3 dl dx du.
(* a point lies in the box *)
Definition inbox_b (x : list T) : bool := forall2b (fun a b => andb (blo b <=? a) (a <=? bhi b)) x box.

(* hypotheses on the problem: valid box (least_squares raises otherwise), positive scales, and
   "bounds wider than the finite-difference step": hi - lo >= 2 eps max(1, |lo|, |hi|) *)
Definition problem_ok (x0 : list T) : Prop :=
  length x0 = length box /\ length Dfix = length box /\
  forallb (fun b => blo b <? bhi b) box = true /\
  forallb (fun d => nzero <? d) Dfix = true /\
  (nzero <? eps) = true /\
  forallb (fun b => ntwo * eps * nmax none (nmax (nabs (blo b)) (nabs (bhi b))) <=? bhi b - blo b) box = true.
(* contract of the box-QP solver, for every call: the answer respects its bounds and is not an
   ascent direction (which follows from q(dx) <= q(0) for a positive semi-definite H) *)
Definition qp_contract : Prop :=
  forall k h g dl du dx, qp k h g dl du = Some dx ->
    between_b dl dx du = true /\ (vdot g dx <=? nzero) = true.
(* regulariser parameters (least_squares raises if mu_factor <= 1) and enough fuel for the model's
   inner loop: mu_min * mu_factor^K >= mu_max and inner_fuel >= K + 2 *)
Fixpoint npow (a : T) (k : nat) : T := match k with O => none | S j => a * npow a j end.
Definition mu_ok (K : nat) : Prop :=
  (nzero <? mu_min) = true /\ (none <? mu_factor) = true /\
  (mu_max <=? mu_min * npow mu_factor K) = true /\ (K + 2 <= inner_fuel)%nat.

Fixpoint chain_b (y : T) (tr : list LogEntry) : bool :=
  match tr with [] => true | e :: t => andb (lg_y e <=? y) (chain_b (lg_y e) t) end.
Definition trace_ys (rs : Result) : list T := map lg_y (rs_trace rs).

(* conclusions *)
Definition concl_in_bounds (rs : Result) : Prop :=
  forallb inbox_b (rs_evals rs) = true /\ inbox_b (rs_x rs) = true.
Definition concl_monotone (x0 : list T) (rs : Result) : Prop :=
  match rs_trace rs with
  | [] => False
  | e :: t => chain_b (lg_y e) t = true /\ (lg_y e <=? objective (res (clip x0))) = true /\
              (lg_y (last t e) <=? objective (res (clip x0))) = true /\
              lg_x (last t e) = rs_x rs /\ lg_y (last t e) = objective (res (rs_x rs))
  end.
Definition concl_terminates (max_iter : nat) (rs : Result) : Prop :=
  rs_status rs <> ST_FUEL /\ (length (rs_trace rs) <= max_iter + 1)%nat.
End LS.
