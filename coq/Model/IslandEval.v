(* executable checkers used by the C17 correspondence runs (harness/props/c17.py); definitions only *)
From Coq Require Import List ZArith Bool.
From MJV Require Import Lib.Eqb Model.Island.
Import ListNotations.
Open Scope Z_scope.

(* every intermediate parent array of a merge sequence must match the implementation's *)
Fixpoint run_merges (p : list Z) (ms : list (Z * Z)) (outs : list (list Z)) : option (list Z) :=
  match ms, outs with
  | [], [] => Some p
  | (a, b) :: r, o :: ro =>
    match dsuMerge p a b with
    | Some p' => if zlist_eqb p' o then run_merges p' r ro else None
    | None => None
    end
  | _, _ => None
  end.

(* root queries (tree, returned root or -9 when skipped, parent array afterwards) *)
Fixpoint run_queries (p : list Z) (qs : list (Z * Z * list Z)) : option (list Z) :=
  match qs with
  | [] => Some p
  | (q, r, o) :: rest =>
    if r =? -9 then (if (get p q =? -1) && zlist_eqb p o then run_queries p rest else None)
    else match dsuRoot p q with
         | Some (p', r') => if (r' =? r) && zlist_eqb p' o then run_queries p' rest else None
         | None => None
         end
  end.

Definition chkD (n : Z) (ms : list (Z * Z)) (outs : list (list Z)) (qs : list (Z * Z * list Z))
  (dof : list Z) (nisland nidof : Z) (island parent : list Z) : bool :=
  match run_merges (dsu_init (Z.to_nat n)) ms outs with
  | None => false
  | Some p =>
    match run_queries p qs with
    | None => false
    | Some p2 =>
      match dsuAssign p2 dof with
      | None => false
      | Some (isl, p3, ni, nd) =>
        (ni =? nisland) && (nd =? nidof) && zlist_eqb isl island && zlist_eqb p3 parent
      end
    end
  end.

(* only the parent array after the last merge is compared *)
Definition chkE (n : Z) (ms : list (Z * Z)) (out : list Z) (qs : list (Z * Z * list Z))
  (dof : list Z) (nisland nidof : Z) (island parent : list Z) : bool :=
  match merges (dsu_init (Z.to_nat n)) ms with
  | None => false
  | Some p =>
    if negb (zlist_eqb p out) then false else
    match run_queries p qs with
    | None => false
    | Some p2 =>
      match dsuAssign p2 dof with
      | None => false
      | Some (isl, p3, ni, nd) =>
        (ni =? nisland) && (nd =? nidof) && zlist_eqb isl island && zlist_eqb p3 parent
      end
    end
  end.

Definition chkF (nr : Z) (rownnz rowadr colind : list Z) (nisland : Z) (island : list Z) : bool :=
  match floodFill (Z.to_nat nr) rownnz rowadr colind with
  | None => false
  | Some (isl, ni) => (ni =? nisland) && zlist_eqb isl island
  end.

Definition zll_eqb := list_eqb zlist_eqb.

Definition chkI (ntree : Z) (dofnum dof_treeid : list Z) (rows : list (list Z)) (efc_class : list Z)
  (nisland nidof : Z) (tree_island : list Z) (arrays : list (list Z)) : bool :=
  match island_model (Z.to_nat ntree) dofnum dof_treeid rows efc_class with
  | None => false
  | Some (ni, nd, ti, arr) =>
    (ni =? nisland) && (nd =? nidof) && zlist_eqb ti tree_island && zll_eqb arr arrays
  end.
