(* Model of /repo/src/engine/engine_sleep.c (sleep state machine on raw int arrays).
   Definitions only, all executable.  Arrays are lists of Z, indices are Z.

   tree_asleep[i] <  0 : tree i is awake; -(1+mjMINAWAKE) fully awake, -1 ready to sleep
   tree_asleep[i] >= 0 : tree i is asleep and the value is the next tree of its sleep cycle

   Error exits of the C code (mjERROR, marked SHOULD NOT OCCUR) are modelled by an error code in
   the result (0 = no error); the arrays returned with an error are the partially updated ones,
   exactly as the C code leaves them when mju_error is intercepted. *)
From Coq Require Import ZArith List Bool.
Import ListNotations.
Open Scope Z_scope.

Definition mjMINAWAKE : Z := 10.               (* include/mujoco/mjmodel.h, compared on every run *)
Definition kAwake : Z := - (1 + mjMINAWAKE).   (* engine_sleep.c:258 *)

(* ---------------------------------------------------------------- arrays *)
Definition getZ (l : list Z) (i : Z) : Z := nth (Z.to_nat i) l (-1).
Fixpoint set_nat (l : list Z) (n : nat) (v : Z) : list Z :=
  match l, n with
  | [], _ => []
  | _ :: r, O => v :: r
  | x :: r, S k => x :: set_nat r k v
  end.
Definition setZ (l : list Z) (i v : Z) : list Z := if i <? 0 then l else set_nat l (Z.to_nat i) v.
Definition lenZ {A} (l : list A) : Z := Z.of_nat (length l).
Definition zseq (n : Z) : list Z := map Z.of_nat (seq 0 (Z.to_nat n)).
Definition bad_index (ntree x : Z) : bool := (x <? 0) || (ntree <=? x).

(* ---------------------------------------------------------------- mj_sleepCycle (l.154-183)
   do { if (count > ntree) return -1; next = ta[current]; if next out of range return -1;
        smallest = min; current = next; count++ } while (current != i)
   The C loop is bounded by its own counter: iterations run with count = 0..ntree, so fuel
   S ntree running out is exactly the branch `count > ntree`. *)
Fixpoint sleepCycle_loop (fuel : nat) (ta : list Z) (ntree i smallest current : Z) : Z :=
  match fuel with
  | O => -1
  | S f =>
    let next := getZ ta current in
    if bad_index ntree next then -1
    else let smallest' := if next <? smallest then next else smallest in
         if next =? i then smallest' else sleepCycle_loop f ta ntree i smallest' next
  end.
Definition sleepCycle (ta : list Z) (ntree i : Z) : Z :=
  if bad_index ntree i then -1
  else sleepCycle_loop (S (Z.to_nat ntree)) ta ntree i i i.

(* ---------------------------------------------------------------- mj_wakeIsland (l.195-255)
   result (tree_asleep', return value, error): error 1 invalid tree, 2 invalid next index,
   3 not a cycle.  The do-while runs while (current != i && nwoke < ntree): the body runs at
   most ntree times, fuel = ntree running out is exactly `nwoke < ntree` failing. *)
Fixpoint wake_loop (fuel : nat) (ta : list Z) (ntree i wakeval current nwoke : Z) : list Z * Z * Z :=
  match fuel with
  | O => (ta, 0, 3)
  | S f =>
    let next := getZ ta current in
    if bad_index ntree next then (ta, 0, 2)
    else let ta' := setZ ta current wakeval in
         if next =? i then (ta', nwoke + 1, 0)
         else wake_loop f ta' ntree i wakeval next (nwoke + 1)
  end.
Definition wakeIsland (ta : list Z) (ntree i wakeval : Z) : list Z * Z * Z :=
  if bad_index ntree i then (ta, 0, 1)
  else let v := getZ ta i in
       if v <? 0 then (setZ ta i (Z.min wakeval v), 0, 0)
       else wake_loop (Z.to_nat ntree) ta ntree i wakeval i 0.

(* ---------------------------------------------------------------- mj_sleepTrees (l.534-555)
   error 4: tree already asleep, 5: tree not ready to sleep *)
Fixpoint sleepTrees_loop (ta : list Z) (first : Z) (trees : list Z) : list Z * Z :=
  match trees with
  | [] => (ta, 0)
  | cur :: rest =>
    let next := match rest with [] => first | nx :: _ => nx end in
    let v := getZ ta cur in
    if v =? -1 then sleepTrees_loop (setZ ta cur next) first rest
    else if 0 <=? v then (ta, 4) else (ta, 5)
  end.
Definition sleepTrees (ta : list Z) (trees : list Z) : list Z * Z :=
  match trees with [] => (ta, 0) | f :: _ => sleepTrees_loop ta f trees end.

(* ---------------------------------------------------------------- mj_sleep (l.573-640) *)
(* first sweep: countdown of awake trees over the can-sleep bits (treeCanSleep abstract) *)
Definition countdown (v : Z) (can : bool) : Z :=
  if can then (if v <? -1 then v + 1 else v) else kAwake.
Fixpoint countdown_all (ta : list Z) (can : list bool) : list Z :=
  match ta, can with
  | v :: r, c :: rc => (if 0 <=? v then v else countdown v c) :: countdown_all r rc
  | _, _ => ta
  end.
(* island check with `break`: 0 not ready, 1 ready, 2 sleeping tree found (error 6) *)
Fixpoint island_ready (ta : list Z) (trees : list Z) : Z :=
  match trees with
  | [] => 1
  | t :: r => let v := getZ ta t in
              if v <? -1 then 0 else if 0 <=? v then 2 else island_ready ta r
  end.
Fixpoint sleep_islands (ta : list Z) (islands : list (list Z)) (nslept : Z) : list Z * Z * Z :=
  match islands with
  | [] => (ta, nslept, 0)
  | isl :: r =>
    let rd := island_ready ta isl in
    if rd =? 0 then sleep_islands ta r nslept
    else if rd =? 1 then
      let '(ta', e) := sleepTrees ta isl in
      if e =? 0 then sleep_islands ta' r (nslept + lenZ isl) else (ta', nslept, e)
    else (ta, nslept, 6)
  end.
Fixpoint sleep_uncon (ta : list Z) (tail : list Z) (nslept : Z) : list Z * Z :=
  match tail with
  | [] => (ta, nslept)
  | t :: r => if getZ ta t =? -1 then sleep_uncon (setZ ta t t) r (nslept + 1)
              else sleep_uncon ta r nslept
  end.
(* islands = the slices map_itree2tree[island_itreeadr[k] .. +island_ntree[k]) ; tail = the entries
   of map_itree2tree after the last island (nisland > 0) or 0..ntree-1 (nisland = 0).
   sleep enabled is assumed (disabled: returns 0 and changes nothing). *)
Definition mj_sleep (ta : list Z) (can : list bool) (nefc : Z) (islands : list (list Z)) (tail : list Z)
  : list Z * Z * Z :=
  if negb (nefc =? 0) && (lenZ islands =? 0) then (ta, 0, 0)
  else
    let ta1 := countdown_all ta can in
    let '(ta2, n2, e2) := sleep_islands ta1 islands 0 in
    if negb (e2 =? 0) then (ta2, n2, e2)
    else let '(ta3, n3) := sleep_uncon ta2 (if lenZ islands =? 0 then zseq (lenZ ta) else tail) n2 in
         (ta3, n3, 0).

(* island partition as a function tree -> island id (tree_island of mj_island, engine_island.c
   l.521-531): island k lists its trees in increasing order, the tail lists the trees with id < 0 *)
Definition island_trees (tree_island : list Z) (k : Z) : list Z :=
  filter (fun t => getZ tree_island t =? k) (zseq (lenZ tree_island)).
Definition islands_of (tree_island : list Z) (nisland : Z) : list (list Z) :=
  map (island_trees tree_island) (zseq nisland).
Definition tail_of (tree_island : list Z) : list Z :=
  filter (fun t => getZ tree_island t <? 0) (zseq (lenZ tree_island)).
Definition mj_sleep_part (ta : list Z) (can : list bool) (nefc nisland : Z) (tree_island : list Z) :=
  mj_sleep ta can nefc (islands_of tree_island nisland) (tail_of tree_island).

(* ---------------------------------------------------------------- mj_wake (l.261-289), sleep enabled
   flags = d->tree_awake at entry (mj_kinematics1 sets it to 1 on a pose mismatch of a sleeping
   tree), can0 = treeCanSleep(m, d, i, 0); both are read-only during the sweep *)
Fixpoint wake_sweep (ids : list Z) (ta flags : list Z) (can0 : list bool) (ntree nwoke : Z) : list Z * Z * Z :=
  match ids with
  | [] => (ta, nwoke, 0)
  | i :: r =>
    if getZ ta i <? 0 then wake_sweep r ta flags can0 ntree nwoke
    else if negb (getZ flags i =? 0) || negb (nth (Z.to_nat i) can0 false) then
      let '(ta', n, e) := wakeIsland ta ntree i kAwake in
      if e =? 0 then wake_sweep r ta' flags can0 ntree (nwoke + n) else (ta', nwoke, e)
    else wake_sweep r ta flags can0 ntree nwoke
  end.
Definition mj_wake (ta flags : list Z) (can0 : list bool) : list Z * Z * Z :=
  wake_sweep (zseq (lenZ ta)) ta flags can0 (lenZ ta) 0.
(* sleep disabled: wake everything if something sleeps (ntree_awake = d->ntree_awake) *)
Definition mj_wake_disabled (ta : list Z) (ntree_awake : Z) : list Z * Z :=
  (if ntree_awake <? lenZ ta then map (fun _ => kAwake) ta else ta, lenZ ta - ntree_awake).

(* ---------------------------------------------------------------- mj_updateSleepInit (l.31-99)
   mjS_STATIC = -1, mjS_ASLEEP = 0, mjS_AWAKE = 1.  body_awake is updated in place while the loop
   reads body_awake[body_parentid[i]], as in C (ba0 = previous content of d->body_awake). *)
Definition tree_awake_of (ta : list Z) : list Z := map (fun v => if v <? 0 then 1 else 0) ta.
Definition sumZ (l : list Z) : Z := fold_right Z.add 0 l.
Definition body_state (tree_awake body_treeid body_rootid body_mocapid : list Z) (flg : bool) (i : Z) : Z :=
  let tid := getZ body_treeid i in
  if tid <? 0 then
    (if 0 <=? getZ body_mocapid (getZ body_rootid i) then 1 else if flg then 1 else -1)
  else (if getZ tree_awake tid =? 0 then 0 else 1).
Fixpoint body_loop (ids : list Z) (tree_awake body_treeid body_parentid body_rootid body_mocapid : list Z)
         (flg : bool) (ba bind pind : list Z) : list Z * list Z * list Z :=
  match ids with
  | [] => (ba, rev bind, rev pind)
  | i :: r =>
    let v := body_state tree_awake body_treeid body_rootid body_mocapid flg i in
    let ba' := setZ ba i v in
    let bind' := if v =? 0 then bind else i :: bind in
    let pind' := if negb (i =? 0) && negb (getZ ba' (getZ body_parentid i) =? 0) then i :: pind else pind in
    body_loop r tree_awake body_treeid body_parentid body_rootid body_mocapid flg ba' bind' pind'
  end.
Fixpoint dof_loop (ids : list Z) (body_treeid dof_bodyid ba : list Z) (acc : list Z) : list Z :=
  match ids with
  | [] => rev acc
  | i :: r => let b := getZ dof_bodyid i in
              dof_loop r body_treeid dof_bodyid ba
                       (if (0 <=? getZ body_treeid b) && (getZ ba b =? 1) then i :: acc else acc)
  end.
(* result: tree_awake, ntree_awake, body_awake, body_awake_ind, parent_awake_ind, dof_awake_ind
   (nbody_awake, nparent_awake, nv_awake are the lengths of the index lists) *)
Definition updateSleepInit (ta body_treeid body_parentid body_rootid body_mocapid dof_bodyid ba0 : list Z) (flg : bool) :=
  let tw := tree_awake_of ta in
  let '(ba, bind, pind) := body_loop (zseq (lenZ body_treeid)) tw body_treeid body_parentid body_rootid body_mocapid flg ba0 [] [] in
  let dind := dof_loop (zseq (lenZ dof_bodyid)) body_treeid dof_bodyid ba [] in
  (tw, sumZ tw, ba, bind, pind, dind).

(* ---------------------------------------------------------------- specification vocabulary *)
(* cycle invariant: every entry >= 0 is the in-range index of a sleeping tree, and the successor
   map is injective on the sleeping trees, i.e. a permutation of the sleeping set *)
Definition Inv (ta : list Z) : Prop :=
  (forall i, 0 <= i < lenZ ta -> 0 <= getZ ta i ->
             0 <= getZ ta i < lenZ ta /\ 0 <= getZ ta (getZ ta i)) /\
  (forall i j, 0 <= i < lenZ ta -> 0 <= j < lenZ ta -> 0 <= getZ ta i ->
               getZ ta i = getZ ta j -> i = j).
(* k-fold successor and the cycle (orbit) of i *)
Fixpoint iter (ta : list Z) (k : nat) (i : Z) : Z :=
  match k with O => i | S k' => getZ ta (iter ta k' i) end.
Definition OnCycle (ta : list Z) (i j : Z) : Prop := exists m, iter ta m i = j.
(* u is in the island block of t: same island id when t is in one of the nisland islands, t itself
   when t is unconstrained *)
Definition same_block (tree_island : list Z) (nisland t u : Z) : Prop :=
  if (0 <=? getZ tree_island t) && (getZ tree_island t <? nisland)
  then getZ tree_island u = getZ tree_island t else u = t.
Definition canZ (can : list bool) (t : Z) : bool := nth (Z.to_nat t) can false.

(* ---------------------------------------------------------------- histories *)
Inductive op : Type :=
| OpSleep (can : list bool) (nefc nisland : Z) (tree_island : list Z)   (* one mj_sleep call *)
| OpWake (i wakeval : Z).                                              (* one mj_wakeIsland call *)
Definition apply_op (ta : list Z) (o : op) : list Z :=
  match o with
  | OpSleep can nefc nisland ti => fst (fst (mj_sleep_part ta can nefc nisland ti))
  | OpWake i w => fst (fst (wakeIsland ta (lenZ ta) i w))
  end.
Definition run (ops : list op) (ta : list Z) : list Z := fold_left apply_op ops ta.
(* side conditions of the calls: the can-sleep vector and tree_island have one entry per tree and
   sleeping trees are in no island (constraints of sleeping trees are filtered out, engine_island.c);
   wake values are negative (kAwake or the counter of an awake tree) *)
Definition op_ok (ta : list Z) (o : op) : Prop :=
  match o with
  | OpSleep can nefc nisland ti =>
      length can = length ta /\ lenZ ti = lenZ ta /\
      (forall t, 0 <= t < lenZ ta -> 0 <= getZ ti t -> getZ ta t < 0)
  | OpWake i w => 0 <= i < lenZ ta /\ w < 0
  end.
Fixpoint ops_ok (ops : list op) (ta : list Z) : Prop :=
  match ops with [] => True | o :: r => op_ok ta o /\ ops_ok r (apply_op ta o) end.
Fixpoint awake_through (ops : list op) (ta : list Z) (i : Z) : Prop :=
  match ops with
  | [] => getZ ta i < 0
  | o :: r => getZ ta i < 0 /\ awake_through r (apply_op ta o) i
  end.
(* can-sleep bit of tree i in an mj_sleep call; calls that return before the countdown
   (constraints present but no island structure) and wake calls carry none *)
Definition can_bit (o : op) (i : Z) : option bool :=
  match o with
  | OpSleep can nefc nisland ti =>
      if negb (nefc =? 0) && (lenZ (islands_of ti nisland) =? 0) then None else Some (canZ can i)
  | OpWake _ _ => None
  end.
(* number of most recent mj_sleep calls (list given most recent first) in which tree i could sleep *)
Fixpoint trailing_can (rops : list op) (i : Z) : Z :=
  match rops with
  | [] => 0
  | o :: r => match can_bit o i with
              | None => trailing_can r i
              | Some true => 1 + trailing_can r i
              | Some false => 0
              end
  end.
