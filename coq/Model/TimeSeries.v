(* C48 — system-identification time series and signal modifiers.
   Model of python/mujoco/sysid/_src/timeseries.py (TimeSeries.interpolate with method "linear", resample)
   and python/mujoco/sysid/_src/signal_modifier.py (apply_bias, apply_gain, apply_delay,
   apply_time_window, apply_delayed_ts_window, apply_resample_and_delay and its column-by-column
   reference).  A time series is a list of timestamps and a list of COLUMNS (each as long as the
   timestamps); scipy.interpolate.interp1d(kind="linear", axis=0, bounds_error=False,
   fill_value=(data[0], data[-1])) acts on every column independently and is modelled by the formula of
   its _call_linear (scipy 1.18): searchsorted(side=left) clipped to [1, n-1], then
      y = ((t - x_lo)/(x_hi - x_lo)) * y_hi + ((x_hi - t)/(x_hi - x_lo)) * y_lo,
   with the first / last sample outside the range.  Definitions only; written over Num.
   A functional model cannot mutate its argument: purity is not expressible here and is checked by
   the correspondence harness (fingerprints of the input buffers). *)
From Coq Require Import ZArith List Bool.
From MJV Require Import Lib.Num.
Import ListNotations.

Section TS.
Context {T : Type} `{Num T}.
Local Open Scope num_scope.

(* linear interpolation between two knots (scipy's _call_linear) *)
Definition lerp (xlo ylo xhi yhi t : T) : T :=
  ((t - xlo) / (xhi - xlo)) * yhi + ((xhi - t) / (xhi - xlo)) * ylo.

(* walk along the knots: the interval used is [x_{k-1}, x_k] for the first k >= 1 with t <= x_k
   (= searchsorted(x, t, side=left) clipped to [1, n-1]); beyond the last knot: the last sample *)
Fixpoint interp_walk (x0 y0 : T) (rest : list (T * T)) (t : T) : T :=
  match rest with
  | [] => y0
  | (x1, y1) :: rest' => if t <=? x1 then lerp x0 y0 x1 y1 t else interp_walk x1 y1 rest' t
  end.
Definition interp (knots : list (T * T)) (t : T) : T :=
  match knots with
  | [] => nzero
  | (x0, y0) :: rest => if t <? x0 then y0 else interp_walk x0 y0 rest t
  end.

(* TimeSeries.resample(new_times) for one column *)
Definition resample_col (times col new_times : list T) : list T := map (interp (combine times col)) new_times.
Definition resample (times : list T) (cols : list (list T)) (new_times : list T) : list (list T) :=
  map (fun c => resample_col times c new_times) cols.

(* np.searchsorted on a sorted list *)
Fixpoint ss_left (xs : list T) (v : T) : nat :=
  match xs with [] => O | x :: r => if x <? v then S (ss_left r v) else O end.
Fixpoint ss_right (xs : list T) (v : T) : nat :=
  match xs with [] => O | x :: r => if x <=? v then S (ss_right r v) else O end.

Fixpoint mem_nat (i : nat) (l : list nat) : bool :=
  match l with [] => false | j :: r => orb (Nat.eqb i j) (mem_nat i r) end.
Fixpoint pos_of (i : nat) (l : list nat) : nat :=
  match l with [] => O | j :: r => if Nat.eqb i j then O else S (pos_of i r) end.
Fixpoint mapi_aux {A B} (f : nat -> A -> B) (i : nat) (l : list A) : list B :=
  match l with [] => [] | a :: r => f i a :: mapi_aux f (S i) r end.
Definition mapi {A B} (f : nat -> A -> B) (l : list A) : list B := mapi_aux f 0 l.

(* apply_bias / apply_gain: data_out[..., indices] += / *= value  (value broadcast to the indices) *)
Definition apply_bias (cols : list (list T)) (idx : list nat) (bias : list T) : list (list T) :=
  mapi (fun c col => if mem_nat c idx then map (fun v => v + nth (pos_of c idx) bias nzero) col else col) cols.
Definition apply_gain (cols : list (list T)) (idx : list nat) (gain : list T) : list (list T) :=
  mapi (fun c col => if mem_nat c idx then map (fun v => v * nth (pos_of c idx) gain nzero) col else col) cols.

(* apply_delay: the selected columns are resampled at times - delay, the others are kept *)
Definition apply_delay (times : list T) (cols : list (list T)) (idx : list nat) (delay : T) : list (list T) :=
  mapi (fun c col => if mem_nat c idx then resample_col times col (map (fun t => t - delay) times) else col) cols.

(* apply_time_window: rows searchsorted(times, min_t, left) .. searchsorted(times, max_t, right) *)
Definition window {A} (lo hi : nat) (l : list A) : list A := firstn (hi - lo) (skipn lo l).
Definition apply_time_window (times : list T) (cols : list (list T)) (min_t max_t : T) : list T * list (list T) :=
  let lo := ss_left times min_t in
  let hi := ss_right times max_t in
  (window lo hi times, map (window lo hi) cols).
Definition apply_delayed_ts_window (times : list T) (cols : list (list T)) (dtimes : list T) (min_delay max_delay : T)
  : list T * list (list T) :=
  apply_time_window times cols (nth 0 dtimes nzero - min_delay) (last dtimes nzero - max_delay).
End TS.

(* apply_resample_and_delay: columns grouped by delay value (a dict keyed by the delay, in first-occurrence
   order), one resampling per group, results scattered back;  _apply_resample_and_delay_columnwise: one
   resampling per column.  The per-column operation F (delay -> column -> resampled column) and the key
   equality are parameters: the law is structural. *)
Section Group.
Context {K C R : Type}.
Variable keq : K -> K -> bool.
Variable F : K -> C -> R.
Variable dflt : R.

(* delay_to_cols.setdefault(d, []).append(i) *)
Fixpoint insert_group (g : list (K * list nat)) (d : K) (i : nat) : list (K * list nat) :=
  match g with
  | [] => [(d, [i])]
  | (k, cols) :: r => if keq k d then (k, cols ++ [i]) :: r else (k, cols) :: insert_group r d i
  end.
Fixpoint build_groups (delays : list K) (i : nat) (g : list (K * list nat)) : list (K * list nat) :=
  match delays with [] => g | d :: r => build_groups r (S i) (insert_group g d i) end.

Fixpoint upd {A} (l : list A) (i : nat) (v : A) : list A :=
  match l, i with
  | [], _ => []
  | _ :: r, O => v :: r
  | a :: r, S j => a :: upd r j v
  end.
(* data_out[:, cols] = resample of the group's columns at times + d *)
Definition scatter_group (columns : list C) (cdflt : C) (out : list R) (grp : K * list nat) : list R :=
  fold_left (fun o c => upd o c (F (fst grp) (nth c columns cdflt))) (snd grp) out.
Definition resample_grouped (columns : list C) (cdflt : C) (delays : list K) : list R :=
  fold_left (scatter_group columns cdflt) (build_groups delays 0 []) (map (fun _ => dflt) columns).

Fixpoint map2g {A B D} (f : A -> B -> D) (a : list A) (b : list B) : list D :=
  match a, b with x :: a', y :: b' => f x y :: map2g f a' b' | _, _ => [] end.
Definition resample_columnwise (columns : list C) (delays : list K) : list R := map2g F delays columns.
End Group.

Section RD.
Context {T : Type} `{Num T}.
Local Open Scope num_scope.
(* _build_per_column_delays: default, per-sensor overrides in dict order, negated for predicted data *)
Definition build_delays (ncol : nat) (default : T) (overrides : list (list nat * T)) (predicted : bool) : list T :=
  let base := map (fun c => fold_left (fun d o => if mem_nat c (fst o) then snd o else d) overrides default) (seq 0 ncol) in
  if predicted then map (fun d => - d) base else base.
Definition F_resample (times new_times : list T) (d : T) (col : list T) : list T :=
  resample_col times col (map (fun t => t + d) new_times).
Definition apply_resample_and_delay (times : list T) (cols : list (list T)) (new_times : list T) (delays : list T) : list (list T) :=
  resample_grouped neqb (F_resample times new_times) [] cols [] delays.
Definition apply_resample_and_delay_columnwise (times : list T) (cols : list (list T)) (new_times : list T) (delays : list T)
  : list (list T) :=
  resample_columnwise (F_resample times new_times) cols delays.
End RD.
