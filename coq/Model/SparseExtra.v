(* Model of the remaining merge-type routines of src/engine/engine_util_sparse.c:
     mju_addToSparseMat   dst (nrow x dst_nnz, packed row-major, shared index vector) += scl * src
     mju_addChains / mj_mergeSorted   union of two sorted index chains
     mju_combineSparseInc   dst = a*dst + b*src at the indices of dst (pattern of dst unchanged)
     mju_addToSclSparseInc  dst += scl*src at the indices of dst
   A packed block is given as its index vector and the list of its rows of values. *)
From Coq Require Import ZArith List Bool Arith.
From MJV Require Import Lib.Num Model.Sparse.
Import ListNotations.

Section Extra.
Context {T : Type} `{Num T}.
Local Open Scope num_scope.

(* every packed row is merged like mju_combineSparse with a = 1, b = scl; the identical-pattern fast
   path (one mju_addToScl over all nrow*nnz values) computes the same values *)
Definition addToSparseMat (scl : T) (dind sind : list nat) (drows srows : list (list T)) : list nat * list (list T) :=
  let merged := map (fun p => combineSparse none scl (combine dind (fst p)) (combine sind (snd p))) (combine drows srows) in
  (map fst (combineSparse none scl (combine dind (repeat nzero (length dind))) (combine sind (repeat nzero (length sind)))),
   map (fun es => map snd es) merged).

Definition addChains (c1 c2 : list nat) : list nat :=
  map (fun e : nat * T => fst e) (combineSparse (T := T) none none (combine c1 (repeat nzero (length c1))) (combine c2 (repeat nzero (length c2)))).

Definition inSrc (i : nat) (src : list (nat * T)) : bool := existsb (fun e => Nat.eqb (fst e) i) src.
Definition combineSparseInc (a b : T) (dst src : list (nat * T)) : list T :=
  map (fun e => if inSrc (fst e) src then a * snd e + b * lk (fst e) src else a * snd e) dst.
Definition addToSclSparseInc (scl : T) (dst src : list (nat * T)) : list T :=
  map (fun e => if inSrc (fst e) src then snd e + scl * lk (fst e) src else snd e) dst.

End Extra.
