(* Model of src/engine/engine_sort.h (mjSORT, mjPARTIAL_SORT) and of mju_insertionSort(Int)
   in src/engine/engine_util_misc.c.  Definitions only; proofs are in Proof/SortProof.v. *)
From Coq Require Import List ZArith Bool.
Import ListNotations.
Open Scope Z_scope.

Section Sort.
Variable A : Type.
Variable cmp : A -> A -> Z.          (* negative / zero / positive, as the macro's cmp *)

Definition gt (a b : A) : bool := 0 <? cmp a b.
Definition le (a b : A) : bool := cmp a b <=? 0.
Definition lt (a b : A) : bool := cmp a b <? 0.

(* inner loop of _mjINSERTION_SORT: [rl] is the sorted prefix arr[start..j) in REVERSE order;
   scan from the right while cmp(arr[k], tmp) > 0 *)
Fixpoint ins_rev (x : A) (rl : list A) : list A :=
  match rl with
  | [] => [x]
  | y :: r => if gt y x then y :: ins_rev x r else x :: y :: r
  end.

Definition insertion_sort (l : list A) : list A :=
  rev (fold_left (fun rl x => ins_rev x rl) l []).

(* _mjMERGE *)
Fixpoint merge (l1 : list A) : list A -> list A :=
  fix merge_aux (l2 : list A) : list A :=
    match l1, l2 with
    | [], _ => l2
    | _, [] => l1
    | a :: r1, b :: r2 => if le a b then a :: merge r1 l2 else b :: merge_aux r2
    end.

Definition RUNSIZE : nat := 32.

(* runs [start, min(start+32,n)) *)
Fixpoint chunks (fuel : nat) (l : list A) : list (list A) :=
  match fuel with
  | O => []
  | S f => match l with
           | [] => []
           | _ => firstn RUNSIZE l :: chunks f (skipn RUNSIZE l)
           end
  end.

(* one pass `for start += 2*len`: adjacent runs merged, an odd last run copied *)
Fixpoint merge_pairs (rs : list (list A)) : list (list A) :=
  match rs with
  | a :: b :: r => merge a b :: merge_pairs r
  | _ => rs
  end.

(* `for (len = RUNSIZE; len < n; len *= 2)`: len < n iff more than one run is left *)
Fixpoint merge_all (fuel : nat) (rs : list (list A)) : list (list A) :=
  match fuel with
  | O => rs
  | S f => match rs with
           | [] | [_] => rs
           | _ => merge_all f (merge_pairs rs)
           end
  end.

Definition mjsort (l : list A) : list A :=
  concat (merge_all (length l) (map insertion_sort (chunks (length l) l))).

(* ---- mjPARTIAL_SORT: max-heap of size k in buf *)
Definition upd (l : list A) (i : nat) (x : A) : list A :=
  firstn i l ++ x :: skipn (S i) l.

(* the choice of `swap` in one iteration of _mjSIFT_DOWN: vr = buf[root], vc = buf[child],
   oc1 = Some buf[child+1] when child+1 < end.  Returns (swap, buf[swap]). *)
Definition pick (vr vc : A) (root child : nat) (oc1 : option A) : nat * A :=
  let s1 := if lt vr vc then (child, vc) else (root, vr) in
  match oc1 with
  | Some vc1 => if lt (snd s1) vc1 then (S child, vc1) else s1
  | None => s1
  end.

(* _mjSIFT_DOWN(buf, root, end) with fuel (root at least doubles in every iteration) *)
Fixpoint sift_down (fuel : nat) (buf : list A) (root endi : nat) : list A :=
  match fuel with
  | O => buf
  | S f =>
    let child := (2 * root + 1)%nat in
    if Nat.ltb child endi then
      match nth_error buf root, nth_error buf child with
      | Some vr, Some vc =>
        let oc1 := if Nat.ltb (S child) endi then nth_error buf (S child) else None in
        let sv := pick vr vc root child oc1 in
        if Nat.eqb (fst sv) root then buf
        else sift_down f (upd (upd buf root (snd sv)) (fst sv) vr) (fst sv) endi
      | _, _ => buf
      end
    else buf
  end.

(* for (j = (k-2)/2; j >= 0; j--) sift_down(buf, j, k): j ranges over js (descending) *)
Definition heapify (k : nat) (buf : list A) : list A :=
  fold_left (fun b j => sift_down k b j k) (rev (seq 0 (Z.to_nat (Z.quot (Z.of_nat k - 2) 2 + 1)))) buf.

Definition scan_rest (k : nat) (buf : list A) (rest : list A) : list A :=
  fold_left (fun b x =>
    match b with
    | [] => b
    | top :: _ => if lt x top then sift_down k (upd b 0 x) 0 k else b
    end) rest buf.

Definition partial_sort (l : list A) (k : Z) : list A :=
  if (k <=? 0) || (Z.of_nat (length l) <? k) then l
  else let kn := Z.to_nat k in
       let buf := scan_rest kn (heapify kn (firstn kn l)) (skipn kn l) in
       insertion_sort buf ++ skipn kn l.

End Sort.

(* mju_insertionSortInt: strict > on ints; mju_insertionSort on mjtNum is the same loop *)
Definition zcmp (a b : Z) : Z := a - b.
Definition insertion_sort_int (l : list Z) : list Z := insertion_sort Z zcmp l.

(* elements used by the correspondence: (key, tag), compared by key only *)
Definition kcmp (a b : Z * Z) : Z := fst a - fst b.
