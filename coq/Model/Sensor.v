(* Model of the parts of the sensor pipeline that C28 proves things about:

   1. the sensordata layout written by the compiler (src/user/user_model.cc, CopyObjects, the
      "sensors" loop:  adr = 0; for i { m->sensor_adr[i] = adr; adr += psen->dim; }  and
      nsensordata = sum of the dims, user_model.cc "nsensordata" loop),
   2. a sensor stage (mj_sensorPos / mj_sensorVel / mj_sensorAcc of src/engine/engine_sensor.c)
      seen as a loop over the sensors that writes sensor i only through
      d->sensordata + sensor_adr[i], sensor_dim[i] values,
   3. apply_cutoff (engine_sensor.c) with mju_clip / mju_min as written in engine_util_misc.c,
   4. the reference-frame change of the frame sensors (mj_computeSensorPos, mj_computeSensorVel).

   Numeric kernels are written once over Lib/Num (R for the proofs, binary64 for the runs).
   Definitions only. *)
From Coq Require Import ZArith List Bool.
From MJV Require Import Lib.Num Model.Spatial.
Import ListNotations.

(* ------------------------------------------------------------------ 1. layout *)
Fixpoint layout_from (adr : Z) (dims : list Z) : list Z :=
  match dims with
  | [] => []
  | d :: r => adr :: layout_from (adr + d)%Z r
  end.
Definition layout (dims : list Z) : list Z := layout_from 0 dims.
Definition nsensordata (dims : list Z) : Z := fold_left Z.add dims 0%Z.

(* index k lies in the slice (adr, dim) *)
Definition in_slice (adr dim k : Z) : Prop := (adr <= k < adr + dim)%Z.

(* ------------------------------------------------------------------ 2. stages *)
(* writing vals at address adr: what a sensor computation does to sensordata when it writes
   only through its pointer sensordata + adr, exactly (length vals) entries *)
Definition write {A : Type} (data : list A) (adr : Z) (vals : list A) : list A :=
  firstn (Z.to_nat adr) data ++ vals ++ skipn (Z.to_nat adr + length vals) data.

Definition slice {A : Type} (data : list A) (adr dim : Z) : list A :=
  firstn (Z.to_nat dim) (skipn (Z.to_nat adr) data).

(* a stage over the sensors i, i+1, ... whose addresses are adrs: sensor j is processed when
   sel j holds (needstage matches, not a plugin, not asleep ...); its values may depend on the
   whole current sensordata (compute j data) *)
Fixpoint stage {A : Type} (sel : nat -> bool) (compute : nat -> list A -> list A)
         (adrs : list Z) (i : nat) (data : list A) : list A :=
  match adrs with
  | [] => data
  | a :: r => stage sel compute r (S i) (if sel i then write data a (compute i data) else data)
  end.

(* ------------------------------------------------------------------ 3. cutoff *)
Section Cut.
Context {T : Type} `{Num T}.
Local Open Scope num_scope.

(* mju_clip(x, min, max) = x < min ? min : (x > max ? max : x) *)
Definition clip (x lo hi : T) : T := if x <? lo then lo else if hi <? x then hi else x.
(* mju_min(a, b) = a <= b ? a : b *)
Definition minc (a b : T) : T := if a <=? b then a else b.

(* mjtDataType: 0 REAL, 1 POSITIVE, 2 AXIS, 3 QUATERNION (checked against the header by the driver) *)
Definition DT_REAL : Z := 0.
Definition DT_POSITIVE : Z := 1.

Definition cut1 (c : T) (dt : Z) (x : T) : T :=
  if Z.eqb dt DT_REAL then clip x (- c) c
  else if Z.eqb dt DT_POSITIVE then minc c x
  else x.

(* apply_cutoff(m, i, data): exempt = (type == mjSENS_CONTACT || type == mjSENS_GEOMFROMTO);
   data has sensor_dim[i] entries *)
Definition apply_cutoff (c : T) (exempt : bool) (dt : Z) (data : list T) : list T :=
  if c <=? nzero then data
  else if exempt then data
  else map (cut1 c dt) data.

(* ------------------------------------------------------------------ 4. reference frames *)
(* mjSENS_FRAMEPOS with a reference: mju_sub3(rvec, xpos, xpos_ref); mju_mulMatTVec3(res, xmat_ref, rvec) *)
Definition frame_pos_ref (xpos xpos_ref : vec3 T) (xmat_ref : mat3 T) : vec3 T :=
  mulMatTVec3 xmat_ref (sub3 xpos xpos_ref).

(* column offset (0, 1, 2) of a row-major matrix: {xmat[offset], xmat[offset+3], xmat[offset+6]} *)
Definition mat_col (m : mat3 T) (offset : Z) : vec3 T :=
  let '(m0, m1, m2, m3, m4, m5, m6, m7, m8) := m in
  if Z.eqb offset 0 then (m0, m3, m6) else if Z.eqb offset 1 then (m1, m4, m7) else (m2, m5, m8).

(* mjSENS_FRAME[XYZ]AXIS with a reference *)
Definition frame_axis_ref (xmat : mat3 T) (offset : Z) (xmat_ref : mat3 T) : vec3 T :=
  mulMatTVec3 xmat_ref (mat_col xmat offset).

(* mjSENS_FRAMEQUAT with a reference: mju_negQuat(refquat, refquat); mju_mulQuat(res, refquat, objquat) *)
Definition frame_quat_ref (objquat refquat : quat T) : quat T := mulQuat (negQuat refquat) objquat.

(* mjSENS_FRAMELINVEL / FRAMEANGVEL with a reference.  Velocities are (angular, linear) in the
   global frame: rel = vel - vel_ref; rel_lin += cross(xpos - xpos_ref, ang_ref); both projected
   with xmat_ref^T.  Result: (angular, linear). *)
Definition frame_vel_ref (xpos xpos_ref : vec3 T) (xmat_ref : mat3 T)
           (ang lin ang_ref lin_ref : vec3 T) : vec3 T * vec3 T :=
  let rel_ang := sub3 ang ang_ref in
  let rel_lin := add3 (sub3 lin lin_ref) (cross (sub3 xpos xpos_ref) ang_ref) in
  (mulMatTVec3 xmat_ref rel_ang, mulMatTVec3 xmat_ref rel_lin).

End Cut.
