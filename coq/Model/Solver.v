(* Model of the projection kernels of the dual (PGS) solver in src/engine/engine_solver.c:
     projectEllipsoid, projectCone, the friction-loss box clip (mju_clip of engine_util_misc.c) and
     the scalar clamps of the PGS sweep,
   and of the accept-or-keep structure shared by the solver loops (costChange of the PGS sweep:
   "positive change: restore force"; main loop of mj_solPrimal: "no improvement: done").
   Written once over [Num T]; definitions only.  Floating-point expressions keep the association
   of the C source. *)
From Coq Require Import ZArith List Bool.
From MJV Require Import Lib.Num.
Import ListNotations.

Section Proj.
Context {T : Type} `{Num T}.
Local Open Scope num_scope.

Definition mjMINVAL : T := ndec 1 (-15).

(* mju_max(a, b) = a >= b ? a : b;  mju_clip(x, min, max) = x < min ? min : (x > max ? max : x) *)
Definition mju_max (a b : T) : T := if b <=? a then a else b.
Definition mju_clip (x lo hi : T) : T := if x <? lo then lo else if hi <? x then hi else x.

(* s = 0; for j < dim-1: s += friction[j]*friction[j] / (mu[j]*mu[j]);
   [fric] holds the dim-1 tangential components, [mu] = contact.friction (5 entries, dim-1 used) *)
Definition ell_s (fric mu : list T) : T :=
  fold_left (fun s p => s + fst p * fst p / (snd p * snd p)) (combine fric mu) nzero.

(* projectEllipsoid(friction, normal, mu, dim, feasible):
     normal2 = normal*normal;
     if (!feasible || s > normal2) { scl = sqrt(normal2 / max(mjMINVAL, s)); friction[j] *= scl } *)
Definition project_ellipsoid (fric : list T) (normal : T) (mu : list T) (feasible : bool) : list T :=
  let s := ell_s fric mu in
  let normal2 := normal * normal in
  if negb feasible || (normal2 <? s) then
    let scl := nsqrt (normal2 / mju_max mjMINVAL s) in
    map (fun x => x * scl) fric
  else fric.

(* projectCone(force, mu, dim, type): force = (f0 :: ft) is the block of the contact
   (dim entries for an elliptic contact; for every other type only force[0] is read or written) *)
Definition project_cone (force mu : list T) (elliptic : bool) : list T :=
  match force with
  | [] => []
  | f0 :: ft =>
    if elliptic then
      if f0 <? nzero then map (fun _ => nzero) force
      else f0 :: project_ellipsoid ft f0 mu true
    else
      if f0 <? nzero then nzero :: ft else force
  end.

(* scalar rows of the PGS sweep after the unconstrained update:
   friction loss: if (f < -floss) f = -floss; else if (f > floss) f = floss;
   limit / contact rows: if (f < 0) f = 0 *)
Definition pgs_clamp_friction (f floss : T) : T :=
  if f <? - floss then - floss else if floss <? f then floss else f.
Definition pgs_clamp_unilateral (f : T) : T := if f <? nzero then nzero else f.

End Proj.

(* ---- accept-or-keep loops.  [propose k x] is the candidate produced at iteration k from the
   current point (None: the termination test fired); [accept y x] is the acceptance test of the
   candidate y against the current point x; a rejected candidate ends the loop with the current
   point (mj_solPrimal: "no improvement: done") *)
Fixpoint guarded_loop {X : Type} (accept : X -> X -> bool) (propose : nat -> X -> option X)
                      (fuel k : nat) (x : X) : X :=
  match fuel with
  | O => x
  | S fuel' =>
    match propose k x with
    | None => x
    | Some y => if accept y x then guarded_loop accept propose fuel' (S k) y else x
    end
  end.

(* the PGS variant: a rejected block update restores the old force and the sweep goes on
   (costChange: "positive change: restore force") *)
Fixpoint guarded_sweep {X : Type} (accept : X -> X -> bool) (propose : nat -> X -> X)
                       (fuel k : nat) (x : X) : X :=
  match fuel with
  | O => x
  | S fuel' =>
    let y := propose k x in
    guarded_sweep accept propose fuel' (S k) (if accept y x then y else x)
  end.
