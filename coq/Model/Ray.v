(* Model of src/engine/engine_ray.c: ray_eliminate, the min-selection loop of mj_ray (and of
   mju_singleRay / mj_multiRay), ray_quad, ray_map, ray_plane, ray_sphere, ray_box and the dispatch of
   mju_rayGeom for plane / sphere / box.  Definitions only; proofs are in Proof/RayProof.v.
   Numeric kernels are written once over [Num T] (R for proofs, PrimFloat for running). *)
From Coq Require Import List ZArith Bool.
From MJV Require Import Lib.Num.
Import ListNotations.

(* ------------------------------------------------------------------ geom elimination *)
Open Scope Z_scope.

(* ray_eliminate: 1 = the geom is skipped.  [geom_alpha0]: geom_rgba[3] == 0; [mat_alpha0]: the alpha of
   the geom's material is 0 (read only when matid >= 0); geomgroup = None is the NULL pointer. *)
Definition ray_eliminate (bodyid bodyexclude matid : Z) (geom_alpha0 mat_alpha0 flg_static : bool)
           (weld : Z) (geomgroup : option (list Z)) (group : Z) : bool :=
  if bodyid =? bodyexclude then true
  else if (matid <? 0) && geom_alpha0 then true
  else if (0 <=? matid) && mat_alpha0 then true
  else if negb flg_static && (weld =? 0) then true
  else match geomgroup with
       | None => false
       | Some gg => nth (Z.to_nat (Z.min 5 (Z.max 0 group))) gg 0 =? 0     (* mjNGROUP = 6 *)
       end.

(* ------------------------------------------------------------------ nearest-hit selection *)
Section Select.
Variable D : Type.                (* distances: any type with a three-way comparison *)
Variable dcmp : D -> D -> Z.
Variable zero minus1 : D.         (* 0 and the initial value -1 *)

Definition dlt (a b : D) : bool := dcmp a b <? 0.
Definition dge0 (a : D) : bool := 0 <=? dcmp a zero.
Definition dlt0 (a : D) : bool := dcmp a zero <? 0.

(* one iteration of `for (i...) if (!ray_eliminate(..)) { newdist = ...;
     if (newdist >= 0 && (newdist < dist || dist < 0)) { dist = newdist; *geomid = i; } }`
   a geom is (eliminated, distance reported by its ray function) *)
Definition ray_step (cur : D * Z) (i : Z) (g : bool * D) : D * Z :=
  if fst g then cur
  else if dge0 (snd g) && (dlt (snd g) (fst cur) || dlt0 (fst cur)) then (snd g, i) else cur.

Fixpoint ray_loop (cur : D * Z) (i : Z) (gs : list (bool * D)) : D * Z :=
  match gs with
  | [] => cur
  | g :: r => ray_loop (ray_step cur i g) (i + 1) r
  end.

(* mj_ray: (distance, geom id) *)
Definition ray_select (gs : list (bool * D)) : D * Z := ray_loop (minus1, -1) 0 gs.

(* mju_singleRay: the same loop (bodies in order, geoms of a body in order = geom id order) with extra
   per-ray culling: [pre] i = geom i is skipped by the cutoff / body bounding sphere / bounding angles *)
Definition single_ray (pre : list bool) (gs : list (bool * D)) : D * Z :=
  ray_select (map (fun pg => (fst pg || fst (snd pg), snd (snd pg))) (combine pre gs)).

(* mj_multiRay: one single_ray per ray; [rays] = per ray (culling flags, per-geom distances);
   the elimination flags of ray_eliminate are shared *)
Definition multi_ray (elim : list bool) (rays : list (list bool * list D)) : list (D * Z) :=
  map (fun r => single_ray (fst r) (combine elim (snd r))) rays.

Definition multi_ray_ref (elim : list bool) (rays : list (list bool * list D)) : list (D * Z) :=
  map (fun r => ray_select (combine elim (snd r))) rays.

End Select.

Definition zcmp (a b : Z) : Z := a - b.

(* ------------------------------------------------------------------ numeric kernels *)
Section Kernels.
Context {T : Type} `{Num T}.
Local Open Scope num_scope.

Definition minval : T := ndec 1 (-15).       (* mjMINVAL *)
Definition neg1 : T := nopp none.              (* -1 *)

Definition vec3 : Type := (T * T * T)%type.
Definition mat9 : Type := (T * T * T * T * T * T * T * T * T)%type.

Definition dot3 (a b : vec3) : T :=
  match a, b with (a0, a1, a2), (b0, b1, b2) => a0 * b0 + a1 * b1 + a2 * b2 end.
Definition sub3 (a b : vec3) : vec3 :=
  match a, b with (a0, a1, a2), (b0, b1, b2) => (a0 - b0, a1 - b1, a2 - b2) end.

(* mat' * v, with the operation order of ray_map *)
Definition mulT (m : mat9) (v : vec3) : vec3 :=
  match m, v with
  | (m0, m1, m2, m3, m4, m5, m6, m7, m8), (v0, v1, v2) =>
    (m0 * v0 + m3 * v1 + m6 * v2, m1 * v0 + m4 * v1 + m7 * v2, m2 * v0 + m5 * v1 + m8 * v2)
  end.

(* ray_map: (lpnt, lvec) *)
Definition ray_map (pos : vec3) (mat : mat9) (pnt vec : vec3) : vec3 * vec3 :=
  (mulT mat (sub3 pnt pos), mulT mat vec).

(* ray_quad: (x0, x1, returned value) for a*x^2 + 2*b*x + c = 0 *)
Definition ray_quad (a b c : T) : T * T * T :=
  let det := b * b - a * c in
  if (det <? nzero) || (a <? minval) then (neg1, neg1, neg1)
  else
    let s := nsqrt det in
    let x0 := (nopp b - s) / a in
    let x1 := (nopp b + s) / a in
    (x0, x1, if nzero <=? x0 then x0 else if nzero <=? x1 then x1 else neg1).

Definition quad_ret (q : T * T * T) : T := snd q.

(* ray_sphere(pos, mat, dist_sqr, pnt, vec) *)
Definition ray_sphere (pos : vec3) (dist_sqr : T) (pnt vec : vec3) : T :=
  let dif := sub3 pnt pos in
  quad_ret (ray_quad (dot3 vec vec) (dot3 vec dif) (dot3 dif dif - dist_sqr)).

(* ray_plane *)
Definition ray_plane (pos : vec3) (mat : mat9) (size : vec3) (pnt vec : vec3) : T :=
  match ray_map pos mat pnt vec, size with
  | ((l0, l1, l2), (v0, v1, v2)), (s0, s1, _) =>
    if nopp minval <? v2 then neg1
    else
      let x := nopp l2 / v2 in
      if x <? nzero then neg1
      else
        let p0 := l0 + x * v0 in
        let p1 := l1 + x * v1 in
        if ((s0 <=? nzero) || (nabs p0 <=? s0)) && ((s1 <=? nzero) || (nabs p1 <=? s1)) then x else neg1
  end.

(* one face of ray_box: axis value (li, vi, si), the two other axes (lj, vj, sj), (lk, vk, sk), side = -1 / 1;
   Some sol when the face is hit at sol >= 0 inside its rectangle *)
Definition box_face (li vi si lj vj sj lk vk sk side : T) : option T :=
  if minval <? nabs vi then
    let sol := (side * si - li) / vi in
    if nzero <=? sol then
      let p0 := lj + sol * vj in
      let p1 := lk + sol * vk in
      if (nabs p0 <=? sj) && (nabs p1 <=? sk) then Some sol else None
    else None
  else None.

(* `if (x < 0 || sol < x) x = sol` *)
Definition box_upd (x : T) (c : option T) : T :=
  match c with
  | Some sol => if (x <? nzero) || (sol <? x) then sol else x
  | None => x
  end.

(* the face loop of ray_box in local coordinates: axes 0,1,2, sides -1 then 1 *)
Definition box_local (l v s : vec3) : T :=
  match l, v, s with
  | (l0, l1, l2), (v0, v1, v2), (s0, s1, s2) =>
    fold_left box_upd
      [ box_face l0 v0 s0 l1 v1 s1 l2 v2 s2 neg1; box_face l0 v0 s0 l1 v1 s1 l2 v2 s2 none;
        box_face l1 v1 s1 l0 v0 s0 l2 v2 s2 neg1; box_face l1 v1 s1 l0 v0 s0 l2 v2 s2 none;
        box_face l2 v2 s2 l0 v0 s0 l1 v1 s1 neg1; box_face l2 v2 s2 l0 v0 s0 l1 v1 s1 none ] neg1
  end.

(* ray_box: bounding-sphere pretest, then the face loop *)
Definition ray_box (pos : vec3) (mat : mat9) (size : vec3) (pnt vec : vec3) : T :=
  if ray_sphere pos (dot3 size size) pnt vec <? nzero then neg1
  else box_local (fst (ray_map pos mat pnt vec)) (snd (ray_map pos mat pnt vec)) size.

(* mju_rayGeom for the modelled types: mjGEOM_PLANE = 0, mjGEOM_SPHERE = 2, mjGEOM_BOX = 6 *)
Definition rayGeom (pos : vec3) (mat : mat9) (size : vec3) (pnt vec : vec3) (geomtype : Z) : T :=
  if (geomtype =? 0)%Z then ray_plane pos mat size pnt vec
  else if (geomtype =? 2)%Z then (match size with (s0, _, _) => ray_sphere pos (s0 * s0) pnt vec end)
  else ray_box pos mat size pnt vec.

End Kernels.
