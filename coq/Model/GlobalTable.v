(* Model of src/engine/engine_global_table.h (GlobalTable<T>: AppendIfUnique, GetAtSlot(Unsafe),
   GetByKey(Unsafe), ReentrantWriteLock) and of its use by the extension registries of
   engine_plugin.cc.  Two executable models:
   (1) a sequential functional specification (append / get_at_slot / get_by_key on a table value),
       compared with the real registries through the public mjp_* API;
   (2) an interleaving (sequentially consistent) small-step semantics of any number of threads that
       register and look up concurrently, in which an object is copied into its slot FIELD BY FIELD
       (key first, then value) so that torn objects exist in the state space, and every plain read of a
       slot field by a reader is its own step.  Implementation event logs are replayed through [step].
   Definitions only. *)
From Coq Require Import ZArith List Bool.
From MJV Require Import Lib.Eqb.
Import ListNotations.
Open Scope Z_scope.

Definition key := list Z.                       (* characters of the key *)
Record obj := mkObj { okey : key; oval : Z }.   (* an extension object: its key and the rest of it *)
Definition empty_obj : obj := mkObj [] 0.       (* value-initialised slot: empty key *)
Definition BLOCK : Z := 15.                     (* TableBlock<T>::kBlockSize *)

Definition lower (c : Z) : Z := if (65 <=? c) && (c <=? 90) then c + 32 else c.
Definition key_eqb (a b : key) : bool := list_eqb Z.eqb a b.
Definition ci_eq (a b : key) : bool := key_eqb (map lower a) (map lower b).   (* CaseInsensitiveEqual *)
Definition key_empty (k : key) : bool := match k with [] => true | _ => false end.
(* ObjectEqual: the plugin table compares names case-sensitively, the resource-provider table
   case-insensitively; [ci] selects which *)
Definition obj_eq (ci : bool) (a b : obj) : bool :=
  (if ci then ci_eq (okey a) (okey b) else key_eqb (okey a) (okey b)) && (oval a =? oval b).

Fixpoint upd {A} (i : nat) (x : A) (l : list A) : list A :=
  match l, i with
  | [], _ => []
  | _ :: r, O => x :: r
  | y :: r, S i' => y :: upd i' x r
  end.

(* ------------------------------------------------------------------ (1) sequential specification *)
Record tbl := mkT { tcnt : Z; tslots : list obj }.   (* count_, and the chain of blocks flattened *)
Definition tinit : tbl := mkT 0 (repeat empty_obj 15).

(* the scan of AppendIfUnique over the first n slots *)
Fixpoint scan (k : key) (l : list obj) (n : nat) (i : Z) : option (Z * obj) :=
  match n, l with
  | S n', o :: r => if ci_eq k (okey o) then Some (i, o) else scan k r n' (i + 1)
  | _, _ => None
  end.

(* the scan of GetByKeyUnsafe over the first n slots: gives up at an empty key *)
Fixpoint find_key (k : key) (l : list obj) (n : nat) (i : Z) : option (Z * obj) :=
  match n, l with
  | S n', o :: r =>
      if key_empty (okey o) then None
      else if ci_eq (okey o) k then Some (i, o) else find_key k r n' (i + 1)
  | _, _ => None
  end.

(* a new block is allocated when the last allocated block is full *)
Definition grow (c : Z) (l : list obj) : list obj :=
  if (c mod 15 =? 0) && (0 <? c) then firstn (Z.to_nat c) l ++ repeat empty_obj 15 else l.

(* AppendIfUnique: new table and returned slot (-1 = mju_error) *)
Definition append (ci : bool) (t : tbl) (o : obj) : tbl * Z :=
  match scan (okey o) (tslots t) (Z.to_nat (tcnt t)) 0 with
  | Some (i, e) => (t, if obj_eq ci o e then i else -1)
  | None => (mkT (tcnt t + 1) (upd (Z.to_nat (tcnt t)) o (grow (tcnt t) (tslots t))), tcnt t)
  end.

Definition get_at_slot (t : tbl) (s nslot : Z) : option obj :=
  if (s <? 0) || (nslot <=? s) then None
  else match nth_error (tslots t) (Z.to_nat s) with
       | Some o => if key_empty (okey o) then None else Some o
       | None => None
       end.

Definition get_by_key (t : tbl) (k : key) (nslot : Z) : option (Z * obj) :=
  if key_empty k then None else find_key k (tslots t) (Z.to_nat nslot) 0.

(* histories of the sequential API, as run against the real registries *)
Inductive sop := OpAppend (o : obj) | OpSlot (s : Z) | OpKey (k : key) | OpCount.
Inductive sres := RSlot (r : Z) | RNone | RSome (i : Z) (o : obj) | RCount (c : Z).

Definition sstep (ci : bool) (t : tbl) (op : sop) : tbl * sres :=
  match op with
  | OpAppend o => let (t', r) := append ci t o in (t', RSlot r)
  | OpSlot s => (t, match get_at_slot t s (tcnt t) with Some o => RSome s o | None => RNone end)
  | OpKey k => (t, match get_by_key t k (tcnt t) with Some (i, o) => RSome i o | None => RNone end)
  | OpCount => (t, RCount (tcnt t))
  end.

Fixpoint srun (ci : bool) (t : tbl) (ops : list sop) : list sres :=
  match ops with
  | [] => []
  | op :: r => let (t', x) := sstep ci t op in x :: srun ci t' r
  end.

Definition obj_eqb (a b : obj) : bool := key_eqb (okey a) (okey b) && (oval a =? oval b).
Definition sres_eqb (a b : sres) : bool :=
  match a, b with
  | RSlot x, RSlot y => x =? y
  | RNone, RNone => true
  | RSome i o, RSome j p => (i =? j) && obj_eqb o p
  | RCount x, RCount y => x =? y
  | _, _ => false
  end.

(* ------------------------------------------------------------------ (2) interleaving semantics *)
Inductive ev :=
| ECallAppend (o : obj) | ERetAppend (r : Z)
| ECallSlot (s : Z) | ECallKey (k : key) | ERetNone | ERetSome (i : Z) (o : obj)
| ELock | EUnlock                         (* the table mutex (only outermost lock/unlock of a thread) *)
| ELoadCnt (c : Z) | EStoreCnt (c : Z)    (* count_.load / count_.store *)
| EWriteKey (i : Z) (k : key) | EWriteVal (i v : Z)   (* CopyObject, field by field *)
| EReadKey (i : Z) (k : key) | EReadVal (i v : Z).    (* plain reads of a slot's fields *)

Inductive tpc :=
| TIdle
(* AppendIfUnique(o) *)
| ALock (o : obj)                 (* at mutex_.lock() *)
| ALoad (o : obj)                 (* lock held; at count_.load() *)
| AScan (o : obj) (c i : Z)       (* about to read the key of slot i < c *)
| AEq (o : obj) (c i : Z)         (* keys matched; ObjectEqual about to read the rest of slot i *)
| ACopyK (o : obj) (c : Z)        (* CopyObject: about to write the key of slot c *)
| ACopyV (o : obj) (c : Z)        (* about to write the value of slot c *)
| AStore (o : obj) (c : Z)        (* at count_.store(c + 1) *)
| AUnlock (o : obj) (r : Z)       (* at mutex_.unlock() *)
| ARet (o : obj) (r : Z)          (* about to return r *)
(* GetAtSlot(s) *)
| SLoad (s : Z)                   (* at count_.load() *)
| SKey (s : Z)                    (* about to read the key of slot s (the "initialised?" check) *)
(* GetByKey(k) *)
| KLoad (k : key)
| KScan (k : key) (i nslot : Z)   (* about to read the key of slot i < nslot *)
(* both lookups: the caller dereferences the returned pointer *)
| RVal (i : Z) (k : key)          (* about to read the value of slot i, whose key was read as k *)
| RRet (r : option (Z * obj)).    (* about to return r *)

Record thread := mkTh { held : bool;    (* holds the table lock through an outer LockExclusively() *)
                        pc : tpc }.

Record st := mkSt {
  cnt : Z;                 (* count_ *)
  slots : list obj;        (* all allocated slots, in slot order *)
  lk : bool;               (* mutex held *)
  ths : list thread;
  reg : list obj           (* ghost: the objects whose registration completed, in slot order *)
}.

Definition init (nthreads : nat) : st :=
  mkSt 0 (repeat empty_obj 15) false (repeat (mkTh false TIdle) nthreads) [].

Definition slot_at (s : st) (i : Z) : obj := nth (Z.to_nat i) (slots s) empty_obj.
Definition in_chain (s : st) (i : Z) : bool := (0 <=? i) && (i <? Z.of_nat (length (slots s))).

Definition set_key (o : obj) (k : key) : obj := mkObj k (oval o).
Definition set_val (o : obj) (v : Z) : obj := mkObj (okey o) v.

(* thread-local continuation helpers (no event of their own) *)
Definition after_scan (s : st) (o : obj) (c i : Z) : st * tpc :=
  if i <? c then (s, AScan o c i)
  else (mkSt (cnt s) (grow c (slots s)) (lk s) (ths s) (reg s), ACopyK o c).
Definition finish (h : bool) (o : obj) (r : Z) : tpc := if h then ARet o r else AUnlock o r.
Definition after_kscan (s : st) (k : key) (i nslot : Z) : tpc :=
  if (i <? nslot) && in_chain s i then KScan k i nslot else RRet None.

(* one step of a thread whose record is [t]; returns the new shared state and the thread's new record *)
Definition tstep (s : st) (t : thread) (e : ev) : option (st * thread) :=
  let h := held t in
  let ret (s' : st) (p : tpc) := Some (s', mkTh h p) in
  match pc t, e with
  | TIdle, ECallAppend o => ret s (if h then ALoad o else ALock o)
  | TIdle, ECallSlot i => ret s (SLoad i)
  | TIdle, ECallKey k => ret s (KLoad k)
  | TIdle, ELock =>
      if negb h && negb (lk s) then Some (mkSt (cnt s) (slots s) true (ths s) (reg s), mkTh true TIdle) else None
  | TIdle, EUnlock =>
      if h then Some (mkSt (cnt s) (slots s) false (ths s) (reg s), mkTh false TIdle) else None
  | ALock o, ELock =>
      if negb (lk s) then ret (mkSt (cnt s) (slots s) true (ths s) (reg s)) (ALoad o) else None
  | ALoad o, ELoadCnt c =>
      if c =? cnt s then let (s', p) := after_scan s o c 0 in ret s' p else None
  | AScan o c i, EReadKey j k =>
      if (j =? i) && key_eqb k (okey (slot_at s i)) then
        if ci_eq (okey o) k then ret s (AEq o c i)
        else let (s', p) := after_scan s o c (i + 1) in ret s' p
      else None
  | AEq o c i, EReadVal j v =>
      if (j =? i) && (v =? oval (slot_at s i)) then
        ret s (finish h o (if obj_eq false o (slot_at s i) then i else -1))
      else None
  | ACopyK o c, EWriteKey j k =>
      if (j =? c) && key_eqb k (okey o) then
        ret (mkSt (cnt s) (upd (Z.to_nat c) (set_key (slot_at s c) k) (slots s)) (lk s) (ths s) (reg s)) (ACopyV o c)
      else None
  | ACopyV o c, EWriteVal j v =>
      if (j =? c) && (v =? oval o) then
        ret (mkSt (cnt s) (upd (Z.to_nat c) (set_val (slot_at s c) v) (slots s)) (lk s) (ths s) (reg s)) (AStore o c)
      else None
  | AStore o c, EStoreCnt c' =>
      if c' =? c + 1 then ret (mkSt (c + 1) (slots s) (lk s) (ths s) (reg s ++ [o])) (finish h o c) else None
  | AUnlock o r, EUnlock => ret (mkSt (cnt s) (slots s) false (ths s) (reg s)) (ARet o r)
  | ARet o r, ERetAppend r' => if r' =? r then ret s TIdle else None
  (* GetAtSlot *)
  | SLoad i, ELoadCnt c =>
      if c =? cnt s then
        ret s (if (i <? 0) || (c <=? i) || negb (in_chain s i) then RRet None else SKey i)
      else None
  | SKey i, EReadKey j k =>
      if (j =? i) && key_eqb k (okey (slot_at s i)) then
        ret s (if key_empty k then RRet None else RVal i k)
      else None
  (* GetByKey *)
  | KLoad k, ELoadCnt c =>
      if c =? cnt s then ret s (if key_empty k then RRet None else after_kscan s k 0 c) else None
  | KScan k i n, EReadKey j k' =>
      if (j =? i) && key_eqb k' (okey (slot_at s i)) then
        ret s (if key_empty k' then RRet None
               else if ci_eq k' k then RVal i k' else after_kscan s k (i + 1) n)
      else None
  | RVal i k, EReadVal j v =>
      if (j =? i) && (v =? oval (slot_at s i)) then ret s (RRet (Some (i, mkObj k v))) else None
  | RRet None, ERetNone => ret s TIdle
  | RRet (Some (i, o)), ERetSome j p => if (j =? i) && obj_eqb o p then ret s TIdle else None
  | _, _ => None
  end.

(* labelled step: thread number n (position in [ths]) performs event e *)
Definition step (s : st) (n : nat) (e : ev) : option st :=
  match nth_error (ths s) n with
  | Some t =>
      match tstep s t e with
      | Some (s', t') => Some (mkSt (cnt s') (slots s') (lk s') (upd n t' (ths s)) (reg s'))
      | None => None
      end
  | None => None
  end.

Fixpoint run (s : st) (l : list (Z * ev)) : option st :=
  match l with
  | [] => Some s
  | (t, e) :: r =>
      if t <? 0 then None
      else match step s (Z.to_nat t) e with Some s' => run s' r | None => None end
  end.

Fixpoint run_prefix (s : st) (l : list (Z * ev)) (n : Z) : Z :=
  match l with
  | [] => n
  | (t, e) :: r =>
      if t <? 0 then n
      else match step s (Z.to_nat t) e with Some s' => run_prefix s' r (n + 1) | None => n end
  end.

Definition idle_b (t : thread) : bool := negb (held t) && match pc t with TIdle => true | _ => false end.

(* checker for one implementation log of [nthreads] threads: accepted, every thread back to idle,
   lock free, and the published count equals the number of completed registrations *)
Definition accepts (nthreads : Z) (l : list (Z * ev)) : bool :=
  match run (init (Z.to_nat nthreads)) l with
  | Some s => forallb idle_b (ths s) && negb (lk s) && (cnt s =? Z.of_nat (length (reg s)))
  | None => false
  end.
