(* C34 — model of name lookup: mj_hashString, the per-type hash tables built by namelist/CopyNames
   (src/user/user_model.cc), the concatenated names buffer with name_*adr offsets, _getnumadr,
   mj_name2id and mj_id2name (src/engine/engine_name.c).  Definitions only. *)
From Coq Require Import List ZArith Bool Lia.
Import ListNotations.
Open Scope Z_scope.

(* a name is the list of its bytes (1..255), without the terminating NUL *)
Definition name := list Z.

Fixpoint name_eqb (a b : name) : bool :=
  match a, b with
  | [], [] => true
  | x :: a', y :: b' => Z.eqb x y && name_eqb a' b'
  | _, _ => false
  end.

Definition is_empty (s : name) : bool := match s with [] => true | _ => false end.

(* ---------------- mj_hashString ---------------- *)
Definition m64 : Z := 2 ^ 64.
(* `int c = *s` with char signed, then `^ c` converts to uint64_t: sign extension *)
Definition sext (c : Z) : Z := if c <? 128 then c else c - 256 + m64.
Definition hash_step (h c : Z) : Z := Z.lxor ((h * 33) mod m64) (sext c).    (* ((h << 5) + h) ^ c *)
Definition hash64 (s : name) : Z := fold_left hash_step s 5381.
Definition hashString (s : name) (n : Z) : Z := hash64 s mod n.
Definition hashN (s : name) (size : nat) : nat := Z.to_nat (hashString s (Z.of_nat size)).

(* ---------------- one hash table ---------------- *)
Definition table := list (option nat).     (* None = -1 *)

(* slots visited from h: h, h+1, ..., size-1, 0, ..., h-1   (`j = (j+1) % size` / `if (++i == num) i = 0`) *)
Definition probe_seq (h size : nat) : list nat := seq h (size - h) ++ seq 0 h.

Definition slot (tbl : table) (p : nat) : option nat := nth p tbl None.

Fixpoint update (tbl : table) (p : nat) (v : option nat) : table :=
  match tbl, p with
  | [], _ => []
  | _ :: r, O => v :: r
  | x :: r, S p' => x :: update r p' v
  end.

(* for (; map[j] != -1; j = (j + 1) % map_size) {}   — bounded by one table cycle; None if no free slot *)
Fixpoint find_free (tbl : table) (ps : list nat) : option nat :=
  match ps with
  | [] => None
  | p :: r => match slot tbl p with None => Some p | Some _ => find_free tbl r end
  end.

(* do { j = map[i]; if (j < 0) return -1; if (name matches j) return j; if (++i == num) i = 0; } while (i != hash) *)
Fixpoint lookup_seq (rd : nat -> option nat) (eqn : nat -> bool) (ps : list nat) : option nat :=
  match ps with
  | [] => None
  | p :: r => match rd p with
              | None => None
              | Some j => if eqn j then Some j else lookup_seq rd eqn r
              end
  end.

Section Table.
  Variable hash : name -> nat -> nat.

  Definition insert (tbl : table) (size i : nat) (s : name) : option table :=
    match find_free tbl (probe_seq (hash s size) size) with
    | Some p => Some (update tbl p (Some i))
    | None => None
    end.

  (* first loop of namelist: ids in increasing order, empty names skipped *)
  Fixpoint build_from (tbl : table) (size i : nat) (names : list name) : option table :=
    match names with
    | [] => Some tbl
    | s :: r => if is_empty s then build_from tbl size (S i) r
                else match insert tbl size i s with
                     | Some t' => build_from t' size (S i) r
                     | None => None
                     end
    end.

  Definition build (M : nat) (names : list name) : option table :=
    let size := (M * length names)%nat in
    build_from (repeat None size) size 0 names.

  (* lookup in the table of one type, names compared directly *)
  Definition name2id1 (M : nat) (names : list name) (tbl : table) (s : name) : option nat :=
    let size := (M * length names)%nat in
    if (size =? 0)%nat then None
    else lookup_seq (slot tbl) (fun j => name_eqb s (nth j names [])) (probe_seq (hash s size) size).

  Definition id2name1 (names : list name) (i : Z) : option name :=
    if (0 <=? i) && (i <? Z.of_nat (length names)) then
      let s := nth (Z.to_nat i) names [] in if is_empty s then None else Some s
    else None.

  (* ---------------- the whole model: all object types in the order of CopyNames ---------------- *)
  Fixpoint sum (l : list nat) : nat := match l with [] => 0%nat | x :: r => (x + sum r)%nat end.

  Fixpoint mapM {A B} (f : A -> option B) (l : list A) : option (list B) :=
    match l with
    | [] => Some []
    | x :: r => match f x, mapM f r with Some y, Some ys => Some (y :: ys) | _, _ => None end
    end.

  (* CopyNames: names_map = the tables one after the other *)
  Definition names_map (M : nat) (types : list (list name)) : option table :=
    option_map (@concat _) (mapM (build M) types).

  (* mj_makeModel *)
  Definition nnames_map (M : nat) (types : list (list name)) : nat := (M * sum (map (@length name) types))%nat.

  (* CopyNames: map_adr advanced by M * size of every earlier list *)
  Definition mapadr_copy (M : nat) (types : list (list name)) (k : nat) : nat :=
    (M * sum (map (@length name) (firstn k types)))%nat.

  (* _getnumadr: start at nnames_map, subtract M * count of type k and of every later type *)
  Definition mapadr_switch (M : nat) (types : list (list name)) (k : nat) : nat :=
    (nnames_map M types - M * sum (map (@length name) (skipn k types)))%nat.

  (* names buffer: model name, then every name of every type, each NUL-terminated *)
  Definition cstr (s : name) : list Z := s ++ [0].
  Definition names_buf (modelname : name) (types : list (list name)) : list Z :=
    cstr modelname ++ flat_map (fun ns => flat_map cstr ns) types.
  Definition blen (ns : list name) : nat := sum (map (fun s => S (length s)) ns).
  Definition name_adr (modelname : name) (types : list (list name)) (k j : nat) : nat :=
    (S (length modelname) + sum (map blen (firstn k types)) + blen (firstn j (nth k types [])))%nat.

  (* !strncmp(s, buf, n): s is NUL-terminated, at most n characters compared *)
  Fixpoint strncmp_eq (s : name) (buf : list Z) (n : nat) : bool :=
    match n with
    | O => true
    | S n' =>
        match s, buf with
        | [], b :: _ => Z.eqb b 0
        | c :: s', b :: buf' => Z.eqb c b && strncmp_eq s' buf' n'
        | _, [] => false     (* would read past the buffer: never happens for n <= |buf| *)
        end
    end.

  (* mj_name2id for the type at position k of the order *)
  Definition name2id (M : nat) (modelname : name) (types : list (list name)) (map : table) (k : nat) (s : name) : option nat :=
    let ns := nth k types [] in
    let size := (M * length ns)%nat in
    let buf := names_buf modelname types in
    let off := mapadr_switch M types k in
    if (size =? 0)%nat then None
    else lookup_seq (fun p => slot map (off + p))
                    (fun j => let a := name_adr modelname types k j in strncmp_eq s (skipn a buf) (length buf - a))
                    (probe_seq (hash s size) size).

  (* the C string stored at an address *)
  Fixpoint read_cstr (buf : list Z) : name :=
    match buf with
    | [] => []
    | b :: r => if Z.eqb b 0 then [] else b :: read_cstr r
    end.

  (* mj_id2name *)
  Definition id2name (modelname : name) (types : list (list name)) (k : nat) (i : Z) : option name :=
    let ns := nth k types [] in
    if (0 <=? i) && (i <? Z.of_nat (length ns)) then
      let a := name_adr modelname types k (Z.to_nat i) in
      let buf := names_buf modelname types in
      if Z.eqb (nth a buf 0) 0 then None else Some (read_cstr (skipn a buf))
    else None.
End Table.

(* well-formed names: bytes 1..255 *)
Definition name_ok (s : name) : Prop := Forall (fun c => 0 < c < 256) s.

(* names of one type: the non-empty ones are pairwise distinct *)
Definition distinct_names (names : list name) : Prop :=
  forall i j, (i < length names)%nat -> (j < length names)%nat ->
              nth i names [] <> [] -> nth i names [] = nth j names [] -> i = j.

(* ---------------- interpretation of the generated order tables (Gen/ObjOrder.v) ---------------- *)
From Coq Require Import String.

Fixpoint sassoc {A} (k : string) (l : list (string * A)) : option A :=
  match l with
  | [] => None
  | (k', a) :: r => if String.eqb k k' then Some a else sassoc k r
  end.

Definition pair_eqb (a b : string * string) : bool := String.eqb (fst a) (fst b) && String.eqb (snd a) (snd b).

Fixpoint plist_eqb (a b : list (string * string)) : bool :=
  match a, b with
  | [], [] => true
  | x :: a', y :: b' => pair_eqb x y && plist_eqb a' b'
  | _, _ => false
  end.

Fixpoint slist_eqb (a b : list string) : bool :=
  match a, b with
  | [], [] => true
  | x :: a', y :: b' => String.eqb x y && slist_eqb a' b'
  | _, _ => false
  end.

(* (count field, name address array) sequence according to the switch of _getnumadr *)
Definition order_of_switch (sw : list (list string * (string * string))) : list (string * string) := map snd sw.

(* ... and according to the namelist calls of CopyNames, with the object lists replaced by their count fields *)
Definition order_of_copy (cp : list (string * string)) (lc : list (string * string)) : list (string * string) :=
  map (fun la => (match sassoc (fst la) lc with Some c => c | None => "?"%string end, snd la)) cp.

Definition sset_eqb (a b : list string) : bool :=
  forallb (fun x => existsb (String.eqb x) b) a && forallb (fun x => existsb (String.eqb x) a) b &&
  Nat.eqb (List.length a) (List.length b).

Fixpoint snodup (l : list string) : bool :=
  match l with [] => true | x :: r => negb (existsb (String.eqb x) r) && snodup r end.

Fixpoint all_eqZ (l : list (string * Z)) (v : Z) : bool :=
  match l with [] => true | (_, x) :: r => Z.eqb x v && all_eqZ r v end.

(* the orders agree, the sum of mj_makeModel is over exactly the same count fields, no count field or address array
   is used twice, every mjOBJ_ label occurs once, and all definitions of mjLOAD_MULTIPLE have the same positive value *)
Definition order_ok (sw : list (list string * (string * string))) (cp lc : list (string * string))
           (ms : list string) (lm : list (string * Z)) : bool :=
  plist_eqb (order_of_switch sw) (order_of_copy cp lc) &&
  sset_eqb (map fst (order_of_switch sw)) ms &&
  snodup (map fst (order_of_switch sw)) && snodup (map snd (order_of_switch sw)) &&
  snodup (flat_map fst sw) &&
  match lm with
  | (_, v) :: _ => (0 <? v) && all_eqZ lm v
  | [] => false
  end.
