(* Model of mj_constraintUpdate_impl (src/engine/engine_core_constraint.c), of the part of
   mj_makeImpedance that fixes efc_R / efc_D / contact.mu of frictional contacts, and of
   mju_dot / mju_norm (engine_util_blas.c), mju_encodePyramid / mju_decodePyramid
   (engine_util_misc.c).  Written once over [Num T]; definitions only.
   Floating-point expressions keep the association of the C source. *)
From Coq Require Import ZArith List Bool.
From MJV Require Import Lib.Num.
Import ListNotations.

(* mjtConstraintState *)
Definition ST_SATISFIED : Z := 0.
Definition ST_QUADRATIC : Z := 1.
Definition ST_LINEARNEG : Z := 2.
Definition ST_LINEARPOS : Z := 3.
Definition ST_CONE : Z := 4.
(* mjtConstraint *)
Definition CT_PYRAMIDAL : Z := 6.
Definition CT_ELLIPTIC : Z := 7.

(* arr[k] := x *)
Definition upd {A} (l : list A) (k : nat) (x : A) : list A := firstn k l ++ x :: skipn (S k) l.

(* mj_instantiateContact, efc_address bookkeeping: contacts in order as (exclude, nrows) where exclude is the
   final flag (0: included; 1 in gap, 3 no dofs affected, 4 passive) and nrows the rows an included contact adds
   (1, dim or 2(dim-1)); start = d->nefc before the first contact.  Excluded contacts get -1. *)
Fixpoint contact_addresses (start : Z) (cs : list (Z * Z)) : list Z :=
  match cs with
  | [] => []
  | (ex, n) :: r => if (ex =? 0)%Z then start :: contact_addresses (start + n)%Z r
                    else (-1)%Z :: contact_addresses start r
  end.
Fixpoint included_rows (cs : list (Z * Z)) : Z :=
  match cs with [] => 0%Z | (ex, n) :: r => ((if (ex =? 0)%Z then n else 0) + included_rows r)%Z end.

Section CU.
Context {T : Type} `{Num T}.
Local Open Scope num_scope.

Definition half : T := ndec 5 (-1).
Definition mjMINVAL : T := ndec 1 (-15).

(* mju_dot(v, v, n) of the non-AVX branch: four lanes, then (res0+res2)+(res1+res3), then the tail *)
Fixpoint sumsq4 (r0 r1 r2 r3 : T) (v : list T) {struct v} : T :=
  match v with
  | a0 :: a1 :: a2 :: a3 :: v' => sumsq4 (r0 + a0*a0) (r1 + a1*a1) (r2 + a2*a2) (r3 + a3*a3) v'
  | [a0; a1; a2] => ((r0 + r2) + (r1 + r3)) + (a0*a0 + a1*a1 + a2*a2)
  | [a0; a1] => ((r0 + r2) + (r1 + r3)) + (a0*a0 + a1*a1)
  | [a0] => ((r0 + r2) + (r1 + r3)) + a0*a0
  | [] => (r0 + r2) + (r1 + r3)
  end.
Definition mju_sumsq (v : list T) : T := sumsq4 nzero nzero nzero nzero v.
Definition mju_norm (v : list T) : T := nsqrt (mju_sumsq v).

(* element-wise product, truncated to the shorter list (friction[] has 5 entries, dim-1 are used) *)
Fixpoint map2 (f : T -> T -> T) (a b : list T) : list T :=
  match a, b with
  | x :: a', y :: b' => f x y :: map2 f a' b'
  | _, _ => []
  end.

(* ---- scalar rows; [s] is the running cost, the result is (s', force, state) *)
Definition row_eq (s D x : T) : T * T * Z :=
  (s + half*D*x*x, (-D)*x, ST_QUADRATIC).

Definition row_fric (s D R fl x : T) : T * T * Z :=
  if x <=? (-R)*fl then (s + ((-half)*R*fl*fl - fl*x), fl, ST_LINEARNEG)
  else if R*fl <=? x then (s + ((-half)*R*fl*fl + fl*x), -fl, ST_LINEARPOS)
  else (s + half*D*x*x, (-D)*x, ST_QUADRATIC).

Definition row_uni (s D x : T) : T * T * Z :=
  if nzero <=? x then (s, nzero, ST_SATISFIED)
  else (s + half*D*x*x, (-D)*x, ST_QUADRATIC).

(* ---- cone Hessian of the middle zone: entry (k, j), k <= j, of the upper triangle after all
   in-place passes; U = (U0 :: Ut), S = (mu :: friction) *)
Definition hess_upper (mu N Tn Dm : T) (U S : list T) (k j : nat) : T :=
  let Uj := nth j U nzero in let Uk := nth k U nzero in
  let base :=
    match k with
    | O => match j with O => none | _ => ((-mu)/Tn) * Uj end
    | _ => let b := ((mu*N)/(Tn*Tn*Tn)) * Uj * Uk in
           if Nat.eqb k j then b + (mu*mu - mu*N/Tn) else b
    end in
  base * ((Dm * nth k S nzero) * nth j S nzero).

Definition hess (mu N Tn Dm : T) (U S : list T) (dim : nat) : list T :=
  flat_map (fun k => map (fun j => hess_upper mu N Tn Dm U S (Nat.min k j) (Nat.max k j)) (seq 0 dim))
           (seq 0 dim).

(* ---- one elliptic contact: Ds, xs are the dim entries of D and jar; fr = contact.friction.
   Result: (s', forces, state, Some H in the middle zone when flgH) *)
Definition block_ell (flgH : bool) (s mu : T) (fr Ds xs : list T) : T * list T * Z * option (list T) :=
  match xs, Ds with
  | x0 :: xt, D0 :: _ =>
    let U0 := x0*mu in
    let Ut := map2 nmul xt fr in
    let N := U0 in
    let Tn := mju_norm Ut in
    if (mu*Tn <=? N) || ((Tn <=? nzero) && (nzero <=? N)) then
      (s, map (fun _ => nzero) xs, ST_SATISFIED, None)
    else if (mu*N + Tn <=? nzero) || ((Tn <=? nzero) && (N <? nzero)) then
      (fold_left (fun a dx => a + half*(fst dx)*(snd dx)*(snd dx)) (combine Ds xs) s,
       map2 (fun d x => (-d)*x) Ds xs, ST_QUADRATIC, None)
    else
      let Dm := D0/(mu*mu*(none + mu*mu)) in
      let NmT := N - mu*Tn in
      let f0 := (-Dm)*NmT*mu in
      (s + half*Dm*NmT*NmT,
       f0 :: map2 (fun u f => (-f0)/Tn*u*f) Ut fr,
       ST_CONE,
       if flgH then Some (hess mu N Tn Dm (U0 :: Ut) (mu :: fr) (length xs)) else None)
  | _, _ => (s, [], ST_SATISFIED, None)
  end.

(* ---- the row loop.  A row descriptor is (D, R, frictionloss, efc_type, efc_id); a contact is
   (dim, mu, friction).  [rows], [jar] are the suffixes starting at row i.
   Result: (cost, efc_force, efc_state, Hessians of the cone-state contacts in row order);
   None: malformed input (lengths differ, contact id out of range, dim < 1, block overruns nefc). *)
Definition rowdesc : Type := (T * T * T * Z * Z)%type.
Definition contact : Type := (Z * T * list T)%type.
Definition cu_result : Type := (T * list T * list Z * list (list T))%type.

Definition rD (r : rowdesc) : T := match r with (d, _, _, _, _) => d end.

Definition res_cons (f : T) (st : Z) (r : option cu_result) : option cu_result :=
  match r with
  | Some (c, fs, sts, hs) => Some (c, f :: fs, st :: sts, hs)
  | None => None
  end.
Definition res_app (f : list T) (st : list Z) (h : option (list T)) (r : option cu_result) : option cu_result :=
  match r with
  | Some (c, fs, sts, hs) => Some (c, f ++ fs, st ++ sts, match h with Some m => m :: hs | None => hs end)
  | None => None
  end.

Fixpoint cu_loop (fuel : nat) (flgH : bool) (ne nf : Z) (con : list contact)
                 (i : Z) (s : T) (rows : list rowdesc) (jar : list T) : option cu_result :=
  match rows, jar with
  | [], [] => Some (s, [], [], [])
  | (D, R, fl, tp, id) :: rows', x :: jar' =>
    match fuel with
    | O => None
    | S fuel' =>
      if (i <? ne)%Z then
        let '(s', f, st) := row_eq s D x in
        res_cons f st (cu_loop fuel' flgH ne nf con (i+1)%Z s' rows' jar')
      else if (i <? ne + nf)%Z then
        let '(s', f, st) := row_fric s D R fl x in
        res_cons f st (cu_loop fuel' flgH ne nf con (i+1)%Z s' rows' jar')
      else if negb (tp =? CT_ELLIPTIC)%Z then
        let '(s', f, st) := row_uni s D x in
        res_cons f st (cu_loop fuel' flgH ne nf con (i+1)%Z s' rows' jar')
      else if (id <? 0)%Z then None
      else match nth_error con (Z.to_nat id) with
        | None => None
        | Some (dim, mu, fr) =>
          let n := Z.to_nat dim in
          if (dim <? 1)%Z || (length rows <? n)%nat || (length jar <? n)%nat then None
          else
            let '(s', fs, st, h) := block_ell flgH s mu fr (map rD (firstn n rows)) (firstn n jar) in
            res_app fs (repeat st n) h
                    (cu_loop fuel' flgH ne nf con (i + dim)%Z s' (skipn n rows) (skipn n jar))
        end
    end
  | _, _ => None
  end.

Definition constraint_update (flgH : bool) (ne nf : Z) (con : list contact)
                             (rows : list rowdesc) (jar : list T) : option cu_result :=
  cu_loop (length rows) flgH ne nf con 0%Z nzero rows jar.

(* ---- mj_makeImpedance, second loop, for one frictional contact whose normal row has R0:
   R[i+1] = R[i]/max(mjMINVAL, impratio); mu = friction[0]*sqrt(R[i+1]/R[i]);
   elliptic: R[i+j+1] = R[i+1]*friction[0]^2/friction[j]^2 (j = 1 .. dim-2); D = 1/R.
   Result (mu, [R_i .. R_{i+dim-1}], [D_i ..]) *)
Definition ell_impedance (R0 impratio : T) (fr : list T) (dim : nat) : T * list T * list T :=
  let f0 := nth 0 fr nzero in
  let R1 := R0 / nmax mjMINVAL impratio in
  let mu := f0 * nsqrt (R1/R0) in
  let Rs := R0 :: R1 :: map (fun j => R1*f0*f0/(nth j fr nzero * nth j fr nzero)) (seq 1 (dim - 2)) in
  (mu, Rs, map (fun r => none / r) Rs).

(* pyramidal: Rpy = 2*mu*mu*R[i] for all 2*(dim-1) rows *)
Definition pyr_impedance (R0 impratio : T) (fr : list T) (dim : nat) : T * T :=
  let f0 := nth 0 fr nzero in
  let R1 := R0 / nmax mjMINVAL impratio in
  let mu := f0 * nsqrt (R1/R0) in
  (mu, ntwo*mu*mu*R0).

(* ---- mju_encodePyramid / mju_decodePyramid (engine_util_misc.c); mu = contact.friction.
   encode: a = force[0]/(dim-1); b_i = min(a, force[i+1]/mu[i]); pyramid[2i] = 0.5*(a+b_i);
   pyramid[2i+1] = 0.5*(a-b_i) *)
Definition encode_pyramid (force mu : list T) (dim : Z) : list T :=
  let a := nth 0 force nzero / nofZ (dim - 1) in
  flat_map (fun i => let b := nmin a (nth (S i) force nzero / nth i mu nzero) in
                     [half*(a + b); half*(a - b)])
           (seq 0 (Z.to_nat (dim - 1))).

(* decode: dim = 1: force[0] = pyramid[0]; else force[0] = sum of the 2(dim-1) edges (left to
   right from 0), force[i+1] = (pyramid[2i] - pyramid[2i+1])*mu[i] *)
Definition decode_pyramid (pyr mu : list T) (dim : Z) : list T :=
  if (dim =? 1)%Z then [nth 0 pyr nzero]
  else fold_left nadd (firstn (2 * Z.to_nat (dim - 1)) pyr) nzero ::
       map (fun i => (nth (2*i) pyr nzero - nth (2*i+1) pyr nzero) * nth i mu nzero)
           (seq 0 (Z.to_nat (dim - 1))).

(* mj_contactForce: result = zero(6); valid contact: pyramidal -> decode of the efc_force slice at
   efc_address, else copy of dim entries; then result[0] -= adhesion *)
Definition contact_force (pyramidal : bool) (efc_force : list T) (adr : Z) (fr : list T) (dim : Z)
                         (adhesion : T) : list T :=
  let sl := skipn (Z.to_nat adr) efc_force in
  let r := if pyramidal then decode_pyramid sl fr dim else firstn (Z.to_nat dim) sl in
  let r6 := firstn 6 (r ++ repeat nzero 6) in
  match r6 with
  | r0 :: rest => (r0 - adhesion) :: rest
  | [] => []
  end.

(* mj_contactForce including its gate: zero(6) unless the contact has efc_address >= 0 *)
Definition contact_force_gated (pyramidal : bool) (efc_force : list T) (adr : Z) (fr : list T) (dim : Z)
                               (adhesion : T) : list T :=
  if (adr <? 0)%Z then repeat nzero 6 else contact_force pyramidal efc_force adr fr dim adhesion.

(* ---- dual solvers (engine_solver.c), per-row projections next to the force law.
   mju_clip(x, min, max) = x < min ? min : (x > max ? max : x) *)
Definition mju_clip (x lo hi : T) : T := if x <? lo then lo else if hi <? x then hi else x.

(* solNoSlip / solPGS, dry-friction row i: force[i] -= res*ARinv; then the interval constraint
   if (force[i] < -floss[i]) force[i] = -floss[i]; else if (force[i] > floss[i]) force[i] = floss[i];
   (bound and force of the SAME efc row i) *)
Definition noslip_fric_update (force res arinv fl : T) : T :=
  let f := force - res*arinv in
  if f <? -fl then -fl else if fl <? f then fl else f.

(* solNoSlip, one pair of opposing pyramid edges: mid = 0.5*(f0+f1); unconstrained y; clamp y to [-mid, mid] *)
Definition noslip_pyr_pair (mid y : T) : T * T :=
  if y <? -mid then (nzero, ntwo*mid) else if mid <? y then (ntwo*mid, nzero) else (mid + y, mid - y).

End CU.
