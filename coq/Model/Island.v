(* Model of src/engine/engine_island.c: mj_dsuRoot, mj_dsuMerge, mj_dsuAssign, mj_floodFill and the
   counting-sort construction of the island_* / map_* arrays in mj_island.
   C int arrays are [list Z]; an out-of-range read yields OOB (-2, a value no array of the code
   ever holds); loops that are not structurally bounded carry fuel and return None when exhausted.
   Definitions only (executable); specification predicates are in Model/IslandSpec.v, proofs in
   Proof/IslandProof.v. *)
From Coq Require Import List ZArith Bool.
Import ListNotations.
Open Scope Z_scope.

Definition OOB : Z := -2.
Definition len (l : list Z) : Z := Z.of_nat (length l).
Definition get (l : list Z) (i : Z) : Z := if i <? 0 then OOB else nth (Z.to_nat i) l OOB.
Fixpoint setn (l : list Z) (i : nat) (v : Z) : list Z :=
  match l with
  | [] => []
  | a :: r => match i with O => v :: r | S j => a :: setn r j v end
  end.
Definition set (l : list Z) (i : Z) (v : Z) : list Z := if i <? 0 then l else setn l (Z.to_nat i) v.
Definition inb (l : list Z) (i : Z) : bool := (0 <=? i) && (i <? len l).

(* ---------- mj_dsuRoot *)
(* first loop: while (parent[root] != root) root = parent[root]; *)
Fixpoint find_root (fuel : nat) (p : list Z) (r : Z) : option Z :=
  match fuel with
  | O => None
  | S f => if inb p r
           then let q := get p r in if q =? r then Some r else find_root f p q
           else None
  end.

(* second loop: while (parent[tree] != tree) { next = parent[tree]; parent[tree] = root; tree = next; } *)
Fixpoint compress (fuel : nat) (p : list Z) (t root : Z) : option (list Z) :=
  match fuel with
  | O => None
  | S f => if inb p t
           then let nx := get p t in
                if nx =? t then Some p else compress f (set p t root) nx root
           else None
  end.

Definition dsuRoot (p : list Z) (t : Z) : option (list Z * Z) :=
  match find_root (S (length p)) p t with
  | None => None
  | Some r => match compress (S (length p)) p t r with
              | None => None
              | Some p' => Some (p', r)
              end
  end.

(* ---------- mj_dsuMerge; None: mjERROR (both endpoints static) or an index outside [-1, ntree) *)
Definition dsuMerge (p : list Z) (t1 t2 : Z) : option (list Z) :=
  if (t1 =? -1) && (t2 =? -1) then None
  else
    let a := if t1 =? -1 then t2 else t1 in
    let b := if t2 =? -1 then a else t2 in
    if negb (inb p a && inb p b) then None
    else
      let p1 := if get p a =? -1 then set p a a else p in
      let p2 := if get p1 b =? -1 then set p1 b b else p1 in
      if get p2 a =? get p2 b then Some p2
      else match dsuRoot p2 a with
           | None => None
           | Some (p3, r1) =>
             match dsuRoot p3 b with
             | None => None
             | Some (p4, r2) =>
               if r1 <? r2 then Some (set p4 r2 r1)
               else if r2 <? r1 then Some (set p4 r1 r2)
               else Some p4
             end
           end.

Definition dsu_init (ntree : nat) : list Z := repeat (-1) ntree.

Definition merges (p : list Z) (ms : list (Z * Z)) : option (list Z) :=
  fold_left (fun op e => match op with
                         | None => None
                         | Some q => dsuMerge q (fst e) (snd e)
                         end) ms (Some p).

(* ---------- mj_dsuAssign: island is built left to right (the C array is written at index tree in
   ascending order); reading island[] at an index that has not been written yet is an error (None) *)
Fixpoint assign_loop (todo : nat) (tree : Z) (island parent dofnum : list Z) (nisland nidof : Z)
  : option (list Z * list Z * Z * Z) :=
  match todo with
  | O => Some (island, parent, nisland, nidof)
  | S n =>
    let pt := get parent tree in
    if pt =? -1 then assign_loop n (tree + 1) (island ++ [-1]) parent dofnum nisland nidof
    else if pt =? tree then
      assign_loop n (tree + 1) (island ++ [nisland]) parent dofnum (nisland + 1) (nidof + get dofnum tree)
    else
      let ppt := get parent pt in
      if (0 <=? ppt) && (ppt <? tree) then
        assign_loop n (tree + 1) (island ++ [get island ppt]) (set parent tree ppt) dofnum
                    nisland (nidof + get dofnum tree)
      else None
  end.

(* returns (island, parent, nisland, nidof) *)
Definition dsuAssign (parent dofnum : list Z) : option (list Z * list Z * Z * Z) :=
  assign_loop (length parent) 0 [] parent dofnum 0 0.

(* ---------- mj_floodFill *)
Definition slice (l : list Z) (adr n : Z) : list Z := firstn (Z.to_nat n) (skipn (Z.to_nat adr) l).
Definition row (rownnz rowadr colind : list Z) (v : Z) : list Z :=
  slice colind (get rowadr v) (get rownnz v).

(* the DFS; the C stack grows at its end, here the head of [stack] is the top *)
Fixpoint dfs (fuel : nat) (island rownnz rowadr colind : list Z) (label : Z) (stack : list Z)
  : option (list Z) :=
  match fuel with
  | O => None
  | S f =>
    match stack with
    | [] => Some island
    | v :: st =>
      if get island v =? -1
      then dfs f (set island v label) rownnz rowadr colind label (rev (row rownnz rowadr colind v) ++ st)
      else dfs f island rownnz rowadr colind label st
    end
  end.

Definition sumz (l : list Z) : Z := fold_left Z.add l 0.

Fixpoint ff_outer (fuel todo : nat) (i : Z) (island rownnz rowadr colind : list Z) (nisland : Z)
  : option (list Z * Z) :=
  match todo with
  | O => Some (island, nisland)
  | S n =>
    if negb (get island i =? -1) || (get rownnz i =? 0)
    then ff_outer fuel n (i + 1) island rownnz rowadr colind nisland
    else match dfs fuel island rownnz rowadr colind nisland [i] with
         | None => None
         | Some isl' => ff_outer fuel n (i + 1) isl' rownnz rowadr colind (nisland + 1)
         end
  end.

(* returns (island, nisland) *)
Definition floodFill (nr : nat) (rownnz rowadr colind : list Z) : option (list Z * Z) :=
  ff_outer (S (S (nr + Z.to_nat (sumz (firstn nr rownnz))))) nr 0 (repeat (-1) nr) rownnz rowadr colind 0.

(* ---------- unionConstraintTrees on an abstract incidence: the trees returned by the iterator for
   one constraint row (special cases: [t1; t2] with -1 for a static body; generic scan: the trees of
   the nonzero columns).  Returns the list of mj_dsuMerge calls and efc_tree of the row. *)
Fixpoint chain (t1 : Z) (ts : list Z) : list (Z * Z) :=
  match ts with
  | [] => []
  | t2 :: r => (t1, t2) :: chain t2 r
  end.
Definition row_merges (ts : list Z) : list (Z * Z) :=
  match ts with
  | [] => []
  | [t1] => [(t1, -1)]
  | t1 :: r => chain t1 r
  end.
Definition row_tree (ts : list Z) : Z :=
  match ts with
  | [] => OOB
  | [t1] => t1
  | t1 :: t2 :: _ => if 0 <=? t1 then t1 else t2
  end.

(* ---------- the counting-sort construction in mj_island *)
Definition incr (l : list Z) (i : Z) : list Z := set l i (get l i + 1).

(* number of items per island (island_ntree, island_nv, island_nefc, ...) *)
Definition counts (nisland : nat) (isl : list Z) : list Z :=
  fold_left (fun c k => if 0 <=? k then incr c k else c) isl (repeat 0 nisland).

(* adr[0] = 0; adr[i] = adr[i-1] + cnt[i-1] *)
Fixpoint scan (acc : Z) (cnt : list Z) : list Z :=
  match cnt with
  | [] => []
  | c :: r => acc :: scan (acc + c) r
  end.

(* one iteration of the placement loops; state (cnt2, fwd, inv); item i of island isl goes to
   adr[isl] + cnt2[isl]++  or, if isl < 0, to base + cnt2[nisland]++ *)
Definition place (nisland base : Z) (adr : list Z) (st : list Z * list Z * list Z) (item isl : Z)
  : list Z * list Z * list Z :=
  let '(cnt2, fwd, inv) := st in
  let slot := if 0 <=? isl then isl else nisland in
  let pos := (if 0 <=? isl then get adr isl else base) + get cnt2 slot in
  (incr cnt2 slot, fwd ++ [pos], set inv pos item).

Fixpoint place_all (nisland base : Z) (adr : list Z) (st : list Z * list Z * list Z) (item : Z)
  (isl : list Z) : list Z * list Z * list Z :=
  match isl with
  | [] => st
  | k :: r => place_all nisland base adr (place nisland base adr st item k) (item + 1) r
  end.

(* returns (cnt2, map item->pos, map pos->item); the C arrays for pos->item are uninitialised
   before the loop, here they start as OOB *)
Definition csort (nisland : nat) (base : Z) (adr isl : list Z) : list Z * list Z * list Z :=
  place_all (Z.of_nat nisland) base adr (repeat 0 (S nisland), [], repeat OOB (length isl)) 0 isl.

Definition lastsum (adr cnt : list Z) : Z := last adr 0 + last cnt 0.

(* efc type classes: 0 equality, 1 friction (dof or tendon), 2 anything else *)
Definition sel_class (c : Z) (isl cls : list Z) : list Z :=
  map fst (filter (fun kc => snd kc =? c) (combine isl cls)).

(* the arrays of mj_island after mj_dsuAssign, in the order
   [island_ntree; island_itreeadr; map_itree2tree; dof_island; island_nv; island_idofadr;
    island_dofadr; map_dof2idof; map_idof2dof; efc_island; island_ne; island_nf; island_nefc;
    island_iefcadr; map_efc2iefc; map_iefc2efc] *)
Definition island_arrays (nisland : nat) (nidof : Z) (tree_island dof_treeid efc_tree efc_class : list Z)
  : list (list Z) :=
  let island_ntree := counts nisland tree_island in
  let island_itreeadr := scan 0 island_ntree in
  let last_tree := lastsum island_itreeadr island_ntree in
  let '(_, _, map_itree2tree) := csort nisland last_tree island_itreeadr tree_island in
  let dof_island := map (fun t => get tree_island t) dof_treeid in
  let island_nv := counts nisland dof_island in
  let island_idofadr := scan 0 island_nv in
  let '(_, map_dof2idof, map_idof2dof) := csort nisland nidof island_idofadr dof_island in
  let island_dofadr := map (fun a => get map_idof2dof a) island_idofadr in
  let efc_island := map (fun t => get tree_island t) efc_tree in
  let island_nefc := counts nisland efc_island in
  let island_ne := counts nisland (sel_class 0 efc_island efc_class) in
  let island_nf := counts nisland (sel_class 1 efc_island efc_class) in
  let island_iefcadr := scan 0 island_nefc in
  let '(_, map_efc2iefc, map_iefc2efc) := csort nisland 0 island_iefcadr efc_island in
  [island_ntree; island_itreeadr; map_itree2tree; dof_island; island_nv; island_idofadr;
   island_dofadr; map_dof2idof; map_idof2dof; efc_island; island_ne; island_nf; island_nefc;
   island_iefcadr; map_efc2iefc; map_iefc2efc].

(* union phase + assignment + arrays, from the per-row incidence lists *)
Definition island_model (ntree : nat) (dofnum dof_treeid : list Z) (rows : list (list Z)) (efc_class : list Z)
  : option (Z * Z * list Z * list (list Z)) :=
  match merges (dsu_init ntree) (concat (map row_merges rows)) with
  | None => None
  | Some p =>
    match dsuAssign p dofnum with
    | None => None
    | Some (tree_island, _, nisland, nidof) =>
      Some (nisland, nidof, tree_island,
            island_arrays (Z.to_nat nisland) nidof tree_island dof_treeid (map row_tree rows) efc_class)
    end
  end.
