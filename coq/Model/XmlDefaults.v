(* Model of the default-class elision of the MJCF writer/reader pair (C32).
   src/xml/xml_util.cc        : mjXUtil::WriteAttr, SameVector, WriteVector, ReadAttr
   src/xml/xml_native_writer.cc: mjXWriter::WriteAttrTable, Default(), OneJoint()... (element vs default mode)
   src/xml/xml_native_reader.cc: mjXReader::Default() (child class initialised from its parent),
                                 elements start from a copy of their class and are patched by what is present.
   Definitions only; executable.  T is the number type (float when run, any type with a decidable
   equality in the proofs); [close] is SameVector's per-component test, [eqb] is C's ==. *)
From Coq Require Import List Bool Arith.
Import ListNotations.

Section XmlDefaults.
Context {T : Type}.
Variable defined : T -> bool.       (* not NaN *)
Variable close : T -> T -> bool.    (* |a-b| <= numeric_limits::epsilon  (SameVector) *)
Variable eqb : T -> T -> bool.      (* a == b *)
Variable zero : T.

Definition vec := list T.

(* how the writer decides whether an attribute is emitted *)
Inductive policy :=
| PParent (trim : bool)   (* WriteAttr(data, value of the class (element) / of the parent class (default), trim) *)
| PZeroDef                (* userdata: WriteVector(vec, classvec) for elements, WriteVector(vec) (any nonzero) in defaults *)
| PConst (c : vec)        (* element mode compares with a constant (actdim), default mode with the parent class *)
| PExact.                 (* WriteVector(vec, class/parent vec) in both modes: written in full when any component differs (==) *)

Definition all_defined (x : vec) : bool := forallb defined x.

Fixpoint same (x d : vec) : bool :=
  match x, d with
  | a :: x', b :: d' => close a b && same x' d'
  | _, _ => true
  end.

(* while (n > 0 && data[n-1] == def[n-1]) n--;   returns the remaining n *)
Fixpoint keep_len (x d : vec) : nat :=
  match x, d with
  | a :: x', b :: d' =>
      match keep_len x' d' with
      | O => if eqb a b then O else 1
      | S k => S (S k)
      end
  | _, _ => O
  end.

Definition nonempty (v : vec) : option vec := match v with [] => None | _ => Some v end.

(* WriteAttr: None = attribute absent, Some p = the first |p| components are printed *)
Definition write_attr (trim : bool) (x d : vec) : option vec :=
  if negb (all_defined x) then None
  else if same x d then None
  else nonempty (if trim then firstn (keep_len x d) x else x).

Definition write_raw (x : vec) : option vec :=
  if negb (all_defined x) then None else nonempty x.

Fixpoint differs (x d : vec) : bool :=
  match x, d with
  | a :: x', b :: d' => negb (eqb a b) || differs x' d'
  | _, _ => false
  end.

Definition write_one (indef : bool) (p : policy) (x d : vec) : option vec :=
  match p with
  | PParent t => write_attr t x d
  | PZeroDef => if indef then (if existsb (fun a => negb (eqb a zero)) x then write_raw x else None)
                else (if differs x d then write_raw x else None)
  | PConst c => if indef then write_attr false x d else write_attr false x c
  | PExact => if differs x d then write_raw x else None
  end.

(* ReadAttr into a copy of the class value: the first |p| components are overwritten *)
Definition read_attr (d : vec) (w : option vec) : vec :=
  match w with
  | None => d
  | Some p => p ++ skipn (length p) d
  end.

Fixpoint write_rec (indef : bool) (pol : list policy) (x d : list vec) : list (option vec) :=
  match pol, x, d with
  | p :: pol', a :: x', b :: d' => write_one indef p a b :: write_rec indef pol' x' d'
  | _, _, _ => []
  end.

Fixpoint read_rec (d : list vec) (w : list (option vec)) : list vec :=
  match d, w with
  | b :: d', o :: w' => read_attr b o :: read_rec d' w'
  | _, _ => []
  end.

(* class tree: name, attribute record, children *)
Inductive ctree := CNode : nat -> list vec -> list ctree -> ctree.
Inductive wtree := WNode : nat -> list (option vec) -> list wtree -> wtree.

(* mjXWriter::Default(root, def): compared with def->parent (a fresh mjCDef for the root) *)
Fixpoint write_defs (pol : list policy) (par : list vec) (t : ctree) : wtree :=
  match t with
  | CNode n v ch => WNode n (write_rec true pol v par) (map (write_defs pol v) ch)
  end.

(* mjXReader::Default: the class starts as a copy of its parent and is patched *)
Fixpoint read_defs (par : list vec) (w : wtree) : ctree :=
  match w with
  | WNode n d ch => let v := read_rec par d in CNode n v (map (read_defs v) ch)
  end.

Fixpoint lookup (c : nat) (t : ctree) : option (list vec) :=
  match t with
  | CNode n v ch =>
      if Nat.eqb n c then Some v
      else (fix go (l : list ctree) : option (list vec) :=
              match l with
              | [] => None
              | t' :: l' => match lookup c t' with Some r => Some r | None => go l' end
              end) ch
  end.

(* an element of class c with record x: what is written, and what the reader reconstructs from the
   re-read class tree *)
Definition write_elem (pol : list policy) (cls : list vec) (x : list vec) : list (option vec) :=
  write_rec false pol x cls.
Definition read_elem (cls : list vec) (w : list (option vec)) : list vec := read_rec cls w.

Definition roundtrip_tree (pol : list policy) (base : list vec) (t : ctree) : ctree :=
  read_defs base (write_defs pol base t).

Definition roundtrip_elem (pol : list policy) (base : list vec) (t : ctree) (c : nat) (x : list vec)
  : option (list vec) :=
  match lookup c t, lookup c (roundtrip_tree pol base t) with
  | Some cv, Some cv' => Some (read_elem cv' (write_elem pol cv x))
  | _, _ => None
  end.

End XmlDefaults.

Arguments PParent {T} trim.
Arguments PZeroDef {T}.
Arguments PConst {T} c.
Arguments PExact {T}.
Arguments CNode {T} _ _ _.
Arguments WNode {T} _ _ _.
