(* UserPool -- the mutex / condition-variable work queue of src/user/user_threadpool.cc, used by the
   compiler for mesh + texture compilation (mjCModel::CompileMeshesAndTextures) and for actuator
   length ranges (mjCModel::LengthRange).

   Lock-step (sequentially consistent) model: every critical section under m_ is ONE step; a
   condition-variable wait is a guard (the step is enabled when the predicate holds; lost wake-ups
   of notify_one are outside the model and are searched for by the deadlock watchdog of the
   correspondence run).  One event per step:

     ESchedule      main: Schedule(task): queue_.push(task)            the task id is the call index
     ETake k        worker k: cv_in_.wait(!queue_.empty()); pop front
     EBegin k t     worker k enters task t (the entry it popped)
     EEnd k t       worker k leaves task t
     ECount k       worker k: ++ctr_ (after a task, or after popping nullptr, in which case it exits)
     EWaitRet v     main: WaitCount(v) returns (guard ctr_ >= v)
     EDestroy       main: ~ThreadPool pushes one nullptr per worker
     EJoin k        main: threads_[k].join() returns (worker k has exited)                     *)
From Coq Require Import List ZArith Bool Arith.
From MJV Require Import Model.Island Model.ParMap.
Import ListNotations.
Open Scope Z_scope.

Inductive wstate :=
| WWait                 (* in cv_in_.wait / about to pop *)
| WTook (t : Z)         (* popped task t, not yet inside it *)
| WRun (t : Z)          (* inside task t *)
| WFin (t : Z)          (* task returned, ++ctr_ pending *)
| WPoison               (* popped nullptr, ++ctr_ pending *)
| WExit                 (* thread function returned *)
| WJoined.

Inductive ev :=
| ESchedule
| ETake (k : nat)
| EBegin (k : nat) (t : Z)
| EEnd (k : nat) (t : Z)
| ECount (k : nat)
| EWaitRet (v : Z)
| EDestroy
| EJoin (k : nat).

Record st := mkst {
  queue : list (option Z);     (* queue_: Some t = task, None = nullptr *)
  ctr : Z;                     (* ctr_ *)
  ws : list wstate;            (* one per worker thread *)
  nsched : Z;                  (* number of Schedule calls so far *)
  started : list Z;            (* task ids entered, most recent first *)
  finished : list Z;           (* task ids left, most recent first *)
  destroyed : bool }.

Definition init (nworkers : nat) : st := mkst [] 0 (repeat WWait nworkers) 0 [] [] false.

Fixpoint set_nth {A : Type} (l : list A) (k : nat) (x : A) : list A :=
  match l, k with
  | [], _ => []
  | _ :: r, O => x :: r
  | y :: r, S k' => y :: set_nth r k' x
  end.

Definition wstate_eqb (a b : wstate) : bool :=
  match a, b with
  | WWait, WWait | WPoison, WPoison | WExit, WExit | WJoined, WJoined => true
  | WTook x, WTook y | WRun x, WRun y | WFin x, WFin y => x =? y
  | _, _ => false
  end.

Definition step (s : st) (e : ev) : option st :=
  match e with
  | ESchedule =>
      if destroyed s then None
      else Some (mkst (queue s ++ [Some (nsched s)]) (ctr s) (ws s) (nsched s + 1) (started s) (finished s) false)
  | ETake k =>
      match nth_error (ws s) k, queue s with
      | Some WWait, Some t :: q => Some (mkst q (ctr s) (set_nth (ws s) k (WTook t)) (nsched s) (started s) (finished s) (destroyed s))
      | Some WWait, None :: q => Some (mkst q (ctr s) (set_nth (ws s) k WPoison) (nsched s) (started s) (finished s) (destroyed s))
      | _, _ => None
      end
  | EBegin k t =>
      match nth_error (ws s) k with
      | Some (WTook t') => if t' =? t then Some (mkst (queue s) (ctr s) (set_nth (ws s) k (WRun t)) (nsched s) (t :: started s) (finished s) (destroyed s)) else None
      | _ => None
      end
  | EEnd k t =>
      match nth_error (ws s) k with
      | Some (WRun t') => if t' =? t then Some (mkst (queue s) (ctr s) (set_nth (ws s) k (WFin t)) (nsched s) (started s) (t :: finished s) (destroyed s)) else None
      | _ => None
      end
  | ECount k =>
      match nth_error (ws s) k with
      | Some (WFin _) => Some (mkst (queue s) (ctr s + 1) (set_nth (ws s) k WWait) (nsched s) (started s) (finished s) (destroyed s))
      | Some WPoison => Some (mkst (queue s) (ctr s + 1) (set_nth (ws s) k WExit) (nsched s) (started s) (finished s) (destroyed s))
      | _ => None
      end
  | EWaitRet v =>
      if destroyed s then None else if v <=? ctr s then Some s else None
  | EDestroy =>
      if destroyed s then None
      else Some (mkst (queue s ++ repeat None (length (ws s))) (ctr s) (ws s) (nsched s) (started s) (finished s) true)
  | EJoin k =>
      match nth_error (ws s) k with
      | Some WExit => if destroyed s then Some (mkst (queue s) (ctr s) (set_nth (ws s) k WJoined) (nsched s) (started s) (finished s) true) else None
      | _ => None
      end
  end.

Fixpoint run (s : st) (l : list ev) : option st :=
  match l with
  | [] => Some s
  | e :: r => match step s e with Some s' => run s' r | None => None end
  end.

Inductive reachable (n : nat) : st -> Prop :=
| reach_init : reachable n (init n)
| reach_step : forall (s s' : st) (e : ev), reachable n s -> step s e = Some s' -> reachable n s'.

(* a log is accepted when the model can follow it and ends with every worker joined and the queue empty *)
Definition quiescent (s : st) : bool :=
  destroyed s && forallb (fun w : wstate => wstate_eqb w WJoined) (ws s) && match queue s with [] => true | _ => false end.

Definition accepts (n : nat) (l : list ev) : bool :=
  match run (init n) l with Some s => quiescent s | None => false end.

(* index of the first rejected event (diagnostics) *)
Fixpoint run_prefix (s : st) (l : list ev) (i : Z) : Z :=
  match l with
  | [] => -1
  | e :: r => match step s e with Some s' => run_prefix s' r (i + 1) | None => i end
  end.

(* tasks waiting in the queue / held by workers *)
Fixpoint qtasks (q : list (option Z)) : list Z :=
  match q with [] => [] | Some t :: r => t :: qtasks r | None :: r => qtasks r end.

Definition held1 (w : wstate) : list Z := match w with WTook t | WRun t => [t] | _ => [] end.
Definition held (l : list wstate) : list Z := flat_map held1 l.

Fixpoint zseq (n : nat) : list Z := match n with O => [] | S k => zseq k ++ [Z.of_nat k] end.

(* ---- an asset task with hidden per-thread state (e.g. a `static thread_local` pseudo-random generator that is seeded
   once per thread and keeps its state from one texture to the next): array 1 holds one output word per asset, array 22
   one generator state per thread (per-thread scratch).  The task reads its thread's generator state BEFORE writing it,
   derives its output from it and stores the advanced state. *)
Definition tl_site : list (Z * table) := [ (1%Z, TKey [0; 1]%Z); (22%Z, TThread 1%Z) ].
Definition tl_task (i t : nat) : prog Z :=
  Read (22%Z, Z.of_nat t) (fun st : Z => Write (1%Z, Z.of_nat i) (st * 7 + 1)%Z (Write (22%Z, Z.of_nat t) (st + 1)%Z Done)).

(* ---- mjCModel::SaveState / RestoreState around mj_recompile, for one per-object array: object k owns the [stride]
   consecutive entries starting at offmul * k; SaveState copies them into the object, RestoreState writes them back in
   object order.  The code must use offmul = stride (3 for mocap_pos, 4 for mocap_quat, nq(j)/nv(j) per joint, ...). *)
Definition slice {A : Type} (off len : nat) (l : list A) : list A := firstn len (skipn off l).
Definition save_restore {A : Type} (offmul stride n : nat) (l : list A) : list A :=
  flat_map (fun k : nat => slice (offmul * k) stride l) (seq 0 n).

(* ---- mjCModel::CopyList (mj_copySpec): every element of the source list is copied, its references are resolved in the
   new model, and an element whose resolution throws is silently skipped *)
Definition copy_list {A : Type} (resolves : A -> bool) (l : list A) : list A := filter resolves l.

(* ---- mjCFrame::Compile on positions only (translations compose by addition): a frame stores (compiled flag, pos);
   the first compile sets pos := parent_accumulated + local and the flag; a later compile must leave it alone.
   [reset_first] = the variant that copies the local spec value back BEFORE testing the flag. *)
Definition frame_compile (reset_first : bool) (parent local : Z) (st : bool * Z) : bool * Z :=
  let '(compiled, pos) := st in
  let pos1 := if reset_first then local else pos in
  if compiled then (true, pos1) else (true, (parent + local)%Z).
