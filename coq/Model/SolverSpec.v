(* Specification vocabulary over R for Props/C10.v and Props/C09.v: finite-dimensional vectors are
   functions nat -> R of which the first n entries matter, matrices are functions nat -> nat -> R,
   sums are finite.  Definitions only.

   The documented optimisation problem of the constraint solver (n = nv dofs, m = nefc rows):
       minimise over a:   1/2 (a - a0)' M (a - a0) + s (J a - aref)
   with a0 = qacc_smooth, M the joint-space inertia, J = efc_J, aref = efc_aref and s the constraint
   cost whose gradient is minus the constraint force f (Props/C12.v). *)
From Coq Require Import ZArith Reals List.
From MJV Require Import Lib.Num Lib.NumR Model.ConstraintUpdate.
Import ListNotations.
Open Scope R_scope.

Definition vec : Type := nat -> R.
Definition mat : Type := nat -> nat -> R.

(* sum_{i < n} g i *)
Fixpoint sumn (n : nat) (g : nat -> R) : R :=
  match n with O => 0 | S k => sumn k g + g k end.

Definition dotn (n : nat) (x y : vec) : R := sumn n (fun i => x i * y i).
Definition vadd (x y : vec) : vec := fun i => x i + y i.
Definition vsub (x y : vec) : vec := fun i => x i - y i.
Definition vscal (t : R) (x : vec) : vec := fun i => t * x i.
Definition vzero : vec := fun _ => 0.

(* (A x)_i = sum_{j < c} A i j * x j   (A has c columns);   (A' y)_j = sum_{i < r} A i j * y i *)
Definition mulMV (c : nat) (A : mat) (x : vec) : vec := fun i => sumn c (fun j => A i j * x j).
Definition mulMTV (r : nat) (A : mat) (y : vec) : vec := fun j => sumn r (fun i => A i j * y i).

(* x' M y for an n x n matrix *)
Definition bil (n : nat) (M : mat) (x y : vec) : R := dotn n x (mulMV n M y).

Definition symmetric (n : nat) (M : mat) : Prop :=
  forall i j : nat, (i < n)%nat -> (j < n)%nat -> M i j = M j i.
Definition eqn (n : nat) (x y : vec) : Prop := forall i : nat, (i < n)%nat -> x i = y i.
(* x' M x > 0 unless x = 0 on the first n entries *)
Definition posdef (n : nat) (M : mat) : Prop :=
  forall x : vec, ~ eqn n x vzero -> 0 < bil n M x x.
Definition possemidef (n : nat) (M : mat) : Prop := forall x : vec, 0 <= bil n M x x.

(* a function of the first m entries only *)
Definition depends_on_first (m : nat) (s : vec -> R) : Prop :=
  forall x y : vec, eqn m x y -> s x = s y.
(* convexity (Jensen) *)
Definition convexV (s : vec -> R) : Prop :=
  forall (x y : vec) (t : R), 0 <= t <= 1 ->
    s (vadd (vscal t x) (vscal (1 - t) y)) <= t * s x + (1 - t) * s y.

(* the objective of the constraint solver *)
Definition objective (n m : nat) (M J : mat) (a0 aref : vec) (s : vec -> R) (a : vec) : R :=
  / 2 * bil n M (vsub a a0) (vsub a a0) + s (vsub (mulMV n J a) aref).

(* gradient of the objective when -f is the gradient of s:  M (a - a0) - J' f (J a - aref) *)
Definition obj_grad (n m : nat) (M J : mat) (a0 aref : vec) (f : vec -> vec) (a : vec) : vec :=
  vsub (mulMV n M (vsub a a0)) (mulMTV m J (f (vsub (mulMV n J a) aref))).

(* separable cost and force of scalar rows:  s x = sum_r c r (x r),  f x r = g r (x r) *)
Definition sep_cost (m : nat) (c : nat -> R -> R) : vec -> R := fun x => sumn m (fun r => c r (x r)).
Definition sep_force (g : nat -> R -> R) : vec -> vec := fun x r => g r (x r).

(* scalar rows of mj_constraintUpdate_impl (Model/ConstraintUpdate.v): equality, limit / frictionless /
   pyramidal (one-sided), friction loss; cost and force are the outputs of the row kernels started at
   running cost 0 *)
Inductive rowkind : Type :=
| RowEq (D : R)
| RowUni (D : R)
| RowFric (D Rr fl : R).

Definition rk_cost (k : rowkind) (x : R) : R :=
  match k with
  | RowEq D => fst (fst (row_eq 0 D x))
  | RowUni D => fst (fst (row_uni 0 D x))
  | RowFric D Rr fl => fst (fst (row_fric 0 D Rr fl x))
  end.
Definition rk_force (k : rowkind) (x : R) : R :=
  match k with
  | RowEq D => snd (fst (row_eq 0 D x))
  | RowUni D => snd (fst (row_uni 0 D x))
  | RowFric D Rr fl => snd (fst (row_fric 0 D Rr fl x))
  end.
(* what mj_makeImpedance establishes: D >= 0; friction loss rows: D*R = 1, R > 0, frictionloss >= 0 *)
Definition rk_ok (k : rowkind) : Prop :=
  match k with
  | RowEq D => 0 <= D
  | RowUni D => 0 <= D
  | RowFric D Rr fl => D * Rr = 1 /\ 0 < Rr /\ 0 <= fl
  end.

(* ---- the row loop of mj_constraintUpdate_impl (constraint_update of Model/ConstraintUpdate.v) as cost and
   force functions of a residual vector: m = number of rows, the residual list is (x 0, ..., x (m-1)) *)
Definition cu_cost_fn (ne nf : Z) (con : list (@contact R)) (rows : list (@rowdesc R)) : vec -> R :=
  fun x => match constraint_update false ne nf con rows (map x (seq 0 (length rows))) with
           | Some (c, _, _, _) => c | None => 0 end.
Definition cu_force_fn (ne nf : Z) (con : list (@contact R)) (rows : list (@rowdesc R)) : vec -> vec :=
  fun x r => match constraint_update false ne nf con rows (map x (seq 0 (length rows))) with
             | Some (_, f, _, _) => nth r f 0 | None => 0 end.

(* kind of the row at index i (mj_constraintUpdate_impl: i < ne equality, i < ne+nf friction loss, else by type) *)
Definition kind_at (ne nf : Z) (i : Z) (row : @rowdesc R) : rowkind :=
  match row with (D, Rr, fl, tp, id) =>
    if (i <? ne)%Z then RowEq D else if (i <? ne + nf)%Z then RowFric D Rr fl else RowUni D end.
Definition row_not_elliptic (row : @rowdesc R) : Prop :=
  match row with (D, Rr, fl, tp, id) => (tp =? CT_ELLIPTIC)%Z = false end.
(* every row satisfies the relations mj_makeImpedance establishes (rk_ok of its kind) and none is elliptic *)
Fixpoint scalar_rows_ok (ne nf : Z) (i : Z) (rows : list (@rowdesc R)) : Prop :=
  match rows with
  | [] => True
  | row :: rows' => row_not_elliptic row /\ rk_ok (kind_at ne nf i row) /\ scalar_rows_ok ne nf (i + 1)%Z rows'
  end.
