(* Model of doc/generate/generate_mjcf_table.py (generate: the recursive visit from the root
   element, default-context projection, bracket rows, constraint rows, _wrap_row) and of
   doc/generate/generate_mjcf_map.py, as functions from the PARSED schema (mjcf_schema.Schema, fed
   by a canonical dump) to rows and to text lines.  Definitions only.
   Python dicts are association lists in insertion order; schema.X[name] is the first entry of
   that name, KeyError / RecursionError are None.  The recursions of the Python code that are not
   structural (or that are loops over a work list) take fuel: visit takes S (number of elements),
   use-expansion S (number of groups). *)
From Coq Require Import List String Ascii Bool Arith.
From Coq Require Decimal DecimalString.
Import ListNotations.
Open Scope string_scope.

(* ---------------------------------------------------------------- the parsed schema *)
Record attr := mkAttr {
  a_name : string;
  a_type : string;        (* scalar name, enum, flags, id, ref *)
  a_target : string;      (* enum / namespace name or "" *)
  a_arity : string;       (* "lo..hi" as dumped *)
  a_default : string;     (* repr of the default or "" *)
  a_nodefault : bool;     (* truthiness of facets.get('nodefault') *)
  a_required : bool }.

Inductive member :=
| MAttr (a : attr)
| MUse (group : string)
| MChild (name : string) (card : string)
| MCon (kind : string) (bundles : list (list string))
| MConst.

Record group := mkGroup { g_name : string; g_members : list member }.
Record element := mkElement {
  e_name : string;
  e_xml : string;         (* xml_name(): the xml facet or the name *)
  e_alias : bool;         (* 'alias' in facets *)
  e_members : list member }.
Record enum := mkEnum { en_name : string; en_items : list (string * string) }.
Record schema := mkSchema { s_enums : list enum; s_groups : list group; s_elements : list element }.

Definition lookup_group (s : schema) (n : string) : option group :=
  find (fun g => String.eqb (g_name g) n) (s_groups s).
Definition lookup_element (s : schema) (n : string) : option element :=
  find (fun e => String.eqb (e_name e) n) (s_elements s).

(* ---------------------------------------------------------------- Schema.expanded_attrs / _group_attrs *)
Fixpoint expand (fuel : nat) (s : schema) (ms : list member) : option (list attr) :=
  match fuel with
  | O => None
  | S f =>
      (fix go (ms : list member) : option (list attr) :=
         match ms with
         | [] => Some []
         | MAttr a :: r => match go r with Some o => Some (a :: o) | None => None end
         | MUse g :: r =>
             match lookup_group s g with
             | None => None
             | Some grp => match expand f s (g_members grp), go r with
                           | Some o1, Some o2 => Some (o1 ++ o2)%list
                           | _, _ => None
                           end
             end
         | _ :: r => go r
         end) ms
  end.
Definition ngroups (s : schema) : nat := List.length (s_groups s).
Definition expanded_attrs (s : schema) (e : element) : option (list attr) :=
  expand (S (ngroups s)) s (e_members e).

(* ---------------------------------------------------------------- _element_constraints *)
Definition con := (string * list (list string))%type.   (* kind, bundles *)
Definition own_cons (ms : list member) : list con :=
  flat_map (fun m => match m with MCon k b => [(k, b)] | _ => [] end) ms.
Definition uses_of (ms : list member) : list string :=
  flat_map (fun m => match m with MUse g => [g] | _ => [] end) ms.
Definition mem_str (x : string) (l : list string) : bool := existsb (String.eqb x) l.
(* the while-loop over the stack; head of [stack] is the top (Python pops from the end) *)
Fixpoint cons_dfs (fuel : nat) (s : schema) (stack visited : list string) (acc : list con) : option (list con) :=
  match fuel with
  | O => None
  | S f =>
      match stack with
      | [] => Some acc
      | name :: rest =>
          if mem_str name visited then cons_dfs f s rest visited acc
          else match lookup_group s name with
               | None => None
               | Some grp => cons_dfs f s (rev (uses_of (g_members grp)) ++ rest)%list (name :: visited)
                                      (acc ++ own_cons (g_members grp))%list
               end
      end
  end.
Definition total_uses (s : schema) : nat :=
  fold_right (fun g n => List.length (uses_of (g_members g)) + n) 0 (s_groups s).
Definition element_constraints (s : schema) (e : element) : option (list con) :=
  let st := rev (uses_of (e_members e)) in
  cons_dfs (S (List.length st + total_uses s + ngroups s)) s st [] (own_cons (e_members e)).

Definition kind_char (k : string) : option string :=
  if k =? "exclusive" then Some "e" else if k =? "together" then Some "t"
  else if k =? "requires" then Some "r" else if k =? "oneof" then Some "o" else None.

(* ---------------------------------------------------------------- rows *)
Inductive entry :=
| ERow (indent : nat) (parts : list string) (cons : list (string * string))   (* kind char, spec *)
| EOpen (indent : nat)
| EClose (indent : nat)
| EBlank.

Definition projected (project : bool) (attrs : list attr) : list attr :=
  if project then filter (fun a => negb (a_name a =? "name") && negb (a_name a =? "class")
                                   && negb (a_nodefault a)) attrs
  else attrs.

Definition join (sep : string) (l : list string) : string := String.concat sep l.

(* presence constraints whose attributes all survive in the row *)
Fixpoint row_cons (names : list string) (cs : list con) : option (list (string * string)) :=
  match cs with
  | [] => Some []
  | (k, bundles) :: r =>
      match row_cons names r with
      | None => None
      | Some rest =>
          if forallb (fun b => forallb (fun n => mem_str n names) b) bundles then
            match kind_char k with
            | Some c => Some ((c, join "|" (map (join " ") bundles)) :: rest)
            | None => None
            end
          else Some rest
      end
  end.

Definition prefix_default_ (n : string) : bool := String.prefix "default_" n.

(* children that get rows: not the element itself, not alias elements, not plugin under projection;
   None when a child is not declared (KeyError) *)
Fixpoint kept_children (s : schema) (e : element) (project : bool) (ms : list member)
  : option (list (string * string)) :=
  match ms with
  | [] => Some []
  | MChild n c :: r =>
      match kept_children s e project r with
      | None => None
      | Some rest =>
          if n =? e_name e then Some rest
          else match lookup_element s n with
               | None => None
               | Some d => if e_alias d then Some rest
                           else if project && (n =? "plugin") then Some rest
                           else Some ((n, c) :: rest)
               end
      end
  | _ :: r => kept_children s e project r
  end.

Definition child_project (e : element) (project : bool) (cname : string) : bool :=
  project || ((e_name e =? "default") && negb (prefix_default_ cname)).

Definition quote (x : string) : string := """" ++ x ++ """".

Definition row_of (s : schema) (e : element) (card : string) (indent : nat) (project : bool) : option entry :=
  match expanded_attrs s e, element_constraints s e with
  | Some attrs0, Some cs =>
      let attrs := projected project attrs0 in
      let names := map a_name attrs in
      match row_cons names cs with
      | Some rc => Some (ERow indent (quote (e_xml e) :: quote card :: map quote names) rc)
      | None => None
      end
  | _, _ => None
  end.

(* the loop over the kept children; [rec] is the recursive call of visit *)
Definition blank_after (indent : nat) : list entry := if Nat.eqb indent 0 then [EBlank] else [].
Definition visit_kids (rec : element -> string -> bool -> option (list entry)) (s : schema) (e : element)
  (indent : nat) (project : bool) : list (string * string) -> option (list entry) :=
  fix loop (ch : list (string * string)) : option (list entry) :=
    match ch with
    | [] => Some []
    | (cn, cc) :: r =>
        match lookup_element s cn with
        | None => None
        | Some d =>
            match rec d cc (child_project e project cn), loop r with
            | Some en, Some en2 => Some (en ++ blank_after indent ++ en2)%list
            | _, _ => None
            end
        end
    end.

Fixpoint visit (fuel : nat) (s : schema) (e : element) (card : string) (indent : nat) (project : bool)
  : option (list entry) :=
  match fuel with
  | O => None
  | S f =>
      match row_of s e card indent project, kept_children s e project (e_members e) with
      | Some row, Some ch =>
          match ch with
          | [] => Some [row]
          | _ =>
              match visit_kids (fun d cc cp => visit f s d cc (indent + 4) cp) s e indent project ch with
              | Some en => Some (row :: EOpen indent :: en ++ [EClose indent])%list
              | None => None
              end
          end
      | _, _ => None
      end
  end.

Definition nelements (s : schema) : nat := List.length (s_elements s).
Definition table_entries (s : schema) : option (list entry) :=
  match lookup_element s "mujoco" with
  | Some root => visit (S (nelements s)) s root "!" 0 false
  | None => None
  end.

(* ---------------------------------------------------------------- text *)
Definition nat_str (n : nat) : string := DecimalString.NilZero.string_of_uint (Nat.to_uint n).
Fixpoint spaces (n : nat) : string := match n with O => "" | S k => " " ++ spaces k end.
Definition WIDTH : nat := 100.

(* _wrap_row *)
Fixpoint wrap_go (indent : nat) (line : string) (parts : list string) : list string :=
  match parts with
  | [] => [line ++ "},"]
  | p :: r =>
      let cand := line ++ ", " ++ p in
      if (WIDTH <? String.length cand + 2)%nat
      then (line ++ ",") :: wrap_go indent (spaces (indent + 4) ++ p) r
      else wrap_go indent cand r
  end.
Definition wrap_row (parts : list string) (indent : nat) : list string :=
  match parts with
  | p0 :: r => wrap_go indent (spaces indent ++ "{" ++ p0) r
  | [] => []
  end.

Definition entry_lines (en : entry) : list string :=
  match en with
  | ERow indent parts _ => wrap_row parts indent
  | EOpen indent => [spaces indent ++ "{""<""},"]
  | EClose indent => [spaces indent ++ "{"">""},"]
  | EBlank => [""]
  end.
Definition counted (en : entry) : bool := match en with EBlank => false | _ => true end.

Definition con_line (count : nat) (c : string * string) : string :=
  "  {" ++ nat_str count ++ ", '" ++ fst c ++ "', """ ++ snd c ++ """},".

(* constraint rows: the index of a row counts the entries (rows and brackets) before it *)
Fixpoint con_lines (count : nat) (ens : list entry) : list string :=
  match ens with
  | [] => []
  | en :: r =>
      ((match en with
       | ERow _ _ cs => map (con_line count) cs
       | _ => []
       end) ++ con_lines (if counted en then S count else count) r)%list
  end.

Definition nonempty_lines (l : list string) : list string := match l with [] => [""] | _ => l end.

(* the generated text after the licence/comment header _HEADER, as lines (joined by newlines) *)
Definition table_lines (s : schema) : option (list string) :=
  match table_entries s with
  | None => None
  | Some ens =>
      Some ((["std::vector<const char*> MJCF[] = {"]
            ++ nonempty_lines (flat_map entry_lines ens)
            ++ ["};"; "// clang-format on"; "";
                "const int nMJCF = sizeof(MJCF) / sizeof(MJCF[0]);"; "";
                "// presence constraints, indexed into MJCF[]; enforced by";
                "// mjXSchema::Check. spec: attribute bundles, space-joined,";
                "// '|'-separated; kind: e=exclusive t=together r=requires o=oneof";
                "// clang-format off";
                "const mjXConstraintDef MJCF_constraints[] = {"]
            ++ nonempty_lines (con_lines 0 ens)
            ++ ["};"; "// clang-format on"; "";
                "const int nMJCF_constraints = sizeof(MJCF_constraints) / sizeof(MJCF_constraints[0]);"; ""])%list)
  end.

(* ---------------------------------------------------------------- generate_mjcf_map.py *)
Inductive maprow :=
| MapHead (name : string)
| MapItem (width : nat) (key value : string)
| MapSize (name : string) (n : nat).

Definition ljust (x : string) (w : nat) : string := x ++ spaces (w - String.length x).
Definition max_key (items : list (string * string)) : nat :=
  fold_right (fun kv m => Nat.max (String.length (fst kv)) m) 0 items.
Definition enum_rows (e : enum) : list maprow :=
  let width := max_key (en_items e) + 3 in
  (MapHead (en_name e) :: map (fun kv => MapItem width (fst kv) (snd kv)) (en_items e)
  ++ [MapSize (en_name e) (List.length (en_items e))])%list.
Definition map_rows (s : schema) : list maprow := flat_map enum_rows (s_enums s).
Definition maprow_lines (r : maprow) : list string :=
  match r with
  | MapHead n => ["// enum " ++ n; "inline constexpr mjMap " ++ n ++ "_map[] = {"]
  | MapItem w k v => ["  {" ++ ljust ("""" ++ k ++ """,") (w + 1) ++ " " ++ v ++ "},"]
  | MapSize n k => ["};"; "inline constexpr int " ++ n ++ "_sz = " ++ nat_str k ++ ";"; ""]
  end.
(* text between header and footer *)
Definition map_text (s : schema) : string := join (String (ascii_of_nat 10) "") (flat_map maprow_lines (map_rows s)).

(* ---------------------------------------------------------------- _check_child_cycles *)
(* the child graph followed by visit: edges to distinct, non-alias elements.  The validator runs a
   depth-first search; the model states the same fact as "the unfolding below every element ends
   within the number of elements" (a path longer than that would repeat an element). *)
Fixpoint reach_ok (fuel : nat) (s : schema) (e : element) : bool :=
  match fuel with
  | O => false
  | S f =>
      match kept_children s e false (e_members e) with
      | None => false
      | Some ch => forallb (fun c => match lookup_element s (fst c) with
                                     | Some d => reach_ok f s d
                                     | None => false
                                     end) ch
      end
  end.

(* ---------------------------------------------------------------- validity (the structural part of _validate) *)
Definition is_some {A} (o : option A) : bool := match o with Some _ => true | None => false end.
Definition members_ok (s : schema) (allow_child : bool) (ms : list member) : bool :=
  forallb (fun m => match m with
                    | MUse g => is_some (lookup_group s g)
                    | MChild n _ => allow_child && is_some (lookup_element s n)
                    | MCon k _ => is_some (kind_char k)
                    | _ => true
                    end) ms.
Fixpoint nodup_str (l : list string) : bool :=
  match l with [] => true | x :: r => negb (mem_str x r) && nodup_str r end.
Definition child_names (ms : list member) : list string :=
  flat_map (fun m => match m with MChild n _ => [n] | _ => [] end) ms.
Definition valid (s : schema) : bool :=
  nodup_str (map g_name (s_groups s)) && nodup_str (map e_name (s_elements s))
  && nodup_str (map en_name (s_enums s))
  && forallb (fun g => members_ok s false (g_members g)
                       && is_some (expand (ngroups s) s (g_members g))) (s_groups s)      (* no use cycle *)
  && forallb (fun e => members_ok s true (e_members e) && nodup_str (child_names (e_members e))
                       && match expanded_attrs s e with
                          | Some at_ => nodup_str (map a_name at_)
                          | None => false
                          end) (s_elements s)
  && forallb (fun e => negb (Nat.eqb (List.length (en_items e)) 0)) (s_enums s)
  && forallb (fun e => reach_ok (S (List.length (s_elements s))) s e) (s_elements s).             (* no child cycle *)

(* ---------------------------------------------------------------- specification of the element table *)
(* use-expansion as a relation: the attributes of a member list in declaration order *)
Inductive gexp (s : schema) : list member -> list attr -> Prop :=
| gexp_nil : gexp s [] []
| gexp_attr a r o : gexp s r o -> gexp s (MAttr a :: r) (a :: o)
| gexp_use g grp r o1 o2 : lookup_group s g = Some grp -> gexp s (g_members grp) o1 -> gexp s r o2 ->
    gexp s (MUse g :: r) (o1 ++ o2)%list
| gexp_child n c r o : gexp s r o -> gexp s (MChild n c :: r) o
| gexp_con k b r o : gexp s r o -> gexp s (MCon k b :: r) o
| gexp_const r o : gexp s r o -> gexp s (MConst :: r) o.

(* a node: element, cardinality it was declared with, default-context flag, its expanded
   attributes, the constraint specs of its row, the subtrees of its kept children *)
Inductive tree :=
| Node (e : element) (card : string) (project : bool) (attrs : list attr) (rc : list (string * string))
       (kids : list tree).

Definition root_is (t : tree) (e : element) (card : string) (project : bool) : Prop :=
  match t with Node e' c' p' _ _ _ => e' = e /\ c' = c' /\ c' = card /\ p' = project end.

(* t is the child tree of the schema below its root element *)
Fixpoint is_ctree (s : schema) (t : tree) : Prop :=
  match t with
  | Node e card proj attrs rc kids =>
      gexp s (e_members e) attrs
      /\ (exists cs, element_constraints s e = Some cs
                     /\ row_cons (map a_name (projected proj attrs)) cs = Some rc)
      /\ exists ch, kept_children s e proj (e_members e) = Some ch
           /\ (fix km (kids : list tree) (ch : list (string * string)) {struct kids} : Prop :=
                 match kids, ch with
                 | [], [] => True
                 | k :: ks, (cn, cc) :: r =>
                     (exists d, lookup_element s cn = Some d /\ root_is k d cc (child_project e proj cn))
                     /\ is_ctree s k /\ km ks r
                 | _, _ => False
                 end) kids ch
  end.

Definition row_entry (indent : nat) (e : element) (card : string) (proj : bool) (attrs : list attr)
  (rc : list (string * string)) : entry :=
  ERow indent (quote (e_xml e) :: quote card :: map quote (map a_name (projected proj attrs))) rc.

(* pre-order traversal: the row of the node, then, if it has kept children, the bracketed rows
   of the subtrees (a blank separator after each top-level subtree) *)
Fixpoint preorder (indent : nat) (t : tree) : list entry :=
  match t with
  | Node e card proj attrs rc kids =>
      match kids with
      | [] => [row_entry indent e card proj attrs rc]
      | _ => (row_entry indent e card proj attrs rc :: EOpen indent
              :: flat_map (fun k => preorder (indent + 4) k ++ blank_after indent) kids
              ++ [EClose indent])%list
      end
  end.

