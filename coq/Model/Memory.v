(* Model of src/engine/engine_memory.c (non-ASan build: mjREDZONE = 0): the mjData arena/stack
   allocator.  Definitions only, all executable.

   All quantities are C size_t / uintptr_t values, i.e. integers in [0, 2^64); every C operation
   that can wrap is written with an explicit [wrap] (mod 2^64).  Pointers are absolute addresses
   ([base] is the numerical value of d->arena), because the code aligns absolute addresses and
   stores absolute addresses in the stack frames (mjStackFrame.pbase / .pstack) and in d->pbase.

   The booleans [gd] ([gs]: stackallocinternal, [gt]: thread-lock branch of stackalloc, [ga]:
   mj_arenaAllocByte) select the code variant: [true] is the code as it is now (the requested size
   is compared with the available bytes before the size_t arithmetic that could wrap; /repo commit
   e39ca69d3, which repaired the defect exhibited by C19_unguarded_wrap_refuted); [false] is the
   code before that repair.  The check decides on every run, per site, by replaying the wrap
   witnesses, which of the two the working tree implements, reports a violation if it is the
   unguarded one, and ties the variant found. *)
From Coq Require Import ZArith List Bool.
Import ListNotations.
Open Scope Z_scope.

Definition W : Z := 18446744073709551616.  (* 2^64 *)
Definition wrap (x : Z) : Z := x mod W.

(* memory: a log of writes, newest first.  [MW a v]: the allocator stores the 8-byte word v at
   address a (frame fields).  [MC a len v]: the user fills [a, a+len) with arbitrary bytes; any
   word read that overlaps it yields the arbitrary value v. *)
Inductive mev := MW (a v : Z) | MC (a len v : Z).
Definition ev_lo (e : mev) : Z := match e with MW a _ => a | MC a _ _ => a end.
Definition ev_hi (e : mev) : Z := match e with MW a _ => a + 8 | MC a l _ => a + l end.
Definition ev_val (e : mev) : Z := match e with MW _ v => v | MC _ _ v => v end.
Fixpoint rd (m : list mev) (x : Z) : Z :=
  match m with
  | [] => 0
  | e :: r => if (ev_lo e <? x + 8) && (x <? ev_hi e) then ev_val e else rd r x
  end.

Record st := mkst {
  base : Z;      (* (uintptr_t) d->arena *)
  narena : Z;    (* d->narena *)
  parena : Z;    (* d->parena *)
  pstack : Z;    (* d->pstack *)
  pbase : Z;     (* d->pbase: absolute address of the newest mjStackFrame, 0 if none *)
  maxs : Z;      (* d->maxuse_stack *)
  maxa : Z;      (* d->maxuse_arena *)
  tlock : bool;  (* d->threadlock *)
  mem : list mev
}.

Inductive res := RNull | RPtr (p : Z) | RErr | RUnit.

(* static inline size_t fastmod(size_t a, size_t b) *)
Definition fastmod (a b : Z) : Z :=
  if Z.land b (wrap (b - 1)) =? 0 then Z.land a (wrap (b - 1)) else a mod b.

(* sizeof(mjStackFrame), _Alignof(mjStackFrame), offsets of .pbase and .pstack
   (checked against the compiler by the driver on every run) *)
Definition FRAME : Z := 24.
Definition FALIGN : Z := 8.

(* get_stack_info_from_data *)
Definition bottom (s : st) : Z := wrap (base s + narena s).
Definition top (s : st) : Z := wrap (bottom s - pstack s).
Definition limit (s : st) : Z := wrap (base s + parena s).

(* stackallocinternal on the stack shard with top [tp]; size <> 0 is tested by the callers too *)
Inductive ires := INull | IErr | IOk (start newtop ms ma : Z).
Definition alloc_internal (gd : bool) (s : st) (tp size al : Z) : ires :=
  if size =? 0 then INull else
  let start0 := wrap (tp - size) in
  let start := wrap (start0 - fastmod start0 al) in
  let newtop := start in
  let cur := wrap (tp - newtop) in
  let usage := wrap (cur + wrap (bottom s - tp)) in
  let avail := wrap (tp - limit s) in
  let req := wrap (tp - newtop) in
  if (gd && (size >? avail)) || (req >? avail) then IErr
  else IOk start newtop (Z.max (maxs s) usage) (Z.max (maxa s) (wrap (usage + parena s))).

Definition set_stack (s : st) (ps pb ms ma : Z) (m : list mev) : st :=
  mkst (base s) (narena s) (parena s) ps pb ms ma (tlock s) m.

(* thread-lock branch of stackalloc, split at the atomic operation:
   [tl_reserve] is  old_pstack = atomic_fetch_add(&d->pstack, alloc_size)  (one atomic step),
   [tl_finish] is the thread-local remainder (reads narena, parena, arena: not written meanwhile) *)
Definition tl_alloc_size (size al : Z) : Z := wrap (wrap (size + al) - 1).
Definition tl_pre_error (gd : bool) (narena_ parena_ : Z) (size al : Z) : bool :=
  gd && ((tl_alloc_size size al <? size) || (tl_alloc_size size al >? wrap (narena_ - parena_))).
Definition tl_reserve (s : st) (size al : Z) : Z * st :=
  (pstack s, set_stack s (wrap (pstack s + tl_alloc_size size al)) (pbase s) (maxs s) (maxa s) (mem s)).
Definition tl_finish (gd : bool) (base_ narena_ parena_ : Z) (old size al : Z) : res :=
  let alloc := tl_alloc_size size al in
  let avail := wrap (narena_ - parena_) in
  if (if gd then old >? wrap (avail - alloc) else wrap (old + alloc) >? avail) then RErr
  else
    let bot := wrap (base_ + narena_) in
    let start0 := wrap (wrap (bot - old) - size) in
    RPtr (wrap (start0 - fastmod start0 al)).

(* stackalloc *)
Definition stack_alloc (gs gt : bool) (s : st) (size al : Z) : res * st :=
  if size =? 0 then (RNull, s) else
  if tlock s then
    if tl_pre_error gt (narena s) (parena s) size al then (RErr, s) else
    let (old, s1) := tl_reserve s size al in
    (tl_finish gt (base s) (narena s) (parena s) old size al, s1)
  else
    match alloc_internal gs s (top s) size al with
    | INull => (RNull, s)
    | IErr => (RErr, s)                      (* mju_error does not return *)
    | IOk start newtop ms ma =>
        (RPtr start, set_stack s (wrap (bottom s - newtop)) (pbase s) ms ma (mem s))
    end.

(* mj_markStack *)
Definition mark (gd : bool) (s : st) : res * st :=
  if tlock s then (RUnit, s) else
  match alloc_internal gd s (top s) FRAME FALIGN with
  | IOk start newtop ms ma =>
      (RUnit, set_stack s (wrap (bottom s - newtop)) start ms ma
                (MW (wrap (start + 8)) (top s) :: MW start (pbase s) :: mem s))
  | _ => (RErr, s)
  end.

(* mj_freeStack *)
Definition free (s : st) : res * st :=
  if tlock s then (RUnit, s) else
  if pbase s =? 0 then
    (RUnit, set_stack s (wrap (bottom s - top s)) (pbase s) (maxs s) (maxa s) (mem s))
  else
    let sb := rd (mem s) (pbase s) in
    let tp := rd (mem s) (wrap (pbase s + 8)) in
    (RUnit, set_stack s (wrap (bottom s - tp)) sb (maxs s) (maxa s) (mem s)).

(* mj_arenaAllocByte *)
Definition arena_alloc (gd : bool) (s : st) (bytes al : Z) : res * st :=
  let mis := fastmod (parena s) al in
  let pad := if mis =? 0 then 0 else wrap (al - mis) in
  let avail := wrap (narena s - pstack s) in
  if (if gd then (bytes >? avail) || (wrap (parena s + pad) >? wrap (avail - bytes))
      else wrap (wrap (parena s + pad) + bytes) >? avail)
  then (RNull, s)
  else
    let pa := wrap (parena s + wrap (pad + bytes)) in
    (RPtr (wrap (wrap (base s + parena s) + pad)),
     mkst (base s) (narena s) pa (pstack s) (pbase s) (maxs s)
          (Z.max (maxa s) (wrap (pstack s + pa))) (tlock s) (mem s)).

(* operations on an mjData *)
Inductive op :=
| OMark | OFree
| OSAlloc (size al : Z)      (* mj_stackAllocByte *)
| OAAlloc (bytes al : Z)     (* mj_arenaAllocByte *)
| ONum (n : Z)               (* mj_stackAllocNum *)
| OInt (n : Z)               (* mj_stackAllocInt *)
| OWrite (a len v : Z)       (* user code writes into memory *)
| OLock (b : bool).          (* d->threadlock = b (mju_dispatch) *)

Definition SIZE_MAX : Z := W - 1.

Definition step (gs gt ga : bool) (s : st) (o : op) : res * st :=
  match o with
  | OMark => mark gs s
  | OFree => free s
  | OSAlloc size al => stack_alloc gs gt s size al
  | OAAlloc bytes al => arena_alloc ga s bytes al
  | ONum n => if n >=? SIZE_MAX / 8 then (RErr, s) else stack_alloc gs gt s (wrap (n * 8)) 8
  | OInt n => if n >=? SIZE_MAX / 4 then (RErr, s) else stack_alloc gs gt s (wrap (n * 4)) 4
  | OWrite a len v =>
      (RUnit, set_stack s (pstack s) (pbase s) (maxs s) (maxa s) (MC a len v :: mem s))
  | OLock b => (RUnit, mkst (base s) (narena s) (parena s) (pstack s) (pbase s) (maxs s) (maxa s) b (mem s))
  end.

(* what the driver prints after every operation *)
Definition obs (r : res) (s : st) : list Z :=
  (match r with RUnit => [0; 0] | RNull => [1; 0] | RPtr p => [2; p] | RErr => [3; 0] end)
  ++ [pstack s; parena s; pbase s; maxs s; maxa s].

(* user writes are not calls of the allocator: nothing is printed for them *)
Fixpoint run (gs gt ga : bool) (s : st) (ops : list op) : list (list Z) :=
  match ops with
  | [] => []
  | o :: r => let (x, s') := step gs gt ga s o in
              match o with
              | OWrite _ _ _ => run gs gt ga s' r
              | _ => obs x s' :: run gs gt ga s' r
              end
  end.

Definition init (base_ narena_ parena_ pstack_ : Z) : st :=
  mkst base_ narena_ parena_ pstack_ 0 0 0 false [].

(* ---- concurrent reservations under the thread lock (sequentially consistent, one atomic
   operation per step).  Shared: pstack.  A thread either has no request in flight or holds the
   value returned by its fetch-add.  Actions of a schedule: *)
Inductive cact :=
| CReserve (tid : Z) (size al : Z)   (* thread tid executes the fetch-add of stackalloc(size, al) *)
| CFinish (tid : Z).                 (* thread tid executes the rest of that call *)

Record cst := mkcst {
  c_pstack : Z;
  c_pend : list (Z * (Z * Z * Z));        (* tid -> (old, size, al) *)
  c_done : list (Z * Z * res)             (* (size, al, result), newest first *)
}.

Fixpoint pend_get (l : list (Z * (Z * Z * Z))) (t : Z) : option (Z * Z * Z) :=
  match l with [] => None | (t', x) :: r => if t' =? t then Some x else pend_get r t end.
Fixpoint pend_del (l : list (Z * (Z * Z * Z))) (t : Z) : list (Z * (Z * Z * Z)) :=
  match l with [] => [] | (t', x) :: r => if t' =? t then pend_del r t else (t', x) :: pend_del r t end.

(* a thread that is inside a call cannot start another one: such actions are ignored *)
Definition cstep (gd : bool) (base_ narena_ parena_ : Z) (c : cst) (a : cact) : cst :=
  match a with
  | CReserve t size al =>
      match pend_get (c_pend c) t with
      | Some _ => c
      | None =>
          if size =? 0 then c else
          if tl_pre_error gd narena_ parena_ size al
          then mkcst (c_pstack c) (c_pend c) ((size, al, RErr) :: c_done c) else
          mkcst (wrap (c_pstack c + tl_alloc_size size al))
                ((t, (c_pstack c, size, al)) :: c_pend c) (c_done c)
      end
  | CFinish t =>
      match pend_get (c_pend c) t with
      | None => c
      | Some (old, size, al) =>
          mkcst (c_pstack c) (pend_del (c_pend c) t)
                ((size, al, tl_finish gd base_ narena_ parena_ old size al) :: c_done c)
      end
  end.

Definition crun (gd : bool) (base_ narena_ parena_ : Z) (c : cst) (sched : list cact) : cst :=
  fold_left (cstep gd base_ narena_ parena_) sched c.
