(* Decision logic of mjXUtil::WriteAttr (src/xml/xml_util.cc) for one number: printed through
   Round() as an integer, or handed to the stream at the current precision
   (src/xml/xml_numeric_format.cc: 6 by default, 17 under FullFloatPrecision).
   Numbers are exact rationals here (every finite double is one).  Definitions only. *)
From Coq Require Import ZArith QArith Qround Qabs.
Open Scope Q_scope.

Definition int_max : Z := 2147483647.
Definition tol : Q := 4951760157141521 # 4951760157141521099596496896.   (* the double 1E-12 = 0x1.19799812dea11p-40, exactly *)

Definition qfloor (x : Q) : Z := Qfloor x.
Definition qceil (x : Q) : Z := Qceiling x.

(* static bool isint(double x) *)
Definition isint (x : Q) : bool :=
  (if Qlt_le_dec (Qabs (x - inject_Z (qfloor x))) tol then true else false) ||
  (if Qlt_le_dec (Qabs (x - inject_Z (qceil x))) tol then true else false).

(* static int Round(double x) *)
Definition round (x : Q) : Z :=
  if Qlt_le_dec (Qabs (x - inject_Z (qfloor x))) (Qabs (x - inject_Z (qceil x))) then qfloor x else qceil x.

(* Some n: the text is the decimal integer n;  None: the text is the stream's rendering of x *)
Definition fmt_decision (x : Q) : option Z :=
  if (if Qlt_le_dec x (inject_Z int_max) then true else false) &&
     (if Qlt_le_dec (inject_Z (- int_max)) x then true else false) && isint x
  then Some (round x) else None.
