(* C07: model of forward kinematics and of the point Jacobian of MuJoCo, written once over the numeric
   class Lib/Num.v (R for the theorems, binary64 for the correspondence runs), on top of the rotation
   utilities of Model/Spatial.v (C24).

     src/engine/engine_core_smooth.c : mj_kinematics1 (body frames, joint anchors and axes),
                                       mj_kinematics2 (inertial / geom / site frames through
                                       mj_local2Global), the cdof part of mj_comPos
     src/engine/engine_core_util.c   : mj_local2Global, mj_jac (dense point Jacobian)
     src/engine/engine_util_spatial.c: mju_dofCom
     src/engine/engine_support.c     : mj_integratePos, mj_differentiatePos

   A kinematic tree is the list of its bodies 1 .. nbody-1 in index order (body 0, the world, is
   implicit); every body carries the index of its parent, its fixed offset (body_pos, body_quat), the
   mocap pose when it is a mocap body, and the list of its joints; every joint carries its slice of
   qpos (7 / 4 / 1 / 1 numbers) and qpos0.  Array addresses (jnt_qposadr, body_jntadr, dof_parentid,
   body_weldid) are abstracted into this structure: the ancestor chain of dofs walked by mj_jac is
   "all dofs of all joints of the body and of its ancestors".
   mjERROR (a free joint that is not alone on its body) and a parent index that is not smaller than
   the body's own index are modelled by None.
   Not modelled: sleep filtering, flex / camera tracking modes, lights. *)
From Coq Require Import ZArith List Bool.
From MJV Require Import Lib.Num Model.Spatial.
Import ListNotations.

Inductive jtype := JFree | JBall | JSlide | JHinge.      (* mjtJoint: 0 1 2 3 *)
Definition jtype_of_Z (z : Z) : jtype :=
  match z with 0%Z => JFree | 1%Z => JBall | 2%Z => JSlide | _ => JHinge end.

Record joint (T : Type) := mkJoint {
  j_type : jtype;
  j_pos : vec3 T;        (* jnt_pos  : anchor in the body frame *)
  j_axis : vec3 T;       (* jnt_axis : axis in the body frame *)
  j_q : list T;          (* qpos[jnt_qposadr ...): 7 (free), 4 (ball), 1 (slide, hinge) numbers *)
  j_q0 : T               (* qpos0[jnt_qposadr] (used by slide and hinge) *)
}.
Arguments mkJoint {T}. Arguments j_type {T}. Arguments j_pos {T}. Arguments j_axis {T}.
Arguments j_q {T}. Arguments j_q0 {T}.

Record body (T : Type) := mkBody {
  b_parent : nat;                          (* body_parentid *)
  b_pos : vec3 T;                          (* body_pos *)
  b_quat : quat T;                         (* body_quat *)
  b_mocap : option (vec3 T * quat T);      (* mocap_pos, mocap_quat when body_mocapid >= 0 *)
  b_joints : list (joint T)
}.
Arguments mkBody {T}. Arguments b_parent {T}. Arguments b_pos {T}. Arguments b_quat {T}.
Arguments b_mocap {T}. Arguments b_joints {T}.

(* (xpos, xquat, xmat) of one body *)
Definition frame (T : Type) : Type := (vec3 T * quat T * mat3 T)%type.
(* (xanchor, xaxis) of one joint *)
Definition janchor (T : Type) : Type := (vec3 T * vec3 T)%type.
(* spatial motion vector (rotation : translation), as cdof *)
Definition mvec (T : Type) : Type := (vec3 T * vec3 T)%type.

Section Kin.
Context {T : Type} `{NumT T}.
Local Open Scope num_scope.

Definition worldFrame : frame T := (zero3, quatId, matId).

(* accessors into a joint's qpos slice *)
Definition qs (j : joint T) : T := nth 0 (j_q j) nzero.
Definition qv3 (j : joint T) (k : nat) : vec3 T :=
  (nth k (j_q j) nzero, nth (k + 1) (j_q j) nzero, nth (k + 2) (j_q j) nzero).
Definition qq4 (j : joint T) (k : nat) : quat T :=
  (nth k (j_q j) nzero, nth (k + 1) (j_q j) nzero, nth (k + 2) (j_q j) nzero, nth (k + 3) (j_q j) nzero).

(* ------------------------------------------------------------------ mj_kinematics1 *)
(* one iteration of the joint loop: state (xpos, xquat) -> new state and (xanchor, xaxis) *)
Definition jointStep (j : joint T) (st : vec3 T * quat T) : option (vec3 T * quat T * janchor T) :=
  let '(xpos, xquat) := st in
  let xaxis := rotVecQuat_i (j_axis j) xquat in
  let xanchor := add3 (rotVecQuat_i (j_pos j) xquat) xpos in
  match j_type j with
  | JSlide => Some (add3 xpos (scl3 xaxis (qs j - j_q0 j)), xquat, (xanchor, xaxis))
  | JBall =>
      let qloc := fst (normalize4 (qq4 j 0)) in
      let xquat' := mulQuat xquat qloc in
      Some (sub3 xanchor (rotVecQuat_i (j_pos j) xquat'), xquat', (xanchor, xaxis))
  | JHinge =>
      let qloc := axisAngle2Quat (j_axis j) (qs j - j_q0 j) in
      let xquat' := mulQuat xquat qloc in
      Some (sub3 xanchor (rotVecQuat_i (j_pos j) xquat'), xquat', (xanchor, xaxis))
  | JFree => None                                   (* mjERROR: unknown joint type *)
  end.

Fixpoint jointsLoop (js : list (joint T)) (st : vec3 T * quat T)
  : option (vec3 T * quat T * list (janchor T)) :=
  match js with
  | [] => Some (fst st, snd st, [])
  | j :: r =>
      match jointStep j st with
      | None => None
      | Some (p, q, ja) =>
          match jointsLoop r (p, q) with
          | None => None
          | Some (p', q', l) => Some (p', q', ja :: l)
          end
      end
  end.

(* jntnum == 1 && jnt_type == mjJNT_FREE *)
Definition freeJoint (js : list (joint T)) : option (joint T) :=
  match js with
  | [j] => match j_type j with JFree => Some j | _ => None end
  | _ => None
  end.

(* "normalize quaternion ... assign xquat and xpos, construct xmat" *)
Definition finishBody (xpos : vec3 T) (xquat : quat T) : frame T :=
  let q := fst (normalize4 xquat) in (xpos, q, quat2Mat q).

(* the state from which the joint loop of a regular body starts *)
Definition bodyStart (frames : list (frame T)) (b : body T) : option (vec3 T * quat T) :=
  let '(bodypos, bodyquat) :=
    match b_mocap b with
    | Some (mp, mq) => (mp, fst (normalize4 mq))
    | None => (b_pos b, b_quat b)
    end in
  if Nat.eqb (b_parent b) 0 then Some (bodypos, bodyquat)
  else match nth_error frames (b_parent b) with
       | Some (ppos, pquat, pmat) => Some (add3 (mulMatVec3 pmat bodypos) ppos, mulQuat pquat bodyquat)
       | None => None
       end.

Definition bodyFrame (frames : list (frame T)) (b : body T) : option (frame T * list (janchor T)) :=
  match freeJoint (b_joints b) with
  | Some j =>
      let xpos := qv3 j 0 in
      let xquat := fst (normalize4 (qq4 j 3)) in
      Some (finishBody xpos xquat, [(xpos, j_axis j)])
  | None =>
      match bodyStart frames b with
      | None => None
      | Some st =>
          match jointsLoop (b_joints b) st with
          | None => None
          | Some (p, q, ja) => Some (finishBody p q, ja)
          end
      end
  end.

Fixpoint kinLoop (bs : list (body T)) (frames : list (frame T)) (jas : list (list (janchor T)))
  : option (list (frame T) * list (list (janchor T))) :=
  match bs with
  | [] => Some (frames, jas)
  | b :: r =>
      match bodyFrame frames b with
      | None => None
      | Some (f, ja) => kinLoop r (frames ++ [f]) (jas ++ [ja])
      end
  end.

(* frames: one per body INCLUDING the world (index = body id); anchors: one list per body 1.. *)
Definition kinematics (bs : list (body T)) : option (list (frame T) * list (list (janchor T))) :=
  kinLoop bs [worldFrame] [].

(* ------------------------------------------------------------------ mj_local2Global / mj_kinematics2 *)
(* sf: mjtSameFrame 0 NONE, 1 BODY, 2 INERTIA, 3 BODYROT, 4 INERTIAROT; ifr = (xipos, ximat) of the body *)
Definition local2Global (fr : frame T) (ifr : vec3 T * mat3 T) (pos : vec3 T) (q : quat T) (sf : Z)
  : vec3 T * mat3 T :=
  let '(xpos, xquat, xmat) := fr in
  let '(xipos, ximat) := ifr in
  ((if (sf =? 1)%Z then xpos else if (sf =? 2)%Z then xipos else add3 (mulMatVec3 xmat pos) xpos),
   (if (sf =? 0)%Z then quat2Mat (mulQuat xquat q)
    else if ((sf =? 1) || (sf =? 3))%Z then xmat else ximat)).

(* body inertial frame: body_sameframe is NONE, BODY or BODYROT *)
Definition inertialFrame (fr : frame T) (ipos : vec3 T) (iquat : quat T) (sf : Z) : vec3 T * mat3 T :=
  local2Global fr (zero3, matId) ipos iquat sf.

(* ------------------------------------------------------------------ cdof (mj_comPos) and mj_jac *)
(* mju_dofCom: offset = None is the slide case *)
Definition dofCom (axis : vec3 T) (offset : option (vec3 T)) : mvec T :=
  match offset with
  | Some o => (axis, cross axis o)
  | None => (zero3, axis)
  end.

(* the cdof entries of one joint; com = subtree_com of the root of the joint's body *)
Definition jointCdof (t : jtype) (xmat : mat3 T) (ja : janchor T) (com : vec3 T) : list (mvec T) :=
  let '(xanchor, xaxis) := ja in
  let offset := sub3 com xanchor in
  let '(m0, m1, m2, m3, m4, m5, m6, m7, m8) := xmat in
  let ball := [dofCom (m0, m3, m6) (Some offset); dofCom (m1, m4, m7) (Some offset);
               dofCom (m2, m5, m8) (Some offset)] in
  match t with
  | JFree => [(zero3, (none, nzero, nzero)); (zero3, (nzero, none, nzero)); (zero3, (nzero, nzero, none))]
             ++ ball
  | JBall => ball
  | JSlide => [dofCom xaxis None]
  | JHinge => [dofCom xaxis (Some offset)]
  end.

(* one column of mj_jac: (jacp column, jacr column); offset = point - subtree_com[root] *)
Definition jacCol (cdof : mvec T) (offset : vec3 T) : vec3 T * vec3 T :=
  (add3 (snd cdof) (cross (fst cdof) offset), fst cdof).

(* the column written for a hinge / slide joint, end to end (cdof from mj_comPos, then mj_jac) *)
Definition jacColJoint (t : jtype) (ja : janchor T) (com point : vec3 T) : vec3 T * vec3 T :=
  match t with
  | JSlide => jacCol (dofCom (snd ja) None) (sub3 point com)
  | _ => jacCol (dofCom (snd ja) (Some (sub3 com (fst ja)))) (sub3 point com)
  end.

Definition parentOf (bs : list (body T)) (i : nat) : nat :=
  match i with O => O | S k => match nth_error bs k with Some b => b_parent b | None => O end end.

(* a = b or a is an ancestor of b (body ids; 0 is the world) *)
Fixpoint isAncestor (fuel : nat) (bs : list (body T)) (a b : nat) : bool :=
  if Nat.eqb a b then true
  else if Nat.eqb b 0 then false
  else match fuel with O => false | S f => isAncestor f bs a (parentOf bs b) end.

(* all cdofs of the tree, body after body, joint after joint: list of (body id, cdof) in dof order *)
Fixpoint treeCdof (k : nat) (bs : list (body T)) (frames : list (frame T)) (jas : list (list (janchor T)))
         (coms : list (vec3 T)) : list (nat * mvec T) :=
  match bs, jas with
  | b :: r, ja :: jr =>
      let '(_, _, xmat) := nth k frames worldFrame in
      let com := nth k coms zero3 in
      flat_map (fun p => map (fun c => (k, c)) (jointCdof (j_type (fst p)) xmat (snd p) com))
               (combine (b_joints b) ja)
      ++ treeCdof (S k) r frames jr coms
  | _, _ => []
  end.

(* mj_jac(m, d, jacp, jacr, point, body): list of columns (jacp column, jacr column), one per dof;
   coms[i] = subtree_com[body_rootid[i]] *)
Definition mj_jac (bs : list (body T)) (frames : list (frame T)) (jas : list (list (janchor T)))
           (coms : list (vec3 T)) (point : vec3 T) (b : nat) : list (vec3 T * vec3 T) :=
  let offset := sub3 point (nth b coms zero3) in
  map (fun kc => if isAncestor (length bs) bs (fst kc) b then jacCol (snd kc) offset else (zero3, zero3))
      (treeCdof 1 bs frames jas coms).

(* ------------------------------------------------------------------ mj_integratePos / mj_differentiatePos *)
Fixpoint nq_of (js : list jtype) : nat :=
  match js with [] => 0 | JFree :: r => 7 + nq_of r | JBall :: r => 4 + nq_of r | _ :: r => 1 + nq_of r end.
Fixpoint nv_of (js : list jtype) : nat :=
  match js with [] => 0 | JFree :: r => 6 + nv_of r | JBall :: r => 3 + nv_of r | _ :: r => 1 + nv_of r end.

Fixpoint integratePos (js : list jtype) (qpos qvel : list T) (dt : T) : list T :=
  match js with
  | [] => qpos
  | JFree :: r =>
      match qpos, qvel with
      | p0 :: p1 :: p2 :: a :: b :: c :: d :: qp, v0 :: v1 :: v2 :: w0 :: w1 :: w2 :: qv =>
          (p0 + dt * v0) :: (p1 + dt * v1) :: (p2 + dt * v2)
            :: q2l (quatIntegrate (a, b, c, d) (w0, w1, w2) dt) ++ integratePos r qp qv dt
      | _, _ => qpos
      end
  | JBall :: r =>
      match qpos, qvel with
      | a :: b :: c :: d :: qp, w0 :: w1 :: w2 :: qv =>
          q2l (quatIntegrate (a, b, c, d) (w0, w1, w2) dt) ++ integratePos r qp qv dt
      | _, _ => qpos
      end
  | _ :: r =>
      match qpos, qvel with
      | p :: qp, v :: qv => (p + dt * v) :: integratePos r qp qv dt
      | _, _ => qpos
      end
  end.

(* mj_differentiatePos(m, qvel, dt, qpos1, qpos2) *)
Fixpoint differentiatePos (js : list jtype) (dt : T) (qpos1 qpos2 : list T) : list T :=
  match js with
  | [] => []
  | JFree :: r =>
      match qpos1, qpos2 with
      | p0 :: p1 :: p2 :: a :: b :: c :: d :: q1, s0 :: s1 :: s2 :: a2 :: b2 :: c2 :: d2 :: q2 =>
          ((s0 - p0) / dt) :: ((s1 - p1) / dt) :: ((s2 - p2) / dt)
            :: v2l (scl3 (subQuat (a2, b2, c2, d2) (a, b, c, d)) (none / dt)) ++ differentiatePos r dt q1 q2
      | _, _ => []
      end
  | JBall :: r =>
      match qpos1, qpos2 with
      | a :: b :: c :: d :: q1, a2 :: b2 :: c2 :: d2 :: q2 =>
          v2l (scl3 (subQuat (a2, b2, c2, d2) (a, b, c, d)) (none / dt)) ++ differentiatePos r dt q1 q2
      | _, _ => []
      end
  | _ :: r =>
      match qpos1, qpos2 with
      | p :: q1, s :: q2 => ((s - p) / dt) :: differentiatePos r dt q1 q2
      | _, _ => []
      end
  end.

(* ------------------------------------------------------------------ serial chains (used by the Jacobian theorem) *)
(* what lies between a joint and a point further down the tree: more joints of the same body, the end
   of a body (final normalisation), the fixed offset of a child body *)
Inductive cstep :=
| CJoint (j : joint T)                      (* one joint-loop iteration *)
| CFinish                                   (* end of the body: mju_normalize4(xquat), xmat *)
| CChild (pos : vec3 T) (q : quat T).       (* child body: xpos = xmat*pos + xpos, xquat = xquat*q *)

Definition chainStep (c : cstep) (st : vec3 T * quat T) : option (vec3 T * quat T) :=
  match c with
  | CJoint j => match jointStep j st with Some (p, q, _) => Some (p, q) | None => None end
  | CFinish => Some (fst st, fst (normalize4 (snd st)))
  | CChild pos q => Some (add3 (mulMatVec3 (quat2Mat (snd st)) pos) (fst st), mulQuat (snd st) q)
  end.

Fixpoint chainFK (cs : list cstep) (st : vec3 T * quat T) : option (vec3 T * quat T) :=
  match cs with
  | [] => Some st
  | c :: r => match chainStep c st with Some st' => chainFK r st' | None => None end
  end.

(* a point with body-frame coordinates loc: xpos + xmat * loc *)
Definition pointOf (st : vec3 T * quat T) (loc : vec3 T) : vec3 T :=
  add3 (mulMatVec3 (quat2Mat (snd st)) loc) (fst st).

End Kin.
