(* Model of python/mujoco/introspect/ast_nodes.py (ValueType / ArrayType / PointerType and their
   decl printers) and python/mujoco/introspect/type_parsing.py (parse_type and its helpers).
   Definitions only; proofs are in Proof/CTypeProof.v.
   Strings are lists of ASCII characters ([str]); the entry points [decl] / [parse_type] work on
   Coq [string]s.  Python exceptions (ValueError, re-raised AssertionError) are [None].
   Python-side conventions mirrored here:
   - str.strip() and the regex class \s: ASCII white space is \t \n \v \f \r \x1c..\x1f and ' '
   - re.split(r'\s+', s): [split_ws];  ' '.join: [join sp]
   - s.find / s.rfind: [find_idx] / [rfind_idx];  slices: firstn / skipn
   - ARRAY_EXTENTS_PATTERN.search + ARRAY_N_PATTERN.findall: [ext_search] (the pattern is
     deterministic: a group is '[' + one or more non-']' + ']' followed by all white space)
   - int(s.strip()): [int_of_str] (optional sign, decimal digits, single underscores between digits)
   Recursions of the Python code that are not structural take [fuel] = length of the string + 1. *)
From Coq Require Import List Ascii String ZArith Bool.
From Coq Require Decimal DecimalString.
Import ListNotations.
Open Scope char_scope.
Open Scope list_scope.

Definition str := list ascii.
Definition L (s : string) : str := list_ascii_of_string s.

(* ---------------------------------------------------------------- the AST *)
Inductive ctype :=
| TValue (name : str) (is_const is_volatile nullable : bool)
| TArray (inner : ctype) (extents : list Z)
| TPointer (inner : ctype) (nullable is_const is_volatile is_restrict : bool).

Definition is_array (t : ctype) : bool := match t with TArray _ _ => true | _ => false end.

(* ---------------------------------------------------------------- characters and strings *)
Fixpoint str_eqb (a b : str) : bool :=
  match a, b with
  | [], [] => true
  | x :: r, y :: s => Ascii.eqb x y && str_eqb r s
  | _, _ => false
  end.
Definition mem (x : str) (l : list str) : bool := existsb (str_eqb x) l.
Definition nonempty {A} (l : list A) : bool := match l with [] => false | _ => true end.
Definition has (c : ascii) (s : str) : bool := existsb (Ascii.eqb c) s.

Definition is_space (c : ascii) : bool :=
  let n := N_of_ascii c in
  ((9 <=? n)%N && (n <=? 13)%N) || ((28 <=? n)%N && (n <=? 32)%N).
Definition is_digit (c : ascii) : bool :=
  let n := N_of_ascii c in (48 <=? n)%N && (n <=? 57)%N.
Definition is_alpha_ (c : ascii) : bool :=
  let n := N_of_ascii c in
  ((65 <=? n)%N && (n <=? 90)%N) || ((97 <=? n)%N && (n <=? 122)%N) || (n =? 95)%N.
Definition is_idchar (c : ascii) : bool := is_alpha_ c || is_digit c.

Fixpoint lstrip (s : str) : str :=
  match s with c :: r => if is_space c then lstrip r else s | [] => [] end.
Definition rstrip (s : str) : str := rev (lstrip (rev s)).
Definition strip (s : str) : str := rstrip (lstrip s).

(* re.split(r'\s+', s) *)
Fixpoint split_ws_aux (cur : str) (inrun : bool) (s : str) : list str :=
  match s with
  | [] => [rev cur]
  | c :: r => if is_space c
              then (if inrun then split_ws_aux [] true r else rev cur :: split_ws_aux [] true r)
              else split_ws_aux (c :: cur) false r
  end.
Definition split_ws (s : str) : list str := split_ws_aux [] false s.

Fixpoint join (sep : str) (l : list str) : str :=
  match l with
  | [] => []
  | x :: r => match r with [] => x | _ => x ++ sep ++ join sep r end
  end.
Definition sp : str := [" "].

Fixpoint find_idx (c : ascii) (s : str) : option nat :=
  match s with
  | [] => None
  | x :: r => if Ascii.eqb x c then Some 0 else option_map S (find_idx c r)
  end.
Fixpoint rfind_idx (c : ascii) (s : str) : option nat :=
  match s with
  | [] => None
  | x :: r => match rfind_idx c r with
              | Some i => Some (S i)
              | None => if Ascii.eqb x c then Some 0 else None
              end
  end.

(* ---------------------------------------------------------------- integers *)
Definition str_of_Z (z : Z) : str := L (DecimalString.NilZero.string_of_int (Z.to_int z)).

(* Python allows single underscores between digits *)
Fixpoint underscores_ok (prev_digit : bool) (s : str) : bool :=
  match s with
  | [] => prev_digit
  | c :: r => if Ascii.eqb c "_" then prev_digit && underscores_ok false r
              else underscores_ok true r
  end.
Definition drop_underscores (s : str) : str := filter (fun c => negb (Ascii.eqb c "_")) s.
Definition uint_of_str (s : str) : option Z :=
  if underscores_ok false s then
    match DecimalString.NilZero.uint_of_string (string_of_list_ascii (drop_underscores s)) with
    | Some u => Some (Z.of_uint u)
    | None => None
    end
  else None.
(* int(s) for an already stripped s *)
Definition int_of_str (s : str) : option Z :=
  match s with
  | "-" :: r => option_map Z.opp (uint_of_str r)
  | "+" :: r => uint_of_str r
  | _ => uint_of_str s
  end.

(* ---------------------------------------------------------------- ast_nodes.py *)
Definition special : str := L "void *(*)(void *)".

Definition C_INVALID : list str := map L
  ["auto"; "break"; "case"; "const"; "continue"; "default"; "do"; "else";
   "enum"; "extern"; "for"; "goto"; "if"; "inline"; "register"; "restrict";
   "return"; "sizeof"; "static"; "struct"; "switch"; "typedef"; "union";
   "volatile"; "while"; "_Alignas"; "_Atomic"; "_Generic"; "_Imaginary";
   "_Noreturn"; "_Static_assert"; "_Thread_local"; "__attribute__"; "_Pragma"]%string.

(* [A-Za-z_][A-Za-z0-9_]* *)
Definition is_ident (s : str) : bool :=
  match s with c :: r => is_alpha_ c && forallb is_idchar r | [] => false end.
(* VALID_TYPE_NAME_PATTERN.fullmatch : (struct )?[A-Za-z_][A-Za-z0-9_]* *)
Definition struct_ : str := L "struct ".
Definition type_name_match (s : str) : bool :=
  is_ident s || (str_eqb (firstn 7 s) struct_ && is_ident (skipn 7 s)).

Definition count (x : str) (l : list str) : nat := List.length (filter (str_eqb x) l).
Definition INT_WORDS : list str := map L ["signed"; "unsigned"; "short"; "long"; "int"; "char"]%string.
Definition is_valid_integral_type (s : str) : bool :=
  let parts := split_ws s in
  if forallb (fun p => mem p INT_WORDS || type_name_match p) parts then
    let cnt w := count (L w) parts in
    let wild := List.length (filter (fun p => negb (mem p INT_WORDS)) parts) in
    negb ((1 <? cnt "signed"%string + cnt "unsigned"%string)
          || (1 <? cnt "short"%string) || (2 <? cnt "long"%string)
          || ((0 <? cnt "short"%string) && (0 <? cnt "long"%string))
          || (((0 <? cnt "short"%string) || (0 <? cnt "long"%string)) && (0 <? cnt "char"%string))
          || (1 <? cnt "char"%string + cnt "int"%string + wild))%nat
  else false.
(* the check in ValueType.__init__ *)
Definition valid_name (s : str) : bool :=
  (str_eqb s special || type_name_match s || is_valid_integral_type s) && negb (mem s C_INVALID).

Definition opt (b : bool) (w : string) : list str := if b then [L w] else [].
Definition part (d : str) : list str := match d with [] => [] | _ => [d] end.
Definition ext_str (ex : list Z) : str := List.concat (map (fun n => "[" :: str_of_Z n ++ ["]"]) ex).

(* X.decl(name_or_decl) for the three type classes *)
Fixpoint decl_aux (t : ctype) (d : str) : str :=
  match t with
  | TValue n c v _ => join sp (opt c "const" ++ opt v "volatile" ++ [n] ++ part d)
  | TArray inner ex => decl_aux inner (d ++ ext_str ex)
  | TPointer inner nl c v r =>
      let p := join sp ([L "*"] ++ opt nl "nullable" ++ opt c "const" ++ opt v "volatile"
                        ++ opt r "restrict" ++ part d) in
      decl_aux inner (if is_array inner then "(" :: p ++ [")"] else p)
  end.
Definition decl_chars (t : ctype) : str := decl_aux t [].
Definition decl (t : ctype) : string := string_of_list_ascii (decl_chars t).
Definition decl_named (t : ctype) (name : string) : string :=
  string_of_list_ascii (decl_aux t (L name)).

(* ---------------------------------------------------------------- type_parsing.py *)
Definition CONST := L "const".
Definition VOLATILE := L "volatile".
Definition RESTRICT := L "restrict".

(* _parse_qualifiers: (leftover, (is_const, is_volatile, is_restrict)); None = duplicate qualifier *)
Definition parse_quals (s : str) (allowed : list str) : option (str * (bool * bool * bool)) :=
  let parts := split_ws s in
  if existsb (fun q => (1 <? count q parts)%nat) allowed then None
  else
    let flag q := mem q allowed && mem q parts in
    Some (join sp (filter (fun p => negb (mem p allowed)) parts),
          (flag CONST, flag VOLATILE, flag RESTRICT)).

Fixpoint pmp (fuel : nat) (s : str) (innermost : option ctype) : option ctype :=
  match fuel with
  | O => None
  | S f =>
    if str_eqb s special then Some (TValue special false false false) else
    match rfind_idx "*" s with
    | Some p =>
        match parse_quals (strip (skipn (S p) s)) [CONST; VOLATILE; RESTRICT] with
        | Some (leftover, (c, v, r)) =>
            if nonempty leftover then None else
            let inner_s := strip (firstn p s) in
            match (if nonempty inner_s then pmp f inner_s innermost else innermost) with
            | Some inner => Some (TPointer inner false c v r)
            | None => None
            end
        | None => None
        end
    | None =>
        match innermost with
        | Some _ => None
        | None =>
            match parse_quals (strip s) [CONST; VOLATILE] with
            | Some (name, (c, v, _)) => if valid_name name then Some (TValue name c v false) else None
            | None => None
            end
        end
    end
  end.
Definition parse_maybe_pointer (s : str) (innermost : option ctype) : option ctype :=
  pmp (S (List.length s)) s innermost.

(* full match of ARRAY_EXTENTS_PATTERN (one or more bracket groups, each followed by white space, then end of string) from the start of s; the group contents are returned *)
Inductive est := EStart | EIn (cur : str) | EAfter.
Fixpoint ext_scan (st : est) (acc : list str) (s : str) : option (list str) :=
  match s with
  | [] => match st with EAfter => Some (rev acc) | _ => None end
  | c :: r =>
      match st with
      | EStart => if Ascii.eqb c "[" then ext_scan (EIn []) acc r else None
      | EIn cur => if Ascii.eqb c "]"
                   then (if nonempty cur then ext_scan EAfter (rev cur :: acc) r else None)
                   else ext_scan (EIn (c :: cur)) acc r
      | EAfter => if is_space c then ext_scan EAfter acc r
                  else if Ascii.eqb c "[" then ext_scan (EIn []) acc r else None
      end
  end.
(* leftmost match: (text before the match, group contents) *)
Fixpoint ext_search (s : str) : option (str * list str) :=
  match ext_scan EStart [] s with
  | Some g => Some ([], g)
  | None => match s with
            | [] => None
            | c :: r => match ext_search r with Some (p, g) => Some (c :: p, g) | None => None end
            end
  end.
Fixpoint map_opt {A B} (f : A -> option B) (l : list A) : option (list B) :=
  match l with
  | [] => Some []
  | x :: r => match f x, map_opt f r with Some y, Some ys => Some (y :: ys) | _, _ => None end
  end.

Definition parse_maybe_array (s : str) (innermost : option ctype) : option ctype :=
  match ext_search s with
  | Some (before, groups) =>
      match map_opt (fun g => int_of_str (strip g)) groups,
            parse_maybe_pointer (strip before) innermost with
      | Some extents, Some inner => Some (TArray inner extents)
      | _, _ => None
      end
  | None => parse_maybe_pointer s innermost
  end.

(* _peel_nested_parens: innermost first *)
Fixpoint peel (fuel : nat) (s : str) : option (list str) :=
  if str_eqb s special then Some [s] else
  match find_idx "(" s, rfind_idx ")" s with
  | None, None => Some [s]
  | Some a, Some b =>
      if (a <? b)%nat then
        match fuel with
        | O => None
        | S f => match peel f (firstn (b - S a) (skipn (S a) s)) with
                 | Some out => Some (out ++ [firstn a s ++ skipn (S b) s])
                 | None => None
                 end
        end
      else None
  | _, _ => None
  end.

(* the while loop of parse_type over the popped stack *)
Fixpoint run_stack (l : list str) (result : option ctype) : option ctype :=
  match l with
  | [] => result
  | x :: r => match parse_maybe_array x result with
              | Some t => run_stack r (Some t)
              | None => None
              end
  end.

Definition parse_chars (s : str) : option ctype :=
  let s := strip s in
  match peel (List.length s) s with
  | Some stack => run_stack (rev stack) None
  | None => None
  end.
Definition parse_type (s : string) : option ctype := parse_chars (L s).

(* ---------------------------------------------------------------- the printable fragment *)
Definition name_char (c : ascii) : bool := is_idchar c || Ascii.eqb c " ".
Definition is_cv (p : str) : bool := str_eqb p CONST || str_eqb p VOLATILE.
(* valid for ValueType, made of identifier characters and blanks, first and last character not
   a blank (both implied by validity, kept explicit), already in the form _parse_qualifiers
   returns: words joined by one blank, no const/volatile word *)
Definition hd_nonspace (s : str) : bool := match s with c :: _ => negb (is_space c) | [] => false end.
Definition last_nonspace (s : str) : bool := hd_nonspace (rev s).
Definition wf_name (n : str) : bool :=
  valid_name n && forallb name_char n && hd_nonspace n && last_nonspace n
  && forallb (fun p => negb (is_cv p)) (split_ws n) && str_eqb (join sp (split_ws n)) n.

Fixpoint wf (t : ctype) : bool :=
  match t with
  | TValue n c v nl => wf_name n && negb nl
  | TArray inner ex => negb (is_array inner) && nonempty ex && wf inner
  | TPointer inner nl c v r => negb nl && wf inner
  end.

(* boolean equality of ASTs for the correspondence checker *)
Fixpoint zlist_eqb (a b : list Z) : bool :=
  match a, b with
  | [], [] => true
  | x :: r, y :: s => Z.eqb x y && zlist_eqb r s
  | _, _ => false
  end.
Fixpoint ctype_eqb (a b : ctype) : bool :=
  match a, b with
  | TValue n c v nl, TValue n' c' v' nl' =>
      str_eqb n n' && Bool.eqb c c' && Bool.eqb v v' && Bool.eqb nl nl'
  | TArray i e, TArray i' e' => ctype_eqb i i' && zlist_eqb e e'
  | TPointer i nl c v r, TPointer i' nl' c' v' r' =>
      ctype_eqb i i' && Bool.eqb nl nl' && Bool.eqb c c' && Bool.eqb v v' && Bool.eqb r r'
  | _, _ => false
  end.
Definition octype_eqb (a b : option ctype) : bool :=
  match a, b with
  | Some x, Some y => ctype_eqb x y
  | None, None => true
  | _, _ => false
  end.
Definition V (n : string) (c v nl : bool) : ctype := TValue (L n) c v nl.
