(* Model of the support functions of src/engine/engine_collision_convex.c (mjc_pointSupport,
   mjc_sphereSupport, mjc_lineSupport, mjc_capsuleSupport, mjc_ellipsoidSupport, mjc_cylinderSupport,
   mjc_boxSupport, mjc_meshSupport) and of the Minkowski-difference support of
   src/engine/engine_collision_gjk.c (static support / gjkSupport).

   Written once over Lib/Num.v; instantiated at R for the theorems (Proof/ConvexSupportProof.v,
   Props/C15.v) and at PrimFloat.float for the correspondence runs.  Definitions only; operations in
   the association order of the C expressions.  Vectors and row-major matrices are the flat tuples of
   Model/Spatial.v (imported read-only).  A geom is (mat, pos, size). *)
From Coq Require Import ZArith List Bool.
From MJV Require Import Lib.Num Model.Spatial.
Import ListNotations.

Section Support.
Context {T : Type} `{Num T}.
Local Open Scope num_scope.

(* #define mjMINVAL2 (mjMINVAL * mjMINVAL) *)
Definition mjMINVAL2 : T := mjMINVAL * mjMINVAL.
(* FLT_MAX = (2^24 - 1) 2^104 *)
Definition fltMax : T := nofZ 16777215 * (nofZ 4503599627370496 * nofZ 4503599627370496).

(* mulMatTVec3 of engine_collision_convex.c = Spatial.mulMatTVec3; localToGlobal = mat * v, then += pos *)
Definition localToGlobal (mat : mat3 T) (v pos : vec3 T) : vec3 T := add3 (mulMatVec3 mat v) pos.

Definition pointSupport (pos : vec3 T) : vec3 T := pos.

(* mjc_sphereSupport: dir is assumed normalised by the callers *)
Definition sphereSupport (pos : vec3 T) (radius : T) (dir : vec3 T) : vec3 T :=
  let '(p0, p1, p2) := pos in let '(d0, d1, d2) := dir in
  (radius * d0 + p0, radius * d1 + p1, radius * d2 + p2).

(* mjc_lineSupport (capsule shrunk to its segment) *)
Definition lineSupport (mat : mat3 T) (pos : vec3 T) (length : T) (dir : vec3 T) : vec3 T :=
  let '(m0, m1, m2, m3, m4, m5, m6, m7, m8) := mat in
  let '(p0, p1, p2) := pos in let '(d0, d1, d2) := dir in
  let dot := m2 * d0 + m5 * d1 + m8 * d2 in
  let scl := if nzero <=? dot then length else - length in
  (m2 * scl + p0, m5 * scl + p1, m8 * scl + p2).

(* local support points (geom frame), the global function is localToGlobal of them *)
Definition capsuleLocal (radius length : T) (ld : vec3 T) : vec3 T :=
  let '(l0, l1, l2) := ld in
  (l0 * radius, l1 * radius, l2 * radius + (if nzero <=? l2 then length else - length)).
Definition capsuleSupport (mat : mat3 T) (pos : vec3 T) (radius length : T) (dir : vec3 T) : vec3 T :=
  localToGlobal mat (capsuleLocal radius length (mulMatTVec3 mat dir)) pos.

Definition ellipsoidNorm2 (size ld : vec3 T) : T :=
  let '(s0, s1, s2) := size in let '(l0, l1, l2) := ld in
  let a0 := l0 * s0 in let a1 := l1 * s1 in let a2 := l2 * s2 in
  a0 * a0 + a1 * a1 + a2 * a2.
Definition ellipsoidLocal (size ld : vec3 T) : vec3 T :=
  let '(s0, s1, s2) := size in let '(l0, l1, l2) := ld in
  let norm_inv := none / nsqrt (ellipsoidNorm2 size ld) in
  (l0 * s0 * (norm_inv * s0), l1 * s1 * (norm_inv * s1), l2 * s2 * (norm_inv * s2)).
Definition ellipsoidSupport (mat : mat3 T) (pos size : vec3 T) (dir : vec3 T) : vec3 T :=
  let ld := mulMatTVec3 mat dir in
  if ellipsoidNorm2 size ld <? mjMINVAL2 then
    (* too small to normalise: the +x pole *)
    let '(m0, m1, m2, m3, m4, m5, m6, m7, m8) := mat in
    let '(p0, p1, p2) := pos in let '(s0, _, _) := size in
    (m0 * s0 + p0, m3 * s0 + p1, m6 * s0 + p2)
  else localToGlobal mat (ellipsoidLocal size ld) pos.

Definition cylinderLocal (radius height : T) (ld : vec3 T) : vec3 T :=
  let '(l0, l1, l2) := ld in
  let n2 := l0 * l0 + l1 * l1 in
  let scl := if mjMINVAL2 <=? n2 then radius / nsqrt n2 else nzero in
  (scl * l0, scl * l1, if nzero <=? l2 then height else - height).
Definition cylinderSupport (mat : mat3 T) (pos : vec3 T) (radius height : T) (dir : vec3 T) : vec3 T :=
  localToGlobal mat (cylinderLocal radius height (mulMatTVec3 mat dir)) pos.

Definition boxLocal (size ld : vec3 T) : vec3 T :=
  let '(s0, s1, s2) := size in let '(l0, l1, l2) := ld in
  (if nzero <=? l0 then s0 else - s0, if nzero <=? l1 then s1 else - s1, if nzero <=? l2 then s2 else - s2).
(* obj->vertindex: bit i set iff local_supp[i] > 0 *)
Definition boxVertIndex (v : vec3 T) : Z :=
  let '(v0, v1, v2) := v in
  let b0 := nzero <? v0 in let b1 := nzero <? v1 in let b2 := nzero <? v2 in
  ((if b0 then 1 else 0) + (if b1 then 2 else 0) + (if b2 then 4 else 0))%Z.
Definition boxSupport (mat : mat3 T) (pos size : vec3 T) (dir : vec3 T) : vec3 T * Z :=
  let l := boxLocal size (mulMatTVec3 mat dir) in (localToGlobal mat l pos, boxVertIndex l).

(* mjc_meshSupport: exhaustive search with a cached start index (vertindex, -1 when absent);
   returns (support point, index of the chosen vertex) *)
Fixpoint meshScan (ld : vec3 T) (verts : list (vec3 T)) (i imax : Z) (max : T) : Z * T :=
  match verts with
  | [] => (imax, max)
  | v :: r => let vdot := dot3 ld v in
              if max <? vdot then meshScan ld r (i + 1)%Z i vdot else meshScan ld r (i + 1)%Z imax max
  end.
Definition meshSupport (mat : mat3 T) (pos : vec3 T) (verts : list (vec3 T)) (vertindex : Z) (dir : vec3 T)
  : vec3 T * Z :=
  let ld := mulMatTVec3 mat dir in
  let '(imax0, max0) :=
    if (0 <=? vertindex)%Z then (vertindex, dot3 ld (nth (Z.to_nat vertindex) verts zero3))
    else (0%Z, - fltMax) in
  let '(imax, _) := meshScan ld verts 0%Z imax0 max0 in
  (localToGlobal mat (nth (Z.to_nat imax) verts zero3) pos, imax).

(* ---- engine_collision_gjk.c: support(v, obj1, obj2, dir, dir_neg): S_{A-B}(dir) = S_A(dir) - S_B(-dir);
   each object's margin/2 is added along its own direction when positive.  s1 / s2 are the two
   objects' support functions.  Returns (vert, vert1, vert2). *)
Definition addMargin (v dir : vec3 T) (margin : T) : vec3 T :=
  if nzero <? margin then
    let m := nhalf * margin in
    let '(v0, v1, v2) := v in let '(d0, d1, d2) := dir in (v0 + d0 * m, v1 + d1 * m, v2 + d2 * m)
  else v.
Definition minkSupport (s1 s2 : vec3 T -> vec3 T) (margin1 margin2 : T) (dir dir_neg : vec3 T)
  : vec3 T * vec3 T * vec3 T :=
  let v1 := addMargin (s1 dir) dir margin1 in
  let v2 := addMargin (s2 dir_neg) dir_neg margin2 in
  (sub3 v1 v2, v1, v2).
(* gjkSupport: dir_neg = x_k / |x_k|, dir = -dir_neg *)
Definition gjkSupport (s1 s2 : vec3 T -> vec3 T) (margin1 margin2 : T) (x_k : vec3 T) (x_norm : T)
  : vec3 T * vec3 T * vec3 T :=
  let dir_neg := scl3 x_k (none / x_norm) in
  let dir := scl3 dir_neg (- none) in
  minkSupport s1 s2 margin1 margin2 dir dir_neg.

End Support.
