(* Model of the rotation / pose utilities of src/engine/engine_util_spatial.c (mju_ functions), of their
   inlined twins in src/engine/engine_inline.h (mji_ functions), of mju_normalize3/4 (engine_util_blas.c)
   and of the MJX counterparts in mjx/mujoco/mjx/_src/math.py.

   Written once over the numeric signature Lib/Num.v: instantiated at R for the theorems
   (Proof/SpatialProof.v, Props/C24.v) and at PrimFloat.float for the correspondence runs.
   Definitions only; names follow the C names without the mju_ prefix, argument order follows
   the C prototypes (result first arguments dropped: functions return their result).

   Layout: vectors, quaternions (w,x,y,z) and row-major 3x3 matrices are flat tuples.
   The operations are written in the same association order as the C expressions. *)
From Coq Require Import ZArith List Bool String Ascii.
From MJV Require Import Lib.Num.
Import ListNotations.

Definition vec3 (T : Type) : Type := (T * T * T)%type.
Definition quat (T : Type) : Type := (T * T * T * T)%type.
Definition mat3 (T : Type) : Type := (T * T * T * T * T * T * T * T * T)%type.
Definition pose (T : Type) : Type := (vec3 T * quat T)%type.      (* (pos, quat) *)

Definition v2l {T} (v : vec3 T) : list T := let '(a, b, c) := v in [a; b; c].
Definition q2l {T} (q : quat T) : list T := let '(a, b, c, d) := q in [a; b; c; d].
Definition m2l {T} (m : mat3 T) : list T :=
  let '(m0, m1, m2, m3, m4, m5, m6, m7, m8) := m in [m0; m1; m2; m3; m4; m5; m6; m7; m8].
Definition p2l {T} (p : pose T) : list T := v2l (fst p) ++ q2l (snd p).

(* ------------------------------------------------------------------------------------------ *)
Section Alg.
Context {T : Type} `{Num T}.
Local Open Scope num_scope.

Definition mjMINVAL : T := ndec 1 (-15).
Definition nquarter : T := ndec 25 (-2).

Definition zero3 : vec3 T := (nzero, nzero, nzero).
Definition quatId : quat T := (none, nzero, nzero, nzero).
Definition matId : mat3 T := (none, nzero, nzero, nzero, none, nzero, nzero, nzero, none).

(* ---- engine_util_blas.c / engine_inline.h: 3D helpers *)
Definition add3 (a b : vec3 T) : vec3 T :=
  let '(a0, a1, a2) := a in let '(b0, b1, b2) := b in (a0 + b0, a1 + b1, a2 + b2).
Definition sub3 (a b : vec3 T) : vec3 T :=
  let '(a0, a1, a2) := a in let '(b0, b1, b2) := b in (a0 - b0, a1 - b1, a2 - b2).
Definition scl3 (a : vec3 T) (s : T) : vec3 T :=
  let '(a0, a1, a2) := a in (a0 * s, a1 * s, a2 * s).
Definition dot3 (a b : vec3 T) : T :=
  let '(a0, a1, a2) := a in let '(b0, b1, b2) := b in a0 * b0 + a1 * b1 + a2 * b2.
Definition norm3 (a : vec3 T) : T := nsqrt (dot3 a a).
Definition cross (a b : vec3 T) : vec3 T :=
  let '(a0, a1, a2) := a in let '(b0, b1, b2) := b in
  (a1 * b2 - a2 * b1, a2 * b0 - a0 * b2, a0 * b1 - a1 * b0).

(* mju_normalize3 / mji__normalize3: (normalized vector, length before normalization) *)
Definition normalize3 (v : vec3 T) : vec3 T * T :=
  let '(v0, v1, v2) := v in
  let norm := nsqrt (v0 * v0 + v1 * v1 + v2 * v2) in
  if norm <? mjMINVAL then ((none, nzero, nzero), norm)
  else let ninv := none / norm in ((v0 * ninv, v1 * ninv, v2 * ninv), norm).

(* mju_normalize4 / mji__normalize4 *)
Definition normalize4 (q : quat T) : quat T * T :=
  let '(q0, q1, q2, q3) := q in
  let norm := nsqrt (q0 * q0 + q1 * q1 + q2 * q2 + q3 * q3) in
  if norm <? mjMINVAL then (quatId, norm)
  else if mjMINVAL <? nabs (norm - none) then
    let ninv := none / norm in ((q0 * ninv, q1 * ninv, q2 * ninv, q3 * ninv), norm)
  else (q, norm).

Definition mulMatVec3 (m : mat3 T) (v : vec3 T) : vec3 T :=
  let '(m0, m1, m2, m3, m4, m5, m6, m7, m8) := m in let '(v0, v1, v2) := v in
  (m0 * v0 + m1 * v1 + m2 * v2, m3 * v0 + m4 * v1 + m5 * v2, m6 * v0 + m7 * v1 + m8 * v2).
Definition mulMatTVec3 (m : mat3 T) (v : vec3 T) : vec3 T :=
  let '(m0, m1, m2, m3, m4, m5, m6, m7, m8) := m in let '(v0, v1, v2) := v in
  (m0 * v0 + m3 * v1 + m6 * v2, m1 * v0 + m4 * v1 + m7 * v2, m2 * v0 + m5 * v1 + m8 * v2).
Definition transpose3 (m : mat3 T) : mat3 T :=
  let '(m0, m1, m2, m3, m4, m5, m6, m7, m8) := m in (m0, m3, m6, m1, m4, m7, m2, m5, m8).
Definition mulMatMat3 (a b : mat3 T) : mat3 T :=
  let '(a0, a1, a2, a3, a4, a5, a6, a7, a8) := a in
  let '(b0, b1, b2, b3, b4, b5, b6, b7, b8) := b in
  (a0 * b0 + a1 * b3 + a2 * b6, a0 * b1 + a1 * b4 + a2 * b7, a0 * b2 + a1 * b5 + a2 * b8,
   a3 * b0 + a4 * b3 + a5 * b6, a3 * b1 + a4 * b4 + a5 * b7, a3 * b2 + a4 * b5 + a5 * b8,
   a6 * b0 + a7 * b3 + a8 * b6, a6 * b1 + a7 * b4 + a8 * b7, a6 * b2 + a7 * b5 + a8 * b8).
Definition det3 (m : mat3 T) : T :=
  let '(m0, m1, m2, m3, m4, m5, m6, m7, m8) := m in
  m0 * (m4 * m8 - m5 * m7) - m1 * (m3 * m8 - m5 * m6) + m2 * (m3 * m7 - m4 * m6).

(* ---- quaternion operations *)
Definition isNullQuat (q : quat T) : bool :=
  let '(q0, q1, q2, q3) := q in (q0 =? none) && (q1 =? nzero) && (q2 =? nzero) && (q3 =? nzero).
Definition isZero3 (v : vec3 T) : bool :=
  let '(v0, v1, v2) := v in (v0 =? nzero) && (v1 =? nzero) && (v2 =? nzero).

(* the "regular processing" arm shared by mju_rotVecQuat and mji_rotVecQuat *)
Definition rotVecQuat_reg (v : vec3 T) (q : quat T) : vec3 T :=
  let '(v0, v1, v2) := v in let '(q0, q1, q2, q3) := q in
  let t0 := q0 * v0 + q2 * v2 - q3 * v1 in
  let t1 := q0 * v1 + q3 * v0 - q1 * v2 in
  let t2 := q0 * v2 + q1 * v1 - q2 * v0 in
  (v0 + ntwo * (q2 * t2 - q3 * t1), v1 + ntwo * (q3 * t0 - q1 * t2), v2 + ntwo * (q1 * t1 - q2 * t0)).

(* mju_rotVecQuat(res, vec, quat) *)
Definition rotVecQuat (v : vec3 T) (q : quat T) : vec3 T :=
  if isZero3 v then zero3 else if isNullQuat q then v else rotVecQuat_reg v q.
(* mji_rotVecQuat: no zero-vector arm *)
Definition rotVecQuat_i (v : vec3 T) (q : quat T) : vec3 T :=
  if isNullQuat q then v else rotVecQuat_reg v q.

Definition negQuat (q : quat T) : quat T := let '(q0, q1, q2, q3) := q in (q0, - q1, - q2, - q3).

Definition mulQuat (a b : quat T) : quat T :=
  let '(a0, a1, a2, a3) := a in let '(b0, b1, b2, b3) := b in
  (a0 * b0 - a1 * b1 - a2 * b2 - a3 * b3,
   a0 * b1 + a1 * b0 + a2 * b3 - a3 * b2,
   a0 * b2 - a1 * b3 + a2 * b0 + a3 * b1,
   a0 * b3 + a1 * b2 - a2 * b1 + a3 * b0).

Definition mulQuatAxis (q : quat T) (ax : vec3 T) : quat T :=
  let '(q0, q1, q2, q3) := q in let '(x0, x1, x2) := ax in
  (- q1 * x0 - q2 * x1 - q3 * x2,
   q0 * x0 + q2 * x2 - q3 * x1,
   q0 * x1 + q3 * x0 - q1 * x2,
   q0 * x2 + q1 * x1 - q2 * x0).

Definition quat2Mat (q : quat T) : mat3 T :=
  if isNullQuat q then matId
  else
    let '(q0, q1, q2, q3) := q in
    let q00 := q0 * q0 in let q01 := q0 * q1 in let q02 := q0 * q2 in let q03 := q0 * q3 in
    let q11 := q1 * q1 in let q12 := q1 * q2 in let q13 := q1 * q3 in
    let q22 := q2 * q2 in let q23 := q2 * q3 in let q33 := q3 * q3 in
    (q00 + q11 - q22 - q33, ntwo * (q12 - q03),    ntwo * (q13 + q02),
     ntwo * (q12 + q03),    q00 - q11 + q22 - q33, ntwo * (q23 - q01),
     ntwo * (q13 - q02),    ntwo * (q23 + q01),    q00 - q11 - q22 + q33).

(* the four arms of mju_mat2Quat before the final normalisation; the arm taken is returned too
   (0: q0 largest ... 3: q3 largest) so that runs can report branch coverage *)
Definition mat2Quat_raw (m : mat3 T) : quat T * Z :=
  let '(m0, m1, m2, m3, m4, m5, m6, m7, m8) := m in
  if nzero <? m0 + m4 + m8 then
    let q0 := nhalf * nsqrt (none + m0 + m4 + m8) in
    ((q0, nquarter * (m7 - m5) / q0, nquarter * (m2 - m6) / q0, nquarter * (m3 - m1) / q0), 0%Z)
  else if (m4 <? m0) && (m8 <? m0) then
    let q1 := nhalf * nsqrt (none + m0 - m4 - m8) in
    ((nquarter * (m7 - m5) / q1, q1, nquarter * (m1 + m3) / q1, nquarter * (m2 + m6) / q1), 1%Z)
  else if m8 <? m4 then
    let q2 := nhalf * nsqrt (none - m0 + m4 - m8) in
    ((nquarter * (m2 - m6) / q2, nquarter * (m1 + m3) / q2, q2, nquarter * (m5 + m7) / q2), 2%Z)
  else
    let q3 := nhalf * nsqrt (none - m0 - m4 + m8) in
    ((nquarter * (m3 - m1) / q3, nquarter * (m2 + m6) / q3, nquarter * (m5 + m7) / q3, q3), 3%Z).

Definition mat2Quat (m : mat3 T) : quat T := fst (normalize4 (fst (mat2Quat_raw m))).

Definition derivQuat (q : quat T) (vel : vec3 T) : quat T :=
  let '(q0, q1, q2, q3) := q in let '(w0, w1, w2) := vel in
  (nhalf * (- w0 * q1 - w1 * q2 - w2 * q3),
   nhalf * (w0 * q0 + w1 * q3 - w2 * q2),
   nhalf * (- w0 * q3 + w1 * q0 + w2 * q1),
   nhalf * (w0 * q2 - w1 * q1 + w2 * q0)).

(* ---- pose operations: a pose is (pos, quat) *)
(* mju_mulPose(posres, quatres, pos1, quat1, pos2, quat2) *)
Definition mulPose (p1 p2 : pose T) : pose T :=
  let '(pos1, quat1) := p1 in let '(pos2, quat2) := p2 in
  (add3 (rotVecQuat_i pos2 quat1) pos1, fst (normalize4 (mulQuat quat1 quat2))).

(* mju_negPose *)
Definition negPose (p : pose T) : pose T :=
  let '(pos, q) := p in
  let qres := negQuat q in
  (scl3 (rotVecQuat_i pos qres) (- none), qres).

(* mju_trnVecPose(res, pos, quat, vec) *)
Definition trnVecPose (p : pose T) (v : vec3 T) : vec3 T :=
  let '(pos, q) := p in add3 (rotVecQuat_i v q) pos.

Definition poseId : pose T := (zero3, quatId).

(* ---- MJX math.py: rotate (a different formula; agrees with rotVecQuat on unit quaternions) *)
Definition mjx_rotate (v : vec3 T) (q : quat T) : vec3 T :=
  let '(s, u0, u1, u2) := q in
  let u := (u0, u1, u2) in
  let r := add3 (scl3 u (ntwo * dot3 u v)) (scl3 v (s * s - dot3 u u)) in
  add3 r (scl3 (cross u v) (ntwo * s)).
Definition mjx_quat_inv (q : quat T) : quat T :=
  let '(q0, q1, q2, q3) := q in (q0 * none, q1 * - none, q2 * - none, q3 * - none).

End Alg.

(* ------------------------------------------------------------------------------------------ *)
Section Trans.
Context {T : Type} `{NumT T}.
Local Open Scope num_scope.

(* mju_axisAngle2Quat(res, axis, angle) *)
Definition axisAngle2Quat (ax : vec3 T) (angle : T) : quat T :=
  if angle =? nzero then quatId
  else
    let '(x0, x1, x2) := ax in
    let s := nsin (angle * nhalf) in
    (ncos (angle * nhalf), x0 * s, x1 * s, x2 * s).

(* mju_quat2Vel(res, quat, dt) *)
Definition quat2Vel (q : quat T) (dt : T) : vec3 T :=
  let '(q0, q1, q2, q3) := q in
  let '(axis, sin_a_2) := normalize3 (q1, q2, q3) in
  let speed := ntwo * natan2 sin_a_2 q0 in
  let speed := if npi <? speed then speed - ntwo * npi else speed in
  scl3 axis (speed / dt).

(* mju_subQuat(res, qa, qb): qb * quat(res) = qa *)
Definition subQuat (qa qb : quat T) : vec3 T := quat2Vel (mulQuat (negQuat qb) qa) none.

(* mju_quatIntegrate(quat, vel, scale) *)
Definition quatIntegrate (q : quat T) (vel : vec3 T) (scale : T) : quat T :=
  let '(axis, n) := normalize3 vel in
  let angle := scale * n in
  let qrot := axisAngle2Quat axis angle in
  mulQuat (fst (normalize4 q)) qrot.

(* mju_quatZ2Vec(quat, vec) *)
Definition quatZ2Vec (vec : vec3 T) : quat T :=
  let z : vec3 T := (nzero, nzero, none) in
  let '(vn, n) := normalize3 vec in
  if n <? mjMINVAL then quatId
  else
    let '(axis, a) := normalize3 (cross z vn) in
    if nabs a <? mjMINVAL then
      (if dot3 vn z <? nzero then (nzero, none, nzero, nzero) else quatId)
    else axisAngle2Quat axis (natan2 a (dot3 vn z)).

(* ---- mju_euler2Quat(quat, euler, seq).
   One loop iteration for character c and angle e; None models mjERROR (invalid character). *)
Definition isLower (c : ascii) : bool :=
  (Ascii.eqb c "x") || (Ascii.eqb c "y") || (Ascii.eqb c "z").
Definition eulerRot (c : ascii) (e : T) : option (quat T) :=
  let ca := ncos (e / ntwo) in
  let sa := nsin (e / ntwo) in
  if (Ascii.eqb c "x") || (Ascii.eqb c "X") then Some (ca, sa, nzero, nzero)
  else if (Ascii.eqb c "y") || (Ascii.eqb c "Y") then Some (ca, nzero, sa, nzero)
  else if (Ascii.eqb c "z") || (Ascii.eqb c "Z") then Some (ca, nzero, nzero, sa)
  else None.
Definition eulerStep (tmp : quat T) (c : ascii) (e : T) : option (quat T) :=
  match eulerRot c e with
  | None => None
  | Some rot => Some (if isLower c then mulQuat tmp rot     (* moving axes: post-multiply *)
                      else mulQuat rot tmp)                 (* fixed axes: pre-multiply *)
  end.
(* the loop, for a sequence of any length (the C function fixes the length to 3) *)
Fixpoint eulerLoop (tmp : quat T) (seq : list ascii) (es : list T) : option (quat T) :=
  match seq, es with
  | c :: seq', e :: es' =>
      match eulerStep tmp c e with None => None | Some tmp' => eulerLoop tmp' seq' es' end
  | _, _ => Some tmp
  end.
Definition euler2Quat (euler : vec3 T) (seq : string) : option (quat T) :=
  if Nat.eqb (String.length seq) 3 then eulerLoop quatId (list_ascii_of_string seq) (v2l euler)
  else None.

(* ---- MJX math.py (normalize_with_norm, quat_to_axis_angle, quat_sub, axis_angle_to_quat,
   quat_integrate).  jp.allclose(x, 0) is all |x_i| <= 1e-8. *)
Definition mjx_norm3 (v : vec3 T) : T :=
  let '(v0, v1, v2) := v in
  let tol := ndec 1 (-8) in
  if (nabs v0 <=? tol) && (nabs v1 <=? tol) && (nabs v2 <=? tol) then nzero
  else nsqrt (v0 * v0 + v1 * v1 + v2 * v2).
Definition mjx_norm4 (q : quat T) : T :=
  let '(q0, q1, q2, q3) := q in
  let tol := ndec 1 (-8) in
  if (nabs q0 <=? tol) && (nabs q1 <=? tol) && (nabs q2 <=? tol) && (nabs q3 <=? tol) then nzero
  else nsqrt (q0 * q0 + q1 * q1 + q2 * q2 + q3 * q3).
Definition mjx_den (n : T) : T := n + ndec 1 (-6) * (if n =? nzero then none else nzero).
Definition mjx_normalize3 (v : vec3 T) : vec3 T * T :=
  let n := mjx_norm3 v in
  let '(v0, v1, v2) := v in
  let d := mjx_den n in ((v0 / d, v1 / d, v2 / d), n).
Definition mjx_normalize4 (q : quat T) : quat T :=
  let n := mjx_norm4 q in
  let '(q0, q1, q2, q3) := q in
  let d := mjx_den n in (q0 / d, q1 / d, q2 / d, q3 / d).
Definition mjx_axis_angle_to_quat (ax : vec3 T) (angle : T) : quat T :=
  let '(x0, x1, x2) := ax in
  let s := nsin (angle * nhalf) in
  (ncos (angle * nhalf), x0 * s, x1 * s, x2 * s).
Definition mjx_quat_to_axis_angle (q : quat T) : vec3 T * T :=
  let '(q0, q1, q2, q3) := q in
  let '(axis, sin_a_2) := mjx_normalize3 (q1, q2, q3) in
  let angle := ntwo * natan2 sin_a_2 q0 in
  (axis, if npi <? angle then angle - ntwo * npi else angle).
Definition mjx_quat_sub (u v : quat T) : vec3 T :=
  let '(axis, angle) := mjx_quat_to_axis_angle (mulQuat (mjx_quat_inv v) u) in scl3 axis angle.
Definition mjx_quat_integrate (q : quat T) (v : vec3 T) (dt : T) : quat T :=
  let '(ax, n) := mjx_normalize3 v in
  mjx_normalize4 (mulQuat q (mjx_axis_angle_to_quat ax (dt * n))).

End Trans.
