(* Specification vocabulary over R for Model/ConstraintUpdate.v: the hypotheses under which the
   theorems of Props/C12.v and Props/C11.v are stated (relations among efc_D, efc_R, frictionloss,
   contact.mu, contact.friction that mj_makeImpedance establishes) and projections of the result.
   Definitions only. *)
From Coq Require Import ZArith List Bool Reals.
From MJV Require Import Lib.Num Lib.NumR Model.ConstraintUpdate.
Import ListNotations.
Open Scope R_scope.

Definition cu_cost (r : option (@cu_result R)) : R :=
  match r with Some (c, _, _, _) => c | None => 0 end.
Definition cu_force (r : option (@cu_result R)) : list R :=
  match r with Some (_, f, _, _) => f | None => [] end.
Definition cu_state (r : option (@cu_result R)) : list Z :=
  match r with Some (_, _, st, _) => st | None => [] end.

(* elliptic contact whose normal row has D0 and whose friction rows have Dt:
   D[i+1+k] * mu^2 = D[i] * friction[k]^2   (mj_makeImpedance: R[i+j]*friction[j-1]^2 = R[i]*mu^2, D = 1/R) *)
Definition rel_ok (mu : R) (fr : list R) (D0 : R) (Dt : list R) : Prop :=
  forall k, (k < length Dt)%nat -> nth k Dt 0 * (mu * mu) = D0 * (nth k fr 0 * nth k fr 0).

(* well-formed row composition, following the row loop of mj_constraintUpdate_impl:
   friction-loss rows: D*R = 1, R > 0, frictionloss >= 0;
   elliptic rows: valid contact id, 1 <= dim, the block fits, mu > 0, friction[] long enough, rel_ok *)
Fixpoint cu_wf (fuel : nat) (ne nf : Z) (con : list (@contact R)) (i : Z) (rows : list (@rowdesc R)) : Prop :=
  match rows with
  | [] => True
  | (D, Rr, fl, tp, id) :: rows' =>
    match fuel with
    | O => False
    | S fuel' =>
      if (i <? ne)%Z then cu_wf fuel' ne nf con (i + 1)%Z rows'
      else if (i <? ne + nf)%Z then (D * Rr = 1 /\ 0 < Rr /\ 0 <= fl) /\ cu_wf fuel' ne nf con (i + 1)%Z rows'
      else if negb (tp =? CT_ELLIPTIC)%Z then cu_wf fuel' ne nf con (i + 1)%Z rows'
      else (0 <= id)%Z /\
           match nth_error con (Z.to_nat id) with
           | None => False
           | Some (dim, mu, fr) =>
             let n := Z.to_nat dim in
             (1 <= dim)%Z /\ (n <= length rows)%nat /\ 0 < mu /\ (n - 1 <= length fr)%nat /\
             rel_ok mu fr D (map rD (firstn (n - 1) rows')) /\
             cu_wf fuel' ne nf con (i + dim)%Z (skipn n rows)
           end
    end
  end.

(* sum of squares *)
Fixpoint ssq (v : list R) : R := match v with [] => 0 | a :: v' => a * a + ssq v' end.

(* admissible elliptic contact force (f0 :: ft) for friction coefficients fr:
   f0 >= 0 and sum_j (ft_j / fr_j)^2 <= f0^2 *)
Definition ell_admissible (fr fs : list R) : Prop :=
  match fs with
  | f0 :: ft => 0 <= f0 /\ ssq (map2 Rdiv ft fr) <= f0 * f0
  | [] => True
  end.

(* admissibility of a force vector for a row composition, following the row loop:
   friction-loss rows |f| <= frictionloss; limit / frictionless / pyramidal rows f >= 0;
   elliptic blocks ell_admissible *)
Fixpoint cu_adm (fuel : nat) (ne nf : Z) (con : list (@contact R)) (i : Z) (rows : list (@rowdesc R))
                (forces : list R) : Prop :=
  match rows, forces with
  | [], _ => True
  | (D, Rr, fl, tp, id) :: rows', f :: forces' =>
    match fuel with
    | O => True
    | S fuel' =>
      if (i <? ne)%Z then cu_adm fuel' ne nf con (i + 1)%Z rows' forces'
      else if (i <? ne + nf)%Z then Rabs f <= fl /\ cu_adm fuel' ne nf con (i + 1)%Z rows' forces'
      else if negb (tp =? CT_ELLIPTIC)%Z then 0 <= f /\ cu_adm fuel' ne nf con (i + 1)%Z rows' forces'
      else match nth_error con (Z.to_nat id) with
           | None => True
           | Some (dim, mu, fr) =>
             let n := Z.to_nat dim in
             ell_admissible fr (firstn n forces) /\
             cu_adm fuel' ne nf con (i + dim)%Z (skipn n rows) (skipn n forces)
           end
    end
  | _ :: _, [] => False
  end.

(* friction coefficients used by an elliptic block are non-zero *)
Fixpoint cu_fr_nonzero (fuel : nat) (ne nf : Z) (con : list (@contact R)) (i : Z) (rows : list (@rowdesc R)) : Prop :=
  match rows with
  | [] => True
  | (D, Rr, fl, tp, id) :: rows' =>
    match fuel with
    | O => True
    | S fuel' =>
      if (i <? ne)%Z || (i <? ne + nf)%Z || negb (tp =? CT_ELLIPTIC)%Z then cu_fr_nonzero fuel' ne nf con (i + 1)%Z rows'
      else match nth_error con (Z.to_nat id) with
           | None => True
           | Some (dim, mu, fr) =>
             let n := Z.to_nat dim in
             Forall (fun f => f <> 0) (firstn (n - 1) fr) /\
             cu_fr_nonzero fuel' ne nf con (i + dim)%Z (skipn n rows)
           end
    end
  end.

(* every D is non-negative (positive): needed for convexity (admissibility) *)
Definition D_nonneg (rows : list (@rowdesc R)) : Prop := Forall (fun r => 0 <= rD r) rows.
Definition D_pos (rows : list (@rowdesc R)) : Prop := Forall (fun r => 0 < rD r) rows.

(* list vectors: dot product, difference, convex combination *)
Fixpoint dotl (a b : list R) : R :=
  match a, b with x :: a', y :: b' => x * y + dotl a' b' | _, _ => 0 end.
Definition vsub (a b : list R) : list R := map2 Rminus a b.
Definition lincomb (lam : R) (a b : list R) : list R := map2 (fun x y => lam * x + (1 - lam) * y) a b.

(* convexity of a function of one real variable *)
Definition convex1 (c : R -> R) : Prop :=
  forall x y lam, 0 <= lam <= 1 -> c (lam * x + (1 - lam) * y) <= lam * c x + (1 - lam) * c y.
