(* C37 — attribute-value lexers of the MJCF reader (src/xml/xml_util.cc, src/user/user_util.cc).
   Definitions only, executable.

   * ReadAttr<T>(elem, attr, len, data, text, required=false, exact): the value is cut into maximal
     runs of non-space characters (StringToVector: SkipSpace / strtod / "next character must be space
     or NUL"); a token that strtod/strtol does not consume completely is "bad format".  Numeral
     well-formedness is a parameter [wf] of the model (strtod itself is not modelled); the tie
     instantiates it with [is_decimal].  Then the arity rule: no token = attribute treated as absent
     (returns 0), more than len = "too much data", fewer than len when exact = "not enough data".
   * MapValue: the WHOLE text must equal a key (no trimming).  MapValues: whitespace-separated keys,
     a repeated key is "duplicate keyword" (tested before validity), an unknown one "invalid keyword". *)
From Coq Require Import String Ascii List Bool ZArith Arith.
Import ListNotations.
Open Scope string_scope.

(* isspace in the "C" locale *)
Definition is_space (c : ascii) : bool :=
  match nat_of_ascii c with 32 | 9 | 10 | 11 | 12 | 13 => true | _ => false end.

Definition is_empty (s : string) : bool := match s with EmptyString => true | _ => false end.

(* maximal runs of non-space characters; cur = the run being collected *)
Fixpoint split_ws_aux (s : string) (cur : string) : list string :=
  match s with
  | EmptyString => if is_empty cur then [] else [cur]
  | String c r =>
      if is_space c then (if is_empty cur then split_ws_aux r "" else cur :: split_ws_aux r "")
      else split_ws_aux r (cur ++ String c "")
  end.
Definition split_ws (s : string) : list string := split_ws_aux s "".

Inductive numres := NumOk (n : nat) | NumMany | NumFew | NumFormat.

Definition read_num (wf : string -> bool) (len : nat) (exact : bool) (text : string) : numres :=
  let ts := split_ws text in
  if negb (forallb wf ts) then NumFormat
  else let n := length ts in
       if (n =? 0)%nat then NumOk 0
       else if exact && (n <? len)%nat then NumFew
       else if (len <? n)%nat then NumMany
       else NumOk n.

(* decimal numerals (the tokens used by the tie): [+-]? (d+ [. d*]? | . d+) ([eE] [+-]? d+)? *)
Definition is_digit (c : ascii) : bool := let n := nat_of_ascii c in (48 <=? n)%nat && (n <=? 57)%nat.
Fixpoint digits (s : string) : nat * string :=       (* number of leading digits, rest *)
  match s with
  | String c r => if is_digit c then let '(n, t) := digits r in (S n, t) else (0, s)
  | EmptyString => (0, s)
  end.
Definition skip_sign (s : string) : string :=
  match s with String "+" r => r | String "-" r => r | _ => s end.
Definition is_decimal (s : string) : bool :=
  let s1 := skip_sign s in
  let '(n1, s2) := digits s1 in
  let '(n2, s3) := match s2 with String "." r => digits r | _ => (0, s2) end in
  let hasdot := match s2 with String "." _ => true | _ => false end in
  if ((n1 + n2) =? 0)%nat then false else
  match s3 with
  | EmptyString => true
  | String e r => if (Ascii.eqb e "e" || Ascii.eqb e "E")%bool then
                    let '(n3, s4) := digits (skip_sign r) in negb (n3 =? 0)%nat && is_empty s4
                  else false
  end.

(* ---- integer attributes (StrToNum<int> / StrToNum<unsigned char> behind StringToVector): a token is
   [+-]? digit+ (strtol base 10 must consume it completely, else "bad format"); its value must lie in
   [lo, hi] (INT_MIN..INT_MAX, or 0..255 for bytes), else "number is too large"; the first offending
   token decides; then the arity rule of ReadAttr. *)
Fixpoint digits_value (s : string) (acc : Z) : option Z :=
  match s with
  | EmptyString => Some acc
  | String c r => if is_digit c then digits_value r (acc * 10 + Z.of_nat (nat_of_ascii c - 48))%Z else None
  end.
Definition int_value (s : string) : option Z :=
  match s with
  | String "-" r => if is_empty r then None else option_map Z.opp (digits_value r 0)
  | String "+" r => if is_empty r then None else digits_value r 0
  | _ => if is_empty s then None else digits_value s 0
  end.
Inductive intres := IntOk (vals : list Z) | IntMany | IntFew | IntFormat | IntRange.
Fixpoint scan_ints (lo hi : Z) (ts : list string) : intres :=
  match ts with
  | [] => IntOk []
  | t :: r =>
      match int_value t with
      | None => IntFormat
      | Some z => if ((lo <=? z) && (z <=? hi))%Z
                  then match scan_ints lo hi r with IntOk l => IntOk (z :: l) | e => e end
                  else IntRange
      end
  end.
Definition read_ints (lo hi : Z) (len : nat) (exact : bool) (text : string) : intres :=
  match scan_ints lo hi (split_ws text) with
  | IntOk l => let n := length l in
               if (n =? 0)%nat then IntOk []
               else if exact && (n <? len)%nat then IntFew
               else if (len <? n)%nat then IntMany
               else IntOk l
  | e => e
  end.
Definition int32_lo : Z := (-2147483648)%Z.
Definition int32_hi : Z := 2147483647%Z.

(* keyword maps: value = index of the key *)
Fixpoint index_of (k : string) (keys : list string) (i : nat) : option nat :=
  match keys with
  | [] => None
  | x :: r => if x =? k then Some i else index_of k r (S i)
  end.
Inductive keyres := KeyOk (vals : list nat) | KeyInvalid | KeyDup.

Definition map_value (keys : list string) (text : string) : keyres :=
  match index_of text keys 0 with Some i => KeyOk [i] | None => KeyInvalid end.

Fixpoint map_values_aux (keys : list string) (toks seen : list string) : keyres :=
  match toks with
  | [] => KeyOk []
  | t :: r =>
      if existsb (String.eqb t) seen then KeyDup else
      match index_of t keys 0 with
      | None => KeyInvalid
      | Some i => match map_values_aux keys r (t :: seen) with
                  | KeyOk l => KeyOk (i :: l)
                  | e => e
                  end
      end
  end.
Definition map_values (keys : list string) (text : string) : keyres := map_values_aux keys (split_ws text) [].

(* ---- correspondence checker: (op, len, exact, text, keys, (code, payload)) *)
Fixpoint nlist_eqb (a : list nat) (b : list Z) : bool :=
  match a, b with
  | [], [] => true
  | x :: r, y :: s => (Z.of_nat x =? y)%Z && nlist_eqb r s
  | _, _ => false
  end.
Fixpoint zl_eqb (a b : list Z) : bool :=
  match a, b with [], [] => true | x :: r, y :: t => (x =? y)%Z && zl_eqb r t | _, _ => false end.
Definition lex_case_ok (c : Z * Z * bool * string * list string * (Z * list Z)) : bool :=
  match c with
  | (op, len, exact, text, keys, (code, payload)) =>
      if ((op =? 3) || (op =? 4))%Z then
        match read_ints (if (op =? 3)%Z then int32_lo else 0%Z) (if (op =? 3)%Z then int32_hi else 255%Z) (Z.to_nat len) exact text with
        | IntOk l => (code =? 0)%Z && zl_eqb l payload
        | IntMany => (code =? 1)%Z
        | IntFew => (code =? 2)%Z
        | IntFormat => (code =? 3)%Z
        | IntRange => (code =? 4)%Z
        end
      else if (op =? 0)%Z then
        match read_num is_decimal (Z.to_nat len) exact text, payload with
        | NumOk n, [cnt] => (code =? 0)%Z && (Z.of_nat n =? cnt)%Z
        | NumMany, _ => (code =? 1)%Z
        | NumFew, _ => (code =? 2)%Z
        | NumFormat, _ => (code =? 3)%Z
        | _, _ => false
        end
      else
        match (if (op =? 1)%Z then map_value keys text else map_values keys text) with
        | KeyOk l => (code =? 0)%Z && nlist_eqb l payload
        | KeyInvalid => (code =? 1)%Z
        | KeyDup => (code =? 2)%Z
        end
  end.
