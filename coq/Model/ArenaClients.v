(* Model of the four arena allocation sites named by property C20, as clients of
   [arena_alloc] of Model/Memory.v (mj_arenaAllocByte), with their failure branches:

     pushPairArena      src/engine/engine_collision_driver.c
     mj_addContact      src/engine/engine_core_constraint.c
     arenaAllocEfc      src/engine/engine_core_constraint.c   (X-macro MJDATA_ARENA_POINTERS_SOLVER)
     arenaAllocIsland   src/engine/engine_island.c            (X-macro MJDATA_ARENA_POINTERS_ISLAND)

   Definitions only, all executable.  sizeof(mjContact), sizeof(mjcPair), the alignments and the
   (bytes, alignment) request lists of the X-macros are inputs (reported by the driver). *)
From Coq Require Import ZArith List Bool.
From MJV Require Import Model.Memory.
Import ListNotations.
Open Scope Z_scope.

Definition WARN_CONTACTFULL : Z := 1.   (* mjWARN_CONTACTFULL *)
Definition WARN_CNSTRFULL : Z := 2.     (* mjWARN_CNSTRFULL *)

Record cl := mkcl {
  ms : st;                 (* allocator state of the mjData *)
  ncon : Z;                (* d->ncon *)
  nefc : Z;                (* d->nefc *)
  nisland : Z;             (* d->nisland *)
  efcp : list Z;           (* the pointers of MJDATA_ARENA_POINTERS_SOLVER, 0 = NULL *)
  islp : list Z;           (* the pointers of MJDATA_ARENA_POINTERS_ISLAND, 0 = NULL *)
  warns : list (Z * Z);    (* mj_warning calls (kind, info), newest first *)
  dualp : list Z           (* pointers of MJDATA_ARENA_POINTERS_DUAL set by mj_makeY / mj_makeAR, 0 = NULL *)
}.

(* [Done ret c]: the function returned ret;  [ErrExit c]: mju_error was raised;
   [NullWrite]: the function wrote through the NULL result of a failed allocation *)
Inductive outc := Done (ret : Z) (c : cl) | ErrExit (c : cl) | NullWrite.

Definition set_parena (s : st) (p : Z) : st :=
  mkst (base s) (narena s) p (pstack s) (pbase s) (maxs s) (maxa s) (tlock s) (mem s).
Definition wr (s : st) (a len : Z) : st :=
  mkst (base s) (narena s) (parena s) (pstack s) (pbase s) (maxs s) (maxa s) (tlock s) (MC a len 0 :: mem s).
Definition with_ms (c : cl) (s : st) : cl := mkcl s (ncon c) (nefc c) (nisland c) (efcp c) (islp c) (warns c) (dualp c).
Definition warn (c : cl) (k info : Z) : cl :=
  mkcl (ms c) (ncon c) (nefc c) (nisland c) (efcp c) (islp c) ((k, info) :: warns c) (dualp c).
Definition nulls (l : list Z) : list Z := map (fun _ => 0) l.

(* mj_clearEfc: every arena pointer NULL, nefc = nisland = 0 *)
Definition clear_efc (c : cl) : cl :=
  mkcl (ms c) (ncon c) 0 0 (nulls (efcp c)) (nulls (islp c)) (warns c) (nulls (dualp c)).

(* pushPairArena(d, pair).  [fixed = true] is the code as it is now: the result [new_pair] is
   tested and mjERROR is raised;  [fixed = false] is the code before /repo's repair: the NULL
   test was applied to the argument [pair] (never NULL) instead of the result. *)
Definition push_pair (ga fixed : bool) (psz pal : Z) (c : cl) : outc :=
  match arena_alloc ga (ms c) psz pal with
  | (RPtr p, s') => Done 0 (with_ms c (wr s' p psz))
  | (_, _) => if fixed then ErrExit c else NullWrite
  end.

(* mj_addContact(m, d, con): returns 0 on success, 1 if the arena is full *)
Definition add_contact (ga : bool) (csz cal : Z) (c : cl) : outc :=
  let c1 := clear_efc (with_ms c (set_parena (ms c) (wrap (ncon c * csz)))) in
  match arena_alloc ga (ms c1) csz cal with
  | (RPtr p, s') =>
      Done 0 (mkcl (wr s' p csz) (ncon c1 + 1) (nefc c1) (nisland c1) (efcp c1) (islp c1) (warns c1) (dualp c1))
  | (_, _) => Done 1 (warn c1 WARN_CONTACTFULL (ncon c))
  end.

(* the X-macro loop: allocate the arrays in order; stops at the first failure.  Returns the
   pointers (None on failure) and the allocator state reached *)
Fixpoint alloc_list (ga : bool) (s : st) (reqs : list (Z * Z)) : option (list Z) * st :=
  match reqs with
  | [] => (Some [], s)
  | (bytes, al) :: r =>
      match arena_alloc ga s bytes al with
      | (RPtr p, s') =>
          match alloc_list ga s' r with
          | (Some ps, s'') => (Some (p :: ps), s'')
          | (None, s'') => (None, s'')
          end
      | (_, s') => (None, s')
      end
  end.

(* arenaAllocEfc(m, d): returns 1 on success, 0 on failure *)
Definition alloc_efc (ga : bool) (csz : Z) (reqs : list (Z * Z)) (c : cl) : outc :=
  let s0 := set_parena (ms c) (wrap (ncon c * csz)) in
  match alloc_list ga s0 reqs with
  | (Some ps, s') => Done 1 (mkcl s' (ncon c) (nefc c) (nisland c) ps (islp c) (warns c) (dualp c))
  | (None, s') =>
      Done 0 (clear_efc (warn (with_ms c (set_parena s' (wrap (ncon c * csz)))) WARN_CNSTRFULL (narena (ms c))))
  end.

(* arenaAllocIsland(m, d): returns 1 on success, 0 on failure.  [ic = true] is the code as it is
   now: the failure branch is that of the other sites (mj_clearEfc and parena rolled back to the
   end of the contact array);  [ic = false] is the code before /repo's repair 62d89235a: the
   failure branch was clearIsland(d, parena_old) (island pointers NULL, nefc = nisland = 0, parena
   restored; the efc arrays and the contacts' efc_address stayed). *)
Definition alloc_island (ga ic : bool) (csz : Z) (reqs : list (Z * Z)) (c : cl) : outc :=
  let old := parena (ms c) in
  match alloc_list ga (ms c) reqs with
  | (Some ps, s') => Done 1 (mkcl s' (ncon c) (nefc c) (nisland c) (efcp c) ps (warns c) (dualp c))
  | (None, s') =>
      if ic then
        Done 0 (clear_efc (warn (with_ms c (set_parena s' (wrap (ncon c * csz)))) WARN_CNSTRFULL (narena (ms c))))
      else
        Done 0 (mkcl (set_parena s' old) (ncon c) 0 0 (efcp c) (nulls (islp c))
                     ((WARN_CNSTRFULL, narena (ms c)) :: warns c) (dualp c))
  end.

(* mj_makeY (sparse and dense branch) and the dense branch of mj_makeAR.  The function brackets its
   stack use with mj_markStack / mj_freeStack and proceeds in phases: some mjSTACKALLOCs, then a
   group of arena allocations that are ALL performed before their results are tested together, and
   after the test the arrays of the group are written.  [tested] lists the positions of the group
   whose pointers the NULL test looks at: the code as it is tests every pointer of the group; a
   test that leaves one out makes the function write through NULL when that allocation fails. *)
Fixpoint alloc_all (ga : bool) (s : st) (reqs : list (Z * Z)) : list Z * st :=
  match reqs with
  | [] => ([], s)
  | (bytes, al) :: r =>
      match arena_alloc ga s bytes al with
      | (RPtr p, s') => let (ps, s'') := alloc_all ga s' r in (p :: ps, s'')
      | (_, s') => let (ps, s'') := alloc_all ga s' r in (0 :: ps, s'')
      end
  end.

Fixpoint stack_all (gs gt : bool) (s : st) (reqs : list (Z * Z)) : option st :=   (* None: mju_error *)
  match reqs with
  | [] => Some s
  | (bytes, al) :: r =>
      match stack_alloc gs gt s bytes al with
      | (RErr, _) => None
      | (_, s') => stack_all gs gt s' r
      end
  end.

Definition has_null (l : list Z) : bool := existsb (fun p => p =? 0) l.
Definition test_fails (tested : list nat) (ps : list Z) : bool :=
  existsb (fun i => nth i ps 1 =? 0) tested.

Inductive pres := PDone (acc : list Z) (s : st) | PFail (s : st) | PErr | PNull.
Definition phase := (list (Z * Z) * list (Z * Z) * list nat)%type.

Fixpoint run_phases (gs gt ga : bool) (phs : list phase) (s : st) (acc : list Z) : pres :=
  match phs with
  | [] => PDone acc s
  | (sreqs, areqs, tested) :: r =>
      match stack_all gs gt s sreqs with
      | None => PErr
      | Some s1 =>
          let (ps, s2) := alloc_all ga s1 areqs in
          if test_fails tested ps then PFail s2
          else if has_null ps then PNull
          else run_phases gs gt ga r s2 (acc ++ ps)
      end
  end.

Definition alloc_dual (gs gt ga : bool) (csz : Z) (phs : list phase) (c : cl) : outc :=
  match mark gs (ms c) with
  | (RErr, _) => ErrExit c
  | (_, s1) =>
      match run_phases gs gt ga phs s1 [] with
      | PErr => ErrExit c
      | PNull => NullWrite
      | PFail s2 =>
          let s3 := snd (free (set_parena s2 (wrap (ncon c * csz)))) in
          Done 0 (clear_efc (warn (with_ms c s3) WARN_CNSTRFULL (narena (ms c))))
      | PDone acc s2 =>
          Done 1 (mkcl (snd (free s2)) (ncon c) (nefc c) (nisland c) (efcp c) (islp c) (warns c) acc)
      end
  end.

(* what the driver prints after a site call:
   [kind; ret; parena; pstack; maxuse_arena; ncon; nefc; nisland] ++ efc pointers ++ island pointers
   ++ [number of warnings raised by the call; kind; info] (kind = info = 0 if none);
   [obs_dual] additionally prints the dual pointers of the call *)
Definition obs_cl (nw0 : nat) (o : outc) : list Z :=
  match o with
  | Done ret c =>
      [0; ret; parena (ms c); pstack (ms c); maxa (ms c); ncon c; nefc c; nisland c] ++ efcp c ++ islp c ++
      (match warns c with
       | (k, i) :: _ => if Nat.ltb nw0 (length (warns c)) then [1; k; i] else [0; 0; 0]
       | [] => [0; 0; 0]
       end)
  | ErrExit c => [1]
  | NullWrite => [2]
  end.

Definition obs_dual (nw0 : nat) (o : outc) : list Z :=
  match o with
  | Done _ c => obs_cl nw0 o ++ dualp c
  | _ => obs_cl nw0 o
  end.
