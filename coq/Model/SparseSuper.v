(* Model of the row-supernode vectors of src/engine/engine_util_sparse.c: mju_superSparse and the
   res_rowsuper output of mju_transposeSparse.  rowsuper[r] = number of rows following r whose
   column list is identical to that of r (chained: a run of k+1 identical rows gets k, k-1, .., 0).
   mju_superSparse compares the column arrays directly; mju_transposeSparse detects the same runs
   incrementally while scattering (equal counts, and column c never appears without c-1 right
   before it in an input row), which is complete only for input rows with sorted columns: the
   model is the definition, the tie compares it with both functions (transposeSparse on sorted
   inputs). *)
From Coq Require Import ZArith List Bool Arith.
From MJV Require Import Lib.Num Model.Sparse.
Import ListNotations.

Fixpoint list_eqb (a b : list nat) : bool :=
  match a, b with
  | [], [] => true
  | x :: a', y :: b' => Nat.eqb x y && list_eqb a' b'
  | _, _ => false
  end.

Fixpoint super_rows (rs : list (list nat)) : list nat :=
  match rs with
  | [] => []
  | r :: rest =>
      let s := super_rows rest in
      match rest with
      | [] => [0]
      | r2 :: _ => (if list_eqb r r2 then S (hd 0 s) else 0) :: s
      end
  end.

Definition superSparse {T : Type} (nr : nat) (S : csr T) : list nat :=
  super_rows (map (fun r => map fst (row S r)) (seq 0 nr)).

Definition transposeSparse_super {T : Type} (nr nc : nat) (S : csr T) : list nat :=
  superSparse nc (transposeSparse nr nc S).
