(* C21 — allocation / cleanup protocol of the engine's constructors and destructors.

   A heap is a set of live block ids (a block id is the ordinal of the allocation attempt that
   produced it).  Programs are finite interaction trees over two effects: emitting an event and
   asking the allocator (the answer comes from a failure oracle nat -> bool, "does the n-th
   attempt fail").  The programs below transcribe, allocation site by allocation site,
   src/engine/engine_util_errmem.c (mju_malloc, mju_free), src/engine/engine_io.c (mj_makeModel,
   mj_copyModel, mj_loadModelBuffer, mj_saveModel, mj_deleteModel, mj_makeRawData, mj_initPlugin,
   _resetData, mj_makeData, mj_copyDataVisual, mj_deleteData), mju_writeResource of
   src/user/user_resource.cc and the engine calls of mjCModel::Compile/TryCompile
   (src/user/user_model.cc).  Definitions only; proofs are in Proof/AllocProtoProof.v. *)
From Coq Require Import List Bool Arith.
Import ListNotations.

(* ------------------------------------------------------------------ events and traces *)
Inductive retv := RetOk | RetNull.

Inductive event :=
| Alloc (id : nat) (site : nat)        (* attempt number id succeeded; the block is called id *)
| AllocFail (n : nat) (site : nat)     (* attempt number n failed: the allocator returned NULL *)
| Free (id : nat)                      (* mju_free of a non-NULL pointer *)
| Use (p : option nat)                 (* dereference of a pointer; None is NULL *)
| Error (cls : nat)                    (* mju_error *)
| Warn (cls : nat)                     (* mju_warning *)
| Return (r : retv).                   (* an API call returned to the scenario *)

Definition trace := list event.

Fixpoint mem (x : nat) (l : list nat) : bool :=
  match l with [] => false | y :: r => if Nat.eqb x y then true else mem x r end.

Fixpoint del (x : nat) (l : list nat) : list nat :=
  match l with [] => [] | y :: r => if Nat.eqb x y then del x r else y :: del x r end.

(* the executable monitor: heap after an event, None when the event is unsafe *)
Definition step_heap (h : list nat) (e : event) : option (list nat) :=
  match e with
  | Alloc id _ => if mem id h then None else Some (id :: h)
  | Free id => if mem id h then Some (del id h) else None
  | Use (Some id) => if mem id h then Some h else None
  | Use None => None
  | _ => Some h
  end.

Fixpoint heap_after (h : list nat) (t : trace) : option (list nat) :=
  match t with
  | [] => Some h
  | e :: r => match step_heap h e with Some h' => heap_after h' r | None => None end
  end.

Definition safe_trace (t : trace) : bool :=
  match heap_after [] t with Some _ => true | None => false end.

(* the live set at the end of a trace that starts on the empty heap ([] when unsafe) *)
Definition live_at_end (t : trace) : list nat :=
  match heap_after [] t with Some h => h | None => [] end.

Definition subset (a b : list nat) : bool := forallb (fun x => mem x b) a.
Definition same_set (a b : list nat) : bool := subset a b && subset b a.

Definition is_abnormal (e : event) : bool :=
  match e with Error _ => true | Return RetNull => true | _ => false end.
Definition abnormal (t : trace) : bool := existsb is_abnormal t.

(* what the allocator hooks and log handlers of the harness can see: everything but Use *)
Definition observable (t : trace) : trace :=
  filter (fun e => match e with Use _ => false | _ => true end) t.

(* ------------------------------------------------------------------ programs *)
Inductive prog (A : Type) : Type :=
| Ret (a : A)
| Emit (e : event) (k : prog A)
| Malloc (site : nat) (k : option nat -> prog A).
Arguments Ret {A} a.
Arguments Emit {A} e k.
Arguments Malloc {A} site k.

Fixpoint bind {A B : Type} (p : prog A) (f : A -> prog B) : prog B :=
  match p with
  | Ret a => f a
  | Emit e k => Emit e (bind k f)
  | Malloc s k => Malloc s (fun x => bind (k x) f)
  end.

(* run against a failure oracle from attempt counter n:
   (result, trace, answers of the oracle in the order asked) *)
Fixpoint run {A : Type} (p : prog A) (o : nat -> bool) (n : nat) : A * trace * list bool :=
  match p with
  | Ret a => (a, [], [])
  | Emit e k => let '(a, t, q) := run k o n in (a, e :: t, q)
  | Malloc s k =>
      if o n
      then let '(a, t, q) := run (k None) o (S n) in (a, AllocFail n s :: t, true :: q)
      else let '(a, t, q) := run (k (Some n)) o (S n) in (a, Alloc n s :: t, false :: q)
  end.

(* every behaviour of the program, over all oracles *)
Fixpoint paths {A : Type} (p : prog A) (n : nat) : list (A * trace * list bool) :=
  match p with
  | Ret a => [(a, [], [])]
  | Emit e k => map (fun x => let '(a, t, q) := x in (a, e :: t, q)) (paths k n)
  | Malloc s k =>
      map (fun x => let '(a, t, q) := x in (a, AllocFail n s :: t, true :: q)) (paths (k None) (S n)) ++
      map (fun x => let '(a, t, q) := x in (a, Alloc n s :: t, false :: q)) (paths (k (Some n)) (S n))
  end.

(* oracle "the attempts listed in l fail" *)
Definition oracle_of (l : list nat) : nat -> bool := fun n => mem n l.

(* ------------------------------------------------------------------ control: errors *)
(* what the installed error handler does with mju_error *)
Inductive hmode :=
| HExit      (* default handler: the process terminates *)
| HJump      (* handler longjmps to whoever installed it *)
| HReturn.   (* handler returns (outside the documented contract; examples only) *)

Inductive res (A : Type) : Type := Val (a : A) | Raised | Exited.
Arguments Val {A} a.
Arguments Raised {A}.
Arguments Exited {A}.

Definition M (A : Type) : Type := prog (res A).

Definition ret {A : Type} (a : A) : M A := Ret (Val a).
Definition bindM {A B : Type} (m : M A) (f : A -> M B) : M B :=
  bind m (fun r => match r with Val a => f a | Raised => Ret Raised | Exited => Ret Exited end).
(* setjmp: a longjmp out of m is turned into a value *)
Definition try {A : Type} (m : M A) : M (res A) :=
  bind m (fun r => match r with Exited => Ret Exited | x => Ret (Val x) end).

Notation "x <- m ;; f" := (bindM m (fun x => f)) (at level 61, m at next level, right associativity).
Notation "m ;;; f" := (bindM m (fun _ => f)) (at level 61, right associativity).

Definition emit (e : event) : M unit := Emit e (ret tt).
Definition use (p : option nat) : M unit := emit (Use p).
Definition warn (cls : nat) : M unit := emit (Warn cls).
Definition error (mode : hmode) (cls : nat) : M unit :=
  Emit (Error cls) (Ret (match mode with HExit => Exited | HJump => Raised | HReturn => Val tt end)).
Definition when (b : bool) (m : M unit) : M unit := if b then m else ret tt.

(* ------------------------------------------------------------------ source variants *)
(* Allocation sites whose failure handling differs between source revisions.  true = the site
   uses an allocation that returns NULL without raising, so that the caller's cleanup runs before
   the error is raised; false = the site calls mju_malloc, which raises the error itself (the
   caller's cleanup code after the NULL test is then unreachable unless the handler returns).
   v_lstructs: mj_loadModelBuffer deletes the model on "ran out of data while reading structs". *)
Record variant := { v_mbuf : bool; v_dbuf : bool; v_darena : bool; v_lstructs : bool; v_dnull : bool;
                    v_npl : bool }.
(* v_dnull: the arena-failure cleanup of mj_makeRawData resets d->buffer to NULL after freeing it
   (matters only when the mjData struct belongs to the caller: in-place mj_makeRawData);
   v_npl: d->nplugin counts only live plugin instances: in-place mj_makeRawData clears it right after
   freeDataBuffers and mj_initPlugin raises it instance by instance *)

(* allocation sites *)
Definition S_MODEL := 0.    (* mjModel struct *)
Definition S_MBUF := 1.     (* mjModel buffer *)
Definition S_DATA := 2.     (* mjData struct *)
Definition S_DBUF := 3.     (* mjData buffer *)
Definition S_ARENA := 4.    (* mjData arena *)
Definition S_PLUGIN := 5.   (* block allocated by the init callback of the harness plugin *)
Definition S_PSTATE := 6.   (* _resetData: plugin_state copy *)
Definition S_PDATA := 7.    (* _resetData: plugin_data copy *)
Definition S_PSAVE := 8.    (* mj_copyDataVisual: save_plugin_data *)
Definition S_SAVEBUF := 9.  (* mj_saveModel: temporary buffer *)
Definition S_VFS := 10.     (* mju_writeResource: local mjVFS *)

(* error / warning classes *)
Definition E_NOMEM := 0.        (* mju_malloc: "Could not allocate memory" *)
Definition E_SITE := 1.         (* the caller's own mjERROR after a NULL test *)
Definition E_MAKEFAIL := 2.     (* mj_copyModel: "failed to make mjModel" *)
Definition E_PLUGININIT := 3.   (* mj_initPlugin: plugin->init failed *)
Definition W_INVALID := 0.      (* mj_makeModel: invalid sizes *)
Definition W_REJECT := 1.       (* mj_loadModelBuffer: file rejected *)
Definition W_SAVE := 2.         (* mj_saveModel: could not allocate / could not save *)

(* mju_malloc (engine_util_errmem.c): asks the allocator, raises "Could not allocate memory"
   itself when the result is NULL (sizes are positive at every modelled site) *)
Definition mju_malloc (mode : hmode) (site : nat) : M (option nat) :=
  Malloc site (fun p => match p with
                        | None => error mode E_NOMEM ;;; ret None
                        | Some _ => ret p end).
(* allocation that reports failure by NULL only *)
Definition malloc_noerror (site : nat) : M (option nat) := Malloc site (fun p => ret p).
Definition alloc_site (nonraising : bool) (mode : hmode) (site : nat) : M (option nat) :=
  if nonraising then malloc_noerror site else mju_malloc mode site.
(* mju_free: NULL is ignored *)
Definition mju_free (p : option nat) : M unit :=
  match p with None => ret tt | Some id => emit (Free id) end.

(* ------------------------------------------------------------------ mjModel *)
Record mobj := { m_struct : option nat; m_buf : option nat }.
Definition optl (p : option nat) : list nat := match p with Some x => [x] | None => [] end.
Definition own_m (m : option mobj) : list nat :=
  match m with Some mo => optl (m_struct mo) ++ optl (m_buf mo) | None => [] end.

(* where mj_makeModel rejects its size arguments *)
Inductive mrej :=
| MR_none
| MR_early      (* negative / too large / nbody == 0: before anything is allocated *)
| MR_names.     (* nnames_map or a buffer-size overflow: after the struct exists *)

(* mj_makeModel(&dest, sizes...).  dest = None is *dest == NULL (allocate = 1). *)
Definition mj_makeModel (v : variant) (mode : hmode) (dest : option mobj) (rej : mrej)
  : M (option mobj) :=
  match rej with
  | MR_early => warn W_INVALID ;;; ret dest
  | _ =>
    let allocate := match dest with None => true | Some _ => false end in
    m <- (match dest with
          | Some mo => use (m_struct mo) ;;; mju_free (m_buf mo) ;;; ret (m_struct mo)
          | None => mju_malloc mode S_MODEL
          end) ;;
    when (match m with None => true | _ => false end) (error mode E_SITE) ;;;
    use m ;;;                                             (* memset(m, 0, sizeof(mjModel)) *)
    match rej with
    | MR_names =>
        when allocate (mju_free m) ;;; warn W_INVALID ;;;
        ret (if allocate then None else Some {| m_struct := m; m_buf := None |})
    | _ =>
        b <- alloc_site (v_mbuf v) mode S_MBUF ;;
        when (match b with None => true | _ => false end)
             (when allocate (mju_free m) ;;; error mode E_SITE) ;;;
        use m ;;; use b ;;;                               (* memset(m->buffer, 0, m->nbuffer) *)
        ret (Some {| m_struct := m; m_buf := b |})
    end
  end.

(* mj_deleteModel *)
Definition mj_deleteModel (m : option mobj) : M unit :=
  match m with
  | None => ret tt
  | Some mo =>
      match m_struct mo with
      | None => ret tt
      | Some _ => use (m_struct mo) ;;; mju_free (m_buf mo) ;;; mju_free (m_struct mo)
      end
  end.

(* mj_copyModel(dest, src); sizes of dest and src agree *)
Definition mj_copyModel (v : variant) (mode : hmode) (dest : option mobj) : M (option mobj) :=
  d <- (match dest with
        | None => mj_makeModel v mode None MR_none
        | Some _ => ret dest end) ;;
  when (match d with None => true | _ => false end) (error mode E_MAKEFAIL) ;;;
  match d with
  | None => use None ;;; ret None                          (* dest->nbuffer *)
  | Some mo => use (m_struct mo) ;;; use (m_buf mo) ;;; ret d
  end.

(* where mj_loadModelBuffer rejects the file *)
Inductive lrej :=
| LR_none
| LR_header      (* header / truncated sizes: before mj_makeModel *)
| LR_mk_early    (* mj_makeModel rejects the sizes before allocating *)
| LR_mk_names    (* mj_makeModel rejects the sizes after allocating the struct *)
| LR_nbuffer     (* wrong nbuffer field *)
| LR_namesmap    (* wrong nnames_map field *)
| LR_structs     (* ran out of data while reading structs *)
| LR_array       (* ran out of data while reading an array *)
| LR_toolarge    (* file longer than the model *)
| LR_validate.   (* mj_validateReferences fails *)

Definition mj_loadModelBuffer (v : variant) (mode : hmode) (rej : lrej) : M (option mobj) :=
  match rej with
  | LR_header => warn W_REJECT ;;; ret None
  | _ =>
    m <- mj_makeModel v mode None
           (match rej with LR_mk_early => MR_early | LR_mk_names => MR_names | _ => MR_none end) ;;
    match m with
    | None => warn W_REJECT ;;; ret None
    | Some mo =>
        use (m_struct mo) ;;;                              (* m->nbuffer *)
        match rej with
        | LR_nbuffer | LR_namesmap | LR_array | LR_toolarge | LR_validate =>
            warn W_REJECT ;;; mj_deleteModel m ;;; ret None
        | LR_structs =>
            warn W_REJECT ;;; when (v_lstructs v) (mj_deleteModel m) ;;; ret None
        | _ => use (m_buf mo) ;;; ret m
        end
    end
  end.

(* mj_saveModel(m, filename, NULL, 0): temporary buffer, then mju_writeResource with vfs == NULL *)
Definition mj_saveModel (mode : hmode) : M unit :=
  t <- mju_malloc mode S_SAVEBUF ;;
  match t with
  | None => warn W_SAVE
  | Some _ =>
      use t ;;;
      f <- mju_malloc mode S_VFS ;;
      use f ;;;                                            (* mj_defaultVFS(vfs) *)
      mju_free f ;;; mju_free t
  end.

(* ------------------------------------------------------------------ mjData *)
Record dobj := { d_struct : option nat; d_buf : option nat; d_arena : option nat;
                 d_plug : list (option nat);   (* d->plugin_data[0 .. d->nplugin) *)
                 d_ptrs : option nat }.        (* the block that d->plugin, d->plugin_data, ... point into
                                                  (set by mj_setPtrData; normally the buffer) *)
(* a pointer value that no allocation ever returned (uninitialised memory) *)
Definition JUNK := 4095.
Definition own_d (d : option dobj) : list nat :=
  match d with
  | Some x => optl (d_struct x) ++ optl (d_buf x) ++ optl (d_arena x) ++ flat_map optl (d_plug x)
  | None => [] end.

(* mj_makeRawData(&dest, m) with *dest == NULL *)
Definition mj_makeRawData (v : variant) (mode : hmode) : M (option dobj) :=
  d <- mju_malloc mode S_DATA ;;
  when (match d with None => true | _ => false end) (error mode E_SITE) ;;;
  use d ;;;                                                (* d->timer[...].number = 0 *)
  b <- alloc_site (v_dbuf v) mode S_DBUF ;;
  when (match b with None => true | _ => false end) (mju_free d ;;; error mode E_SITE) ;;;
  use d ;;;
  a <- alloc_site (v_darena v) mode S_ARENA ;;
  when (match a with None => true | _ => false end)
       (mju_free b ;;; mju_free d ;;; error mode E_SITE) ;;;
  use d ;;;                                                (* mj_setPtrData *)
  ret (Some {| d_struct := d; d_buf := b; d_arena := a; d_plug := []; d_ptrs := b |}).

(* mj_initPlugin with np instances of the harness plugin: init allocates one block through
   mju_malloc, stores it in d->plugin_data[i] and returns -1 when it got NULL *)
Fixpoint init_plugins (mode : hmode) (d : dobj) (np : nat) : M (list (option nat)) :=
  match np with
  | 0 => ret []
  | S k =>
      use (d_struct d) ;;;                                 (* d->plugin[i] = ... *)
      p <- mju_malloc mode S_PLUGIN ;;
      match p with
      | None =>
          mju_free (d_buf d) ;;; mju_free (d_arena d) ;;; mju_free (d_struct d) ;;;
          error mode E_PLUGININIT ;;; use (d_struct d) ;;;
          r <- init_plugins mode d k ;; ret (p :: r)
      | Some _ =>
          use (d_buf d) ;;;                                (* d->plugin_data[i] = block *)
          r <- init_plugins mode d k ;; ret (p :: r)
      end
  end.

(* the allocations of _resetData: copies of plugin_state and plugin_data when d->nplugin > 0 *)
Definition resetData (mode : hmode) (d : dobj) : M unit :=
  match d_plug d with
  | [] => ret tt
  | _ =>
      use (d_struct d) ;;;
      s <- mju_malloc mode S_PSTATE ;;
      use s ;;;
      t <- mju_malloc mode S_PDATA ;;
      use t ;;;
      use (d_buf d) ;;;
      mju_free s ;;; mju_free t
  end.

(* mj_makeData *)
Definition mj_makeData (v : variant) (mode : hmode) (np : nat) : M (option dobj) :=
  d <- mj_makeRawData v mode ;;
  match d with
  | None => ret None
  | Some x =>
      pl <- init_plugins mode x np ;;
      let x' := {| d_struct := d_struct x; d_buf := d_buf x; d_arena := d_arena x; d_plug := pl;
                   d_ptrs := d_ptrs x |} in
      resetData mode x' ;;; ret (Some x')
  end.

(* mj_copyDataVisual(dest, m, src, flg) *)
Definition mj_copyData (v : variant) (mode : hmode) (np : nat) (dest : option dobj) : M (option dobj) :=
  d <- (match dest with
        | Some _ => ret dest
        | None =>
            r <- mj_makeRawData v mode ;;
            match r with
            | None => use None ;;; ret None                (* mj_initPlugin(m, NULL) *)
            | Some x =>
                pl <- init_plugins mode x np ;;
                ret (Some {| d_struct := d_struct x; d_buf := d_buf x; d_arena := d_arena x;
                             d_plug := pl; d_ptrs := d_ptrs x |})
            end
        end) ;;
  match d with
  | None => use None ;;; ret None
  | Some x =>
      use (d_struct x) ;;;
      match d_plug x with
      | [] => use (d_buf x) ;;; ret d
      | _ =>
          s <- mju_malloc mode S_PSAVE ;;
          when (match s with None => true | _ => false end) (error mode E_SITE) ;;;
          use s ;;; use (d_buf x) ;;; mju_free s ;;; ret d
      end
  end.

(* mj_deleteData: plugin destroy callbacks free their blocks, then buffer, arena, struct *)
Fixpoint free_all (l : list (option nat)) : M unit :=
  match l with [] => ret tt | p :: r => mju_free p ;;; free_all r end.

Definition mj_deleteData (d : option dobj) : M unit :=
  match d with
  | None => ret tt
  | Some x =>
      match d_struct x with
      | None => ret tt
      | Some _ =>
          use (d_struct x) ;;;
          when (match d_plug x with [] => false | _ => true end) (use (d_ptrs x)) ;;;   (* d->plugin[i], d->plugin_data[i] *)
          free_all (d_plug x) ;;;
          mju_free (d_buf x) ;;; mju_free (d_arena x) ;;; mju_free (d_struct x)
      end
  end.

(* ------------------------------------------------------------------ the compiler's engine calls *)
(* mjCModel::Compile: installs a handler that longjmps to a catch block which deletes `model`
   and `data` (the variables of Compile that TryCompile updates by reference) and returns NULL.
   TryCompile: mj_makeModel(&m), mj_makeRawData(&d) + mj_resetData (no plugins yet),
   mj_deleteData(d), d = mj_makeData(m), mj_step, mj_deleteData(d).  mj_setConst, LengthRange and
   mj_step allocate from the arena of d only. *)
(* errors raised while the compiler's own (thread-local) handler is installed never reach the
   global handler: they are tagged by adding 100 to their class *)
Fixpoint retag {A : Type} (p : prog A) : prog A :=
  match p with
  | Ret a => Ret a
  | Emit (Error c) k => Emit (Error (100 + c)) (retag k)
  | Emit e k => Emit e (retag k)
  | Malloc s k => Malloc s (fun x => retag (k x))
  end.

Definition compile_handler (model : option mobj) (data : option dobj) : M (option mobj) :=
  mj_deleteModel model ;;; mj_deleteData data ;;; ret None.

(* TryCompile after mj_makeModel succeeded *)
Definition compile_tail (v : variant) (np : nat) (model : option mobj) : M (option mobj) :=
  r2 <- try (mj_makeRawData v HJump) ;;
  match r2 with
  | Val d1 =>
      mj_deleteData d1 ;;;
      r3 <- try (mj_makeData v HJump np) ;;
      match r3 with
      | Val d2 => mj_deleteData d2 ;;; ret model
      | _ => compile_handler model None      (* d = mj_makeData(m) was never assigned *)
      end
  | _ => compile_handler model None          (* *dest of mj_makeRawData was never assigned *)
  end.

Definition compile (v : variant) (np : nat) : M (option mobj) :=
  retag (r1 <- try (mj_makeModel v HJump None MR_none) ;;
         match r1 with
         | Val model => compile_tail v np model
         | _ => compile_handler None None     (* *dest of mj_makeModel was never assigned *)
         end).

(* ------------------------------------------------------------------ in-place construction *)
(* mj_makeModel / mj_makeRawData on a struct that belongs to the caller (dest points to a non-NULL pointer), as reached
   from mj_recompile.  The struct is never freed here; what matters is the state it is left in when
   the error is raised, because the caller (or the compiler's catch block) deletes it afterwards.
   These are written in state-passing style: the result is the control outcome together with the
   state of the caller's object at that point. *)
Definition outcome (mode : hmode) : res unit :=
  match mode with HExit => Exited | HJump => Raised | HReturn => Val tt end.
Fixpoint emits {A : Type} (l : list event) (k : prog A) : prog A :=
  match l with [] => k | e :: r => Emit e (emits r k) end.
Definition freeE (p : option nat) : list event := match p with Some id => [Free id] | None => [] end.

Definition mj_makeModel_inplace (v : variant) (mode : hmode) (mo : mobj) : prog (res unit * mobj) :=
  let cleared := {| m_struct := m_struct mo; m_buf := None |} in
  emits ([Use (m_struct mo)] ++ freeE (m_buf mo) ++ [Use (m_struct mo)])   (* freeModelBuffers; memset(m, 0) *)
    (Malloc S_MBUF (fun b =>
       match b with
       | None => Emit (Error (if v_mbuf v then E_SITE else E_NOMEM)) (Ret (outcome mode, cleared))
       | Some _ => emits [Use (m_struct mo); Use b]
                         (Ret (Val tt, {| m_struct := m_struct mo; m_buf := b |}))
       end)).

Definition mj_makeRawData_inplace (v : variant) (mode : hmode) (d : dobj) : prog (res unit * dobj) :=
  let hasplug := match d_plug d with [] => false | _ => true end in
  (* freeDataBuffers destroyed the plugin instances (the harness plugin frees its block and zeroes
     the slot) and freed buffer and arena; d->buffer = d->arena = NULL; but d->nplugin keeps its
     value and d->plugin / d->plugin_data still point into the freed buffer *)
  let stale (b : option nat) :=
      {| d_struct := d_struct d; d_buf := b; d_arena := None;
         d_plug := if v_npl v then [] else map (fun _ => None) (d_plug d); d_ptrs := d_ptrs d |} in
  emits ([Use (d_struct d)] ++ (if hasplug then [Use (d_ptrs d)] else []) ++ flat_map freeE (d_plug d)
         ++ freeE (d_buf d) ++ freeE (d_arena d) ++ [Use (d_struct d)])
    (Malloc S_DBUF (fun b =>
       match b with
       | None => Emit (Error (if v_dbuf v then E_SITE else E_NOMEM)) (Ret (outcome mode, stale None))
       | Some _ =>
           Emit (Use (d_struct d))
             (Malloc S_ARENA (fun a =>
                match a with
                | None =>
                    if v_darena v
                    then emits (freeE b ++ [Error E_SITE])     (* mju_free(d->buffer); [d->buffer = NULL;] mjERROR *)
                               (Ret (outcome mode, stale (if v_dnull v then None else b)))
                    else Emit (Error E_NOMEM)                   (* raised inside mju_malloc: d->buffer stays assigned *)
                              (Ret (outcome mode, stale b))
                | Some _ =>
                    Emit (Use (d_struct d))                     (* mj_setPtrData; d->nplugin = 0 *)
                      (Ret (Val tt, {| d_struct := d_struct d; d_buf := b; d_arena := a; d_plug := [];
                                       d_ptrs := b |}))
                end))
       end)).

(* mj_initPlugin on the caller's d: d->nplugin = m->nplugin first, then one init per instance; when
   an init raises, the remaining slots of plugin_data are uninitialised memory *)
Fixpoint init_plugins_st (v : variant) (mode : hmode) (d : dobj) (np : nat) : prog (res unit * list (option nat)) :=
  match np with
  | 0 => Ret (Val tt, [])
  | S k =>
      Emit (Use (d_struct d))
        (Malloc S_PLUGIN (fun p =>
           match p with
           | None => Emit (Error E_NOMEM)
                          (Ret (outcome mode, if v_npl v then [] else repeat (Some JUNK) (S k)))
           | Some _ =>
               Emit (Use (d_buf d))
                 (bind (init_plugins_st v mode d k) (fun y => let '(r, l) := y in Ret (r, p :: l)))
           end))
  end.

(* mjCModel::MakeData(m, &d) with an existing d: mj_makeRawData, mj_initPlugin, mj_resetData *)
Definition makeData_inplace (v : variant) (mode : hmode) (np : nat) (d : dobj) : prog (res unit * dobj) :=
  bind (mj_makeRawData_inplace v mode d) (fun x =>
    let '(r, d1) := x in
    match r with
    | Val _ =>
        bind (init_plugins_st v mode d1 np) (fun y =>
          let '(r2, pl) := y in
          let d2 := {| d_struct := d_struct d1; d_buf := d_buf d1; d_arena := d_arena d1; d_plug := pl;
                       d_ptrs := d_ptrs d1 |} in
          match r2 with
          | Val _ => bind (resetData mode d2) (fun r3 =>
                       Ret (match r3 with Val _ => Val tt | Raised => Raised | Exited => Exited end, d2))
          | _ => Ret (r2, d2)
          end)
    | _ => Ret (r, d1)
    end).

(* mjCModel::Compile(vfs, &m) with an existing m: `model` is the caller's struct from the start *)
Definition compile_inplace (v : variant) (np : nat) (mo : mobj) : M (option mobj) :=
  retag (bind (mj_makeModel_inplace v HJump mo) (fun x =>
           let '(r, mo1) := x in
           match r with
           | Val _ => compile_tail v np (Some mo1)
           | Raised => compile_handler (Some mo1) None
           | Exited => Ret Exited
           end)).

(* mj_recompile(s, vfs, m, d): the control outcome (Val RetNull is the -1 return: the library has
   deleted m and d) and the objects the caller still owns afterwards *)
Definition mj_recompile (v : variant) (mode : hmode) (np : nat) (mo : mobj) (d : dobj)
  : prog (res retv * option mobj * option dobj) :=
  bind (compile_inplace v np mo) (fun r =>
    match r with
    | Val None => bind (mj_deleteData (Some d)) (fun _ => Ret (Val RetNull, None, None))
    | Val (Some m') =>
        bind (makeData_inplace v mode np d) (fun y =>
          let '(r2, d') := y in
          Ret (match r2 with Val _ => Val RetOk | Raised => Raised | Exited => Exited end,
               Some m', Some d'))
    | Raised => Ret (Raised, Some mo, Some d)
    | Exited => Ret (Exited, Some mo, Some d)
    end).

(* ------------------------------------------------------------------ scenarios *)
(* Each scenario is a closed sequence of API calls as the harness driver performs them; a Return
   event follows every call that returns a pointer.  The value is the list of blocks owned by the
   objects the scenario still holds when it ends. *)
Definition retp {A : Type} (x : option A) : M unit :=
  emit (Return (match x with Some _ => RetOk | None => RetNull end)).

Inductive npl := NP0 | NP1 | NP2.
Definition np_of (n : npl) : nat := match n with NP0 => 0 | NP1 => 1 | NP2 => 2 end.

Inductive scenario :=
| SC_COPYMODEL (keep : bool)          (* copy (new), copy (in place), delete unless keep *)
| SC_LOAD (rej : lrej) (keep : bool)  (* load a buffer of rejection class rej, delete unless keep *)
| SC_SAVE                             (* save to a file *)
| SC_DATA (np : npl) (keep : bool)    (* make, copy (new), copy (in place), delete copy, delete unless keep *)
| SC_STEP (np : npl)                  (* make, step, forward, inverse, reset, step, delete *)
| SC_COMPILE (np : npl) (keep : bool)  (* compile, retry once when it failed, delete unless keep *)
| SC_INPLACE (np : npl)                (* make data, remake it IN PLACE (mj_makeRawData + mj_initPlugin +
                                          mj_resetData on the same struct), delete: also after a failure *)
| SC_RECOMPILE (np : npl).             (* compile, make data, step, edit, mj_recompile in place, then what the
                                          caller must do: nothing after -1, delete data and model otherwise *)

Definition scenario_prog (v : variant) (mode : hmode) (sc : scenario) : M (list nat) :=
  match sc with
  | SC_COPYMODEL keep =>
      m <- mj_copyModel v mode None ;; retp m ;;;
      m' <- mj_copyModel v mode m ;; retp m' ;;;
      if keep then ret (own_m m') else mj_deleteModel m' ;;; ret []
  | SC_LOAD rej keep =>
      m <- mj_loadModelBuffer v mode rej ;; retp m ;;;
      if keep then ret (own_m m) else mj_deleteModel m ;;; ret []
  | SC_SAVE => mj_saveModel mode ;;; ret []
  | SC_DATA np keep =>
      d <- mj_makeData v mode (np_of np) ;; retp d ;;;
      c <- mj_copyData v mode (np_of np) None ;; retp c ;;;
      c' <- mj_copyData v mode (np_of np) c ;; retp c' ;;;
      mj_deleteData c' ;;;
      if keep then ret (own_d d) else mj_deleteData d ;;; ret []
  | SC_STEP np =>
      d <- mj_makeData v mode (np_of np) ;; retp d ;;;
      (match d with Some x => resetData mode x | None => use None end) ;;;   (* mj_step x3, mj_forward,
         mj_inverse allocate nothing through mju_malloc; mj_resetData; mj_step *)
      mj_deleteData d ;;; ret []
  | SC_COMPILE np keep =>
      m <- compile v (np_of np) ;; retp m ;;;
      m' <- (match m with Some _ => ret m | None => (r <- compile v (np_of np) ;; retp r ;;; ret r) end) ;;
      if keep then ret (own_m m') else mj_deleteModel m' ;;; ret []
  | SC_INPLACE np =>
      d <- mj_makeData v mode (np_of np) ;; retp d ;;;
      match d with
      | None => ret []
      | Some dd =>
          bind (makeData_inplace v mode (np_of np) dd) (fun y =>
            let '(r, d') := y in
            match r with
            | Exited => Ret Exited
            | Val _ => emit (Return RetOk) ;;; mj_deleteData (Some d') ;;; ret []
            | Raised => mj_deleteData (Some d') ;;; ret []       (* the caller caught the error *)
            end)
      end
  | SC_RECOMPILE np =>
      m <- compile v (np_of np) ;; retp m ;;;
      match m with
      | None => ret []
      | Some mo =>
          d <- mj_makeData v mode (np_of np) ;; retp d ;;;
          match d with
          | None => ret (own_m m)
          | Some dd =>
              bind (mj_recompile v mode (np_of np) mo dd) (fun y =>
                let '(r, m', d') := y in
                match r with
                | Exited => Ret Exited
                | Val RetNull => emit (Return RetNull) ;;; ret []
                | Val RetOk => emit (Return RetOk) ;;; mj_deleteData d' ;;; mj_deleteModel m' ;;; ret []
                | Raised => mj_deleteData d' ;;; mj_deleteModel m' ;;; ret []   (* the caller caught the error *)
                end)
          end
      end
  end.

(* does the scenario reject its input without any allocation failure? *)
Definition rejects (sc : scenario) : bool :=
  match sc with SC_LOAD LR_none _ => false | SC_LOAD _ _ => true | _ => false end.

(* is the leak clause of the property expected to hold for this source variant? *)
Definition leak_clause_holds (v : variant) (sc : scenario) : bool :=
  match sc with
  | SC_COMPILE NP0 _ => v_mbuf v && v_dbuf v && v_darena v
  | SC_COMPILE _ _ => false      (* d = mj_makeData(m) is assigned only on return: with plugins a
                                    failure inside mj_initPlugin/_resetData loses the whole mjData *)
  | SC_LOAD LR_structs _ => v_lstructs v
  | SC_INPLACE NP0 => true
  | SC_INPLACE _ => false        (* a failed plugin allocation loses the temporaries of mj_resetData *)
  | SC_RECOMPILE NP0 => v_mbuf v && v_dbuf v && v_darena v
  | SC_RECOMPILE _ => false
  | _ => true
  end.

(* is the safety clause expected to hold?  It fails for the in-place paths when the arena-failure
   cleanup frees the buffer without clearing the pointer, and with plugin instances unless
   d->nplugin counts only live instances (otherwise d->nplugin and the pointers into the freed
   buffer survive freeDataBuffers, and a raising init leaves uninitialised plugin_data slots). *)
Definition safe_clause_holds (v : variant) (sc : scenario) : bool :=
  match sc with
  | SC_INPLACE NP0 | SC_RECOMPILE NP0 => negb (v_darena v) || v_dnull v
  | SC_INPLACE _ | SC_RECOMPILE _ => v_npl v && (negb (v_darena v) || v_dnull v)
  | _ => true
  end.

(* the verdict on one behaviour: safe; abnormal end iff a failure or a rejected input; and, when
   the scenario ran to its end, the live set is exactly what the scenario still owns *)
Definition verdict_safe (x : res (list nat) * trace * list bool) : bool :=
  let '(_, t, _) := x in safe_trace t.
Definition verdict_iff (rej : bool) (x : res (list nat) * trace * list bool) : bool :=
  let '(_, t, q) := x in Bool.eqb (abnormal t) (existsb (fun b => b) q || rej).
Definition verdict_leak (x : res (list nat) * trace * list bool) : bool :=
  let '(r, t, _) := x in
  match r with
  | Val owned => same_set (live_at_end t) owned
  | _ => true          (* the process exited, or the error left through the harness' own handler *)
  end.

(* does the scenario end holding an object? *)
Definition keeps (sc : scenario) : bool :=
  match sc with
  | SC_COPYMODEL k => k | SC_LOAD _ k => k | SC_DATA _ k => k | SC_COMPILE _ k => k
  | _ => false end.
(* constructor(s) followed by the destructor(s): nothing is live at the end *)
Definition verdict_empty (x : res (list nat) * trace * list bool) : bool :=
  let '(r, t, _) := x in
  match r with
  | Val owned => match owned, live_at_end t with [], [] => true | _, _ => false end
  | _ => true
  end.

Definition all_bools := [true; false].
Definition all_variants : list variant :=
  flat_map (fun a => flat_map (fun b => flat_map (fun c =>
    flat_map (fun d => flat_map (fun e => map (fun f =>
    {| v_mbuf := a; v_dbuf := b; v_darena := c; v_lstructs := d; v_dnull := e; v_npl := f |}) all_bools) all_bools) all_bools)
    all_bools) all_bools) all_bools.
Definition all_npl := [NP0; NP1; NP2].
Definition all_lrej := [LR_none; LR_header; LR_mk_early; LR_mk_names; LR_nbuffer; LR_namesmap;
                        LR_structs; LR_array; LR_toolarge; LR_validate].
Definition all_scenarios : list scenario :=
  map SC_COPYMODEL all_bools ++
  flat_map (fun r => map (SC_LOAD r) all_bools) all_lrej ++
  [SC_SAVE] ++
  flat_map (fun n => map (SC_DATA n) all_bools) all_npl ++
  map SC_STEP all_npl ++
  flat_map (fun n => map (SC_COMPILE n) all_bools) all_npl ++
  map SC_INPLACE all_npl ++ map SC_RECOMPILE all_npl.
Definition contract_modes := [HExit; HJump].

(* the finite checks the theorems reduce to *)
Definition check_all (f : variant -> hmode -> scenario -> bool) : bool :=
  forallb (fun v => forallb (fun md => forallb (fun sc => f v md sc) all_scenarios) contract_modes) all_variants.
Definition f_safe (v : variant) (md : hmode) (sc : scenario) : bool :=
  negb (safe_clause_holds v sc) || forallb verdict_safe (paths (scenario_prog v md sc) 0).
Definition f_iff (v : variant) (md : hmode) (sc : scenario) : bool :=
  forallb (verdict_iff (rejects sc)) (paths (scenario_prog v md sc) 0).
Definition f_leak (v : variant) (md : hmode) (sc : scenario) : bool :=
  negb (leak_clause_holds v sc) || negb (safe_clause_holds v sc) || forallb verdict_leak (paths (scenario_prog v md sc) 0).
Definition f_dtor (v : variant) (md : hmode) (sc : scenario) : bool :=
  negb (leak_clause_holds v sc) || negb (safe_clause_holds v sc) || keeps sc ||
  forallb verdict_empty (paths (scenario_prog v md sc) 0).
Definition check_safe : bool := check_all f_safe.
Definition check_iff : bool := check_all f_iff.
Definition check_leak : bool := check_all f_leak.
Definition check_dtor : bool := check_all f_dtor.
