(* Model of plugin/actuator/pid.cc (first-party PID actuator plugin), generic over Lib/Num.
   Definitions only.  Arrays (mjData.act, act_dot, ctrl, actuator_length, actuator_velocity,
   actuator_force) are lists addressed by Z indices; every read and write of the plugin is
   additionally listed by [pid_reads] / [pid_actdot_writes] so that the index arithmetic can be
   reasoned about. *)
From Coq Require Import ZArith List Bool.
From MJV Require Import Lib.Num.
Import ListNotations.

Section PID.
Context {T : Type} `{NumT T}.
Local Open Scope num_scope.

(* ---- engine utilities used by the plugin (engine_util_misc.c) *)
Definition mju_clip (x lo hi : T) : T := if x <? lo then lo else if hi <? x then hi else x.
Definition mju_max (a b : T) : T := if b <=? a then a else b.
Definition pMINVAL : T := ndec 1 (-15).

(* ---- arrays *)
Definition rd (a : list T) (i : Z) : T := if (i <? 0)%Z then nzero else nth (Z.to_nat i) a nzero.
Fixpoint upd_nat (a : list T) (n : nat) (v : T) : list T :=
  match a, n with
  | nil, _ => nil
  | _ :: r, O => v :: r
  | x :: r, S k => x :: upd_nat r k v
  end.
Definition upd (a : list T) (i : Z) (v : T) : list T := if (i <? 0)%Z then a else upd_nat a (Z.to_nat i) v.
Definition apply_writes (a : list T) (ws : list (Z * T)) : list T :=
  fold_left (fun acc w => upd acc (fst w) (snd w)) ws a.

(* ---- configuration: PidConfig::FromModel.  Attributes absent from the model are None. *)
Record PidCfg := mkCfg { kp : T; ki : T; kd : T; imax : option T; slew : option T }.

Definition truthy (x : T) : bool := negb (x =? nzero).          (* C++ `if (x)` on a double *)
Definition oget (o : option T) : T := match o with Some x => x | None => nzero end.

Definition cfg_of_attrs (akp aki akd aimax aslew : option T) : PidCfg :=
  let i := oget aki in
  mkCfg (oget akp) i (oget akd)
        (match aimax with Some f => if truthy i then Some (f / i) else None | None => None end)
        aslew.

(* Pid::Create refuses negative limits *)
Definition cfg_accepted (c : PidCfg) : bool :=
  negb (match imax c with Some m => m <? nzero | None => false end) &&
  negb (oget (slew c) <? nzero).

Definition has_i (c : PidCfg) : bool := truthy (ki c).
Definition has_slew (c : PidCfg) : bool := match slew c with Some _ => true | None => false end.
Definition b2z (b : bool) : Z := if b then 1%Z else 0%Z.
(* Pid::ActDim *)
Definition act_dim (c : PidCfg) : Z := (b2z (has_i c) + b2z (has_slew c))%Z.

(* ---- per-actuator model fields read by the plugin *)
Record ActPrm := mkAct {
  aid : Z;                 (* actuator index: ctrl / actuator_length / actuator_velocity / actuator_force *)
  dyntype : Z;             (* mjtDyn: 0 none, 1 integrator, 2 filter, 3 filterexact, ... *)
  ctrllimited : bool; ctrl_lo : T; ctrl_hi : T;
  actlimited : bool; act_lo : T; act_hi : T;
  actearly : bool;
  tau : T;                 (* actuator_dynprm[0] *)
  actadr : Z; actnum : Z
}.

Definition native_dyn (dyn : Z) : bool := ((dyn =? 1) || (dyn =? 2) || (dyn =? 3))%Z.
(* the actnum validation of Pid::Create *)
Definition expected_actnum (c : PidCfg) (a : ActPrm) : Z := (act_dim c + b2z (native_dyn (dyntype a)))%Z.
Definition act_valid (c : PidCfg) (a : ActPrm) : bool := (actnum a =? expected_actnum c a)%Z.

(* ---- Pid::State / GetState *)
Record PState := mkState { previous_ctrl : T; previous_ctrl_exists : bool; integral : T }.

Definition slew_adr (c : PidCfg) (a : ActPrm) : Z := (actadr a + b2z (has_i c))%Z.
Definition last_adr (a : ActPrm) : Z := (actadr a + actnum a - 1)%Z.

Definition get_state (c : PidCfg) (a : ActPrm) (time_pos : bool) (act : list T) : PState :=
  mkState (if has_slew c then rd act (slew_adr c a) else nzero)
          (has_slew c && time_pos)
          (if has_i c then rd act (actadr a) else nzero).

(* NextActivation (the plugin's copy of the engine function) *)
Definition next_activation (a : ActPrm) (h : T) (act_val act_dot : T) : T :=
  let v := if (dyntype a =? 3)%Z
           then let t := mju_max pMINVAL (tau a) in act_val + act_dot * t * (none - nexp (- h / t))
           else act_val + act_dot * h in
  if actlimited a then mju_clip v (act_lo a) (act_hi a) else v.

(* Pid::GetCtrl *)
Definition get_ctrl (c : PidCfg) (a : ActPrm) (h : T) (ctrl act act_dot : list T) (st : PState) (early : bool) : T :=
  let c0 := if (dyntype a =? 0)%Z
            then let u := rd ctrl (aid a) in
                 if ctrllimited a then mju_clip u (ctrl_lo a) (ctrl_hi a) else u
            else if early then next_activation a h (rd act (last_adr a)) (rd act_dot (last_adr a))
                 else rd act (last_adr a) in
  match slew c with
  | Some s => if previous_ctrl_exists st
              then mju_clip c0 (previous_ctrl st - s * h) (previous_ctrl st + s * h)
              else c0
  | None => c0
  end.

(* the integral update shared by ActDot and Compute *)
Definition integral_update (c : PidCfg) (h : T) (i e : T) : T :=
  let v := i + e * h in
  match imax c with Some m => mju_clip v (- m) m | None => v end.

(* Pid::ActDot for one actuator: the list of (index, value) written into d->act_dot *)
Definition pid_actdot_writes (c : PidCfg) (a : ActPrm) (h : T) (time_pos : bool)
           (ctrl len act act_dot : list T) : list (Z * T) :=
  let st := get_state c a time_pos act in
  let u := get_ctrl c a h ctrl act act_dot st false in
  let e := u - rd len (aid a) in
  (if has_i c
   then [(actadr a, (integral_update c h (integral st) e - rd act (actadr a)) / h)] else []) ++
  (if has_slew c
   then [(slew_adr c a, (u - rd act (slew_adr c a)) / h)] else []).

(* indices of d->act and d->act_dot read by ActDot and Compute for one actuator *)
Definition pid_reads (c : PidCfg) (a : ActPrm) : list Z :=
  (if has_i c then [actadr a] else []) ++ (if has_slew c then [slew_adr c a] else []) ++
  (if (dyntype a =? 0)%Z then [] else [last_adr a]).

(* Pid::Compute for one actuator: the value written into d->actuator_force[aid] *)
Definition pid_error (c : PidCfg) (a : ActPrm) (h : T) (time_pos : bool) (ctrl len act act_dot : list T) : T :=
  get_ctrl c a h ctrl act act_dot (get_state c a time_pos act) (actearly a) - rd len (aid a).
Definition pid_error_dot (a : ActPrm) (vel act_dot : list T) : T :=
  (if (dyntype a =? 0)%Z then nzero else rd act_dot (last_adr a)) - rd vel (aid a).
Definition pid_integral (c : PidCfg) (a : ActPrm) (h : T) (time_pos : bool) (ctrl len act act_dot : list T) : T :=
  if has_i c
  then integral_update c h (integral (get_state c a time_pos act)) (pid_error c a h time_pos ctrl len act act_dot)
  else nzero.
Definition pid_force (c : PidCfg) (a : ActPrm) (h : T) (time_pos : bool) (ctrl len vel act act_dot : list T) : T :=
  kp c * pid_error c a h time_pos ctrl len act act_dot +
  kd c * pid_error_dot a vel act_dot +
  ki c * pid_integral c a h time_pos ctrl len act act_dot.

(* the integral that ActDot asks the engine to store (through act_dot) and the setpoint it asks to
   store as previous_ctrl *)
Definition requested_integral (c : PidCfg) (a : ActPrm) (h : T) (time_pos : bool) (ctrl len act act_dot : list T) : T :=
  integral_update c h (rd act (actadr a))
    (get_ctrl c a h ctrl act act_dot (get_state c a time_pos act) false - rd len (aid a)).
Definition requested_prev_ctrl (c : PidCfg) (a : ActPrm) (h : T) (time_pos : bool) (ctrl act act_dot : list T) : T :=
  get_ctrl c a h ctrl act act_dot (get_state c a time_pos act) false.

(* ---- the instance callbacks: loops over the actuators of the instance *)
Definition inst_actdot (c : PidCfg) (acts : list ActPrm) (h : T) (time_pos : bool)
           (ctrl len act act_dot : list T) : list T :=
  fold_left (fun ad a => apply_writes ad (pid_actdot_writes c a h time_pos ctrl len act ad)) acts act_dot.

Definition inst_compute (c : PidCfg) (acts : list ActPrm) (h : T) (time_pos : bool)
           (ctrl len vel act act_dot force : list T) : list T :=
  fold_left (fun f a => upd f (aid a) (pid_force c a h time_pos ctrl len vel act act_dot)) acts force.

(* ---- the engine's integration of the activation slice (mj_advance / mj_nextActivation for
        dyntypes 0..3): every slot of the slice is integrated with the actuator's dyntype *)
Fixpoint advance_slots (a : ActPrm) (h : T) (act act_dot acc : list T) (j : Z) (n : nat) : list T :=
  match n with
  | O => acc
  | S k => advance_slots a h act act_dot (upd acc j (next_activation a h (rd act j) (rd act_dot j))) (j + 1)%Z k
  end.
(* [acc0] is the array the new slice values are written into (d->act itself in the engine) *)
Definition inst_advance (acts : list ActPrm) (h : T) (act act_dot acc0 : list T) : list T :=
  fold_left (fun acc a => advance_slots a h act act_dot acc (actadr a) (Z.to_nat (actnum a))) acts acc0.

(* ---- closed loop on the plugin state of one stateless-transmission actuator (dyntype none,
        no actrange): one simulation step maps (integral, previous_ctrl) and the inputs
        (ctrl, length) of the step to the new plugin state, as ActDot followed by Euler integration
        of act does.  Used for the history theorems. *)
Record Loop := mkLoop { l_int : T; l_prev : T }.
Definition loop_ctrl (c : PidCfg) (clim : bool) (lo hi h : T) (time_pos : bool) (s : Loop) (u : T) : T :=
  let c0 := if clim then mju_clip u lo hi else u in
  match slew c with
  | Some sl => if time_pos then mju_clip c0 (l_prev s - sl * h) (l_prev s + sl * h) else c0
  | None => c0
  end.
Definition loop_step (c : PidCfg) (clim : bool) (lo hi h : T) (time_pos : bool) (s : Loop) (in_ : T * T) : Loop :=
  let '(u, len) := in_ in
  let cu := loop_ctrl c clim lo hi h time_pos s u in
  let e := cu - len in
  mkLoop (if has_i c then l_int s + ((integral_update c h (l_int s) e - l_int s) / h) * h else l_int s)
         (if has_slew c then l_prev s + ((cu - l_prev s) / h) * h else l_prev s).
(* run from time 0: the first step has time_pos = false *)
Fixpoint loop_run (c : PidCfg) (clim : bool) (lo hi h : T) (time_pos : bool) (s : Loop) (ins : list (T * T)) : list Loop :=
  match ins with
  | nil => nil
  | i :: r => let s' := loop_step c clim lo hi h time_pos s i in s' :: loop_run c clim lo hi h true s' r
  end.
(* setpoints used along the run *)
Fixpoint loop_ctrls (c : PidCfg) (clim : bool) (lo hi h : T) (time_pos : bool) (s : Loop) (ins : list (T * T)) : list T :=
  match ins with
  | nil => nil
  | i :: r => loop_ctrl c clim lo hi h time_pos s (fst i) ::
              loop_ctrls c clim lo hi h true (loop_step c clim lo hi h time_pos s i) r
  end.

End PID.
