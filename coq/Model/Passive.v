(* Model of the spring / damper / gravity-compensation part of mj_passive (engine_passive.c:
   mj_springdamper, mj_gravcomp, the sums of mj_passive), of mju_polyForce / mju_polyPotential
   (engine_util_misc.c) and of the spring part of mj_energyPos; generic over Lib/Num.
   Definitions only.  Kinematic quantities (tendon length/velocity/Jacobian rows, body Jacobians at
   the centre of mass, effective damping after mj_actuatorDamping) are inputs. *)
From Coq Require Import ZArith List Bool.
From MJV Require Import Lib.Num Model.Spatial.
Import ListNotations.

Section Passive.
Context {T : Type} `{NumT T}.
Local Open Scope num_scope.

(* ---- mju_polyForce(linear, poly, x, n, flg_odd): linear + sum_i poly[i] * x^(i+1)  (|x| if odd) *)
Fixpoint polyLoop (poly : list T) (x res xpow : T) : T :=
  match poly with
  | nil => res
  | c :: r => let xp := xpow * x in polyLoop r x (res + c * xp) xp
  end.
Definition polyForce (linear : T) (poly : list T) (x : T) (odd : bool) : T :=
  let x := if odd then nabs x else x in polyLoop poly x linear none.

(* ---- mju_polyPotential: 0.5*linear*x^2 + sum_i poly[i]/(i+3) * x^(i+3) *)
Fixpoint potLoop (poly : list T) (i : Z) (x res xpow : T) : T :=
  match poly with
  | nil => res
  | c :: r => let xp := xpow * x in potLoop r (i + 1) x (res + c / nofZ (i + 3) * (xp * x)) xp
  end.
Definition polyPotential (linear : T) (poly : list T) (x : T) (odd : bool) : T :=
  let x := if odd then nabs x else x in potLoop poly 0 x (nhalf * linear * (x * x)) x.

Definition allZero (l : list T) : bool := forallb (fun c => c =? nzero) l.

(* ---- scalar laws *)
Definition springForce (k : T) (poly : list T) (x : T) : T := - x * polyForce k poly x false.
Definition damperForce (b : T) (poly : list T) (v : T) : T := - v * polyForce b poly v true.

(* tendon spring displacement with dead band [lower, upper] *)
Definition tendonDisp (len lower upper : T) : T :=
  if upper <? len then len - upper else if len <? lower then len - lower else nzero.

(* ---- arrays *)
Fixpoint setNth (l : list T) (n : nat) (v : T) : list T :=
  match l, n with
  | nil, _ => nil
  | _ :: r, O => v :: r
  | x :: r, S k => x :: setNth r k v
  end.
Definition addNth (l : list T) (n : nat) (v : T) : list T := setNth l n (nth n l nzero + v).
Definition addVec3 (l : list T) (n : nat) (v : vec3 T) : list T :=
  let '(a, b, c) := v in addNth (addNth (addNth l n a) (S n) b) (S (S n)) c.
Definition vsum (a b : list T) : list T := map (fun xy => fst xy + snd xy) (combine a b).
(* l += row * f *)
Definition axpy (l row : list T) (f : T) : list T := map (fun xr => fst xr + snd xr * f) (combine l row).

(* ---- joint springs *)
Inductive JointSpring :=
| JScalar (dof : nat) (k : T) (poly : list T) (q qspring : T)                          (* hinge / slide *)
| JBall (dof : nat) (k : T) (poly : list T) (q qspring : quat T)
| JFree (dof : nat) (k : T) (poly : list T) (pos pspring : vec3 T) (q qspring : quat T).

Definition ballTorque (k : T) (poly : list T) (q qspring : quat T) : vec3 T :=
  let dif := subQuat (fst (normalize4 q)) qspring in
  scl3 dif (- polyForce k poly (norm3 dif) false).
Definition freeForce (k : T) (poly : list T) (pos pspring : vec3 T) : vec3 T :=
  let dif := sub3 pos pspring in
  scl3 dif (- polyForce k poly (norm3 dif) false).

Definition jointSpring (qfrc : list T) (j : JointSpring) : list T :=
  match j with
  | JScalar dof k poly q qs =>
      if (k =? nzero) && allZero poly then qfrc else setNth qfrc dof (springForce k poly (q - qs))
  | JBall dof k poly q qs =>
      if (k =? nzero) && allZero poly then qfrc else addVec3 qfrc dof (ballTorque k poly q qs)
  | JFree dof k poly pos ps q qs =>
      if (k =? nzero) && allZero poly then qfrc
      else addVec3 (addVec3 qfrc dof (freeForce k poly pos ps)) (dof + 3) (ballTorque k poly q qs)
  end.

(* ---- mj_actuatorDamping and its callers: the damping coefficients of a joint dof / tendon are its own
        plus, for every actuator driving that joint / tendon, the actuator's coefficients times gear^2
        (a damper b in actuator space acts as b*gear^2 on the target).  acts = (gear, damping, dampingpoly) *)
Definition actDampingStep (acc : T * list T) (a : T * T * list T) : T * list T :=
  let '(g, d, dp) := a in
  let g2 := g * g in
  (fst acc + d * g2, map (fun pc => fst pc + snd pc * g2) (combine (snd acc) dp)).
Definition effDamping (b0 : T) (poly0 : list T) (acts : list (T * T * list T)) : T * list T :=
  let r := fold_left actDampingStep acts (nzero, poly0) in (b0 + fst r, snd r).

(* ---- dof dampers: (effective damping, effective poly, velocity) per dof *)
Definition dofDamper (d : T * list T * T) : T :=
  let '(b, poly, v) := d in
  if negb (b =? nzero) || negb (allZero poly) then damperForce b poly v else nzero.

(* ---- tendons: stiffness, spoly, effective damping, dpoly, length, velocity, lower, upper, dense J row *)
Record Tendon := mkTendon {
  t_k : T; t_spoly : list T; t_b : T; t_dpoly : list T;
  t_len : T; t_vel : T; t_lower : T; t_upper : T; t_J : list T }.

Definition tendonSpring (enbl_spring : bool) (t : Tendon) : T :=
  if enbl_spring then springForce (t_k t) (t_spoly t) (tendonDisp (t_len t) (t_lower t) (t_upper t)) else nzero.
Definition tendonDamper (enbl_damper : bool) (t : Tendon) : T :=
  if enbl_damper then damperForce (t_b t) (t_dpoly t) (t_vel t) else nzero.
Definition tendonSkip (enbl_spring enbl_damper : bool) (t : Tendon) : bool :=
  let k : T := if enbl_spring then t_k t else nzero in
  let b : T := if enbl_damper then t_b t else nzero in
  (k =? nzero) && (negb enbl_spring || allZero (t_spoly t)) &&
  (b =? nzero) && (negb enbl_damper || allZero (t_dpoly t)).

(* (qfrc_spring, qfrc_damper) after one tendon *)
Definition tendonStep (es ed : bool) (sd : list T * list T) (t : Tendon) : list T * list T :=
  if tendonSkip es ed t then sd
  else let fs := tendonSpring es t in let fd := tendonDamper ed t in
       if negb (fs =? nzero) || negb (fd =? nzero)
       then (axpy (fst sd) (t_J t) fs, axpy (snd sd) (t_J t) fd) else sd.

(* ---- mj_springdamper: (qfrc_spring, qfrc_damper) *)
Definition springdamper (nv : nat) (es ed : bool) (joints : list JointSpring) (dofs : list (T * list T * T))
           (tendons : list Tendon) : list T * list T :=
  let s0 := if es then fold_left jointSpring joints (repeat nzero nv) else repeat nzero nv in
  let d0 := if ed then map dofDamper dofs else repeat nzero nv in
  fold_left (tendonStep es ed) tendons (s0, d0).

(* ---- gravity compensation: per body (mass, gravcomp, columns of the translational Jacobian at the
        centre of mass); force = gravity * -(mass*gravcomp), qfrc += jacp^T force *)
Definition gravcompForce (gravity : vec3 T) (mass gc : T) : vec3 T := scl3 gravity (- (mass * gc)).
Definition applyForce (jacp : list (vec3 T)) (f : vec3 T) (qfrc : list T) : list T :=
  map (fun qj => fst qj + dot3 (snd qj) f) (combine qfrc jacp).
Definition gravcompBody (gravity : vec3 T) (qfrc : list T) (b : T * T * list (vec3 T)) : list T :=
  let '(mass, gc, jacp) := b in
  if gc =? nzero then qfrc else applyForce jacp (gravcompForce gravity mass gc) qfrc.
Definition gravcomp (nv : nat) (gravity : vec3 T) (bodies : list (T * T * list (vec3 T))) : list T :=
  fold_left (gravcompBody gravity) bodies (repeat nzero nv).

(* ---- mj_passive (spring, damper, gravcomp parts): qfrc_passive; actgc = dofs whose joint routes
        gravity compensation through the actuators *)
Definition passive (spring damper gc : list T) (has_gc : bool) (actgc : list bool) : list T :=
  let p0 := vsum spring damper in
  if has_gc
  then map (fun x : T * T * bool => let '(pq, g, a) := x in if a then pq else pq + g) (combine (combine p0 gc) actgc)
  else p0.

(* ---- spring part of mj_energyPos (joints and tendons; gravity and flexes excluded) *)
Definition springEnergyScalar (k : T) (poly : list T) (q qspring : T) : T := polyPotential k poly (q - qspring) false.
Definition springEnergyTendon (t : Tendon) : T :=
  polyPotential (t_k t) (t_spoly t) (tendonDisp (t_len t) (t_lower t) (t_upper t)) false.
Definition jointEnergy (e : T) (j : JointSpring) : T :=
  match j with
  | JScalar _ k poly q qs => if (k =? nzero) && allZero poly then e else e + springEnergyScalar k poly q qs
  | JBall _ k poly q qs =>
      if (k =? nzero) && allZero poly then e else e + polyPotential k poly (norm3 (subQuat q qs)) false
  | JFree _ k poly pos ps q qs =>
      if (k =? nzero) && allZero poly then e
      else e + polyPotential k poly (norm3 (sub3 pos ps)) false + polyPotential k poly (norm3 (subQuat q qs)) false
  end.
Definition springEnergy (es : bool) (joints : list JointSpring) (tendons : list Tendon) : T :=
  if es then fold_left (fun e t => e + springEnergyTendon t) tendons (fold_left jointEnergy joints nzero) else nzero.

End Passive.
