(* Model of the algebra of forward and inverse dynamics (src/engine/engine_forward.c: mj_fwdAcceleration,
   mj_fwdConstraint, mj_EulerSkip, mj_implicitSkip;  src/engine/engine_inverse.c: mj_inverseSkip,
   mj_invConstraint, mj_discreteAcc) over the vocabulary of Model/SolverSpec.v (vectors nat -> R whose first
   n = nv resp. m = nefc entries matter, matrices nat -> nat -> R).  Definitions only.
   M = joint-space inertia, J = efc_J, aref = efc_aref, f = the constraint force law (mj_constraintUpdate:
   efc_force = f(J qacc - aref), qfrc_constraint = J' efc_force) - the SAME function in both directions. *)
From Coq Require Import ZArith Reals List.
From MJV Require Import Lib.Num Lib.NumR Model.SolverSpec.

(* ---- the two per-dof combinations, written once over [Num T] (run at float against the engine's arrays) *)
Section Rows.
Context {T : Type} `{Num T}.
Local Open Scope num_scope.
(* mj_fwdAcceleration: mju_sub(qfrc_smooth, qfrc_passive, qfrc_bias); += qfrc_applied; += qfrc_actuator; += project(xfrc) *)
Definition smooth_row (passive bias applied actuator xfrcq : T) : T := passive - bias + applied + actuator + xfrcq.
(* mj_inverseSkip: qfrc_inverse[i] (= bias) += Ma[i] - qfrc_passive[i] - qfrc_constraint[i] *)
Definition inverse_row (bias ma passive constraint : T) : T := bias + (ma - passive - constraint).
End Rows.

Open Scope R_scope.

(* mj_fwdAcceleration: qfrc_smooth = qfrc_passive - qfrc_bias + qfrc_applied + qfrc_actuator + project(xfrc_applied) *)
Definition qfrc_smooth (passive bias applied actuator xfrcq : vec) : vec :=
  fun i => smooth_row (T:=R) (passive i) (bias i) (applied i) (actuator i) (xfrcq i).

(* what inverse dynamics has to return: qfrc_applied + J'xfrc_applied + qfrc_actuator (mj_compareFwdInv: qforce) *)
Definition applied_total (applied actuator xfrcq : vec) : vec := fun i => applied i + actuator i + xfrcq i.

(* mj_constraintUpdate at acceleration a *)
Definition efc_force_at (n : nat) (J : mat) (aref : vec) (f : vec -> vec) (a : vec) : vec :=
  f (vsub (mulMV n J a) aref).
Definition qfrc_constraint_at (n m : nat) (J : mat) (aref : vec) (f : vec -> vec) (a : vec) : vec :=
  mulMTV m J (efc_force_at n J aref f a).

(* residual of the forward equation M a = qfrc_smooth + qfrc_constraint(a); this is the gradient the primal
   solvers drive to zero (grad = Ma - qfrc_smooth - qfrc_constraint) *)
Definition forward_residual (n m : nat) (M J : mat) (aref : vec) (f : vec -> vec) (smooth a : vec) : vec :=
  fun i => mulMV n M a i - smooth i - qfrc_constraint_at n m J aref f a i.
Definition forward_solution (n m : nat) (M J : mat) (aref : vec) (f : vec -> vec) (smooth a : vec) : Prop :=
  eqn n (forward_residual n m M J aref f smooth a) vzero.

(* mj_inverseSkip: qfrc_inverse = bias (mj_rne + mj_tendonBias); qfrc_inverse += Ma - qfrc_passive - qfrc_constraint *)
Definition qfrc_inverse (n m : nat) (M J : mat) (aref : vec) (f : vec -> vec) (passive bias a : vec) : vec :=
  fun i => inverse_row (T:=R) (bias i) (mulMV n M a i) (passive i) (qfrc_constraint_at n m J aref f a i).

(* the force law reads its argument pointwise *)
Definition pointwise (f : vec -> vec) : Prop :=
  forall x y : vec, (forall i : nat, x i = y i) -> forall r : nat, f x r = f y r.

(* integrator matrices: the velocity update solves  A a_d = qfrc_smooth + qfrc_constraint  for the discrete
   acceleration a_d = (qvel' - qvel)/h.   Euler with implicit joint damping: A = M + h diag(B);
   implicit / implicitfast: A = M - h qDeriv;  Euler without damping (or mjDSBL_EULERDAMP): A = M *)
Definition euler_matrix (M : mat) (h : R) (B : vec) : mat :=
  fun i j => M i j + (if Nat.eqb i j then h * B i else 0).
Definition implicit_matrix (M : mat) (h : R) (Dq : mat) : mat := fun i j => M i j - h * Dq i j.
