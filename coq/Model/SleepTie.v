(* Executable comparison of Model/Sleep.v with the outputs of harness/drivers/c18_sleep.c
   (correspondence side only; no theorem depends on this file). *)
From Coq Require Import ZArith List Bool.
From MJV Require Import Lib.Eqb Model.Sleep.
Import ListNotations.
Open Scope Z_scope.

Definition bits (l : list Z) : list bool := map (fun x => negb (x =? 0)) l.
Definition arr (l : list (list Z)) (k : nat) : list Z := nth k l [].
Definition arg (l : list Z) (k : nat) : Z := nth k l 0.
Fixpoint prefix_sums (acc : Z) (l : list Z) : list Z :=
  match l with [] => [] | x :: r => acc :: prefix_sums (acc + x) r end.

(* case = (op, scalar arguments, arrays, islands) *)
Definition sleep_check (c : Z * list Z * list (list Z) * list (list Z)) : bool :=
  match c with
  | (op, a, r, isl) =>
    if op =? 0 then   (* constants *)
      (arg a 0 =? mjMINAWAKE) && (arg a 1 =? -1) && (arg a 2 =? 0) && (arg a 3 =? 1)
    else if op =? 1 then   (* mj_sleepCycle: a = ntree i result *)
      sleepCycle (arr r 0) (arg a 0) (arg a 1) =? arg a 2
    else if op =? 2 then   (* mj_wakeIsland: a = ntree i wakeval err nwoke ; r = ta ta' *)
      match wakeIsland (arr r 0) (arg a 0) (arg a 1) (arg a 2) with
      | (ta', n, e) => (e =? arg a 3) && (n =? arg a 4) && zlist_eqb ta' (arr r 1)
      end
    else if op =? 3 then   (* mj_sleep raw: a = nefc err nslept ; r = ta can tail ta' *)
      match mj_sleep (arr r 0) (bits (arr r 1)) (arg a 0) isl (arr r 2) with
      | (ta', n, e) => (e =? arg a 1) && ((negb (e =? 0)) || (n =? arg a 2)) && zlist_eqb ta' (arr r 3)
      end
    else if op =? 4 then   (* mj_wake raw: a = enabled ntree_awake err nwoke ; r = ta flags can0 ta' *)
      if arg a 0 =? 0 then
        match mj_wake_disabled (arr r 0) (arg a 1) with
        | (ta', n) => (arg a 2 =? 0) && (n =? arg a 3) && zlist_eqb ta' (arr r 3)
        end
      else
        match mj_wake (arr r 0) (arr r 1) (bits (arr r 2)) with
        | (ta', n, e) => (e =? arg a 2) && ((negb (e =? 0)) || (n =? arg a 3)) && zlist_eqb ta' (arr r 3)
        end
    else if op =? 5 then   (* mj_updateSleepInit: a = flg ntree_awake nbody_awake nparent_awake nv_awake
                              r = ta treeid parentid rootid mocapid dof_bodyid ba0 | tree_awake body_awake bind pind dind *)
      match updateSleepInit (arr r 0) (arr r 1) (arr r 2) (arr r 3) (arr r 4) (arr r 5) (arr r 6) (negb (arg a 0 =? 0)) with
      | (tw, ntw, ba, bind, pind, dind) =>
        zlist_eqb tw (arr r 7) && (ntw =? arg a 1) && zlist_eqb ba (arr r 8) &&
        zlist_eqb bind (arr r 9) && zlist_eqb pind (arr r 10) && zlist_eqb dind (arr r 11) &&
        (lenZ bind =? arg a 2) && (lenZ pind =? arg a 3) && (lenZ dind =? arg a 4)
      end
    else if op =? 6 then   (* island lists of mj_island: a = nisland ; r = tree_island map island_ntree island_itreeadr *)
      let il := islands_of (arr r 0) (arg a 0) in
      zlist_eqb (concat il ++ tail_of (arr r 0)) (arr r 1) &&
      zlist_eqb (map lenZ il) (arr r 2) && zlist_eqb (prefix_sums 0 (map lenZ il)) (arr r 3)
    else if op =? 7 then   (* mj_sleep inside mj_step: a = nefc nisland ; r = ta can tree_island ta' *)
      match mj_sleep_part (arr r 0) (bits (arr r 1)) (arg a 0) (arg a 1) (arr r 2) with
      | (ta', n, e) => (e =? 0) && zlist_eqb ta' (arr r 3)
      end
    else false
  end.
