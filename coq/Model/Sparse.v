(* Model of the sparse (CSR) and band utilities of src/engine/engine_util_sparse.c / .h,
   engine_util_sparse_avx.h, engine_util_misc.c (gather/scatter) and of mju_band2Dense /
   mju_dense2Band (engine_util_solve.c), plus the vector kernels of engine_util_blas.c that have
   SIMD twins.

   Written once over the numeric signature Lib/Num.v: instantiated at R for the theorems
   (Proof/SparseProof.v, Props/C23.v) and at PrimFloat.float for the correspondence runs.
   Definitions only.

   Representation.
   * A CSR matrix is (rownnz, rowadr, ent): rownnz/rowadr are the C arrays of the same name and
     ent is the pair of parallel C arrays (colind, values) zipped into ONE array of
     (column, value) entries.  Row r is the slice ent[rowadr[r] .. rowadr[r]+rownnz[r]).  Nothing is
     assumed about the layout: rows may be empty, the array may have gaps between rows
     (the "uncompressed" layout) and rows may be stored in any order, unless a theorem says so.
   * A dense matrix is the list of its rows (the C array is the concatenation, row-major).
   * Arithmetic is written in the association order of the C code (mju_dotSparse and mju_dot
     accumulate in 4 lanes exactly like the scalar and the AVX code, which agree by design). *)
From Coq Require Import ZArith List Bool Arith.
From MJV Require Import Lib.Num.
Import ListNotations.

(* ---------------------------------------------------------------- array helpers *)
Fixpoint upd {A : Type} (i : nat) (v : A) (l : list A) : list A :=
  match l, i with
  | [], _ => []
  | _ :: r, O => v :: r
  | x :: r, S i' => x :: upd i' v r
  end.
Definition slice {A : Type} (adr n : nat) (l : list A) : list A := firstn n (skipn adr l).
(* prefix sums: [a; a+l0; a+l0+l1; ...], same length as l *)
Fixpoint psums (a : nat) (l : list nat) : list nat :=
  match l with [] => [] | x :: r => a :: psums (a + x) r end.
Definition sumn (l : list nat) : nat := fold_right Nat.add 0 l.

Section Sparse.
Context {T : Type} `{Num T}.
Local Open Scope num_scope.

Definition ent : Type := (nat * T)%type.
Definition nz (x : T) : bool := negb (x =? nzero).            (* C: if (x) *)

Record csr : Type := mkcsr { c_nnz : list nat; c_adr : list nat; c_ent : list ent }.

Definition row (S : csr) (r : nat) : list ent :=
  slice (nth r (c_adr S) 0) (nth r (c_nnz S) 0) (c_ent S).
Definition rows (nr : nat) (S : csr) : list (list ent) := map (row S) (seq 0 nr).

(* value stored for column c in a list of entries (first match; 0 if absent) *)
Fixpoint lk (c : nat) (es : list ent) : T :=
  match es with
  | [] => nzero
  | (c', x) :: r => if Nat.eqb c' c then x else lk c r
  end.

(* ---------------------------------------------------------------- dense reference definitions *)
Definition dzero (nr nc : nat) : list (list T) := repeat (repeat nzero nc) nr.
Definition dget (M : list (list T)) (r c : nat) : T := nth c (nth r M []) nzero.
Definition dmulMatVec (M : list (list T)) (v : list T) : list T := map (fun rw => ndot rw v) M.
Definition dtranspose (nr nc : nat) (M : list (list T)) : list (list T) :=
  map (fun c => map (fun r => dget M r c) (seq 0 nr)) (seq 0 nc).
Definition dmulMatTVec (nr nc : nat) (M : list (list T)) (v : list T) : list T :=
  dmulMatVec (dtranspose nr nc M) v.
Definition vadd (a b : list T) : list T := map (fun p => fst p + snd p) (combine a b).
Definition vscl (s : T) (a : list T) : list T := map (fun x => s * x) a.

(* ---------------------------------------------------------------- mju_dense2sparse *)
Fixpoint d2s_row (c : nat) (rw : list T) : list ent :=
  match rw with
  | [] => []
  | x :: r => if nz x then (c, x) :: d2s_row (S c) r else d2s_row (S c) r
  end.
Definition dense2sparse (M : list (list T)) : csr :=
  let rs := map (d2s_row 0) M in
  mkcsr (map (@length ent) rs) (psums 0 (map (@length ent) rs)) (concat rs).
(* return value: 1 if the capacity nnz is too small (or not positive), 0 otherwise *)
Definition dense2sparse_ret (cap : Z) (M : list (list T)) : Z :=
  if (cap <=? 0)%Z then 1%Z
  else if (cap <? Z.of_nat (length (c_ent (dense2sparse M))))%Z then 1%Z else 0%Z.

(* ---------------------------------------------------------------- mju_sparse2dense *)
Definition s2d_row (nc : nat) (es : list ent) : list T :=
  fold_left (fun rw (e : ent) => upd (fst e) (snd e) rw) es (repeat nzero nc).
Definition sparse2dense (nr nc : nat) (S : csr) : list (list T) :=
  map (fun r => s2d_row nc (row S r)) (seq 0 nr).

(* ---------------------------------------------------------------- dot products *)
(* 4-lane accumulation of mju_dotSparse / mju_dotSparse_avx: lanes 0..3, reduced as
   (l0 + l2) + (l1 + l3), then the scalar tail is added one by one *)
Fixpoint sum4 (l : list T) (a0 a1 a2 a3 : T) : T :=
  match l with
  | p0 :: p1 :: p2 :: p3 :: rest => sum4 rest (a0 + p0) (a1 + p1) (a2 + p2) (a3 + p3)
  | _ => fold_left nadd l ((a0 + a2) + (a1 + a3))
  end.
Definition dotSparse (es : list ent) (vec : list T) : T :=
  sum4 (map (fun e : ent => snd e * nth (fst e) vec nzero) es) nzero nzero nzero nzero.

(* mju_dot: same lanes; the tail of 1..3 products is summed first and added once *)
Fixpoint sum4d (l : list T) (a0 a1 a2 a3 : T) : T :=
  match l with
  | p0 :: p1 :: p2 :: p3 :: rest => sum4d rest (a0 + p0) (a1 + p1) (a2 + p2) (a3 + p3)
  | [p0; p1; p2] => ((a0 + a2) + (a1 + a3)) + ((p0 + p1) + p2)
  | [p0; p1] => ((a0 + a2) + (a1 + a3)) + (p0 + p1)
  | [p0] => ((a0 + a2) + (a1 + a3)) + p0
  | [] => (a0 + a2) + (a1 + a3)
  end.
Definition dot (a b : list T) : T :=
  sum4d (map (fun p => fst p * snd p) (combine a b)) nzero nzero nzero nzero.

(* mju_dotSparse2: both vectors sparse, sorted indices; two-pointer merge *)
Fixpoint dotSparse2_aux (res : T) (a : list ent) : list ent -> T :=
  fix aux (b : list ent) : T :=
    match a, b with
    | (ia, xa) :: a', (ib, xb) :: b' =>
        if Nat.eqb ia ib then dotSparse2_aux (res + xa * xb) a' b'
        else if Nat.ltb ia ib then dotSparse2_aux res a' b
        else aux b'
    | _, _ => res
    end.
Definition dotSparse2 (a b : list ent) : T := dotSparse2_aux nzero a b.

(* ---------------------------------------------------------------- products *)
(* mju_mulMatVecSparse (with or without supernodes: same values) *)
Definition mulMatVecSparse (nr : nat) (S : csr) (vec : list T) : list T :=
  map (fun r => dotSparse (row S r) vec) (seq 0 nr).

(* mju_mulMatTVecSparse: res = 0; for each row i with vec[i] != 0: res[col] += val * vec[i] *)
Definition addAt (c : nat) (x : T) (res : list T) : list T := upd c (nth c res nzero + x) res.
Definition mulMatTVecSparse (nr nc : nat) (S : csr) (vec : list T) : list T :=
  fold_left (fun res i =>
               let scl := nth i vec nzero in
               if nz scl then fold_left (fun res (e : ent) => addAt (fst e) (snd e * scl) res) (row S i) res
               else res)
            (seq 0 nr) (repeat nzero nc).

(* mju_mulSymVecSparse: lower triangle stored, diagonal LAST in each row;
   res[i] = diag*vec[i]; then for k = diag-1 .. 0: res[i] += val*vec[j]; res[j] += val*vec[i] *)
Definition mulSymVecSparse (n : nat) (S : csr) (vec : list T) : list T :=
  fold_left (fun res i =>
               let es := row S i in
               let d := snd (last es (0, nzero)) in
               let res1 := upd i (d * nth i vec nzero) res in
               fold_left (fun res (e : ent) =>
                            let res' := addAt i (snd e * nth (fst e) vec nzero) res in
                            addAt (fst e) (snd e * nth i vec nzero) res')
                         (rev (removelast es)) res1)
            (seq 0 n) (repeat nzero n).

(* mju_sym2dense: res[i][col] = res[col][i] = val for col <= i *)
Definition dset (M : list (list T)) (r c : nat) (x : T) : list (list T) :=
  upd r (upd c x (nth r M [])) M.
Definition sym2dense (n : nat) (S : csr) : list (list T) :=
  fold_left (fun M i =>
               fold_left (fun M (e : ent) =>
                            if Nat.leb (fst e) i then dset (dset M i (fst e) (snd e)) (fst e) i (snd e) else M)
                         (row S i) M)
            (seq 0 n) (dzero n n).

(* mju_addToSymSparse: res[i][j] += val, and res[j][i] += val if flg_upper and j < i *)
Definition daddAt (M : list (list T)) (r c : nat) (x : T) : list (list T) := dset M r c (dget M r c + x).
Definition addToSymSparse (n : nat) (S : csr) (upper : bool) (M0 : list (list T)) : list (list T) :=
  fold_left (fun M i =>
               fold_left (fun M (e : ent) =>
                            let M1 := daddAt M i (fst e) (snd e) in
                            if upper && Nat.ltb (fst e) i then daddAt M1 (fst e) i (snd e) else M1)
                         (row S i) M)
            (seq 0 n) M0.

(* ---------------------------------------------------------------- mju_combineSparse(Count) *)
(* forward two-pointer count of common indices *)
Fixpoint common_count (a : list nat) : list nat -> nat :=
  fix aux (b : list nat) : nat :=
    match a, b with
    | ia :: a', ib :: b' =>
        if Nat.eqb ia ib then S (common_count a' b')
        else if Nat.ltb ia ib then common_count a' b
        else aux b'
    | _, _ => 0
    end.
Definition combineSparseCount (a b : list nat) : nat := length a + length b - common_count a b.

(* the merge runs BACKWARDS over both vectors (largest index first) and writes the result from the
   back of dst: d and s are the reversed entry lists, the result is reversed too.
   (The identical-pattern shortcut mju_addToSclScl computes res*a + vec*b entrywise, which is the
   same value as the first arm below; the `a != 1` test only skips a multiplication by one.) *)
Fixpoint merge_back (a b : T) (d : list ent) : list ent -> list ent :=
  fix aux (s : list ent) : list ent :=
    match d, s with
    | [], _ => map (fun e : ent => (fst e, b * snd e)) s
    | _, [] => map (fun e : ent => (fst e, a * snd e)) d
    | (di, dv) :: d', (si, sv) :: s' =>
        if Nat.eqb di si then (di, a * dv + b * sv) :: merge_back a b d' s'
        else if Nat.ltb si di then (di, a * dv) :: merge_back a b d' s
        else (si, b * sv) :: aux s'
    end.
Definition combineSparse (a b : T) (dst src : list ent) : list ent :=
  rev (merge_back a b (rev dst) (rev src)).

(* mju_addToMatSparse: row-wise combineSparse with a = b = 1, written back at dst's rowadr
   (dst must have room); only the rows and rownnz are modelled *)
Definition addToMatSparse_rows (nr : nat) (D M : csr) : list (list ent) :=
  map (fun r => combineSparse none none (row D r) (row M r)) (seq 0 nr).

(* ---------------------------------------------------------------- mju_compressSparse (IN PLACE) *)
(* one row: k entries starting at adr_old are examined; kept ones are copied down to adr.
   returns (ent, adr, number kept) *)
Fixpoint compress_row (rm : bool) (minval : T) (k adr_old adr : nat) (e : list ent)
  : list ent * nat * nat :=
  match k with
  | O => (e, adr, O)
  | S k' =>
      let x := nth adr_old e (O, nzero) in
      if rm && (nabs (snd x) <=? minval) then compress_row rm minval k' (S adr_old) adr e
      else
        let '(e', adr', n) := compress_row rm minval k' (S adr_old) (S adr) (upd adr x e) in
        (e', adr', S n)
  end.
(* all rows in order; state (ent, adr, new rownnz (reversed), new rowadr (reversed)) *)
Definition compress_step (rm : bool) (minval : T) (S : csr)
           (st : list ent * nat * list nat * list nat) (r : nat) :=
  let '(e, adr, nnzs, adrs) := st in
  let '(e', adr', n) := compress_row rm minval (nth r (c_nnz S) 0) (nth r (c_adr S) 0) adr e in
  (e', adr', (if rm then n else nth r (c_nnz S) 0) :: nnzs, adr :: adrs).
Definition compressSparse (nr : nat) (S : csr) (minval : T) : csr :=
  let rm := nzero <=? minval in
  let '(e, _, nnzs, adrs) := fold_left (compress_step rm minval S) (seq 0 nr) (c_ent S, O, [], []) in
  mkcsr (rev nnzs) (rev adrs) e.
Definition compressSparse_ret (nr : nat) (S : csr) (minval : T) : nat :=
  let S' := compressSparse nr S minval in
  nth (nr - 1) (c_adr S') 0 + nth (nr - 1) (c_nnz S') 0.

(* ---------------------------------------------------------------- mju_transposeSparse *)
(* functional definition of the result: row c of the transpose lists, for r = 0..nr-1 in order,
   the entries of row r with column c, re-labelled with r; the layout is compressed.
   (The C code obtains the same arrays by counting, prefix sums and a cursor scatter; that
   equivalence is tied by correspondence, not proved.) *)
Definition trow (nr : nat) (S : csr) (c : nat) : list ent :=
  flat_map (fun r => map (fun e : ent => (r, snd e)) (filter (fun e : ent => Nat.eqb (fst e) c) (row S r)))
           (seq 0 nr).
Definition transposeSparse (nr nc : nat) (S : csr) : csr :=
  let rs := map (trow nr S) (seq 0 nc) in
  mkcsr (map (@length ent) rs) (psums 0 (map (@length ent) rs)) (concat rs).

(* ---------------------------------------------------------------- gather / scatter *)
Definition gather (vec : list T) (ind : list nat) : list T := map (fun i => nth i vec nzero) ind.
Definition gatherMasked (vec : list T) (ind : list Z) : list T :=
  map (fun i => if (0 <=? i)%Z then nth (Z.to_nat i) vec nzero else nzero) ind.
Definition scatter (res vec : list T) (ind : list nat) : list T :=
  fold_left (fun res p => upd (fst p) (snd p) res) (combine ind vec) res.

(* ---------------------------------------------------------------- band <-> dense *)
(* A band-dense matrix of size ntotal with nsparse = ntotal - ndense banded rows is
   (B, D): B has nsparse rows of nband entries (row i holds the entries (i, i-nband+1 .. i), the
   leading nband-1-min(i,nband-1) slots are unused), D has ndense rows of ntotal entries
   (row i holds columns 0..i, the rest is unused).  The C array is concat B ++ concat D. *)
Definition band_width (nband i : nat) : nat := Nat.min i (nband - 1).
Definition band2Dense_rows (ntotal nband : nat) (B D : list (list T)) : list (list T) :=
  let nsparse := length B in
  map (fun i => let w := band_width nband i in
                repeat nzero (i - w) ++ slice (nband - (w + 1)) (w + 1) (nth i B []) ++ repeat nzero (ntotal - i - 1))
      (seq 0 nsparse) ++
  map (fun i => firstn (i + 1) (nth (i - nsparse) D []) ++ repeat nzero (ntotal - i - 1))
      (seq nsparse (length D)).
Definition symmetrize_upper (n : nat) (M : list (list T)) : list (list T) :=
  map (fun i => map (fun j => if Nat.ltb i j then dget M j i else dget M i j) (seq 0 n)) (seq 0 n).
Definition band2Dense (ntotal nband : nat) (B D : list (list T)) (sym : bool) : list (list T) :=
  let M := band2Dense_rows ntotal nband B D in if sym then symmetrize_upper ntotal M else M.
(* dense2Band overwrites only the used slots of the previous content (B0, D0) *)
Definition dense2Band (ntotal nband : nat) (M : list (list T)) (B0 D0 : list (list T))
  : list (list T) * list (list T) :=
  let nsparse := length B0 in
  (map (fun i => let w := band_width nband i in
                 firstn (nband - (w + 1)) (nth i B0 []) ++ slice (i - w) (w + 1) (nth i M []))
       (seq 0 nsparse),
   map (fun i => firstn (i + 1) (nth i M []) ++ skipn (i + 1) (nth (i - nsparse) D0 []))
       (seq nsparse (length D0))).
(* mju_bandDiag *)
Definition bandDiag (i ntotal nband ndense : nat) : nat :=
  let nsparse := (ntotal - ndense)%nat in
  if Nat.ltb i nsparse then i * nband + nband - 1 else nsparse * nband + (i - nsparse) * ntotal + i.

(* ---------------------------------------------------------------- vector kernels with SIMD twins *)
Definition v_scl (a : list T) (s : T) : list T := map (fun x => x * s) a.
Definition v_add (a b : list T) : list T := map (fun p => fst p + snd p) (combine a b).
Definition v_sub (a b : list T) : list T := map (fun p => fst p - snd p) (combine a b).
Definition v_addToScl (a b : list T) (s : T) : list T := map (fun p => fst p + snd p * s) (combine a b).
Definition v_addToSclScl (a b : list T) (s1 s2 : T) : list T :=
  map (fun p => fst p * s1 + snd p * s2) (combine a b).

End Sparse.

Arguments csr T : clear implicits.
Arguments ent T : clear implicits.
