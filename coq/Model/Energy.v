(* C08: model of the energy computations of MuJoCo and of the joint / tendon spring forces, written once
   over the numeric class Lib/Num.v (R for the theorems, binary64 for the correspondence runs).

     src/engine/engine_sensor.c     : mj_energyPos (gravity, joint springs, tendon springs), mj_energyVel
     src/engine/engine_support.c    : mj_mulM = mju_mulSymVecSparse on the lower-triangular CSR inertia matrix
     src/engine/engine_util_sparse.c: mju_mulSymVecSparse
     src/engine/engine_util_misc.c  : mju_polyForce, mju_polyPotential (polynomial stiffness, mjNPOLY terms)
     src/engine/engine_passive.c    : joint-level and tendon-level spring forces of mj_springdamper

   The inertia matrix is a list of rows; row i holds its strictly-lower entries (column, value) in storage
   order and its diagonal value (stored last in the C arrays).  mju_dot's four-accumulator summation order is
   abstracted into a left fold (equal over R).  Not modelled: flex edge springs, sleep filtering. *)
From Coq Require Import ZArith List Bool.
From MJV Require Import Lib.Num Model.Spatial Model.Kinematics.
Import ListNotations.

(* one CSR row of the lower-triangular inertia matrix: (strictly-lower entries, diagonal) *)
Definition mrow (T : Type) : Type := (list (nat * T) * T)%type.

(* a joint as seen by the spring code *)
Record sjoint (T : Type) := mkSJoint {
  s_type : jtype;
  s_stiff : T;            (* jnt_stiffness *)
  s_poly : list T;        (* jnt_stiffnesspoly, mjNPOLY entries *)
  s_q : list T;           (* qpos slice *)
  s_qs : list T           (* qpos_spring slice *)
}.
Arguments mkSJoint {T}. Arguments s_type {T}. Arguments s_stiff {T}. Arguments s_poly {T}.
Arguments s_q {T}. Arguments s_qs {T}.

Section En.
Context {T : Type} `{NumT T}.
Local Open Scope num_scope.

(* ------------------------------------------------------------------ polynomial springs *)
(* mju_polyForce: res = linear; xpow = 1; for i: xpow *= x; res += poly[i]*xpow *)
Fixpoint polyForceLoop (poly : list T) (x xpow res : T) : T :=
  match poly with
  | [] => res
  | p :: r => let xpow' := xpow * x in polyForceLoop r x xpow' (res + p * xpow')
  end.
Definition polyForce (linear : T) (poly : list T) (x : T) (odd : bool) : T :=
  let x := if odd then nabs x else x in polyForceLoop poly x none linear.

(* mju_polyPotential: res = 0.5*linear*(x*x); xpow = x; for i: xpow *= x; res += poly[i]/(i+3)*(xpow*x) *)
Fixpoint polyPotLoop (poly : list T) (i : Z) (x xpow res : T) : T :=
  match poly with
  | [] => res
  | p :: r => let xpow' := xpow * x in polyPotLoop r (i + 1)%Z x xpow' (res + p / nofZ (i + 3)%Z * (xpow' * x))
  end.
Definition polyPotential (linear : T) (poly : list T) (x : T) (odd : bool) : T :=
  let x := if odd then nabs x else x in polyPotLoop poly 0%Z x x (nhalf * linear * (x * x)).

Definition isZeroL (l : list T) : bool := forallb (fun x => x =? nzero) l.

(* ---- slide / hinge spring: force and potential as functions of qpos *)
Definition springForce1 (k : T) (poly : list T) (q qs : T) : T :=
  let x := q - qs in - x * polyForce k poly x false.
Definition springPot1 (k : T) (poly : list T) (q qs : T) : T :=
  polyPotential k poly (q - qs) false.

(* ---- ball spring (also the rotational part of a free joint).
   force (mj_springdamper): quat = normalize4(qpos); dif = subQuat(quat, qpos_spring); torque = -polyForce(|dif|) dif
   potential (mj_energyPos): dif = subQuat(qpos, qpos_spring) on the raw qpos; polyPotential(|dif|) *)
Definition springForceBall (k : T) (poly : list T) (q qs : quat T) : vec3 T :=
  let dif := subQuat (fst (normalize4 q)) qs in
  scl3 dif (- polyForce k poly (norm3 dif) false).
Definition springPotBall (k : T) (poly : list T) (q qs : quat T) : T :=
  polyPotential k poly (norm3 (subQuat q qs)) false.

(* ---- translational part of a free-joint spring *)
Definition springForceTrans (k : T) (poly : list T) (p ps : vec3 T) : vec3 T :=
  let dif := sub3 p ps in scl3 dif (- polyForce k poly (norm3 dif) false).
Definition springPotTrans (k : T) (poly : list T) (p ps : vec3 T) : T :=
  polyPotential k poly (norm3 (sub3 p ps)) false.

Definition l3 (l : list T) (k : nat) : vec3 T := (nth k l nzero, nth (k + 1) l nzero, nth (k + 2) l nzero).
Definition l4 (l : list T) (k : nat) : quat T :=
  (nth k l nzero, nth (k + 1) l nzero, nth (k + 2) l nzero, nth (k + 3) l nzero).

(* the terms one joint adds to energy[0], in order *)
Definition jointPotTerms (j : sjoint T) : list T :=
  if (s_stiff j =? nzero) && isZeroL (s_poly j) then []
  else match s_type j with
       | JFree => [springPotTrans (s_stiff j) (s_poly j) (l3 (s_q j) 0) (l3 (s_qs j) 0);
                   springPotBall (s_stiff j) (s_poly j) (l4 (s_q j) 3) (l4 (s_qs j) 3)]
       | JBall => [springPotBall (s_stiff j) (s_poly j) (l4 (s_q j) 0) (l4 (s_qs j) 0)]
       | _ => [springPot1 (s_stiff j) (s_poly j) (nth 0 (s_q j) nzero) (nth 0 (s_qs j) nzero)]
       end.

(* the entries one joint writes into qfrc_spring (its dofs), joint-level springs only *)
Definition jointSpringForce (j : sjoint T) : list T :=
  let skip := (s_stiff j =? nzero) && isZeroL (s_poly j) in
  match s_type j with
  | JFree => if skip then [nzero; nzero; nzero; nzero; nzero; nzero]
             else v2l (springForceTrans (s_stiff j) (s_poly j) (l3 (s_q j) 0) (l3 (s_qs j) 0))
                  ++ v2l (springForceBall (s_stiff j) (s_poly j) (l4 (s_q j) 3) (l4 (s_qs j) 3))
  | JBall => if skip then [nzero; nzero; nzero]
             else v2l (springForceBall (s_stiff j) (s_poly j) (l4 (s_q j) 0) (l4 (s_qs j) 0))
  | _ => if skip then [nzero]
         else [springForce1 (s_stiff j) (s_poly j) (nth 0 (s_q j) nzero) (nth 0 (s_qs j) nzero)]
  end.

(* tendon spring: displacement outside the dead band [lower, upper] of tendon_lengthspring *)
Definition tendonDisp (len lower upper : T) : T :=
  if upper <? len then len - upper else if len <? lower then len - lower else nzero.
Definition tendonPot (k : T) (poly : list T) (len lower upper : T) : T :=
  polyPotential k poly (tendonDisp len lower upper) false.
Definition tendonForce (k : T) (poly : list T) (len lower upper : T) : T :=
  let x := tendonDisp len lower upper in - x * polyForce k poly x false.

(* ------------------------------------------------------------------ mj_energyPos *)
(* bodies: (body_mass, xipos) for bodies 1 .. nbody-1; tendons: (stiffness, poly, length, lower, upper) *)
Definition energyPos (grav_on : bool) (gravity : vec3 T) (bodies : list (T * vec3 T))
           (spring_on : bool) (joints : list (sjoint T)) (tendons : list (T * list T * (T * T * T))) : T :=
  let e := if grav_on then fold_left (fun e b => e - fst b * dot3 gravity (snd b)) bodies nzero else nzero in
  let e := if spring_on then fold_left nadd (flat_map jointPotTerms joints) e else e in
  if spring_on then
    fold_left (fun e t => let '(k, poly, (len, lo, up)) := t in e + tendonPot k poly len lo up) tendons e
  else e.

(* ------------------------------------------------------------------ mj_energyVel *)
Fixpoint upd (l : list T) (i : nat) (f : T -> T) : list T :=
  match l, i with
  | x :: r, O => f x :: r
  | x :: r, S k => x :: upd r k f
  | [], _ => []
  end.

(* one iteration of the row loop of mju_mulSymVecSparse; the off-diagonal loop runs from the entry next to
   the diagonal down to the first one, i.e. over the stored entries in reverse *)
Definition rowStep (vec : list T) (i : nat) (row : mrow T) (res : list T) : list T :=
  let res := upd res i (fun _ => snd row * nth i vec nzero) in
  fold_left (fun res e =>
               let '(j, val) := e in
               upd (upd res i (fun r => r + val * nth j vec nzero)) j (fun r => r + val * nth i vec nzero))
            (rev (fst row)) res.

Fixpoint mulSymLoop (vec : list T) (i : nat) (rows : list (mrow T)) (res : list T) : list T :=
  match rows with
  | [] => res
  | row :: r => mulSymLoop vec (S i) r (rowStep vec i row res)
  end.

Definition mulSymVecSparse (rows : list (mrow T)) (vec : list T) : list T :=
  mulSymLoop vec 0 rows (map (fun _ => nzero) rows).

(* energy[1] = 0.5 * mju_dot(M qvel, qvel) *)
Definition energyVel (rows : list (mrow T)) (qvel : list T) : T :=
  nhalf * ndot (mulSymVecSparse rows qvel) qvel.

End En.
