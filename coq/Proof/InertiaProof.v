(* Proofs about Model/Inertia.v over the reals: algebra of the tensor accumulation (parallel axis, order
   independence, positivity of the second-moment form = triangle inequalities), triangle inequalities of every
   primitive formula, and the interface with the (abstract) eigen-decomposition mjuu_eig3. *)
From Coq Require Import ZArith List PrimFloat Reals Lra Lia Psatz Bool Permutation.
From MJV Require Import Lib.Num Lib.NumR Model.Spatial Proof.SpatialProof Model.Inertia.
Import ListNotations.
Open Scope R_scope.

Ltac iR := unfold n3, n4, n5, n6, n8, n12, ntwo in *; num_R.

Lemma sym_ext (a0 a1 a2 a3 a4 a5 b0 b1 b2 b3 b4 b5 : R) :
  a0 = b0 -> a1 = b1 -> a2 = b2 -> a3 = b3 -> a4 = b4 -> a5 = b5 ->
  (a0, a1, a2, a3, a4, a5) = (b0, b1, b2, b3, b4, b5).
Proof. intros; subst; reflexivity. Qed.
Ltac ds s := let a := fresh s "0" in let b := fresh s "1" in let c := fresh s "2" in
             let d := fresh s "3" in let e := fresh s "4" in let f := fresh s "5" in
             destruct s as [[[[[a b] c] d] e] f].

(* ------------------------------------------------------------------------------------------ *)
(* symmetric tensors as quadratic forms *)
Definition qf (J : sym6 R) (v : vec3 R) : R :=
  let '(j0, j1, j2, j3, j4, j5) := J in let '(x, y, z) := v in
  j0 * x * x + j1 * y * y + j2 * z * z + 2 * j3 * x * y + 2 * j4 * x * z + 2 * j5 * y * z.
Definition tr6 (J : sym6 R) : R := let '(j0, j1, j2, _, _, _) := J in j0 + j1 + j2.
(* the second-moment ("covariance") form  v^T (tr(J)/2 I - J) v  =  int (x.v)^2 dm  for an inertia tensor J *)
Definition cov (J : sym6 R) (v : vec3 R) : R := tr6 J / 2 * dot3 v v - qf J v.
(* the symmetric matrix of a 6-vector *)
Definition mat6 (J : sym6 R) : mat3 R :=
  let '(j0, j1, j2, j3, j4, j5) := J in (j0, j3, j4, j3, j1, j5, j4, j5, j2).
Definition diag3 (l : vec3 R) : mat3 R := let '(l0, l1, l2) := l in (l0, 0, 0, 0, l1, 0, 0, 0, l2).
(* physically admissible principal moments *)
Definition triangle (i : vec3 R) : Prop :=
  let '(a, b, c) := i in 0 <= a /\ 0 <= b /\ 0 <= c /\ c <= a + b /\ b <= a + c /\ a <= b + c.

Lemma add6_R (a b : sym6 R) : add6 a b =
  let '(a0, a1, a2, a3, a4, a5) := a in let '(b0, b1, b2, b3, b4, b5) := b in
  (a0 + b0, a1 + b1, a2 + b2, a3 + b3, a4 + b4, a5 + b5).
Proof. reflexivity. Qed.
Lemma cov_add (a b : sym6 R) (v : vec3 R) : cov (add6 a b) v = cov a v + cov b v.
Proof. ds a; ds b; dv v. unfold cov, qf, tr6, add6, dot3. iR. field. Qed.
Lemma cov_zero (v : vec3 R) : cov zero6 v = 0.
Proof. dv v. unfold cov, qf, tr6, zero6, dot3. iR. field. Qed.
Lemma add6_comm (a b : sym6 R) : add6 a b = add6 b a.
Proof. ds a; ds b. unfold add6. iR. apply sym_ext; ring. Qed.
Lemma add6_assoc (a b c : sym6 R) : add6 (add6 a b) c = add6 a (add6 b c).
Proof. ds a; ds b; ds c. unfold add6. iR. apply sym_ext; ring. Qed.
Lemma add6_zero_l (a : sym6 R) : add6 zero6 a = a.
Proof. ds a. unfold add6, zero6. iR. apply sym_ext; ring. Qed.

(* ------------------------------------------------------------------------------------------ *)
(* mjuu_offcenter *)
Lemma offcenter_R (m : R) (v : vec3 R) :
  offcenter m v = let '(x, y, z) := v in
    (m * (y * y + z * z), m * (x * x + z * z), m * (x * x + y * y), - (m * x * y), - (m * x * z), - (m * y * z)).
Proof. dv v. unfold offcenter. iR. apply sym_ext; ring. Qed.
(* it is the matrix m (|v|^2 I - v v^T) *)
Lemma offcenter_qf (m : R) (d v : vec3 R) :
  qf (offcenter m d) v = m * (dot3 d d * dot3 v v - dot3 d v * dot3 d v).
Proof. dv d; dv v. unfold qf, offcenter, dot3. iR. ring. Qed.
Lemma cov_offcenter (m : R) (d v : vec3 R) : cov (offcenter m d) v = m * (dot3 d v * dot3 d v).
Proof. dv d; dv v. unfold cov, qf, tr6, offcenter, dot3. iR. field. Qed.

(* ------------------------------------------------------------------------------------------ *)
(* mjuu_globalinertia computes R diag(l) R^T with R = quat2Mat q *)
Lemma globalinertia_matrix (l : vec3 R) (q : quat R) :
  mat6 (globalinertia l q) = mulMatMat3 (mulMatMat3 (quat2Mat q) (diag3 l)) (transpose3 (quat2Mat q)).
Proof.
  unfold globalinertia. rewrite quat2Mat_is_reg. dq q; dv l.
  unfold quat2Mat_reg, mat6, mulMatMat3, diag3, transpose3. iR. apply mat_ext; ring.
Qed.
(* ... hence, as a quadratic form, sum_k l_k ((R^T v)_k)^2 *)
Lemma globalinertia_qf (l : vec3 R) (q : quat R) (v : vec3 R) :
  qf (globalinertia l q) v =
  let '(w0, w1, w2) := mulMatTVec3 (quat2Mat q) v in let '(l0, l1, l2) := l in l0 * w0 * w0 + l1 * w1 * w1 + l2 * w2 * w2.
Proof.
  unfold globalinertia. rewrite quat2Mat_is_reg. dq q; dv l; dv v.
  unfold quat2Mat_reg, qf, mulMatTVec3. iR. ring.
Qed.
(* second-moment form of a rotated diagonal tensor: for EVERY quaternion (unit or not) it is a combination of
   squares with the coefficients (tr - 2 l_k)/2 *)
Lemma cov_globalinertia (l : vec3 R) (q : quat R) (v : vec3 R) :
  cov (globalinertia l q) v =
  let '(w0, w1, w2) := mulMatTVec3 (quat2Mat q) v in let '(l0, l1, l2) := l in
  (l1 + l2 - l0) / 2 * (w0 * w0) + (l0 + l2 - l1) / 2 * (w1 * w1) + (l0 + l1 - l2) / 2 * (w2 * w2).
Proof.
  unfold globalinertia. rewrite quat2Mat_is_reg. dq q; dv l; dv v.
  unfold quat2Mat_reg, cov, qf, tr6, dot3, mulMatTVec3. iR. field.
Qed.
Lemma cov_globalinertia_nonneg (l : vec3 R) (q : quat R) (v : vec3 R) :
  triangle l -> 0 <= cov (globalinertia l q) v.
Proof.
  intros T. rewrite cov_globalinertia. destruct (mulMatTVec3 (quat2Mat q) v) as [[w0 w1] w2]. dv l.
  unfold triangle in T. destruct T as (A & B & C & D & E & G).
  assert (0 <= w0 * w0) by nra. assert (0 <= w1 * w1) by nra. assert (0 <= w2 * w2) by nra.
  assert (0 <= (l1 + l2 - l0) / 2) by lra. assert (0 <= (l0 + l2 - l1) / 2) by lra. assert (0 <= (l0 + l1 - l2) / 2) by lra.
  repeat apply Rplus_le_le_0_compat; apply Rmult_le_pos; assumption.
Qed.

(* columns of the rotation matrix *)
Definition col3 (m : mat3 R) (k : nat) : vec3 R :=
  let '(m0, m1, m2, m3, m4, m5, m6, m7, m8) := m in
  match k with O => (m0, m3, m6) | S O => (m1, m4, m7) | _ => (m2, m5, m8) end.
Definition nth3 (l : vec3 R) (k : nat) : R := let '(a, b, c) := l in match k with O => a | S O => b | _ => c end.
(* for a unit quaternion, evaluating the forms on the k-th column of R reads off the k-th principal moment *)
Lemma qf_globalinertia_col (l : vec3 R) (q : quat R) (k : nat) : unitq q ->
  qf (globalinertia l q) (col3 (quat2Mat q) k) = nth3 l k.
Proof.
  intros U. rewrite globalinertia_qf. rewrite quat2Mat_is_reg. dq q; dv l.
  unfold unitq, qnorm2 in U. iR.
  assert (U2 : q0 * q0 = 1 - q1 * q1 - q2 * q2 - q3 * q3) by lra.
  destruct k as [|[|k]]; unfold quat2Mat_reg, col3, mulMatTVec3, nth3; iR.
  - transitivity (l0 * ((q0*q0 + q1*q1 + q2*q2 + q3*q3) * (q0*q0 + q1*q1 + q2*q2 + q3*q3)) * ((q0*q0 + q1*q1 + q2*q2 + q3*q3) * (q0*q0 + q1*q1 + q2*q2 + q3*q3))); [ring|].
    rewrite U. ring.
  - transitivity (l1 * ((q0*q0 + q1*q1 + q2*q2 + q3*q3) * (q0*q0 + q1*q1 + q2*q2 + q3*q3)) * ((q0*q0 + q1*q1 + q2*q2 + q3*q3) * (q0*q0 + q1*q1 + q2*q2 + q3*q3))); [ring|].
    rewrite U. ring.
  - transitivity (l2 * ((q0*q0 + q1*q1 + q2*q2 + q3*q3) * (q0*q0 + q1*q1 + q2*q2 + q3*q3)) * ((q0*q0 + q1*q1 + q2*q2 + q3*q3) * (q0*q0 + q1*q1 + q2*q2 + q3*q3))); [ring|].
    rewrite U. ring.
Qed.
Lemma col3_unit (q : quat R) (k : nat) : unitq q -> dot3 (col3 (quat2Mat q) k) (col3 (quat2Mat q) k) = 1.
Proof.
  intros U. rewrite quat2Mat_is_reg. dq q. unfold unitq, qnorm2 in U. iR.
  destruct k as [|[|k]]; unfold quat2Mat_reg, col3, dot3; iR.
  all: transitivity ((q0*q0 + q1*q1 + q2*q2 + q3*q3) * (q0*q0 + q1*q1 + q2*q2 + q3*q3)); [ring | rewrite U; ring].
Qed.
Lemma tr6_globalinertia (l : vec3 R) (q : quat R) : unitq q ->
  tr6 (globalinertia l q) = nth3 l 0 + nth3 l 1 + nth3 l 2.
Proof.
  intros U. unfold globalinertia. rewrite quat2Mat_is_reg. dq q; dv l. unfold unitq, qnorm2 in U.
  unfold quat2Mat_reg, tr6, nth3. iR.
  transitivity ((l0 + l1 + l2) * ((q0*q0 + q1*q1 + q2*q2 + q3*q3) * (q0*q0 + q1*q1 + q2*q2 + q3*q3))); [ring | rewrite U; ring].
Qed.

(* ------------------------------------------------------------------------------------------ *)
(* accumulation over the selected geoms: explicit sums *)
Definition cg_quat (g : cgeom R) : quat R := let '(_, _, q, _) := g in q.
Definition cg_inertia (g : cgeom R) : vec3 R := let '(_, _, _, i) := g in i.

Fixpoint sumM (l : list (cgeom R)) : R := match l with [] => 0 | g :: r => cg_mass g + sumM r end.
Fixpoint sumMP (l : list (cgeom R)) : vec3 R :=
  match l with [] => (0, 0, 0) | g :: r => add3 (scl3 (cg_pos g) (cg_mass g)) (sumMP r) end.
Fixpoint sum6 (l : list (sym6 R)) : sym6 R := match l with [] => zero6 | a :: r => add6 a (sum6 r) end.
Definition sub6 (a b : sym6 R) : sym6 R :=
  let '(a0, a1, a2, a3, a4, a5) := a in let '(b0, b1, b2, b3, b4, b5) := b in
  (a0 - b0, a1 - b1, a2 - b2, a3 - b3, a4 - b4, a5 - b5).
(* tensor of one geom about the point c, in body axes: rotated own tensor + point-mass term *)
Definition tensorAbout (c : vec3 R) (g : cgeom R) : sym6 R :=
  add6 (globalinertia (cg_inertia g) (cg_quat g)) (offcenter (cg_mass g) (sub3 (cg_pos g) c)).

Lemma fold_left_perm {A B : Type} (f : A -> B -> A) :
  (forall (a : A) (x y : B), f (f a x) y = f (f a y) x) ->
  forall l l' : list B, Permutation l l' -> forall a : A, fold_left f l a = fold_left f l' a.
Proof.
  intros C l l' P. induction P; intros a; simpl; auto.
  - rewrite C. reflexivity.
  - rewrite IHP1. apply IHP2.
Qed.

Lemma accMass_sum (l : list (cgeom R)) : accMass l = sumM l.
Proof.
  unfold accMass. iR.
  assert (G : forall (l : list (cgeom R)) (a : R), fold_left (fun s g => s + cg_mass g) l a = a + sumM l).
  { induction l0 as [|g r IH]; intros a; simpl; [ring | rewrite IH; ring]. }
  rewrite G. ring.
Qed.
Lemma accCom_sum (l : list (cgeom R)) : accCom l = sumMP l.
Proof.
  unfold accCom, zero3. iR.
  assert (G : forall (l : list (cgeom R)) (a : vec3 R),
             fold_left (fun (c : vec3 R) (g : cgeom R) => let '(c0, c1, c2) := c in let '(p0, p1, p2) := cg_pos g in
                        (c0 + cg_mass g * p0, c1 + cg_mass g * p1, c2 + cg_mass g * p2)) l a = add3 a (sumMP l)).
  { induction l0 as [|g r IH]; intros a; simpl.
    - dv a. unfold add3. iR. apply vec_ext; ring.
    - rewrite IH. dv a. destruct (cg_pos g) as [[p0 p1] p2]. destruct (sumMP r) as [[s0 s1] s2].
      unfold add3, scl3. iR. apply vec_ext; ring. }
  rewrite G. destruct (sumMP l) as [[s0 s1] s2]. unfold add3. iR. apply vec_ext; ring.
Qed.
Lemma geomTensorAbout_eq (c : vec3 R) (g : cgeom R) (t : sym6 R) :
  (let '(a, b) := geomTensorAbout c g in add6 (add6 t a) b) = add6 t (tensorAbout c g).
Proof.
  destruct g as [[[m p] q] i]. unfold geomTensorAbout, tensorAbout, cg_inertia, cg_quat, cg_mass, cg_pos.
  rewrite add6_assoc. reflexivity.
Qed.
Lemma accInertia_sum (c : vec3 R) (l : list (cgeom R)) : accInertia c l = sum6 (map (tensorAbout c) l).
Proof.
  unfold accInertia.
  assert (G : forall (l : list (cgeom R)) (t : sym6 R),
             fold_left (fun (t : sym6 R) (g : cgeom R) => let '(a, b) := geomTensorAbout c g in add6 (add6 t a) b) l t
             = add6 t (sum6 (map (tensorAbout c) l))).
  { induction l0 as [|g r IH]; intros t; simpl.
    - ds t. unfold add6, zero6. iR. apply sym_ext; ring.
    - rewrite IH, geomTensorAbout_eq, add6_assoc. reflexivity. }
  rewrite G. apply add6_zero_l.
Qed.

(* order independence *)
Lemma sumM_perm (l l' : list (cgeom R)) : Permutation l l' -> sumM l = sumM l'.
Proof. intros P. induction P; simpl; try lra. Qed.
Lemma sumMP_perm (l l' : list (cgeom R)) : Permutation l l' -> sumMP l = sumMP l'.
Proof.
  intros P. induction P; simpl; auto.
  - rewrite IHP. reflexivity.
  - destruct (scl3 (cg_pos x) (cg_mass x)) as [[a0 a1] a2]. destruct (scl3 (cg_pos y) (cg_mass y)) as [[b0 b1] b2].
    destruct (sumMP l) as [[s0 s1] s2]. unfold add3. iR. apply vec_ext; ring.
  - congruence.
Qed.
Lemma sum6_perm (l l' : list (sym6 R)) : Permutation l l' -> sum6 l = sum6 l'.
Proof.
  intros P. induction P; simpl; auto.
  - rewrite IHP. reflexivity.
  - rewrite <- !add6_assoc. rewrite (add6_comm y x). reflexivity.
  - congruence.
Qed.
Lemma inertiaFromSel_perm (l l' : list (cgeom R)) :
  Permutation l l' -> inertiaFromSel l = inertiaFromSel l'.
Proof.
  intros P.
  destruct l as [|a [|b l]].
  - apply Permutation_nil in P. subst. reflexivity.
  - apply Permutation_length_1_inv in P. subst. reflexivity.
  - pose proof (Permutation_length P) as L. destruct l' as [|a' [|b' l']]; try discriminate L.
    unfold inertiaFromSel.
    rewrite !accMass_sum, !accCom_sum. rewrite (sumM_perm _ _ P), (sumMP_perm _ _ P).
    destruct a as [[[? ?] ?] ?]. destruct a' as [[[? ?] ?] ?].
    destruct (_ <? _)%num; [reflexivity|].
    destruct (sumMP (_ :: b' :: l')) as [[c0 c1] c2].
    rewrite !accInertia_sum. erewrite sum6_perm; [reflexivity|]. apply Permutation_map. exact P.
Qed.

(* Steiner / parallel-axis theorem for the aggregate: about the common centre of mass c = (sum m p) / M the accumulated
   tensor is the tensor about the body origin minus the point-mass term of the total mass at c; the first moment
   about c vanishes (c is the centre of mass) *)
Lemma sum_offcenter_shift (l : list (cgeom R)) (c : vec3 R) :
  sum6 (map (tensorAbout c) l) =
  let '(c0, c1, c2) := c in let '(s0, s1, s2) := sumMP l in
  add6 (sub6 (sum6 (map (tensorAbout (0, 0, 0)) l))
             (2 * (c1 * s1 + c2 * s2), 2 * (c0 * s0 + c2 * s2), 2 * (c0 * s0 + c1 * s1),
              - (c0 * s1 + c1 * s0), - (c0 * s2 + c2 * s0), - (c1 * s2 + c2 * s1)))
       (offcenter (sumM l) c).
Proof.
  dv c. induction l as [|g r IH]; simpl.
  - unfold add6, sub6, zero6, offcenter. iR. apply sym_ext; ring.
  - rewrite IH. clear IH. destruct g as [[[m p] q] i]. dv p.
    unfold tensorAbout, cg_inertia, cg_quat, cg_mass, cg_pos.
    destruct (globalinertia i q) as [[[[[g0 g1] g2] g3] g4] g5].
    destruct (sumMP r) as [[s0 s1] s2].
    destruct (sum6 (map _ r)) as [[[[[t0 t1] t2] t3] t4] t5].
    unfold add6, sub6, offcenter, sub3, add3, scl3. iR. apply sym_ext; ring.
Qed.
Lemma steiner (l : list (cgeom R)) : sumM l <> 0 ->
  let M := sumM l in
  let c := scl3 (sumMP l) (/ M) in
  sum6 (map (tensorAbout c) l) = sub6 (sum6 (map (tensorAbout (0, 0, 0)) l)) (offcenter M c).
Proof.
  intros NZ M c. rewrite sum_offcenter_shift. subst c. destruct (sumMP l) as [[s0 s1] s2]. fold M.
  unfold scl3. iR. destruct (sum6 (map _ l)) as [[[[[t0 t1] t2] t3] t4] t5].
  unfold add6, sub6, offcenter. iR. apply sym_ext; field; exact NZ.
Qed.
Lemma first_moment_zero (l : list (cgeom R)) : sumM l <> 0 ->
  let c := scl3 (sumMP l) (/ sumM l) in
  sub3 (sumMP l) (scl3 c (sumM l)) = (0, 0, 0).
Proof.
  intros NZ c. subst c. destruct (sumMP l) as [[s0 s1] s2]. unfold sub3, scl3. iR. apply vec_ext; field; exact NZ.
Qed.

(* the multi-geom formula applied to a single geom gives back that geom (consistency of the two arms) *)
Lemma single_consistent (m : R) (p : vec3 R) (q : quat R) (i : vec3 R) : m <> 0 ->
  let l := [(m, p, q, i)] in
  accMass l = m /\ scl3 (accCom l) (/ accMass l) = p /\ accInertia p l = globalinertia i q.
Proof.
  intros NZ l. subst l. rewrite accMass_sum, accCom_sum, accInertia_sum. simpl. dv p.
  unfold tensorAbout, cg_inertia, cg_quat, cg_mass, cg_pos.
  destruct (globalinertia i q) as [[[[[g0 g1] g2] g3] g4] g5].
  unfold add3, scl3, sub3, offcenter, add6, zero6. iR.
  split; [ring | split; [apply vec_ext; field; lra | apply sym_ext; ring]].
Qed.

(* ------------------------------------------------------------------------------------------ *)
(* positivity: second-moment form of the accumulated tensor *)
Definition cg_ok (g : cgeom R) : Prop := 0 <= cg_mass g /\ triangle (cg_inertia g).

Lemma cov_tensorAbout (c v : vec3 R) (g : cgeom R) : cg_ok g -> 0 <= cov (tensorAbout c g) v.
Proof.
  intros [M T]. unfold tensorAbout. rewrite cov_add, cov_offcenter.
  pose proof (cov_globalinertia_nonneg (cg_inertia g) (cg_quat g) v T).
  assert (0 <= cg_mass g * (dot3 (sub3 (cg_pos g) c) v * dot3 (sub3 (cg_pos g) c) v)) by (apply Rmult_le_pos; [assumption | nra]).
  lra.
Qed.
Lemma cov_sum6 (c v : vec3 R) (l : list (cgeom R)) : Forall cg_ok l -> 0 <= cov (sum6 (map (tensorAbout c) l)) v.
Proof.
  induction 1; simpl.
  - rewrite cov_zero. lra.
  - rewrite cov_add. pose proof (cov_tensorAbout c v x H). lra.
Qed.
Lemma cov_accInertia (c v : vec3 R) (l : list (cgeom R)) : Forall cg_ok l -> 0 <= cov (accInertia c l) v.
Proof. intros. rewrite accInertia_sum. apply cov_sum6; assumption. Qed.

(* positive semi-definiteness *)
Lemma qf_tensorAbout (c v : vec3 R) (g : cgeom R) : cg_ok g -> 0 <= qf (tensorAbout c g) v.
Proof.
  intros [M T]. unfold tensorAbout.
  assert (A : forall a b : sym6 R, qf (add6 a b) v = qf a v + qf b v).
  { intros a b. ds a; ds b; dv v. unfold qf, add6. iR. ring. }
  rewrite A, offcenter_qf, globalinertia_qf.
  destruct (mulMatTVec3 _ v) as [[w0 w1] w2]. destruct (cg_inertia g) as [[l0 l1] l2].
  destruct T as (T0 & T1 & T2 & _).
  assert (0 <= l0 * w0 * w0) by (rewrite Rmult_assoc; apply Rmult_le_pos; nra).
  assert (0 <= l1 * w1 * w1) by (rewrite Rmult_assoc; apply Rmult_le_pos; nra).
  assert (0 <= l2 * w2 * w2) by (rewrite Rmult_assoc; apply Rmult_le_pos; nra).
  set (d := sub3 (cg_pos g) c). dv d; dv v. unfold dot3. iR.
  assert (0 <= (d0 * d0 + d1 * d1 + d2 * d2) * (v0 * v0 + v1 * v1 + v2 * v2) - (d0 * v0 + d1 * v1 + d2 * v2) * (d0 * v0 + d1 * v1 + d2 * v2)).
  { replace (_ - _) with ((d0 * v1 - d1 * v0) * (d0 * v1 - d1 * v0) + (d0 * v2 - d2 * v0) * (d0 * v2 - d2 * v0) + (d1 * v2 - d2 * v1) * (d1 * v2 - d2 * v1)) by ring.
    repeat apply Rplus_le_le_0_compat; apply Rle_0_sqr. }
  assert (0 <= cg_mass g * ((d0 * d0 + d1 * d1 + d2 * d2) * (v0 * v0 + v1 * v1 + v2 * v2) - (d0 * v0 + d1 * v1 + d2 * v2) * (d0 * v0 + d1 * v1 + d2 * v2))) by (apply Rmult_le_pos; assumption).
  lra.
Qed.
Lemma qf_accInertia (c v : vec3 R) (l : list (cgeom R)) : Forall cg_ok l -> 0 <= qf (accInertia c l) v.
Proof.
  intros F. rewrite accInertia_sum. induction F; simpl.
  - dv v. unfold qf, zero6. iR. lra.
  - assert (A : forall a b : sym6 R, qf (add6 a b) v = qf a v + qf b v).
    { intros a b. ds a; ds b; dv v. unfold qf, add6. iR. ring. }
    rewrite A. pose proof (qf_tensorAbout c v x H). lra.
Qed.

(* a tensor with non-negative forms that is diagonalised by a unit quaternion has admissible principal moments *)
Lemma triangle_of_forms (J : sym6 R) (lam : vec3 R) (q : quat R) :
  unitq q -> globalinertia lam q = J ->
  (forall v : vec3 R, 0 <= qf J v) -> (forall v : vec3 R, 0 <= cov J v) -> triangle lam.
Proof.
  intros U E PSD COV. subst J.
  pose proof (qf_globalinertia_col lam q 0 U) as Q0. pose proof (qf_globalinertia_col lam q 1 U) as Q1.
  pose proof (qf_globalinertia_col lam q 2 U) as Q2.
  pose proof (PSD (col3 (quat2Mat q) 0)) as P0. pose proof (PSD (col3 (quat2Mat q) 1)) as P1. pose proof (PSD (col3 (quat2Mat q) 2)) as P2.
  pose proof (COV (col3 (quat2Mat q) 0)) as C0. pose proof (COV (col3 (quat2Mat q) 1)) as C1. pose proof (COV (col3 (quat2Mat q) 2)) as C2.
  unfold cov in C0, C1, C2. rewrite (col3_unit q 0 U), (tr6_globalinertia lam q U) in C0.
  rewrite (col3_unit q 1 U), (tr6_globalinertia lam q U) in C1. rewrite (col3_unit q 2 U), (tr6_globalinertia lam q U) in C2.
  rewrite Q0 in *. rewrite Q1 in *. rewrite Q2 in *. dv lam. unfold nth3 in *. unfold triangle. lra.
Qed.

(* ------------------------------------------------------------------------------------------ *)
(* every primitive formula gives admissible principal moments *)
Definition sizeOK (ty : gtype) (size : vec3 R) : Prop :=
  let '(a, b, c) := size in
  match ty with
  | GSphere => 0 < a
  | GCapsule | GCylinder => 0 < a /\ 0 < b
  | GEllipsoid | GBox => 0 < a /\ 0 < b /\ 0 < c
  end.

Lemma pos_mul3 (m x y : R) : 0 <= m -> 0 <= x -> 0 <= y -> 0 <= m * (x * y).
Proof. intros. apply Rmult_le_pos; [assumption | apply Rmult_le_pos; assumption]. Qed.
Lemma frac_bounds (m a b : R) : 0 <= m -> 0 <= a -> 0 < a + b -> 0 <= b -> 0 <= m * a / (a + b) <= m.
Proof.
  intros Hm Ha Hab Hb. split.
  - unfold Rdiv. apply Rle_mult_inv_pos; [apply Rmult_le_pos; assumption | assumption].
  - assert (E : m - m * a / (a + b) = m * b / (a + b)) by (field; lra).
    assert (0 <= m * b / (a + b)) by (unfold Rdiv; apply Rle_mult_inv_pos; [apply Rmult_le_pos; assumption | assumption]).
    lra.
Qed.

Lemma tri_sphere (shell : bool) (m : R) (size : vec3 R) : 0 <= m -> sizeOK GSphere size ->
  triangle (inertiaSphere shell m size).
Proof.
  destruct size as [[a b] c]. simpl. intros Hm Ha. unfold inertiaSphere.
  pose proof (pos_mul3 m a a Hm (Rlt_le _ _ Ha) (Rlt_le _ _ Ha)) as P.
  destruct shell; iR; unfold triangle; repeat split; nra.
Qed.

Lemma tri_box_solid (m : R) (size : vec3 R) : 0 <= m -> sizeOK GBox size -> triangle (inertiaBox false m size).
Proof.
  destruct size as [[a b] c]. simpl. intros Hm (Ha & Hb & Hc). unfold inertiaBox. iR.
  pose proof (pos_mul3 m a a Hm (Rlt_le _ _ Ha) (Rlt_le _ _ Ha)).
  pose proof (pos_mul3 m b b Hm (Rlt_le _ _ Hb) (Rlt_le _ _ Hb)).
  pose proof (pos_mul3 m c c Hm (Rlt_le _ _ Hc) (Rlt_le _ _ Hc)).
  unfold triangle; repeat split; nra.
Qed.

Lemma tri_ellipsoid_solid (m : R) (size : vec3 R) : 0 <= m -> sizeOK GEllipsoid size -> triangle (inertiaEllipsoidSolid m size).
Proof.
  destruct size as [[a b] c]. simpl. intros Hm (Ha & Hb & Hc). unfold inertiaEllipsoidSolid. iR.
  pose proof (pos_mul3 m a a Hm (Rlt_le _ _ Ha) (Rlt_le _ _ Ha)).
  pose proof (pos_mul3 m b b Hm (Rlt_le _ _ Hb) (Rlt_le _ _ Hb)).
  pose proof (pos_mul3 m c c Hm (Rlt_le _ _ Hc) (Rlt_le _ _ Hc)).
  unfold triangle; repeat split; nra.
Qed.

Lemma tri_cylinder_solid (m : R) (size : vec3 R) : 0 <= m -> sizeOK GCylinder size -> triangle (inertiaCylinderSolid m size).
Proof.
  destruct size as [[r hh] c]. simpl. intros Hm (Hr & Hh). unfold inertiaCylinderSolid. iR.
  pose proof (pos_mul3 m r r Hm (Rlt_le _ _ Hr) (Rlt_le _ _ Hr)).
  pose proof (pos_mul3 m hh hh Hm (Rlt_le _ _ Hh) (Rlt_le _ _ Hh)).
  unfold triangle; repeat split; nra.
Qed.

Lemma tri_capsule_solid (m : R) (size : vec3 R) : 0 <= m -> sizeOK GCapsule size -> triangle (inertiaCapsuleSolid m size).
Proof.
  destruct size as [[r hh] c]. simpl. intros Hm (Hr & Hh). unfold inertiaCapsuleSolid. iR.
  replace (m * 4 * r / (4 * r + 3 * (2 * hh))) with (m * (4 * r) / (4 * r + 3 * (2 * hh))) by (unfold Rdiv; ring).
  destruct (frac_bounds m (4 * r) (3 * (2 * hh)) Hm ltac:(lra) ltac:(lra) ltac:(lra)) as [S0 S1].
  set (sm := m * (4 * r) / (4 * r + 3 * (2 * hh))) in *. clearbody sm.
  assert (Hc : 0 <= m - sm) by lra. set (cm := m - sm) in *. clearbody cm.
  pose proof (pos_mul3 cm r r Hc (Rlt_le _ _ Hr) (Rlt_le _ _ Hr)).
  pose proof (pos_mul3 cm hh hh Hc (Rlt_le _ _ Hh) (Rlt_le _ _ Hh)).
  pose proof (pos_mul3 sm r r S0 (Rlt_le _ _ Hr) (Rlt_le _ _ Hr)).
  pose proof (pos_mul3 sm hh hh S0 (Rlt_le _ _ Hh) (Rlt_le _ _ Hh)).
  pose proof (pos_mul3 sm hh r S0 (Rlt_le _ _ Hh) (Rlt_le _ _ Hr)).
  unfold triangle; repeat split; nra.
Qed.

Lemma tri_box_shell (m : R) (size : vec3 R) : 0 <= m -> sizeOK GBox size -> triangle (inertiaBox true m size).
Proof.
  destruct size as [[a b] c]. simpl. intros Hm (Ha & Hb & Hc). unfold inertiaBox. iR.
  assert (PA : 0 < 2 * a * (2 * b)) by nra. assert (PB : 0 < 2 * b * (2 * c)) by nra. assert (PC : 0 < 2 * c * (2 * a)) by nra.
  set (A0 := 2 * a * (2 * b)) in *. set (A1 := 2 * b * (2 * c)) in *. set (A2 := 2 * c * (2 * a)) in *.
  assert (PT : 0 < 2 * (A0 + A1 + A2)) by lra.
  assert (M0 : 0 <= m * A0 / (2 * (A0 + A1 + A2))) by (unfold Rdiv; apply Rle_mult_inv_pos; [apply Rmult_le_pos; lra | lra]).
  assert (M1 : 0 <= m * A1 / (2 * (A0 + A1 + A2))) by (unfold Rdiv; apply Rle_mult_inv_pos; [apply Rmult_le_pos; lra | lra]).
  assert (M2 : 0 <= m * A2 / (2 * (A0 + A1 + A2))) by (unfold Rdiv; apply Rle_mult_inv_pos; [apply Rmult_le_pos; lra | lra]).
  set (m0 := m * A0 / (2 * (A0 + A1 + A2))) in *. set (m1 := m * A1 / (2 * (A0 + A1 + A2))) in *.
  set (m2 := m * A2 / (2 * (A0 + A1 + A2))) in *. clearbody m0 m1 m2. clearbody A0 A1 A2.
  pose proof (pos_mul3 m0 a a M0 (Rlt_le _ _ Ha) (Rlt_le _ _ Ha)). pose proof (pos_mul3 m0 b b M0 (Rlt_le _ _ Hb) (Rlt_le _ _ Hb)).
  pose proof (pos_mul3 m0 c c M0 (Rlt_le _ _ Hc) (Rlt_le _ _ Hc)).
  pose proof (pos_mul3 m1 a a M1 (Rlt_le _ _ Ha) (Rlt_le _ _ Ha)). pose proof (pos_mul3 m1 b b M1 (Rlt_le _ _ Hb) (Rlt_le _ _ Hb)).
  pose proof (pos_mul3 m1 c c M1 (Rlt_le _ _ Hc) (Rlt_le _ _ Hc)).
  pose proof (pos_mul3 m2 a a M2 (Rlt_le _ _ Ha) (Rlt_le _ _ Ha)). pose proof (pos_mul3 m2 b b M2 (Rlt_le _ _ Hb) (Rlt_le _ _ Hb)).
  pose proof (pos_mul3 m2 c c M2 (Rlt_le _ _ Hc) (Rlt_le _ _ Hc)).
  unfold triangle; repeat split; nra.
Qed.

Lemma tri_capsule_shell (m : R) (size : vec3 R) : 0 <= m -> sizeOK GCapsule size -> triangle (inertiaCapsuleShell PI m size).
Proof.
  destruct size as [[r hh] c]. simpl. intros Hm (Hr & Hh). unfold inertiaCapsuleShell. iR.
  pose proof PI_RGT_0 as HPI.
  assert (PA : 0 < 4 * PI * r * r) by (assert (0 < PI * r) by nra; nra).
  assert (PB : 0 < 2 * PI * r * (2 * hh)) by (assert (0 < PI * r) by nra; nra).
  destruct (frac_bounds m (4 * PI * r * r) (2 * PI * r * (2 * hh)) Hm ltac:(lra) ltac:(lra) ltac:(lra)) as [S0 S1].
  set (sm := m * (4 * PI * r * r) / (4 * PI * r * r + 2 * PI * r * (2 * hh))) in *. clearbody sm.
  assert (Hc : 0 <= m - sm) by lra. set (cm := m - sm) in *. clearbody cm.
  pose proof (pos_mul3 cm r r Hc (Rlt_le _ _ Hr) (Rlt_le _ _ Hr)).
  pose proof (pos_mul3 cm hh hh Hc (Rlt_le _ _ Hh) (Rlt_le _ _ Hh)).
  pose proof (pos_mul3 sm r r S0 (Rlt_le _ _ Hr) (Rlt_le _ _ Hr)).
  pose proof (pos_mul3 sm hh hh S0 (Rlt_le _ _ Hh) (Rlt_le _ _ Hh)).
  pose proof (pos_mul3 sm hh r S0 (Rlt_le _ _ Hh) (Rlt_le _ _ Hr)).
  unfold triangle; repeat split; nra.
Qed.

Lemma tri_cylinder_shell (m : R) (size : vec3 R) : 0 <= m -> sizeOK GCylinder size -> triangle (inertiaCylinderShell PI m size).
Proof.
  destruct size as [[r hh] c]. simpl. intros Hm (Hr & Hh). unfold inertiaCylinderShell. iR.
  pose proof PI_RGT_0 as HPI.
  assert (PA : 0 < PI * r * r) by (assert (0 < PI * r) by nra; nra).
  assert (PB : 0 < 2 * PI * r * (2 * hh)) by (assert (0 < PI * r) by nra; nra).
  replace (2 * (PI * r * r) + 2 * PI * r * (2 * hh)) with (PI * r * r + (PI * r * r + 2 * PI * r * (2 * hh))) by ring.
  destruct (frac_bounds m (PI * r * r) (PI * r * r + 2 * PI * r * (2 * hh)) Hm ltac:(lra) ltac:(lra) ltac:(lra)) as [S0 S1].
  assert (S2 : 0 <= m - 2 * (m * (PI * r * r) / (PI * r * r + (PI * r * r + 2 * PI * r * (2 * hh))))).
  { assert (E : m - 2 * (m * (PI * r * r) / (PI * r * r + (PI * r * r + 2 * PI * r * (2 * hh))))
                = m * (2 * PI * r * (2 * hh)) / (PI * r * r + (PI * r * r + 2 * PI * r * (2 * hh)))) by (field; lra).
    rewrite E. unfold Rdiv. apply Rle_mult_inv_pos; [apply Rmult_le_pos; lra | lra]. }
  set (md := m * (PI * r * r) / (PI * r * r + (PI * r * r + 2 * PI * r * (2 * hh)))) in *. clearbody md.
  set (mc := m - 2 * md) in *. clearbody mc.
  pose proof (pos_mul3 mc r r S2 (Rlt_le _ _ Hr) (Rlt_le _ _ Hr)).
  pose proof (pos_mul3 mc hh hh S2 (Rlt_le _ _ Hh) (Rlt_le _ _ Hh)).
  pose proof (pos_mul3 md r r S0 (Rlt_le _ _ Hr) (Rlt_le _ _ Hr)).
  pose proof (pos_mul3 md hh hh S0 (Rlt_le _ _ Hh) (Rlt_le _ _ Hh)).
  unfold triangle; repeat split; nra.
Qed.

Lemma tri_ellipsoid_shell (m : R) (size : vec3 R) : 0 <= m -> sizeOK GEllipsoid size -> triangle (inertiaEllipsoidShell PI m size).
Proof.
  destruct size as [[a b] c]. simpl. intros Hm (Ha & Hb & Hc). unfold inertiaEllipsoidShell. iR.
  pose proof PI_RGT_0 as HPI.
  assert (He : 0 < 1e-6) by lra.
  set (e := 1e-6) in *. clearbody e.
  assert (Pab : 0 < a * b) by nra. assert (Pabc : 0 < a * b * c) by nra.
  assert (Qab : a * b < (a + e) * (b + e)) by nra.
  assert (Qabc : a * b * c < (a + e) * (b + e) * (c + e)) by nra.
  assert (PVa : 0 < 4 * PI * a * b * c / 3).
  { replace (4 * PI * a * b * c / 3) with (4 / 3 * PI * (a * b * c)) by field. nra. }
  assert (DV : 4 * PI * (a + e) * (b + e) * (c + e) / 3 - 4 * PI * a * b * c / 3 = 4 / 3 * PI * ((a + e) * (b + e) * (c + e) - a * b * c)) by field.
  assert (PD : 0 < 4 * PI * (a + e) * (b + e) * (c + e) / 3 - 4 * PI * a * b * c / 3) by (rewrite DV; nra).
  set (Va := 4 * PI * a * b * c / 3) in *. set (Vb := 4 * PI * (a + e) * (b + e) * (c + e) / 3) in *. clearbody Va Vb.
  assert (Dn : 0 <= m / (Vb - Va)) by (unfold Rdiv; apply Rle_mult_inv_pos; assumption).
  assert (E : Vb * (m / (Vb - Va)) - Va * (m / (Vb - Va)) = m) by (field; lra).
  set (dn := m / (Vb - Va)) in *. clearbody dn.
  assert (Ma : 0 <= Va * dn) by (apply Rmult_le_pos; lra).
  set (ma := Va * dn) in *. set (mb := Vb * dn) in *. clearbody ma mb.
  assert (Mb : ma <= mb) by lra.
  assert (Sa : a * a <= (a + e) * (a + e)) by nra. assert (Sb : b * b <= (b + e) * (b + e)) by nra.
  assert (Sc : c * c <= (c + e) * (c + e)) by nra.
  set (ae2 := (a + e) * (a + e)) in *. set (be2 := (b + e) * (b + e)) in *. set (ce2 := (c + e) * (c + e)) in *.
  assert (0 <= a * a) by nra. assert (0 <= b * b) by nra. assert (0 <= c * c) by nra.
  set (a2 := a * a) in *. set (b2 := b * b) in *. set (c2 := c * c) in *. clearbody ae2 be2 ce2 a2 b2 c2.
  assert (Ka : ma * a2 <= mb * ae2) by (apply Rmult_le_compat; lra).
  assert (Kb : ma * b2 <= mb * be2) by (apply Rmult_le_compat; lra).
  assert (Kc : ma * c2 <= mb * ce2) by (apply Rmult_le_compat; lra).
  clear - Ka Kb Kc.
  set (x1 := ma * a2) in *. set (x2 := ma * b2) in *. set (x3 := ma * c2) in *.
  set (y1 := mb * ae2) in *. set (y2 := mb * be2) in *. set (y3 := mb * ce2) in *.
  replace (mb * (be2 + ce2) / 5 - ma * (b2 + c2) / 5) with ((y2 + y3 - x2 - x3) / 5) by (unfold x2, x3, y2, y3; field).
  replace (mb * (ae2 + ce2) / 5 - ma * (a2 + c2) / 5) with ((y1 + y3 - x1 - x3) / 5) by (unfold x1, x3, y1, y3; field).
  replace (mb * (ae2 + be2) / 5 - ma * (a2 + b2) / 5) with ((y1 + y2 - x1 - x2) / 5) by (unfold x1, x2, y1, y2; field).
  clearbody x1 x2 x3 y1 y2 y3. unfold triangle; repeat split; lra.
Qed.

Lemma geomInertia_triangle (ty : gtype) (shell : bool) (m : R) (size : vec3 R) :
  0 <= m -> sizeOK ty size -> triangle (geomInertia ty shell m size).
Proof.
  intros Hm S. unfold geomInertia, geomInertiaPi. num_R.
  destruct ty; destruct shell.
  - apply tri_sphere; assumption.
  - apply tri_sphere; assumption.
  - apply tri_capsule_shell; assumption.
  - apply tri_capsule_solid; assumption.
  - apply tri_cylinder_shell; assumption.
  - apply tri_cylinder_solid; assumption.
  - apply tri_ellipsoid_shell; assumption.
  - apply tri_ellipsoid_solid; assumption.
  - apply tri_box_shell; assumption.
  - apply tri_box_solid; assumption.
Qed.

Lemma triangle_zero : triangle (zero3 (T:=R)).
Proof. unfold zero3, triangle. num_R. lra. Qed.

(* a geom that compiles has non-negative mass and admissible principal moments *)
Lemma geomCompile_ok (g : geom R) (c : cgeom R) :
  sizeOK (g_type g) (g_size g) -> geomCompile g = Some c -> cg_ok c.
Proof.
  intros S. unfold geomCompile.
  set (vol := geomVolume (g_type g) (g_shell g) (g_size g)).
  destruct (match g_mass g with Some m => _ | None => _ end) as [[mass_ inertia] density] eqn:EM.
  destruct inertia as [[i0 i1] i2].
  destruct (_ || _)%bool eqn:B; [discriminate|]. intros E. inversion E; subst c. clear E.
  repeat (apply orb_false_iff in B; destruct B as [B ?]). num_R. apply Rltb_false in B.
  unfold cg_ok, cg_mass, cg_inertia. split; [assumption|].
  assert (Z : forall d : R, (nzero, zero3, d) = (mass_, (i0, i1, i2), density) -> triangle (i0, i1, i2)).
  { intros d E. inversion E. apply triangle_zero. }
  assert (K : forall m d : R, (m, geomInertia (g_type g) (g_shell g) m (g_size g), d) = (mass_, (i0, i1, i2), density) -> triangle (i0, i1, i2)).
  { intros m d E. inversion E. subst m. apply geomInertia_triangle; assumption. }
  revert EM. destruct (g_mass g) as [m|].
  - destruct (Reqb m 0); [apply Z|]. destruct (Rltb mjEPS vol); [apply K | apply Z].
  - destruct (Reqb (g_density g) 0); [apply Z | apply K].
Qed.

Lemma compileGeoms_ok (l : list (geom R)) (cs : list (cgeom R)) :
  Forall (fun g => sizeOK (g_type g) (g_size g)) l -> compileGeoms l = Some cs -> Forall cg_ok cs.
Proof.
  revert cs. induction l as [|g r IH]; intros cs F; simpl.
  - intros E. inversion E. constructor.
  - inversion F; subst. destruct (geomCompile g) as [c|] eqn:EC; [|discriminate].
    destruct (compileGeoms r) as [cr|] eqn:ER; [|discriminate]. intros E. inversion E; subst.
    constructor; [eapply geomCompile_ok; eassumption | apply IH; auto].
Qed.

Lemma inertiaFromSel_multi (a b : cgeom R) (sel : list (cgeom R)) :
  let l := a :: b :: sel in
  inertiaFromSel l =
  if (accMass l <? mjEPS)%num then None
  else let '(c0, c1, c2) := accCom l in
       Some (Some (IFull (accMass l) ((c0 / accMass l)%num, (c1 / accMass l)%num, (c2 / accMass l)%num)
                         (accInertia ((c0 / accMass l)%num, (c1 / accMass l)%num, (c2 / accMass l)%num) l))).
Proof. destruct a as [[[? ?] ?] ?]. reflexivity. Qed.

(* ------------------------------------------------------------------------------------------ *)
(* The stored representation.  mjuu_fullInertia / mjuu_eig3 (Jacobi iteration on a quaternion) is not modelled:
   its contract is a hypothesis.  NOTE: the real routine meets the contract only approximately (its loop stops when the
   rotation angle is below ~1.4e-6 rad or the largest off-diagonal entry is below 1e-12 in absolute value); the harness
   measures this on every run. *)
Section Eig3.
Variable eig3 : sym6 R -> quat R * vec3 R.
Definition eig3_contract : Prop :=
  forall J : sym6 R, let '(q, lam) := eig3 J in unitq q /\ globalinertia lam q = J.
Hypothesis eig3_ok : eig3_contract.

(* (body_iquat, body_inertia) *)
Definition stored (i : inertial R) : quat R * vec3 R :=
  match i with IDiag _ _ q d => (q, d) | IFull _ _ f => eig3 f end.

Lemma stored_reconstructs (i : inertial R) :
  let '(q, d) := stored i in globalinertia d q = inertialFull i.
Proof.
  destruct i as [m p q d | m p f]; simpl; [reflexivity|].
  pose proof (eig3_ok f) as C. destruct (eig3 f) as [q lam]. apply C.
Qed.
Lemma stored_reconstructs_matrix (i : inertial R) :
  let '(q, d) := stored i in
  mulMatMat3 (mulMatMat3 (quat2Mat q) (diag3 d)) (transpose3 (quat2Mat q)) = mat6 (inertialFull i).
Proof.
  pose proof (stored_reconstructs i) as S. destruct (stored i) as [q d]. rewrite <- S. symmetry. apply globalinertia_matrix.
Qed.

(* body inferred from geoms with valid sizes: the stored diagonal inertia is admissible *)
Lemma body_triangle (glo ghi : Z) (geoms : list (geom R)) (i : inertial R) :
  Forall (fun g => sizeOK (g_type g) (g_size g)) geoms ->
  bodyInertial glo ghi geoms = Some (Some i) -> triangle (snd (stored i)).
Proof.
  intros F. unfold bodyInertial.
  destruct (compileGeoms (filter (inGroup glo ghi) geoms)) as [cs|] eqn:EC; [|discriminate].
  assert (OK : Forall cg_ok cs).
  { eapply compileGeoms_ok; [|exact EC]. apply Forall_forall. intros g Hg. apply filter_In in Hg.
    rewrite Forall_forall in F. apply F. tauto. }
  assert (OKs : Forall cg_ok (filter (fun c : cgeom R => (mjEPS <? cg_mass c)%num) cs)).
  { apply Forall_forall. intros g Hg. apply filter_In in Hg. rewrite Forall_forall in OK. apply OK. tauto. }
  set (sel := filter _ cs) in *. clearbody sel.
  destruct sel as [|a [|b sel]].
  - discriminate.
  - destruct a as [[[m p] q] d]. intros E. inversion E; subst. simpl. inversion OKs; subst.
    destruct H1 as [_ T]. exact T.
  - rewrite inertiaFromSel_multi. set (l := a :: b :: sel) in *. intros E.
    destruct (accMass l <? mjEPS)%num; [discriminate|]. destruct (accCom l) as [[c0 c1] c2].
    inversion E; subst. simpl.
    pose proof (eig3_ok (accInertia ((c0 / accMass l)%num, (c1 / accMass l)%num, (c2 / accMass l)%num) l)) as C.
    destruct (eig3 _) as [q lam]. destruct C as [U G]. simpl.
    eapply triangle_of_forms; [exact U | exact G | |].
    + intros v. apply qf_accInertia. exact OKs.
    + intros v. apply cov_accInertia. exact OKs.
Qed.
End Eig3.

(* ------------------------------------------------------------------------------------------ *)
(* pointwise versions (no global eig3 function): any unit quaternion and diagonal that reconstruct the body's tensor *)
Lemma qf_globalinertia_nonneg (l : vec3 R) (q : quat R) (v : vec3 R) : triangle l -> 0 <= qf (globalinertia l q) v.
Proof.
  intros T. rewrite globalinertia_qf. destruct (mulMatTVec3 (quat2Mat q) v) as [[w0 w1] w2]. dv l.
  destruct T as (T0 & T1 & T2 & _).
  assert (0 <= l0 * w0 * w0) by (rewrite Rmult_assoc; apply Rmult_le_pos; nra).
  assert (0 <= l1 * w1 * w1) by (rewrite Rmult_assoc; apply Rmult_le_pos; nra).
  assert (0 <= l2 * w2 * w2) by (rewrite Rmult_assoc; apply Rmult_le_pos; nra).
  lra.
Qed.
Lemma body_forms (glo ghi : Z) (geoms : list (geom R)) (i : inertial R) :
  Forall (fun g => sizeOK (g_type g) (g_size g)) geoms ->
  bodyInertial glo ghi geoms = Some (Some i) ->
  forall v : vec3 R, 0 <= qf (inertialFull i) v /\ 0 <= cov (inertialFull i) v.
Proof.
  intros F. unfold bodyInertial.
  destruct (compileGeoms (filter (inGroup glo ghi) geoms)) as [cs|] eqn:EC; [|discriminate].
  assert (OK : Forall cg_ok cs).
  { eapply compileGeoms_ok; [|exact EC]. apply Forall_forall. intros g Hg. apply filter_In in Hg.
    rewrite Forall_forall in F. apply F. tauto. }
  assert (OKs : Forall cg_ok (filter (fun c : cgeom R => (mjEPS <? cg_mass c)%num) cs)).
  { apply Forall_forall. intros g Hg. apply filter_In in Hg. rewrite Forall_forall in OK. apply OK. tauto. }
  set (sel := filter _ cs) in *. clearbody sel.
  destruct sel as [|a [|b sel]].
  - discriminate.
  - destruct a as [[[m p] q] d]. intros E v. inversion E; subst. simpl. inversion OKs; subst.
    destruct H1 as [_ T]. unfold cg_inertia in T.
    split; [apply qf_globalinertia_nonneg | apply cov_globalinertia_nonneg]; exact T.
  - rewrite inertiaFromSel_multi. set (l := a :: b :: sel) in *. intros E v.
    destruct (accMass l <? mjEPS)%num; [discriminate|]. destruct (accCom l) as [[c0 c1] c2].
    inversion E; subst. simpl. split; [apply qf_accInertia | apply cov_accInertia]; exact OKs.
Qed.
Lemma body_triangle_pt (glo ghi : Z) (geoms : list (geom R)) (i : inertial R) (q : quat R) (lam : vec3 R) :
  Forall (fun g => sizeOK (g_type g) (g_size g)) geoms ->
  bodyInertial glo ghi geoms = Some (Some i) ->
  unitq q -> globalinertia lam q = inertialFull i -> triangle lam.
Proof.
  intros F E U G. pose proof (body_forms glo ghi geoms i F E) as B.
  eapply triangle_of_forms; [exact U | exact G | intros v; apply B | intros v; apply B].
Qed.

(* ------------------------------------------------------------------------------------------ *)
(* order independence at the level of the body *)
Lemma compileGeoms_perm (l l' : list (geom R)) : Permutation l l' ->
  match compileGeoms l, compileGeoms l' with
  | Some a, Some b => Permutation a b
  | None, None => True
  | _, _ => False
  end.
Proof.
  intros P. induction P; simpl.
  - constructor.
  - destruct (geomCompile x); destruct (compileGeoms l); destruct (compileGeoms l'); auto; try (constructor; assumption).
  - destruct (geomCompile x); destruct (geomCompile y); destruct (compileGeoms l); auto; try constructor.
  - destruct (compileGeoms l); destruct (compileGeoms l'); destruct (compileGeoms l''); try tauto.
    eapply Permutation_trans; eassumption.
Qed.
Lemma filter_perm {A : Type} (f : A -> bool) (l l' : list A) : Permutation l l' -> Permutation (filter f l) (filter f l').
Proof.
  intros P. induction P; simpl.
  - constructor.
  - destruct (f x); [constructor|]; assumption.
  - destruct (f x); destruct (f y); try constructor; try apply Permutation_refl.
  - eapply Permutation_trans; eassumption.
Qed.
Lemma bodyInertial_perm (glo ghi : Z) (geoms geoms' : list (geom R)) :
  Permutation geoms geoms' -> bodyInertial glo ghi geoms = bodyInertial glo ghi geoms'.
Proof.
  intros P. unfold bodyInertial.
  pose proof (compileGeoms_perm _ _ (filter_perm (inGroup glo ghi) _ _ P)) as C.
  destruct (compileGeoms (filter (inGroup glo ghi) geoms)) as [a|]; destruct (compileGeoms (filter (inGroup glo ghi) geoms')) as [b|]; try tauto.
  apply inertiaFromSel_perm. apply filter_perm. exact C.
Qed.
