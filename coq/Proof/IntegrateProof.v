(* C05: proofs about Model/Integrate.v at the real numbers. *)
From Coq Require Import ZArith List Bool PrimFloat Reals Lra Lia Psatz QArith.
From Coquelicot Require Import Coquelicot.
From MJV Require Import Lib.Num Lib.NumR Model.Integrate Gen.RK4Tableau.
Import ListNotations.
Open Scope R_scope.

Definition MINV : R := Rdec 1 (-15).
Lemma MINV_pos : 0 < MINV.
Proof. unfold MINV, Rdec. simpl. apply Rdiv_lt_0_compat; lra. Qed.
Lemma mjMINVAL_R : mjMINVAL (T:=R) = MINV.
Proof. reflexivity. Qed.

(* ---------------------------------------------------------------- unit vectors / quaternions *)
Definition vnorm2 (v : R * R * R) : R := let '(x, y, z) := v in x * x + y * y + z * z.

Lemma normalize3_unit : forall v : R * R * R, vnorm2 (fst (normalize3 v)) = 1 /\ 0 <= snd (normalize3 v).
Proof.
  intros [[x y] z]. unfold normalize3. num_R. rewrite mjMINVAL_R.
  set (n := sqrt (x * x + y * y + z * z)).
  assert (Hn0 : 0 <= n) by apply sqrt_pos.
  destruct (Rltb n MINV) eqn:E; simpl.
  - split; [ring | auto].
  - apply Rltb_false in E. pose proof MINV_pos.
    assert (Hs : 0 <= x * x + y * y + z * z) by nra.
    assert (Hnn : n * n = x * x + y * y + z * z) by (apply sqrt_sqrt; auto).
    split; auto. field_simplify_eq; [|lra]. nra.
Qed.

Definition near_unit (q : R * R * R * R) : Prop := Rabs (sqrt (qnorm2 q) - 1) <= MINV.

Lemma normalize4_near_unit : forall q : R * R * R * R, near_unit (fst (normalize4 q)).
Proof.
  intros [[[a b] c] d]. unfold normalize4, near_unit. num_R. rewrite mjMINVAL_R.
  set (n := sqrt (a * a + b * b + c * c + d * d)).
  pose proof MINV_pos as HM.
  destruct (Rltb n MINV) eqn:E; simpl.
  - replace (1 * 1 + 0 * 0 + 0 * 0 + 0 * 0) with 1 by ring. rewrite sqrt_1.
    replace (1 - 1) with 0 by ring. rewrite Rabs_R0. lra.
  - apply Rltb_false in E.
    destruct (Rltb MINV (Rabs (n - 1))) eqn:E2; simpl.
    + assert (Hs : 0 <= a * a + b * b + c * c + d * d) by nra.
      assert (Hnn : n * n = a * a + b * b + c * c + d * d) by (apply sqrt_sqrt; auto).
      replace (a * (1 / n) * (a * (1 / n)) + b * (1 / n) * (b * (1 / n)) + c * (1 / n) * (c * (1 / n)) +
               d * (1 / n) * (d * (1 / n))) with 1.
      * rewrite sqrt_1. replace (1 - 1) with 0 by ring. rewrite Rabs_R0. lra.
      * field_simplify_eq; [|lra]. nra.
    + apply Rltb_false in E2. fold n. exact E2.
Qed.

Lemma axisAngle_unit : forall (ax : R * R * R) (angle : R),
  vnorm2 ax = 1 -> qnorm2 (axisAngle2Quat ax angle) = 1.
Proof.
  intros [[x y] z] angle Hu. unfold axisAngle2Quat, qnorm2, vnorm2 in *. num_R.
  destruct (Reqb angle 0); simpl.
  - ring.
  - match goal with |- context [sin ?t] => pose proof (sin2_cos2 t) as P; unfold Rsqr in P;
      set (s := sin t) in *; set (c := cos t) in * end.
    nra.
Qed.

Lemma mulQuat_norm2 : forall p q : R * R * R * R, qnorm2 (mulQuat p q) = qnorm2 p * qnorm2 q.
Proof. intros [[[a0 a1] a2] a3] [[[b0 b1] b2] b3]. unfold mulQuat, qnorm2. num_R. ring. Qed.

Lemma qnorm2_nonneg : forall q : R * R * R * R, 0 <= qnorm2 q.
Proof. intros [[[a b] c] d]. unfold qnorm2. num_R. nra. Qed.

(* mju_quatIntegrate: whatever the input quaternion (zero, unnormalised, ...), whatever the
   velocity (zero included) and scale, the result has norm within mjMINVAL of 1 *)
Lemma quatIntegrate_near_unit : forall (q : R * R * R * R) (v : R * R * R) (s : R),
  near_unit (quatIntegrate q v s).
Proof.
  intros q v s. unfold quatIntegrate.
  pose proof (normalize3_unit v) as [Hu _].
  destruct (normalize3 v) as [ax n]. simpl in Hu.
  unfold near_unit. rewrite mulQuat_norm2, (axisAngle_unit _ _ Hu), Rmult_1_r.
  apply normalize4_near_unit.
Qed.

(* without the normalisation the norm is simply preserved: a non-unit input stays non-unit *)
Lemma quatIntegrate_nonorm_norm : forall (q : R * R * R * R) (v : R * R * R) (s : R),
  qnorm2 (quatIntegrate_nonorm q v s) = qnorm2 q.
Proof.
  intros q v s. unfold quatIntegrate_nonorm.
  pose proof (normalize3_unit v) as [Hu _].
  destruct (normalize3 v) as [ax n]. simpl in Hu.
  rewrite mulQuat_norm2, (axisAngle_unit _ _ Hu). ring.
Qed.

Lemma integratePos_quats : forall (js : list jtype) (qpos qvel : list R) (dt : R),
  length qpos = nq_of js -> length qvel = nv_of js ->
  List.Forall near_unit (quats_of js (integratePos js qpos qvel dt)) /\
  length (quats_of js (integratePos js qpos qvel dt)) = length (filter (fun j => match j with JFree | JBall => true | _ => false end) js).
Proof.
  induction js as [|j js IH]; intros qpos qvel dt Hq Hv.
  - simpl. split; constructor.
  - destruct j; simpl in Hq, Hv.
    + destruct qpos as [|p0 [|p1 [|p2 [|a [|b [|c [|d qp]]]]]]]; simpl in Hq; try lia.
      destruct qvel as [|v0 [|v1 [|v2 [|w0 [|w1 [|w2 qv]]]]]]; simpl in Hv; try lia.
      simpl integratePos.
      pose proof (quatIntegrate_near_unit (a, b, c, d) (w0, w1, w2) dt) as Hn.
      destruct (quatIntegrate (a, b, c, d) (w0, w1, w2) dt) as [[[a' b'] c'] d'].
      simpl. destruct (IH qp qv dt) as [I1 I2]; try lia.
      split; [constructor; auto | simpl; f_equal; auto].
    + destruct qpos as [|a [|b [|c [|d qp]]]]; simpl in Hq; try lia.
      destruct qvel as [|w0 [|w1 [|w2 qv]]]; simpl in Hv; try lia.
      simpl integratePos.
      pose proof (quatIntegrate_near_unit (a, b, c, d) (w0, w1, w2) dt) as Hn.
      destruct (quatIntegrate (a, b, c, d) (w0, w1, w2) dt) as [[[a' b'] c'] d'].
      simpl. destruct (IH qp qv dt) as [I1 I2]; try lia.
      split; [constructor; auto | simpl; f_equal; auto].
    + destruct qpos as [|p qp]; simpl in Hq; try lia.
      destruct qvel as [|v qv]; simpl in Hv; try lia.
      simpl. apply IH; lia.
    + destruct qpos as [|p qp]; simpl in Hq; try lia.
      destruct qvel as [|v qv]; simpl in Hv; try lia.
      simpl. apply IH; lia.
Qed.

(* ---------------------------------------------------------------- Euler ordering, time *)
Lemma euler_order : forall (js : list jtype) (h : R) (s : State) (qacc : list R),
  let s' := euler js h s qacc in
  qvel s' = addToScl (qvel s) qacc h /\
  qpos s' = integratePos js (qpos s) (qvel s') h /\
  time s' = time s + h.
Proof. intros. unfold s', euler, advance. simpl. auto. Qed.

Definition scalar_joint (j : jtype) : Prop := j = JSlide \/ j = JHinge.

(* for slide / hinge joints: q' = q + h (v + h a)  -- the NEW velocity enters the position *)
Lemma euler_scalar : forall (js : list jtype) (h : R) (q v a : list R) (t : R) (i : nat),
  List.Forall scalar_joint js -> length q = length js -> length v = length js -> length a = length js ->
  (i < length js)%nat ->
  let s' := euler js h {| qpos := q; qvel := v; time := t |} a in
  nth i (qvel s') 0 = nth i v 0 + nth i a 0 * h /\
  nth i (qpos s') 0 = nth i q 0 + h * (nth i v 0 + nth i a 0 * h).
Proof.
  intros js h q v a t i Hs. unfold euler, advance. simpl. revert q v a i.
  induction Hs as [|j js Hj Hs IH]; intros q v a i Hq Hv Ha Hi; simpl in *; [lia|].
  destruct q as [|q0 q]; [discriminate|]. destruct v as [|v0 v]; [discriminate|].
  destruct a as [|a0 a]; [discriminate|]. simpl in *.
  destruct Hj as [-> | ->]; simpl; num_R.
  - destruct i; simpl; [split; reflexivity|]. apply IH; lia.
  - destruct i; simpl; [split; reflexivity|]. apply IH; lia.
Qed.

Lemma advance_time : forall (js : list jtype) (h : R) (s : State) (qacc : list R) (vp : option (list R)),
  time (advance js h s qacc vp) = time s + h.
Proof. reflexivity. Qed.

(* ---------------------------------------------------------------- activations *)
Lemma mjclip_range : forall x lo hi : R, lo <= hi -> lo <= mjclip x lo hi <= hi.
Proof.
  intros x lo hi H. unfold mjclip. num_R.
  destruct (Rltb x lo) eqn:E1; [lra|]. apply Rltb_false in E1.
  destruct (Rltb hi x) eqn:E2; [lra|]. apply Rltb_false in E2. lra.
Qed.

Lemma mjclip_id : forall x lo hi : R, lo <= x <= hi -> mjclip x lo hi = x.
Proof.
  intros x lo hi H. unfold mjclip. num_R.
  destruct (Rltb x lo) eqn:E1; [apply Rltb_true in E1; lra|].
  destruct (Rltb hi x) eqn:E2; [apply Rltb_true in E2; lra|]. reflexivity.
Qed.

Lemma act_clamped : forall (exact : bool) (h act act_dot prm0 lo hi : R),
  lo <= hi -> lo <= nextActivation exact h act act_dot prm0 true lo hi <= hi.
Proof. intros. unfold nextActivation. apply mjclip_range. auto. Qed.

(* the clamp is applied to the integrated value: result = clip (unclamped result) *)
Lemma act_clamp_after : forall (exact : bool) (h act act_dot prm0 lo hi : R),
  nextActivation exact h act act_dot prm0 true lo hi =
  mjclip (nextActivation exact h act act_dot prm0 false lo hi) lo hi.
Proof. reflexivity. Qed.

Lemma act_euler : forall (h act act_dot prm0 lo hi : R),
  nextActivation false h act act_dot prm0 false lo hi = act + act_dot * h.
Proof. reflexivity. Qed.

Definition tau_of (prm0 : R) : R := mjmax MINV prm0.
Lemma tau_pos : forall prm0, 0 < tau_of prm0.
Proof.
  intro p. unfold tau_of, mjmax. num_R. pose proof MINV_pos.
  destruct (Rleb p MINV) eqn:E; [lra|]. apply Rleb_false in E. lra.
Qed.
Lemma tau_id : forall prm0, MINV <= prm0 -> tau_of prm0 = prm0.
Proof.
  intros p Hp. unfold tau_of, mjmax. num_R.
  destruct (Rleb p MINV) eqn:E; [apply Rleb_true in E; lra|]. reflexivity.
Qed.

(* closed-form solution of  y' = (ctrl - y)/tau,  y(0) = act *)
Definition filter_sol (ctrl act tau t : R) : R := ctrl + (act - ctrl) * exp (- t / tau).

Lemma filter_sol_ode : forall ctrl act tau t, tau <> 0 ->
  filter_sol ctrl act tau 0 = act /\
  is_derive (filter_sol ctrl act tau) t ((ctrl - filter_sol ctrl act tau t) / tau).
Proof.
  intros ctrl act tau t Ht. split.
  - unfold filter_sol. replace (- 0 / tau) with 0 by (field; auto). rewrite exp_0. ring.
  - unfold filter_sol. auto_derive; [exact I|]. unfold Rdiv. field. auto.
Qed.

Lemma filterexact_closed_form : forall (h act ctrl prm0 lo hi : R),
  let tau := tau_of prm0 in
  let act_dot := (ctrl - act) / tau in
  nextActivation true h act act_dot prm0 false lo hi = filter_sol ctrl act tau h.
Proof.
  intros. unfold nextActivation, filter_sol. rewrite mjMINVAL_R. fold (tau_of prm0). fold tau.
  num_R. unfold act_dot. pose proof (tau_pos prm0). fold tau in H. field. lra.
Qed.

Lemma act_clamp_after_full : forall (exact : bool) (h act act_dot prm0 lo hi : R),
    nextActivation exact h act act_dot prm0 true lo hi =
      mjclip (nextActivation exact h act act_dot prm0 false lo hi) lo hi /\
    nextActivation false h act act_dot prm0 false lo hi = act + act_dot * h.
Proof. intros. split; [apply act_clamp_after | apply act_euler]. Qed.

Lemma filterexact_full : forall (h act ctrl prm0 lo hi : R),
    let tau := tau_of prm0 in
    nextActivation true h act ((ctrl - act) / tau) prm0 false lo hi = filter_sol ctrl act tau h /\
    filter_sol ctrl act tau 0 = act /\
    (forall t, is_derive (filter_sol ctrl act tau) t ((ctrl - filter_sol ctrl act tau t) / tau)) /\
    0 < tau /\ (MINV <= prm0 -> tau = prm0).
Proof.
  intros. split; [apply filterexact_closed_form|].
  pose proof (tau_pos prm0) as P. fold tau in P.
  assert (Hne : tau <> 0) by (apply Rgt_not_eq; exact P).
  split; [exact (proj1 (filter_sol_ode ctrl act tau 0 Hne))|].
  split; [intro t; exact (proj2 (filter_sol_ode ctrl act tau t Hne))|].
  split; [exact P | apply tau_id].
Qed.

(* ---------------------------------------------------------------- actuator force-velocity derivative *)
Lemma affine_locally_lt : forall A B v c : R, A + B * v < c -> locally v (fun w => A + B * w < c).
Proof.
  intros A B v c H.
  assert (He : 0 < (c - (A + B * v)) / (Rabs B + 1)).
  { apply Rdiv_lt_0_compat; [lra | pose proof (Rabs_pos B); lra]. }
  exists (mkposreal _ He). intros w Hw.
  unfold ball in Hw. simpl in Hw. unfold AbsRing_ball, abs, minus, plus, opp in Hw. simpl in Hw.
  assert (Hb : Rabs (B * (w - v)) <= Rabs B * Rabs (w - v)) by (rewrite Rabs_mult; lra).
  assert (Hc : Rabs B * Rabs (w - v) < c - (A + B * v)).
  { pose proof (Rabs_pos B) as PB. pose proof (Rabs_pos (w - v)) as PW.
    apply Rle_lt_trans with ((Rabs B + 1) * Rabs (w + - v)).
    - replace (w + - v) with (w - v) by ring. nra.
    - replace (c - (A + B * v)) with ((Rabs B + 1) * ((c - (A + B * v)) / (Rabs B + 1))) by (field; lra).
      apply Rmult_lt_compat_l; [lra | exact Hw]. }
  pose proof (Rle_abs (B * (w - v))). nra.
Qed.

Lemma affine_locally_gt : forall A B v c : R, c < A + B * v -> locally v (fun w => c < A + B * w).
Proof.
  intros A B v c H.
  pose proof (affine_locally_lt (- A) (- B) v (- c)) as L.
  assert (H' : - A + - B * v < - c) by lra. specialize (L H').
  destruct L as [e He]. exists e. intros w Hw. specialize (He w Hw). simpl in He. lra.
Qed.

Lemma act_force_raw_affine : forall g0 g1 g2 b0 b1 b2 len u w : R,
  act_force_raw g0 g1 g2 b0 b1 b2 len u w = ((g0 + g1 * len) * u + (b0 + b1 * len)) + (g2 * u + b2) * w.
Proof. intros. unfold act_force_raw. num_R. ring. Qed.

(* mjd_actuator_vel's rule is the derivative of the applied (clamped) force wherever it exists *)
Lemma act_force_vel_correct : forall (fl : bool) (flo fhi g0 g1 g2 b0 b1 b2 len u v : R),
  flo < fhi ->
  (fl = true -> act_force_raw g0 g1 g2 b0 b1 b2 len u v <> flo /\ act_force_raw g0 g1 g2 b0 b1 b2 len u v <> fhi) ->
  is_derive (fun w => act_force fl flo fhi g0 g1 g2 b0 b1 b2 len u w) v
            (act_force_vel fl flo fhi g2 b2 u (act_force fl flo fhi g0 g1 g2 b0 b1 b2 len u v)).
Proof.
  intros fl flo fhi g0 g1 g2 b0 b1 b2 len u v Hr Hk.
  set (A := (g0 + g1 * len) * u + (b0 + b1 * len)). set (B := g2 * u + b2).
  assert (Hraw : forall w, act_force_raw g0 g1 g2 b0 b1 b2 len u w = A + B * w) by (intro; apply act_force_raw_affine).
  assert (Daff : is_derive (fun w => A + B * w) v B) by (auto_derive; [exact I | ring]).
  unfold act_force, act_force_vel. destruct fl; cbn [andb].
  - destruct (Hk eq_refl) as [K1 K2]. rewrite Hraw in K1, K2.
    unfold mjclip. num_R. rewrite !Hraw.
    destruct (Rltb (A + B * v) flo) eqn:E1.
    + apply Rltb_true in E1.
      replace (Rleb flo flo) with true by (symmetry; apply Rleb_true; lra). cbn [orb].
      apply (is_derive_ext_loc (fun _ => flo)).
      * destruct (affine_locally_lt A B v flo E1) as [e He]. exists e. intros w Hw. specialize (He w Hw). simpl in He.
        rewrite Hraw. replace (Rltb (A + B * w) flo) with true by (symmetry; apply Rltb_true; lra). reflexivity.
      * apply @is_derive_const.
    + apply Rltb_false in E1.
      destruct (Rltb fhi (A + B * v)) eqn:E2.
      * apply Rltb_true in E2.
        replace (Rleb fhi flo) with false by (symmetry; apply Rleb_false; lra).
        replace (Rleb fhi fhi) with true by (symmetry; apply Rleb_true; lra). cbn [orb].
        apply (is_derive_ext_loc (fun _ => fhi)).
        -- destruct (affine_locally_gt A B v fhi E2) as [e He]. exists e. intros w Hw. specialize (He w Hw). simpl in He.
           rewrite Hraw. replace (Rltb (A + B * w) flo) with false by (symmetry; apply Rltb_false; lra).
           replace (Rltb fhi (A + B * w)) with true by (symmetry; apply Rltb_true; lra). reflexivity.
        -- apply @is_derive_const.
      * apply Rltb_false in E2.
        assert (I1 : flo < A + B * v) by lra. assert (I2 : A + B * v < fhi) by lra.
        replace (Rleb (A + B * v) flo) with false by (symmetry; apply Rleb_false; lra).
        replace (Rleb fhi (A + B * v)) with false by (symmetry; apply Rleb_false; lra). cbn [orb].
        replace (b2 + g2 * u) with B by (unfold B; ring).
        apply (is_derive_ext_loc (fun w => A + B * w)); [|exact Daff].
        destruct (affine_locally_gt A B v flo I1) as [e1 He1]. destruct (affine_locally_lt A B v fhi I2) as [e2 He2].
        assert (Hm : 0 < Rmin e1 e2) by (apply Rmin_pos; [apply e1 | apply e2]).
        exists (mkposreal _ Hm). intros w Hw.
        assert (W1 : ball v e1 w) by (eapply ball_le; [|exact Hw]; simpl; apply Rmin_l).
        assert (W2 : ball v e2 w) by (eapply ball_le; [|exact Hw]; simpl; apply Rmin_r).
        specialize (He1 w W1). specialize (He2 w W2). simpl in He1, He2.
        rewrite Hraw. replace (Rltb (A + B * w) flo) with false by (symmetry; apply Rltb_false; lra).
        replace (Rltb fhi (A + B * w)) with false by (symmetry; apply Rltb_false; lra). reflexivity.
  - num_R. replace (b2 + g2 * u) with B by (unfold B; ring).
    apply (is_derive_ext (fun w => A + B * w)); [intro w; rewrite Hraw; reflexivity | exact Daff].
Qed.

(* the input of the gain is the CLAMPED control (same value in the force and in its derivative) *)
Lemma act_input_range : forall (clo chi ctrl : R), clo <= chi -> clo <= act_input true clo chi ctrl <= chi.
Proof. intros. unfold act_input. apply mjclip_range. auto. Qed.

(* ---------------------------------------------------------------- implicit update *)
Lemma addToScl_length : forall (r v : list R) k, length (addToScl r v k) = length r.
Proof. induction r; intros [|x v] k; simpl; auto. Qed.

Definition vsub (a b : list R) : list R := map (fun p => fst p - snd p) (combine a b).

Lemma addToScl_sub : forall (r v : list R) k, length v = length r ->
  vsub (addToScl r v k) r = map (fun x => k * x) v.
Proof.
  induction r; intros [|x v] k H; simpl in *; try discriminate; auto.
  unfold vsub in *. simpl. f_equal; [num_R; ring|]. apply IHr. lia.
Qed.

Lemma dotl_scl : forall (row x : list R) k, dotl row (map (fun y => k * y) x) = k * dotl row x.
Proof.
  induction row; intros [|y x] k; unfold dotl in *; simpl; num_R; try ring.
  rewrite IHrow. ring.
Qed.

Lemma mulMV_scl : forall (A : list (list R)) x k, mulMV A (map (fun y => k * y) x) = map (fun y => k * y) (mulMV A x).
Proof. intros. unfold mulMV. rewrite map_map. apply map_ext. intro row. apply dotl_scl. Qed.

(* M - h D, entrywise *)
Definition matMhD (M D : list (list R)) (h : R) : list (list R) :=
  map (fun rows => map (fun p => fst p - h * snd p) (combine (fst rows) (snd rows))) (combine M D).

Section Implicit.
Variable solve : list R -> list R.
Variables (M D : list (list R)) (h : R) (qvel qfrc : list R).
Hypothesis solve_len : length (solve qfrc) = length qvel.
Hypothesis solve_ok : mulMV (matMhD M D h) (solve qfrc) = qfrc.

Lemma implicit_solves :
  mulMV (matMhD M D h) (vsub (implicit_vel h qvel qfrc solve) qvel) = map (fun f => h * f) qfrc.
Proof.
  unfold implicit_vel. rewrite addToScl_sub by auto. rewrite mulMV_scl, solve_ok. reflexivity.
Qed.
End Implicit.

(* ---------------------------------------------------------------- tableau *)
Lemma rk4_tableau_ok :
  rk4_order_ok RK4_A RK4_B = true /\
  qlist_eqb (rk4_lower RK4_A) classical_lower = true /\
  qlist_eqb RK4_B classical_B = true /\
  length RK4_A = 9%nat /\ length RK4_B = 4%nat.
Proof. vm_compute. repeat split. Qed.

(* what rk4_order_ok means: every condition holds as an equation of rationals *)
Lemma rk4_order_ok_sound : forall A B, rk4_order_ok A B = true ->
  List.Forall (fun p => Qeq (fst p) (snd p)) (rk4_order_conditions A B).
Proof.
  intros A B H. unfold rk4_order_ok in H. rewrite forallb_forall in H.
  apply List.Forall_forall. intros p Hp. apply Qeq_bool_eq. auto.
Qed.
