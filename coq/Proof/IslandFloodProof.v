(* C17: mj_floodFill labels the connected components of a symmetric graph, numbered by first vertex *)
From Coq Require Import List ZArith Bool Lia Arith.
From MJV Require Import Model.Island Model.IslandSpec Proof.IslandProof Proof.IslandMapsProof.
Import ListNotations.
Open Scope Z_scope.

Section Flood.
Variable nr : Z.
Variables rownnz rowadr colind : list Z.
Hypothesis G : graph_ok nr rownnz rowadr colind.

Notation E := (edge rownnz rowadr colind).
Notation R := (reach rownnz rowadr colind).

Lemma edge_range u v : 0 <= u < nr -> E u v -> 0 <= v < nr.
Proof. destruct G as (_ & _ & _ & H & _). apply H. Qed.

Lemma edge_sym u v : 0 <= u < nr -> E u v -> E v u.
Proof.
  intros Hu He. destruct G as (_ & _ & _ & H & S). apply S; auto. eapply H; eauto.
Qed.

Lemma edge_rownnz u v : E u v -> get rownnz u <> 0.
Proof.
  unfold edge, row, slice. intros H Hc. rewrite Hc in H. simpl in H. exact H.
Qed.

Lemma reach_range u v : 0 <= u < nr -> R u v -> 0 <= v < nr.
Proof. intros Hu H. induction H; [exact Hu|]. eapply edge_range; [apply IHreach; exact Hu| eassumption]. Qed.

Lemma reach_trans a b c : R a b -> R b c -> R a c.
Proof. intros H1 H2. induction H2; [exact H1|]. eapply reach_step; [apply IHreach; exact H1| eassumption]. Qed.

Lemma reach_sym u v : 0 <= u < nr -> R u v -> R v u.
Proof.
  intros Hu H. induction H as [u|u v w Huv IH Hvw]; [apply reach_refl|].
  pose proof (reach_range u v Hu Huv) as Hv.
  eapply reach_trans; [|apply IH; exact Hu].
  eapply reach_step; [apply reach_refl| apply edge_sym; assumption].
Qed.

(* ---------- invariant of one depth-first traversal started at vertex i with label n *)
Section Dfs.
Variables i n : Z.
Hypothesis Hi : 0 <= i < nr.
Hypothesis Hn : 0 <= n.

Definition DI (isl stack : list Z) : Prop :=
  len isl = nr /\
  (forall v, 0 <= v < nr -> get isl v = -1 \/ 0 <= get isl v <= n) /\
  (forall u v, 0 <= u < nr -> get isl u <> -1 -> E u v ->
     get isl v = get isl u \/ (get isl u = n /\ get isl v = -1 /\ In v stack)) /\
  (forall u v, 0 <= u < nr -> 0 <= v < nr -> 0 <= get isl u < n -> get isl u = get isl v -> R u v) /\
  (forall w, In w stack -> 0 <= w < nr /\ R i w /\ get rownnz w <> 0) /\
  (forall v, 0 <= v < i -> get isl v = -1 -> get rownnz v = 0) /\
  (forall v, 0 <= v < nr -> get isl v <> -1 -> get rownnz v <> 0) /\
  (forall v c, 0 <= v < nr -> get isl v = c -> 0 <= c ->
     forall c', 0 <= c' < c -> exists u, 0 <= u < v /\ get isl u = c') /\
  (forall c, 0 <= c < n -> exists u, 0 <= u < i /\ get isl u = c) /\
  (get isl i = n \/ (get isl i = -1 /\ In i stack)) /\
  (forall v, 0 <= v < nr -> get isl v = n -> R i v).

Lemma DI_skip isl v st : DI isl (v :: st) -> get isl v <> -1 -> DI isl st.
Proof.
  intros (L & A & B & C & S & D & E' & F & G' & H & N) Hv.
  split; [exact L|]. split; [exact A|]. split; [|split; [exact C|split; [|split; [exact D|split; [exact E'|split; [exact F|split; [exact G'|split; [|exact N]]]]]]]].
  - intros u w Hu Hl He. destruct (B u w Hu Hl He) as [X|(X1 & X2 & [<-|X3])]; [left; exact X| contradiction| right; auto].
  - intros w Hw. apply S. right. exact Hw.
  - destruct H as [H|(H1 & [<-|H2])]; [left; exact H| contradiction| right; auto].
Qed.

Lemma DI_label isl v st : DI isl (v :: st) -> get isl v = -1 ->
  DI (set isl v n) (rev (row rownnz rowadr colind v) ++ st).
Proof.
  intros (L & A & B & C & S & D & E' & F & G' & H & N) Hv.
  destruct (S v (or_introl eq_refl)) as (Rv & Riv & Nzv).
  assert (Rv' : 0 <= v < len isl) by lia.
  assert (Gs : forall x, get (set isl v n) x = if x =? v then n else get isl x) by (intro; apply get_set; exact Rv').
  assert (Hiv : i <= v).
  { destruct (Z_lt_le_dec v i) as [Hlt|Hge]; [|exact Hge]. exfalso. apply Nzv. apply D; [lia| exact Hv]. }
  split; [rewrite len_set; exact L|].
  split; [|split; [|split; [|split; [|split; [|split; [|split; [|split; [|split]]]]]]]].
  - intros x Hx. rewrite Gs. destruct (Z.eqb_spec x v); [right; lia| apply A; exact Hx].
  - intros u w Hu Hl He. rewrite !Gs in *.
    destruct (Z.eqb_spec u v) as [->|Nu].
    + (* edges out of the vertex just labelled *)
      destruct (Z.eqb_spec w v) as [->|Nw]; [left; reflexivity|].
      pose proof (edge_range v w Rv He) as Rw.
      destruct (Z.eq_dec (get isl w) (-1)) as [Ew|Nw1].
      * right. split; [reflexivity|]. split; [exact Ew|]. apply in_or_app. left. apply in_rev. rewrite rev_involutive. exact He.
      * left. pose proof (edge_sym v w Rv He) as He'.
        destruct (B w v Rw Nw1 He') as [X|(X1 & X2 & X3)]; [rewrite Hv in X; congruence|].
        exact X1.
    + destruct (B u w Hu Hl He) as [X|(X1 & X2 & X3)].
      * destruct (Z.eqb_spec w v) as [->|Nw]; [rewrite Hv in X; congruence| left; exact X].
      * destruct (Z.eqb_spec w v) as [->|Nw]; [left; lia|].
        right. split; [exact X1|]. split; [exact X2|].
        destruct X3 as [<-|X3]; [contradiction|]. apply in_or_app. right. exact X3.
  - intros u w Hu Hw Hl Heq. rewrite !Gs in *.
    destruct (Z.eqb_spec u v); [lia|]. destruct (Z.eqb_spec w v); [lia|]. apply C; assumption.
  - intros w Hw. apply in_app_or in Hw. destruct Hw as [Hw|Hw]; [|apply S; right; exact Hw].
    apply in_rev in Hw. change (E v w) in Hw.
    pose proof (edge_range v w Rv Hw) as Rw. split; [exact Rw|]. split.
    + eapply reach_step; [exact Riv| exact Hw].
    + apply (edge_rownnz w v). apply edge_sym; assumption.
  - intros x Hx Hl. rewrite Gs in Hl. destruct (Z.eqb_spec x v); [lia|]. apply D; assumption.
  - intros x Hx Hl. rewrite Gs in Hl. destruct (Z.eqb_spec x v) as [->|]; [exact Nzv| apply E'; assumption].
  - intros x c Hx Hl Hc c' Hc'. rewrite Gs in Hl.
    assert (Keep : forall u, get isl u = c' -> get (set isl v n) u = c').
    { intros u Hu. rewrite Gs. destruct (Z.eqb_spec u v) as [->|]; [rewrite Hv in Hu; lia| exact Hu]. }
    destruct (Z.eqb_spec x v) as [->|Nx].
    + subst c. destruct (G' c' Hc') as (u & Hu & Hlu). exists u. split; [lia| apply Keep; exact Hlu].
    + destruct (F x c Hx Hl Hc c' Hc') as (u & Hu & Hlu). exists u. split; [exact Hu| apply Keep; exact Hlu].
  - intros c Hc. destruct (G' c Hc) as (u & Hu & Hlu). exists u. split; [exact Hu|].
    rewrite Gs. destruct (Z.eqb_spec u v) as [->|]; [rewrite Hv in Hlu; lia| exact Hlu].
  - rewrite Gs. destruct (Z.eqb_spec i v) as [->|Niv]; [left; reflexivity|].
    destruct H as [H|(H1 & [<-|H2])]; [left; exact H| contradiction|].
    right. split; [exact H1|]. apply in_or_app. right. exact H2.
  - intros x Hx Hl. rewrite Gs in Hl. destruct (Z.eqb_spec x v) as [->|]; [exact Riv| apply N; assumption].
Qed.

Lemma dfs_sound fuel : forall isl stack isl', DI isl stack ->
  dfs fuel isl rownnz rowadr colind n stack = Some isl' -> DI isl' [].
Proof.
  induction fuel as [|f IH]; intros isl stack isl' HD Hd; [discriminate|].
  destruct stack as [|v st]; simpl in Hd.
  - injection Hd as <-. exact HD.
  - destruct (Z.eqb_spec (get isl v) (-1)) as [Ev|Nv].
    + eapply IH; [|exact Hd]. apply DI_label; assumption.
    + eapply IH; [|exact Hd]. eapply DI_skip; eassumption.
Qed.

End Dfs.

(* ---------- invariant of the outer loop: vertices below i are done, n labels are in use *)
Definition OI (i : Z) (isl : list Z) (n : Z) : Prop :=
  len isl = nr /\ 0 <= n /\
  (forall v, 0 <= v < nr -> get isl v = -1 \/ 0 <= get isl v < n) /\
  (forall u v, 0 <= u < nr -> get isl u <> -1 -> E u v -> get isl v = get isl u) /\
  (forall u v, 0 <= u < nr -> 0 <= v < nr -> get isl u <> -1 -> get isl u = get isl v -> R u v) /\
  (forall v, 0 <= v < i -> get isl v = -1 -> get rownnz v = 0) /\
  (forall v, 0 <= v < nr -> get isl v <> -1 -> get rownnz v <> 0) /\
  (forall v c, 0 <= v < nr -> get isl v = c -> 0 <= c ->
     forall c', 0 <= c' < c -> exists u, 0 <= u < v /\ get isl u = c') /\
  (forall c, 0 <= c < n -> exists u, 0 <= u < i /\ get isl u = c).

Lemma OI_start i isl n : 0 <= i < nr -> OI i isl n -> get isl i = -1 -> get rownnz i <> 0 -> DI i n isl [i].
Proof.
  intros Hi (L & Hn & A & B & C & D & E' & F & G') Hl Hz.
  split; [exact L|]. split; [|split; [|split; [|split; [|split; [exact D|split; [exact E'|split; [exact F|split; [exact G'|split]]]]]]]].
  - intros v Hv. destruct (A v Hv); [left; assumption| right; lia].
  - intros u v Hu Hlu He. left. apply B; assumption.
  - intros u v Hu Hv Hlu Heq. apply C; auto. lia.
  - intros w [<-|[]]. split; [exact Hi|]. split; [apply reach_refl| exact Hz].
  - right. split; [exact Hl| left; reflexivity].
  - intros v Hv Hlv. destruct (A v Hv); lia.
Qed.

Lemma OI_finish i isl n : 0 <= i < nr -> 0 <= n -> DI i n isl [] -> OI (i + 1) isl (n + 1).
Proof.
  intros Hi Hn (L & A & B & C & S & D & E' & F & G' & H & N).
  assert (Hli : get isl i = n) by (destruct H as [H|(_ & [])]; exact H).
  split; [exact L|]. split; [lia|]. split; [|split; [|split; [|split; [|split; [exact E'|split; [exact F|]]]]]].
  - intros v Hv. destruct (A v Hv); [left; assumption| right; lia].
  - intros u v Hu Hlu He. destruct (B u v Hu Hlu He) as [X|(_ & _ & [])]. exact X.
  - intros u v Hu Hv Hlu Heq. destruct (A u Hu) as [X|X]; [contradiction|].
    destruct (Z.eq_dec (get isl u) n) as [En|Nn].
    + eapply reach_trans; [apply reach_sym; [exact Hi| apply N; assumption]| apply N; [exact Hv| congruence]].
    + apply C; auto. lia.
  - intros v Hv Hlv. destruct (Z.eq_dec v i) as [->|Nv]; [lia|]. apply D; [lia| exact Hlv].
  - intros c Hc. destruct (Z.eq_dec c n) as [->|Nc].
    + exists i. split; [lia| exact Hli].
    + destruct (G' c ltac:(lia)) as (u & Hu & Hlu). exists u. split; [lia| exact Hlu].
Qed.

Lemma OI_skip i isl n : OI i isl n -> (get isl i <> -1 \/ get rownnz i = 0) -> OI (i + 1) isl n.
Proof.
  intros (L & Hn & A & B & C & D & E' & F & G') Hs.
  split; [exact L|]. split; [exact Hn|]. split; [exact A|]. split; [exact B|]. split; [exact C|].
  split; [|split; [exact E'|split; [exact F|]]].
  - intros v Hv Hlv. destruct (Z.eq_dec v i) as [->|Nv]; [destruct Hs; [contradiction| assumption]|].
    apply D; [lia| exact Hlv].
  - intros c Hc. destruct (G' c Hc) as (u & Hu & Hlu). exists u. split; [lia| exact Hlu].
Qed.

Lemma ff_outer_sound fuel : forall todo i isl n res,
  0 <= i -> i + Z.of_nat todo = nr -> OI i isl n ->
  ff_outer fuel todo i isl rownnz rowadr colind n = Some res -> OI nr (fst res) (snd res).
Proof.
  induction todo as [|todo IH]; intros i isl n res Hi0 Hsum HO Hf; simpl in Hf.
  - injection Hf as <-. simpl. replace nr with i by lia. exact HO.
  - assert (Hi : 0 <= i < nr) by lia.
    destruct (Z.eqb_spec (get isl i) (-1)) as [El|Nl]; simpl in Hf.
    + destruct (Z.eqb_spec (get rownnz i) 0) as [Ez|Nz].
      * apply (IH (i + 1) isl n res); [lia| lia| |exact Hf]. apply OI_skip; [exact HO| right; exact Ez].
      * destruct (dfs fuel isl rownnz rowadr colind n [i]) as [isl'|] eqn:Ed; [|discriminate].
        apply (IH (i + 1) isl' (n + 1) res); [lia| lia| |exact Hf].
        pose proof HO as (_ & Hn & _).
        apply OI_finish; [exact Hi| exact Hn|].
        exact (dfs_sound i n Hi Hn fuel isl [i] isl' (OI_start i isl n Hi HO El Nz) Ed).
    + apply (IH (i + 1) isl n res); [lia| lia| |exact Hf]. apply OI_skip; [exact HO| left; exact Nl].
Qed.

Lemma OI_init (k : nat) : Z.of_nat k = nr -> OI 0 (repeat (-1) k) 0.
Proof.
  intro Hk.
  assert (Gr : forall v, 0 <= v < nr -> get (repeat (-1) k) v = -1) by (intros; apply get_repeat; lia).
  split; [unfold len; rewrite repeat_length; exact Hk|]. split; [lia|].
  split; [intros; left; apply Gr; assumption|].
  split; [intros u v Hu Hl; exfalso; apply Hl; apply Gr; assumption|].
  split; [intros u v Hu Hv Hl; exfalso; apply Hl; apply Gr; assumption|].
  split; [intros; lia|].
  split; [intros v Hv Hl; exfalso; apply Hl; apply Gr; assumption|].
  split; [intros v c Hv Hl Hc; rewrite Gr in Hl by assumption; lia|].
  intros; lia.
Qed.

(* what a completed flood fill means *)
Definition flood_post (isl : list Z) (n : Z) : Prop :=
  len isl = nr /\
  (forall v, 0 <= v < nr -> (get isl v = -1 <-> get rownnz v = 0)) /\
  (forall v, 0 <= v < nr -> get isl v <> -1 -> 0 <= get isl v < n) /\
  (forall u v, 0 <= u < nr -> 0 <= v < nr -> get isl u <> -1 -> get isl v <> -1 ->
     (get isl u = get isl v <-> R u v)) /\
  (forall c, 0 <= c < n -> exists u, 0 <= u < nr /\ get isl u = c) /\
  (forall v c, 0 <= v < nr -> get isl v = c -> 0 <= c ->
     forall c', 0 <= c' < c -> exists u, 0 <= u < v /\ get isl u = c').

Lemma OI_post isl n : OI nr isl n -> flood_post isl n.
Proof.
  intros (L & Hn & A & B & C & D & E' & F & G').
  split; [exact L|]. split; [|split; [|split; [|split; [exact G'|exact F]]]].
  - intros v Hv. split; [apply D; exact Hv|]. intro Hz.
    destruct (Z.eq_dec (get isl v) (-1)) as [X|X]; [exact X|]. exfalso. exact (E' v Hv X Hz).
  - intros v Hv Hl. destruct (A v Hv); [contradiction| assumption].
  - intros u v Hu Hv Hlu Hlv. split; [apply C; assumption|].
    intro Hr. clear Hlv. induction Hr as [u|u v w Huv IH Hvw]; [reflexivity|].
    pose proof (reach_range u v Hu Huv) as Rv. rewrite IH by assumption.
    symmetry. apply B; [exact Rv| rewrite <- IH by assumption; exact Hlu| exact Hvw].
Qed.

Theorem floodFill_partial (k : nat) isl n : Z.of_nat k = nr ->
  floodFill k rownnz rowadr colind = Some (isl, n) -> flood_post isl n.
Proof.
  intros Hk Hf. unfold floodFill in Hf.
  apply OI_post. eapply (ff_outer_sound _ k 0 (repeat (-1) k) 0 (isl, n)); [lia| lia| apply OI_init; exact Hk| exact Hf].
Qed.

(* ---------- termination: the fuel of the model always suffices *)
Fixpoint usum (isl : list Z) (k : nat) : Z :=
  match k with
  | O => 0
  | S m => usum isl m + (if get isl (Z.of_nat m) =? -1 then 1 + get rownnz (Z.of_nat m) else 0)
  end.

Lemma rownnz_nonneg v : 0 <= v < nr -> 0 <= get rownnz v.
Proof. destruct G as (_ & _ & H & _). intro Hv. apply (H v Hv). Qed.

Lemma usum_set isl v n (k : nat) : 0 <= v < len isl -> get isl v = -1 -> n <> -1 ->
  usum (set isl v n) k = usum isl k - (if v <? Z.of_nat k then 1 + get rownnz v else 0).
Proof.
  intros Hv Hl Hn. induction k as [|k IH]; [simpl; destruct (Z.ltb_spec v 0); lia|].
  cbn [usum]. rewrite IH. rewrite get_set by exact Hv.
  destruct (Z.eqb_spec (Z.of_nat k) v) as [Ek|N].
  - rewrite Ek, Hl. destruct (Z.eqb_spec n (-1)); [contradiction|]. rewrite Z.eqb_refl.
    destruct (Z.ltb_spec v v); destruct (Z.ltb_spec v (Z.of_nat (S k))); lia.
  - destruct (Z.ltb_spec v (Z.of_nat k)); destruct (Z.ltb_spec v (Z.of_nat (S k))); lia.
Qed.

Lemma usum_nonneg isl (k : nat) : Z.of_nat k <= nr -> 0 <= usum isl k.
Proof.
  induction k as [|k IH]; intro Hk; [simpl; lia|]. cbn [usum].
  pose proof (rownnz_nonneg (Z.of_nat k) ltac:(lia)). destruct (_ =? _); lia.
Qed.

Lemma sumz_snoc l x : sumz (l ++ [x]) = sumz l + x.
Proof. unfold sumz. rewrite fold_left_app. reflexivity. Qed.

Lemma usum_bound isl (k : nat) : Z.of_nat k <= nr ->
  usum isl k <= Z.of_nat k + sumz (firstn k rownnz) /\ 0 <= sumz (firstn k rownnz).
Proof.
  induction k as [|k IH]; intro Hk; [simpl; unfold sumz; simpl; lia|].
  destruct (IH ltac:(lia)) as (B & P).
  assert (Hl : (k < length rownnz)%nat) by (destruct G as (L & _); unfold len in L; lia).
  rewrite (IslandMapsProof.firstn_S_nth rownnz k OOB Hl), sumz_snoc. cbn [usum].
  rewrite <- (IslandMapsProof.get_nth rownnz k).
  pose proof (rownnz_nonneg (Z.of_nat k) ltac:(lia)). destruct (_ =? _); lia.
Qed.

Lemma row_length v : 0 <= v < nr -> Z.of_nat (length (row rownnz rowadr colind v)) <= get rownnz v.
Proof.
  intro Hv. unfold row, slice. rewrite firstn_length. pose proof (rownnz_nonneg v Hv). lia.
Qed.

Lemma dfs_total n : n <> -1 -> forall fuel isl stack, len isl = nr ->
  Z.of_nat (length stack) + usum isl (Z.to_nat nr) < Z.of_nat fuel ->
  exists isl', dfs fuel isl rownnz rowadr colind n stack = Some isl' /\ len isl' = nr.
Proof.
  intros Hn. induction fuel as [|f IH]; intros isl stack L Hm.
  - pose proof (usum_nonneg isl (Z.to_nat nr) ltac:(pose proof (len_nonneg isl); lia)). lia.
  - destruct stack as [|v st]; simpl; [exists isl; auto|].
    destruct (Z.eqb_spec (get isl v) (-1)) as [Ev|Nv].
    + assert (Hv : 0 <= v < len isl).
      { destruct (Z_lt_dec v 0); [rewrite get_oob in Ev by lia; unfold OOB in Ev; lia|].
        destruct (Z_lt_dec v (len isl)); [lia|]. rewrite get_oob in Ev by lia. unfold OOB in Ev. lia. }
      apply IH; [rewrite len_set; exact L|].
      rewrite usum_set by assumption. rewrite app_length, rev_length.
      pose proof (row_length v ltac:(lia)). simpl length in Hm.
      destruct (Z.ltb_spec v (Z.of_nat (Z.to_nat nr))); lia.
    + apply IH; [exact L|]. simpl length in Hm. lia.
Qed.

Lemma ff_outer_total fuel : (forall isl, usum isl (Z.to_nat nr) + 1 < Z.of_nat fuel) ->
  forall todo i isl n, len isl = nr -> 0 <= n ->
  exists res, ff_outer fuel todo i isl rownnz rowadr colind n = Some res.
Proof.
  intro Hfuel. induction todo as [|todo IH]; intros i isl n L Hn; simpl; [eexists; reflexivity|].
  destruct (negb (get isl i =? -1) || (get rownnz i =? 0)); [apply IH; assumption|].
  destruct (dfs_total n ltac:(lia) fuel isl [i] L) as (isl' & -> & L').
  { simpl length. pose proof (Hfuel isl). lia. }
  apply IH; [exact L'| lia].
Qed.

Theorem floodFill_total (k : nat) : Z.of_nat k = nr ->
  exists isl n, floodFill k rownnz rowadr colind = Some (isl, n) /\ flood_post isl n.
Proof.
  intro Hk. unfold floodFill.
  destruct (ff_outer_total (S (S (k + Z.to_nat (sumz (firstn k rownnz))))) ) with (todo := k) (i := 0)
    (isl := repeat (-1) k) (n := 0) as ([isl n] & Hf).
  - intro isl. replace (Z.to_nat nr) with k by lia.
    destruct (usum_bound isl k ltac:(lia)) as (B & P). lia.
  - unfold len. rewrite repeat_length. exact Hk.
  - lia.
  - exists isl, n. split; [exact Hf|]. eapply floodFill_partial; [exact Hk| exact Hf].
Qed.

End Flood.
