(* Lemmas about Model/Passive.v at the reals (C29). *)
From Coq Require Import ZArith List Bool PrimFloat Reals Lra Lia Psatz.
From Coquelicot Require Import Coquelicot.
From MJV Require Import Lib.Num Lib.NumR Model.Spatial Model.Passive.
Import ListNotations.
Open Scope R_scope.

Lemma nhalf_R' : nhalf (T:=R) = / 2.
Proof. unfold nhalf. num_R. unfold Rdec. simpl. lra. Qed.

(* ------------------------------------------------------------------ closed forms for mjNPOLY = 2 *)
Lemma polyForce_2 (k p0 p1 x : R) : polyForce k [p0; p1] x false = k + p0 * x + p1 * (x * x).
Proof. unfold polyForce. cbn [polyLoop]. num_R. ring. Qed.

Lemma polyForce_2_odd (k p0 p1 x : R) : polyForce k [p0; p1] x true = k + p0 * Rabs x + p1 * (Rabs x * Rabs x).
Proof. unfold polyForce. cbn [polyLoop]. num_R. ring. Qed.

Lemma polyPotential_2 (k p0 p1 x : R) :
  polyPotential k [p0; p1] x false = / 2 * k * (x * x) + p0 / 3 * (x * x * x) + p1 / 4 * (x * x * x * x).
Proof. unfold polyPotential. cbn [potLoop]. rewrite nhalf_R'. num_R. simpl. field. Qed.

Lemma polyForce_0 (k x : R) (odd : bool) : polyForce k [] x odd = k.
Proof. unfold polyForce. destruct odd; reflexivity. Qed.

Lemma polyPotential_0 (k x : R) : polyPotential k [] x false = / 2 * k * (x * x).
Proof. unfold polyPotential. cbn [potLoop]. rewrite nhalf_R'. num_R. reflexivity. Qed.

(* ------------------------------------------------------------------ spring force = - gradient of the potential *)
Lemma potential_derive (k p0 p1 x : R) :
  is_derive (fun y : R => polyPotential k [p0; p1] y false) x (x * polyForce k [p0; p1] x false).
Proof.
  apply (is_derive_ext (fun y : R => / 2 * k * (y * y) + p0 / 3 * (y * y * y) + p1 / 4 * (y * y * y * y))).
  - intros y. symmetry. apply polyPotential_2.
  - rewrite polyForce_2. auto_derive; [exact I|]. field.
Qed.

Lemma spring_is_gradient (k p0 p1 q qs : R) :
  is_derive (fun y : R => springEnergyScalar k [p0; p1] y qs) q (- springForce k [p0; p1] (q - qs)).
Proof.
  unfold springEnergyScalar, springForce. num_R.
  apply (is_derive_ext (fun y : R => / 2 * k * ((y - qs) * (y - qs)) + p0 / 3 * ((y - qs) * (y - qs) * (y - qs)) +
                                     p1 / 4 * ((y - qs) * (y - qs) * (y - qs) * (y - qs)))).
  - intros y. symmetry. apply polyPotential_2.
  - rewrite polyForce_2. auto_derive; [exact I|]. field.
Qed.

Lemma linear_spring_gradient (k q qs : R) :
  springForce k [] (q - qs) = - (k * (q - qs)) /\
  springEnergyScalar k [] q qs = / 2 * k * ((q - qs) * (q - qs)) /\
  is_derive (fun y : R => springEnergyScalar k [] y qs) q (k * (q - qs)).
Proof.
  split; [|split].
  - unfold springForce. rewrite polyForce_0. num_R. ring.
  - unfold springEnergyScalar. num_R. apply polyPotential_0.
  - apply (is_derive_ext (fun y : R => / 2 * k * ((y - qs) * (y - qs)))).
    + intros y. unfold springEnergyScalar. num_R. symmetry. apply polyPotential_0.
    + auto_derive; [exact I|]. field.
Qed.

(* ------------------------------------------------------------------ tendon dead band *)
Lemma tendonDisp_cases (len lo hi : R) :
  lo <= hi ->
  (hi < len /\ tendonDisp len lo hi = len - hi) \/ (len < lo /\ tendonDisp len lo hi = len - lo) \/
  (lo <= len <= hi /\ tendonDisp len lo hi = 0).
Proof.
  intros L. unfold tendonDisp. num_R.
  destruct (Rltb hi len) eqn:E1.
  - apply Rltb_true in E1. left; auto.
  - apply Rltb_false in E1. destruct (Rltb len lo) eqn:E2.
    + apply Rltb_true in E2. right; left; auto.
    + apply Rltb_false in E2. right; right; split; auto; lra.
Qed.

Lemma tendonDisp_inside (len lo hi : R) : lo <= len <= hi -> tendonDisp len lo hi = 0.
Proof.
  intros L. destruct (tendonDisp_cases len lo hi) as [[A B]|[[A B]|[A B]]]; try lra; auto.
Qed.

(* the tendon spring force is minus the derivative of the tendon potential w.r.t. the tendon length,
   in each of the three regions of the dead band *)
Lemma tendon_spring_gradient (k p0 p1 b : R) (dp : list R) (len vel lo hi : R) (J : list R) :
  lo <= hi -> len <> lo -> len <> hi ->
  is_derive (fun y : R => springEnergyTendon (mkTendon k [p0; p1] b dp y vel lo hi J)) len
            (- tendonSpring true (mkTendon k [p0; p1] b dp len vel lo hi J)).
Proof.
  intros L N1 N2. unfold springEnergyTendon, tendonSpring. cbn [t_k t_spoly t_len t_lower t_upper].
  destruct (tendonDisp_cases len lo hi L) as [[A B]|[[A B]|[[A1 A2] B]]].
  - rewrite B.
    apply (is_derive_ext_loc (fun y : R => springEnergyScalar k [p0; p1] y hi)).
    + exists (mkposreal (len - hi) ltac:(lra)). intros y Hy. unfold ball in Hy. simpl in Hy. unfold AbsRing_ball, abs, minus, plus, opp in Hy. simpl in Hy.
      apply Rabs_def2 in Hy. unfold springEnergyScalar. num_R.
      destruct (tendonDisp_cases y lo hi L) as [[C D]|[[C D]|[[C1 C2] D]]]; try lra. rewrite D. reflexivity.
    + apply spring_is_gradient.
  - rewrite B.
    apply (is_derive_ext_loc (fun y : R => springEnergyScalar k [p0; p1] y lo)).
    + exists (mkposreal (lo - len) ltac:(lra)). intros y Hy. unfold ball in Hy. simpl in Hy. unfold AbsRing_ball, abs, minus, plus, opp in Hy. simpl in Hy.
      apply Rabs_def2 in Hy. unfold springEnergyScalar. num_R.
      destruct (tendonDisp_cases y lo hi L) as [[C D]|[[C D]|[[C1 C2] D]]]; try lra. rewrite D. reflexivity.
    + apply spring_is_gradient.
  - rewrite B. assert (lo < len < hi) by lra.
    apply (is_derive_ext_loc (fun y : R => polyPotential k [p0; p1] 0 false)).
    + exists (mkposreal (Rmin (len - lo) (hi - len)) ltac:(apply Rmin_pos; lra)). intros y Hy.
      unfold ball in Hy. simpl in Hy. unfold AbsRing_ball, abs, minus, plus, opp in Hy. simpl in Hy.
      apply Rabs_def2 in Hy.
      assert (Rmin (len - lo) (hi - len) <= len - lo) by apply Rmin_l.
      assert (Rmin (len - lo) (hi - len) <= hi - len) by apply Rmin_r.
      rewrite tendonDisp_inside by lra. reflexivity.
    + unfold springForce. num_R. replace (- (- 0 * polyForce k [p0; p1] 0 false)) with 0 by ring.
      apply @is_derive_const.
Qed.

(* ------------------------------------------------------------------ damping never adds energy *)
Lemma polyLoop_nonneg (poly : list R) (x : R) :
  0 <= x -> List.Forall (fun c : R => 0 <= c) poly ->
  forall res xpow : R, 0 <= res -> 0 <= xpow -> res <= polyLoop poly x res xpow.
Proof.
  intros Hx Hp. induction Hp as [|c r Hc Hr IH]; intros res xpow Hres Hxp; cbn [polyLoop]; [lra|]. num_R.
  assert (0 <= xpow * x) by (apply Rmult_le_pos; lra).
  assert (0 <= c * (xpow * x)) by (apply Rmult_le_pos; lra).
  specialize (IH (res + c * (xpow * x)) (xpow * x)). lra.
Qed.

Lemma damping_dissipates (b : R) (poly : list R) (v : R) :
  0 <= b -> List.Forall (fun c : R => 0 <= c) poly -> v * damperForce b poly v <= 0.
Proof.
  intros Hb Hp. unfold damperForce, polyForce. num_R.
  assert (Hq : b <= polyLoop poly (Rabs v) b 1) by (apply polyLoop_nonneg; auto using Rabs_pos; lra).
  set (c := polyLoop poly (Rabs v) b 1) in *. assert (0 <= v * v) by nra. nra.
Qed.

(* actuator-inherited damping: non-negative coefficients stay non-negative for gears of ANY sign and size *)
Lemma actDampingStep_nonneg (acc : R * list R) (g d : R) (dp : list R) :
  0 <= fst acc -> List.Forall (fun c : R => 0 <= c) (snd acc) -> 0 <= d -> List.Forall (fun c : R => 0 <= c) dp ->
  0 <= fst (actDampingStep acc (g, d, dp)) /\ List.Forall (fun c : R => 0 <= c) (snd (actDampingStep acc (g, d, dp))).
Proof.
  intros H0 Hp Hd Hdp. unfold actDampingStep. cbn [fst snd]. num_R. split.
  - assert (0 <= d * (g * g)) by (apply Rmult_le_pos; [lra|nra]). lra.
  - revert dp Hdp. induction Hp as [|c r Hc Hr IH]; intros dp Hdp; [constructor|].
    destruct dp as [|x dp]; [constructor|]. inversion Hdp; subst. cbn [combine map]. constructor.
    + cbn [fst snd]. assert (0 <= x * (g * g)) by (apply Rmult_le_pos; [lra|nra]). lra.
    + apply IH. assumption.
Qed.

Lemma effDamping_nonneg (b0 : R) (poly0 : list R) (acts : list (R * R * list R)) :
  0 <= b0 -> List.Forall (fun c : R => 0 <= c) poly0 ->
  List.Forall (fun a : R * R * list R => 0 <= snd (fst a) /\ List.Forall (fun c : R => 0 <= c) (snd a)) acts ->
  0 <= fst (effDamping b0 poly0 acts) /\ List.Forall (fun c : R => 0 <= c) (snd (effDamping b0 poly0 acts)).
Proof.
  intros Hb Hp Ha. unfold effDamping. cbn [fst snd]. num_R.
  assert (G : forall acc : R * list R, 0 <= fst acc -> List.Forall (fun c : R => 0 <= c) (snd acc) ->
              0 <= fst (fold_left actDampingStep acts acc) /\ List.Forall (fun c : R => 0 <= c) (snd (fold_left actDampingStep acts acc))).
  { induction Ha as [|a r Hx Hr IH]; intros acc H0 H1; [split; assumption|].
    cbn [fold_left]. destruct a as [[g d] dp]. cbn [fst snd] in Hx. destruct Hx as [Hd Hdp].
    destruct (actDampingStep_nonneg acc g d dp H0 H1 Hd Hdp) as [A B]. apply IH; assumption. }
  destruct (G (0, poly0)) as [A B]; cbn [fst snd]; [lra|exact Hp|]. split; [lra|exact B].
Qed.

Lemma actuator_damping_dissipates (b0 : R) (poly0 : list R) (acts : list (R * R * list R)) (v : R) :
  0 <= b0 -> List.Forall (fun c : R => 0 <= c) poly0 ->
  List.Forall (fun a : R * R * list R => 0 <= snd (fst a) /\ List.Forall (fun c : R => 0 <= c) (snd a)) acts ->
  v * damperForce (fst (effDamping b0 poly0 acts)) (snd (effDamping b0 poly0 acts)) v <= 0.
Proof.
  intros Hb Hp Ha. destruct (effDamping_nonneg b0 poly0 acts Hb Hp Ha) as [A B]. apply damping_dissipates; assumption.
Qed.

(* closed form for two actuators on one joint: b0 + d1 g1^2 + d2 g2^2 *)
Lemma effDamping_two (b0 g1 d1 g2 d2 : R) :
  fst (effDamping b0 [] [(g1, d1, []); (g2, d2, [])]) = b0 + d1 * (g1 * g1) + d2 * (g2 * g2).
Proof. unfold effDamping, actDampingStep. cbn [fold_left fst snd]. num_R. ring. Qed.

Definition dotr (a b : list R) : R := fold_left (fun s xy => s + fst xy * snd xy) (combine a b) 0.

Lemma dotr_scl_gen (J qvel : list R) (f : R) :
  forall acc : R,
    fold_left (fun s xy => s + fst xy * snd xy) (combine qvel (map (fun j : R => j * f) J)) (acc * f) =
    fold_left (fun s xy => s + fst xy * snd xy) (combine J qvel) acc * f.
Proof.
  revert qvel; induction J as [|j J IH]; intros [|q qvel] acc; simpl; auto.
  replace (acc * f + q * (j * f)) with ((acc + j * q) * f) by ring. apply IH.
Qed.

(* power of a tendon force f through the tendon Jacobian: qvel . (J^T f) = (J . qvel) f *)
Lemma tendon_power (J qvel : list R) (f : R) : dotr qvel (map (fun j : R => j * f) J) = dotr J qvel * f.
Proof. unfold dotr. rewrite <- (dotr_scl_gen J qvel f 0). f_equal. ring. Qed.

Lemma tendon_damping_dissipates (b : R) (dpoly : list R) (J qvel : list R) :
  0 <= b -> List.Forall (fun c : R => 0 <= c) dpoly ->
  dotr qvel (map (fun j : R => j * damperForce b dpoly (dotr J qvel)) J) <= 0.
Proof. intros Hb Hp. rewrite tendon_power. apply damping_dissipates; assumption. Qed.

(* ------------------------------------------------------------------ rest *)
Lemma springForce_rest (k : R) (poly : list R) : springForce k poly 0 = 0.
Proof. unfold springForce. num_R. ring. Qed.

Lemma damperForce_rest (b : R) (poly : list R) : damperForce b poly 0 = 0.
Proof. unfold damperForce. num_R. ring. Qed.

Lemma setNth_repeat0 (n dof : nat) : setNth (repeat (0:R) n) dof 0 = repeat 0 n.
Proof. revert dof; induction n as [|n IH]; intros [|dof]; simpl; auto. f_equal. apply IH. Qed.

Definition scalarAtRef (j : @JointSpring R) : Prop :=
  match j with JScalar _ _ _ q qs => q = qs | _ => False end.

Lemma jointSprings_rest (nv : nat) (joints : list (@JointSpring R)) :
  List.Forall scalarAtRef joints -> fold_left jointSpring joints (repeat 0 nv) = repeat 0 nv.
Proof.
  intros Hall. induction Hall as [|j r Hj Hr IH]; [reflexivity|].
  cbn [fold_left]. destruct j as [dof k poly q qs| |]; try contradiction. simpl in Hj. subst qs.
  unfold jointSpring. destruct ((k =? nzero)%num && allZero poly); [exact IH|].
  num_R. replace (q - q) with 0 by ring. rewrite springForce_rest, setNth_repeat0. exact IH.
Qed.

Lemma dofDampers_rest (dofs : list (R * list R * R)) :
  List.Forall (fun d : R * list R * R => snd d = 0) dofs -> map dofDamper dofs = repeat 0 (length dofs).
Proof.
  intros Hall. induction Hall as [|d r Hd Hr IH]; [reflexivity|].
  cbn [map length repeat]. rewrite IH. f_equal. destruct d as [[b poly] v]. simpl in Hd. subst v.
  unfold dofDamper. destruct (negb (b =? nzero)%num || negb (allZero poly)); [apply damperForce_rest|reflexivity].
Qed.

Definition tendonAtRest (t : @Tendon R) : Prop := t_lower t <= t_len t <= t_upper t /\ t_vel t = 0.

Lemma tendonStep_rest (es ed : bool) (sd : list R * list R) (t : @Tendon R) : tendonAtRest t -> tendonStep es ed sd t = sd.
Proof.
  intros [Hl Hv]. unfold tendonStep. destruct (tendonSkip es ed t); [reflexivity|].
  assert (E1 : tendonSpring es t = 0).
  { unfold tendonSpring. destruct es; [|reflexivity]. rewrite tendonDisp_inside by exact Hl. apply springForce_rest. }
  assert (E2 : tendonDamper ed t = 0).
  { unfold tendonDamper. destruct ed; [|reflexivity]. rewrite Hv. apply damperForce_rest. }
  rewrite E1, E2. num_R.
  assert (E : Reqb 0 0 = true) by (apply Reqb_true; reflexivity). rewrite E. reflexivity.
Qed.

Lemma rest_system (nv : nat) (es ed : bool) (joints : list (@JointSpring R)) (dofs : list (R * list R * R)) (tendons : list (@Tendon R)) :
  List.Forall scalarAtRef joints -> List.Forall (fun d : R * list R * R => snd d = 0) dofs -> length dofs = nv ->
  List.Forall tendonAtRest tendons ->
  springdamper nv es ed joints dofs tendons = (repeat 0 nv, repeat 0 nv).
Proof.
  intros Hj Hd Hn Ht. unfold springdamper. num_R.
  assert (E1 : (if es then fold_left jointSpring joints (repeat 0 nv) else repeat 0 nv) = repeat 0 nv)
    by (destruct es; [apply jointSprings_rest; exact Hj|reflexivity]).
  assert (E2 : (if ed then map dofDamper dofs else repeat 0 nv) = repeat 0 nv)
    by (destruct ed; [rewrite dofDampers_rest by exact Hd; rewrite Hn; reflexivity|reflexivity]).
  rewrite E1, E2. clear E1 E2.
  induction Ht as [|t r Ht Hr IH]; [reflexivity|]. cbn [fold_left]. rewrite tendonStep_rest by exact Ht. exact IH.
Qed.

Lemma vsum_zeros (n : nat) : vsum (repeat (0:R) n) (repeat 0 n) = repeat 0 n.
Proof. unfold vsum. induction n as [|n IH]; simpl; auto. f_equal; [num_R; ring|exact IH]. Qed.

Lemma rest_passive (nv : nat) (gc : list R) (actgc : list bool) :
  passive (repeat 0 nv) (repeat 0 nv) gc false actgc = repeat 0 nv.
Proof. unfold passive. apply vsum_zeros. Qed.

(* ------------------------------------------------------------------ gravity compensation *)
Lemma gravcomp_force (gravity : vec3 R) (mass gc : R) :
  gravcompForce gravity mass gc = scl3 gravity (- (gc * mass)).
Proof. unfold gravcompForce. num_R. f_equal. ring. Qed.

(* generalized gravity force of the body (jacp^T (mass*gravity)) plus its gravity compensation is the
   fraction (1 - gc) of the former; for gc = 1 nothing is left *)
Lemma gravcomp_cancels (jacp : list (vec3 R)) (gravity : vec3 R) (mass gc : R) (qfrc : list R) :
  applyForce jacp (gravcompForce gravity mass gc) (applyForce jacp (scl3 gravity mass) qfrc) =
  applyForce jacp (scl3 gravity (mass * (1 - gc))) qfrc.
Proof.
  unfold applyForce, gravcompForce. revert qfrc; induction jacp as [|j jr IH]; intros [|q qr]; simpl; auto.
  rewrite IH. f_equal. destruct j as [[a b] c]. destruct gravity as [[g0 g1] g2]. unfold dot3, scl3. num_R. ring.
Qed.

Lemma applyForce_zero (jacp : list (vec3 R)) (qfrc : list R) :
  length jacp = length qfrc -> applyForce jacp (0, 0, 0) qfrc = qfrc.
Proof.
  unfold applyForce. revert qfrc; induction jacp as [|j jr IH]; intros [|q qr] Hl; simpl in *; try discriminate; auto.
  rewrite IH by lia. f_equal. destruct j as [[a b] c]. unfold dot3. num_R. ring.
Qed.

Lemma gravcomp_full (jacp : list (vec3 R)) (gravity : vec3 R) (mass : R) (qfrc : list R) :
  length jacp = length qfrc ->
  applyForce jacp (gravcompForce gravity mass 1) (applyForce jacp (scl3 gravity mass) qfrc) = qfrc.
Proof.
  intros Hl. rewrite gravcomp_cancels. replace (scl3 gravity (mass * (1 - 1))) with ((0, 0, 0) : vec3 R).
  - apply applyForce_zero. exact Hl.
  - destruct gravity as [[g0 g1] g2]. unfold scl3. num_R. f_equal; [f_equal|]; ring.
Qed.
