(* Proofs about mju_dense2Band / mju_band2Dense (Model/Sparse.v) at R: round trips. *)
From Coq Require Import ZArith List Bool Arith Lia PrimFloat Reals Lra.
From MJV Require Import Lib.Num Lib.NumR Model.Sparse Proof.LinAlgBase Proof.SparseProof Proof.SparseCompressProof.
Import ListNotations.
Open Scope R_scope.

(* (i, j) is stored by the band-dense format: inside the band of a banded row, or anywhere in the
   lower triangle of a dense row *)
Definition inband (nsparse nband i j : nat) : bool :=
  if Nat.ltb i nsparse then Nat.leb (i - band_width nband i) j && Nat.leb j i else Nat.leb j i.

Lemma slice_app_exact : forall (A : Type) (l1 l2 : list A) (k n : nat),
  length l1 = k -> slice k n (l1 ++ l2) = firstn n l2.
Proof.
  intros A l1 l2 k n Hk. unfold slice. rewrite skipn_app, skipn_all2 by lia.
  rewrite Hk, Nat.sub_diag. reflexivity.
Qed.

Lemma firstn_app_exact : forall (A : Type) (l1 l2 : list A) (n : nat),
  length l1 = n -> firstn n (l1 ++ l2) = l1.
Proof.
  intros A l1 l2 n Hn. rewrite firstn_app, Hn, Nat.sub_diag. simpl. rewrite app_nil_r.
  apply firstn_all2. lia.
Qed.

Lemma nth_mid : forall (p q j : nat) (X : list R),
  nth j (repeat 0 p ++ X ++ repeat 0 q) 0 =
  if Nat.ltb j p then 0 else if Nat.ltb (j - p) (length X) then nth (j - p) X 0 else 0.
Proof.
  intros p q j X. destruct (Nat.ltb_spec j p).
  - rewrite app_nth1 by (rewrite repeat_length; auto). apply nth_repeat0.
  - rewrite app_nth2 by (rewrite repeat_length; auto). rewrite repeat_length.
    destruct (Nat.ltb_spec (j - p) (length X)).
    + rewrite app_nth1 by auto. reflexivity.
    + rewrite app_nth2 by auto. apply nth_repeat0.
Qed.

Section Band.
Variables (ntotal nband nsparse ndense : nat).
Variables (M B0 D0 : list (list R)).
Hypothesis Hnt : (nsparse + ndense = ntotal)%nat.
Hypothesis Hnb : (1 <= nband)%nat.
Hypothesis HB0 : length B0 = nsparse.
Hypothesis HD0 : length D0 = ndense.
Hypothesis HB0r : forall i : nat, (i < nsparse)%nat -> length (nth i B0 []) = nband.
Hypothesis HD0r : forall i : nat, (i < ndense)%nat -> length (nth i D0 []) = ntotal.
Hypothesis HMr : forall i : nat, (i < ntotal)%nat -> length (nth i M []) = ntotal.

Let BD := dense2Band ntotal nband M B0 D0.
Let B := fst BD.
Let D := snd BD.

Lemma band_B_row : forall i : nat, (i < nsparse)%nat ->
  nth i B [] = firstn (nband - (band_width nband i + 1)) (nth i B0 []) ++
               slice (i - band_width nband i) (band_width nband i + 1) (nth i M []).
Proof.
  intros i Hi. unfold B, BD, dense2Band. simpl fst. rewrite HB0.
  rewrite (nth_map_seq0 _ _ nsparse i []) by auto. reflexivity.
Qed.

Lemma band_D_row : forall i : nat, (nsparse <= i < ntotal)%nat ->
  nth (i - nsparse) D [] = firstn (i + 1) (nth i M []) ++ skipn (i + 1) (nth (i - nsparse) D0 []).
Proof.
  intros i Hi. unfold D, BD, dense2Band. simpl snd. rewrite HB0, HD0.
  rewrite (nth_map_seq _ _ nsparse ndense (i - nsparse) []) by lia.
  replace (nsparse + (i - nsparse))%nat with i by lia. reflexivity.
Qed.

Lemma band_lengths : length B = nsparse /\ length D = ndense.
Proof.
  unfold B, D, BD, dense2Band. simpl. rewrite !map_length, !seq_length. auto.
Qed.

Lemma bw_le : forall i : nat, (band_width nband i <= i)%nat /\ (band_width nband i + 1 <= nband)%nat.
Proof. intros i. unfold band_width. lia. Qed.

(* band2Dense (dense2Band M) = the stored part of M, zero elsewhere *)
Lemma band2Dense_dense2Band : forall i j : nat, (i < ntotal)%nat -> (j < ntotal)%nat ->
  dget (band2Dense ntotal nband B D false) i j = if inband nsparse nband i j then dget M i j else 0.
Proof.
  intros i j Hi Hj. destruct band_lengths as [HlB HlD].
  unfold band2Dense, band2Dense_rows, dget. rewrite HlB, HlD. unfold inband.
  destruct (bw_le i) as [Hw1 Hw2].
  destruct (Nat.ltb_spec i nsparse) as [His|His].
  - rewrite app_nth1 by (rewrite map_length, seq_length; auto).
    rewrite (nth_map_seq0 _ _ nsparse i []) by auto. cbv zeta.
    rewrite band_B_row by auto.
    rewrite slice_app_exact.
    2:{ rewrite firstn_length, HB0r by auto. lia. }
    assert (Hsl : length (slice (i - band_width nband i) (band_width nband i + 1) (nth i M [])) = (band_width nband i + 1)%nat).
    { apply slice_length. rewrite HMr by auto. lia. }
    rewrite firstn_all2 by (rewrite Hsl; auto).
    num_R. rewrite nth_mid. rewrite Hsl.
    destruct (Nat.ltb_spec j (i - band_width nband i)).
    + destruct (Nat.leb_spec (i - band_width nband i) j); [lia|]. reflexivity.
    + destruct (Nat.leb_spec (i - band_width nband i) j); [|lia].
      destruct (Nat.ltb_spec (j - (i - band_width nband i)) (band_width nband i + 1)).
      * destruct (Nat.leb_spec j i); [|lia]. simpl. rewrite nth_slice by auto. f_equal. lia.
      * destruct (Nat.leb_spec j i); [lia|]. reflexivity.
  - rewrite app_nth2 by (rewrite map_length, seq_length; auto). rewrite map_length, seq_length.
    rewrite (nth_map_seq _ _ nsparse ndense (i - nsparse) []) by lia.
    replace (nsparse + (i - nsparse))%nat with i by lia.
    rewrite band_D_row by lia.
    assert (Hf : length (firstn (i + 1) (nth i M [])) = (i + 1)%nat).
    { rewrite firstn_length, HMr by auto. lia. }
    rewrite firstn_app, Hf, Nat.sub_diag. simpl firstn at 2. rewrite app_nil_r.
    rewrite firstn_all2 by (rewrite Hf; auto).
    num_R. destruct (Nat.leb_spec j i).
    + rewrite app_nth1 by (rewrite Hf; lia). apply nth_firstn_lt'. lia.
    + rewrite app_nth2 by (rewrite Hf; lia). apply nth_repeat0.
Qed.

End Band.

(* band -> dense -> band reproduces the storage exactly (unused slots included) *)
Lemma dense2Band_band2Dense : forall (ntotal nband : nat) (B D : list (list R)),
  (length B + length D = ntotal)%nat -> (1 <= nband)%nat ->
  (forall i : nat, (i < length B)%nat -> length (nth i B []) = nband) ->
  (forall i : nat, (i < length D)%nat -> length (nth i D []) = ntotal) ->
  dense2Band ntotal nband (band2Dense ntotal nband B D false) B D = (B, D).
Proof.
  intros ntotal nband B D Hnt Hnb HBr HDr.
  unfold dense2Band, band2Dense, band2Dense_rows. f_equal.
  - apply (nth_ext_len (list R) []); [rewrite map_length, seq_length; auto|].
    rewrite map_length, seq_length. intros i Hi.
    rewrite (nth_map_seq0 _ _ (length B) i []) by auto. cbv zeta.
    rewrite app_nth1 by (rewrite map_length, seq_length; auto).
    rewrite (nth_map_seq0 _ _ (length B) i []) by auto. cbv zeta.
    set (w := band_width nband i).
    assert (Hw : (w <= i)%nat /\ (w + 1 <= nband)%nat) by (unfold w, band_width; lia).
    assert (Hsl : length (slice (nband - (w + 1)) (w + 1) (nth i B [])) = (w + 1)%nat).
    { apply slice_length. rewrite HBr by auto. lia. }
    rewrite slice_app_exact by (rewrite repeat_length; auto).
    rewrite firstn_app_exact by (apply slice_length; rewrite HBr by auto; lia).
    unfold slice. rewrite <- (firstn_skipn (nband - (w + 1)) (nth i B [])) at 3. f_equal.
    apply firstn_all2. rewrite skipn_length, HBr by auto. lia.
  - apply (nth_ext_len (list R) []); [rewrite map_length, seq_length; auto|].
    rewrite map_length, seq_length. intros k Hk.
    rewrite (nth_map_seq _ _ (length B) (length D) k []) by auto.
    rewrite app_nth2 by (rewrite map_length, seq_length; lia). rewrite map_length, seq_length.
    replace (length B + k - length B)%nat with k by lia.
    rewrite (nth_map_seq _ _ (length B) (length D) k []) by auto.
    replace (length B + k - length B)%nat with k by lia.
    assert (Hf : length (firstn (length B + k + 1) (nth k D [])) = (length B + k + 1)%nat).
    { rewrite firstn_length, HDr by auto. lia. }
    rewrite firstn_app_exact by (rewrite firstn_length, HDr by auto; lia).
    apply firstn_skipn.
Qed.

(* flg_sym: the strict upper triangle mirrors the lower one *)
Lemma symmetrize_upper_get : forall (n : nat) (L : list (list R)) (i j : nat), (i < n)%nat -> (j < n)%nat ->
  dget (symmetrize_upper n L) i j = if Nat.ltb i j then dget L j i else dget L i j.
Proof.
  intros n L i j Hi Hj. unfold symmetrize_upper. unfold dget at 1.
  rewrite (nth_map_seq0 _ _ n i []) by auto.
  rewrite (nth_map_seq0 _ _ n j nzero) by auto. reflexivity.
Qed.
