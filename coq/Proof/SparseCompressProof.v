(* Proofs about mju_compressSparse (Model/Sparse.v, in-place model) at R: for any layout whose
   rows are stored in increasing address order without overlap (gaps allowed), the in-place shift
   never overwrites an entry it still has to read; every row of the result is the filtered row of
   the input, and the result is compressed. *)
From Coq Require Import ZArith List Bool Arith Lia PrimFloat Reals Lra.
From MJV Require Import Lib.Num Lib.NumR Model.Sparse Proof.LinAlgBase Proof.SparseProof.
Import ListNotations.
Open Scope R_scope.

Definition e0 : entR := (0%nat, 0).

(* ------------------------------------------------------------------ slices *)
Lemma nth_firstn_lt' : forall (A : Type) (l : list A) (n j : nat) (d : A),
  (j < n)%nat -> nth j (firstn n l) d = nth j l d.
Proof.
  intros A l; induction l as [|x r IH]; intros n j d Hj.
  - rewrite firstn_nil. reflexivity.
  - destruct n as [|n]; [lia|]. destruct j as [|j]; simpl; auto. apply IH; lia.
Qed.

Lemma nth_skipn' : forall (A : Type) (a t : nat) (l : list A) (d : A), nth t (skipn a l) d = nth (a + t) l d.
Proof.
  intros A a; induction a as [|a IH]; intros t l d; simpl; auto.
  destruct l as [|x r]; [destruct t; reflexivity|]. apply IH.
Qed.

Lemma slice_length : forall (A : Type) (a n : nat) (l : list A), (a + n <= length l)%nat -> length (slice a n l) = n.
Proof. intros A a n l H. unfold slice. rewrite firstn_length, skipn_length. lia. Qed.

Lemma nth_slice : forall (A : Type) (a n t : nat) (l : list A) (d : A),
  (t < n)%nat -> nth t (slice a n l) d = nth (a + t) l d.
Proof.
  intros A a n t l d Ht. unfold slice. rewrite nth_firstn_lt' by auto. apply nth_skipn'.
Qed.

Lemma slice_ext : forall (A : Type) (d : A) (a1 a2 n : nat) (l1 l2 : list A),
  (a1 + n <= length l1)%nat -> (a2 + n <= length l2)%nat ->
  (forall t : nat, (t < n)%nat -> nth (a1 + t) l1 d = nth (a2 + t) l2 d) -> slice a1 n l1 = slice a2 n l2.
Proof.
  intros A d a1 a2 n l1 l2 H1 H2 H. apply (nth_ext_len A d).
  - rewrite !slice_length; auto.
  - rewrite slice_length by auto. intros t Ht. rewrite !nth_slice by auto. apply H; auto.
Qed.

Lemma slice_S : forall (A : Type) (d : A) (a n : nat) (l : list A),
  (a + S n <= length l)%nat -> slice a (S n) l = nth a l d :: slice (S a) n l.
Proof.
  intros A d a n l H. apply (nth_ext_len A d).
  - simpl. rewrite !slice_length by lia. reflexivity.
  - rewrite slice_length by auto. intros t Ht. rewrite nth_slice by auto.
    destruct t as [|t]; simpl.
    + rewrite Nat.add_0_r. reflexivity.
    + rewrite nth_slice by lia. f_equal. lia.
Qed.

(* ------------------------------------------------------------------ one row *)
Definition keepb (rm : bool) (minval : R) (x : entR) : bool := negb (rm && (nabs (snd x) <=? minval)%num).

Lemma compress_row_spec : forall (rm : bool) (minval : R) (k adr_old adr : nat) (e : list entR),
  (adr <= adr_old)%nat -> (adr_old + k <= length e)%nat ->
  let res := compress_row rm minval k adr_old adr e in
  let e' := fst (fst res) in let adr' := snd (fst res) in let n := snd res in
  length e' = length e /\ adr' = (adr + n)%nat /\ (adr' <= adr_old + k)%nat /\
  slice adr n e' = filter (keepb rm minval) (slice adr_old k e) /\
  (forall j : nat, (j < adr)%nat -> nth j e' e0 = nth j e e0) /\
  (forall j : nat, (adr_old + k <= j)%nat -> nth j e' e0 = nth j e e0).
Proof.
  intros rm minval k; induction k as [|k IH]; intros adr_old adr e Hle Hlen.
  - simpl. repeat split; auto; try lia.
  - simpl compress_row. rewrite (slice_S entR e0) by lia. simpl filter. unfold keepb at 1. num_R.
    change (0%nat, 0) with e0.
    destruct (rm && Rleb (Rabs (snd (nth adr_old e e0))) minval) eqn:Ek; simpl negb.
    + specialize (IH (S adr_old) adr e). cbv zeta in IH.
      destruct IH as [H1 [H2 [H3 [H4 [H5 H6]]]]]; try lia.
      cbv zeta. refine (conj H1 (conj H2 (conj _ (conj H4 (conj H5 _))))); [lia|]. intros j Hj. apply H6. lia.
    + specialize (IH (S adr_old) (S adr) (upd adr (nth adr_old e e0) e)). cbv zeta in IH.
      rewrite upd_length in IH.
      destruct IH as [H1 [H2 [H3 [H4 [H5 H6]]]]]; try lia.
      destruct (compress_row rm minval k (S adr_old) (S adr) (upd adr (nth adr_old e e0) e)) as [[e' adr'] n] eqn:Er.
      simpl in *. repeat split; auto; try lia.
      * rewrite (slice_S entR e0) by lia. f_equal.
        -- rewrite H5 by lia. apply nth_upd_eq. lia.
        -- rewrite H4. f_equal. apply (slice_ext entR e0); try (rewrite ?upd_length; lia).
           intros t Ht. apply nth_upd_neq. lia.
      * intros j Hj. rewrite H5 by lia. apply nth_upd_neq. lia.
      * intros j Hj. rewrite H6 by lia. apply nth_upd_neq. lia.
Qed.

(* ------------------------------------------------------------------ all rows *)
Definition adr_of (Sp : csrR) (r : nat) : nat := nth r (c_adr Sp) 0%nat.
Definition nnz_of (Sp : csrR) (r : nat) : nat := nth r (c_nnz Sp) 0%nat.

(* rows in increasing address order, no overlap, inside the arrays; gaps allowed *)
Definition ordered (nr : nat) (Sp : csrR) : Prop :=
  (forall r : nat, (r < nr)%nat -> (adr_of Sp r + nnz_of Sp r <= length (c_ent Sp))%nat) /\
  (forall r : nat, (S r < nr)%nat -> (adr_of Sp r + nnz_of Sp r <= adr_of Sp (S r))%nat).

Lemma ordered_mono : forall (nr : nat) (Sp : csrR), ordered nr Sp ->
  forall r1 r2 : nat, (r1 < r2)%nat -> (r2 < nr)%nat -> (adr_of Sp r1 + nnz_of Sp r1 <= adr_of Sp r2)%nat.
Proof.
  intros nr Sp [_ Hord] r1 r2 Hlt. induction r2 as [|r2 IH]; intros H2; [lia|].
  destruct (Nat.eq_dec r1 r2) as [->|Hne].
  - apply Hord. auto.
  - assert (adr_of Sp r1 + nnz_of Sp r1 <= adr_of Sp r2)%nat by (apply IH; lia).
    assert (adr_of Sp r2 + nnz_of Sp r2 <= adr_of Sp (S r2))%nat by (apply Hord; auto). lia.
Qed.

Definition newrow (rm : bool) (minval : R) (Sp : csrR) (r : nat) : list entR := filter (keepb rm minval) (row Sp r).

Definition cstate : Type := (list entR * nat * list nat * list nat)%type.

Definition cinv (rm : bool) (minval : R) (nr : nat) (Sp : csrR) (k : nat) (st : cstate) : Prop :=
  let '(e, a, nnzs, adrs) := st in
  length e = length (c_ent Sp) /\
  rev nnzs = map (fun r : nat => length (newrow rm minval Sp r)) (seq 0 k) /\
  rev adrs = psums 0 (rev nnzs) /\
  a = sumn (rev nnzs) /\
  (forall r : nat, (k <= r < nr)%nat -> (a <= adr_of Sp r)%nat) /\
  (forall r : nat, (r < k)%nat -> slice (nth r (rev adrs) 0%nat) (nth r (rev nnzs) 0%nat) e = newrow rm minval Sp r) /\
  (forall r j : nat, (k <= r < nr)%nat -> (adr_of Sp r <= j < adr_of Sp r + nnz_of Sp r)%nat -> nth j e e0 = nth j (c_ent Sp) e0).

Lemma sumn_app : forall l1 l2 : list nat, sumn (l1 ++ l2) = (sumn l1 + sumn l2)%nat.
Proof. induction l1 as [|x r IH]; intros l2; simpl; auto. rewrite IH. lia. Qed.

Lemma psums_app : forall (l1 l2 : list nat) (a : nat), psums a (l1 ++ l2) = psums a l1 ++ psums (a + sumn l1) l2.
Proof.
  induction l1 as [|x r IH]; intros l2 a; simpl.
  - rewrite Nat.add_0_r. reflexivity.
  - rewrite IH. f_equal. f_equal. f_equal. lia.
Qed.

Lemma psums_nth_le : forall (l : list nat) (a r : nat), (r < length l)%nat ->
  (nth r (psums a l) 0 + nth r l 0 <= a + sumn l)%nat.
Proof.
  induction l as [|x l IH]; intros a r Hr; simpl in Hr; [lia|].
  destruct r as [|r]; simpl; [lia|]. specialize (IH (a + x)%nat r). lia.
Qed.

Lemma filter_all_id : forall (A : Type) (f : A -> bool) (l : list A),
  (forall x : A, f x = true) -> filter f l = l.
Proof. intros A f l Hf. induction l as [|x r IH]; simpl; auto. rewrite Hf, IH. reflexivity. Qed.

Lemma compress_fold_inv : forall (minval : R) (nr : nat) (Sp : csrR),
  let rm := (nzero <=? minval)%num in
  ordered nr Sp ->
  forall k : nat, (k <= nr)%nat ->
  cinv rm minval nr Sp k (fold_left (compress_step rm minval Sp) (seq 0 k) (c_ent Sp, 0%nat, [], [])).
Proof.
  intros minval nr Sp rm Hord. induction k as [|k IH]; intros Hk.
  - simpl. repeat split; auto; try lia.
  - rewrite fold_left_seq_S. specialize (IH ltac:(lia)).
    destruct (fold_left (compress_step rm minval Sp) (seq 0 k) (c_ent Sp, 0%nat, [], [])) as [[[e a] nnzs] adrs].
    destruct IH as [Hlen [Hnn [Hadr [Ha [Hlo [Hdone Hrest]]]]]].
    unfold compress_step. fold (nnz_of Sp k). fold (adr_of Sp k).
    destruct Hord as [Hin Hnext].
    assert (Hak : (a <= adr_of Sp k)%nat) by (apply Hlo; lia).
    assert (Hek : (adr_of Sp k + nnz_of Sp k <= length e)%nat) by (rewrite Hlen; apply Hin; lia).
    pose proof (compress_row_spec rm minval (nnz_of Sp k) (adr_of Sp k) a e Hak Hek) as Hrow.
    cbv zeta in Hrow.
    destruct (compress_row rm minval (nnz_of Sp k) (adr_of Sp k) a e) as [[e' a'] n] eqn:Er.
    simpl fst in Hrow. simpl snd in Hrow.
    destruct Hrow as [R1 [R2 [R3 [R4 [R5 R6]]]]].
    (* the row just read is the original row k *)
    assert (Hrowk : slice (adr_of Sp k) (nnz_of Sp k) e = row Sp k).
    { unfold row. fold (adr_of Sp k). fold (nnz_of Sp k).
      apply (slice_ext entR e0); try lia.
      intros t Ht. apply (Hrest k); lia. }
    rewrite Hrowk in R4. fold (newrow rm minval Sp k) in R4.
    assert (Hn : n = length (newrow rm minval Sp k)).
    { rewrite <- R4. symmetry. apply slice_length. rewrite R1. lia. }
    assert (Hnnzk : (if rm then n else nnz_of Sp k) = length (newrow rm minval Sp k)).
    { destruct rm eqn:Erm; [exact Hn|].
      unfold newrow. rewrite <- Hrowk.
      rewrite filter_all_id by (intros x; reflexivity).
      rewrite slice_length; auto. }
    unfold cinv. rewrite Hnnzk.
    cbn [rev]. rewrite seq_S, map_app. cbn [map]. rewrite <- Hnn.
    split; [lia|]. split; [reflexivity|]. split.
    { rewrite psums_app. cbn [psums]. rewrite <- Hadr, Nat.add_0_l, <- Ha. reflexivity. }
    split. { rewrite sumn_app. cbn [sumn fold_right]. lia. }
    assert (Hlenr : length (rev nnzs) = k) by (rewrite Hnn, map_length, seq_length; auto).
    assert (Hlena : length (rev adrs) = k) by (rewrite Hadr, psums_length; auto).
    split.
    { intros r Hr. assert (adr_of Sp k + nnz_of Sp k <= adr_of Sp r)%nat by (apply (ordered_mono nr Sp); try split; auto; lia). lia. }
    split.
    { intros r Hr. destruct (Nat.eq_dec r k) as [->|Hne].
      - rewrite !app_nth2 by lia. rewrite Hlenr, Hlena, Nat.sub_diag. cbn [nth]. rewrite <- Hn. exact R4.
      - rewrite !app_nth1 by lia. rewrite <- (Hdone r) by lia.
        assert (Hb : (nth r (rev adrs) 0 + nth r (rev nnzs) 0 <= a)%nat).
        { rewrite Hadr, Ha. pose proof (psums_nth_le (rev nnzs) 0 r). lia. }
        apply (slice_ext entR e0); try lia.
        intros t Ht. apply R5. lia. }
    { intros r j Hr Hj. rewrite <- (Hrest r j) by lia. apply R6.
      assert (adr_of Sp k + nnz_of Sp k <= adr_of Sp r)%nat by (apply (ordered_mono nr Sp); try split; auto; lia). lia. }
Qed.

Lemma psums_last : forall (l : list nat) (a : nat), l <> [] ->
  (nth (length l - 1) (psums a l) 0 + nth (length l - 1) l 0 = a + sumn l)%nat.
Proof.
  induction l as [|x l IH]; intros a Hne; [congruence|].
  destruct l as [|y l]; [simpl; lia|].
  specialize (IH (a + x)%nat ltac:(discriminate)).
  replace (length (x :: y :: l) - 1)%nat with (S (length (y :: l) - 1)) by (simpl; lia).
  change (psums a (x :: y :: l)) with (a :: psums (a + x) (y :: l)).
  change (sumn (x :: y :: l)) with (x + sumn (y :: l))%nat.
  change (nth (S (length (y :: l) - 1)) (a :: psums (a + x) (y :: l)) 0%nat)
    with (nth (length (y :: l) - 1) (psums (a + x) (y :: l)) 0%nat).
  change (nth (S (length (y :: l) - 1)) (x :: y :: l) 0%nat) with (nth (length (y :: l) - 1) (y :: l) 0%nat).
  lia.
Qed.

Lemma compressSparse_spec : forall (minval : R) (nr : nat) (Sp : csrR), ordered nr Sp ->
  let rm := (nzero <=? minval)%num in
  let S' := compressSparse nr Sp minval in
  (forall r : nat, (r < nr)%nat -> row S' r = newrow rm minval Sp r) /\
  c_nnz S' = map (fun r : nat => length (newrow rm minval Sp r)) (seq 0 nr) /\
  c_adr S' = psums 0 (c_nnz S') /\
  length (c_ent S') = length (c_ent Sp) /\
  ((1 <= nr)%nat -> compressSparse_ret nr Sp minval = sumn (c_nnz S')).
Proof.
  intros minval nr Sp Hord rm S'.
  pose proof (compress_fold_inv minval nr Sp Hord nr (Nat.le_refl nr)) as Hinv.
  unfold compressSparse_ret. fold S'. unfold S', compressSparse. fold rm.
  fold rm in Hinv.
  destruct (fold_left (compress_step rm minval Sp) (seq 0 nr) (c_ent Sp, 0%nat, [], [])) as [[[e a] nnzs] adrs].
  destruct Hinv as [Hlen [Hnn [Hadr [Ha [Hlo [Hdone Hrest]]]]]].
  cbn [c_nnz c_adr c_ent]. split; [|split; [exact Hnn|split; [exact Hadr|split; [exact Hlen|]]]].
  - intros r Hr. unfold row. cbn [c_nnz c_adr c_ent]. apply Hdone. exact Hr.
  - intros Hnr. rewrite Hadr.
    assert (Hl : length (rev nnzs) = nr) by (rewrite Hnn, map_length, seq_length; auto).
    rewrite <- Hl. pose proof (psums_last (rev nnzs) 0) as H. rewrite Nat.add_0_l in H. apply H.
    intros E. rewrite E in Hl. simpl in Hl. lia.
Qed.

(* dense meaning: entries with |x| <= minval (minval >= 0) become zeros, nothing else changes *)
Definition thresh (rm : bool) (minval x : R) : R := if rm && Rleb (Rabs x) minval then 0 else x.

Lemma cols_filter_in : forall (f : entR -> bool) (es : list entR) (c : nat),
  In c (cols (filter f es)) -> In c (cols es).
Proof.
  intros f es c Hin. unfold cols in *. apply in_map_iff in Hin. destruct Hin as [e [He Hin]].
  apply filter_In in Hin. apply in_map_iff. exists e. tauto.
Qed.

Lemma nodup_cols_filter : forall (f : entR -> bool) (es : list entR), NoDup (cols es) -> NoDup (cols (filter f es)).
Proof.
  intros f es; induction es as [|[c x] r IH]; intros Hnd; simpl; [constructor|].
  inversion Hnd as [|a l Hna Hnd']; subst.
  destruct (f (c, x)); simpl; auto. constructor; auto.
  intros Hin. apply Hna. apply (cols_filter_in f). exact Hin.
Qed.

Lemma lk_filter_keep : forall (rm : bool) (minval : R) (es : list entR) (c : nat),
  NoDup (cols es) -> lk c (filter (keepb rm minval) es) = thresh rm minval (lk c es).
Proof.
  intros rm minval es c; induction es as [|[c0 x0] r IH]; intros Hnd.
  - simpl. unfold thresh. destruct (rm && Rleb (Rabs 0) minval); reflexivity.
  - simpl in Hnd. inversion Hnd as [|a l Hna Hnd']; subst. simpl filter.
    unfold keepb at 1. num_R. simpl snd.
    destruct (rm && Rleb (Rabs x0) minval) eqn:Ek; simpl negb; cbn [lk].
    + destruct (Nat.eqb_spec c0 c) as [->|Hne]; [|apply IH; auto].
      unfold thresh. rewrite Ek. apply lk_notin. intros Hin. apply Hna. apply (cols_filter_in (keepb rm minval)). exact Hin.
    + destruct (Nat.eqb_spec c0 c) as [->|Hne]; [|apply IH; auto].
      unfold thresh. rewrite Ek. reflexivity.
Qed.

Lemma compressSparse_dense : forall (minval : R) (nr nc : nat) (Sp : csrR),
  ordered nr Sp -> wf_pattern nr nc Sp ->
  let rm := (nzero <=? minval)%num in
  sparse2dense nr nc (compressSparse nr Sp minval) = map (map (thresh rm minval)) (sparse2dense nr nc Sp) /\
  wf_pattern nr nc (compressSparse nr Sp minval) /\
  (minval < 0 -> sparse2dense nr nc (compressSparse nr Sp minval) = sparse2dense nr nc Sp).
Proof.
  intros minval nr nc Sp Hord Hwf rm.
  destruct (compressSparse_spec minval nr Sp Hord) as [Hrows _]. fold rm in Hrows.
  assert (Hwf' : wf_pattern nr nc (compressSparse nr Sp minval)).
  { intros r Hr. rewrite Hrows by auto. destruct (Hwf r Hr) as [Hnd Hrg]. split.
    - apply nodup_cols_filter. exact Hnd.
    - apply Forall_forall. intros c Hc. apply cols_filter_in in Hc. rewrite Forall_forall in Hrg. auto. }
  assert (Hmain : sparse2dense nr nc (compressSparse nr Sp minval) = map (map (thresh rm minval)) (sparse2dense nr nc Sp)).
  { unfold sparse2dense. rewrite map_map. apply map_ext_in. intros r Hr. apply in_seq in Hr.
    apply (nth_ext_len R 0).
    - rewrite map_length, !s2d_row_length. reflexivity.
    - rewrite s2d_row_length. intros c Hc.
      rewrite s2d_row_nth by (apply Hwf'; lia). rewrite Hrows by lia.
      unfold newrow. rewrite lk_filter_keep by (apply (Hwf r); lia).
      rewrite (nth_indep _ 0 (thresh rm minval 0)) by (rewrite map_length, s2d_row_length; auto).
      rewrite (map_nth (thresh rm minval)). rewrite s2d_row_nth by (apply Hwf; lia). reflexivity. }
  split; [exact Hmain|split; [exact Hwf'|]].
  intros Hneg. rewrite Hmain.
  assert (Erm : rm = false).
  { unfold rm. num_R. apply Rleb_false. exact Hneg. }
  rewrite Erm. rewrite <- (map_id (sparse2dense nr nc Sp)) at 2. apply map_ext. intros rw.
  rewrite <- (map_id rw) at 2. apply map_ext. intros x. reflexivity.
Qed.
