(* Proofs about Model/Scene.v (C50). *)
From Coq Require Import ZArith List Bool Lia Sorted.
From MJV Require Import Model.Scene.
Import ListNotations.
Open Scope Z_scope.

Definition lenZ {B} (l : list B) : Z := Z.of_nat (length l).

Lemma zseq_succ : forall n, 0 <= n -> zseq (n + 1) = zseq n ++ [n].
Proof.
  intros. unfold zseq. replace (Z.to_nat (n + 1)) with (S (Z.to_nat n)) by lia.
  rewrite seq_S, map_app. simpl. f_equal. f_equal. lia.
Qed.

Lemma bump_idem : forall x, bump (bump x) = bump x.
Proof. intros. unfold bump. destruct (x =? 0) eqn:E; simpl; auto. rewrite E. auto. Qed.

Lemma bump_nonzero : forall x, bump x <> 0.
Proof. intros. unfold bump. destruct (x =? 0) eqn:E; [lia|]. apply Z.eqb_neq in E. auto. Qed.

Lemma bump_sticky : forall x, x <> 0 -> bump x = x.
Proof. intros. unfold bump. apply Z.eqb_neq in H. rewrite H. auto. Qed.

Section MachineProofs.
  Context {A : Type}.
  Notation scn := (@scene A).

  Definition WF (s : scn) : Prop :=
    0 <= ngeom s <= maxgeom s /\ map fst (geoms s) = zseq (ngeom s).

  Lemma step_maxgeom : forall (s : scn) a, maxgeom (step s a) = maxgeom s.
  Proof. intros. unfold step. destruct (maxgeom s <=? ngeom s); [|destruct (snd a)]; auto. Qed.

  Lemma step_full : forall (s : scn) a, maxgeom s <= ngeom s ->
    step s a = mkScene (committed s) (ngeom s) (maxgeom s) (bump (status s)) (touched s).
  Proof. intros. unfold step. replace (maxgeom s <=? ngeom s) with true by (symmetry; apply Z.leb_le; auto). auto. Qed.

  Lemma step_commit : forall (s : scn) a, ngeom s < maxgeom s -> snd a = true ->
    step s a = mkScene ((ngeom s, fst a) :: committed s) (ngeom s + 1) (maxgeom s) (status s) (ngeom s :: touched s).
  Proof. intros. unfold step. replace (maxgeom s <=? ngeom s) with false by (symmetry; apply Z.leb_gt; auto). rewrite H0. auto. Qed.

  Lemma step_skip : forall (s : scn) a, ngeom s < maxgeom s -> snd a = false ->
    step s a = mkScene (committed s) (ngeom s) (maxgeom s) (status s) (ngeom s :: touched s).
  Proof. intros. unfold step. replace (maxgeom s <=? ngeom s) with false by (symmetry; apply Z.leb_gt; auto). rewrite H0. auto. Qed.

  Lemma step_wf : forall (s : scn) a, WF s -> WF (step s a).
  Proof.
    intros s a [B J]. unfold step, WF, geoms in *.
    destruct (maxgeom s <=? ngeom s) eqn:E; simpl; auto.
    apply Z.leb_gt in E. destruct (snd a); simpl; auto.
    split; [lia|]. rewrite map_app, J. simpl. symmetry. apply zseq_succ. lia.
  Qed.

  Lemma step_touched : forall (s : scn) a i, In i (touched (step s a)) ->
    In i (touched s) \/ (i = ngeom s /\ ngeom s < maxgeom s).
  Proof.
    intros s a i. unfold step. destruct (maxgeom s <=? ngeom s) eqn:E; simpl; auto.
    apply Z.leb_gt in E. destruct (snd a); simpl; intros [H | H]; auto.
  Qed.

  Lemma run_wf : forall l (s : scn), WF s -> WF (run_attempts l s) /\ maxgeom (run_attempts l s) = maxgeom s.
  Proof.
    induction l; simpl; intros; auto.
    destruct (IHl (step s a) (step_wf s a H)). rewrite step_maxgeom in *. auto.
  Qed.

  Lemma run_touched : forall l (s : scn), WF s -> forall i, In i (touched (run_attempts l s)) ->
    In i (touched s) \/ 0 <= i < maxgeom s.
  Proof.
    induction l; simpl; intros s W i I; auto.
    apply IHl in I; [|apply step_wf; auto]. rewrite step_maxgeom in I.
    destruct I as [I | I]; auto. apply step_touched in I. destruct W as [B _]. destruct I; auto. right. lia.
  Qed.

  (* content: the committed payloads are the committing attempts in order, truncated to the room left *)
  Lemma run_content : forall l (s : scn), 0 <= ngeom s <= maxgeom s ->
    map snd (geoms (run_attempts l s)) =
    map snd (geoms s) ++ firstn (Z.to_nat (maxgeom s - ngeom s)) (map fst (filter (fun a => snd a) l)).
  Proof.
    induction l; intros s B.
    - simpl. rewrite firstn_nil, app_nil_r. auto.
    - change (run_attempts (a :: l) s) with (run_attempts l (step s a)).
      destruct (Z_le_gt_dec (maxgeom s) (ngeom s)) as [F | NF].
      + rewrite (step_full s a F). rewrite IHl by (simpl; lia). unfold geoms. simpl committed. simpl maxgeom. simpl ngeom.
        replace (Z.to_nat (maxgeom s - ngeom s)) with 0%nat by lia. simpl. auto.
      + destruct (snd a) eqn:C.
        * rewrite (step_commit s a ltac:(lia) C). rewrite IHl by (simpl; lia).
          unfold geoms. simpl committed. simpl maxgeom. simpl ngeom.
          simpl rev. rewrite map_app, <- app_assoc. simpl filter. rewrite C. simpl map.
          replace (Z.to_nat (maxgeom s - ngeom s)) with (S (Z.to_nat (maxgeom s - (ngeom s + 1)))) by lia.
          simpl. auto.
        * rewrite (step_skip s a ltac:(lia) C). rewrite IHl by (simpl; lia).
          unfold geoms. simpl committed. simpl maxgeom. simpl ngeom. simpl filter. rewrite C. auto.
  Qed.

  Definition is_nil {B} (l : list B) : bool := match l with [] => true | _ => false end.

  Lemma run_status_full : forall l (s : scn), maxgeom s <= ngeom s ->
    status (run_attempts l s) = if is_nil l then status s else bump (status s).
  Proof.
    induction l; intros s F; auto.
    change (run_attempts (a :: l) s) with (run_attempts l (step s a)).
    rewrite (step_full s a F). rewrite IHl by (simpl; auto). simpl status. simpl is_nil.
    destruct l; simpl; auto. apply bump_idem.
  Qed.

  Lemma run_status : forall l (s : scn), 0 <= ngeom s <= maxgeom s ->
    status (run_attempts l s) =
    if is_nil (after_full (Z.to_nat (maxgeom s - ngeom s)) l) then status s else bump (status s).
  Proof.
    induction l; intros s B.
    - simpl. destruct (Z.to_nat (maxgeom s - ngeom s)); auto.
    - destruct (Z.to_nat (maxgeom s - ngeom s)) eqn:K.
      + rewrite run_status_full by lia. auto.
      + change (run_attempts (a :: l) s) with (run_attempts l (step s a)).
        destruct (snd a) eqn:C.
        * rewrite (step_commit s a ltac:(lia) C). rewrite IHl by (simpl; lia).
          simpl maxgeom. simpl ngeom. simpl status. simpl after_full. rewrite C.
          replace (Z.to_nat (maxgeom s - (ngeom s + 1))) with n by lia. auto.
        * rewrite (step_skip s a ltac:(lia) C). rewrite IHl by (simpl; lia).
          simpl maxgeom. simpl ngeom. simpl status. simpl after_full. rewrite C. rewrite K. auto.
  Qed.

  Lemma after_full_all_commit : forall k (l : list (A * bool)), (forall a, In a l -> snd a = true) ->
    is_nil (after_full k l) = (length l <=? k)%nat.
  Proof.
    induction k; intros l H.
    - simpl. destruct l; auto.
    - destruct l as [|a r]; simpl; auto.
      rewrite (H a) by (left; auto). apply IHk. intros. apply H. right. auto.
  Qed.

  Lemma run_full_fix : forall l (s : scn), maxgeom s <= ngeom s -> bump (status s) = status s ->
    run_attempts l s = s.
  Proof.
    induction l; intros s F E; auto.
    change (run_attempts (a :: l) s) with (run_attempts l (step s a)).
    assert (step s a = s). { rewrite (step_full s a F). rewrite E. destruct s; auto. }
    rewrite H. auto.
  Qed.

  Lemma pass_eq : forall l (s : scn), run_pass l s = run_attempts l s.
  Proof.
    induction l; intros s; auto.
    change (run_attempts (a :: l) s) with (run_attempts l (step s a)). simpl run_pass.
    destruct (maxgeom s <=? ngeom s) eqn:E; auto.
    apply Z.leb_le in E. symmetry. rewrite (step_full s a E). apply run_full_fix; simpl; auto.
    apply bump_idem.
  Qed.

  (* C50_machine *)
  Lemma machine_spec : forall (l : list (A * bool)) maxg st, 0 <= maxg ->
    let s := run_attempts l (fresh maxg st) in
    0 <= ngeom s <= maxg /\ maxgeom s = maxg /\
    (forall i, In i (touched s) -> 0 <= i < maxg) /\
    map fst (geoms s) = zseq (ngeom s) /\
    map snd (geoms s) = firstn (Z.to_nat maxg) (map fst (filter (fun a => snd a) l)) /\
    status s = (if is_nil (after_full (Z.to_nat maxg) l) then st else bump st) /\
    run_pass l (fresh maxg st) = s.
  Proof.
    intros l maxg st H s.
    assert (W : WF (@fresh A maxg st)). { unfold WF, fresh, geoms. simpl. split; [lia|auto]. }
    destruct (run_wf l _ W) as [[B J] M]. simpl in M. fold s in B, J, M.
    split; [lia|]. split; auto. split.
    - intros i I. apply (run_touched l _ W) in I. simpl in I. destruct I; [contradiction|auto].
    - split; auto. split.
      + unfold s. rewrite run_content by (simpl; lia). simpl. rewrite Z.sub_0_r. auto.
      + split; [|apply pass_eq]. unfold s. rewrite run_status by (simpl; lia). simpl. rewrite Z.sub_0_r. auto.
  Qed.
End MachineProofs.

(* ------------------------------------------------------------------ addGeomGeoms *)
Definition indexed_from (s : nat) (gs : list mgeom) : list (Z * mgeom) :=
  combine (map Z.of_nat (seq s (length gs))) gs.

Lemma indexed_is : forall gs, indexed gs = indexed_from 0 gs.
Proof. reflexivity. Qed.

Lemma in_indexed_from : forall gs s i g, In (i, g) (indexed_from s gs) <->
  exists k, i = Z.of_nat (s + k) /\ nth_error gs k = Some g.
Proof.
  induction gs; intros s i g; unfold indexed_from; simpl.
  - split; [contradiction|]. intros [k [_ E]]. destruct k; discriminate.
  - fold (indexed_from (S s) gs). rewrite IHgs. split.
    + intros [E | [k [E1 E2]]].
      * inversion E; subst. exists 0%nat. split; [f_equal; lia | auto].
      * exists (S k). split; [lia | auto].
    + intros [k [E1 E2]]. destruct k.
      * left. simpl in E2. inversion E2. subst. f_equal. f_equal. lia.
      * right. exists k. split; [lia | auto].
Qed.

Lemma sorted_indexed_from : forall (P : Z * mgeom -> bool) gs s,
  StronglySorted Z.lt (map fst (filter P (indexed_from s gs))) /\
  Forall (fun x => Z.of_nat s <= x) (map fst (filter P (indexed_from s gs))).
Proof.
  induction gs; intros s; unfold indexed_from; simpl.
  - split; constructor.
  - fold (indexed_from (S s) gs). destruct (IHgs (S s)) as [S1 F1].
    assert (F2 : Forall (fun x => Z.of_nat s <= x) (map fst (filter P (indexed_from (S s) gs)))).
    { eapply Forall_impl; [|exact F1]. simpl. intros. lia. }
    destruct (P (Z.of_nat s, a)); simpl; auto.
    split.
    + constructor; auto. eapply Forall_impl; [|exact F1]. simpl. intros. lia.
    + constructor; auto. lia.
Qed.

Lemma attempts_commits : forall gg cm (L : list (Z * mgeom)),
  map fst (filter (fun a : (Z * Z) * bool => snd a)
     (map (fun ig : Z * mgeom => match ig with (i, (cat, grp, alpha)) => ((i, cat), alpha) end)
          (filter (fun ig => visible gg cm (snd ig)) L))) =
  map (fun ig : Z * mgeom => (fst ig, fst (fst (snd ig)))) (filter (fun ig => shown gg cm (snd ig)) L).
Proof.
  induction L as [|[i [[cat grp] alpha]] r IH]; auto.
  cbn [filter snd]. unfold shown at 1. cbn [snd].
  destruct (visible gg cm (cat, grp, alpha)); destruct alpha; cbn [andb map filter snd fst]; rewrite ?IH; auto.
Qed.

Lemma shown_all_alpha : forall gg cm gs, (forall g, In g gs -> snd g = true) ->
  shown_ids gg cm gs = visible_ids gg cm gs /\
  (forall a, In a (geom_attempts gg cm gs) -> snd a = true).
Proof.
  intros gg cm gs H. split.
  - unfold shown_ids, visible_ids. f_equal. apply filter_ext_in. intros [i g] I.
    unfold shown. simpl. rewrite (H g); [apply andb_true_r|].
    rewrite indexed_is in I. apply in_indexed_from in I. destruct I as [k [_ E]]. eapply nth_error_In; eauto.
  - intros a I. unfold geom_attempts in I. apply in_map_iff in I. destruct I as [[i [[cat grp] alpha]] [E I]].
    subst a. simpl. apply filter_In in I. destruct I as [I _].
    rewrite indexed_is in I. apply in_indexed_from in I. destruct I as [k [_ E]].
    apply nth_error_In in E. apply (H _ E).
Qed.

(* C50_geom_pass *)
Lemma geom_pass_spec : forall maxg st vs catmask gg gs, 0 <= maxg ->
  let cm := eff_catmask vs catmask in
  let s := geom_pass maxg st vs catmask gg gs in
  0 <= ngeom s <= maxg /\
  (forall i, In i (touched s) -> 0 <= i < maxg) /\
  map fst (geoms s) = zseq (ngeom s) /\
  map snd (geoms s) = firstn (Z.to_nat maxg) (shown_ids gg cm gs) /\
  StronglySorted Z.lt (map fst (shown_ids gg cm gs)) /\
  (forall i c, In (i, c) (shown_ids gg cm gs) <->
     exists g, 0 <= i /\ nth_error gs (Z.to_nat i) = Some g /\ shown gg cm g = true /\ c = fst (fst g)) /\
  (st <> 0 -> status s = st) /\
  ((forall g, In g gs -> snd g = true) ->
     shown_ids gg cm gs = visible_ids gg cm gs /\
     status s = if (length (visible_ids gg cm gs) <=? Z.to_nat maxg)%nat then st else bump st).
Proof.
  intros maxg st vs catmask gg gs H cm s.
  destruct (machine_spec (geom_attempts gg cm gs) maxg st H) as [B [M [T [J [C [S P]]]]]].
  subst s. unfold geom_pass. fold cm. rewrite P.
  set (s := run_attempts (geom_attempts gg cm gs) (fresh maxg st)) in *.
  split; auto. split; auto. split; auto. split.
  { rewrite C. unfold geom_attempts. rewrite attempts_commits. reflexivity. }
  split.
  { unfold shown_ids. rewrite indexed_is.
    rewrite map_map. simpl.
    apply (sorted_indexed_from (fun ig => shown gg cm (snd ig)) gs 0). }
  split.
  { intros i c. unfold shown_ids. rewrite in_map_iff. split.
    - intros [[i' g] [E I]]. simpl in E. inversion E as [[Ei Ec]]. clear E. apply filter_In in I. destruct I as [I V].
      rewrite indexed_is in I. apply in_indexed_from in I. destruct I as [k [E1 E2]]. simpl in E1.
      exists g. rewrite <- Ei, E1. split; [lia|]. rewrite Nat2Z.id. auto.
    - intros [g [Hi [E [V Ec]]]]. exists (i, g). simpl. split; [rewrite Ec; auto|].
      apply filter_In. split; auto. rewrite indexed_is. apply in_indexed_from.
      exists (Z.to_nat i). split; [simpl; lia | auto]. }
  split.
  { intros NZ. rewrite S. destruct (is_nil _); auto. apply bump_sticky. auto. }
  intros AL. destruct (shown_all_alpha gg cm gs AL) as [E1 E2]. split; auto.
  rewrite S. rewrite after_full_all_commit by auto.
  unfold geom_attempts, visible_ids. rewrite !map_length. reflexivity.
Qed.

Lemma machine_status_all_commit : forall (A : Type) (l : list (A * bool)) maxg st, 0 <= maxg ->
  (forall a, In a l -> snd a = true) ->
  status (run_attempts l (fresh maxg st)) = if (length l <=? Z.to_nat maxg)%nat then st else bump st.
Proof.
  intros A l maxg st H AL. destruct (machine_spec l maxg st H) as [_ [_ [_ [_ [_ [S _]]]]]].
  rewrite S. rewrite after_full_all_commit by auto. reflexivity.
Qed.

Lemma status_facts : forall st, bump st <> 0 /\ (st <> 0 -> bump st = st) /\ bump (bump st) = bump st /\ (st = 0 -> bump st = 1).
Proof.
  intros. split; [apply bump_nonzero|]. split; [apply bump_sticky|]. split; [apply bump_idem|].
  intros; subst; reflexivity.
Qed.
