(* Proofs at R about Model/Energy.v (C08). *)
From Coq Require Import ZArith List PrimFloat Reals Lra Lia Psatz Bool.
From Coquelicot Require Import Coquelicot.
From MJV Require Import Lib.Num Lib.NumR Model.Spatial Proof.SpatialProof Model.Kinematics Model.Energy.
Open Scope R_scope.

(* ================================================================== polynomial springs: force = - d potential / dx *)
Lemma pow_shift (t : R) (i : nat) : t ^ S i * t = t ^ S (S i).
Proof. simpl. ring. Qed.

Lemma potLoop_ext (poly : list R) : forall (i : Z) (x a a' r r' : R),
  a = a' -> r = r' -> polyPotLoop poly i x a r = polyPotLoop poly i x a' r'.
Proof. intros; subst; reflexivity. Qed.

Lemma potLoop_derive (poly : list R) : forall (i : nat) (P : R -> R) (x dP F0 : R),
  is_derive P x dP -> dP = x * F0 ->
  is_derive (fun t : R => polyPotLoop poly (Z.of_nat i) t (t ^ S i) (P t)) x
            (x * polyForceLoop poly x (x ^ i) F0).
Proof.
  induction poly as [|p r IH]; intros i P x dP F0 DP E.
  - cbn [polyPotLoop polyForceLoop]. rewrite <- E. exact DP.
  - cbn [polyPotLoop polyForceLoop]. nR.
    eapply is_derive_ext.
    { intros t. cbv beta. symmetry.
      apply (potLoop_ext r (Z.of_nat i + 1)%Z t _ (t ^ S (S i)) _
               (P t + p / IZR (Z.of_nat i + 3) * t ^ S (S (S i)))).
      - apply pow_shift.
      - rewrite pow_shift, pow_shift. reflexivity. }
    replace (Z.of_nat i + 1)%Z with (Z.of_nat (S i)) by lia.
    replace (x ^ i * x) with (x ^ S i) by (simpl; ring).
    apply (IH (S i) (fun t : R => P t + p / IZR (Z.of_nat i + 3) * t ^ S (S (S i))) x
              (dP + p * x ^ S (S i)) (F0 + p * x ^ S i)).
    + assert (NZ : IZR (Z.of_nat i + 3) <> 0).
      { apply not_0_IZR. lia. }
      assert (EI : IZR (Z.of_nat i + 3) = INR i + 3).
      { rewrite plus_IZR, <- INR_IZR_INZ. reflexivity. }
      evar_last.
      * apply (is_derive_plus P (fun t : R => p / IZR (Z.of_nat i + 3) * t ^ S (S (S i))) x dP); [exact DP|].
        apply is_derive_scal. apply (is_derive_pow (fun t : R => t) (S (S (S i))) x 1). apply (is_derive_id x).
      * change (dP + p / IZR (Z.of_nat i + 3) * (INR (S (S (S i))) * 1 * x ^ Init.Nat.pred (S (S (S i)))) =
                dP + p * x ^ S (S i)).
        rewrite !S_INR. cbn [Init.Nat.pred]. rewrite EI. field. rewrite <- EI. exact NZ.
    + rewrite E. simpl. ring.
Qed.

(* d/dx polyPotential(k, poly, x) = x * polyForce(k, poly, x), for every number of polynomial terms *)
Lemma polyPotential_derive (k : R) (poly : list R) (x : R) :
  is_derive (fun t : R => polyPotential k poly t false) x (x * polyForce k poly x false).
Proof.
  unfold polyPotential, polyForce. nR. rewrite nhalf_R.
  eapply is_derive_ext.
  { intros t. cbv beta. symmetry. apply (potLoop_ext poly 0%Z t t (t ^ 1) _ (/ 2 * k * (t * t))); [symmetry; apply pow_1 | reflexivity]. }
  replace 1 with (x ^ 0) at 2 by reflexivity.
  apply (potLoop_derive poly 0 (fun t : R => / 2 * k * (t * t)) x (k * x) k); [|ring].
  auto_derive; [exact I | field].
Qed.

(* slide / hinge joint spring: qfrc_spring = - d (spring potential) / d qpos *)
Lemma spring1_gradient (k : R) (poly : list R) (qs q : R) :
  is_derive (fun t : R => springPot1 k poly t qs) q (- springForce1 k poly q qs).
Proof.
  unfold springPot1, springForce1. nR.
  evar_last.
  - apply (is_derive_comp (fun y : R => polyPotential k poly y false) (fun t : R => t - qs) q
                          ((q - qs) * polyForce k poly (q - qs) false) 1).
    + apply polyPotential_derive.
    + auto_derive; [exact I | ring].
  - change (1 * ((q - qs) * polyForce k poly (q - qs) false) = - (- (q - qs) * polyForce k poly (q - qs) false)). ring.
Qed.

(* tendon spring outside the dead band: force = - d potential / d length *)
Lemma tendon_gradient (k : R) (poly : list R) (lo up len : R) :
  lo <= up -> len < lo \/ up < len ->
  is_derive (fun t : R => tendonPot k poly t lo up) len (- tendonForce k poly len lo up).
Proof.
  intros LU OUT. unfold tendonPot, tendonForce.
  destruct OUT as [B|A].
  - (* below: displacement t - lo on a neighbourhood *)
    assert (DL : tendonDisp len lo up = len - lo).
    { unfold tendonDisp. nR. replace (Rltb up len) with false by (symmetry; apply Rltb_false; lra).
      replace (Rltb len lo) with true by (symmetry; apply Rltb_true; lra). reflexivity. }
    rewrite DL. nR.
    apply (is_derive_ext_loc (fun t : R => polyPotential k poly (t - lo) false)).
    + exists (mkposreal (lo - len) ltac:(lra)). intros t Ht. cbv beta.
      unfold ball in Ht. cbn in Ht. unfold AbsRing_ball, abs, minus, plus, opp in Ht. cbn in Ht.
      apply Rabs_def2 in Ht. unfold tendonDisp. nR.
      replace (Rltb up t) with false by (symmetry; apply Rltb_false; lra).
      replace (Rltb t lo) with true by (symmetry; apply Rltb_true; lra). reflexivity.
    + evar_last.
      * apply (is_derive_comp (fun y : R => polyPotential k poly y false) (fun t : R => t - lo) len
                              ((len - lo) * polyForce k poly (len - lo) false) 1).
        -- apply polyPotential_derive.
        -- auto_derive; [exact I | ring].
      * change (1 * ((len - lo) * polyForce k poly (len - lo) false) = - (- (len - lo) * polyForce k poly (len - lo) false)). ring.
  - assert (DL : tendonDisp len lo up = len - up).
    { unfold tendonDisp. nR. replace (Rltb up len) with true by (symmetry; apply Rltb_true; lra). reflexivity. }
    rewrite DL. nR.
    apply (is_derive_ext_loc (fun t : R => polyPotential k poly (t - up) false)).
    + exists (mkposreal (len - up) ltac:(lra)). intros t Ht. cbv beta.
      unfold ball in Ht. cbn in Ht. unfold AbsRing_ball, abs, minus, plus, opp in Ht. cbn in Ht.
      apply Rabs_def2 in Ht. unfold tendonDisp. nR.
      replace (Rltb up t) with true by (symmetry; apply Rltb_true; lra). reflexivity.
    + evar_last.
      * apply (is_derive_comp (fun y : R => polyPotential k poly y false) (fun t : R => t - up) len
                              ((len - up) * polyForce k poly (len - up) false) 1).
        -- apply polyPotential_derive.
        -- auto_derive; [exact I | ring].
      * change (1 * ((len - up) * polyForce k poly (len - up) false) = - (- (len - up) * polyForce k poly (len - up) false)). ring.
Qed.

(* ================================================================== kinetic energy *)
Fixpoint dotr (a b : list R) : R :=
  match a, b with
  | (x :: r)%list, (y :: s)%list => x * y + dotr r s
  | _, _ => 0
  end.

Lemma ndot_acc (a : list R) : forall (b : list R) (acc : R),
  fold_left (fun (s : R) (p : R * R) => s + fst p * snd p) (combine a b) acc = acc + dotr a b.
Proof.
  induction a as [|x r IH]; intros b acc; [simpl; ring|].
  destruct b as [|y s]; [simpl; ring|]. cbn [combine fold_left dotr fst snd]. rewrite IH. ring.
Qed.
Lemma ndot_dotr (a b : list R) : ndot a b = dotr a b.
Proof. unfold ndot. nR. rewrite ndot_acc. ring. Qed.

Lemma upd_length (l : list R) : forall (i : nat) (f : R -> R), length (upd l i f) = length l.
Proof. induction l as [|x r IH]; intros [|k] f; simpl; auto. Qed.

Lemma nth_upd_other (l : list R) : forall (i j : nat) (f : R -> R), i <> j -> nth j (upd l i f) 0 = nth j l 0.
Proof.
  induction l as [|x r IH]; intros [|k] [|m] f NE; simpl; auto; try congruence.
Qed.

Lemma dotr_upd (l : list R) : forall (v : list R) (i : nat) (f : R -> R),
  length l = length v -> (i < length l)%nat ->
  dotr (upd l i f) v = dotr l v + (f (nth i l 0) - nth i l 0) * nth i v 0.
Proof.
  induction l as [|x r IH]; intros v i f EL LT; [simpl in LT; lia|].
  destruct v as [|y s]; [simpl in EL; lia|].
  destruct i as [|k]; cbn [upd dotr nth].
  - ring.
  - rewrite (IH s k f) by (simpl in *; lia). ring.
Qed.

(* the quadratic form of the lower-triangular representation: row i contributes
   diag_i v_i^2 + 2 sum_{(j, val) in row i} val v_j v_i *)
Fixpoint esum (v : list R) (i : nat) (es : list (nat * R)) : R :=
  match es with
  | nil => 0
  | (e :: r)%list => snd e * nth (fst e) v 0 * nth i v 0 + esum v i r
  end.
Definition qrow (v : list R) (i : nat) (row : mrow R) : R :=
  snd row * nth i v 0 * nth i v 0 + 2 * esum v i (fst row).
Fixpoint qform (v : list R) (i : nat) (rows : list (mrow R)) : R :=
  match rows with
  | nil => 0
  | (row :: r)%list => qrow v i row + qform v (S i) r
  end.
(* lower-triangular: every stored column index of row i is smaller than i *)
Fixpoint wfRows (i : nat) (rows : list (mrow R)) : Prop :=
  match rows with
  | nil => True
  | (row :: r)%list => List.Forall (fun e : nat * R => (fst e < i)%nat) (fst row) /\ wfRows (S i) r
  end.

Lemma esum_app (v : list R) (i : nat) (a b : list (nat * R)) : esum v i (a ++ b) = esum v i a + esum v i b.
Proof. induction a as [|e r IH]; simpl; [ring | rewrite IH; ring]. Qed.
Lemma esum_rev (v : list R) (i : nat) (a : list (nat * R)) : esum v i (rev a) = esum v i a.
Proof. induction a as [|e r IH]; simpl; [reflexivity|]. rewrite esum_app, IH. simpl. ring. Qed.

Definition estep (vec : list R) (i : nat) (res : list R) (e : nat * R) : list R :=
  let '(j, val) := e in
  upd (upd res i (fun r : R => r + val * nth j vec 0)) j (fun r : R => r + val * nth i vec 0).

Lemma efold_spec (v : list R) (i : nat) (es : list (nat * R)) : forall (res : list R),
  length res = length v -> (i < length v)%nat -> List.Forall (fun e : nat * R => (fst e < i)%nat) es ->
  dotr (fold_left (estep v i) es res) v = dotr res v + 2 * esum v i es /\
  length (fold_left (estep v i) es res) = length res /\
  (forall k : nat, (i < k)%nat -> nth k (fold_left (estep v i) es res) 0 = nth k res 0).
Proof.
  induction es as [|[j val] r IH]; intros res EL LT WF.
  - simpl. repeat split; auto. ring.
  - inversion WF as [|? ? Hj Hr]; subst. cbn [fst] in Hj. cbn [fold_left].
    assert (L1 : length (estep v i res (j, val)) = length res).
    { unfold estep. rewrite !upd_length. reflexivity. }
    destruct (IH (estep v i res (j, val))) as (A & B & C); [lia | assumption | assumption |].
    rewrite A, B, L1. split; [|split; [reflexivity|]].
    + unfold estep. rewrite dotr_upd by (rewrite ?upd_length; lia).
      rewrite dotr_upd by lia. cbn [esum fst snd]. ring.
    + intros k Hk. rewrite C by assumption. unfold estep.
      rewrite !nth_upd_other by lia. reflexivity.
Qed.

Lemma rowStep_spec (v : list R) (i : nat) (row : mrow R) (res : list R) :
  length res = length v -> (i < length v)%nat ->
  List.Forall (fun e : nat * R => (fst e < i)%nat) (fst row) -> nth i res 0 = 0 ->
  dotr (rowStep v i row res) v = dotr res v + qrow v i row /\
  length (rowStep v i row res) = length res /\
  (forall k : nat, (i < k)%nat -> nth k (rowStep v i row res) 0 = nth k res 0).
Proof.
  intros EL LT WF Z. unfold rowStep. nR.
  change (fun (res0 : list R) (e : nat * R) =>
            let '(j, val) := e in
            upd (upd res0 i (fun r : R => r + val * nth j v 0)) j (fun r : R => r + val * nth i v 0))
    with (estep v i).
  destruct (efold_spec v i (rev (fst row)) (upd res i (fun _ : R => snd row * nth i v 0))) as (A & B & C).
  - rewrite upd_length. exact EL.
  - exact LT.
  - apply Forall_rev. exact WF.
  - rewrite A, B, upd_length, esum_rev. split; [|split; [reflexivity|]].
    + rewrite dotr_upd by lia. rewrite Z. unfold qrow. ring.
    + intros k Hk. rewrite C by assumption. apply nth_upd_other. lia.
Qed.

Lemma mulSymLoop_spec (v : list R) (rows : list (mrow R)) : forall (i : nat) (res : list R),
  length res = length v -> (i + length rows = length v)%nat -> wfRows i rows ->
  (forall k : nat, (i <= k)%nat -> nth k res 0 = 0) ->
  dotr (mulSymLoop v i rows res) v = dotr res v + qform v i rows.
Proof.
  induction rows as [|row r IH]; intros i res EL LEN WF Z.
  - simpl. ring.
  - destruct WF as [WR WT]. cbn [mulSymLoop qform]. cbn [length] in LEN.
    destruct (rowStep_spec v i row res EL ltac:(lia) WR (Z i (Nat.le_refl i))) as (A & B & C).
    rewrite IH.
    + rewrite A. ring.
    + rewrite B. exact EL.
    + lia.
    + exact WT.
    + intros k Hk. rewrite C by lia. apply Z. lia.
Qed.

Lemma dotr_zeros (rows : list (mrow R)) (v : list R) : dotr (map (fun _ : mrow R => 0) rows) v = 0.
Proof.
  revert v. induction rows as [|x r IH]; intros v; [reflexivity|].
  destruct v as [|y s]; [reflexivity|]. cbn [map dotr]. rewrite IH. ring.
Qed.
Lemma nth_zeros (rows : list (mrow R)) (k : nat) : nth k (map (fun _ : mrow R => 0) rows) 0 = 0.
Proof. revert k. induction rows as [|x r IH]; intros [|k]; simpl; auto. Qed.

(* energy[1] = 1/2 * (quadratic form of the symmetric matrix whose lower triangle is stored) *)
Lemma energyVel_qform (rows : list (mrow R)) (v : list R) :
  length v = length rows -> wfRows 0 rows ->
  energyVel rows v = / 2 * qform v 0 rows.
Proof.
  intros EL WF. unfold energyVel, mulSymVecSparse. nR. rewrite nhalf_R, ndot_dotr.
  rewrite mulSymLoop_spec.
  - rewrite dotr_zeros. ring.
  - rewrite map_length. symmetry. exact EL.
  - simpl. symmetry. exact EL.
  - exact WF.
  - intros k _. apply nth_zeros.
Qed.

(* ================================================================== ball-joint spring, radial direction (partial) *)
Lemma norm3_scl_unit (a : vec3 R) (t : R) : unitv a -> norm3 (scl3 a t) = Rabs t.
Proof.
  dv a. unfold unitv, norm3, scl3, dot3. nR. intros U.
  replace (a0 * t * (a0 * t) + a1 * t * (a1 * t) + a2 * t * (a2 * t)) with (Rsqr t)
    by (unfold Rsqr; replace (t * t) with (t * t * (a0 * a0 + a1 * a1 + a2 * a2)) by (rewrite U; ring); ring).
  apply sqrt_Rsqr_abs.
Qed.

Lemma ball_sub (qs : quat R) (a : vec3 R) (t : R) :
  unitq qs -> unitv a -> Rabs t <= PI -> mjMINVAL <= Rabs (sin (t * / 2)) ->
  subQuat (mulQuat qs (axisAngle2Quat a t)) qs = scl3 a t.
Proof.
  intros U UA T S. unfold subQuat. rewrite <- mulQuat_assoc.
  destruct (negQuat_inverse qs U) as [_ E]. rewrite E, mulQuat_id_l, axisAngle2Quat_is_reg.
  change (none (T:=R)) with 1. apply quat2Vel_axisAngle; assumption.
Qed.

(* qpos = qpos_spring rotated by the angle t about the unit axis a (0 < t <= pi, no mjMINVAL guard fires):
   the reported potential is polyPotential(t), the spring torque is -t polyForce(t) a, and
   t polyForce(t) is the derivative of polyPotential at t: along the rotation axis, torque = - dV/dt *)
Lemma ball_radial (k : R) (poly : list R) (qs : quat R) (a : vec3 R) (t : R) :
  unitq qs -> unitv a -> 0 < t <= PI -> mjMINVAL <= sin (t * / 2) ->
  springPotBall k poly (mulQuat qs (axisAngle2Quat a t)) qs = polyPotential k poly t false /\
  springForceBall k poly (mulQuat qs (axisAngle2Quat a t)) qs = scl3 a (- (t * polyForce k poly t false)) /\
  is_derive (fun s : R => polyPotential k poly s false) t (t * polyForce k poly t false).
Proof.
  intros U UA [T0 T1] S.
  assert (AT : Rabs t = t) by (apply Rabs_right; lra).
  assert (SB : subQuat (mulQuat qs (axisAngle2Quat a t)) qs = scl3 a t).
  { apply ball_sub; auto; [rewrite AT; lra|].
    pose proof mjMINVAL_pos. rewrite Rabs_right by lra. exact S. }
  split; [|split].
  - unfold springPotBall. rewrite SB, norm3_scl_unit, AT by assumption. reflexivity.
  - unfold springForceBall.
    rewrite normalize4_unit by (apply unitq_mul; [assumption | apply axisAngle2Quat_unit; assumption]).
    cbn [fst]. rewrite SB, norm3_scl_unit, AT by assumption.
    dv a. unfold scl3. nR. apply vec_ext; ring.
  - apply polyPotential_derive.
Qed.

(* ================================================================== gravity *)
(* moving the inertial frame origin of one body by t u changes the reported potential at the rate
   - mass (gravity . u): the force on the body is mass * gravity *)
Definition gravAcc (g : vec3 R) (e : R) (b : R * vec3 R) : R := e - fst b * dot3 g (snd b).
Lemma grav_acc (g : vec3 R) (l : list (R * vec3 R)) : forall e : R,
  fold_left (gravAcc g) l e = e + fold_left (gravAcc g) l 0.
Proof.
  induction l as [|b r IH]; intros e; cbn [fold_left]; [ring|].
  rewrite (IH (gravAcc g e b)), (IH (gravAcc g 0 b)). unfold gravAcc. ring.
Qed.
Lemma grav_split (g : vec3 R) (pre post : list (R * vec3 R)) (m : R) (p : vec3 R) :
  fold_left (gravAcc g) (pre ++ (m, p) :: post)%list 0 =
    fold_left (gravAcc g) pre 0 - m * dot3 g p + fold_left (gravAcc g) post 0.
Proof.
  rewrite fold_left_app. cbn [fold_left].
  rewrite (grav_acc g post (gravAcc g (fold_left (gravAcc g) pre 0) (m, p))).
  set (A := fold_left (gravAcc g) pre 0). set (B := fold_left (gravAcc g) post 0).
  unfold gravAcc. cbn [fst snd]. ring.
Qed.

Lemma energyPos_gravity_only (g : vec3 R) (bodies : list (R * vec3 R)) :
  energyPos true g bodies false nil nil = fold_left (gravAcc g) bodies 0.
Proof. reflexivity. Qed.

Lemma gravity_gradient (g u : vec3 R) (pre post : list (R * vec3 R)) (m : R) (x : vec3 R) (t0 : R) :
  is_derive (fun t : R => energyPos true g (pre ++ (m, add3 x (scl3 u t)) :: post)%list false nil nil) t0
            (- (m * dot3 g u)).
Proof.
  apply (is_derive_ext (fun t : R => fold_left (gravAcc g) pre 0 - m * dot3 g (add3 x (scl3 u t)) + fold_left (gravAcc g) post 0)).
  { intros t. symmetry. exact (grav_split g pre post m (add3 x (scl3 u t))). }
  generalize (fold_left (gravAcc g) pre 0) (fold_left (gravAcc g) post 0). intros A B.
  dv g; dv u; dv x. unfold dot3, add3, scl3. nR.
  auto_derive; [exact I | ring].
Qed.

(* ================================================================== the dense matrix behind the CSR rows *)
Fixpoint sumn (n : nat) (f : nat -> R) : R := match n with O => 0 | S k => sumn k f + f k end.

(* sum of the stored values of a row that carry column index j *)
Fixpoint ecol (es : list (nat * R)) (j : nat) : R :=
  match es with
  | nil => 0
  | (e :: r)%list => (if Nat.eqb (fst e) j then snd e else 0) + ecol r j
  end.
Definition rowOf (rows : list (mrow R)) (i : nat) : mrow R := nth i rows (nil, 0).
(* the symmetric dense matrix: diagonal, lower triangle from row i, upper triangle mirrored *)
Definition Mdense (rows : list (mrow R)) (i j : nat) : R :=
  if Nat.eqb i j then snd (rowOf rows i)
  else if Nat.ltb j i then ecol (fst (rowOf rows i)) j else ecol (fst (rowOf rows j)) i.
Definition vMv (rows : list (mrow R)) (v : list R) : R :=
  sumn (length rows) (fun i : nat => sumn (length rows) (fun j : nat => nth i v 0 * Mdense rows i j * nth j v 0)).

Lemma sumn_ext (n : nat) (f g : nat -> R) : (forall k : nat, (k < n)%nat -> f k = g k) -> sumn n f = sumn n g.
Proof. induction n as [|n IH]; intros E; simpl; [reflexivity|]. rewrite IH, (E n) by (intros; try apply E; lia). reflexivity. Qed.
Lemma sumn_plus (n : nat) (f g : nat -> R) : sumn n (fun k : nat => f k + g k) = sumn n f + sumn n g.
Proof. induction n as [|n IH]; simpl; [ring | rewrite IH; ring]. Qed.
Lemma sumn_scal (n : nat) (c : R) (f : nat -> R) : sumn n (fun k : nat => c * f k) = c * sumn n f.
Proof. induction n as [|n IH]; simpl; [ring | rewrite IH; ring]. Qed.
Lemma sumn_zero (n : nat) (f : nat -> R) : (forall k : nat, (k < n)%nat -> f k = 0) -> sumn n f = 0.
Proof. induction n as [|n IH]; intros E; simpl; [reflexivity|]. rewrite IH, (E n) by (intros; try apply E; lia). ring. Qed.
Lemma sumn_fubini (n m : nat) (h : nat -> nat -> R) :
  sumn n (fun i : nat => sumn m (fun j : nat => h i j)) = sumn m (fun j : nat => sumn n (fun i : nat => h i j)).
Proof.
  induction n as [|n IH]; simpl.
  - symmetry. apply sumn_zero. reflexivity.
  - rewrite IH, <- sumn_plus. reflexivity.
Qed.
Lemma sumn_shift (n : nat) (f : nat -> R) : sumn (S n) f = f O + sumn n (fun k : nat => f (S k)).
Proof. induction n as [|n IH]; [simpl; ring|]. change (sumn (S (S n)) f) with (sumn (S n) f + f (S n)). rewrite IH. simpl. ring. Qed.
(* Kronecker delta *)
Lemma sumn_delta (n c : nat) (a : R) (w : nat -> R) : (c < n)%nat ->
  sumn n (fun j : nat => (if Nat.eqb c j then a else 0) * w j) = a * w c.
Proof.
  induction n as [|n IH]; intros LT; [lia|]. simpl.
  destruct (Nat.eqb c n) eqn:E.
  - apply Nat.eqb_eq in E. subst c. rewrite sumn_zero; [ring|].
    intros k Hk. replace (Nat.eqb n k) with false by (symmetry; apply Nat.eqb_neq; lia). ring.
  - apply Nat.eqb_neq in E. rewrite IH by lia. ring.
Qed.

Lemma ecol_zero (es : list (nat * R)) (i j : nat) :
  List.Forall (fun e : nat * R => (fst e < i)%nat) es -> (i <= j)%nat -> ecol es j = 0.
Proof.
  induction es as [|e r IH]; intros WF LE; [reflexivity|].
  inversion WF as [|? ? He Hr]; subst. cbn [ecol]. cbv beta in He.
  replace (Nat.eqb (fst e) j) with false by (symmetry; apply Nat.eqb_neq; lia). rewrite IH by assumption. ring.
Qed.

(* sum over the stored entries = sum over all columns of the column sums *)
Lemma esum_ecol (v : list R) (i n : nat) (es : list (nat * R)) :
  List.Forall (fun e : nat * R => (fst e < n)%nat) es ->
  esum v i es = sumn n (fun j : nat => ecol es j * nth j v 0) * nth i v 0.
Proof.
  induction es as [|e r IH]; intros WF.
  - simpl. rewrite sumn_zero by (intros; ring). ring.
  - inversion WF as [|? ? He Hr]; subst. cbn [esum ecol]. rewrite IH by assumption.
    rewrite (sumn_ext n (fun j : nat => ((if Nat.eqb (fst e) j then snd e else 0) + ecol r j) * nth j v 0)
                        (fun j : nat => (if Nat.eqb (fst e) j then snd e else 0) * nth j v 0 + ecol r j * nth j v 0))
      by (intros; cbv beta; ring).
    rewrite sumn_plus, (sumn_delta n (fst e) (snd e) (fun j : nat => nth j v 0)) by assumption. ring.
Qed.

Lemma qform_sum (v : list R) (rows : list (mrow R)) : forall i0 : nat,
  qform v i0 rows = sumn (length rows) (fun k : nat => qrow v (i0 + k) (nth k rows (nil, 0))).
Proof.
  induction rows as [|row r IH]; intros i0; [reflexivity|].
  cbn [qform length]. rewrite sumn_shift, IH. cbn [nth]. rewrite Nat.add_0_r. f_equal.
  apply sumn_ext. intros k _. replace (i0 + S k)%nat with (S i0 + k)%nat by lia. reflexivity.
Qed.

Lemma wfRows_nth (rows : list (mrow R)) : forall (i0 k : nat),
  wfRows i0 rows -> (k < length rows)%nat ->
  List.Forall (fun e : nat * R => (fst e < i0 + k)%nat) (fst (nth k rows (nil, 0))).
Proof.
  induction rows as [|row r IH]; intros i0 k WF LT; [simpl in LT; lia|].
  destruct WF as [WR WT]. destruct k as [|k]; cbn [nth].
  - rewrite Nat.add_0_r. exact WR.
  - replace (i0 + S k)%nat with (S i0 + k)%nat by lia. apply IH; [exact WT | simpl in LT; lia].
Qed.

(* one half v' M v with M the dense symmetric matrix behind the rows *)
Lemma qform_dense (rows : list (mrow R)) (v : list R) :
  wfRows 0 rows -> qform v 0 rows = vMv rows v.
Proof.
  intros WF. rewrite qform_sum. unfold vMv. set (n := length rows).
  assert (WR : forall i : nat, (i < n)%nat -> List.Forall (fun e : nat * R => (fst e < i)%nat) (fst (rowOf rows i))).
  { intros i Hi. apply (wfRows_nth rows 0 i WF Hi). }
  (* split M into diagonal, lower and upper parts *)
  set (Dg := fun i j : nat => if Nat.eqb i j then snd (rowOf rows i) else 0).
  set (Lo := fun i j : nat => if Nat.ltb j i then ecol (fst (rowOf rows i)) j else 0).
  assert (SPLIT : forall i j : nat, Mdense rows i j = Dg i j + Lo i j + Lo j i).
  { intros i j. unfold Mdense, Dg, Lo.
    destruct (Nat.eqb i j) eqn:E.
    - apply Nat.eqb_eq in E. subst j. rewrite Nat.ltb_irrefl. ring.
    - apply Nat.eqb_neq in E. destruct (Nat.ltb j i) eqn:L.
      + apply Nat.ltb_lt in L. replace (Nat.ltb i j) with false by (symmetry; apply Nat.ltb_ge; lia). ring.
      + apply Nat.ltb_ge in L. replace (Nat.ltb i j) with true by (symmetry; apply Nat.ltb_lt; lia). ring. }
  set (A := fun i : nat => sumn n (fun j : nat => nth i v 0 * Dg i j * nth j v 0)).
  set (B := fun i : nat => sumn n (fun j : nat => nth i v 0 * Lo i j * nth j v 0)).
  set (C := fun i : nat => sumn n (fun j : nat => nth i v 0 * Lo j i * nth j v 0)).
  assert (S1 : sumn n (fun i : nat => sumn n (fun j : nat => nth i v 0 * Mdense rows i j * nth j v 0)) =
               sumn n A + sumn n B + sumn n C).
  { rewrite <- !sumn_plus. apply sumn_ext. intros i _. unfold A, B, C. rewrite <- !sumn_plus.
    apply sumn_ext. intros j _. rewrite SPLIT. ring. }
  rewrite S1. clear S1.
  assert (LOW : forall i : nat, (i < n)%nat -> B i = esum v i (fst (rowOf rows i))).
  { intros i Hi. unfold B. rewrite (esum_ecol v i n).
    - rewrite (sumn_ext n (fun j : nat => nth i v 0 * Lo i j * nth j v 0)
                          (fun j : nat => nth i v 0 * (ecol (fst (rowOf rows i)) j * nth j v 0))).
      + rewrite sumn_scal. ring.
      + intros j _. unfold Lo. destruct (Nat.ltb j i) eqn:L; [ring|].
        apply Nat.ltb_ge in L. rewrite (ecol_zero _ i j (WR i Hi) L). ring.
    - eapply Forall_impl; [|exact (WR i Hi)]. intros e He. cbv beta in *. lia. }
  assert (DIAG : forall i : nat, (i < n)%nat -> A i = snd (rowOf rows i) * nth i v 0 * nth i v 0).
  { intros i Hi. unfold A, Dg.
    rewrite (sumn_ext n (fun j : nat => nth i v 0 * (if Nat.eqb i j then snd (rowOf rows i) else 0) * nth j v 0)
                        (fun j : nat => (if Nat.eqb i j then nth i v 0 * snd (rowOf rows i) else 0) * nth j v 0)).
    - rewrite (sumn_delta n i _ (fun j : nat => nth j v 0)) by assumption. ring.
    - intros j _. destruct (Nat.eqb i j); ring. }
  (* the upper part is the lower part with the indices exchanged *)
  assert (UP : sumn n C = sumn n B).
  { unfold C. rewrite (sumn_fubini n n (fun i j : nat => nth i v 0 * Lo j i * nth j v 0)).
    apply sumn_ext. intros j _. unfold B. apply sumn_ext. intros i _. ring. }
  rewrite UP, (sumn_ext n A _ DIAG), (sumn_ext n B _ LOW).
  rewrite <- !sumn_plus. apply sumn_ext. intros i _. unfold qrow, rowOf. cbn [Nat.add]. ring.
Qed.

Lemma energyVel_dense (rows : list (mrow R)) (v : list R) :
  length v = length rows -> wfRows 0 rows ->
  energyVel rows v = / 2 * vMv rows v.
Proof. intros EL WF. rewrite energyVel_qform, qform_dense by assumption. reflexivity. Qed.

Lemma Mdense_sym (rows : list (mrow R)) (i j : nat) : Mdense rows i j = Mdense rows j i.
Proof.
  unfold Mdense. destruct (Nat.eqb i j) eqn:E.
  - apply Nat.eqb_eq in E. subst j. rewrite Nat.eqb_refl. reflexivity.
  - apply Nat.eqb_neq in E. replace (Nat.eqb j i) with false by (symmetry; apply Nat.eqb_neq; lia).
    destruct (Nat.ltb j i) eqn:L.
    + apply Nat.ltb_lt in L. replace (Nat.ltb i j) with false by (symmetry; apply Nat.ltb_ge; lia). reflexivity.
    + apply Nat.ltb_ge in L. replace (Nat.ltb i j) with true by (symmetry; apply Nat.ltb_lt; lia). reflexivity.
Qed.

Lemma kinetic_full (rows : list (mrow R)) (v : list R) :
  length v = length rows -> wfRows 0 rows ->
  energyVel rows v = / 2 * vMv rows v /\
  energyVel rows v = / 2 * qform v 0 rows /\
  (forall i j : nat, Mdense rows i j = Mdense rows j i).
Proof.
  intros EL WF. split; [apply energyVel_dense; assumption | split; [apply energyVel_qform; assumption | apply Mdense_sym]].
Qed.

(* ================================================================== satisfiability (Examples of Props/C08.v) *)
Lemma kinetic_example :
  let rows : list (mrow R) := ((nil, 2) :: (((0%nat, 1) :: nil), 3) :: (((0%nat, -1) :: (1%nat, / 2) :: nil), 4) :: nil)%list in
  wfRows 0 rows /\ energyVel rows (1 :: 2 :: 3 :: nil)%list = 27.
Proof.
  cbv zeta. split.
  - cbn [wfRows fst]. repeat split; repeat constructor; cbn [fst]; lia.
  - rewrite energyVel_qform.
    + unfold qform, qrow, esum. simpl. lra.
    + reflexivity.
    + cbn [wfRows fst]. repeat split; repeat constructor; cbn [fst]; lia.
Qed.

Lemma ball_radial_example : 0 < PI <= PI /\ mjMINVAL <= sin (PI * / 2) /\ unitq (0, 1, 0, 0) /\ unitv (0, 0, 1).
Proof.
  pose proof PI_RGT_0. pose proof mjMINVAL_lt1.
  replace (PI * / 2) with (PI / 2) by field. rewrite sin_PI2.
  repeat split; try lra; unfold unitq, unitv, qnorm2, dot3; nR; ring.
Qed.
