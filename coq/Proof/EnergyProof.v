(* Proofs at R about Model/Energy.v (C08). *)
From Coq Require Import ZArith List PrimFloat Reals Lra Lia Psatz Bool.
From Coquelicot Require Import Coquelicot.
From MJV Require Import Lib.Num Lib.NumR Model.Spatial Proof.SpatialProof Model.Kinematics Model.Energy.
Open Scope R_scope.

(* ================================================================== polynomial springs: force = - d potential / dx *)
Lemma pow_shift (t : R) (i : nat) : t ^ S i * t = t ^ S (S i).
Proof. simpl. ring. Qed.

Lemma potLoop_ext (poly : list R) : forall (i : Z) (x a a' r r' : R),
  a = a' -> r = r' -> polyPotLoop poly i x a r = polyPotLoop poly i x a' r'.
Proof. intros; subst; reflexivity. Qed.

Lemma potLoop_derive (poly : list R) : forall (i : nat) (P : R -> R) (x dP F0 : R),
  is_derive P x dP -> dP = x * F0 ->
  is_derive (fun t : R => polyPotLoop poly (Z.of_nat i) t (t ^ S i) (P t)) x
            (x * polyForceLoop poly x (x ^ i) F0).
Proof.
  induction poly as [|p r IH]; intros i P x dP F0 DP E.
  - cbn [polyPotLoop polyForceLoop]. rewrite <- E. exact DP.
  - cbn [polyPotLoop polyForceLoop]. nR.
    eapply is_derive_ext.
    { intros t. cbv beta. symmetry.
      apply (potLoop_ext r (Z.of_nat i + 1)%Z t _ (t ^ S (S i)) _
               (P t + p / IZR (Z.of_nat i + 3) * t ^ S (S (S i)))).
      - apply pow_shift.
      - rewrite pow_shift, pow_shift. reflexivity. }
    replace (Z.of_nat i + 1)%Z with (Z.of_nat (S i)) by lia.
    replace (x ^ i * x) with (x ^ S i) by (simpl; ring).
    apply (IH (S i) (fun t : R => P t + p / IZR (Z.of_nat i + 3) * t ^ S (S (S i))) x
              (dP + p * x ^ S (S i)) (F0 + p * x ^ S i)).
    + assert (NZ : IZR (Z.of_nat i + 3) <> 0).
      { apply not_0_IZR. lia. }
      assert (EI : IZR (Z.of_nat i + 3) = INR i + 3).
      { rewrite plus_IZR, <- INR_IZR_INZ. reflexivity. }
      evar_last.
      * apply (is_derive_plus P (fun t : R => p / IZR (Z.of_nat i + 3) * t ^ S (S (S i))) x dP); [exact DP|].
        apply is_derive_scal. apply (is_derive_pow (fun t : R => t) (S (S (S i))) x 1). apply (is_derive_id x).
      * change (dP + p / IZR (Z.of_nat i + 3) * (INR (S (S (S i))) * 1 * x ^ Init.Nat.pred (S (S (S i)))) =
                dP + p * x ^ S (S i)).
        rewrite !S_INR. cbn [Init.Nat.pred]. rewrite EI. field. rewrite <- EI. exact NZ.
    + rewrite E. simpl. ring.
Qed.

(* d/dx polyPotential(k, poly, x) = x * polyForce(k, poly, x), for every number of polynomial terms *)
Lemma polyPotential_derive (k : R) (poly : list R) (x : R) :
  is_derive (fun t : R => polyPotential k poly t false) x (x * polyForce k poly x false).
Proof.
  unfold polyPotential, polyForce. nR. rewrite nhalf_R.
  eapply is_derive_ext.
  { intros t. cbv beta. symmetry. apply (potLoop_ext poly 0%Z t t (t ^ 1) _ (/ 2 * k * (t * t))); [symmetry; apply pow_1 | reflexivity]. }
  replace 1 with (x ^ 0) at 2 by reflexivity.
  apply (potLoop_derive poly 0 (fun t : R => / 2 * k * (t * t)) x (k * x) k); [|ring].
  auto_derive; [exact I | field].
Qed.

(* slide / hinge joint spring: qfrc_spring = - d (spring potential) / d qpos *)
Lemma spring1_gradient (k : R) (poly : list R) (qs q : R) :
  is_derive (fun t : R => springPot1 k poly t qs) q (- springForce1 k poly q qs).
Proof.
  unfold springPot1, springForce1. nR.
  evar_last.
  - apply (is_derive_comp (fun y : R => polyPotential k poly y false) (fun t : R => t - qs) q
                          ((q - qs) * polyForce k poly (q - qs) false) 1).
    + apply polyPotential_derive.
    + auto_derive; [exact I | ring].
  - change (1 * ((q - qs) * polyForce k poly (q - qs) false) = - (- (q - qs) * polyForce k poly (q - qs) false)). ring.
Qed.

(* tendon spring outside the dead band: force = - d potential / d length *)
Lemma tendon_gradient (k : R) (poly : list R) (lo up len : R) :
  lo <= up -> len < lo \/ up < len ->
  is_derive (fun t : R => tendonPot k poly t lo up) len (- tendonForce k poly len lo up).
Proof.
  intros LU OUT. unfold tendonPot, tendonForce.
  destruct OUT as [B|A].
  - (* below: displacement t - lo on a neighbourhood *)
    assert (DL : tendonDisp len lo up = len - lo).
    { unfold tendonDisp. nR. replace (Rltb up len) with false by (symmetry; apply Rltb_false; lra).
      replace (Rltb len lo) with true by (symmetry; apply Rltb_true; lra). reflexivity. }
    rewrite DL. nR.
    apply (is_derive_ext_loc (fun t : R => polyPotential k poly (t - lo) false)).
    + exists (mkposreal (lo - len) ltac:(lra)). intros t Ht. cbv beta.
      unfold ball in Ht. cbn in Ht. unfold AbsRing_ball, abs, minus, plus, opp in Ht. cbn in Ht.
      apply Rabs_def2 in Ht. unfold tendonDisp. nR.
      replace (Rltb up t) with false by (symmetry; apply Rltb_false; lra).
      replace (Rltb t lo) with true by (symmetry; apply Rltb_true; lra). reflexivity.
    + evar_last.
      * apply (is_derive_comp (fun y : R => polyPotential k poly y false) (fun t : R => t - lo) len
                              ((len - lo) * polyForce k poly (len - lo) false) 1).
        -- apply polyPotential_derive.
        -- auto_derive; [exact I | ring].
      * change (1 * ((len - lo) * polyForce k poly (len - lo) false) = - (- (len - lo) * polyForce k poly (len - lo) false)). ring.
  - assert (DL : tendonDisp len lo up = len - up).
    { unfold tendonDisp. nR. replace (Rltb up len) with true by (symmetry; apply Rltb_true; lra). reflexivity. }
    rewrite DL. nR.
    apply (is_derive_ext_loc (fun t : R => polyPotential k poly (t - up) false)).
    + exists (mkposreal (len - up) ltac:(lra)). intros t Ht. cbv beta.
      unfold ball in Ht. cbn in Ht. unfold AbsRing_ball, abs, minus, plus, opp in Ht. cbn in Ht.
      apply Rabs_def2 in Ht. unfold tendonDisp. nR.
      replace (Rltb up t) with true by (symmetry; apply Rltb_true; lra). reflexivity.
    + evar_last.
      * apply (is_derive_comp (fun y : R => polyPotential k poly y false) (fun t : R => t - up) len
                              ((len - up) * polyForce k poly (len - up) false) 1).
        -- apply polyPotential_derive.
        -- auto_derive; [exact I | ring].
      * change (1 * ((len - up) * polyForce k poly (len - up) false) = - (- (len - up) * polyForce k poly (len - up) false)). ring.
Qed.

(* ================================================================== kinetic energy *)
Fixpoint dotr (a b : list R) : R :=
  match a, b with
  | (x :: r)%list, (y :: s)%list => x * y + dotr r s
  | _, _ => 0
  end.

Lemma ndot_acc (a : list R) : forall (b : list R) (acc : R),
  fold_left (fun (s : R) (p : R * R) => s + fst p * snd p) (combine a b) acc = acc + dotr a b.
Proof.
  induction a as [|x r IH]; intros b acc; [simpl; ring|].
  destruct b as [|y s]; [simpl; ring|]. cbn [combine fold_left dotr fst snd]. rewrite IH. ring.
Qed.
Lemma ndot_dotr (a b : list R) : ndot a b = dotr a b.
Proof. unfold ndot. nR. rewrite ndot_acc. ring. Qed.

Lemma upd_length (l : list R) : forall (i : nat) (f : R -> R), length (upd l i f) = length l.
Proof. induction l as [|x r IH]; intros [|k] f; simpl; auto. Qed.

Lemma nth_upd_other (l : list R) : forall (i j : nat) (f : R -> R), i <> j -> nth j (upd l i f) 0 = nth j l 0.
Proof.
  induction l as [|x r IH]; intros [|k] [|m] f NE; simpl; auto; try congruence.
Qed.

Lemma dotr_upd (l : list R) : forall (v : list R) (i : nat) (f : R -> R),
  length l = length v -> (i < length l)%nat ->
  dotr (upd l i f) v = dotr l v + (f (nth i l 0) - nth i l 0) * nth i v 0.
Proof.
  induction l as [|x r IH]; intros v i f EL LT; [simpl in LT; lia|].
  destruct v as [|y s]; [simpl in EL; lia|].
  destruct i as [|k]; cbn [upd dotr nth].
  - ring.
  - rewrite (IH s k f) by (simpl in *; lia). ring.
Qed.

(* the quadratic form of the lower-triangular representation: row i contributes
   diag_i v_i^2 + 2 sum_{(j, val) in row i} val v_j v_i *)
Fixpoint esum (v : list R) (i : nat) (es : list (nat * R)) : R :=
  match es with
  | nil => 0
  | (e :: r)%list => snd e * nth (fst e) v 0 * nth i v 0 + esum v i r
  end.
Definition qrow (v : list R) (i : nat) (row : mrow R) : R :=
  snd row * nth i v 0 * nth i v 0 + 2 * esum v i (fst row).
Fixpoint qform (v : list R) (i : nat) (rows : list (mrow R)) : R :=
  match rows with
  | nil => 0
  | (row :: r)%list => qrow v i row + qform v (S i) r
  end.
(* lower-triangular: every stored column index of row i is smaller than i *)
Fixpoint wfRows (i : nat) (rows : list (mrow R)) : Prop :=
  match rows with
  | nil => True
  | (row :: r)%list => List.Forall (fun e : nat * R => (fst e < i)%nat) (fst row) /\ wfRows (S i) r
  end.

Lemma esum_app (v : list R) (i : nat) (a b : list (nat * R)) : esum v i (a ++ b) = esum v i a + esum v i b.
Proof. induction a as [|e r IH]; simpl; [ring | rewrite IH; ring]. Qed.
Lemma esum_rev (v : list R) (i : nat) (a : list (nat * R)) : esum v i (rev a) = esum v i a.
Proof. induction a as [|e r IH]; simpl; [reflexivity|]. rewrite esum_app, IH. simpl. ring. Qed.

Definition estep (vec : list R) (i : nat) (res : list R) (e : nat * R) : list R :=
  let '(j, val) := e in
  upd (upd res i (fun r : R => r + val * nth j vec 0)) j (fun r : R => r + val * nth i vec 0).

Lemma efold_spec (v : list R) (i : nat) (es : list (nat * R)) : forall (res : list R),
  length res = length v -> (i < length v)%nat -> List.Forall (fun e : nat * R => (fst e < i)%nat) es ->
  dotr (fold_left (estep v i) es res) v = dotr res v + 2 * esum v i es /\
  length (fold_left (estep v i) es res) = length res /\
  (forall k : nat, (i < k)%nat -> nth k (fold_left (estep v i) es res) 0 = nth k res 0).
Proof.
  induction es as [|[j val] r IH]; intros res EL LT WF.
  - simpl. repeat split; auto. ring.
  - inversion WF as [|? ? Hj Hr]; subst. cbn [fst] in Hj. cbn [fold_left].
    assert (L1 : length (estep v i res (j, val)) = length res).
    { unfold estep. rewrite !upd_length. reflexivity. }
    destruct (IH (estep v i res (j, val))) as (A & B & C); [lia | assumption | assumption |].
    rewrite A, B, L1. split; [|split; [reflexivity|]].
    + unfold estep. rewrite dotr_upd by (rewrite ?upd_length; lia).
      rewrite dotr_upd by lia. cbn [esum fst snd]. ring.
    + intros k Hk. rewrite C by assumption. unfold estep.
      rewrite !nth_upd_other by lia. reflexivity.
Qed.

Lemma rowStep_spec (v : list R) (i : nat) (row : mrow R) (res : list R) :
  length res = length v -> (i < length v)%nat ->
  List.Forall (fun e : nat * R => (fst e < i)%nat) (fst row) -> nth i res 0 = 0 ->
  dotr (rowStep v i row res) v = dotr res v + qrow v i row /\
  length (rowStep v i row res) = length res /\
  (forall k : nat, (i < k)%nat -> nth k (rowStep v i row res) 0 = nth k res 0).
Proof.
  intros EL LT WF Z. unfold rowStep. nR.
  change (fun (res0 : list R) (e : nat * R) =>
            let '(j, val) := e in
            upd (upd res0 i (fun r : R => r + val * nth j v 0)) j (fun r : R => r + val * nth i v 0))
    with (estep v i).
  destruct (efold_spec v i (rev (fst row)) (upd res i (fun _ : R => snd row * nth i v 0))) as (A & B & C).
  - rewrite upd_length. exact EL.
  - exact LT.
  - apply Forall_rev. exact WF.
  - rewrite A, B, upd_length, esum_rev. split; [|split; [reflexivity|]].
    + rewrite dotr_upd by lia. rewrite Z. unfold qrow. ring.
    + intros k Hk. rewrite C by assumption. apply nth_upd_other. lia.
Qed.

Lemma mulSymLoop_spec (v : list R) (rows : list (mrow R)) : forall (i : nat) (res : list R),
  length res = length v -> (i + length rows = length v)%nat -> wfRows i rows ->
  (forall k : nat, (i <= k)%nat -> nth k res 0 = 0) ->
  dotr (mulSymLoop v i rows res) v = dotr res v + qform v i rows.
Proof.
  induction rows as [|row r IH]; intros i res EL LEN WF Z.
  - simpl. ring.
  - destruct WF as [WR WT]. cbn [mulSymLoop qform]. cbn [length] in LEN.
    destruct (rowStep_spec v i row res EL ltac:(lia) WR (Z i (Nat.le_refl i))) as (A & B & C).
    rewrite IH.
    + rewrite A. ring.
    + rewrite B. exact EL.
    + lia.
    + exact WT.
    + intros k Hk. rewrite C by lia. apply Z. lia.
Qed.

Lemma dotr_zeros (rows : list (mrow R)) (v : list R) : dotr (map (fun _ : mrow R => 0) rows) v = 0.
Proof.
  revert v. induction rows as [|x r IH]; intros v; [reflexivity|].
  destruct v as [|y s]; [reflexivity|]. cbn [map dotr]. rewrite IH. ring.
Qed.
Lemma nth_zeros (rows : list (mrow R)) (k : nat) : nth k (map (fun _ : mrow R => 0) rows) 0 = 0.
Proof. revert k. induction rows as [|x r IH]; intros [|k]; simpl; auto. Qed.

(* energy[1] = 1/2 * (quadratic form of the symmetric matrix whose lower triangle is stored) *)
Lemma energyVel_qform (rows : list (mrow R)) (v : list R) :
  length v = length rows -> wfRows 0 rows ->
  energyVel rows v = / 2 * qform v 0 rows.
Proof.
  intros EL WF. unfold energyVel, mulSymVecSparse. nR. rewrite nhalf_R, ndot_dotr.
  rewrite mulSymLoop_spec.
  - rewrite dotr_zeros. ring.
  - rewrite map_length. symmetry. exact EL.
  - simpl. symmetry. exact EL.
  - exact WF.
  - intros k _. apply nth_zeros.
Qed.

(* ================================================================== ball-joint spring, radial direction (partial) *)
Lemma norm3_scl_unit (a : vec3 R) (t : R) : unitv a -> norm3 (scl3 a t) = Rabs t.
Proof.
  dv a. unfold unitv, norm3, scl3, dot3. nR. intros U.
  replace (a0 * t * (a0 * t) + a1 * t * (a1 * t) + a2 * t * (a2 * t)) with (Rsqr t)
    by (unfold Rsqr; replace (t * t) with (t * t * (a0 * a0 + a1 * a1 + a2 * a2)) by (rewrite U; ring); ring).
  apply sqrt_Rsqr_abs.
Qed.

Lemma ball_sub (qs : quat R) (a : vec3 R) (t : R) :
  unitq qs -> unitv a -> Rabs t <= PI -> mjMINVAL <= Rabs (sin (t * / 2)) ->
  subQuat (mulQuat qs (axisAngle2Quat a t)) qs = scl3 a t.
Proof.
  intros U UA T S. unfold subQuat. rewrite <- mulQuat_assoc.
  destruct (negQuat_inverse qs U) as [_ E]. rewrite E, mulQuat_id_l, axisAngle2Quat_is_reg.
  change (none (T:=R)) with 1. apply quat2Vel_axisAngle; assumption.
Qed.

(* qpos = qpos_spring rotated by the angle t about the unit axis a (0 < t <= pi, no mjMINVAL guard fires):
   the reported potential is polyPotential(t), the spring torque is -t polyForce(t) a, and
   t polyForce(t) is the derivative of polyPotential at t: along the rotation axis, torque = - dV/dt *)
Lemma ball_radial (k : R) (poly : list R) (qs : quat R) (a : vec3 R) (t : R) :
  unitq qs -> unitv a -> 0 < t <= PI -> mjMINVAL <= sin (t * / 2) ->
  springPotBall k poly (mulQuat qs (axisAngle2Quat a t)) qs = polyPotential k poly t false /\
  springForceBall k poly (mulQuat qs (axisAngle2Quat a t)) qs = scl3 a (- (t * polyForce k poly t false)) /\
  is_derive (fun s : R => polyPotential k poly s false) t (t * polyForce k poly t false).
Proof.
  intros U UA [T0 T1] S.
  assert (AT : Rabs t = t) by (apply Rabs_right; lra).
  assert (SB : subQuat (mulQuat qs (axisAngle2Quat a t)) qs = scl3 a t).
  { apply ball_sub; auto; [rewrite AT; lra|].
    pose proof mjMINVAL_pos. rewrite Rabs_right by lra. exact S. }
  split; [|split].
  - unfold springPotBall. rewrite SB, norm3_scl_unit, AT by assumption. reflexivity.
  - unfold springForceBall.
    rewrite normalize4_unit by (apply unitq_mul; [assumption | apply axisAngle2Quat_unit; assumption]).
    cbn [fst]. rewrite SB, norm3_scl_unit, AT by assumption.
    dv a. unfold scl3. nR. apply vec_ext; ring.
  - apply polyPotential_derive.
Qed.

(* ================================================================== gravity *)
(* moving the inertial frame origin of one body by t u changes the reported potential at the rate
   - mass (gravity . u): the force on the body is mass * gravity *)
Definition gravAcc (g : vec3 R) (e : R) (b : R * vec3 R) : R := e - fst b * dot3 g (snd b).
Lemma grav_acc (g : vec3 R) (l : list (R * vec3 R)) : forall e : R,
  fold_left (gravAcc g) l e = e + fold_left (gravAcc g) l 0.
Proof.
  induction l as [|b r IH]; intros e; cbn [fold_left]; [ring|].
  rewrite (IH (gravAcc g e b)), (IH (gravAcc g 0 b)). unfold gravAcc. ring.
Qed.
Lemma grav_split (g : vec3 R) (pre post : list (R * vec3 R)) (m : R) (p : vec3 R) :
  fold_left (gravAcc g) (pre ++ (m, p) :: post)%list 0 =
    fold_left (gravAcc g) pre 0 - m * dot3 g p + fold_left (gravAcc g) post 0.
Proof.
  rewrite fold_left_app. cbn [fold_left].
  rewrite (grav_acc g post (gravAcc g (fold_left (gravAcc g) pre 0) (m, p))).
  set (A := fold_left (gravAcc g) pre 0). set (B := fold_left (gravAcc g) post 0).
  unfold gravAcc. cbn [fst snd]. ring.
Qed.

Lemma energyPos_gravity_only (g : vec3 R) (bodies : list (R * vec3 R)) :
  energyPos true g bodies false nil nil = fold_left (gravAcc g) bodies 0.
Proof. reflexivity. Qed.

Lemma gravity_gradient (g u : vec3 R) (pre post : list (R * vec3 R)) (m : R) (x : vec3 R) (t0 : R) :
  is_derive (fun t : R => energyPos true g (pre ++ (m, add3 x (scl3 u t)) :: post)%list false nil nil) t0
            (- (m * dot3 g u)).
Proof.
  apply (is_derive_ext (fun t : R => fold_left (gravAcc g) pre 0 - m * dot3 g (add3 x (scl3 u t)) + fold_left (gravAcc g) post 0)).
  { intros t. symmetry. exact (grav_split g pre post m (add3 x (scl3 u t))). }
  generalize (fold_left (gravAcc g) pre 0) (fold_left (gravAcc g) post 0). intros A B.
  dv g; dv u; dv x. unfold dot3, add3, scl3. nR.
  auto_derive; [exact I | ring].
Qed.

(* ================================================================== satisfiability (Examples of Props/C08.v) *)
Lemma kinetic_example :
  let rows : list (mrow R) := ((nil, 2) :: (((0%nat, 1) :: nil), 3) :: (((0%nat, -1) :: (1%nat, / 2) :: nil), 4) :: nil)%list in
  wfRows 0 rows /\ energyVel rows (1 :: 2 :: 3 :: nil)%list = 27.
Proof.
  cbv zeta. split.
  - cbn [wfRows fst]. repeat split; repeat constructor; cbn [fst]; lia.
  - rewrite energyVel_qform.
    + unfold qform, qrow, esum. simpl. lra.
    + reflexivity.
    + cbn [wfRows fst]. repeat split; repeat constructor; cbn [fst]; lia.
Qed.

Lemma ball_radial_example : 0 < PI <= PI /\ mjMINVAL <= sin (PI * / 2) /\ unitq (0, 1, 0, 0) /\ unitv (0, 0, 1).
Proof.
  pose proof PI_RGT_0. pose proof mjMINVAL_lt1.
  replace (PI * / 2) with (PI / 2) by field. rewrite sin_PI2.
  repeat split; try lra; unfold unitq, unitv, qnorm2, dot3; nR; ring.
Qed.
