From Coq Require Import List ZArith Bool Lia Permutation Sorted.
From MJV Require Import Model.Sort.
Import ListNotations.
Open Scope Z_scope.

Section SortProof.
Variable A : Type.
Variable cmp : A -> A -> Z.
Hypothesis cmp_total : forall a b, 0 < cmp a b -> cmp b a <= 0.
Hypothesis cmp_trans : forall a b c, cmp a b <= 0 -> cmp b c <= 0 -> cmp a c <= 0.

Notation le := (le A cmp).
Notation gt := (gt A cmp).
Definition leP (a b : A) : Prop := cmp a b <= 0.
Definition eqv (x y : A) : bool := le x y && le y x.

Lemma le_iff a b : le a b = true <-> leP a b.
Proof. unfold Sort.le, leP. apply Z.leb_le. Qed.
Lemma gt_iff a b : gt a b = true <-> 0 < cmp a b.
Proof. unfold Sort.gt. apply Z.ltb_lt. Qed.
Lemma gt_false a b : gt a b = false -> leP a b.
Proof. unfold Sort.gt, leP. intro H. apply Z.ltb_ge in H. exact H. Qed.
Lemma le_false a b : le a b = false -> 0 < cmp a b.
Proof. unfold Sort.le. intro H. apply Z.leb_gt in H. exact H. Qed.
Lemma leP_trans a b c : leP a b -> leP b c -> leP a c.
Proof. apply cmp_trans. Qed.

(* two elements equivalent to a common x cannot be strictly ordered *)
Lemma eqv_not_gt x a b : eqv x a = true -> eqv x b = true -> 0 < cmp a b -> False.
Proof.
  unfold eqv. rewrite !andb_true_iff, !le_iff. intros [Hxa Hax] [Hxb Hbx] Hgt.
  pose proof (cmp_trans _ _ _ Hax Hxb) as H. lia.
Qed.

(* ---------- insertion *)
Definition rsorted (rl : list A) : Prop := StronglySorted (fun a b => leP b a) rl.

Lemma ins_rev_perm x rl : Permutation (ins_rev A cmp x rl) (x :: rl).
Proof.
  induction rl as [|y r IH]; simpl; [reflexivity|].
  destruct (gt y x); [|reflexivity].
  rewrite IH. apply perm_swap.
Qed.

Lemma ins_rev_sorted x rl : rsorted rl -> rsorted (ins_rev A cmp x rl).
Proof.
  unfold rsorted. induction rl as [|y r IH]; simpl; intro H.
  - constructor; constructor.
  - inversion H as [|? ? Hr Hy]; subst.
    destruct (gt y x) eqn:E.
    + constructor; [apply IH; exact Hr|].
      apply Forall_forall. intros z Hz.
      apply (Permutation_in _ (ins_rev_perm x r)) in Hz. destruct Hz as [->|Hz].
      * apply gt_iff in E. unfold leP. apply cmp_total. exact E.
      * rewrite Forall_forall in Hy. apply Hy. exact Hz.
    + apply gt_false in E. constructor; [exact H|].
      constructor; [exact E|].
      rewrite Forall_forall in Hy |- *. intros z Hz. eapply leP_trans; [apply Hy; exact Hz| exact E].
Qed.

Lemma filter_swap_excl (p : A -> bool) x y :
  (p x = true -> p y = true -> False) ->
  filter p [x] ++ filter p [y] = filter p [y] ++ filter p [x].
Proof. simpl. destruct (p x), (p y); intro H; try reflexivity. exfalso; apply H; reflexivity. Qed.

Lemma ins_rev_stable z x rl :
  filter (eqv z) (rev (ins_rev A cmp x rl)) = filter (eqv z) (rev rl ++ [x]).
Proof.
  induction rl as [|y r IH]; simpl; [reflexivity|].
  destruct (gt y x) eqn:E; simpl.
  - rewrite !filter_app, IH, !filter_app, <- !app_assoc. f_equal.
    apply filter_swap_excl. intros Hx Hy. apply gt_iff in E.
    exact (eqv_not_gt z y x Hy Hx E).
  - rewrite <- !app_assoc. reflexivity.
Qed.

Definition sorted (l : list A) : Prop := StronglySorted leP l.

Lemma rsorted_rev rl : rsorted rl -> sorted (rev rl).
Proof.
  unfold rsorted, sorted. induction rl as [|y r IH]; simpl; intro H; [constructor|].
  inversion H as [|? ? Hr Hy]; subst.
  assert (G : forall l1 l2, StronglySorted leP l1 -> StronglySorted leP l2 ->
              (forall a b, In a l1 -> In b l2 -> leP a b) -> StronglySorted leP (l1 ++ l2)).
  { induction l1 as [|a l1 IH1]; simpl; intros l2 H1 H2 H12; [exact H2|].
    inversion H1; subst. constructor.
    - apply IH1; auto.
    - apply Forall_app. split; [assumption|]. apply Forall_forall. intros b Hb. apply H12; simpl; auto. }
  apply G; [apply IH; exact Hr| constructor; constructor |].
  intros a b Ha [<-|[]]. rewrite Forall_forall in Hy. apply Hy. apply in_rev. exact Ha.
Qed.

Lemma fold_ins_inv l : forall rl,
  rsorted rl ->
  let out := fold_left (fun rl x => ins_rev A cmp x rl) l rl in
  rsorted out /\ Permutation out (rev l ++ rl) /\
  (forall z, filter (eqv z) (rev out) = filter (eqv z) (rev rl ++ l)).
Proof.
  induction l as [|x l IH]; simpl; intros rl H.
  - split; [exact H|]. split; [reflexivity|]. intro z. rewrite app_nil_r. reflexivity.
  - destruct (IH (ins_rev A cmp x rl) (ins_rev_sorted x rl H)) as (S1 & P1 & F1).
    split; [exact S1|]. split.
    + rewrite P1. rewrite ins_rev_perm. rewrite <- app_assoc. simpl.
      apply Permutation_app_head. reflexivity.
    + intro z. rewrite F1. rewrite !filter_app. rewrite ins_rev_stable.
      rewrite filter_app, <- app_assoc. simpl. destruct (eqv z x); reflexivity.
Qed.

Lemma insertion_sort_spec l :
  sorted (insertion_sort A cmp l) /\ Permutation (insertion_sort A cmp l) l /\
  (forall z, filter (eqv z) (insertion_sort A cmp l) = filter (eqv z) l).
Proof.
  unfold insertion_sort.
  destruct (fold_ins_inv l [] (SSorted_nil _)) as (S1 & P1 & F1).
  split; [apply rsorted_rev; exact S1|]. split.
  - rewrite <- Permutation_rev. rewrite P1. rewrite app_nil_r. symmetry. apply Permutation_rev.
  - intro z. rewrite F1. reflexivity.
Qed.

(* ---------- merge *)
Lemma merge_perm l1 : forall l2, Permutation (merge A cmp l1 l2) (l1 ++ l2).
Proof.
  induction l1 as [|a r1 IH1]; intro l2.
  - destruct l2; reflexivity.
  - induction l2 as [|b r2 IH2].
    + simpl. rewrite app_nil_r. reflexivity.
    + simpl. destruct (le a b).
      * constructor. apply IH1.
      * simpl in IH2. rewrite IH2. apply (Permutation_middle (a :: r1) r2 b).
Qed.

Lemma merge_sorted l1 : forall l2, sorted l1 -> sorted l2 -> sorted (merge A cmp l1 l2).
Proof.
  unfold sorted.
  induction l1 as [|a r1 IH1]; intros l2 H1 H2.
  - destruct l2; exact H2.
  - induction l2 as [|b r2 IH2].
    + exact H1.
    + inversion H1 as [|? ? H1r H1a]; subst. inversion H2 as [|? ? H2r H2b]; subst.
      simpl. destruct (le a b) eqn:E.
      * constructor; [apply IH1; assumption|].
        apply le_iff in E.
        apply Forall_forall. intros z Hz. apply (Permutation_in _ (merge_perm r1 (b :: r2))) in Hz.
        apply in_app_or in Hz. destruct Hz as [Hz|[<-|Hz]].
        -- rewrite Forall_forall in H1a. auto.
        -- exact E.
        -- rewrite Forall_forall in H2b. eapply leP_trans; [exact E| auto].
      * apply le_false in E. assert (Eba : leP b a) by (apply cmp_total; exact E).
        constructor; [apply IH2; assumption|].
        apply Forall_forall. intros z Hz.
        change (In z (merge A cmp (a :: r1) r2)) in Hz.
        apply (Permutation_in _ (merge_perm (a :: r1) r2)) in Hz.
        apply in_app_or in Hz. destruct Hz as [[<-|Hz]|Hz].
        -- exact Eba.
        -- rewrite Forall_forall in H1a. eapply leP_trans; [exact Eba| auto].
        -- rewrite Forall_forall in H2b. auto.
Qed.

Lemma merge_stable z l1 : forall l2, sorted l1 ->
  filter (eqv z) (merge A cmp l1 l2) = filter (eqv z) l1 ++ filter (eqv z) l2.
Proof.
  unfold sorted.
  induction l1 as [|a r1 IH1]; intros l2 H1.
  - destruct l2; reflexivity.
  - induction l2 as [|b r2 IH2].
    + simpl. rewrite app_nil_r. reflexivity.
    + inversion H1 as [|? ? H1r H1a]; subst.
      simpl. destruct (le a b) eqn:E.
      * simpl. rewrite IH1 by assumption. simpl. destruct (eqv z a); reflexivity.
      * simpl in IH2. simpl filter at 1. rewrite IH2. simpl.
        destruct (eqv z b) eqn:Eb; [|reflexivity].
        (* nothing equivalent to z in a :: r1 *)
        apply le_false in E.
        assert (N : filter (eqv z) (a :: r1) = []).
        { assert (Fa : Forall (fun c => eqv z c = false) (a :: r1)).
          { apply Forall_forall. intros c Hc. destruct (eqv z c) eqn:Ec; [|reflexivity]. exfalso.
            assert (Hac : leP a c).
            { destruct Hc as [<-|Hc].
              - unfold leP. destruct (Z_lt_le_dec 0 (cmp a a)) as [G|G]; [apply cmp_total; exact G|exact G].
              - rewrite Forall_forall in H1a. auto. }
            (* c eqv b, so c <= b, so a <= b *)
            unfold eqv in Eb, Ec. rewrite andb_true_iff, !le_iff in Eb, Ec.
            destruct Eb as [Hzb Hbz]. destruct Ec as [Hzc Hcz].
            pose proof (leP_trans _ _ _ Hac (leP_trans _ _ _ Hcz Hzb)) as Hab. unfold leP in Hab. lia. }
          clear -Fa. induction Fa as [|c l Hc _ IH]; simpl; [reflexivity|]. rewrite Hc. exact IH. }
        simpl in N. rewrite N. reflexivity.
Qed.

(* ---------- runs *)
Definition runs_ok (rs : list (list A)) : Prop := Forall sorted rs.

Lemma merge_pairs_spec rs : runs_ok rs ->
  runs_ok (merge_pairs A cmp rs) /\ Permutation (concat (merge_pairs A cmp rs)) (concat rs) /\
  (forall z, filter (eqv z) (concat (merge_pairs A cmp rs)) = filter (eqv z) (concat rs)) /\
  (length (merge_pairs A cmp rs) <= Nat.div2 (S (length rs)))%nat.
Proof.
  unfold runs_ok.
  induction rs as [rs IH] using (well_founded_induction (Wf_nat.well_founded_ltof _ (@length (list A)))).
  destruct rs as [|a [|b r]]; intro H.
  - simpl. repeat split; auto.
  - simpl. repeat split; auto.
  - inversion H as [|? ? Ha H']; subst. inversion H' as [|? ? Hb Hr]; subst.
    destruct (IH r) as (S1 & P1 & F1 & L1); [unfold ltof; simpl; lia | exact Hr |].
    change (merge_pairs A cmp (a :: b :: r)) with (merge A cmp a b :: merge_pairs A cmp r).
    split; [constructor; [apply merge_sorted; assumption| exact S1]|].
    split; [|split].
    + simpl. rewrite P1. rewrite merge_perm. rewrite <- app_assoc. reflexivity.
    + intro z. simpl. rewrite !filter_app, F1, merge_stable by assumption.
      rewrite <- app_assoc. reflexivity.
    + simpl length. simpl Nat.div2. simpl in L1. lia.
Qed.

Lemma div2_lt n : (2 <= n -> Nat.div2 (S n) < n)%nat.
Proof. intro H. rewrite Nat.div2_div. apply Nat.div_lt_upper_bound; lia. Qed.

Lemma merge_all_spec fuel : forall rs, runs_ok rs -> (length rs <= fuel)%nat ->
  let out := merge_all A cmp fuel rs in
  runs_ok out /\ Permutation (concat out) (concat rs) /\
  (forall z, filter (eqv z) (concat out) = filter (eqv z) (concat rs)) /\ (length out <= 1)%nat.
Proof.
  induction fuel as [|f IH]; intros rs H L.
  - destruct rs; [|simpl in L; lia]. simpl. repeat split; auto.
  - destruct rs as [|a [|b r]].
    + simpl. repeat split; auto.
    + simpl. repeat split; auto.
    + destruct (merge_pairs_spec (a :: b :: r) H) as (S1 & P1 & F1 & L1).
      assert (L2 : (length (merge_pairs A cmp (a :: b :: r)) <= f)%nat).
      { pose proof (div2_lt (length (a :: b :: r))) as D. simpl length in *. lia. }
      destruct (IH _ S1 L2) as (S2 & P2 & F2 & L3).
      change (merge_all A cmp (S f) (a :: b :: r)) with (merge_all A cmp f (merge_pairs A cmp (a :: b :: r))).
      cbv zeta. split; [exact S2|]. split; [rewrite P2; exact P1|]. split; [|exact L3].
      intro z. rewrite F2. apply F1.
Qed.

Lemma chunks_concat fuel : forall l, (length l <= fuel)%nat ->
  concat (chunks A fuel l) = l /\ (length (chunks A fuel l) <= length l)%nat.
Proof.
  induction fuel as [|f IH]; intros l L.
  - destruct l; [split; reflexivity| simpl in L; lia].
  - destruct l as [|x l]; [split; reflexivity|].
    change (chunks A (S f) (x :: l)) with (firstn RUNSIZE (x :: l) :: chunks A f (skipn RUNSIZE (x :: l))).
    assert (L2 : (length (skipn RUNSIZE (x :: l)) <= f)%nat).
    { rewrite skipn_length. unfold RUNSIZE. simpl length in *. lia. }
    destruct (IH _ L2) as (C & N). split.
    + change (firstn RUNSIZE (x :: l) ++ concat (chunks A f (skipn RUNSIZE (x :: l))) = x :: l).
      rewrite C. apply firstn_skipn.
    + change (S (length (chunks A f (skipn RUNSIZE (x :: l)))) <= length (x :: l))%nat.
      rewrite skipn_length in N. unfold RUNSIZE in *. simpl length in *. lia.
Qed.

Lemma map_ins_spec rs :
  runs_ok (map (insertion_sort A cmp) rs) /\
  Permutation (concat (map (insertion_sort A cmp) rs)) (concat rs) /\
  (forall z, filter (eqv z) (concat (map (insertion_sort A cmp) rs)) = filter (eqv z) (concat rs)).
Proof.
  induction rs as [|r rs (S1 & P1 & F1)]; simpl.
  - repeat split; auto. constructor.
  - destruct (insertion_sort_spec r) as (S2 & P2 & F2).
    split; [constructor; assumption|]. split.
    + rewrite P1, P2. reflexivity.
    + intro z. rewrite !filter_app, F1, F2. reflexivity.
Qed.

Lemma sorted_concat1 (rs : list (list A)) : runs_ok rs -> (length rs <= 1)%nat -> sorted (concat rs).
Proof.
  destruct rs as [|a [|b r]]; simpl; intros H L.
  - constructor.
  - rewrite app_nil_r. inversion H; assumption.
  - lia.
Qed.

Theorem mjsort_spec l :
  sorted (mjsort A cmp l) /\ Permutation (mjsort A cmp l) l /\
  (forall z, filter (eqv z) (mjsort A cmp l) = filter (eqv z) l).
Proof.
  unfold mjsort.
  destruct (chunks_concat (length l) l (le_n _)) as (C & N).
  destruct (map_ins_spec (chunks A (length l) l)) as (S1 & P1 & F1).
  assert (L : (length (map (insertion_sort A cmp) (chunks A (length l) l)) <= length l)%nat)
    by (rewrite map_length; exact N).
  destruct (merge_all_spec (length l) _ S1 L) as (S2 & P2 & F2 & L2).
  split; [apply sorted_concat1; assumption|]. split.
  - rewrite P2, P1, C. reflexivity.
  - intro z. rewrite F2, F1, C. reflexivity.
Qed.

End SortProof.

Lemma kcmp_preorder :
  (forall a b, 0 < kcmp a b -> kcmp b a <= 0) /\
  (forall a b c, kcmp a b <= 0 -> kcmp b c <= 0 -> kcmp a c <= 0).
Proof. unfold kcmp. split; intros; lia. Qed.
