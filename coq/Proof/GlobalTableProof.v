(* Proofs about Model/GlobalTable.v: (A) an inductive invariant of the interleaving semantics and
   the theorems about concurrent registration / lookup, (B) the laws of the sequential
   specification for every registration history. *)
From Coq Require Import ZArith List Bool Lia.
From MJV Require Import Lib.Eqb Model.GlobalTable.
Import ListNotations.
Open Scope Z_scope.

(* ------------------------------------------------------------------ lists *)
Lemma list_eqb_Z_eq : forall a b : list Z, list_eqb Z.eqb a b = true -> a = b.
Proof.
  induction a as [|x a IH]; destruct b as [|y b]; simpl; intros H; try discriminate; [reflexivity|].
  apply andb_true_iff in H. destruct H as [E H]. apply Z.eqb_eq in E. subst. f_equal. auto.
Qed.

Lemma list_eqb_Z_refl : forall a : list Z, list_eqb Z.eqb a a = true.
Proof. induction a; simpl; [reflexivity|]. now rewrite Z.eqb_refl, IHa. Qed.

Lemma key_eqb_eq : forall a b, key_eqb a b = true -> a = b.
Proof. exact list_eqb_Z_eq. Qed.
Lemma key_eqb_refl : forall a, key_eqb a a = true.
Proof. exact list_eqb_Z_refl. Qed.
Lemma ci_eq_refl : forall a, ci_eq a a = true.
Proof. intros. apply key_eqb_refl. Qed.
Lemma ci_eq_sym : forall a b, ci_eq a b = ci_eq b a.
Proof.
  intros a b. unfold ci_eq. destruct (key_eqb (map lower a) (map lower b)) eqn:E.
  - apply key_eqb_eq in E. rewrite E. symmetry. apply key_eqb_refl.
  - destruct (key_eqb (map lower b) (map lower a)) eqn:E2; [|reflexivity].
    apply key_eqb_eq in E2. rewrite E2, key_eqb_refl in E. discriminate.
Qed.
Lemma ci_eq_trans : forall a b c, ci_eq a b = true -> ci_eq b c = true -> ci_eq a c = true.
Proof. unfold ci_eq. intros a b c H1 H2. apply key_eqb_eq in H1, H2. rewrite H1, H2. apply key_eqb_refl. Qed.
Lemma ci_eq_empty : forall a b, ci_eq a b = true -> key_empty a = key_empty b.
Proof.
  unfold ci_eq. intros a b H. apply key_eqb_eq in H. destruct a, b; simpl in *; try reflexivity; discriminate.
Qed.
Lemma obj_eq_refl : forall ci o, obj_eq ci o o = true.
Proof. intros. unfold obj_eq. rewrite Z.eqb_refl. destruct ci; [rewrite ci_eq_refl|rewrite key_eqb_refl]; reflexivity. Qed.

Lemma nth_error_split_upd : forall (A : Type) (l : list A) k w,
  nth_error l k = Some w ->
  exists l1 l2, l = l1 ++ w :: l2 /\ length l1 = k /\ forall x, upd k x l = l1 ++ x :: l2.
Proof.
  induction l as [|a l IH]; intros k w H.
  - destruct k; discriminate.
  - destruct k as [|k]; simpl in H.
    + inversion H; subst. exists [], l. repeat split; reflexivity.
    + destruct (IH _ _ H) as [l1 [l2 [E [L U]]]].
      exists (a :: l1), l2. subst l. repeat split.
      * simpl. now rewrite L.
      * intros x. simpl. now rewrite U.
Qed.

Lemma upd_length : forall (A : Type) (l : list A) k x, length (upd k x l) = length l.
Proof. induction l; intros [|k] x; simpl; auto. Qed.

Lemma firstn_upd_ge : forall (A : Type) (l : list A) n k x, (n <= k)%nat -> firstn n (upd k x l) = firstn n l.
Proof.
  induction l; intros n k x H; destruct k, n; simpl; try reflexivity; try lia.
  f_equal. apply IHl. lia.
Qed.

Lemma nth_error_upd_same : forall (A : Type) (l : list A) k x, (k < length l)%nat -> nth_error (upd k x l) k = Some x.
Proof. induction l; intros [|k] x H; simpl in *; try lia; [reflexivity|]. apply IHl. lia. Qed.

Lemma nth_error_upd_other : forall (A : Type) (l : list A) k j x, j <> k -> nth_error (upd k x l) j = nth_error l j.
Proof. induction l; intros [|k] [|j] x H; simpl; try reflexivity; try congruence. apply IHl. congruence. Qed.

Lemma nth_error_firstn_lt : forall (A : Type) (l : list A) n i, (i < n)%nat -> nth_error (firstn n l) i = nth_error l i.
Proof.
  induction l; intros n i H; destruct n, i; simpl; try reflexivity; try lia. apply IHl. lia.
Qed.

Lemma firstn_snoc : forall (A : Type) (l : list A) n x, nth_error l n = Some x -> firstn (S n) l = firstn n l ++ [x].
Proof.
  induction l; intros n x H; destruct n; simpl in *; try discriminate.
  - inversion H. reflexivity.
  - f_equal. now apply IHl.
Qed.

Lemma nth_of_nth_error : forall (A : Type) (l : list A) i x d, nth_error l i = Some x -> nth i l d = x.
Proof. induction l; intros [|i] x d H; simpl in *; try discriminate; [now inversion H|eauto]. Qed.

Fixpoint sumZ (l : list Z) : Z := match l with [] => 0 | x :: r => x + sumZ r end.
Lemma sumZ_app : forall a b, sumZ (a ++ b) = sumZ a + sumZ b.
Proof. induction a; intros; simpl; [reflexivity|rewrite IHa; lia]. Qed.

(* ---- A1.v ---- *)

(* ------------------------------------------------------------------ (A) invariant *)
Definition crit (t : thread) : Z :=
  if held t then 1 else
  match pc t with
  | ALoad _ | AScan _ _ _ | AEq _ _ _ | ACopyK _ _ | ACopyV _ _ | AStore _ _ | AUnlock _ _ => 1
  | _ => 0
  end.

Definition scanned (rg : list obj) (o : obj) (i : Z) : Prop :=
  forall j oj, Z.of_nat j < i -> nth_error rg j = Some oj -> ci_eq (okey o) (okey oj) = false.

Definition res_ok (rg : list obj) (o : obj) (r : Z) : Prop :=
  (0 <= r /\ exists o', nth_error rg (Z.to_nat r) = Some o' /\ obj_eq false o o' = true) \/
  (r = -1 /\ exists i o', nth_error rg i = Some o' /\ ci_eq (okey o) (okey o') = true /\ obj_eq false o o' = false).

Definition tinv (c : Z) (sl rg : list obj) (t : thread) : Prop :=
  match pc t with
  | ALock _ => held t = false
  | AScan o c0 i => c0 = c /\ 0 <= i < c /\ scanned rg o i
  | AEq o c0 i => c0 = c /\ 0 <= i < c /\
                  exists o', nth_error rg (Z.to_nat i) = Some o' /\ ci_eq (okey o) (okey o') = true
  | ACopyK o c0 => c0 = c /\ scanned rg o c /\ (Z.to_nat c < length sl)%nat
  | ACopyV o c0 => c0 = c /\ scanned rg o c /\ (Z.to_nat c < length sl)%nat /\
                   okey (nth (Z.to_nat c) sl empty_obj) = okey o
  | AStore o c0 => c0 = c /\ scanned rg o c /\ nth_error sl (Z.to_nat c) = Some o
  | AUnlock o r => held t = false /\ res_ok rg o r
  | ARet o r => res_ok rg o r
  | SKey i => 0 <= i < c
  | KScan k i n => 0 <= i < n /\ n <= c
  | RVal i k => 0 <= i < c /\ exists o', nth_error rg (Z.to_nat i) = Some o' /\ okey o' = k
  | RRet (Some (i, o')) => 0 <= i /\ nth_error rg (Z.to_nat i) = Some o'
  | _ => True
  end.

Definition ci_nodup (l : list obj) : Prop :=
  forall i j oi oj, (i < j)%nat -> nth_error l i = Some oi -> nth_error l j = Some oj ->
    ci_eq (okey oj) (okey oi) = false.

Record Inv (s : st) : Prop := mkInv {
  inv_cnt : cnt s = Z.of_nat (length (reg s));
  inv_pre : firstn (length (reg s)) (slots s) = reg s;
  inv_len : Z.of_nat (length (slots s)) mod 15 = 0 /\ (15 <= length (slots s))%nat;
  inv_lock : sumZ (map crit (ths s)) = (if lk s then 1 else 0);
  inv_keys : ci_nodup (reg s);
  inv_thr : Forall (tinv (cnt s) (slots s) (reg s)) (ths s) }.

Lemma crit_01 : forall t, crit t = 0 \/ crit t = 1.
Proof. intros t. unfold crit. destruct (held t); [auto|]. destruct (pc t); auto. Qed.

Lemma sum_crit_nonneg : forall l, 0 <= sumZ (map crit l).
Proof. induction l; simpl; [lia|]. destruct (crit_01 a); lia. Qed.

Lemma sum_crit_zero : forall l, sumZ (map crit l) = 0 -> Forall (fun t => crit t = 0) l.
Proof.
  induction l; simpl; intros H; constructor.
  - pose proof (sum_crit_nonneg l). destruct (crit_01 a); lia.
  - apply IHl. pose proof (sum_crit_nonneg l). destruct (crit_01 a); lia.
Qed.

Lemma scanned_mono_reg : forall rg ext o i, Z.of_nat (length rg) >= i -> scanned rg o i -> scanned (rg ++ ext) o i.
Proof.
  intros rg ext o i L H j oj Hj E. rewrite nth_error_app1 in E by lia. eapply H; eauto.
Qed.

Lemma res_ok_mono : forall rg ext o r, res_ok rg o r -> res_ok (rg ++ ext) o r.
Proof.
  intros rg ext o r [[R (o' & E & Q)]|[R (i & o' & E & Q)]].
  - left. split; [exact R|]. exists o'. split; [|exact Q]. rewrite nth_error_app1; [exact E|]. apply nth_error_Some. congruence.
  - right. split; [exact R|]. exists i, o'. split; [|exact Q]. rewrite nth_error_app1; [exact E|]. apply nth_error_Some. congruence.
Qed.

(* threads outside the critical section only know lower bounds on count_ and facts about registered objects *)
Lemma tinv_mono : forall c sl rg c' sl' ext t,
  tinv c sl rg t -> crit t = 0 -> c <= c' -> tinv c' sl' (rg ++ ext) t.
Proof.
  intros c sl rg c' sl' ext t H C L. unfold crit in C. unfold tinv in *.
  destruct (held t) eqn:Hh; [discriminate|].
  destruct (pc t); try discriminate; auto.
  - now apply res_ok_mono.
  - lia.
  - lia.
  - destruct H as (B & o' & E & K). split; [lia|]. exists o'. split; [|exact K].
    rewrite nth_error_app1; [exact E|]. apply nth_error_Some. congruence.
  - destruct r as [[i o']|]; [|exact I]. destruct H as (B & E). split; [exact B|].
    rewrite nth_error_app1; [exact E|]. apply nth_error_Some. congruence.
Qed.

Lemma others_mono : forall c sl rg c' sl' ext l,
  Forall (tinv c sl rg) l -> sumZ (map crit l) = 0 -> c <= c' -> Forall (tinv c' sl' (rg ++ ext)) l.
Proof.
  intros c sl rg c' sl' ext l H Z L. apply sum_crit_zero in Z.
  rewrite Forall_forall in *. intros t Ht. eapply tinv_mono; eauto.
Qed.

(* ---- A2.v ---- *)

Definition shared_ok (s : st) : Prop :=
  cnt s = Z.of_nat (length (reg s)) /\ firstn (length (reg s)) (slots s) = reg s /\
  (Z.of_nat (length (slots s)) mod 15 = 0 /\ (15 <= length (slots s))%nat) /\ ci_nodup (reg s).

Definition lkbit (s : st) : Z := if lk s then 1 else 0.

Definition tstep_post (s : st) (t : thread) (s1 : st) (t' : thread) : Prop :=
  ths s1 = ths s /\ shared_ok s1 /\ tinv (cnt s1) (slots s1) (reg s1) t' /\
  crit t' - crit t = lkbit s1 - lkbit s /\
  cnt s <= cnt s1 /\ (exists ext, reg s1 = reg s ++ ext) /\
  ((cnt s1 = cnt s /\ slots s1 = slots s /\ reg s1 = reg s) \/ crit t = 1) /\
  (forall i, (i < length (reg s))%nat -> nth_error (slots s1) i = nth_error (slots s) i).

Ltac bools :=
  repeat match goal with
  | H : _ && _ = true |- _ => apply andb_true_iff in H; destruct H
  | H : _ || _ = true |- _ => apply orb_true_iff in H
  | H : _ && _ = false |- _ => apply andb_false_iff in H
  | H : _ || _ = false |- _ => apply orb_false_iff in H; destruct H
  | H : negb _ = true |- _ => apply negb_true_iff in H
  | H : negb _ = false |- _ => apply negb_false_iff in H
  | H : (_ =? _) = true |- _ => apply Z.eqb_eq in H
  | H : (_ =? _) = false |- _ => apply Z.eqb_neq in H
  | H : (_ <? _) = true |- _ => apply Z.ltb_lt in H
  | H : (_ <? _) = false |- _ => apply Z.ltb_ge in H
  | H : (_ <=? _) = true |- _ => apply Z.leb_le in H
  | H : (_ <=? _) = false |- _ => apply Z.leb_gt in H
  | H : key_eqb _ _ = true |- _ => apply key_eqb_eq in H
  end.

(* steps that leave count_, the slots and the registry untouched *)
Lemma post_same : forall s t s1 t',
  shared_ok s -> ths s1 = ths s -> cnt s1 = cnt s -> slots s1 = slots s -> reg s1 = reg s ->
  tinv (cnt s) (slots s) (reg s) t' -> crit t' - crit t = lkbit s1 - lkbit s ->
  tstep_post s t s1 t'.
Proof.
  intros s t s1 t' SO H1 H2 H3 H4 TI CR. unfold tstep_post.
  destruct s1 as [c1 sl1 lk1 th1 rg1]; simpl in *. subst c1 sl1 rg1 th1.
  split; [reflexivity|]. split; [exact SO|]. split; [exact TI|]. split; [exact CR|].
  split; [lia|]. split; [exists []; now rewrite app_nil_r|]. split; [left; auto|]. auto.
Qed.

Lemma slot_at_reg : forall s i o', shared_ok s -> nth_error (reg s) (Z.to_nat i) = Some o' -> slot_at s i = o'.
Proof.
  intros s i o' (C & P & _) E. unfold slot_at. apply nth_of_nth_error.
  assert (Hlt : (Z.to_nat i < length (reg s))%nat) by (apply nth_error_Some; congruence).
  rewrite <- (nth_error_firstn_lt _ (slots s) (length (reg s)) (Z.to_nat i) Hlt). rewrite P. exact E.
Qed.

Lemma reg_has : forall s i, shared_ok s -> 0 <= i < cnt s -> exists o', nth_error (reg s) (Z.to_nat i) = Some o'.
Proof.
  intros s i (C & _) B. destruct (nth_error (reg s) (Z.to_nat i)) eqn:E; [eauto|].
  apply nth_error_None in E. lia.
Qed.

(* ---- A3.v ---- *)

Lemma prefix_len : forall (rg sl : list obj), firstn (length rg) sl = rg -> (length rg <= length sl)%nat.
Proof. intros rg sl H. pose proof (firstn_length (length rg) sl) as L. rewrite H in L. lia. Qed.

Lemma grow_props : forall c (rg sl : list obj),
  c = Z.of_nat (length rg) -> firstn (length rg) sl = rg ->
  Z.of_nat (length sl) mod 15 = 0 -> (15 <= length sl)%nat ->
  firstn (length rg) (grow c sl) = rg /\
  Z.of_nat (length (grow c sl)) mod 15 = 0 /\ (15 <= length (grow c sl))%nat /\
  (Z.to_nat c < length (grow c sl))%nat /\
  (forall i, (i < length rg)%nat -> nth_error (grow c sl) i = nth_error sl i).
Proof.
  intros c rg sl C P M L. pose proof (prefix_len _ _ P) as PL. unfold grow.
  destruct ((c mod 15 =? 0) && (0 <? c)) eqn:G.
  - bools. replace (Z.to_nat c) with (length rg) by lia. rewrite P.
    repeat split.
    + rewrite firstn_app, firstn_all, Nat.sub_diag. simpl. apply app_nil_r.
    + rewrite app_length, repeat_length, Nat2Z.inj_add. simpl Z.of_nat.
      rewrite <- C. rewrite Z.add_mod by lia. rewrite H. reflexivity.
    + rewrite app_length, repeat_length. lia.
    + rewrite app_length, repeat_length. lia.
    + intros i Hi. rewrite nth_error_app1 by lia. rewrite <- P at 1. apply nth_error_firstn_lt. exact Hi.
  - repeat split; auto.
    assert (Z.to_nat c <> length sl); [|lia].
    intro E. bools. destruct G as [G|G]; bools.
    + apply G. rewrite <- M. f_equal. lia.
    + lia.
Qed.

Lemma after_scan_post : forall s t o i s1 p,
  shared_ok s -> crit t = 1 -> 0 <= i <= cnt s -> scanned (reg s) o i ->
  after_scan s o (cnt s) i = (s1, p) -> tstep_post s t s1 (mkTh (held t) p).
Proof.
  intros s t o i s1 p SO CR B SC H. unfold after_scan in H.
  destruct (i <? cnt s) eqn:E; bools; inversion H; subst s1 p; clear H.
  - apply post_same; auto.
    + unfold tinv; simpl. repeat split; auto; lia.
    + unfold crit at 1; simpl. unfold lkbit. destruct (held t); lia.
  - assert (i = cnt s) by lia. subst i.
    destruct SO as (C & P & (M & L) & ND).
    destruct (grow_props (cnt s) (reg s) (slots s) C P M L) as (G1 & G2 & G3 & G4 & G5).
    unfold tstep_post, shared_ok; simpl. repeat split; auto; try lia.
    + unfold crit at 1; simpl. unfold lkbit; simpl. destruct (held t); lia.
    + exists []. now rewrite app_nil_r.
Qed.

(* ---- A4.v ---- *)
Local Arguments Z.add _ _ : simpl never.
Local Arguments Z.sub _ _ : simpl never.
Local Arguments Z.of_nat _ : simpl never.
Local Arguments Z.to_nat _ : simpl never.

Ltac critgoal t := unfold crit, lkbit; simpl; try match goal with P : pc t = _ |- _ => rewrite ?P end; try destruct (held t) eqn:?; simpl; try lia; try congruence.
Ltac same t := apply post_same; [assumption|reflexivity|reflexivity|reflexivity|reflexivity|unfold tinv; simpl|critgoal t].

Lemma finish_post : forall s t o r,
  shared_ok s -> crit t = 1 -> res_ok (reg s) o r ->
  tstep_post s t s (mkTh (held t) (finish (held t) o r)).
Proof.
  intros s t o r SO CR RO. unfold finish. destruct (held t) eqn:Hh.
  - apply post_same; [assumption|reflexivity|reflexivity|reflexivity|reflexivity|unfold tinv; simpl; exact RO|].
    rewrite CR. unfold crit, lkbit. simpl. lia.
  - apply post_same; [assumption|reflexivity|reflexivity|reflexivity|reflexivity|unfold tinv; simpl; auto|].
    rewrite CR. unfold crit, lkbit. simpl. lia.
Qed.

Lemma tstep_inv : forall s t e s1 t',
  shared_ok s -> tinv (cnt s) (slots s) (reg s) t -> (crit t = 1 -> lk s = true) ->
  tstep s t e = Some (s1, t') -> tstep_post s t s1 t'.
Proof.
  intros s t e s1 t' SO TI LK H. unfold tstep in H.
  destruct (pc t) eqn:P; destruct e; try discriminate H; unfold tinv in TI; rewrite P in TI.
  all: try (destruct r as [[? ?]|]; discriminate H).
  - (* TIdle, call append *) inversion H; subst s1 t'; clear H. same t; destruct (held t); simpl; auto.
  - inversion H; subst s1 t'; clear H. same t; auto.
  - inversion H; subst s1 t'; clear H. same t; auto.
  - (* TIdle, outer lock *) destruct (negb (held t) && negb (lk s)) eqn:G; [|discriminate]. bools.
    inversion H; subst s1 t'; clear H.
    apply post_same; [assumption|reflexivity|reflexivity|reflexivity|reflexivity|unfold tinv; simpl; auto|].
    unfold crit, lkbit; simpl. rewrite H0, H1, P. lia.
  - (* TIdle, outer unlock *) destruct (held t) eqn:G; [|discriminate]. inversion H; subst s1 t'; clear H.
    apply post_same; [assumption|reflexivity|reflexivity|reflexivity|reflexivity|unfold tinv; simpl; auto|].
    assert (lk s = true) by (apply LK; unfold crit; now rewrite G).
    unfold crit, lkbit; simpl. rewrite G, H. lia.
  - (* ALock *) destruct (negb (lk s)) eqn:G; [|discriminate]. bools. inversion H; subst s1 t'; clear H.
    apply post_same; [assumption|reflexivity|reflexivity|reflexivity|reflexivity|unfold tinv; simpl; auto|].
    unfold crit, lkbit; simpl. rewrite TI, G, P. lia.
  - (* ALoad *) destruct (c =? cnt s) eqn:G; [|discriminate]. bools. subst c.
    destruct (after_scan s o (cnt s) 0) as [s2 p] eqn:AS. inversion H; subst s1 t'; clear H.
    apply (after_scan_post s t o 0 s2 p SO); [| | |exact AS].
    + unfold crit. rewrite P. destruct (held t); reflexivity.
    + destruct SO as (C & _). lia.
    + intros j oj Hj. lia.
  - (* AScan *) destruct TI as (-> & B & SC).
    destruct ((i0 =? i) && key_eqb k (okey (slot_at s i))) eqn:G; [|discriminate]. bools. subst i0 k.
    destruct (reg_has s i SO B) as [o' E]. rewrite (slot_at_reg s i o' SO E) in *.
    destruct (ci_eq (okey o) (okey o')) eqn:CI.
    + inversion H; subst s1 t'; clear H. same t. repeat split; try lia. exists o'. auto.
    + destruct (after_scan s o (cnt s) (i + 1)) as [s2 p] eqn:AS. inversion H; subst s1 t'; clear H.
      apply (after_scan_post s t o (i + 1) s2 p SO); [| | |exact AS].
      * unfold crit. rewrite P. destruct (held t); reflexivity.
      * lia.
      * intros j oj Hj Ej. destruct (Z.eq_dec (Z.of_nat j) i) as [Ei|Ni].
        -- replace (Z.to_nat i) with j in E by lia. rewrite E in Ej. inversion Ej; subst. exact CI.
        -- eapply SC; eauto. lia.
  - (* AEq *) destruct TI as (-> & B & o' & E & CI).
    destruct ((i0 =? i) && (v =? oval (slot_at s i))) eqn:G; [|discriminate]. bools.
    inversion H; subst s1 t'; clear H. rewrite (slot_at_reg s i o' SO E).
    apply finish_post; auto.
    + unfold crit. rewrite P. destruct (held t); reflexivity.
    + destruct (obj_eq false o o') eqn:OE.
      * left. split; [lia|]. exists o'. auto.
      * right. split; [reflexivity|]. exists (Z.to_nat i), o'. auto.
  - (* ACopyK *) destruct TI as (-> & SC & LT).
    destruct ((i =? cnt s) && key_eqb k (okey o)) eqn:G; [|discriminate]. bools. subst i k.
    inversion H; subst s1 t'; clear H.
    destruct SO as (C & Pf & (M & L) & ND).
    assert (N : Z.to_nat (cnt s) = length (reg s)) by lia.
    unfold tstep_post, shared_ok; simpl. rewrite upd_length.
    split; [reflexivity|]. split; [|split; [|split; [|split; [lia|split; [exists []; now rewrite app_nil_r|split]]]]].
    + repeat split; auto. rewrite firstn_upd_ge by lia. exact Pf.
    + unfold tinv; simpl. rewrite upd_length. repeat split; auto.
      erewrite nth_of_nth_error; [|apply nth_error_upd_same; exact LT]. reflexivity.
    + unfold crit, lkbit; simpl. rewrite P. destruct (held t); lia.
    + right. unfold crit. rewrite P. destruct (held t); reflexivity.
    + intros j Hj. apply nth_error_upd_other. lia.
  - (* ACopyV *) destruct TI as (-> & SC & LT & KO).
    destruct ((i =? cnt s) && (v =? oval o)) eqn:G; [|discriminate]. bools. subst i v.
    inversion H; subst s1 t'; clear H.
    destruct SO as (C & Pf & (M & L) & ND).
    assert (N : Z.to_nat (cnt s) = length (reg s)) by lia.
    unfold tstep_post, shared_ok; simpl. rewrite upd_length.
    split; [reflexivity|]. split; [|split; [|split; [|split; [lia|split; [exists []; now rewrite app_nil_r|split]]]]].
    + repeat split; auto. rewrite firstn_upd_ge by lia. exact Pf.
    + unfold tinv; simpl. repeat split; auto.
      rewrite nth_error_upd_same by exact LT. unfold slot_at, set_val. rewrite KO. destruct o; reflexivity.
    + unfold crit, lkbit; simpl. rewrite P. destruct (held t); lia.
    + right. unfold crit. rewrite P. destruct (held t); reflexivity.
    + intros j Hj. apply nth_error_upd_other. lia.
  - (* AStore *) destruct TI as (-> & SC & NE).
    destruct (c0 =? cnt s + 1) eqn:G; [|discriminate]. bools. subst c0.
    inversion H; subst s1 t'; clear H.
    destruct SO as (C & Pf & (M & L) & ND).
    assert (N : Z.to_nat (cnt s) = length (reg s)) by lia.
    assert (CRT : crit t = 1) by (unfold crit; rewrite P; destruct (held t); reflexivity).
    assert (SO' : shared_ok (mkSt (cnt s + 1) (slots s) (lk s) (ths s) (reg s ++ [o]))).
    { unfold shared_ok; simpl. rewrite app_length. simpl length. repeat split; auto; try lia.
      - replace (length (reg s) + 1)%nat with (S (length (reg s))) by lia.
        rewrite (firstn_snoc _ _ _ o) by (rewrite <- N; exact NE). now rewrite Pf.
      - intros a b oa ob AB Ea Eb.
        destruct (Nat.lt_ge_cases b (length (reg s))) as [Lb|Lb].
        + rewrite nth_error_app1 in Ea, Eb by lia. exact (ND a b oa ob AB Ea Eb).
        + rewrite nth_error_app2 in Eb by lia. destruct (b - length (reg s))%nat eqn:D; simpl in Eb; [|destruct n; discriminate].
          inversion Eb; subst ob. rewrite nth_error_app1 in Ea by lia. apply (SC a oa); [lia|exact Ea]. }
    assert (RO : res_ok (reg s ++ [o]) o (cnt s)).
    { left. split; [lia|]. exists o. split; [|apply obj_eq_refl].
      rewrite N. rewrite nth_error_app2 by lia. rewrite Nat.sub_diag. reflexivity. }
    pose proof (finish_post (mkSt (cnt s + 1) (slots s) (lk s) (ths s) (reg s ++ [o])) t o (cnt s) SO' CRT RO) as FP.
    unfold tstep_post in *; simpl in *. destruct FP as (_ & F2 & F3 & F4 & _).
    split; [reflexivity|]. split; [exact F2|]. split; [exact F3|]. split; [exact F4|].
    split; [lia|]. split; [eauto|]. split; [right; exact CRT|]. auto.
  - (* AUnlock *) destruct TI as (HF & RO). inversion H; subst s1 t'; clear H.
    apply post_same; [assumption|reflexivity|reflexivity|reflexivity|reflexivity|unfold tinv; simpl; exact RO|].
    assert (lk s = true) by (apply LK; unfold crit; rewrite P, HF; reflexivity).
    unfold crit, lkbit; simpl. rewrite P, HF, H. lia.
  - (* ARet *) destruct (r0 =? r) eqn:G; [|discriminate]. inversion H; subst s1 t'; clear H. same t; auto.
  - (* SLoad *) destruct (c =? cnt s) eqn:G; [|discriminate]. bools. subst c. inversion H; subst s1 t'; clear H.
    destruct ((s0 <? 0) || (cnt s <=? s0) || negb (in_chain s s0)) eqn:G.
    + same t; auto.
    + bools. same t. lia.
  - (* SKey *) destruct ((i =? s0) && key_eqb k (okey (slot_at s s0))) eqn:G; [|discriminate]. bools. subst i k.
    inversion H; subst s1 t'; clear H.
    destruct (reg_has s s0 SO TI) as [o' E]. rewrite (slot_at_reg s s0 o' SO E).
    destruct (key_empty (okey o')); same t; auto. split; [lia|]. exists o'. auto.
  - (* KLoad *) destruct (c =? cnt s) eqn:G; [|discriminate]. bools. subst c. inversion H; subst s1 t'; clear H.
    destruct (key_empty k); [same t; auto|]. unfold after_kscan.
    destruct ((0 <? cnt s) && in_chain s 0) eqn:G; bools; same t; auto. lia.
  - (* KScan *) destruct TI as (B & N).
    destruct ((i0 =? i) && key_eqb k0 (okey (slot_at s i))) eqn:G; [|discriminate]. bools. subst i0 k0.
    inversion H; subst s1 t'; clear H.
    destruct (reg_has s i SO) as [o' E]; [lia|]. rewrite (slot_at_reg s i o' SO E).
    destruct (key_empty (okey o')); [same t; auto|].
    destruct (ci_eq (okey o') k).
    + same t. split; [lia|]. exists o'. auto.
    + unfold after_kscan. destruct ((i + 1 <? nslot) && in_chain s (i + 1)) eqn:G; bools; same t; auto. lia.
  - (* RVal *) destruct TI as (B & o' & E & K).
    destruct ((i0 =? i) && (v =? oval (slot_at s i))) eqn:G; [|discriminate]. bools. subst i0 v.
    inversion H; subst s1 t'; clear H. rewrite (slot_at_reg s i o' SO E).
    same t. split; [lia|]. rewrite E. subst k. destruct o'; reflexivity.
  - (* RRet None *) destruct r as [[? ?]|]; [discriminate|]. inversion H; subst s1 t'; clear H. same t; auto.
  - (* RRet Some *) destruct r as [[j p]|]; [|discriminate].
    destruct ((i =? j) && obj_eqb p o) eqn:G; [|discriminate]. inversion H; subst s1 t'; clear H. same t; auto.
Qed.

(* ---- A5.v ---- *)

Definition Step (s s' : st) : Prop := exists n e, step s n e = Some s'.

Inductive reachable : st -> Prop :=
| reach_init : forall nthreads, reachable (init nthreads)
| reach_step : forall s s', reachable s -> Step s s' -> reachable s'.

Lemma inv_init : forall n, Inv (init n).
Proof.
  intros n. constructor.
  - reflexivity.
  - reflexivity.
  - simpl. split; [reflexivity|lia].
  - simpl. induction n; simpl in *; [reflexivity|]. rewrite IHn. reflexivity.
  - intros i j oi oj _ E. destruct i; discriminate.
  - simpl. induction n; simpl; constructor; auto. exact I.
Qed.

Lemma inv_shared : forall s, Inv s -> shared_ok s.
Proof. intros s [A B C D E F]. unfold shared_ok. auto. Qed.

Lemma step_decompose : forall s n e s', step s n e = Some s' ->
  exists l1 t l2 s1 t', ths s = l1 ++ t :: l2 /\ length l1 = n /\ tstep s t e = Some (s1, t') /\
    s' = mkSt (cnt s1) (slots s1) (lk s1) (l1 ++ t' :: l2) (reg s1).
Proof.
  intros s n e s' H. unfold step in H.
  destruct (nth_error (ths s) n) as [t|] eqn:Hn; [|discriminate].
  destruct (tstep s t e) as [[s1 t']|] eqn:TS; [|discriminate].
  destruct (nth_error_split_upd _ _ _ _ Hn) as (l1 & l2 & E & L & U).
  exists l1, t, l2, s1, t'. rewrite U in H. inversion H. auto.
Qed.

Lemma lock_of_crit : forall s l1 t l2, Inv s -> ths s = l1 ++ t :: l2 -> crit t = 1 ->
  lk s = true /\ sumZ (map crit l1) = 0 /\ sumZ (map crit l2) = 0.
Proof.
  intros s l1 t l2 HI E C. pose proof (inv_lock _ HI) as L. rewrite E, map_app, sumZ_app in L. simpl in L.
  pose proof (sum_crit_nonneg l1). pose proof (sum_crit_nonneg l2).
  destruct (lk s); [repeat split; lia|lia].
Qed.

Lemma step_post : forall s n e s', Inv s -> step s n e = Some s' ->
  exists l1 t l2 s1 t', ths s = l1 ++ t :: l2 /\ tstep_post s t s1 t' /\
    s' = mkSt (cnt s1) (slots s1) (lk s1) (l1 ++ t' :: l2) (reg s1).
Proof.
  intros s n e s' HI H. destruct (step_decompose _ _ _ _ H) as (l1 & t & l2 & s1 & t' & E & L & TS & ES).
  exists l1, t, l2, s1, t'. split; [exact E|]. split; [|exact ES].
  apply (tstep_inv s t e); auto.
  - apply inv_shared; auto.
  - pose proof (inv_thr _ HI) as F. rewrite E in F. rewrite Forall_app, Forall_cons_iff in F. tauto.
  - intros C. destruct (lock_of_crit s l1 t l2 HI E C); auto.
Qed.

Lemma inv_step : forall s n e s', Inv s -> step s n e = Some s' -> Inv s'.
Proof.
  intros s n e s' HI H. destruct (step_post _ _ _ _ HI H) as (l1 & t & l2 & s1 & t' & E & TP & ES).
  destruct TP as (T1 & (S1 & S2 & S3 & S4) & TI & CR & CL & (ext & RE) & SAME & ST).
  pose proof (inv_thr _ HI) as F. rewrite E in F. rewrite Forall_app, Forall_cons_iff in F. destruct F as (F1 & _ & F2).
  pose proof (inv_lock _ HI) as LK. rewrite E, map_app, sumZ_app in LK. simpl in LK.
  subst s'. constructor; simpl; auto.
  - rewrite map_app, sumZ_app. simpl. unfold lkbit in CR. lia.
  - rewrite Forall_app, Forall_cons_iff.
    destruct SAME as [(A & B & C)|C].
    + rewrite A, B, C in *. repeat split; auto.
    + destruct (lock_of_crit s l1 t l2 HI E C) as (_ & Z1 & Z2). rewrite RE.
      split; [|split]; [eapply others_mono; eauto| rewrite <- RE; exact TI |eapply others_mono; eauto].
Qed.

Lemma reachable_inv : forall s, reachable s -> Inv s.
Proof. induction 1; [apply inv_init|]. destruct H0 as (n & e & H0). eapply inv_step; eauto. Qed.

Lemma run_reachable : forall l s s', reachable s -> run s l = Some s' -> reachable s'.
Proof.
  induction l as [|[t e] l IH]; intros s s' R H; simpl in H.
  - inversion H; subst; exact R.
  - destruct (t <? 0); [discriminate|].
    destruct (step s (Z.to_nat t) e) as [s1|] eqn:E; [|discriminate].
    eapply IH; [|exact H]. eapply reach_step; [exact R|]. exists (Z.to_nat t), e. exact E.
Qed.

(* ------------------------------------------------------------------ (A) theorems *)
(* the slot a thread is about to dereference with a plain read *)
Definition deref (p : tpc) : option Z :=
  match p with
  | SKey i | KScan _ i _ | RVal i _ | AScan _ _ i | AEq _ _ i => Some i
  | _ => None
  end.

Lemma no_partial_object : forall s t i, reachable s -> In t (ths s) -> deref (pc t) = Some i ->
  0 <= i < cnt s /\
  exists o, nth_error (reg s) (Z.to_nat i) = Some o /\ nth_error (slots s) (Z.to_nat i) = Some o.
Proof.
  intros s t i R HIn D. pose proof (reachable_inv _ R) as HI. pose proof (inv_shared _ HI) as SO.
  pose proof (inv_thr _ HI) as F. rewrite Forall_forall in F. specialize (F _ HIn). unfold tinv in F.
  assert (B : 0 <= i < cnt s).
  { destruct (pc t); simpl in D; inversion D; subst; try lia; destruct F as (? & ? & ?); subst; lia. }
  split; [exact B|]. destruct (reg_has s i SO B) as [o E]. exists o. split; [exact E|].
  destruct SO as (C & P & _).
  assert (Hlt : (Z.to_nat i < length (reg s))%nat) by lia.
  rewrite <- (nth_error_firstn_lt _ (slots s) (length (reg s)) (Z.to_nat i) Hlt). rewrite P. exact E.
Qed.

Lemma published_slots_stable : forall s s', reachable s -> Step s s' ->
  cnt s <= cnt s' /\ (exists ext, reg s' = reg s ++ ext) /\
  (forall i, 0 <= i < cnt s -> nth_error (slots s') (Z.to_nat i) = nth_error (slots s) (Z.to_nat i)).
Proof.
  intros s s' R (n & e & H). pose proof (reachable_inv _ R) as HI.
  destruct (step_post _ _ _ _ HI H) as (l1 & t & l2 & s1 & t' & E & TP & ES).
  destruct TP as (T1 & _ & TI & CR & CL & RE & SAME & ST). subst s'; simpl.
  split; [exact CL|]. split; [exact RE|]. intros i B. apply ST. pose proof (inv_cnt _ HI). lia.
Qed.

Lemma registry_consistent : forall s, reachable s ->
  ci_nodup (reg s) /\ cnt s = Z.of_nat (length (reg s)) /\ firstn (length (reg s)) (slots s) = reg s.
Proof. intros s R. destruct (reachable_inv _ R). auto. Qed.

Lemma results_consistent : forall s t, reachable s -> In t (ths s) ->
  (forall o r, pc t = ARet o r -> res_ok (reg s) o r) /\
  (forall i o', pc t = RRet (Some (i, o')) -> 0 <= i /\ nth_error (reg s) (Z.to_nat i) = Some o').
Proof.
  intros s t R HIn. pose proof (inv_thr _ (reachable_inv _ R)) as F. rewrite Forall_forall in F.
  specialize (F _ HIn). unfold tinv in F. split; intros; rewrite H in F; exact F.
Qed.

Lemma mutual_exclusion : forall s l1 t l2, reachable s -> ths s = l1 ++ t :: l2 -> crit t = 1 ->
  lk s = true /\ Forall (fun u => crit u = 0) l1 /\ Forall (fun u => crit u = 0) l2.
Proof.
  intros s l1 t l2 R E C. destruct (lock_of_crit s l1 t l2 (reachable_inv _ R) E C) as (L & Z1 & Z2).
  split; [exact L|]. split; apply sum_crit_zero; assumption.
Qed.

(* ---- B1.v ---- *)

(* ------------------------------------------------------------------ (B) sequential laws *)
Lemma scan_spec : forall k n l i,
  match scan k l n i with
  | Some (j, e) => exists m, (m < n)%nat /\ j = i + Z.of_nat m /\ nth_error l m = Some e /\
                     ci_eq k (okey e) = true /\
                     (forall m' e', (m' < m)%nat -> nth_error l m' = Some e' -> ci_eq k (okey e') = false)
  | None => forall m e, (m < n)%nat -> nth_error l m = Some e -> ci_eq k (okey e) = false
  end.
Proof.
  intros k n. induction n as [|n IH]; intros l i; simpl.
  - destruct l; simpl; intros m e Hm; lia.
  - destruct l as [|o r]; simpl.
    + intros m e _ E. destruct m; discriminate.
    + destruct (ci_eq k (okey o)) eqn:C.
      * exists O. repeat split; auto; try lia; intros; lia.
      * specialize (IH r (i + 1)). destruct (scan k r n (i + 1)) as [[j e]|].
        -- destruct IH as (m & Hm & Hj & E & CE & F). exists (S m). repeat split; auto; try lia.
           intros m' e' Hm' E'. destruct m'; simpl in E'; [inversion E'; subst; exact C|]. eapply F; eauto. lia.
        -- intros m e Hm E. destruct m; simpl in E; [inversion E; subst; exact C|]. eapply IH; eauto. lia.
Qed.

Lemma find_key_spec : forall k n l i,
  Forall (fun o => key_empty (okey o) = false) (firstn n l) ->
  match find_key k l n i with
  | Some (j, e) => exists m, (m < n)%nat /\ j = i + Z.of_nat m /\ nth_error l m = Some e /\
                     ci_eq (okey e) k = true /\
                     (forall m' e', (m' < m)%nat -> nth_error l m' = Some e' -> ci_eq (okey e') k = false)
  | None => forall m e, (m < n)%nat -> nth_error l m = Some e -> ci_eq (okey e) k = false
  end.
Proof.
  intros k n. induction n as [|n IH]; intros l i NE; simpl.
  - destruct l; simpl; intros m e Hm; lia.
  - destruct l as [|o r]; simpl.
    + intros m e _ E. destruct m; discriminate.
    + simpl in NE. inversion NE as [|? ? NE1 NE2]; subst. rewrite NE1.
      destruct (ci_eq (okey o) k) eqn:C.
      * exists O. repeat split; auto; try lia; intros; lia.
      * specialize (IH r (i + 1) NE2). destruct (find_key k r n (i + 1)) as [[j e]|].
        -- destruct IH as (m & Hm & Hj & E & CE & F). exists (S m). repeat split; auto; try lia.
           intros m' e' Hm' E'. destruct m'; simpl in E'; [inversion E'; subst; exact C|]. eapply F; eauto. lia.
        -- intros m e Hm E. destruct m; simpl in E; [inversion E; subst; exact C|]. eapply IH; eauto. lia.
Qed.

Definition sinv (t : tbl) : Prop :=
  0 <= tcnt t /\ (Z.to_nat (tcnt t) <= length (tslots t))%nat /\
  (Z.of_nat (length (tslots t)) mod 15 = 0 /\ (15 <= length (tslots t))%nat) /\
  Forall (fun o => key_empty (okey o) = false) (firstn (Z.to_nat (tcnt t)) (tslots t)) /\
  ci_nodup (firstn (Z.to_nat (tcnt t)) (tslots t)).

Lemma sinv_init : sinv tinit.
Proof.
  unfold sinv, tinit; simpl. repeat split; try lia; auto.
  intros i j oi oj _ E. destruct i; discriminate.
Qed.

(* ---- B2.v ---- *)

Lemma ci_nodup_snoc : forall rg o, ci_nodup rg ->
  (forall m e, nth_error rg m = Some e -> ci_eq (okey o) (okey e) = false) -> ci_nodup (rg ++ [o]).
Proof.
  intros rg o ND F a b oa ob AB Ea Eb.
  destruct (Nat.lt_ge_cases b (length rg)) as [Lb|Lb].
  - rewrite nth_error_app1 in Ea, Eb by lia. exact (ND a b oa ob AB Ea Eb).
  - rewrite nth_error_app2 in Eb by lia. destruct (b - length rg)%nat eqn:D; simpl in Eb; [|destruct n; discriminate].
    inversion Eb; subst ob. rewrite nth_error_app1 in Ea by lia. exact (F a oa Ea).
Qed.

Lemma pre_nth : forall (t : tbl) m, (m < Z.to_nat (tcnt t))%nat ->
  nth_error (firstn (Z.to_nat (tcnt t)) (tslots t)) m = nth_error (tslots t) m.
Proof. intros. apply nth_error_firstn_lt. assumption. Qed.

Lemma append_existing : forall ci t o m e, sinv t -> (m < Z.to_nat (tcnt t))%nat ->
  nth_error (tslots t) m = Some e -> ci_eq (okey o) (okey e) = true ->
  append ci t o = (t, if obj_eq ci o e then Z.of_nat m else -1).
Proof.
  intros ci t o m e (C0 & LN & _ & NE & ND) Hm E CE. unfold append.
  pose proof (scan_spec (okey o) (Z.to_nat (tcnt t)) (tslots t) 0) as SP.
  destruct (scan (okey o) (tslots t) (Z.to_nat (tcnt t)) 0) as [[j e2]|].
  - destruct SP as (m2 & Hm2 & Hj & E2 & CE2 & F).
    assert (m2 = m).
    { destruct (Nat.lt_trichotomy m2 m) as [Lt|[Eq|Gt]]; [|exact Eq|].
      - exfalso. assert (X : ci_eq (okey e) (okey e2) = false).
        { apply (ND m2 m e2 e Lt); rewrite pre_nth by lia; assumption. }
        rewrite (ci_eq_trans (okey e) (okey o) (okey e2)) in X; [discriminate| |exact CE2].
        rewrite ci_eq_sym. exact CE.
      - exfalso. rewrite (F m e Gt E) in CE. discriminate. }
    subst m2. rewrite E in E2. inversion E2; subst e2. replace j with (Z.of_nat m) by lia. reflexivity.
  - rewrite (SP m e Hm E) in CE. discriminate.
Qed.

Lemma append_new : forall ci t o, sinv t -> key_empty (okey o) = false ->
  (forall m e, (m < Z.to_nat (tcnt t))%nat -> nth_error (tslots t) m = Some e -> ci_eq (okey o) (okey e) = false) ->
  exists t', append ci t o = (t', tcnt t) /\ tcnt t' = tcnt t + 1 /\
    nth_error (tslots t') (Z.to_nat (tcnt t)) = Some o /\
    (forall m, (m < Z.to_nat (tcnt t))%nat -> nth_error (tslots t') m = nth_error (tslots t) m) /\ sinv t'.
Proof.
  intros ci t o (C0 & LN & (M & L) & NE & ND) KO F. unfold append.
  pose proof (scan_spec (okey o) (Z.to_nat (tcnt t)) (tslots t) 0) as SP.
  destruct (scan (okey o) (tslots t) (Z.to_nat (tcnt t)) 0) as [[j e2]|].
  { destruct SP as (m2 & Hm2 & Hj & E2 & CE2 & _). rewrite (F m2 e2 Hm2 E2) in CE2. discriminate. }
  set (n := Z.to_nat (tcnt t)) in *. set (rg := firstn n (tslots t)) in *.
  assert (LR : length rg = n) by (unfold rg; rewrite firstn_length; lia).
  destruct (grow_props (tcnt t) rg (tslots t)) as (G1 & G2 & G3 & G4 & G5); auto; try lia.
  { rewrite LR. reflexivity. }
  rewrite LR in G1, G5. fold n in G4.
  eexists. split; [reflexivity|]. simpl.
  split; [reflexivity|]. split; [apply nth_error_upd_same; exact G4|].
  split; [intros m Hm; rewrite nth_error_upd_other by lia; apply G5; exact Hm|].
  unfold sinv; simpl. rewrite upd_length.
  replace (Z.to_nat (tcnt t + 1)) with (S n) by lia.
  assert (FS : firstn (S n) (upd n o (grow (tcnt t) (tslots t))) = rg ++ [o]).
  { rewrite (firstn_snoc _ _ _ o) by (apply nth_error_upd_same; exact G4).
    rewrite firstn_upd_ge by lia. now rewrite G1. }
  rewrite FS. repeat split; auto; try lia.
  - apply Forall_app. split; [exact NE|]. constructor; auto.
  - apply ci_nodup_snoc; [exact ND|]. intros m e E.
    assert (Hm : (m < n)%nat) by (rewrite <- LR; apply nth_error_Some; congruence).
    apply (F m e Hm). unfold rg in E. rewrite nth_error_firstn_lt in E by exact Hm. exact E.
Qed.

(* every registration either finds the unique slot holding its key or takes the next dense slot *)
Lemma append_spec : forall ci t o, sinv t -> key_empty (okey o) = false ->
  exists t' r, append ci t o = (t', r) /\ sinv t' /\
   ((exists m e, (m < Z.to_nat (tcnt t))%nat /\ nth_error (tslots t) m = Some e /\
                 ci_eq (okey o) (okey e) = true /\ t' = t /\
                 r = (if obj_eq ci o e then Z.of_nat m else -1)) \/
    ((forall m e, (m < Z.to_nat (tcnt t))%nat -> nth_error (tslots t) m = Some e -> ci_eq (okey o) (okey e) = false) /\
     r = tcnt t /\ tcnt t' = tcnt t + 1 /\ nth_error (tslots t') (Z.to_nat (tcnt t)) = Some o /\
     (forall m, (m < Z.to_nat (tcnt t))%nat -> nth_error (tslots t') m = nth_error (tslots t) m))).
Proof.
  intros ci t o SI KO.
  pose proof (scan_spec (okey o) (Z.to_nat (tcnt t)) (tslots t) 0) as SP.
  destruct (scan (okey o) (tslots t) (Z.to_nat (tcnt t)) 0) as [[j e2]|].
  - destruct SP as (m2 & Hm2 & Hj & E2 & CE2 & _).
    exists t, (if obj_eq ci o e2 then Z.of_nat m2 else -1). split; [eapply append_existing; eauto|].
    split; [exact SI|]. left. exists m2, e2. auto.
  - destruct (append_new ci t o SI KO SP) as (t' & A & B & C & D & E).
    exists t', (tcnt t). split; [exact A|]. split; [exact E|]. right. auto.
Qed.

Fixpoint register_all (ci : bool) (t : tbl) (os : list obj) : tbl :=
  match os with [] => t | o :: r => register_all ci (fst (append ci t o)) r end.

Lemma histories_sinv : forall ci os t, sinv t -> Forall (fun o => key_empty (okey o) = false) os ->
  sinv (register_all ci t os).
Proof.
  intros ci os. induction os as [|o r IH]; intros t SI F; simpl; [exact SI|].
  inversion F; subst. destruct (append_spec ci t o SI H1) as (t' & x & A & SI' & _). rewrite A. simpl. auto.
Qed.

Lemma lookup_agree : forall t k i o, sinv t -> key_empty k = false ->
  (get_by_key t k (tcnt t) = Some (i, o) <->
   (get_at_slot t i (tcnt t) = Some o /\ ci_eq (okey o) k = true)).
Proof.
  intros t k i o (C0 & LN & _ & NE & ND) KE. unfold get_by_key, get_at_slot. rewrite KE.
  pose proof (find_key_spec k (Z.to_nat (tcnt t)) (tslots t) 0 NE) as SP.
  assert (NEm : forall m e, (m < Z.to_nat (tcnt t))%nat -> nth_error (tslots t) m = Some e -> key_empty (okey e) = false).
  { intros m e Hm E. rewrite Forall_forall in NE. apply NE. eapply nth_error_In. rewrite pre_nth by exact Hm. exact E. }
  split.
  - intros H. rewrite H in SP. destruct SP as (m & Hm & Hj & E & CE & _).
    replace ((i <? 0) || (tcnt t <=? i)) with false
      by (symmetry; apply orb_false_iff; split; [apply Z.ltb_ge|apply Z.leb_gt]; lia).
    replace (Z.to_nat i) with m by lia. rewrite E, (NEm m o Hm E). auto.
  - intros [H CE]. destruct ((i <? 0) || (tcnt t <=? i)) eqn:B; [discriminate|].
    apply orb_false_iff in B. destruct B as [B1 B2]. apply Z.ltb_ge in B1. apply Z.leb_gt in B2.
    destruct (nth_error (tslots t) (Z.to_nat i)) as [o1|] eqn:E; [|discriminate].
    destruct (key_empty (okey o1)); [discriminate|]. inversion H; subst o1. clear H.
    destruct (find_key k (tslots t) (Z.to_nat (tcnt t)) 0) as [[j e]|].
    + destruct SP as (m & Hm & Hj & E2 & CE2 & F).
      assert (m = Z.to_nat i).
      { destruct (Nat.lt_trichotomy m (Z.to_nat i)) as [Lt|[Eq|Gt]]; [|exact Eq|].
        - exfalso. assert (X : ci_eq (okey o) (okey e) = false).
          { apply (ND m (Z.to_nat i) e o Lt); rewrite pre_nth by lia; assumption. }
          rewrite (ci_eq_trans (okey o) k (okey e)) in X; [discriminate|exact CE|]. rewrite ci_eq_sym. exact CE2.
        - exfalso. rewrite (F (Z.to_nat i) o Gt E) in CE. discriminate. }
      subst m. rewrite E in E2. inversion E2; subst e. f_equal. f_equal. lia.
    + exfalso. rewrite (SP (Z.to_nat i) o) in CE; [discriminate|lia|exact E].
Qed.

Lemma slots_dense : forall t i, sinv t ->
  (0 <= i < tcnt t -> exists o, get_at_slot t i (tcnt t) = Some o /\ nth_error (tslots t) (Z.to_nat i) = Some o) /\
  (~ (0 <= i < tcnt t) -> get_at_slot t i (tcnt t) = None).
Proof.
  intros t i (C0 & LN & _ & NE & ND). unfold get_at_slot. split.
  - intros B. replace ((i <? 0) || (tcnt t <=? i)) with false
      by (symmetry; apply orb_false_iff; split; [apply Z.ltb_ge|apply Z.leb_gt]; lia).
    destruct (nth_error (tslots t) (Z.to_nat i)) as [o|] eqn:E; [|apply nth_error_None in E; lia].
    exists o. split; [|reflexivity].
    rewrite Forall_forall in NE. rewrite (NE o); [reflexivity|]. apply (nth_error_In _ (Z.to_nat i)). rewrite pre_nth by lia. exact E.
  - intros B. destruct ((i <? 0) || (tcnt t <=? i)) eqn:G; [reflexivity|].
    apply orb_false_iff in G. destruct G as [G1 G2]. apply Z.ltb_ge in G1. apply Z.leb_gt in G2. lia.
Qed.
