(* Proofs about Model/GenTables.v: for every valid schema the element table is the pre-order
   traversal of the child tree, each row carrying tag, cardinality and the expanded attribute names. *)
From Coq Require Import List String Bool Arith Lia.
From MJV Require Import Model.GenTables.
Import ListNotations.
Local Open Scope list_scope.

(* ------------------------------------------------------------------ lookups *)
Lemma lookup_group_in s n g : lookup_group s n = Some g -> In g (s_groups s) /\ g_name g = n.
Proof. unfold lookup_group. intros H. apply find_some in H. destruct H as [H1 H2]. split; auto. now apply String.eqb_eq. Qed.
Lemma lookup_element_in s n e : lookup_element s n = Some e -> In e (s_elements s) /\ e_name e = n.
Proof. unfold lookup_element. intros H. apply find_some in H. destruct H as [H1 H2]. split; auto. now apply String.eqb_eq. Qed.

(* ------------------------------------------------------------------ use expansion *)
Lemma expand_S f s ms :
  expand (S f) s ms =
  match ms with
  | [] => Some []
  | MAttr a :: r => match expand (S f) s r with Some o => Some (a :: o) | None => None end
  | MUse g :: r =>
      match lookup_group s g with
      | None => None
      | Some grp => match expand f s (g_members grp), expand (S f) s r with
                    | Some o1, Some o2 => Some (o1 ++ o2)
                    | _, _ => None
                    end
      end
  | _ :: r => expand (S f) s r
  end.
Proof. destruct ms as [|[] r]; reflexivity. Qed.

Lemma expand_sound f : forall s ms o, expand f s ms = Some o -> gexp s ms o.
Proof.
  induction f; intros s ms; [discriminate|].
  induction ms as [|m r IHr]; intros o H; rewrite expand_S in H.
  - injection H as <-. constructor.
  - destruct m as [a|gn|cn cc|ck cb|].
    + destruct (expand (S f) s r) eqn:E; [|discriminate]. injection H as <-. constructor. auto.
    + destruct (lookup_group s gn) eqn:L; [|discriminate].
      destruct (expand f s (g_members g)) eqn:E1; [|discriminate].
      destruct (expand (S f) s r) eqn:E2; [|discriminate]. injection H as <-.
      econstructor; eauto.
    + constructor. auto.
    + constructor. auto.
    + constructor. auto.
Qed.

(* the relation is functional: the row content is determined by the schema *)
Lemma gexp_fun s ms o1 : gexp s ms o1 -> forall o2, gexp s ms o2 -> o1 = o2.
Proof.
  induction 1; intros o' H'; inversion H'; subst; auto.
  - f_equal. auto.
  - rewrite H in H4. injection H4 as <-. f_equal; auto.
Qed.

(* ------------------------------------------------------------------ constraints never fail on a valid schema *)
Definition kinds_ok (cs : list con) : Prop := forallb (fun c => is_some (kind_char (fst c))) cs = true.

Lemma kinds_ok_app a b : kinds_ok a -> kinds_ok b -> kinds_ok (a ++ b).
Proof. unfold kinds_ok. intros H H0. rewrite forallb_app. apply andb_true_iff. split; assumption. Qed.

Lemma members_ok_uses s b ms : members_ok s b ms = true ->
  forall g, In g (uses_of ms) -> lookup_group s g <> None.
Proof.
  unfold members_ok. induction ms as [|m r IH]; simpl; intros H g Hg; [contradiction|].
  apply andb_true_iff in H. destruct H as [H1 H2]. destruct m as [a|gn|cn cc|ck cb|]; simpl in Hg; auto.
  destruct Hg as [<-|Hg]; auto. destruct (lookup_group s gn); [discriminate|discriminate].
Qed.

Lemma members_ok_cons s b ms : members_ok s b ms = true -> kinds_ok (own_cons ms).
Proof.
  unfold members_ok, kinds_ok. induction ms as [|m r IH]; simpl; intros H; auto.
  apply andb_true_iff in H. destruct H as [H1 H2]. destruct m as [a|gn|cn cc|ck cb|]; simpl; auto. now rewrite H1, IH.
Qed.

Fixpoint unv (gs : list group) (visited : list string) : nat :=
  match gs with
  | [] => 0
  | g :: r => (if mem_str (g_name g) visited then 0 else List.length (uses_of (g_members g))) + unv r visited
  end.

Lemma unv_nil gs : unv gs [] = fold_right (fun g n => List.length (uses_of (g_members g)) + n) 0 gs.
Proof. induction gs; simpl; auto. Qed.

Lemma unv_notin gs name visited : mem_str name (map g_name gs) = false -> unv gs (name :: visited) = unv gs visited.
Proof.
  induction gs as [|g r IH]; simpl; auto. intros H. apply orb_false_iff in H. destruct H as [H1 H2].
  rewrite String.eqb_sym in H1. rewrite H1. simpl. now rewrite IH.
Qed.

Lemma unv_visit gs name visited grp : nodup_str (map g_name gs) = true ->
  find (fun g => String.eqb (g_name g) name) gs = Some grp -> mem_str name visited = false ->
  unv gs (name :: visited) + List.length (uses_of (g_members grp)) = unv gs visited.
Proof.
  induction gs as [|g r IH]; simpl; intros Hnd Hf Hv; [discriminate|].
  apply andb_true_iff in Hnd. destruct Hnd as [N1 N2]. apply negb_true_iff in N1.
  destruct (String.eqb (g_name g) name) eqn:E.
  - injection Hf as <-. apply String.eqb_eq in E. subst name. simpl. rewrite Hv.
    rewrite unv_notin; auto. lia.
  - simpl. rewrite <- (IH N2 Hf Hv). destruct (mem_str (g_name g) visited); lia.
Qed.

Section Valid.
Variable s : schema.
Hypothesis Hnd : nodup_str (map g_name (s_groups s)) = true.
Hypothesis Hg : forall g, In g (s_groups s) -> members_ok s false (g_members g) = true.

Lemma cons_dfs_some : forall fuel stack visited acc,
  (forall n, In n stack -> lookup_group s n <> None) -> kinds_ok acc ->
  List.length stack + unv (s_groups s) visited < fuel ->
  exists cs, cons_dfs fuel s stack visited acc = Some cs /\ kinds_ok cs.
Proof.
  induction fuel; intros stack visited acc Hs Ha Hf; [lia|].
  destruct stack as [|name rest]; simpl.
  - eauto.
  - destruct (mem_str name visited) eqn:V.
    + apply IHfuel; auto. { intros n Hn. apply Hs. now right. } simpl in Hf. lia.
    + destruct (lookup_group s name) as [grp|] eqn:L.
      * destruct (lookup_group_in _ _ _ L) as [Gin Gname].
        apply IHfuel.
        -- intros n Hn. apply in_app_or in Hn. destruct Hn as [Hn|Hn].
           ++ apply in_rev in Hn. eapply members_ok_uses; eauto.
           ++ apply Hs. now right.
        -- apply kinds_ok_app; auto. eapply members_ok_cons; eauto.
        -- rewrite app_length, rev_length. simpl in Hf.
           pose proof (unv_visit _ _ _ _ Hnd L V). lia.
      * exfalso. apply (Hs name); auto. now left.
Qed.

Lemma element_constraints_some e : members_ok s true (e_members e) = true ->
  exists cs, element_constraints s e = Some cs /\ kinds_ok cs.
Proof.
  intros He. unfold element_constraints. apply cons_dfs_some.
  - intros n Hn. apply in_rev in Hn. eapply members_ok_uses; eauto.
  - eapply members_ok_cons; eauto.
  - rewrite unv_nil. unfold total_uses. lia.
Qed.
End Valid.

Lemma row_cons_some names cs : kinds_ok cs -> exists rc, row_cons names cs = Some rc.
Proof.
  unfold kinds_ok. induction cs as [|[k b] r IH]; simpl; intros H; eauto.
  apply andb_true_iff in H. destruct H as [H1 H2]. destruct (IH H2) as [rc ->].
  destruct (forallb _ b); eauto. destruct (kind_char k); [eauto|discriminate].
Qed.

(* ------------------------------------------------------------------ children *)
Lemma kept_children_some s e proj ms : members_ok s true ms = true -> exists ch, kept_children s e proj ms = Some ch.
Proof.
  unfold members_ok. induction ms as [|m r IH]; simpl; intros H; eauto.
  apply andb_true_iff in H. destruct H as [H1 H2]. destruct (IH H2) as [ch Hch].
  destruct m as [a|gn|cn cc|ck cb|]; eauto. rewrite Hch. simpl in H1.
  destruct (String.eqb cn (e_name e)); eauto.
  destruct (lookup_element s cn) as [d|]; [|discriminate].
  destruct (e_alias d); eauto. destruct (proj && String.eqb cn "plugin"); eauto.
Qed.

(* the children kept under projection are among those kept without it *)
Lemma kept_children_incl s e ms : forall ch', kept_children s e true ms = Some ch' ->
  exists ch, kept_children s e false ms = Some ch /\ incl ch' ch.
Proof.
  induction ms as [|m r IH]; simpl; intros ch' H.
  - injection H as <-. eexists; split; eauto. apply incl_refl.
  - destruct m as [a|gn|cn cc|ck cb|]; auto.
    destruct (kept_children s e true r) as [c1|] eqn:E1; [|discriminate].
    destruct (IH _ eq_refl) as (c0 & -> & Hi).
    destruct (String.eqb cn (e_name e)).
    + injection H as <-. eauto.
    + destruct (lookup_element s cn) as [d|]; [|discriminate]. destruct (e_alias d).
      * injection H as <-. eauto.
      * simpl in *. destruct (String.eqb cn "plugin"); injection H as <-; eexists; split; eauto.
        -- now apply incl_tl.
        -- apply incl_cons; [now left | now apply incl_tl].
Qed.

Lemma reach_children s f e proj ch : reach_ok (S f) s e = true -> kept_children s e proj (e_members e) = Some ch ->
  forall cn cc, In (cn, cc) ch -> exists d, lookup_element s cn = Some d /\ reach_ok f s d = true.
Proof.
  intros HR Hch cn cc Hin. simpl in HR.
  assert (exists ch0, kept_children s e false (e_members e) = Some ch0 /\ incl ch ch0) as (ch0 & E0 & Hi).
  { destruct proj; [now apply kept_children_incl | exists ch; split; auto using incl_refl]. }
  rewrite E0 in HR. rewrite forallb_forall in HR. specialize (HR _ (Hi _ Hin)). simpl in HR.
  destruct (lookup_element s cn); [eauto|discriminate].
Qed.

(* ------------------------------------------------------------------ the main induction *)
Record wfs (s : schema) : Prop := mk_wfs {
  w_nd : nodup_str (map g_name (s_groups s)) = true;
  w_g : forall g, In g (s_groups s) -> members_ok s false (g_members g) = true;
  w_e : forall e, In e (s_elements s) -> members_ok s true (e_members e) = true;
  w_x : forall e, In e (s_elements s) -> exists at_, expanded_attrs s e = Some at_;
  w_r : forall e, In e (s_elements s) -> reach_ok (S (nelements s)) s e = true }.

Lemma valid_wfs s : valid s = true -> wfs s.
Proof.
  unfold valid. intros H. repeat (apply andb_true_iff in H; destruct H as [H ?]).
  rewrite forallb_forall in *. constructor; auto.
  - intros g Hg. specialize (H3 g Hg). apply andb_true_iff in H3. tauto.
  - intros e He. specialize (H2 e He). apply andb_true_iff in H2. destruct H2 as [H2 _].
    apply andb_true_iff in H2. tauto.
  - intros e He. specialize (H2 e He). apply andb_true_iff in H2. destruct H2 as [_ H2].
    destruct (expanded_attrs s e); [eauto|discriminate].
Qed.

Lemma row_of_some s e card indent proj : wfs s -> In e (s_elements s) ->
  exists attrs rc, gexp s (e_members e) attrs
    /\ (exists cs, element_constraints s e = Some cs /\ row_cons (map a_name (projected proj attrs)) cs = Some rc)
    /\ row_of s e card indent proj = Some (row_entry indent e card proj attrs rc).
Proof.
  intros W He. destruct (w_x _ W e He) as [attrs Ha].
  destruct (element_constraints_some s (w_nd _ W) (w_g _ W) e (w_e _ W e He)) as (cs & Hcs & Hk).
  destruct (row_cons_some (map a_name (projected proj attrs)) cs Hk) as [rc Hrc].
  exists attrs, rc. split; [|split].
  - eapply expand_sound; eauto.
  - eauto.
  - unfold row_of, row_entry. now rewrite Ha, Hcs, Hrc.
Qed.

Definition kids_match (s : schema) (e : element) (proj : bool) : list tree -> list (string * string) -> Prop :=
  fix km (kids : list tree) (ch : list (string * string)) {struct kids} : Prop :=
    match kids, ch with
    | [], [] => True
    | k :: ks, (cn, cc) :: r =>
        (exists d, lookup_element s cn = Some d /\ root_is k d cc (child_project e proj cn))
        /\ is_ctree s k /\ km ks r
    | _, _ => False
    end.

Lemma is_ctree_node s e card proj attrs rc kids :
  is_ctree s (Node e card proj attrs rc kids) <->
  (gexp s (e_members e) attrs
   /\ (exists cs, element_constraints s e = Some cs /\ row_cons (map a_name (projected proj attrs)) cs = Some rc)
   /\ exists ch, kept_children s e proj (e_members e) = Some ch /\ kids_match s e proj kids ch).
Proof. reflexivity. Qed.

Lemma visit_tree s : wfs s -> forall fuel e card indent proj, In e (s_elements s) -> reach_ok fuel s e = true ->
  exists t, root_is t e card proj /\ is_ctree s t /\ visit fuel s e card indent proj = Some (preorder indent t).
Proof.
  intros W. induction fuel as [|f IH]; intros e card indent proj He HR; [discriminate|].
  destruct (row_of_some s e card indent proj W He) as (attrs & rc & Hg & Hc & Hrow).
  destruct (kept_children_some s e proj _ (w_e _ W e He)) as [ch Hch].
  (* the loop over the children *)
  assert (L : forall ch', incl ch' ch ->
            exists kids, kids_match s e proj kids ch'
              /\ (kids = [] <-> ch' = [])
              /\ visit_kids (fun d cc cp => visit f s d cc (indent + 4) cp) s e indent proj ch'
                 = Some (flat_map (fun k => preorder (indent + 4) k ++ blank_after indent) kids)).
  { induction ch' as [|[cn cc] r IHr]; intros Hi.
    - exists []. simpl. repeat split; auto.
    - destruct (reach_children s f e proj ch HR Hch cn cc (Hi _ (or_introl eq_refl))) as (d & Ld & Rd).
      destruct (lookup_element_in _ _ _ Ld) as [Din _].
      destruct (IH d cc (indent + 4) (child_project e proj cn) Din Rd) as (k & Kr & Kt & Kv).
      destruct IHr as (ks & Km & _ & Kl). { intros x Hx. apply Hi. now right. }
      exists (k :: ks). split; [|split].
      + simpl. split; [eauto|]. split; auto.
      + split; discriminate.
      + simpl. rewrite Ld, Kv, Kl. now rewrite <- app_assoc. }
  destruct (L ch (incl_refl _)) as (kids & Km & Knil & Kl).
  exists (Node e card proj attrs rc kids). split; [|split].
  - simpl. auto.
  - apply is_ctree_node. split; auto. split; auto. eauto.
  - cbn [visit]. rewrite Hrow, Hch. destruct ch as [|c0 ch0].
    + destruct kids; [reflexivity|]. destruct Knil as [_ K]. specialize (K eq_refl). discriminate.
    + rewrite Kl. destruct kids as [|k0 ks0].
      * destruct Knil as [K _]. specialize (K eq_refl). discriminate.
      * reflexivity.
Qed.

Theorem table_faithful s root : valid s = true -> lookup_element s "mujoco" = Some root ->
  exists t, root_is t root "!"%string false /\ is_ctree s t /\ table_entries s = Some (preorder 0 t).
Proof.
  intros V L. pose proof (valid_wfs s V) as W. destruct (lookup_element_in _ _ _ L) as [Rin _].
  unfold table_entries. rewrite L. apply visit_tree; auto. apply (w_r _ W); auto.
Qed.

(* ------------------------------------------------------------------ what the rows say *)
(* every row of the pre-order listing is the row of a node of the tree *)
Fixpoint nodes (t : tree) : list tree :=
  match t with Node _ _ _ _ _ kids => t :: flat_map nodes kids end.

Definition is_row (en : entry) : bool := match en with ERow _ _ _ => true | _ => false end.

Lemma rows_of_preorder t : forall indent,
  map (fun en => match en with ERow _ p _ => p | _ => [] end) (filter is_row (preorder indent t))
  = map (fun n => match n with Node e card proj attrs _ _ =>
                    quote (e_xml e) :: quote card :: map quote (map a_name (projected proj attrs)) end) (nodes t).
Proof.
  induction t as [e card proj attrs rc kids IH] using
    (fix tree_ind' (P : tree -> Prop)
         (H : forall e card proj attrs rc kids, Forall P kids -> P (Node e card proj attrs rc kids)) (t : tree) : P t :=
       match t with
       | Node e card proj attrs rc kids =>
           H e card proj attrs rc kids
             ((fix go (l : list tree) : Forall P l :=
                 match l with [] => Forall_nil _ | k :: r => Forall_cons _ (tree_ind' P H k) (go r) end) kids)
       end).
  intros indent. cbn [nodes preorder].
  assert (G : forall ks, Forall (fun t => forall indent, map (fun en => match en with ERow _ p _ => p | _ => [] end) (filter is_row (preorder indent t))
              = map (fun n => match n with Node e card proj attrs _ _ =>
                    quote (e_xml e) :: quote card :: map quote (map a_name (projected proj attrs)) end) (nodes t)) ks ->
            map (fun en => match en with ERow _ p _ => p | _ => [] end)
                (filter is_row (flat_map (fun k => preorder (indent + 4) k ++ blank_after indent) ks))
            = map (fun n => match n with Node e card proj attrs _ _ =>
                    quote (e_xml e) :: quote card :: map quote (map a_name (projected proj attrs)) end) (flat_map nodes ks)).
  { induction 1 as [|k r Hk Hr IHr]; [reflexivity|]. simpl.
    rewrite !filter_app, !map_app, Hk, IHr.
    assert (B : filter is_row (blank_after indent) = []) by (unfold blank_after; destruct (Nat.eqb indent 0); reflexivity).
    rewrite B. simpl. now rewrite app_nil_r. }
  destruct kids as [|k0 ks0].
  - reflexivity.
  - cbn [filter is_row map row_entry]. f_equal.
    rewrite filter_app, map_app. cbn [filter is_row map]. rewrite app_nil_r. now apply G.
Qed.

(* ------------------------------------------------------------------ the keyword map *)
Lemma map_rows_items s :
  flat_map (fun r => match r with MapItem _ k v => [(k, v)] | _ => [] end) (map_rows s)
  = flat_map en_items (s_enums s).
Proof.
  assert (A : forall w (l : list (string * string)),
             flat_map (fun r => match r with MapItem _ k v => [(k, v)] | _ => [] end)
                      (map (fun kv : string * string => MapItem w (fst kv) (snd kv)) l) = l).
  { induction l as [|[k v] l IHl]; simpl; auto. now rewrite IHl. }
  unfold map_rows. induction (s_enums s) as [|e r IH]; simpl; auto.
  rewrite flat_map_app, IH. f_equal. unfold enum_rows. simpl.
  rewrite flat_map_app, A. simpl. now rewrite app_nil_r.
Qed.

Lemma map_rows_heads s :
  flat_map (fun r => match r with MapHead n => [n] | _ => [] end) (map_rows s) = map en_name (s_enums s)
  /\ flat_map (fun r => match r with MapSize n k => [(n, k)] | _ => [] end) (map_rows s)
     = map (fun e => (en_name e, List.length (en_items e))) (s_enums s).
Proof.
  unfold map_rows. induction (s_enums s) as [|e r [IH1 IH2]]; simpl; auto.
  assert (A : forall w l, flat_map (fun r0 => match r0 with MapHead n => [n] | _ => [] end)
                (map (fun kv : string * string => MapItem w (fst kv) (snd kv)) l) = []).
  { induction l; simpl; auto. }
  assert (B : forall w l, flat_map (fun r0 => match r0 with MapSize n k => [(n, k)] | _ => [] end)
                (map (fun kv : string * string => MapItem w (fst kv) (snd kv)) l) = []).
  { induction l; simpl; auto. }
  rewrite !flat_map_app, IH1, IH2. unfold enum_rows. split.
  - simpl. rewrite ?flat_map_app, A. reflexivity.
  - simpl. rewrite ?flat_map_app, B. reflexivity.
Qed.
