(* Lemmas about Model/Cable.v at the reals (C51). *)
From Coq Require Import ZArith List Bool PrimFloat Reals Lra Lia.
From MJV Require Import Lib.Num Lib.NumR Model.Spatial Model.Cable Proof.SpatialProof.
Import ListNotations.
Open Scope R_scope.

Lemma rotVecQuat_zero (q : quat R) : rotVecQuat (0, 0, 0) q = (0, 0, 0).
Proof.
  unfold rotVecQuat. replace (isZero3 ((0, 0, 0) : vec3 R)) with true; [reflexivity|].
  symmetry. apply isZero3_true. reflexivity.
Qed.

(* curvature equal to the reference: zero stress for every stiffness, with and without pull-back *)
Lemma localStress_rest (k : R * R * R * R) (q : quat R) (w0 : vec3 R) (pullback : bool) :
  curvature q = w0 -> localStress k q w0 pullback = (0, 0, 0).
Proof.
  intros E. unfold localStress. destruct k as [[[k0 k1] k2] len]. rewrite E.
  destruct w0 as [[r0 r1] r2]. num_R.
  replace (- k0 * (r0 - r0) / len) with 0 by (unfold Rdiv; ring).
  replace (- k1 * (r1 - r1) / len) with 0 by (unfold Rdiv; ring).
  replace (- k2 * (r2 - r2) / len) with 0 by (unfold Rdiv; ring).
  destruct pullback; [apply rotVecQuat_zero|reflexivity].
Qed.

Definition at_reference (b : @CBody R) : Prop := curvature (quatDiff (c_bq b) (c_jq b) false) = c_w0 b.

Lemma body_stress_rest (b : @CBody R) (pullback : bool) : at_reference b -> body_stress b pullback = (0, 0, 0).
Proof. intros E. unfold body_stress. apply localStress_rest. exact E. Qed.

Lemma applyTorque_zero (jac : list (vec3 R)) (qfrc : list R) : applyTorque jac (0, 0, 0) qfrc = qfrc.
Proof.
  revert qfrc; induction jac as [|j jr IH]; intros [|q qr]; simpl; auto.
  rewrite IH. f_equal. destruct j as [[a b] c]. unfold dot3. num_R. ring.
Qed.

Lemma body_lfrc_rest (b : @CBody R) (has_prev : bool) (nxt : option (@CBody R)) :
  (has_prev = true -> at_reference b) -> (forall bn : @CBody R, nxt = Some bn -> at_reference bn) ->
  body_lfrc b has_prev nxt = (0, 0, 0).
Proof.
  intros Hb Hn. unfold body_lfrc.
  assert (E0 : (if has_prev then addToScl3 zero3 (body_stress b true) none else zero3) = ((0, 0, 0) : vec3 R)).
  { destruct has_prev; [|reflexivity]. rewrite body_stress_rest by auto. unfold addToScl3, zero3. num_R.
    f_equal; [f_equal|]; ring. }
  rewrite E0. destruct nxt as [bn|]; [|reflexivity].
  rewrite body_stress_rest by (apply Hn; reflexivity). unfold addToScl3. num_R. f_equal; [f_equal|]; ring.
Qed.

Lemma cable_body_rest (b : @CBody R) (has_prev : bool) (nxt : option (@CBody R)) (qfrc : list R) :
  (has_prev = true -> at_reference b) -> (forall bn : @CBody R, nxt = Some bn -> at_reference bn) ->
  cable_body b has_prev nxt qfrc = qfrc.
Proof.
  intros Hb Hn. unfold cable_body. destruct (no_stiffness (c_k b)); [reflexivity|].
  rewrite body_lfrc_rest by auto. rewrite rotVecQuat_zero. apply applyTorque_zero.
Qed.

Lemma cable_loop_rest (bs : list (@CBody R)) :
  forall (has_prev : bool) (qfrc : list R),
    (forall b : @CBody R, In b (if has_prev then bs else tl bs) -> at_reference b) ->
    cable_loop bs has_prev qfrc = qfrc.
Proof.
  induction bs as [|b r IH]; intros has_prev qfrc Hall; [reflexivity|].
  cbn [cable_loop]. rewrite cable_body_rest.
  - apply IH. intros x Hx. apply Hall. destruct has_prev; [right; exact Hx|exact Hx].
  - intros E. subst has_prev. apply Hall. left; reflexivity.
  - intros bn Hbn. apply Hall. destruct r as [|b2 r2]; [discriminate|]. cbn in Hbn. inversion Hbn; subst.
    destruct has_prev; [right; left; reflexivity|left; reflexivity].
Qed.

(* every body with a predecessor at its reference curvature: Compute adds nothing to qfrc_passive *)
Lemma cable_compute_rest (bs : list (@CBody R)) (qfrc : list R) :
  (forall b : @CBody R, In b (tl bs) -> at_reference b) -> cable_compute bs qfrc = qfrc.
Proof. intros Hall. unfold cable_compute. apply cable_loop_rest. exact Hall. Qed.

(* constructor and Compute agree at qpos0: the quaternion of a ball joint in qpos0 is the identity, and
   then the reference curvature computed by the constructor is the curvature Compute measures there *)
Lemma omega0_is_rest_curvature (bq : quat R) :
  cable_omega0 false true bq quatId = curvature (quatDiff bq quatId false).
Proof.
  unfold cable_omega0, quatDiff, curvature, subQuat. cbn [andb negb].
  destruct bq as [[[b0 b1] b2] b3].
  assert (E1 : mulQuat (negQuat (quatId (T:=R))) (b0, b1, b2, b3) = (b0, b1, b2, b3)).
  { unfold mulQuat, negQuat, quatId. num_R. apply quat_ext; ring. }
  assert (E2 : mulQuat (b0, b1, b2, b3) (quatId (T:=R)) = (b0, b1, b2, b3)).
  { unfold mulQuat, quatId. num_R. apply quat_ext; ring. }
  rewrite E1, E2. reflexivity.
Qed.

(* hence a non-flat cable whose reference curvatures come from the constructor exerts no force at qpos0 *)
Lemma cable_rest_at_qpos0 (b0 : @CBody R) (rest : list (@CBody R)) (qfrc : list R) :
  (forall b : @CBody R, In b rest -> c_jq b = quatId /\ c_w0 b = cable_omega0 false true (c_bq b) quatId) ->
  cable_compute (b0 :: rest) qfrc = qfrc.
Proof.
  intros Hall. apply cable_compute_rest. intros b Hb. cbn [tl] in Hb. destruct (Hall b Hb) as [E1 E2].
  unfold at_reference. rewrite E1, E2. symmetry. apply omega0_is_rest_curvature.
Qed.

(* converse direction (non-vacuity): without pull-back a curvature component that differs from the
   reference along a stiff direction gives a non-zero stress *)
Lemma localStress_nonrest (k0 k1 k2 len : R) (q : quat R) (w0 : vec3 R) :
  k0 <> 0 -> len <> 0 -> fst (fst (curvature q)) <> fst (fst w0) ->
  localStress (k0, k1, k2, len) q w0 false <> (0, 0, 0).
Proof.
  intros Hk Hl Hw. unfold localStress. destruct (curvature q) as [[w_0 w_1] w_2]. destruct w0 as [[r0 r1] r2].
  cbn [fst] in Hw. num_R. intro E. inversion E as [[E1 E2 E3]]. clear E2 E3.
  assert (E4 : - k0 * (w_0 - r0) = 0).
  { replace (- k0 * (w_0 - r0)) with ((- k0 * (w_0 - r0) / len) * len) by (field; exact Hl). rewrite E1. ring. }
  apply Hw. apply Rmult_integral in E4. destruct E4 as [E4|E4]; lra.
Qed.
