(* C01: noninterference of the regenerated pipeline programs w.r.t. the integration state, given
   the stage frames of Gen/StageSets.v (generated from harness/c01_table.json) *)
From Coq Require Import String List Bool.
From MJV Require Import Model.Pipeline Proof.PipelineProof Model.Frames Proof.FramesProof
                        Gen.Pipeline Gen.StageSets Proof.C04Proof.
Import ListNotations.
Open Scope string_scope.
Open Scope list_scope.

Definition D0 : list string := state_fields ++ const_fields.
Definition prog_forward : prog := PCall "mj_forward" [].
Definition prog_step : prog := PCall "mj_step" [].

Definition flow_of (p : prog) (v : string) : option (list string) :=
  match flatten p with
  | Some l => flow_list stage_table atom_reads_table (lsimp asm_nocb (Some v) l) D0
  | None => None
  end.

Definition all_integrators : list string := ["mjINT_EULER"; "mjINT_RK4"; "mjINT_IMPLICIT"; "mjINT_IMPLICITFAST"].

Definition covered (p : prog) (outs : list string) (v : string) : bool :=
  match flow_of p v with Some D' => subset outs D' | None => false end.

Section C01.
Variable V : Type.
Notation data := (string -> V).
Variable call : string -> list string -> data -> data.
Variable assign : string -> string -> data -> data.
Variable user : data -> data.
Variable atom : string -> data -> bool.
Variable integ : data -> string.

Hypothesis Hframe : forall (f : string) (a : list string) (fr : frame),
  lookup (call_key f a) stage_table = Some fr ->
  forall (d : data) (x : string), ~ In x (f_must fr ++ f_may fr) -> call f a d x = d x.
Hypothesis Hreads : forall (f : string) (a : list string) (fr : frame),
  lookup (call_key f a) stage_table = Some fr ->
  forall d1 d2 : data, agree V (f_reads fr) d1 d2 -> agree V (f_must fr) (call f a d1) (call f a d2).
Hypothesis Hassign_frame : forall (l r fld : string) (full : bool),
  field_of_assign l = Some (fld, full) -> forall (d : data) (x : string), x <> fld -> assign l r d x = d x.
Hypothesis Hassign_full : forall (l r fld : string),
  field_of_assign l = Some (fld, true) -> forall d1 d2 : data, assign l r d1 fld = assign l r d2 fld.
Hypothesis Hatom : forall (s : string) (rs : list string),
  lookup s atom_reads_table = Some rs -> forall d1 d2 : data, agree V rs d1 d2 -> atom s d1 = atom s d2.
Hypothesis Hcb : forall d : data, atom "mjcb_control" d = false.
Hypothesis Hflex : forall d : data, atom "flex_has_passive_contact(m)" d = false.

Lemma noninterference_gen (ol : option (list item)) (v : string) (D' : list string) :
  (forall d : data, integ d = v) ->
  match ol with
  | Some l => flow_list stage_table atom_reads_table (lsimp asm_nocb (Some v) l) D0
  | None => None
  end = Some D' ->
  forall d1 d2 : data, agree V D0 d1 d2 ->
    related V D'
      (match ol with Some l => exec_list data call assign user atom integ l d1 | None => None end)
      (match ol with Some l => exec_list data call assign user atom integ l d2 | None => None end).
Proof.
  intros Hint F d1 d2 A. destruct ol as [l|]; [|discriminate].
  assert (Hasm : forall (s : string) (b : bool), lookup s asm_nocb = Some b -> forall d : data, atom s d = b).
  { intros s b Hl d0. unfold asm_nocb in Hl. simpl in Hl.
    destruct (String.eqb s "mjcb_control") eqn:E1.
    - apply String.eqb_eq in E1. subst. inversion Hl; subst. apply Hcb.
    - destruct (String.eqb s "flex_has_passive_contact(m)") eqn:E2; [|discriminate].
      apply String.eqb_eq in E2. subst. inversion Hl; subst. apply Hflex. }
  assert (Hiv : forall v' : string, Some v = Some v' -> forall d : data, integ d = v').
  { intros v' E d0. inversion E; subst. apply Hint. }
  rewrite <- (lsimp_ok data call assign user atom integ asm_nocb (Some v) Hasm Hiv l d1).
  rewrite <- (lsimp_ok data call assign user atom integ asm_nocb (Some v) Hasm Hiv l d2).
  eapply (flow_sound V call assign user atom integ stage_table atom_reads_table); try eassumption.
  intros e1 e2. rewrite (Hint e1), (Hint e2). reflexivity.
Qed.

Lemma noninterference (p : prog) (v : string) (D' : list string) :
  (forall d : data, integ d = v) ->
  flow_of p v = Some D' ->
  forall d1 d2 : data, agree V D0 d1 d2 ->
    related V D' (run data call assign user atom integ p d1) (run data call assign user atom integ p d2).
Proof. exact (noninterference_gen (flatten p) v D'). Qed.
End C01.

(* decided by computation on the regenerated programs and the frame table: the analysis succeeds
   for every integrator and the listed outputs are covered *)
Lemma forward_covered : forallb (covered prog_forward output_fields_forward) all_integrators = true.
Proof. vm_compute. reflexivity. Qed.
Lemma step_covered : forallb (covered prog_step output_fields_step) all_integrators = true.
Proof. vm_compute. reflexivity. Qed.
