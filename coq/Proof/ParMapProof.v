(* Proofs about Model/ParMap.v: schedule independence of a batch of tasks with disjoint footprints. *)
From Coq Require Import List ZArith Bool Arith Lia Permutation.
From MJV Require Import Model.Island Model.ParMap.
Import ListNotations.

(* ------------------------------------------------------------------ basic facts *)
Lemma loc_eqb_eq (a b : loc) : loc_eqb a b = true <-> a = b.
Proof.
  unfold loc_eqb. destruct a as [a1 a2], b as [b1 b2]; simpl.
  rewrite andb_true_iff, !Z.eqb_eq. split; [intros [-> ->]; reflexivity | intro E; inversion E; auto].
Qed.

Lemma upd_same {V : Type} (m : mem V) (l : loc) (v : V) : upd m l v l = v.
Proof. unfold upd. destruct (loc_eqb l l) eqn:E; auto. assert (l = l) by reflexivity. apply loc_eqb_eq in H. congruence. Qed.

Lemma upd_other {V : Type} (m : mem V) (l x : loc) (v : V) : x <> l -> upd m l v x = m x.
Proof. intro N. unfold upd. destruct (loc_eqb x l) eqn:E; auto. apply loc_eqb_eq in E. contradiction. Qed.

Lemma may_write_read (own : loc -> owner) (i t : nat) (l : loc) : may_write own i t l = true -> may_read own i t l = true.
Proof. unfold may_write, may_read. destruct (own l); auto; discriminate. Qed.

Lemma own_task_may_read (own : loc -> owner) (i t : nat) (l : loc) : own l = OTask i -> may_read own i t l = true.
Proof. unfold may_read. intros ->. apply Nat.eqb_refl. Qed.

(* what another task/thread may write, this one may not read *)
Lemma write_not_read (own : loc -> owner) (i t i' t' : nat) (l : loc) :
  i <> i' -> t <> t' -> may_write own i t l = true -> may_read own i' t' l = false.
Proof.
  unfold may_write, may_read. intros Ni Nt. destruct (own l) as [|j|u]; try discriminate.
  - intro H. apply Nat.eqb_eq in H. subst j. apply Nat.eqb_neq. auto.
  - intro H. apply Nat.eqb_eq in H. subst u. apply Nat.eqb_neq. auto.
Qed.

(* ------------------------------------------------------------------ list helpers *)
Lemma nd_app_l {A : Type} (l1 l2 : list A) : NoDup (l1 ++ l2) -> NoDup l1.
Proof. induction l1 as [|x r IH]; simpl; intro H; [constructor|]. inversion H; subst. constructor; [intro; apply H2; apply in_or_app; auto | auto]. Qed.
Lemma nd_app_r {A : Type} (l1 l2 : list A) : NoDup (l1 ++ l2) -> NoDup l2.
Proof. induction l1 as [|x r IH]; simpl; intro H; [assumption|]. inversion H; subst. auto. Qed.
Lemma nd_app_disj {A : Type} (l1 l2 : list A) (x : A) : NoDup (l1 ++ l2) -> In x l1 -> In x l2 -> False.
Proof.
  induction l1 as [|y r IH]; simpl; intros H H1 H2; [contradiction|]. inversion H; subst.
  destruct H1 as [->|H1]; [apply H4; apply in_or_app; auto | eauto].
Qed.

(* ------------------------------------------------------------------ frame and determinacy *)
Lemma exec_frame {V : Type} (own : loc -> owner) (i t : nat) (p : prog V) :
  respects own i t p -> forall (m : mem V) (l : loc), may_write own i t l = false -> exec p m l = m l.
Proof.
  induction 1 as [|l k Hr Hk IH|l v k Hw Hk IH]; intros m x Hx; simpl; auto.
  rewrite IH by assumption. apply upd_other. intro E. subst x. congruence.
Qed.

Lemma exec_agree {V : Type} (own : loc -> owner) (i t : nat) (p : prog V) :
  respects own i t p -> forall m m' : mem V,
    (forall l : loc, may_read own i t l = true -> m l = m' l) ->
    forall l : loc, may_read own i t l = true -> exec p m l = exec p m' l.
Proof.
  induction 1 as [|l k Hr Hk IH|l v k Hw Hk IH]; intros m m' A x Hx; simpl; auto.
  - rewrite (A l Hr). apply IH; auto.
  - apply IH; auto. intros y Hy. unfold upd. destruct (loc_eqb y l); auto.
Qed.

(* ------------------------------------------------------------------ the invariant *)
Section Inv.
Context {V : Type}.
Variable own : loc -> owner.
Variable n : nat.
Variable tasks : nat -> nat -> prog V.
Variable m0 : mem V.
Hypothesis Hresp : forall i t : nat, (i < n)%nat -> respects own i t (tasks i t).
Hypothesis Hclean : scratch_clean own n tasks.

Definition target (i : nat) (l : loc) : V := exec (tasks i 0%nat) m0 l.

Record Inv (c : cfg V) : Prop := {
  I_part : Permutation (pending c ++ map r_task (running c) ++ finished c) (seq 0 n);
  I_tids : NoDup (map r_tid (running c));
  I_read : forall l : loc, own l = ORead -> cmem c l = m0 l;
  I_pend : forall (l : loc) (i : nat), own l = OTask i -> In i (pending c) \/ (n <= i)%nat -> cmem c l = m0 l;
  I_run : forall x : run1 V, In x (running c) ->
            respects own (r_task x) (r_tid x) (r_prog x) /\
            forall l : loc, own l = OTask (r_task x) -> exec (r_prog x) (cmem c) l = target (r_task x) l;
  I_fin : forall (i : nat) (l : loc), In i (finished c) -> own l = OTask i -> cmem c l = target i l }.

Lemma inv_init : Inv (init_cfg n m0).
Proof.
  constructor; simpl.
  - rewrite app_nil_r. apply Permutation_refl.
  - constructor.
  - auto.
  - auto.
  - intros x [].
  - intros i l [].
Qed.

Lemma nodup_ids (c : cfg V) : Inv c -> NoDup (pending c ++ map r_task (running c) ++ finished c).
Proof. intro I. eapply Permutation_NoDup; [apply Permutation_sym, (I_part c I) | apply seq_NoDup]. Qed.

Lemma ids_lt (c : cfg V) (i : nat) : Inv c -> In i (pending c ++ map r_task (running c) ++ finished c) -> (i < n)%nat.
Proof. intros I H. apply (Permutation_in _ (I_part c I)) in H. apply in_seq in H. lia. Qed.

(* a running entry in the middle of the list: its ids are unique *)
Lemma nodup_mid {A : Type} (l1 l2 : list A) (x : A) : NoDup (l1 ++ x :: l2) -> ~ In x l1 /\ ~ In x l2.
Proof.
  intro H. apply NoDup_remove in H. destruct H as [_ H]. split; intro; apply H; apply in_or_app; auto.
Qed.

Lemma other_entry_differs (r1 r2 : list (run1 V)) (x y : run1 V) (p : list nat) (f : list nat) :
  NoDup (map r_tid (r1 ++ x :: r2)) ->
  NoDup (p ++ map r_task (r1 ++ x :: r2) ++ f) ->
  In y (r1 ++ r2) -> r_tid y <> r_tid x /\ r_task y <> r_task x.
Proof.
  intros Ht Hi Hy. rewrite map_app in Ht. simpl in Ht. apply nodup_mid in Ht. destruct Ht as [T1 T2].
  apply nd_app_r in Hi. apply nd_app_l in Hi.
  rewrite map_app in Hi. simpl in Hi. apply nodup_mid in Hi. destruct Hi as [K1 K2].
  apply in_app_or in Hy. destruct Hy as [Hy|Hy].
  - split; intro E.
    + apply T1. rewrite <- E. apply in_map. exact Hy.
    + apply K1. rewrite <- E. apply in_map. exact Hy.
  - split; intro E.
    + apply T2. rewrite <- E. apply in_map. exact Hy.
    + apply K2. rewrite <- E. apply in_map. exact Hy.
Qed.

Lemma in_mid_cases {A : Type} (l1 l2 : list A) (y z : A) : In y (l1 ++ z :: l2) -> y = z \/ In y (l1 ++ l2).
Proof. intro H. apply in_app_or in H. destruct H as [H|[H|H]]; auto; right; apply in_or_app; auto. Qed.

Lemma perm_mid_swap (p : list nat) (r1 r2 : list (run1 V)) (x y : run1 V) (f : list nat) :
  r_task x = r_task y ->
  p ++ map r_task (r1 ++ x :: r2) ++ f = p ++ map r_task (r1 ++ y :: r2) ++ f.
Proof. intro E. rewrite !map_app. simpl. rewrite E. reflexivity. Qed.

Lemma tids_mid_swap (r1 r2 : list (run1 V)) (x y : run1 V) :
  r_tid x = r_tid y -> map r_tid (r1 ++ x :: r2) = map r_tid (r1 ++ y :: r2).
Proof. intro E. rewrite !map_app. simpl. rewrite E. reflexivity. Qed.

Lemma inv_step (c c' : cfg V) : Inv c -> step tasks c c' -> Inv c'.
Proof.
  intros I S. pose proof (nodup_ids c I) as ND. destruct S.
  - (* start *)
    destruct I as [Ip It Ir Ipd Irn If]. simpl in *.
    assert (Hi : (i < n)%nat).
    { assert (In i (seq 0 n)) as Hs by (apply (Permutation_in _ Ip); apply in_or_app; left; apply in_or_app; right; left; reflexivity).
      apply in_seq in Hs. lia. }
    constructor; simpl.
    + eapply Permutation_trans; [|exact Ip].
      rewrite <- !app_assoc. apply Permutation_app_head. simpl.
      apply Permutation_sym. apply Permutation_middle.
    + constructor; assumption.
    + assumption.
    + intros l j Ho [Hin|Hn]; apply (Ipd l j Ho); [left|right; assumption].
      apply in_app_or in Hin. apply in_or_app. destruct Hin; [left|right; right]; assumption.
    + intros x [<-|Hx]; simpl.
      * split; [apply Hresp; assumption|]. intros l Ho. unfold target.
        apply Hclean; auto. intros y [Hy|Hy]; [apply Ir; assumption|].
        apply (Ipd y i Hy). left. apply in_or_app. right. left. reflexivity.
      * apply Irn. assumption.
    + assumption.
  - (* read *)
    destruct I as [Ip It Ir Ipd Irn If]. simpl in *.
    constructor; simpl.
    + rewrite (perm_mid_swap p r1 r2 (mkrun t i (k (m l))) (mkrun t i (Read l k)) f) by reflexivity. assumption.
    + rewrite (tids_mid_swap r1 r2 (mkrun t i (k (m l))) (mkrun t i (Read l k))) by reflexivity. assumption.
    + assumption.
    + assumption.
    + intros x Hx. apply in_mid_cases in Hx. destruct Hx as [->|Hx].
      * simpl. destruct (Irn (mkrun t i (Read l k))) as [Rs Ex]; [apply in_or_app; right; left; reflexivity|].
        simpl in *. inversion Rs; subst. split; auto.
      * apply Irn. apply in_app_or in Hx. apply in_or_app. destruct Hx; [left|right; right]; assumption.
    + assumption.
  - (* write *)
    destruct I as [Ip It Ir Ipd Irn If]. simpl in *.
    destruct (Irn (mkrun t i (Write l v k))) as [Rs Ex]; [apply in_or_app; right; left; reflexivity|].
    simpl in Rs, Ex. inversion Rs as [| |l' v' k' Hw Rk]; subst.
    assert (Hrun_i : In i (map r_task (r1 ++ mkrun t i (Write l v k) :: r2))).
    { rewrite map_app. apply in_or_app. right. left. reflexivity. }
    assert (Hi : (i < n)%nat).
    { assert (In i (seq 0 n)) as Hs by (apply (Permutation_in _ Ip); apply in_or_app; right; apply in_or_app; left; exact Hrun_i).
      apply in_seq in Hs. lia. }
    (* ownership of the written location *)
    assert (Hown : own l = OTask i \/ own l = OScratch t).
    { unfold may_write in Hw. destruct (own l) as [|j|u]; try discriminate; apply Nat.eqb_eq in Hw; subst; auto. }
    constructor; simpl.
    + rewrite (perm_mid_swap p r1 r2 (mkrun t i k) (mkrun t i (Write l v k)) f) by reflexivity. assumption.
    + rewrite (tids_mid_swap r1 r2 (mkrun t i k) (mkrun t i (Write l v k))) by reflexivity. assumption.
    + intros y Hy. rewrite upd_other; [apply Ir; assumption|]. intro E. subst y. destruct Hown; congruence.
    + intros y j Hy Hj. rewrite upd_other; [apply (Ipd y j Hy Hj)|]. intro E. subst y.
      destruct Hown as [Ho|Ho]; [|congruence]. rewrite Ho in Hy. inversion Hy; subst j.
      destruct Hj as [Hj|Hj]; [|lia].
      (* i pending and running contradicts NoDup *)
      clear -ND Hj Hrun_i.
      apply (nd_app_disj _ _ i ND Hj). apply in_or_app. left. exact Hrun_i.
    + intros x Hx. apply in_mid_cases in Hx. destruct Hx as [->|Hx].
      * simpl. split; auto.
      * assert (Hx' : In x (r1 ++ mkrun t i (Write l v k) :: r2)).
        { apply in_app_or in Hx. apply in_or_app. destruct Hx; [left|right; right]; assumption. }
        destruct (Irn x Hx') as [Rx Ex']. split; [assumption|].
        destruct (other_entry_differs r1 r2 (mkrun t i (Write l v k)) x p f It ND Hx) as [Dt Di]. simpl in Dt, Di.
        intros y Hy. rewrite <- (Ex' y Hy).
        apply (exec_agree own (r_task x) (r_tid x) (r_prog x) Rx).
        -- intros z Hz. apply upd_other. intro E. subst z.
           rewrite (write_not_read own i t (r_task x) (r_tid x) l) in Hz; auto; discriminate.
        -- apply own_task_may_read. assumption.
    + intros j y Hj Hy. rewrite upd_other; [apply If; assumption|]. intro E. subst y.
      destruct Hown as [Ho|Ho]; [|congruence]. rewrite Ho in Hy. inversion Hy; subst j.
      clear -ND Hj Hrun_i. apply nd_app_r in ND.
      apply (nd_app_disj _ _ i ND Hrun_i Hj).
  - (* end *)
    destruct I as [Ip It Ir Ipd Irn If]. simpl in *.
    destruct (Irn (mkrun t i Done)) as [Rs Ex]; [apply in_or_app; right; left; reflexivity|].
    simpl in Rs, Ex.
    constructor; simpl.
    + eapply Permutation_trans; [|exact Ip]. apply Permutation_app_head.
      rewrite !map_app. simpl. rewrite <- !app_assoc. apply Permutation_app_head. simpl.
      apply Permutation_sym. apply Permutation_middle.
    + rewrite map_app in *. simpl in It. apply NoDup_remove_1 in It. assumption.
    + assumption.
    + assumption.
    + intros x Hx. apply Irn. apply in_app_or in Hx. apply in_or_app. destruct Hx; [left|right; right]; assumption.
    + intros j y [<-|Hj] Hy; [apply Ex; assumption|apply If; assumption].
Qed.

Lemma inv_steps_from (c0 c : cfg V) : steps tasks c0 c -> Inv c0 -> Inv c.
Proof. induction 1 as [c|c1 c2 c3 S12 IH S23]; intro I0; [assumption | apply (inv_step c2 c3); [apply IH; assumption | assumption]]. Qed.

Lemma inv_steps (c : cfg V) : steps tasks (init_cfg n m0) c -> Inv c.
Proof. intro S. apply (inv_steps_from _ _ S). apply inv_init. Qed.

(* the final memory is determined location by location *)
Lemma final_characterised (c : cfg V) :
  steps tasks (init_cfg n m0) c -> final_cfg c ->
  forall l : loc,
    match own l with
    | ORead => cmem c l = m0 l
    | OTask i => cmem c l = if (i <? n)%nat then target i l else m0 l
    | OScratch _ => True
    end.
Proof.
  intros St [Fp Fr] l. pose proof (inv_steps c St) as I. destruct (own l) as [|i|t] eqn:Ho; auto.
  - apply (I_read c I). assumption.
  - destruct (i <? n)%nat eqn:Lt.
    + apply Nat.ltb_lt in Lt. apply (I_fin c I); auto.
      pose proof (I_part c I) as P. rewrite Fp, Fr in P. simpl in P.
      apply (Permutation_in _ (Permutation_sym P)). apply in_seq. lia.
    + apply Nat.ltb_ge in Lt. apply (I_pend c I l i Ho). right. assumption.
Qed.

End Inv.

(* ------------------------------------------------------------------ the sequential loop is one schedule *)

Lemma steps_trans {V : Type} (tasks : nat -> nat -> prog V) (a b c : cfg V) :
  steps tasks a b -> steps tasks b c -> steps tasks a c.
Proof. intros H1 H2. induction H2 as [c|c1 c2 c3 S12 IH S23]; [assumption | apply (steps_cons tasks a c2 c3); [apply IH; assumption | assumption]]. Qed.

Lemma step_steps {V : Type} (tasks : nat -> nat -> prog V) (a b : cfg V) : step tasks a b -> steps tasks a b.
Proof. intro H. eapply steps_cons; [apply steps_refl | exact H]. Qed.

Lemma solo_steps {V : Type} (tasks : nat -> nat -> prog V) (p : prog V) :
  forall (m : mem V) (pd : list nat) (t i : nat) (f : list nat),
    steps tasks (mkcfg m pd [mkrun t i p] f) (mkcfg (exec p m) pd [] (i :: f)).
Proof.
  induction p as [|l k IH|l v k IH]; intros m pd t i f; simpl.
  - apply step_steps. apply (S_end tasks m pd [] [] t i f).
  - eapply steps_trans; [apply step_steps; apply (S_read tasks m pd [] [] t i l k f)|]. simpl. apply IH.
  - eapply steps_trans; [apply step_steps; apply (S_write tasks m pd [] [] t i l v k f)|]. simpl. apply IH.
Qed.

Lemma seq_steps {V : Type} (tasks : nat -> nat -> prog V) :
  forall (ids : list nat) (m : mem V) (f : list nat),
    exists f' : list nat,
      steps tasks (mkcfg m ids [] f) (mkcfg (fold_left (fun (mm : mem V) (i : nat) => exec (tasks i 0%nat) mm) ids m) [] [] f').
Proof.
  induction ids as [|i r IH]; intros m f; simpl.
  - exists f. apply steps_refl.
  - destruct (IH (exec (tasks i 0%nat) m) (i :: f)) as [f' Hs]. exists f'.
    eapply steps_trans; [|exact Hs].
    eapply steps_trans; [apply step_steps; apply (S_start tasks m [] r i 0%nat [] f); simpl; tauto|].
    simpl. apply solo_steps.
Qed.

(* ------------------------------------------------------------------ main theorem *)
Theorem schedule_independent :
  forall (V : Type) (own : loc -> owner) (n : nat) (tasks : nat -> nat -> prog V) (m0 : mem V),
    (forall i t : nat, (i < n)%nat -> respects own i t (tasks i t)) ->
    scratch_clean own n tasks ->
    forall c : cfg V, steps tasks (init_cfg n m0) c -> final_cfg c ->
      forall l : loc, (forall t : nat, own l <> OScratch t) -> cmem c l = seq_run tasks n m0 l.
Proof.
  intros V own n tasks m0 Hr Hc c St Fin l Hl.
  pose proof (final_characterised own n tasks m0 Hr Hc c St Fin l) as A.
  destruct (seq_steps tasks (seq 0 n) m0 []) as [f' Sq].
  pose proof (final_characterised own n tasks m0 Hr Hc _ Sq (conj eq_refl eq_refl) l) as B.
  simpl in B. unfold seq_run.
  destruct (own l) as [|i|t] eqn:Ho.
  - congruence.
  - congruence.
  - exfalso. apply (Hl t). reflexivity.
Qed.

(* every task id is retired exactly once in a complete run, whatever the schedule *)
Theorem finished_once :
  forall (V : Type) (own : loc -> owner) (n : nat) (tasks : nat -> nat -> prog V) (m0 : mem V),
    (forall i t : nat, (i < n)%nat -> respects own i t (tasks i t)) ->
    scratch_clean own n tasks ->
    forall c : cfg V, steps tasks (init_cfg n m0) c -> final_cfg c -> Permutation (finished c) (seq 0 n).
Proof.
  intros V own n tasks m0 Hr Hc c St [Fp Fr].
  pose proof (I_part own n tasks m0 c (inv_steps own n tasks m0 Hr Hc c St)) as P.
  rewrite Fp, Fr in P. exact P.
Qed.

(* a complete run exists for every order of claiming and every assignment of thread ids
   (task-granularity schedules: the permuted sequential dispatcher of the correspondence driver) *)
Lemma perm_steps {V : Type} (tasks : nat -> nat -> prog V) :
  forall (order : list (nat * nat)) (pd : list nat) (m : mem V) (f : list nat),
    Permutation (map fst order) pd ->
    exists f' : list nat,
      steps tasks (mkcfg m pd [] f)
        (mkcfg (fold_left (fun (mm : mem V) (it : nat * nat) => exec (tasks (fst it) (snd it)) mm) order m) [] [] f').
Proof.
  induction order as [|[i t] r IH]; intros pd m f P; simpl in *.
  - apply Permutation_nil in P. subst pd. exists f. apply steps_refl.
  - assert (In i pd) as Hin by (apply (Permutation_in _ P); left; reflexivity).
    apply in_split in Hin. destruct Hin as [p1 [p2 ->]].
    apply Permutation_cons_app_inv in P.
    destruct (IH (p1 ++ p2) (exec (tasks i t) m) (i :: f) P) as [f' Hs]. exists f'.
    eapply steps_trans; [|exact Hs].
    eapply steps_trans; [apply step_steps; apply (S_start tasks m p1 p2 i t [] f); simpl; tauto|].
    apply solo_steps.
Qed.

Theorem permuted_dispatch_equal :
  forall (V : Type) (own : loc -> owner) (n : nat) (tasks : nat -> nat -> prog V) (m0 : mem V),
    (forall i t : nat, (i < n)%nat -> respects own i t (tasks i t)) ->
    scratch_clean own n tasks ->
    forall order : list (nat * nat), Permutation (map fst order) (seq 0 n) ->
      forall l : loc, (forall t : nat, own l <> OScratch t) ->
        fold_left (fun (mm : mem V) (it : nat * nat) => exec (tasks (fst it) (snd it)) mm) order m0 l = seq_run tasks n m0 l.
Proof.
  intros V own n tasks m0 Hr Hc order P l Hl.
  destruct (perm_steps tasks order (seq 0 n) m0 [] P) as [f' Hs].
  apply (schedule_independent V own n tasks m0 Hr Hc _ Hs (conj eq_refl eq_refl) l Hl).
Qed.

(* ------------------------------------------------------------------ executable scheduler is sound *)
Lemma remove1_split (i : nat) : forall (l l' : list nat), remove1 i l = Some l' -> exists p1 p2 : list nat, l = p1 ++ i :: p2 /\ l' = p1 ++ p2.
Proof.
  induction l as [|x r IH]; intros l' H; simpl in H; [discriminate|].
  destruct (Nat.eqb x i) eqn:E.
  - apply Nat.eqb_eq in E. subst x. inversion H; subst. exists [], l'. auto.
  - destruct (remove1 i r) as [r'|] eqn:R; simpl in H; [|discriminate]. inversion H; subst.
    destruct (IH r' eq_refl) as [p1 [p2 [-> ->]]]. exists (x :: p1), p2. auto.
Qed.

Lemma step_thread_sound {V : Type} (tasks : nat -> nat -> prog V) (t : nat) (pd : list nat) :
  forall (r : list (run1 V)) (pre : list (run1 V)) (m m' : mem V) (f f' : list nat) (r' : list (run1 V)),
    step_thread t m r f = Some (m', r', f') ->
    step tasks (mkcfg m pd (pre ++ r) f) (mkcfg m' pd (pre ++ r') f').
Proof.
  induction r as [|x r IH]; intros pre m m' f f' r' H; simpl in H; [discriminate|].
  destruct (Nat.eqb (r_tid x) t) eqn:E.
  - apply Nat.eqb_eq in E. destruct x as [tx ix px]. simpl in *. subst tx.
    destruct px as [|l k|l v k]; inversion H; subst.
    + apply S_end.
    + apply S_read.
    + apply S_write.
  - destruct (step_thread t m r f) as [[[m1 r1] f1]|] eqn:R; [|discriminate]. inversion H; subst.
    specialize (IH (pre ++ [x]) m m' f f' r1 R). rewrite <- !app_assoc in IH. simpl in IH. exact IH.
Qed.

Lemma act1_sound {V : Type} (tasks : nat -> nat -> prog V) (c c' : cfg V) (a : nat * option nat) :
  act1 tasks c a = Some c' -> step tasks c c'.
Proof.
  destruct c as [m pd r f]. destruct a as [t [i|]]; unfold act1; simpl; intro H.
  - destruct (existsb (fun x : run1 V => Nat.eqb (r_tid x) t) r) eqn:Ex; [discriminate|].
    destruct (remove1 i pd) as [p'|] eqn:R; [|discriminate]. inversion H; subst.
    destruct (remove1_split i _ _ R) as [p1 [p2 [E1 E2]]]. subst.
    apply S_start. intro Hin. apply in_map_iff in Hin. destruct Hin as [x [Hx1 Hx2]].
    assert (existsb (fun x0 : run1 V => Nat.eqb (r_tid x0) t) r = true) as Hex.
    { apply existsb_exists. exists x. split; auto. apply Nat.eqb_eq. assumption. }
    congruence.
  - destruct (step_thread t m r f) as [[[m1 r1] f1]|] eqn:R; [|discriminate].
    inversion H; subst.
    apply (step_thread_sound tasks t pd r [] m m1 f f1 r1 R).
Qed.

Lemma acts_sound {V : Type} (tasks : nat -> nat -> prog V) :
  forall (l : list (nat * option nat)) (c c' : cfg V), acts tasks c l = Some c' -> steps tasks c c'.
Proof.
  induction l as [|a r IH]; intros c c' H; simpl in H.
  - inversion H; subst. apply steps_refl.
  - destruct (act1 tasks c a) as [c1|] eqn:A; [|discriminate].
    eapply steps_trans; [apply step_steps; eapply act1_sound; eauto | apply IH; assumption].
Qed.

(* ------------------------------------------------------------------ footprint tables *)
(* TSlices with prefix-sum addresses: the slice of task k is owned by k (slices are disjoint) *)
Lemma slice_owner_ge (adr cnt : list Z) : forall (k0 : nat) (e : Z) (k : nat), slice_owner adr cnt k0 e = Some k -> (k0 <= k)%nat.
Proof.
  revert cnt. induction adr as [|a adr IH]; intros cnt k0 e k H; simpl in H; [discriminate|].
  destruct cnt as [|c cnt]; [discriminate|].
  destruct ((a <=? e) && (e <? a + c))%Z; [inversion H; lia|]. apply IH in H. lia.
Qed.

Lemma slice_owner_scan (cnt : list Z) :
  Forall (fun c : Z => 0 <= c)%Z cnt ->
  forall (acc : Z) (k0 : nat) (k : nat) (e : Z),
    (k < length cnt)%nat ->
    (nth k (scan acc cnt) 0 <= e < nth k (scan acc cnt) 0 + nth k cnt 0)%Z ->
    slice_owner (scan acc cnt) cnt k0 e = Some (k0 + k)%nat.
Proof.
  induction 1 as [|c cnt Hc Hall IH]; intros acc k0 k e Hk He; simpl in Hk; [lia|].
  simpl. destruct k as [|k].
  - simpl in He. replace ((acc <=? e) && (e <? acc + c))%Z with true; [f_equal; lia|].
    symmetry. apply andb_true_iff. split; [apply Z.leb_le|apply Z.ltb_lt]; lia.
  - simpl in He.
    assert (Hlow : (acc + c <= nth k (scan (acc + c) cnt) 0)%Z).
    { clear -Hall Hk. revert acc c k Hk. induction Hall as [|c' cnt Hc' Hall IH2]; intros acc c k Hk; simpl in Hk; [lia|].
      destruct k as [|k]; simpl; [lia|]. specialize (IH2 (acc + c) c' k). simpl in IH2.
      assert (k < length cnt)%nat by lia. specialize (IH2 ltac:(lia)). lia. }
    replace ((acc <=? e) && (e <? acc + c))%Z with false.
    + rewrite (IH (acc + c)%Z (S k0) k e) by (try lia; assumption). f_equal. lia.
    + symmetry. apply andb_false_iff. right. apply Z.ltb_ge. lia.
Qed.

Theorem island_slices_owned :
  forall (cnt : list Z) (k : nat) (e : Z),
    Forall (fun c : Z => 0 <= c)%Z cnt -> (k < length cnt)%nat ->
    (nth k (scan 0 cnt) 0 <= e < nth k (scan 0 cnt) 0 + nth k cnt 0)%Z ->
    table_owner (TSlices (scan 0 cnt) cnt) e = OTask k.
Proof.
  intros cnt k e Hc Hk He. simpl. rewrite (slice_owner_scan cnt Hc 0%Z 0%nat k e Hk He). reflexivity.
Qed.

(* conversely: an element owned by k lies in k's slice (for any address array) *)
Lemma slice_owner_in (adr cnt : list Z) : forall (k0 : nat) (e : Z) (k : nat),
  slice_owner adr cnt k0 e = Some k ->
  (nth (k - k0) adr 0 <= e < nth (k - k0) adr 0 + nth (k - k0) cnt 0)%Z /\ (k - k0 < length cnt)%nat.
Proof.
  revert cnt. induction adr as [|a adr IH]; intros cnt k0 e k H; simpl in H; [discriminate|].
  destruct cnt as [|c cnt]; [discriminate|].
  destruct ((a <=? e) && (e <? a + c))%Z eqn:E.
  - inversion H; subst. rewrite Nat.sub_diag. simpl. apply andb_true_iff in E. destruct E as [E1 E2].
    apply Z.leb_le in E1. apply Z.ltb_lt in E2. split; lia.
  - pose proof (slice_owner_ge _ _ _ _ _ H) as G. destruct (IH cnt (S k0) e k H) as [A B].
    replace (k - k0)%nat with (S (k - S k0)) by lia. simpl. split; [assumption|lia].
Qed.

(* ------------------------------------------------------------------ sites without per-thread scratch *)
Fixpoint no_thread (site : list (Z * table)) : bool :=
  match site with
  | [] => true
  | (_, TThread _) :: _ => false
  | _ :: r => no_thread r
  end.

Lemma table_owner_no_scratch (tb : table) (e : Z) (t : nat) :
  (forall s : Z, tb <> TThread s) -> table_owner tb e <> OScratch t.
Proof.
  intro H. destruct tb as [adr cnt|key|n b|s]; simpl.
  - destruct (slice_owner adr cnt 0 e); discriminate.
  - destruct (e <? 0)%Z; [discriminate|]. destruct (nth (Z.to_nat e) key (-1) <? 0)%Z; discriminate.
  - destruct ((0 <? n) && (0 <? b) && (0 <=? e))%Z; discriminate.
  - exfalso. apply (H s). reflexivity.
Qed.

Lemma site_no_scratch (site : list (Z * table)) :
  no_thread site = true -> forall (l : loc) (t : nat), site_owner site l <> OScratch t.
Proof.
  induction site as [|[a tb] r IH]; intros H l t; simpl; [discriminate|].
  destruct (a =? fst l)%Z.
  - apply table_owner_no_scratch. intros s E. subst tb. simpl in H. discriminate.
  - apply IH. destruct tb; simpl in H; auto; discriminate.
Qed.

Theorem island_solve_independent :
  forall (V : Type) (island_nv island_nefc efc_island dof_island con_island : list Z) (nsolver nstat : Z)
         (tasks : nat -> nat -> prog V) (m0 : mem V),
    let own := site_owner (island_site island_nv island_nefc efc_island dof_island con_island nsolver nstat) in
    let n := length island_nv in
    (forall i t : nat, (i < n)%nat -> respects own i t (tasks i t)) ->
    scratch_clean own n tasks ->
    forall c : cfg V, steps tasks (init_cfg n m0) c -> final_cfg c ->
      forall l : loc, cmem c l = seq_run tasks n m0 l.
Proof.
  intros V inv inefc ei di ci ns nst tasks m0 own n Hr Hc c St Fin l.
  apply (schedule_independent V own n tasks m0 Hr Hc c St Fin l).
  intro t. apply site_no_scratch. reflexivity.
Qed.

(* the slices of the island-ordered arrays really belong to their island *)
Theorem island_site_slices :
  forall (island_nv island_nefc efc_island dof_island con_island : list Z) (nsolver nstat : Z) (k : nat) (e : Z),
    let own := site_owner (island_site island_nv island_nefc efc_island dof_island con_island nsolver nstat) in
    (Forall (fun c : Z => 0 <= c)%Z island_nv -> (k < length island_nv)%nat ->
     (nth k (scan 0 island_nv) 0 <= e < nth k (scan 0 island_nv) 0 + nth k island_nv 0)%Z ->
     own (A_iacc, e) = OTask k /\ own (A_ifrc_constraint, e) = OTask k) /\
    (Forall (fun c : Z => 0 <= c)%Z island_nefc -> (k < length island_nefc)%nat ->
     (nth k (scan 0 island_nefc) 0 <= e < nth k (scan 0 island_nefc) 0 + nth k island_nefc 0)%Z ->
     own (A_iefc_force, e) = OTask k /\ own (A_iefc_state, e) = OTask k).
Proof.
  intros inv inefc ei di ci ns nst k e own. split; intros Hc Hk He.
  - split; unfold own, island_site, site_owner; simpl fst; simpl snd; cbn [Z.eqb A_iacc A_ifrc_constraint Pos.eqb];
      apply island_slices_owned; assumption.
  - split; unfold own, island_site, site_owner; simpl fst; simpl snd;
      cbn [Z.eqb A_iacc A_ifrc_constraint A_iefc_force A_iefc_state Pos.eqb];
      apply island_slices_owned; assumption.
Qed.

(* ------------------------------------------------------------------ the concrete instance *)
Lemma ex_own_in (e : Z) : site_owner ex_site (0%Z, e) = ORead.
Proof. reflexivity. Qed.

Lemma ex_own_scratch (t : nat) (j : Z) : (0 <= j < 4)%Z -> site_owner ex_site (22%Z, (4 * Z.of_nat t + j)%Z) = OScratch t.
Proof.
  intro Hj. remember (4 * Z.of_nat t + j)%Z as e eqn:He.
  assert (H0 : (0 <= e)%Z) by lia.
  unfold ex_site, site_owner. cbn [fst snd Z.eqb Pos.eqb]. unfold table_owner.
  replace ((0 <? 4) && (0 <=? e))%Z with true
    by (symmetry; apply andb_true_iff; split; [reflexivity | apply Z.leb_le; lia]).
  f_equal. subst e. replace (4 * Z.of_nat t + j)%Z with (j + Z.of_nat t * 4)%Z by lia.
  rewrite Z.div_add by lia. rewrite Z.div_small by lia. simpl. apply Nat2Z.id.
Qed.

Lemma ex_own_task_fst (l : loc) (i : nat) : site_owner ex_site l = OTask i -> fst l = 1%Z.
Proof.
  destruct l as [a e]. unfold ex_site, site_owner. simpl fst. simpl snd.
  destruct (1 =? a)%Z eqn:E1; [intros _; apply Z.eqb_eq in E1; auto|].
  destruct (22 =? a)%Z eqn:E2; [|discriminate].
  unfold table_owner. destruct ((0 <? 4) && (0 <=? e))%Z; discriminate.
Qed.

Lemma ex_respects : forall i t : nat, (i < 2)%nat -> respects (site_owner ex_site) i t (ex_task i t).
Proof.
  intros i t Hi. unfold ex_task.
  assert (Hs : site_owner ex_site (22%Z, (4 * Z.of_nat t)%Z) = OScratch t).
  { replace (4 * Z.of_nat t)%Z with (4 * Z.of_nat t + 0)%Z by lia. apply ex_own_scratch. lia. }
  assert (Ho : site_owner ex_site (1%Z, (2 * Z.of_nat i)%Z) = OTask i).
  { destruct i as [|[|i]]; [reflexivity|reflexivity|lia]. }
  apply R_read; [unfold may_read; rewrite ex_own_in; reflexivity|]. intro x.
  apply R_write; [unfold may_write; rewrite Hs; apply Nat.eqb_refl|].
  apply R_read; [unfold may_read; rewrite Hs; apply Nat.eqb_refl|]. intro y.
  apply R_write; [unfold may_write; rewrite Ho; apply Nat.eqb_refl|]. apply R_done.
Qed.

Lemma ex_exec (i t : nat) (m : mem Z) (l : loc) : fst l = 1%Z ->
  exec (ex_task i t) m l = if loc_eqb l (1%Z, (2 * Z.of_nat i)%Z) then (2 * (m (0%Z, Z.of_nat i) + 1))%Z else m l.
Proof.
  intro Hl. unfold ex_task. cbn [exec]. rewrite upd_same. unfold upd at 1.
  destruct (loc_eqb l (1%Z, (2 * Z.of_nat i)%Z)); [reflexivity|].
  apply upd_other. intro E. rewrite E in Hl. simpl in Hl. discriminate.
Qed.

Lemma ex_clean : scratch_clean (site_owner ex_site) 2 ex_task.
Proof.
  intros i t t' m m' Hi Hag l Hl.
  pose proof (ex_own_task_fst l i Hl) as Hf.
  rewrite !ex_exec by assumption.
  rewrite (Hag (0%Z, Z.of_nat i)) by (left; apply ex_own_in).
  rewrite (Hag l) by (right; assumption). reflexivity.
Qed.

(* ------------------------------------------------------------------ the PGS-dense island task as coded *)
Lemma pgs_dense_outside_footprint :
  forall t : nat, ~ respects (site_owner pgs_site) 0 t (pgs_dense_task 0 t) /\ ~ respects (site_owner pgs_site) 1 t (pgs_dense_task 1 t).
Proof.
  intro t. split; intro H; unfold pgs_dense_task in H.
  - inversion H as [|l k Hr Hk|]; subst. specialize (Hk 0%Z). inversion Hk as [|l' k' Hr' Hk'|]; subst.
    vm_compute in Hr'. discriminate.
  - inversion H as [|l k Hr Hk|]; subst. vm_compute in Hr. discriminate.
Qed.

(* ------------------------------------------------------------------ tactile batching covers every taxel *)
Lemma ceil_batching_covers :
  forall n t : Z, (0 < n)%Z -> (0 < t)%Z ->
    let b := ceil_div n t in let k := ceil_div n b in
    (0 < b /\ n <= k * b /\ (k - 1) * b < n /\ 1 <= k <= t)%Z /\ tactile_cover_ok n b k n = true.
Proof.
  intros n t Hn Ht b k. unfold ceil_div in *.
  assert (Hb : (0 < b)%Z).
  { subst b. apply Z.div_str_pos. lia. }
  assert (Hb1 : (t * b <= n + t - 1 < t * b + t)%Z).
  { subst b. pose proof (Z.div_mod (n + t - 1) t ltac:(lia)). pose proof (Z.mod_pos_bound (n + t - 1) t Ht). lia. }
  assert (Hk1 : (b * k <= n + b - 1 < b * k + b)%Z).
  { subst k. pose proof (Z.div_mod (n + b - 1) b ltac:(lia)). pose proof (Z.mod_pos_bound (n + b - 1) b Hb). lia. }
  assert (F : (n <= k * b /\ (k - 1) * b < n /\ 1 <= k <= t)%Z) by nia.
  split; [tauto|].
  unfold tactile_cover_ok. rewrite !andb_true_iff. repeat split.
  - apply Z.ltb_lt. exact Hb.
  - apply Z.leb_le. lia.
  - apply Z.ltb_lt. lia.
  - apply Z.eqb_refl.
Qed.

(* the truncating variant (batch = n / t, t tasks) drops the last n mod t taxels *)
Lemma floor_batching_drops :
  forall n t : Z, (0 < t)%Z -> (n mod t <> 0)%Z -> (t * (n / t) < n)%Z /\ tactile_cover_ok n (n / t) t (t * (n / t)) = false.
Proof.
  intros n t Ht Hm. pose proof (Z.div_mod n t ltac:(lia)). pose proof (Z.mod_pos_bound n t Ht).
  assert (L : (t * (n / t) < n)%Z) by lia. split; [exact L|].
  unfold tactile_cover_ok. replace (n <=? t * (n / t))%Z with false by (symmetry; apply Z.leb_gt; lia).
  rewrite andb_false_r. reflexivity.
Qed.
