(* C44 — proofs about Model/MjxState.v: on valid signatures and well-formed data the MJX functions compute what
   the C functions of Model/StateAPI.v compute, hence the C26 round-trip theorems hold for them. *)
From Coq Require Import String Ascii List ZArith Bool Lia.
From MJV Require Import Model.StateAPI Gen.StateTable Proof.StateAPIProof Model.MjxState Gen.MjxStateTable.
Import ListNotations.
Open Scope Z_scope.
Open Scope list_scope.

(* the table regenerated from mjx/_src/io.py of the working tree *)
Definition mjx_gen : mjx_tables :=
  mkMjxTables mjx_state_map mjx_size_cases mjx_loop_bounds mjx_sig_checks mjx_casts mjx_scalar_field.

(* ... interpreted with the enumerator values and mjNSTATE of the C header of the same tree *)
Definition mjx_nstate : nat := Z.to_nat (t_nstate gen_tables).
Definition mjx_static_gen : list (option selem) := mjx_static mjx_gen (t_enum gen_tables) mjx_nstate.
Definition mjx_supported_gen : list nat := mjx_supported mjx_gen (t_enum gen_tables) mjx_nstate.
Definition mjx_elems (env : string -> Z) : nat -> option (elem string) := elems_of_static mjx_static_gen env.

Lemma valid_sig_range : forall (n : nat) (sig : Z), valid_sig n sig = true <-> 0 <= sig < 2 ^ Z.of_nat n.
Proof.
  intros n sig. unfold valid_sig. rewrite andb_true_iff, Z.leb_le, Z.ltb_lt. tauto.
Qed.

Lemma valid_high : forall (n : nat) (sig : Z), valid_sig n sig = true -> (2 ^ Z.of_nat n <=? sig) = false.
Proof. intros n sig H. apply valid_sig_range in H. apply Z.leb_gt. lia. Qed.

Section MjxProofs.
  Variable V : Type.
  Variable toBool : V -> V.
  Variable F : Type.
  Variable feqb : F -> F -> bool.
  Hypothesis feqb_spec : forall a b : F, feqb a b = true <-> a = b.
  Variable n : nat.
  Variable elems : nat -> option (elem F).

  Notation data := (data V F).
  Notation fld := (fld F).
  Notation lens_ok := (lens_ok V F).
  Notation setE := (setE V toBool F feqb).
  Notation getE := (getE V F).
  Notation upd := (upd V F feqb).
  Notation wf := (wf V toBool F elems).

  Lemma mjx_resolve_valid : forall sig : Z, valid_sig n sig = true ->
      mjx_resolve F n elems sig = resolve F n elems sig.
  Proof. intros sig H. unfold mjx_resolve, resolve. rewrite H. reflexivity. Qed.

  (* ---------------- element level ---------------- *)
  Lemma mjx_getE_getE : forall (d : data) (es : list (nat * elem F)), lens_ok d es -> mjx_getE V F d es = getE d es.
  Proof.
    intros d es. induction es as [|ie r IH]; intros H; simpl; auto.
    rewrite IH by (intros x Hx; apply H; right; assumption).
    f_equal. symmetry. apply (rd_len V F d ie). apply H. left; reflexivity.
  Qed.

  Lemma mjx_getE_ext : forall (d1 d2 : data) (es : list (nat * elem F)),
      (forall f : F, d1 f = d2 f) -> mjx_getE V F d1 es = mjx_getE V F d2 es.
  Proof.
    intros d1 d2 es H. unfold mjx_getE. apply flat_map_ext. intro a. apply H.
  Qed.

  Lemma setE_lens : forall (es : list (nat * elem F)) (D : data) (v : list V),
      lens_ok D es -> forall f : F, length (setE D v es f) = length (D f).
  Proof.
    induction es as [|ie r IH]; intros D v H f; simpl; auto.
    assert (Hl : length (D (e_field (snd ie))) = e_size (snd ie)) by (apply (H ie); left; reflexivity).
    rewrite IH.
    - apply (wr_length V toBool F feqb feqb_spec). exact Hl.
    - intros x Hx. rewrite (wr_length V toBool F feqb feqb_spec) by exact Hl. apply H. right; assumption.
  Qed.

  Lemma mjx_replace_cons : forall (D : data) (f : F) (l : list V) (ups : list (F * list V)),
      mjx_replace V F feqb D ((f, l) :: ups) = mjx_replace V F feqb (upd D f l) ups.
  Proof. reflexivity. Qed.

  (* the dictionary of updates applied to D is the sequential mju_copy loop of the C function *)
  Lemma mjx_updates_setE : forall (es : list (nat * elem F)) (d : data) (v : list V),
      NoDup (map fld es) -> lens_ok d es -> length v = sizeE F es ->
      exists ups : list (F * list V),
        mjx_updates V toBool F d v es = Some ups /\
        forall D : data, lens_ok D es -> forall f : F, mjx_replace V F feqb D ups f = setE D v es f.
  Proof.
    induction es as [|ie r IH]; intros d v Hnd Hl Hv.
    - exists []. split; [reflexivity|]. intros; reflexivity.
    - inversion Hnd as [|? ? Hni Hnd']; subst. simpl in Hv.
      assert (Hv1 : length (firstn (e_size (snd ie)) v) = e_size (snd ie)) by (rewrite firstn_length; lia).
      assert (Hv2 : length (skipn (e_size (snd ie)) v) = sizeE F r) by (rewrite skipn_length; lia).
      destruct (IH d (skipn (e_size (snd ie)) v) Hnd') as [ups [Hu Hr]]; auto.
      { intros x Hx. apply Hl. right; assumption. }
      simpl. rewrite Hu.
      assert (Hc : Nat.eqb (length (d (e_field (snd ie)))) (length (firstn (e_size (snd ie)) v)) = true).
      { apply Nat.eqb_eq. rewrite Hv1. apply (Hl ie). left; reflexivity. }
      rewrite Hc. eexists. split; [reflexivity|].
      intros D HD f. rewrite mjx_replace_cons.
      set (new := if e_bool (snd ie) then map toBool (firstn (e_size (snd ie)) v) else firstn (e_size (snd ie)) v).
      assert (Hnew : length new = e_size (snd ie)).
      { unfold new. destruct (e_bool (snd ie)); [rewrite map_length|]; exact Hv1. }
      assert (Hwr : wr V toBool F feqb D (snd ie) v = upd D (e_field (snd ie)) new).
      { unfold wr. fold new. rewrite over_full; [reflexivity|]. rewrite Hnew. apply (HD ie). left; reflexivity. }
      rewrite Hwr. apply Hr.
      intros x Hx. unfold StateAPIProof.fld. rewrite (upd_other V F feqb feqb_spec).
      + apply (HD x). right; assumption.
      + intro E. apply Hni. unfold StateAPIProof.fld at 1. rewrite <- E. exact (in_map fld r x Hx).
  Qed.

  (* ---------------- API level ---------------- *)
  Theorem mjx_size_agrees : forall sig : Z, valid_sig n sig = true ->
      mjx_stateSize F n elems sig = stateSize F n elems sig.
  Proof. intros sig H. unfold mjx_stateSize, stateSize. rewrite mjx_resolve_valid by assumption. reflexivity. Qed.

  Theorem mjx_get_agrees : forall (d : data) (sig : Z), wf d -> valid_sig n sig = true ->
      mjx_getState V F n elems d sig = getState V F n elems d sig.
  Proof.
    intros d sig Hwf Hv. unfold mjx_getState, getState. rewrite (valid_high n sig Hv).
    rewrite mjx_resolve_valid by assumption.
    destruct (resolve F n elems sig) as [es|] eqn:E; simpl; auto.
    apply resolve_spec in E. destruct E as (_ & _ & Hg).
    f_equal. apply mjx_getE_getE. apply (wf_lens V toBool F elems d es Hwf Hg).
  Qed.

  Section Inj.
    Hypothesis Hinj : fields_injective F elems.

    Theorem mjx_set_agrees : forall (d : data) (sig : Z) (v : list V), wf d -> valid_sig n sig = true ->
        stateSize F n elems sig = Some (length v) ->
        exists d1 d2 : data,
          mjx_setState V toBool F feqb n elems d v sig = Some d1 /\
          setState V toBool F feqb n elems d v sig = Some d2 /\
          forall f : F, d1 f = d2 f.
    Proof.
      intros d sig v Hwf Hv Hs. unfold mjx_setState, setState. rewrite (valid_high n sig Hv).
      rewrite (mjx_size_agrees sig Hv), Hs. rewrite Nat.eqb_refl.
      rewrite mjx_resolve_valid by assumption.
      unfold stateSize in Hs. destruct (resolve F n elems sig) as [es|] eqn:E; simpl in *; [|discriminate].
      inversion Hs as [Hlen]. apply resolve_spec in E. destruct E as (_ & _ & Hg).
      pose proof (good_fields_nodup F elems Hinj es Hg) as Hnd.
      destruct (wf_lens V toBool F elems d es Hwf Hg) as [Hl _].
      destruct (mjx_updates_setE es d v Hnd Hl (eq_sym Hlen)) as [ups [Hu Hr]].
      rewrite Hu. simpl. eexists. eexists. split; [reflexivity|]. split; [reflexivity|].
      apply Hr. exact Hl.
    Qed.

    Theorem mjx_size_get : forall (d : data) (sig : Z), wf d -> valid_sig n sig = true ->
        option_map (@length V) (mjx_getState V F n elems d sig) = mjx_stateSize F n elems sig.
    Proof.
      intros d sig Hwf Hv. rewrite mjx_get_agrees, mjx_size_agrees by assumption.
      apply (size_get V toBool F n elems d sig Hwf).
    Qed.

    Theorem mjx_set_get : forall (d d' : data) (sig : Z) (v : list V), wf d -> wf d' -> valid_sig n sig = true ->
        mjx_getState V F n elems d sig = Some v ->
        exists d'' : data,
          mjx_setState V toBool F feqb n elems d' v sig = Some d'' /\
          (forall (i : nat) (e : elem F), In i (bits n sig) -> elems i = Some e -> d'' (e_field e) = d (e_field e)) /\
          (forall f : F, (forall (i : nat) (e : elem F), In i (bits n sig) -> elems i = Some e -> e_field e <> f) -> d'' f = d' f).
    Proof.
      intros d d' sig v Hwf Hwf' Hv Hget. rewrite mjx_get_agrees in Hget by assumption.
      destruct (set_get V toBool F feqb feqb_spec n elems Hinj d d' sig v Hwf Hwf' Hget) as [d2 [Hs [A B]]].
      assert (Hsz : stateSize F n elems sig = Some (length v)).
      { rewrite <- (size_get V toBool F n elems d sig Hwf). rewrite Hget. reflexivity. }
      destruct (mjx_set_agrees d' sig v Hwf' Hv Hsz) as [d1 [d2' [H1 [H2 H3]]]].
      rewrite Hs in H2. inversion H2; subst d2'.
      exists d1. split; [assumption|]. split.
      - intros i e Hi He. rewrite H3. apply (A i e); assumption.
      - intros f Hf. rewrite H3. apply B. assumption.
    Qed.

    Theorem mjx_get_set : forall (d : data) (sig : Z) (v : list V) (size : nat) (m : list bool), wf d ->
        valid_sig n sig = true ->
        mjx_stateSize F n elems sig = Some size -> length v = size -> stateMask F n elems sig = Some m ->
        exists d' : data,
          mjx_setState V toBool F feqb n elems d v sig = Some d' /\
          mjx_getState V F n elems d' sig = Some (applyMask V toBool m v).
    Proof.
      intros d sig v size m Hwf Hv Hs Hlen Hm.
      unfold mjx_setState, mjx_getState. rewrite (valid_high n sig Hv). rewrite Hs. subst size. rewrite Nat.eqb_refl.
      unfold mjx_stateSize in Hs. rewrite mjx_resolve_valid in * by assumption.
      unfold stateMask in Hm.
      destruct (resolve F n elems sig) as [es|] eqn:E; simpl in *; [|discriminate].
      inversion Hs as [Hsz]. inversion Hm; subst m. apply resolve_spec in E. destruct E as (_ & _ & Hg).
      pose proof (good_fields_nodup F elems Hinj es Hg) as Hnd.
      destruct (wf_lens V toBool F elems d es Hwf Hg) as [Hl _].
      destruct (mjx_updates_setE es d v Hnd Hl (eq_sym Hsz)) as [ups [Hu Hr]].
      rewrite Hu. simpl. eexists. split; [reflexivity|]. f_equal.
      rewrite (mjx_getE_ext _ (setE d v es) es (Hr d Hl)).
      rewrite mjx_getE_getE.
      - apply (getE_setE V toBool F feqb feqb_spec n elems); auto.
      - intros x Hx. rewrite setE_lens by exact Hl. apply Hl. assumption.
    Qed.

    Theorem mjx_get_set_bool : forall (d : data) (sig : Z) (v : list V) (size : nat) (m : list bool), wf d ->
        valid_sig n sig = true ->
        mjx_stateSize F n elems sig = Some size -> length v = size -> stateMask F n elems sig = Some m ->
        (forall (k : nat) (x : V), nth_error m k = Some true -> nth_error v k = Some x -> toBool x = x) ->
        exists d' : data,
          mjx_setState V toBool F feqb n elems d v sig = Some d' /\
          mjx_getState V F n elems d' sig = Some v.
    Proof.
      intros d sig v size m Hwf Hv Hs Hlen Hm Hb.
      destruct (mjx_get_set d sig v size m Hwf Hv Hs Hlen Hm) as [d' [A B]]. exists d'. split; auto.
      rewrite B. f_equal. apply applyMask_fixed.
      - intros k b x Hk Hx ->. eapply Hb; eauto.
      - unfold mjx_stateSize, stateMask in *. rewrite mjx_resolve_valid in * by assumption.
        destruct (resolve F n elems sig); simpl in *; [|discriminate].
        inversion Hs; inversion Hm; subst. rewrite maskE_length. lia.
    Qed.
  End Inj.

  (* ---------------- outcomes outside the valid signatures ---------------- *)
  Theorem mjx_high_sig : forall (sig : Z), 2 ^ Z.of_nat n <= sig ->
      (forall d : data, mjx_getState V F n elems d sig = None) /\
      (forall (d : data) (v : list V), mjx_setState V toBool F feqb n elems d v sig = None).
  Proof.
    intros sig H. assert (E : (2 ^ Z.of_nat n <=? sig) = true) by (apply Z.leb_le; assumption).
    unfold mjx_getState, mjx_setState. rewrite E. split; reflexivity.
  Qed.

  Theorem mjx_set_wrong_length : forall (d : data) (v : list V) (sig : Z) (size : nat),
      mjx_stateSize F n elems sig = Some size -> length v <> size ->
      mjx_setState V toBool F feqb n elems d v sig = None.
  Proof.
    intros d v sig size Hs Hl. unfold mjx_setState. destruct (2 ^ Z.of_nat n <=? sig); auto.
    rewrite Hs. apply Nat.eqb_neq in Hl. rewrite Hl. reflexivity.
  Qed.

  Lemma bits_mod : forall sig : Z, bits n (sig mod 2 ^ Z.of_nat n) = bits n sig.
  Proof.
    intro sig. unfold bits. apply filter_ext_in. intros i Hi. apply in_seq in Hi.
    apply Z.mod_pow2_bits_low. lia.
  Qed.

  (* state_size never looks at bits >= mjNSTATE and accepts negative python ints: it is the C size of sig mod 2^n
     (where mj_stateSize itself takes the error outcome for such sig: C26_errors) *)
  Theorem mjx_size_unchecked : forall sig : Z,
      mjx_stateSize F n elems sig = stateSize F n elems (sig mod 2 ^ Z.of_nat n).
  Proof.
    intro sig. unfold mjx_stateSize, stateSize, mjx_resolve, resolve.
    assert (Hv : valid_sig n (sig mod 2 ^ Z.of_nat n) = true).
    { apply valid_sig_range. apply Z.mod_pos_bound. apply Z.pow_pos_nonneg; lia. }
    rewrite Hv. rewrite bits_mod. reflexivity.
  Qed.

  (* get_state has no lower-bound check: a negative signature reads the components of sig mod 2^n *)
  Theorem mjx_get_negative : forall (d : data) (sig : Z), sig < 0 ->
      mjx_getState V F n elems d sig = mjx_getState V F n elems d (sig mod 2 ^ Z.of_nat n).
  Proof.
    intros d sig H. unfold mjx_getState, mjx_resolve. rewrite bits_mod.
    assert (P : 0 < 2 ^ Z.of_nat n) by (apply Z.pow_pos_nonneg; lia).
    assert (E1 : (2 ^ Z.of_nat n <=? sig) = false) by (apply Z.leb_gt; lia).
    assert (E2 : (2 ^ Z.of_nat n <=? sig mod 2 ^ Z.of_nat n) = false).
    { apply Z.leb_gt. apply Z.mod_pos_bound. assumption. }
    rewrite E1, E2. reflexivity.
  Qed.
End MjxProofs.

(* ------------------------------------------------------------------------------------------ *)
(* a static table equal to the C one gives the same element function, for every model *)
Lemma elems_static_eq : forall (st : list (option selem)) (T : tables) (env : string -> Z),
    st = static T -> elems_of_static st env = elems_of T env.
Proof. intros st T env H. unfold elems_of. rewrite H. reflexivity. Qed.

Lemma restrict_all : forall (st : list (option selem)),
    restrict_static (seq 0 (length st)) st = st.
Proof.
  intro st. unfold restrict_static.
  assert (G : forall (l : list (option selem)) (a : nat) (sup : list nat),
             (forall i : nat, (a <= i < a + length l)%nat -> In i sup) ->
             map (fun io : nat * option selem => if existsb (Nat.eqb (fst io)) sup then snd io else None)
                 (combine (seq a (length l)) l) = l).
  { induction l as [|x l IH]; intros a sup H; simpl; auto.
    rewrite IH by (intros i Hi; apply H; simpl; lia). f_equal.
    assert (E : existsb (Nat.eqb a) sup = true).
    { apply existsb_exists. exists a. split; [apply H; simpl; lia | apply Nat.eqb_refl]. }
    rewrite E. reflexivity. }
  apply G. intros i Hi. apply in_seq. lia.
Qed.

Lemma gen_table_ok : table_ok gen_tables = true.
Proof. vm_compute. reflexivity. Qed.

Lemma string_eqb_spec : forall a b : string, String.eqb a b = true <-> a = b.
Proof. exact String.eqb_eq. Qed.

(* both round trips for a table over string-named fields in which every bit has an entry *)
Lemma mjx_round_trip_inst :
  forall (V : Type) (toBool : V -> V) (n : nat) (E : nat -> option (elem string)),
    all_valid string n E -> fields_injective string E ->
    forall (d d' : data V string) (sig : Z),
      wf V toBool string E d -> wf V toBool string E d' -> 0 <= sig < 2 ^ Z.of_nat n ->
      (exists v : list V,
         mjx_getState V string n E d sig = Some v /\
         mjx_stateSize string n E sig = Some (length v) /\
         exists d'' : data V string,
           mjx_setState V toBool string String.eqb n E d' v sig = Some d'' /\
           (forall (i : nat) (e : elem string), In i (bits n sig) -> E i = Some e -> d'' (e_field e) = d (e_field e)) /\
           (forall f : string, (forall (i : nat) (e : elem string), In i (bits n sig) -> E i = Some e -> e_field e <> f) -> d'' f = d' f)) /\
      (forall (v : list V) (m : list bool),
         mjx_stateSize string n E sig = Some (length v) ->
         stateMask string n E sig = Some m ->
         exists d1 : data V string,
           mjx_setState V toBool string String.eqb n E d v sig = Some d1 /\
           mjx_getState V string n E d1 sig = Some (applyMask V toBool m v)).
Proof.
  intros V toBool n E Hval Hinj d d' sig Hwf Hwf' Hr.
  assert (Hv : valid_sig n sig = true) by (apply (proj2 (valid_sig_range n sig)); assumption).
  split.
  - destruct (resolve_total string n E Hval sig Hv) as [es Hes].
    assert (Hg : mjx_getState V string n E d sig = Some (getE V string d es)).
    { rewrite (mjx_get_agrees V toBool string n E d sig Hwf Hv). unfold getState. rewrite Hes. reflexivity. }
    exists (getE V string d es). split; [exact Hg|]. split.
    + rewrite <- (mjx_size_get V toBool string n E d sig Hwf Hv). rewrite Hg. reflexivity.
    + apply (mjx_set_get V toBool string String.eqb string_eqb_spec n E Hinj d d' sig _ Hwf Hwf' Hv Hg).
  - intros v m Hs Hm.
    apply (mjx_get_set V toBool string String.eqb string_eqb_spec n E Hinj d sig v (length v) m Hwf Hv Hs eq_refl Hm).
Qed.
