(* Soundness of _validate (C41): an accepted schema satisfies the declarative rules of Model/SchemaLangSpec.v *)
From Coq Require Import NArith ZArith List Bool Lia.
From MJV Require Import Model.SchemaLang Model.SchemaLangSpec Proof.SchemaLangProof.
Import ListNotations.
Open Scope N_scope.

Lemma find_enum_some : forall l n e, find_enum l n = Some e -> In e l /\ en_name e = n.
Proof.
  induction l as [|x l IH]; simpl; intros n e H; [discriminate|].
  destruct (str_eqb (en_name x) n) eqn:E.
  - inversion H; subst. apply str_eqb_eq in E. auto.
  - destruct (IH _ _ H). auto.
Qed.

Lemma ostr_eqb_eq : forall a b, ostr_eqb a b = true <-> a = b.
Proof.
  intros [a|] [b|]; simpl; split; intro H; try discriminate; try reflexivity.
  - apply str_eqb_eq in H. congruence.
  - inversion H. apply str_eqb_refl.
Qed.

Lemma osmem_In : forall x l, osmem x l = true <-> In x l.
Proof.
  induction l as [|y l IH]; simpl.
  - split; [discriminate | tauto].
  - rewrite orb_true_iff, IH, ostr_eqb_eq. split; intros [H|H]; auto.
Qed.

Lemma atype_eqb_eq : forall a b, atype_eqb a b = true <-> a = b.
Proof. intros a b; destruct a, b; simpl; split; intro H; try discriminate; reflexivity. Qed.

Lemma is_scalar_spec : forall a, is_scalar a = true -> scalar_arity a.
Proof.
  intros [lo hi] H. unfold is_scalar in H. simpl in H. apply andb_true_iff in H. destruct H as [H1 H2].
  apply Z.eqb_eq in H1. subst. unfold scalar_arity.
  destruct hi as [h| |]; try discriminate. destruct h as [|p|p]; try discriminate.
  destruct p; try discriminate. reflexivity.
Qed.

Lemma is_scalar_false : forall a, is_scalar a = false -> ~ scalar_arity a.
Proof. intros a H Hs. unfold scalar_arity in Hs. subst. discriminate. Qed.

Lemma id_targets_In : forall ms x, In x (id_targets ms) ->
  exists b, In (MAttr b) ms /\ a_type b = TId /\ a_target b = x.
Proof.
  intros ms x H. unfold id_targets in H. apply in_flat_map in H. destruct H as (m & Hm & Hx).
  destruct m; simpl in Hx; try contradiction.
  destruct (atype_eqb (a_type a) TId) eqn:E; [|contradiction].
  destruct Hx as [Hx|[]]. apply atype_eqb_eq in E. eauto.
Qed.

Lemma negb_and_negb : forall a b, negb (a && negb b) = true -> a = true -> b = true.
Proof. intros [] []; simpl; auto; discriminate. Qed.

Lemma validate_attr_sound : forall s a,
  validate_attr s (flat_map id_targets (containers s)) a = VOk -> attr_rules s a.
Proof.
  intros s a H. unfold validate_attr in H.
  repeat (apply vthen_ok in H; let H1 := fresh "C" in destruct H as [H1 H]).
  apply vcheck_ok in C, C0, C1, C2, C3, C6, C7.
  rewrite vfor_ok in C4.
  unfold attr_rules. repeat split.
  - (* enum / flags *)
    intros Hty.
    assert (Ht : match a_type a with TEnum | TFlags => true | _ => false end = true) by (destruct Hty as [E|E]; rewrite E; reflexivity).
    pose proof (negb_and_negb _ _ C Ht) as Hf.
    destruct (a_target a) as [t|]; [|discriminate].
    destruct (find_enum (s_enums s) t) as [e|] eqn:Ef; [|discriminate].
    apply find_enum_some in Ef. exists t, e. split; [reflexivity | exact Ef].
  - (* ref *)
    intros Hty. assert (Ht : atype_eqb (a_type a) TRef = true) by (rewrite Hty; reflexivity).
    pose proof (negb_and_negb _ _ C0 Ht) as Hf. apply osmem_In in Hf.
    apply in_flat_map in Hf. destruct Hf as (ms & Hms & Hx). apply id_targets_In in Hx.
    destruct Hx as (b & Hb1 & Hb2 & Hb3). exists ms, b. auto.
  - (* file / bool *)
    intros Hty. apply is_scalar_spec. apply (negb_and_negb _ _ C1).
    destruct Hty as [E|E]; rewrite E; reflexivity.
  - (* chars *)
    intros Hty. assert (Ht : atype_eqb (a_type a) TChars = true) by (rewrite Hty; reflexivity).
    pose proof (negb_and_negb _ _ C2 Ht) as Hf. destruct (ahi (a_arity a)); try discriminate. eauto.
  - (* pattern *)
    intros Hp. pose proof (negb_and_negb _ _ C3 Hp) as Hf. apply orb_true_iff in Hf.
    destruct Hf as [Hf|Hf]; apply atype_eqb_eq in Hf; auto.
  - destruct H0 as [E|E]; subst k.
    + pose proof (C4 f_min (or_introl eq_refl)) as Hm. cbv beta in Hm. rewrite H1 in Hm.
      apply vcheck_ok in Hm. apply andb_true_iff in Hm. tauto.
    + pose proof (C4 f_max (or_intror (or_introl eq_refl))) as Hm. cbv beta in Hm. rewrite H1 in Hm.
      apply vcheck_ok in Hm. apply andb_true_iff in Hm. tauto.
  - destruct H0 as [E|E]; subst k.
    + pose proof (C4 f_min (or_introl eq_refl)) as Hm. cbv beta in Hm. rewrite H1 in Hm.
      apply vcheck_ok in Hm. apply andb_true_iff in Hm. destruct Hm as [_ Hm]. destruct (fnum_of v); [eauto | discriminate].
    + pose proof (C4 f_max (or_intror (or_introl eq_refl))) as Hm. cbv beta in Hm. rewrite H1 in Hm.
      apply vcheck_ok in Hm. apply andb_true_iff in Hm. destruct Hm as [_ Hm]. destruct (fnum_of v); [eauto | discriminate].
  - (* min <= max *)
    intros vmin vmax x y E1 E2 E3 E4. rewrite E1, E2, E3, E4 in C5. apply vcheck_ok in C5.
    destruct (sf_gtb x y); [discriminate | reflexivity].
  - intros Hp. destruct (is_numeric (a_type a)) eqn:En; [reflexivity|]. rewrite Hp in C6. discriminate.
  - intros Hr. rewrite Hr in C7. destruct (a_default a); [reflexivity | discriminate..].
  - (* defaults *)
    unfold default_rules. destruct (a_default a) as [|f|x|l] eqn:Ed; [exact I| | |].
    + destruct (a_type a) eqn:Ety; try discriminate;
        (repeat (apply vthen_ok in H; let H1 := fresh "D" in destruct H as [H1 H]); apply vcheck_ok in D0, H;
         left; exists f; split; [reflexivity|]; split; [apply negb_true_iff in D0; apply Z.ltb_ge in D0; assumption|];
         intros h Eh; rewrite Eh in H; apply negb_true_iff in H; apply Z.ltb_ge in H; assumption).
    + destruct (a_type a) eqn:Ety; try discriminate.
      * apply vcheck_ok in H. apply orb_true_iff in H. destruct H as [H|H]; apply str_eqb_eq in H; subst; auto.
      * eauto.
      * eauto.
      * destruct (a_target a) as [t|]; [|discriminate].
        destruct (find_enum (s_enums s) t) as [e|] eqn:Ef; [|discriminate].
        apply vcheck_ok in H. apply smem_In in H. apply find_enum_some in Ef.
        exists x, t, e. auto.
    + destruct (a_type a) eqn:Ety; try discriminate;
        (repeat (apply vthen_ok in H; let H1 := fresh "D" in destruct H as [H1 H]); apply vcheck_ok in D, D0, H;
         right; exists l; split; [reflexivity|]; split;
         [simpl in D; apply negb_true_iff in D; apply is_scalar_false; assumption|]; split;
         [apply negb_true_iff in D0; apply Z.ltb_ge in D0; assumption|];
         intros h Eh; rewrite Eh in H; apply negb_true_iff in H; apply Z.ltb_ge in H; assumption).
Qed.

Lemma all_names_in_spec : forall bs names, all_names_in bs names = true -> names_in bs names.
Proof.
  intros bs names H b x Hb Hx. unfold all_names_in in H. rewrite forallb_forall in H.
  specialize (H b Hb). rewrite forallb_forall in H. apply smem_In. apply H. assumption.
Qed.

Lemma group_check_sound : forall s g, group_check g = VOk -> group_rules s g.
Proof.
  intros s g H. unfold group_check in H. apply vthen_ok in H. destruct H as [H1 H2]. rewrite vfor_ok in H1. split.
  - intros k bs d l Hin. specialize (H1 _ Hin). simpl in H1. apply vcheck_ok in H1.
    apply all_names_in_spec. exact H1.
  - intros Hv. rewrite Hv in H2. rewrite vfor_ok in H2. split.
    + intros n l Hin. specialize (H2 _ Hin). discriminate.
    + intros a Hin. specialize (H2 _ Hin). simpl in H2. apply vcheck_ok in H2. apply negb_true_iff in H2. exact H2.
Qed.

(* ---- expansion *)

Section Expand.
Variable s : schema.
Hypothesis Hnd : NoDup (map g_name (s_groups s)).

Lemma group_attrs_expands : forall left n l, group_attrs_rec (s_groups s) left n = GOk l ->
  exists g, group_named s n g /\ expands s (g_members g) l.
Proof.
  induction left as [|left' IH]; intros n l H; simpl in H; [discriminate|].
  destruct (find_group (s_groups s) n) as [g|] eqn:Ef; [|discriminate].
  apply find_group_some in Ef. exists g. split; [exact Ef|]. clear Ef.
  revert l H. induction (g_members g) as [|m ms IHm]; intros l H; [inversion H; constructor|].
  destruct m.
  - match type of H with match ?X with _ => _ end = _ => destruct X eqn:El end; [|discriminate].
    inversion H; subst. constructor. apply IHm. reflexivity.
  - destruct (group_attrs_rec (s_groups s) left' g0) eqn:Eg; [|discriminate].
    match type of H with match ?X with _ => _ end = _ => destruct X eqn:El end; [|discriminate].
    inversion H; subst. destruct (IH _ _ Eg) as (g' & Hg' & He'). econstructor; eauto.
  - constructor. apply IHm. assumption.
  - constructor. apply IHm. assumption.
  - constructor. apply IHm. assumption.
Qed.

Lemma expanded_attrs_expands : forall rl ms l, expanded_attrs_rec (s_groups s) rl ms = GOk l -> expands s ms l.
Proof.
  intros rl ms l H. unfold expanded_attrs_rec in H. destruct rl as [|left']; [discriminate|].
  revert l H. induction ms as [|m ms IHm]; intros l H; [inversion H; constructor|].
  destruct m.
  - match type of H with match ?X with _ => _ end = _ => destruct X eqn:El end; [|discriminate].
    inversion H; subst. constructor. apply IHm. reflexivity.
  - destruct (group_attrs_rec (s_groups s) left' g) eqn:Eg; [|discriminate].
    match type of H with match ?X with _ => _ end = _ => destruct X eqn:El end; [|discriminate].
    inversion H; subst. destruct (group_attrs_expands _ _ _ Eg) as (g' & Hg' & He'). econstructor; eauto.
  - constructor. apply IHm. assumption.
  - constructor. apply IHm. assumption.
  - constructor. apply IHm. assumption.
Qed.

End Expand.

Lemma seen_get_none : forall seen k, seen_get seen k = None -> ~ In k (map fst seen).
Proof.
  induction seen as [|[k' v] seen IH]; simpl; intros k H; [tauto|].
  destruct (str_eqb k' k) eqn:E; [discriminate|].
  intros [Hk|Hk]; [subst; rewrite str_eqb_refl in E; discriminate | exact (IH _ H Hk)].
Qed.

Lemma dup_check_ok : forall eline attrs seen names, dup_check eline seen attrs = Ok names ->
  NoDup (map fst seen) ->
  NoDup (map a_name attrs) /\ (forall a, In a attrs -> ~ In (a_name a) (map fst seen)) /\
  (forall x, In x names <-> In x (map fst seen) \/ In x (map a_name attrs)).
Proof.
  intros eline attrs. induction attrs as [|a r IH]; intros seen names H Hnd; simpl in H.
  - inversion H; subst. split; [constructor|]. split; [intros a []|]. intro x. simpl. tauto.
  - destruct (seen_get seen (a_name a)) eqn:Es; [discriminate|]. apply seen_get_none in Es.
    assert (Hnd' : NoDup (map fst ((a_name a, a_line a) :: seen))) by (simpl; constructor; assumption).
    destruct (IH _ _ H Hnd') as (H1 & H2 & H3). split; [|split].
    + simpl. constructor; [|assumption]. intro Hin. apply in_map_iff in Hin. destruct Hin as (b & Hb1 & Hb2).
      apply (H2 b Hb2). simpl. left. auto.
    + intros b [Hb|Hb]; [subst; assumption|]. intro Hin. apply (H2 b Hb). simpl. right. assumption.
    + intro x. rewrite H3. simpl. tauto.
Qed.

Lemma constraints_check_ok : forall names ms, constraints_check names ms = VOk ->
  forall k bs d l, In (MCon k bs d l) ms -> names_in bs names /\ (k = CRequires -> exists a b, bs = [[a]; [b]]).
Proof.
  intros names ms H k bs d l Hin. unfold constraints_check in H. rewrite vfor_ok in H. specialize (H _ Hin). simpl in H.
  apply vthen_ok in H. destruct H as [H1 H2]. apply vcheck_ok in H1. split; [apply all_names_in_spec; assumption|].
  intro Hk. subst k. apply vcheck_ok in H2. apply andb_true_iff in H2. destruct H2 as [H2 H3].
  destruct bs as [|b1 [|b2 [|b3 bs]]]; try discriminate.
  simpl in H3. destruct b1 as [|x1 [|? ?]]; try discriminate. destruct b2 as [|x2 [|? ?]]; try discriminate. eauto.
Qed.

Lemma element_check_sound : forall s rl e, NoDup (map g_name (s_groups s)) ->
  element_check_rec s rl e = VOk -> element_rules s e.
Proof.
  intros s rl e Hnd H. unfold element_check_rec in H.
  apply vthen_ok in H. destruct H as [H1 H]. apply vthen_ok in H. destruct H as [H2 H].
  apply vthen_ok in H. destruct H as [H3 H]. rewrite vfor_ok in H1.
  unfold element_rules. split; [|split; [|split; [|split]]].
  - intros k v Hk Hf. assert (Hin : In k [f_xml; f_alias]) by (destruct Hk; subst; simpl; auto).
    specialize (H1 _ Hin). cbv beta in H1. rewrite Hf in H1. apply vcheck_ok in H1. destruct v; try discriminate. eauto.
  - intros n Hf. rewrite Hf in H2. apply vcheck_ok in H2.
    destruct (find_element (s_elements s) n) as [e'|] eqn:Ef; [|discriminate].
    apply find_element_some in Ef. exists e'. exact Ef.
  - intros n c d l Hin. destruct (children_check_ok _ _ _ H3 (NoDup_nil _)) as (Hc & _ & _).
    destruct (Hc _ _ _ _ Hin) as (e' & Ef). apply find_element_some in Ef. exists e'. exact Ef.
  - destruct (children_check_ok _ _ _ H3 (NoDup_nil _)) as (_ & Hc & _). exact Hc.
  - destruct (expanded_attrs_rec (s_groups s) rl (e_members e)) as [attrs|x] eqn:Ex; [|discriminate].
    destruct (dup_check (e_line e) [] attrs) as [names|l|x] eqn:Ed; try discriminate.
    exists attrs. split; [eapply expanded_attrs_expands; eassumption|].
    destruct (dup_check_ok _ _ _ _ Ed (NoDup_nil _)) as (Hd1 & _ & Hd3). split; [assumption|].
    intros k bs d l Hin. destruct (constraints_check_ok _ _ H _ _ _ _ Hin) as [Hn Hr]. split; [|assumption].
    intros b x Hb Hx. specialize (Hn b x Hb Hx). apply Hd3 in Hn. destruct Hn as [[]|Hn]. assumption.
Qed.

(* ---- acyclicity *)

Section Acyclic.
Variable s : schema.
Hypothesis Hnd : NoDup (map g_name (s_groups s)).

Lemma find_group_named : forall n g, group_named s n g -> find_group (s_groups s) n = Some g.
Proof.
  intros n g [Hin Hn]. revert Hnd. induction (s_groups s) as [|x l IH]; intro Hnd'; [contradiction|].
  simpl in *. inversion Hnd' as [|? ? Hx Hl]; subst.
  destruct Hin as [Hin|Hin].
  - subst x. rewrite str_eqb_refl. reflexivity.
  - destruct (str_eqb (g_name x) (g_name g)) eqn:E.
    + apply str_eqb_eq in E. exfalso. apply Hx. rewrite E. apply in_map. assumption.
    + apply IH; assumption.
Qed.

Lemma cc_loop_use : forall left stack name ms b l,
  (fix loop (ms : list member) : vres :=
     match ms with
     | [] => VOk
     | MUse g' l :: r => match check_cycle_rec (s_groups s) left g' (stack ++ [name]) l with VOk => loop r | e => e end
     | _ :: r => loop r
     end) ms = VOk ->
  In (MUse b l) ms -> check_cycle_rec (s_groups s) left b (stack ++ [name]) l = VOk.
Proof.
  intros left stack name ms b l. induction ms as [|m ms IH]; intros H Hin; [contradiction|].
  destruct Hin as [Hin|Hin].
  - subst m. destruct (check_cycle_rec (s_groups s) left b (stack ++ [name]) l); [reflexivity | discriminate..].
  - destruct m; try (apply IH; assumption).
    destruct (check_cycle_rec (s_groups s) left g (stack ++ [name]) line); [apply IH; assumption | discriminate..].
Qed.

Lemma cc_edge : forall left a stack line b,
  check_cycle_rec (s_groups s) left a stack line = VOk -> use_edge s a b ->
  exists left' l', check_cycle_rec (s_groups s) left' b (stack ++ [a]) l' = VOk.
Proof.
  intros left a stack line b H (g & l & Hg & Hin). destruct left as [|left']; [discriminate|].
  cbn [check_cycle_rec] in H. destruct (smem a stack); [destruct left'; discriminate|].
  rewrite (find_group_named _ _ Hg) in H. exists left', l. eapply cc_loop_use; eassumption.
Qed.

Lemma cc_path : forall a c, use_path s a c -> forall left stack line,
  check_cycle_rec (s_groups s) left a stack line = VOk ->
  exists left' stack' l', check_cycle_rec (s_groups s) left' c stack' l' = VOk /\ incl (stack ++ [a]) stack'.
Proof.
  intros a c Hp. induction Hp as [a b He | a b c He Hp IH]; intros left stack line H.
  - destruct (cc_edge _ _ _ _ _ H He) as (left' & l' & H'). exists left', (stack ++ [a]), l'.
    split; [assumption | apply incl_refl].
  - destruct (cc_edge _ _ _ _ _ H He) as (left' & l' & H').
    destruct (IH _ _ _ H') as (left'' & stack'' & l'' & H'' & Hin).
    exists left'', stack'', l''. split; [assumption|].
    eapply incl_tran; [|exact Hin]. apply incl_appl. apply incl_refl.
Qed.

Lemma use_path_head_declared : forall a c, use_path s a c -> exists g, group_named s a g.
Proof. intros a c Hp. destruct Hp as [a b (g & l & Hg & _) | a b c (g & l & Hg & _) _]; eauto. Qed.

Lemma cc_acyclic : forall rl,
  (forall g, In g (s_groups s) -> check_cycle_rec (s_groups s) rl (g_name g) [] (g_line g) = VOk) ->
  forall n, ~ use_path s n n.
Proof.
  intros rl Hcc n Hp. destruct (use_path_head_declared _ _ Hp) as (g & Hg & Hn).
  pose proof (Hcc g Hg) as H0. rewrite Hn in H0.
  destruct (cc_path _ _ Hp _ _ _ H0) as (left' & stack' & l' & H' & Hin).
  assert (Hs : smem n stack' = true).
  { apply smem_In. apply Hin. apply in_app_iff. right. left. reflexivity. }
  destruct left' as [|left'']; [discriminate|]. cbn [check_cycle_rec] in H'. rewrite Hs in H'.
  destruct left''; discriminate.
Qed.

End Acyclic.

(* ---- the shared depth-first search is sound: everything it marks done is closed and cycle-free *)

Section DfsSound.
Variable succ : str -> sres.

Definition gedge (a b : str) : Prop := exists es l, succ a = SEdges es /\ In (b, l) es.
Inductive gpath : str -> str -> Prop :=
| gp_edge : forall a b, gedge a b -> gpath a b
| gp_step : forall a b c, gedge a b -> gpath b c -> gpath a c.
Definition is_node (n : str) : Prop := exists es, succ n = SEdges es.
Definition Good (D : list str) : Prop :=
  (forall a b, In a D -> gedge a b -> In b D \/ ~ is_node b) /\ (forall a, In a D -> ~ gpath a a).
Definition disjoint (p D : list str) : Prop := forall x, In x p -> ~ In x D.

Lemma gpath_head_node : forall a c, gpath a c -> is_node a.
Proof. intros a c H. destruct H as [a b (es & l & E & _) | a b c (es & l & E & _) _]; exists es; assumption. Qed.

Lemma closed_path : forall D a c, Good D -> In a D -> gpath a c -> In c D \/ ~ is_node c.
Proof.
  intros D a c [Hc _] Ha Hp. induction Hp as [a b He | a b c He Hp IH].
  - apply (Hc a b Ha He).
  - destruct (Hc a b Ha He) as [Hb|Hb]; [apply IH; assumption|].
    exfalso. apply Hb. eapply gpath_head_node. eassumption.
Qed.

Lemma dfs_sound : forall fuel es path done done',
  dfs fuel succ es path done = COk done' -> Good done -> disjoint path done ->
  incl done done' /\ Good done' /\ disjoint path done' /\
  (forall n l, In (n, l) es -> In n done' \/ ~ is_node n).
Proof.
  induction fuel as [|f IH]; intros es path done done' H HG Hd; [discriminate|].
  cbn [dfs] in H. revert done done' H HG Hd. induction es as [|[n line] r IHr]; intros done done' H HG Hd.
  - inversion H; subst. split; [apply incl_refl|]. split; [assumption|]. split; [assumption|]. intros n l [].
  - destruct (smem n path) eqn:Ep; [discriminate|].
    assert (Hnp : ~ In n path) by (intro Hin; apply smem_In in Hin; congruence).
    destruct (smem n done) eqn:Edn.
    { destruct (IHr _ _ H HG Hd) as (H1 & H2 & H3 & H4). split; [assumption|]. split; [assumption|]. split; [assumption|].
      intros n0 l0 [E|Hin]; [inversion E; subst; left; apply H1; apply smem_In; assumption | eauto]. }
    assert (Hnd : ~ In n done) by (intro Hin; apply smem_In in Hin; congruence).
    destruct (succ n) as [| |es'] eqn:Es; [|discriminate|].
    { destruct (IHr _ _ H HG Hd) as (H1 & H2 & H3 & H4). split; [assumption|]. split; [assumption|]. split; [assumption|].
      intros n0 l0 [E|Hin]; [inversion E; subst; right; intros (es0 & E0); congruence | eauto]. }
    destruct (dfs f succ es' (path ++ [n]) done) as [d1|l|e] eqn:Ed; try discriminate.
    assert (Hd' : disjoint (path ++ [n]) done).
    { intros x Hx. apply in_app_iff in Hx. destruct Hx as [Hx|[Hx|[]]]; [apply Hd; assumption | subst; assumption]. }
    destruct (IH _ _ _ _ Ed HG Hd') as (I1 & I2 & I3 & I4).
    assert (Hn1 : ~ In n d1) by (apply I3; apply in_app_iff; right; left; reflexivity).
    assert (HG' : Good (n :: d1)).
    { destruct I2 as [Hc Ha]. split.
      - intros a b [Ea|Ha1] He.
        + subst a. destruct He as (es0 & l0 & E0 & Hin). rewrite Es in E0. inversion E0; subst es0.
          destruct (I4 _ _ Hin) as [Hb|Hb]; [left; right; assumption | right; assumption].
        + destruct (Hc a b Ha1 He) as [Hb|Hb]; [left; right; assumption | right; assumption].
      - intros a [Ea|Ha1]; [|apply Ha; assumption]. subst a. intro Hp.
        assert (Hnode : is_node n) by (exists es'; assumption).
        inversion Hp as [a b He | a b c He Hp']; subst.
        + destruct He as (es0 & l0 & E0 & Hin). rewrite Es in E0. inversion E0; subst es0.
          destruct (I4 _ _ Hin) as [Hb|Hb]; [contradiction | apply Hb; assumption].
        + destruct He as (es0 & l0 & E0 & Hin). rewrite Es in E0. inversion E0; subst es0.
          destruct (I4 _ _ Hin) as [Hb|Hb].
          * destruct (closed_path d1 b n (conj Hc Ha) Hb Hp') as [Hn|Hn]; [contradiction | apply Hn; assumption].
          * apply Hb. eapply gpath_head_node. eassumption. }
    assert (Hdj : disjoint path (n :: d1)).
    { intros x Hx [E|Hin]; [subst; contradiction|]. apply (I3 x); [apply in_app_iff; left; assumption | assumption]. }
    destruct (IHr _ _ H HG' Hdj) as (H1 & H2 & H3 & H4).
    split; [intros x Hx; apply H1; right; apply I1; assumption|]. split; [assumption|]. split; [assumption|].
    intros n0 l0 [E|Hin]; [inversion E; subst; left; apply H1; left; reflexivity | eauto].
Qed.

Lemma Good_nil : Good [].
Proof. split; intros a; intros; contradiction. Qed.

(* all entries explored from the empty state: no node among them lies on a cycle *)
Lemma dfs_acyclic : forall fuel es done', dfs fuel succ es [] [] = COk done' ->
  forall n l, In (n, l) es -> ~ gpath n n.
Proof.
  intros fuel es done' H n l Hin Hp.
  destruct (dfs_sound _ _ _ _ _ H Good_nil (fun x (Hx : In x []) => match Hx with end)) as (_ & [_ Ha] & _ & H4).
  destruct (H4 n l Hin) as [Hn|Hn]; [exact (Ha n Hn Hp) | apply Hn; eapply gpath_head_node; eassumption].
Qed.

End DfsSound.

Lemma vres_of_ok : forall r, vres_of r = VOk -> exists d, r = COk d.
Proof. intros [d|l|e] H; simpl in H; try discriminate. eauto. Qed.

(* ---- use graph *)

Lemma use_edges_In : forall ms b l, In (b, l) (use_edges ms) <-> In (MUse b l) ms.
Proof.
  intros ms b l. unfold use_edges. rewrite in_flat_map. split.
  - intros (m & Hm & Hin). destruct m; simpl in Hin; try contradiction. destruct Hin as [E|[]]. inversion E; subst. assumption.
  - intro H. exists (MUse b l). split; [assumption | left; reflexivity].
Qed.

Lemma use_path_gpath : forall s, NoDup (map g_name (s_groups s)) ->
  forall a c, use_path s a c -> gpath (succ_use (s_groups s)) a c.
Proof.
  intros s Hnd a c Hp.
  assert (He : forall a b, use_edge s a b -> gedge (succ_use (s_groups s)) a b).
  { intros a0 b0 (g & l & Hg & Hin). exists (use_edges (g_members g)), l. split.
    - unfold succ_use. rewrite (find_group_named s Hnd _ _ Hg). reflexivity.
    - apply use_edges_In. assumption. }
  induction Hp as [a b H | a b c H Hp IH]; [apply gp_edge; auto | eapply gp_step; eauto].
Qed.

Lemma use_cycles_sound : forall s, NoDup (map g_name (s_groups s)) -> use_cycles (s_groups s) = VOk ->
  forall n, ~ use_path s n n.
Proof.
  intros s Hnd H n Hp. unfold use_cycles in H. apply vres_of_ok in H. destruct H as (d & H).
  destruct (use_path_head_declared s _ _ Hp) as (g & Hg & Hn).
  apply (dfs_acyclic _ _ _ _ H n (g_line g)).
  - apply in_map_iff. exists g. split; [rewrite Hn; reflexivity | assumption].
  - apply use_path_gpath; assumption.
Qed.

(* ---- child graph *)

Lemma find_element_named : forall s, NoDup (map e_name (s_elements s)) ->
  forall n e, element_named s n e -> find_element (s_elements s) n = Some e.
Proof.
  intros s Hnd n e [Hin Hn]. revert Hnd. induction (s_elements s) as [|x l IH]; intro Hnd'; [contradiction|].
  simpl in *. inversion Hnd' as [|? ? Hx Hl]; subst.
  destruct Hin as [Hin|Hin].
  - subst x. rewrite str_eqb_refl. reflexivity.
  - destruct (str_eqb (e_name x) (e_name e)) eqn:E.
    + apply str_eqb_eq in E. exfalso. apply Hx. rewrite E. apply in_map. assumption.
    + apply IH; assumption.
Qed.

Lemma edges_of_In : forall els ename ms es b c d l t,
  edges_of els ename ms = Some es -> In (MChild b c d l) ms -> b <> ename ->
  find_element els b = Some t -> fhas (e_facets t) f_alias = false -> In (b, l) es.
Proof.
  intros els ename ms. induction ms as [|m ms IH]; intros es b c d l t H Hin Hne Et Ha; [contradiction|].
  destruct Hin as [Hin|Hin].
  - subst m. simpl in H. destruct (str_eqb b ename) eqn:E; [apply str_eqb_eq in E; contradiction|].
    rewrite Et in H. destruct (edges_of els ename ms) as [es0|]; [|discriminate]. rewrite Ha in H.
    inversion H; subst. left. reflexivity.
  - destruct m; simpl in H; try (eapply IH; eassumption).
    destruct (str_eqb name ename); [eapply IH; eassumption|].
    destruct (find_element els name) as [t0|]; [|discriminate].
    destruct (edges_of els ename ms) as [es0|] eqn:E0; [|discriminate].
    assert (Hb : In (b, l) es0) by (eapply IH; eauto).
    destruct (fhas (e_facets t0) f_alias); inversion H; subst; [assumption | right; assumption].
Qed.

Lemma edges_of_some' : forall els ename ms,
  (forall n c d l, In (MChild n c d l) ms -> exists t, find_element els n = Some t) ->
  exists es, edges_of els ename ms = Some es.
Proof.
  intros els ename ms. induction ms as [|m ms IH]; intro Hc; [exists []; reflexivity|].
  assert (Hc' : forall n c d l, In (MChild n c d l) ms -> exists t, find_element els n = Some t)
    by (intros; eapply Hc; right; eassumption).
  destruct (IH Hc') as (es & Ees). destruct m; simpl; try (exists es; assumption).
  destruct (str_eqb name ename); [exists es; assumption|].
  destruct (Hc name card doc line (or_introl eq_refl)) as (t & Et). rewrite Et, Ees.
  destruct (fhas (e_facets t) f_alias); eauto.
Qed.

Lemma child_path_gpath : forall s, NoDup (map e_name (s_elements s)) ->
  (forall e, In e (s_elements s) -> forall n c d l, In (MChild n c d l) (e_members e) ->
                                    exists t, find_element (s_elements s) n = Some t) ->
  forall a c, child_path s a c -> gpath (succ_child (s_elements s)) a c.
Proof.
  intros s Hnd Hch a c Hp.
  assert (He : forall a b, child_edge s a b -> gedge (succ_child (s_elements s)) a b).
  { intros a0 b0 (e & t & c0 & d & l & Ha & Hin & Hne & Hb & Hal).
    pose proof (find_element_named s Hnd _ _ Ha) as Ea. pose proof (find_element_named s Hnd _ _ Hb) as Eb.
    destruct Ha as [Hae Hname]. destruct (edges_of_some' (s_elements s) (e_name e) (e_members e) (Hch e Hae)) as (es & Ees).
    exists es, l. split.
    - unfold succ_child. rewrite Ea, Ees. reflexivity.
    - eapply edges_of_In; try eassumption. rewrite Hname. assumption. }
  induction Hp as [a b H | a b c H Hp IH]; [apply gp_edge; auto | eapply gp_step; eauto].
Qed.

Lemma child_path_head : forall s a c, child_path s a c -> exists e, element_named s a e.
Proof. intros s a c H. destruct H as [a b (e & t & c0 & d & l & Ha & _) | a b c (e & t & c0 & d & l & Ha & _) _]; eauto. Qed.

Lemma child_cycles_sound : forall s, NoDup (map e_name (s_elements s)) ->
  (forall e, In e (s_elements s) -> forall n c d l, In (MChild n c d l) (e_members e) ->
                                    exists t, find_element (s_elements s) n = Some t) ->
  child_cycles s = VOk -> forall n, ~ child_path s n n.
Proof.
  intros s Hnd Hch H n Hp. unfold child_cycles in H. apply vres_of_ok in H. destruct H as (d0 & H).
  destruct (child_path_head s _ _ Hp) as (e & He & Hn).
  apply (dfs_acyclic _ _ _ _ H n (e_line e)).
  - apply in_map_iff. exists e. split; [rewrite Hn; reflexivity | assumption].
  - apply child_path_gpath; assumption.
Qed.


(* ---- _validate is sound *)

Lemma validate_sound : forall rl s, NoDup (map g_name (s_groups s)) -> NoDup (map e_name (s_elements s)) ->
  validate_rec rl s = VOk -> schema_rules s.
Proof.
  intros rl s Hnd Hnde H. unfold validate_rec in H.
  apply vthen_ok in H. destruct H as [H1 H]. apply vthen_ok in H. destruct H as [H2 H].
  apply vthen_ok in H. destruct H as [H3 H]. apply vthen_ok in H. destruct H as [H4 H].
  apply vthen_ok in H. destruct H as [Hcc H5].
  rewrite vfor_ok in H1, H2, H3, H4, H5.
  unfold schema_rules. split; [|split; [|split; [|split; [|split]]]].
  - intros ms n l Hms Hin. pose proof (uses_declared_ok _ _ (H3 ms Hms) n l Hin) as Hd.
    apply declared_group_in in Hd. exact Hd.
  - eapply cc_acyclic; eassumption.
  - apply Forall_forall. intros g Hg. apply group_check_sound. apply H2. assumption.
  - apply Forall_forall. intros e He. eapply element_check_sound; [assumption | apply H4; assumption].
  - intros ms a Hms Hin. apply validate_attr_sound. specialize (H5 ms Hms). rewrite vfor_ok in H5. apply H5.
    unfold member_attrs. apply in_flat_map. exists (MAttr a). split; [assumption | left; reflexivity].
  - apply child_cycles_sound; [assumption| |assumption].
    intros e He. eapply element_check_children. apply H4. assumption.
Qed.

Lemma parse_string_sound : forall rl text s, parse_string_rec rl text = Ok s -> WellFormed s.
Proof.
  intros rl text s H. pose proof (parse_string_syn _ _ _ H) as [Hsyn _].
  apply parse_string_ok_parse in H. destruct H as [_ Hv]. split; [assumption|].
  destruct Hsyn as (_ & Hg & He & _). eapply validate_sound; eassumption.
Qed.

Lemma rule_breaking_rejected : forall rl text s,
  (groups_of text + 2 <= rl)%nat -> parse_text text = Ok s -> ~ WellFormed s ->
  exists l, parse_string_rec rl text = SchemaErr l /\ 1 <= l <= cnl text + 1.
Proof.
  intros rl text s Hrl Hp Hw. destruct (parse_string_within_limit rl text Hrl) as [[s' H]|H]; [|exact H].
  exfalso. apply Hw. pose proof (parse_string_ok_parse _ _ _ H) as [Hp' _].
  rewrite Hp in Hp'. inversion Hp'; subst. eapply parse_string_sound; eassumption.
Qed.

Lemma validate_rejects : forall rl s, NoDup (map g_name (s_groups s)) -> NoDup (map e_name (s_elements s)) ->
  ~ schema_rules s -> validate_rec rl s <> VOk.
Proof. intros rl s Hnd Hnde Hr Hv. apply Hr. eapply validate_sound; eassumption. Qed.

(* ---- the RecursionError of _check_group_cycle is monotone in the frame budget *)

Definition cc_rel (r1 r0 : vres) : Prop :=
  match r1 with
  | VOk => r0 = VOk \/ r0 = VExn RecursionError
  | VExn _ => r0 = VExn RecursionError
  | VErr _ => True
  end.

Lemma cc_S : forall groups left' name stack line,
  check_cycle_rec groups (S left') name stack line =
  if smem name stack then match left' with O => VExn RecursionError | S _ => VErr line end
  else match find_group groups name with
       | None => VOk
       | Some g =>
         (fix loop (ms : list member) : vres :=
            match ms with
            | [] => VOk
            | MUse g' l :: r =>
              match check_cycle_rec groups left' g' (stack ++ [name]) l with VOk => loop r | e => e end
            | _ :: r => loop r
            end) (g_members g)
       end.
Proof. reflexivity. Qed.

Lemma cc_mono : forall groups left name stack line,
  cc_rel (check_cycle_rec groups (S left) name stack line) (check_cycle_rec groups left name stack line).
Proof.
  intros groups. induction left as [|l' IH]; intros name stack line.
  - change (check_cycle_rec groups 0 name stack line) with (VExn RecursionError).
    destruct (check_cycle_rec groups 1 name stack line); simpl; auto.
  - rewrite (cc_S groups (S l')), (cc_S groups l').
    destruct (smem name stack); [exact I|].
    destruct (find_group groups name) as [g|]; [|left; reflexivity].
    induction (g_members g) as [|m ms IHm]; [left; reflexivity|].
    destruct m; try exact IHm.
    specialize (IH g0 (stack ++ [name]) line0). unfold cc_rel in IH.
    destruct (check_cycle_rec groups (S l') g0 (stack ++ [name]) line0) eqn:E1.
    + destruct IH as [E0|E0]; rewrite E0.
      * exact IHm.
      * match goal with |- cc_rel ?X _ => destruct X end; simpl; auto.
    + exact I.
    + rewrite IH. simpl. reflexivity.
Qed.

Lemma cycle_step_mono1 : forall groups rl e,
  cycle_step (S rl) groups = VExn e -> cycle_step rl groups = VExn RecursionError.
Proof.
  intros groups rl e. unfold cycle_step. generalize groups at 1 3 as G.
  induction groups as [|g gs IH]; intros G H; cbn [vfor] in *; [discriminate|].
  pose proof (cc_mono G rl (g_name g) [] (g_line g)) as Hm. unfold cc_rel in Hm.
  destruct (check_cycle_rec G (S rl) (g_name g) [] (g_line g)).
  - destruct Hm as [E|E]; rewrite E; [|reflexivity]. apply IH. assumption.
  - discriminate.
  - rewrite Hm. reflexivity.
Qed.

Lemma cc_exn_rec : forall groups left name stack line e,
  check_cycle_rec groups left name stack line = VExn e -> e = RecursionError.
Proof.
  intros groups. induction left as [|l IH]; intros name stack line e E; [simpl in E; congruence|].
  rewrite cc_S in E. destruct (smem name stack); [destruct l; congruence|].
  destruct (find_group groups name) as [g'|]; [|discriminate].
  induction (g_members g') as [|m ms IHm]; [discriminate|].
  destruct m; try (apply IHm; assumption).
  destruct (check_cycle_rec groups l g (stack ++ [name]) line0) eqn:E'; [apply IHm; assumption | discriminate|].
  inversion E; subst. eapply IH; eassumption.
Qed.

Lemma cycle_step_exn : forall groups rl e, cycle_step rl groups = VExn e -> e = RecursionError.
Proof.
  intros groups rl e. unfold cycle_step. generalize groups at 1 as G.
  induction groups as [|g gs IH]; intros G H; cbn [vfor] in *; [discriminate|].
  destruct (check_cycle_rec G rl (g_name g) [] (g_line g)) eqn:E; [eapply IH; eassumption | discriminate|].
  inversion H; subst. eapply cc_exn_rec; eassumption.
Qed.

Lemma cycle_step_mono : forall groups rl e,
  cycle_step rl groups = VExn e -> forall rl', (rl' <= rl)%nat -> cycle_step rl' groups = VExn RecursionError.
Proof.
  intros groups rl. induction rl as [|rl IH]; intros e H rl' Hle.
  - assert (rl' = 0%nat) by lia. subst. rewrite H. f_equal. eapply cycle_step_exn; eassumption.
  - destruct (Nat.eq_dec rl' (S rl)) as [->|Hne].
    + rewrite H. f_equal. eapply cycle_step_exn; eassumption.
    + apply (IH RecursionError); [eapply cycle_step_mono1; eassumption | lia].
Qed.

Lemma recursion_monotone : forall text s rl e,
  parse_text text = Ok s -> cycle_step rl (s_groups s) = VExn e ->
  forall rl', (rl' <= rl)%nat -> parse_string_rec rl' text = PyExn RecursionError.
Proof.
  intros text s rl e Hp Hc rl' Hle. unfold parse_string_rec. rewrite Hp.
  pose proof (cycle_step_mono _ _ _ Hc rl' Hle) as H. unfold cycle_step in H.
  unfold validate_rec. rewrite H. reflexivity.
Qed.

Lemma recursion_refuted_all : forall rl, (rl <= 1000)%nat -> parse_string_rec rl (chain_text 1001) = PyExn RecursionError.
Proof.
  assert (H : exists s, parse_text (chain_text 1001) = Ok s /\ cycle_step 1000 (s_groups s) = VExn RecursionError).
  { eexists. split; [vm_compute; reflexivity | vm_compute; reflexivity]. }
  destruct H as (s & Hp & Hc). intros rl Hle. eapply recursion_monotone; eassumption.
Qed.

Lemma recursion_refuted_full :
  (forall rl, (rl <= 1000)%nat -> parse_string_rec rl (chain_text 1001) = PyExn RecursionError) /\
  groups_of (chain_text 1001) = 1001%nat /\
  parse_string_rec 100 (chain_text 101) = PyExn RecursionError /\
  is_ok (parse_string_rec 101 (chain_text 101)) = true.
Proof.
  split; [exact recursion_refuted_all|].
  destruct recursion_refuted as (_ & _ & H1 & H2 & H3). auto.
Qed.
