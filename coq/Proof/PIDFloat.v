(* C51: concrete binary64 states of the faithful model Model/PID.v in which the plugin state stored by
   the engine's integration of the act slice is NOT the state requested by Pid::ActDot: dyntype
   filterexact, and actlimited.  Both are replayed on the implementation by harness/props/c51.py
   (KNOWN_FINDINGS C51-F1). *)
From Coq Require Import ZArith List Bool PrimFloat.
From MJV Require Import Lib.Num Lib.NumF Lib.FloatFn Model.PID.
Import ListNotations.

(* one slide joint, one mujoco.pid actuator with ki = 1 only, dyntype filterexact, tau = 0.005,
   actdim 2, timestep 0.01, ctrl = 1: the state after the first mj_step of the corpus trajectory *)
Definition fx_cfg : @PidCfg float := cfg_of_attrs None (Some 1%float) None None None.
Definition fx_act : @ActPrm float := mkAct 0 3 false 0%float 0%float false 0%float 0%float false 0.005%float 0 2.
Definition fx_h : float := 0.01%float.
Definition fx_state : list float := [0; 0.86466472]%float.          (* integral slot, filter state *)
Definition fx_len : list float := [-0.000058486459]%float.
Definition fx_dot0 : list float := [0; 27.067057]%float.            (* engine's act_dot of the filter slot *)

Definition stored_integral (c : @PidCfg float) (a : @ActPrm float) (h : float) (ctrl len act dot0 : list float) : float :=
  let dot := inst_actdot c [a] h true ctrl len act dot0 in
  rd (inst_advance [a] h act dot act) (actadr a).

Lemma filterexact_state_refuted :
  act_valid fx_cfg fx_act = true /\ has_i fx_cfg = true /\ dyntype fx_act = 3%Z /\ actlimited fx_act = false /\
  fclose 0x1p-10 (stored_integral fx_cfg fx_act fx_h [1%float] fx_len fx_state fx_dot0)
                 (requested_integral fx_cfg fx_act fx_h true [1%float] fx_len fx_state fx_dot0) = false /\
  fclose 0x1p-20 (requested_integral fx_cfg fx_act fx_h true [1%float] fx_len fx_state fx_dot0) 0.008647232%float = true /\
  fclose 0x1p-20 (stored_integral fx_cfg fx_act fx_h [1%float] fx_len fx_state fx_dot0) 0.0037384782%float = true.
Proof. vm_compute. repeat split; reflexivity. Qed.

(* integrator dyntype with actrange [-0.001, 0.001]: the integral slot is clamped to the actrange *)
Definition al_act : @ActPrm float := mkAct 0 1 false 0%float 0%float true (-0.001)%float 0.001%float false 1%float 0 2.
Definition al_state : list float := [0.5; 0.001]%float.

Lemma actlimited_state_refuted :
  act_valid fx_cfg al_act = true /\ has_i fx_cfg = true /\ dyntype al_act = 1%Z /\ actlimited al_act = true /\
  fclose 0x1p-10 (stored_integral fx_cfg al_act fx_h [0.5%float] [0%float] al_state [0; 0.5]%float)
                 (requested_integral fx_cfg al_act fx_h true [0.5%float] [0%float] al_state [0; 0.5]%float) = false /\
  fclose 0x1p-20 (stored_integral fx_cfg al_act fx_h [0.5%float] [0%float] al_state [0; 0.5]%float) 0.001%float = true.
Proof. vm_compute. repeat split; reflexivity. Qed.
